import ExaModel.Lemmas.NegoOurs
import ExaModel.Lemmas.OpenCodecFrame
set_option linter.unusedSimpArgs false
set_option linter.unusedVariables false
/-! `cfgOK cfg → wfOpen (ourOpen cfg)`: every configuration in the closed-form class has an OPEN with
    a wire form (so `decodeOpen (encodeOpen (ourOpen cfg)) = ok (ourOpen cfg)`). -/
namespace Exa.Open

/-- a capability that fits one parameter of the one-octet format as well (value ≤ 253 octets) -/
def okCap (c : Cap) : Bool := wfCap c && decide (c.value.length ≤ 253)

theorem okCap_iff (c : Cap) :
    okCap c = true ↔ wfCapFields c = true ∧ WFBytes c.value ∧ c.value.length ≤ 253 := by
  simp only [okCap, wfCap, Bool.and_eq_true, decide_eq_true_eq]
  constructor
  · rintro ⟨⟨⟨h1, h2⟩, _⟩, h4⟩; exact ⟨h1, h2, h4⟩
  · rintro ⟨h1, h2, h3⟩; exact ⟨⟨⟨h1, h2⟩, by omega⟩, h3⟩

/-! ### octets of the entry lists -/

theorem wf_flat4 (es : List Triple) (h : es.all (wfTriple 256) = true) : WFBytes (es.flatMap encAddPathEntry) := by
  induction es with
  | nil => exact wfBytes_nil
  | cons e t ih =>
    simp only [List.all_cons, Bool.and_eq_true, wfTriple_iff] at h
    simp only [List.flatMap_cons]
    refine wfBytes_append ?_ (ih h.2)
    exact wfBytes_append (wf_be16 _) (wfBytes_cons h.1.2.1 (wfBytes_cons h.1.2.2 wfBytes_nil))

theorem len_flat4 (es : List Triple) : (es.flatMap encAddPathEntry).length = 4 * es.length := by
  induction es with
  | nil => rfl
  | cons e t ih => simp only [List.flatMap_cons, List.length_append, ih, encAddPathEntry, be16_length, List.length_cons, List.length_nil]; omega

theorem wf_flat6 (es : List Triple) (h : es.all (wfTriple 65536) = true) : WFBytes (es.flatMap encNextHopEntry) := by
  induction es with
  | nil => exact wfBytes_nil
  | cons e t ih =>
    simp only [List.all_cons, Bool.and_eq_true, wfTriple_iff] at h
    simp only [List.flatMap_cons]
    refine wfBytes_append ?_ (ih h.2)
    exact wfBytes_append (wfBytes_append (wf_be16 _) (wfBytes_cons (by omega) (wfBytes_cons h.1.2.1 wfBytes_nil))) (wf_be16 _)

theorem len_flat6 (es : List Triple) : (es.flatMap encNextHopEntry).length = 6 * es.length := by
  induction es with
  | nil => rfl
  | cons e t ih => simp only [List.flatMap_cons, List.length_append, ih, encNextHopEntry, be16_length, List.length_cons, List.length_nil]; omega

theorem wf_flat5 (es : List Triple) (h : es.all (wfTriple 65536) = true) : WFBytes (es.flatMap encPathsLimitEntry) := by
  induction es with
  | nil => exact wfBytes_nil
  | cons e t ih =>
    simp only [List.all_cons, Bool.and_eq_true, wfTriple_iff] at h
    simp only [List.flatMap_cons]
    refine wfBytes_append ?_ (ih h.2)
    exact wfBytes_append (wfBytes_append (wf_be16 _) (wfBytes_cons h.1.2.1 wfBytes_nil)) (wf_be16 _)

theorem len_flat5 (es : List Triple) : (es.flatMap encPathsLimitEntry).length = 5 * es.length := by
  induction es with
  | nil => rfl
  | cons e t ih => simp only [List.flatMap_cons, List.length_append, ih, encPathsLimitEntry, be16_length, List.length_cons, List.length_nil]; omega

theorem utf8Valid_ascii (l : Bytes) (h : ∀ b ∈ l, b < 128) : utf8Valid l = true := by
  induction l with
  | nil => rfl
  | cons b t ih =>
    have hb := h b (by simp)
    unfold utf8Valid
    simp only [hb, if_true]
    exact ih (fun x hx => h x (by simp [hx]))

theorem wfBytes_of_lt128 (l : Bytes) (h : ∀ b ∈ l, b < 128) : WFBytes l := fun b hb => by have := h b hb; omega

structure CfgFacts (cfg : Cfg) : Prop where
  las : cfg.localAs < 4294967296
  hold : cfg.hold < 65536
  rid : cfg.routerId < 4294967296
  fams : ∀ f ∈ cfg.families, f.1 < 65536 ∧ f.2 < 256
  nfam : cfg.families.length ≤ 62
  ap : cfg.addPath < 256
  pl : ∀ e ∈ cfg.pathsLimit, e.2 < 65536
  npl : cfg.pathsLimit.length ≤ 50
  host : ∀ b ∈ cfg.host, b < 128
  dom : ∀ b ∈ cfg.domain, b < 128
  swU : utf8Valid cfg.swVersion = true
  swB : ∀ b ∈ cfg.swVersion, b < 256
  swL : cfg.swVersion.length ≤ 252

theorem cfgFacts_of_ok (cfg : Cfg) (h : cfgOK cfg = true) : CfgFacts cfg := by
  simp only [cfgOK, Bool.and_eq_true, decide_eq_true_eq, List.all_eq_true] at h
  obtain ⟨⟨⟨⟨⟨⟨⟨⟨⟨⟨⟨⟨h1, h2⟩, h3⟩, h4⟩, h5⟩, h6⟩, h7⟩, h8⟩, h9⟩, h10⟩, h11⟩, h12⟩, h13⟩ := h
  exact ⟨h1, h2, h3, h4, h5, h6, h7, h8, h9, h10, h11, h12, h13⟩

theorem allowed_ap_ok : ∀ f ∈ addPathAllowed, f.1 < 65536 ∧ f.2 < 256 := by decide
theorem allowed_nh_ok : nexthopAllowed.all (wfTriple 65536) = true := by decide

theorem all_filter {α : Type} (l : List α) (p q : α → Bool) (h : l.all q = true) : (l.filter p).all q = true := by
  simp only [List.all_eq_true, List.mem_filter] at *
  intro x hx; exact h x hx.1

/-- every capability of the OPEN we build fits the wire, in either format -/
theorem ourCaps_ok (cfg : Cfg) (F : CfgFacts cfg) (c : Cap) (hc : c ∈ ourCaps cfg) : okCap c = true := by
  rw [okCap_iff]
  cases c with
  | mp a s =>
    have := F.fams _ ((ourCaps_mp cfg a s).1 hc)
    refine ⟨by simp [wfCapFields, this.1, this.2], ?_, by simp [Cap.value]⟩
    exact wfBytes_append (wf_be16 _) (wfBytes_cons (by omega) (wfBytes_cons this.2 wfBytes_nil))
  | asn4 v =>
    obtain ⟨_, rfl⟩ := (ourCaps_asn4_mem cfg v).1 hc
    exact ⟨by simp [wfCapFields, F.las], wf_be32 _, by simp [Cap.value]⟩
  | addpath es =>
    obtain ⟨_, rfl⟩ := (ourCaps_addpath_mem cfg es).1 hc
    have hall : ((addPathAllowed.filter (fun f => cfg.addpaths.contains f)).map (famTriple cfg.addPath)).all (wfTriple 256) = true := by
      simp only [List.all_eq_true, List.mem_map, List.mem_filter]
      rintro e ⟨f, ⟨hf, _⟩, rfl⟩
      have := allowed_ap_ok f hf
      simp [wfTriple_iff, famTriple, this.1, this.2, F.ap]
    have hlen : (addPathAllowed.filter (fun f => cfg.addpaths.contains f)).length ≤ 8 :=
      Nat.le_trans (List.length_filter_le _ _) (by decide)
    refine ⟨hall, wf_flat4 _ hall, ?_⟩
    simp only [Cap.value, len_flat4, List.length_map]; omega
  | nexthop es =>
    obtain ⟨_, rfl⟩ := (ourCaps_nexthop_mem cfg es).1 hc
    have hall := all_filter nexthopAllowed (fun t => cfg.nexthops.contains t) (wfTriple 65536) allowed_nh_ok
    have hlen : (nexthopAllowed.filter (fun t => cfg.nexthops.contains t)).length ≤ 4 :=
      Nat.le_trans (List.length_filter_le _ _) (by decide)
    refine ⟨hall, wf_flat6 _ hall, ?_⟩
    simp only [Cap.value, len_flat6]; omega
  | refresh => decide
  | refreshCisco => exact absurd hc (ourCaps_never cfg).1
  | enhanced => decide
  | extMsg => decide
  | operational => decide
  | linkLocal => decide
  | graceful fl t fams =>
    obtain ⟨rt, _, rfl, rfl, rfl⟩ := (ourCaps_graceful_mem cfg fl t fams).1 hc
    have ht : restartTime cfg rt % 4096 < 4096 := Nat.mod_lt _ (by omega)
    have hall : (cfg.families.map (famTriple 128)).all (wfTriple 256) = true := by
      simp only [List.all_eq_true, List.mem_map]
      rintro e ⟨f, hf, rfl⟩
      have := F.fams f hf
      simp [wfTriple_iff, famTriple, this.1, this.2]
    refine ⟨by simp [wfCapFields, ht, hall], wfBytes_append (wf_be16 _) (wf_flat4 _ hall), ?_⟩
    have := F.nfam
    simp only [Cap.value, List.length_append, be16_length, len_flat4, List.length_map]; omega
  | hostname h d =>
    obtain ⟨_, rfl, rfl⟩ := (ourCaps_hostname_mem cfg h d).1 hc
    have hh : ∀ b ∈ cfg.host.take 64, b < 128 := fun b hb => F.host b (List.mem_of_mem_take hb)
    have hd : ∀ b ∈ cfg.domain.take 64, b < 128 := fun b hb => F.dom b (List.mem_of_mem_take hb)
    have lh : (cfg.host.take 64).length ≤ 64 := by simp [List.length_take]; omega
    have ld : (cfg.domain.take 64).length ≤ 64 := by simp [List.length_take]; omega
    refine ⟨?_, ?_, ?_⟩
    · simp only [wfCapFields, utf8Valid_ascii _ hh, utf8Valid_ascii _ hd, Bool.and_eq_true, decide_eq_true_eq, true_and]
      omega
    · simp only [Cap.value]
      refine wfBytes_append (wfBytes_append (wfBytes_append ?_ (wfBytes_of_lt128 _ hh)) ?_) (wfBytes_of_lt128 _ hd)
      · exact wfBytes_cons (by omega) wfBytes_nil
      · exact wfBytes_cons (by omega) wfBytes_nil
    · simp only [Cap.value, List.length_append, List.length_cons, List.length_nil]; omega
  | software v =>
    obtain ⟨_, rfl⟩ := (ourCaps_software_mem cfg v).1 hc
    have := F.swL
    refine ⟨?_, ?_, ?_⟩
    · simp only [wfCapFields, F.swU, Bool.and_eq_true, decide_eq_true_eq, true_and]; omega
    · simp only [Cap.value]
      exact wfBytes_append (wfBytes_cons (by omega) wfBytes_nil) F.swB
    · simp only [Cap.value, List.length_append, List.length_cons, List.length_nil]; omega
  | multisession c v =>
    obtain ⟨_, rfl, hv⟩ := (ourCaps_multisession_mem cfg c v).1 hc
    rcases hv with rfl | rfl <;> decide
  | pathsLimit es =>
    obtain ⟨_, _, rfl⟩ := (ourCaps_pathsLimit_mem cfg es).1 hc
    have hall : (ourPathsLimit cfg).all (wfTriple 65536) = true := by
      simp only [List.all_eq_true]
      rintro ⟨a, s, l⟩ he
      have := (mem_ourPathsLimit cfg a s l).1 he
      have h1 := allowed_ap_ok (a, s) this.2.1
      have h2 := F.pl _ this.1
      simp only at h1 h2
      simp [wfTriple_iff, h1.1, h1.2, h2]
    have hlen : (ourPathsLimit cfg).length ≤ 50 := by
      simp only [ourPathsLimit, List.length_map]
      exact Nat.le_trans (List.length_filter_le _ _) F.npl
    refine ⟨hall, wf_flat5 _ hall, ?_⟩
    simp only [Cap.value, len_flat5]; omega
  | unknown c v => exact absurd hc ((ourCaps_never cfg).2.1 c v)

/-! ### how many capabilities, how many octets -/

theorem lemA (l : List Cap) (p : Prop) [Decidable p] (m : List Cap) (k : Nat) (h : l.length ≤ k) :
    (l ++ if p then m else []).length ≤ k + m.length := by
  split <;> simp <;> omega
theorem lemB (l : List Cap) (p : Prop) [Decidable p] (m : List Cap) (k : Nat) (h : l.length ≤ k) :
    (l ++ if p then [] else m).length ≤ k + m.length := by
  split <;> simp <;> omega
theorem lemL (l m : List Cap) (k : Nat) (h : l.length ≤ k) : (l ++ m).length ≤ k + m.length := by simp; omega
theorem lemN (l : List Cap) (k : Nat) (h : l.length ≤ k) : (l ++ []).length ≤ k + 1 := by simp; omega

/-- one MP per family and at most 15 other capabilities -/
theorem ourCaps_length (cfg : Cfg) : (ourCaps cfg).length ≤ cfg.families.length + 15 := by
  suffices h : (ourCaps cfg).length ≤ cfg.families.length + 1 + 1 + 1 + 1 + 1 + 2 + 1 + 1 + 1 + 1 + 1 + 2 by omega
  unfold ourCaps
  cases cfg.graceful with
  | none =>
    apply lemA; apply lemA; apply lemA; apply lemB; apply lemA; apply lemA; apply lemA
    apply lemN
    apply lemA; apply lemA; apply lemA; apply lemA
    simp
  | some t =>
    apply lemA; apply lemA; apply lemA; apply lemB; apply lemA; apply lemA; apply lemA
    apply lemL
    apply lemA; apply lemA; apply lemA; apply lemA
    simp

theorem singletons_wfGroup (ext : Bool) (caps : List Cap) (h : ∀ c ∈ caps, okCap c = true) :
    (caps.map (fun c => [c])).all (wfGroup ext) = true := by
  simp only [List.all_eq_true, List.mem_map]
  rintro g ⟨c, hc, rfl⟩
  have := (okCap_iff c).1 (h c hc)
  have hw : wfCap c = true := by
    have := h c hc; simp only [okCap, Bool.and_eq_true] at this; exact this.1
  have hl : groupLen [c] = c.value.length + 2 := by simp [groupLen, encCapTLV_length]
  simp only [wfGroup, List.all_cons, List.all_nil, hw, Bool.and_true, Bool.true_and, decide_eq_true_eq, hl]
  cases ext <;> simp <;> omega

theorem singletons_length (ext : Bool) (caps : List Cap) (h : ∀ c ∈ caps, okCap c = true) :
    (encParams ext (caps.map (fun c => [c]))).length ≤ 258 * caps.length := by
  induction caps with
  | nil => simp [encParams]
  | cons c t ih =>
    have hc := (okCap_iff c).1 (h c (by simp))
    have iht := ih (fun x hx => h x (by simp [hx]))
    have hl : groupLen [c] = c.value.length + 2 := by simp [groupLen, encCapTLV_length]
    have he := encGroup_length ext [c]
    simp only [encParams, List.map_cons, List.flatMap_cons, List.length_append, List.length_cons] at *
    cases ext
    · simp only [if_false, Bool.false_eq_true] at he; omega
    · simp only [if_true] at he; omega

theorem trans_lt (a : Nat) : trans a < 65536 := by
  unfold trans asTrans; split <;> omega

/-- **Every configuration of the closed-form class has an OPEN with a wire form.** -/
theorem cfgOK_wf (cfg : Cfg) (h : cfgOK cfg = true) : wfOpen (ourOpen cfg) = true := by
  have F := cfgFacts_of_ok cfg h
  have hok := ourCaps_ok cfg F
  have hn := ourCaps_length cfg
  have hnf := F.nfam
  have hfx : wfFixed (trans cfg.localAs) cfg.hold cfg.routerId = true := by
    simp only [wfFixed, Bool.and_eq_true, decide_eq_true_eq]
    exact ⟨⟨trans_lt _, F.hold⟩, F.rid⟩
  simp only [wfOpen, ourOpen, hfx, Bool.and_eq_true, decide_eq_true_eq, true_and]
  rw [wfGroups_iff]
  refine ⟨singletons_wfGroup _ _ hok, ?_⟩
  cases hx : useExtended (ourCaps cfg) with
  | false =>
    simp only [useExtended, Bool.not_eq_false', decide_eq_true_eq] at hx
    simp only [if_false, Bool.false_eq_true]; omega
  | true =>
    have := singletons_length true (ourCaps cfg) hok
    simp only [if_true]; omega

end Exa.Open
