import ExaModel.Model.Nego
import ExaModel.Generated.PyNego
set_option linter.unusedSimpArgs false
set_option linter.unusedVariables false
/-!
# M-Nego — the model's `validateOpen` computes what the translated `Negotiated.validate` computes

`Generated/PyNego.lean` is `Negotiated.validate` of /repo translated statement by statement on every run
(`harness/pylite.py`); its inputs are the AS numbers, the hold time of the peer's OPEN and three facts
computed elsewhere (identifier 0.0.0.0, identifier equal to ours, the multisession verdict).
-/
namespace Exa.Open
open Exa.Generated Exa.Generated.PyNego

/-- the multisession verdict as `validate` looks at it: `isinstance(self.multisession, tuple)` and the tuple -/
def MS.refused : MS → Bool
  | .err _ _ => true
  | _ => false
def MS.code : MS → Int
  | .err c _ => c
  | _ => 0
def MS.sub : MS → Int
  | .err _ s => s
  | _ => 0

/-- a model verdict as a result of the translated method -/
def liftValidate : Option Err → PyRes NegotiatedSt Unit
  | none => .ret () ⟨⟩
  | some e => .raise e.code e.sub

/-- `Negotiated.validate` as translated from /repo = `validateOpen` of the model, for every configuration,
    negotiated state and peer OPEN. -/
theorem py_validate_eq_model (cfg : Cfg) (n : Negotiated) (theirs : OpenMsg) :
    PyNego.Negotiated.validate ⟨⟩ cfg.peerAs n.peerAs (decide (theirs.bgpId = 0)) cfg.localAs
        (decide (theirs.bgpId = cfg.routerId)) theirs.hold n.multisession.refused n.multisession.code n.multisession.sub =
      liftValidate (validateOpen cfg n theirs) := by
  unfold PyNego.Negotiated.validate validateOpen
  have hms : ∀ m : MS, (if m.refused then (PyRes.raise m.code m.sub : PyRes NegotiatedSt Unit) else .ret () ⟨⟩) =
      liftValidate (match m with | .err c s => some ⟨c, s⟩ | _ => none) := by
    intro m; cases m <;> simp [MS.refused, MS.code, MS.sub, liftValidate]
  by_cases h1 : cfg.peerAs ≠ 0 ∧ n.peerAs ≠ cfg.peerAs
  · have : ((cfg.peerAs : Int) != 0 && (n.peerAs : Int) != (cfg.peerAs : Int)) = true := by
      simp only [Bool.and_eq_true, bne_iff_ne, ne_eq]; omega
    simp [this, h1, liftValidate]
  · have : ((cfg.peerAs : Int) != 0 && (n.peerAs : Int) != (cfg.peerAs : Int)) = false := by
      simp only [Bool.and_eq_false_iff, bne_eq_false_iff_eq]; omega
    rw [if_neg h1]
    simp only [this, Bool.false_eq_true, if_false]
    by_cases h2 : theirs.bgpId = 0
    · simp [h2, liftValidate]
    · simp only [h2, decide_false, Bool.false_eq_true, if_false]
      by_cases h3 : n.peerAs = cfg.localAs ∧ theirs.bgpId = cfg.routerId
      · have e1 : ((n.peerAs : Int) == (cfg.localAs : Int)) = true := by simp; omega
        simp [h3, e1, liftValidate]
      · rw [if_neg h3]
        have hnest : ∀ (A B : PyRes NegotiatedSt Unit),
            (if ((n.peerAs : Int) == (cfg.localAs : Int)) = true then
              (if decide (theirs.bgpId = cfg.routerId) = true then A else B) else B) = B := by
          intro A B
          by_cases e : n.peerAs = cfg.localAs
          · have e' : theirs.bgpId ≠ cfg.routerId := fun x => h3 ⟨e, x⟩
            simp [e, e']
          · have : ((n.peerAs : Int) == (cfg.localAs : Int)) = false := by simp; omega
            simp [this]
        rw [hnest]
        by_cases h4 : theirs.hold ≠ 0 ∧ theirs.hold < holdMin
        · have : ((theirs.hold : Int) != 0 && decide ((theirs.hold : Int) < 3)) = true := by
            unfold holdMin at h4
            simp only [Bool.and_eq_true, bne_iff_ne, ne_eq, decide_eq_true_eq]; omega
          simp only [this, if_true, if_pos h4, liftValidate]
          rfl
        · have : ((theirs.hold : Int) != 0 && decide ((theirs.hold : Int) < 3)) = false := by
            unfold holdMin at h4
            simp only [Bool.and_eq_false_iff, bne_eq_false_iff_eq, decide_eq_false_iff_not]; omega
          simp only [this, Bool.false_eq_true, if_false, if_neg h4]
          exact hms n.multisession

/-! ## The scalar part of `Negotiated._negotiate`

`Generated/PyNego.lean` also holds the slice of `_negotiate` that computes the scalar fields (hold time, asn4,
operational, the two AS numbers, the route-refresh flavour, the message size, link-local next hop), translated
statement by statement; what it reads of the two OPENs are inputs named by their source text.  They are
instantiated here with what `capSet` of the model holds: `caps.announced(code)` is "the entry is there",
`caps.get(FOUR_BYTES_ASN)` is an `ASN` exactly when it is there. -/

def Refresh.code : Refresh → Int
  | .absent => 1 | .normal => 2 | .enhanced => 4

/-- the scalar fields of the model's result as the state of the translated method -/
def scalarsOf (n : Negotiated) : NegotiatingSt :=
  { holdtime := n.hold, asn4 := n.asn4, operational := n.operational, local_as := n.localAs, peer_as := n.peerAs,
    refresh := n.refresh.code, msg_size := n.msgSize, linklocal_nexthop := n.linkLocal }

/-- **`_negotiate` as translated from /repo computes the scalar fields of `negotiateSets`**, for every pair of
    capability sets, AS-number fields and hold times, from the state `Negotiated.__init__` leaves
    (refresh ABSENT, message size 4096). -/
theorem py_negotiate_scalars_eq_model (oursAs oursHold theirsAs theirsHold : Nat) (s r : CapSet) (st0 : NegotiatingSt)
    (hr : st0.refresh = PyNego.refreshAbsent) (hm : st0.msg_size = PyNego.initialSize) :
    PyNego.Negotiating.negotiate_scalars st0 oursHold theirsHold oursAs theirsAs
        ((s.asn4.getD 0 : Nat) : Int) ((r.asn4.getD 0 : Nat) : Int) s.asn4.isSome r.asn4.isSome
        s.asn4.isSome r.asn4.isSome s.operational r.operational s.enhanced r.enhanced s.refresh r.refresh
        s.extMsg r.extMsg s.linkLocal r.linkLocal =
      .ret () (scalarsOf (negotiateSets oursAs oursHold theirsAs theirsHold s r)) := by
  -- the minimum of the two hold times, however the code writes it (`min`, or a conditional either way round)
  have hmin : (min (oursHold : Int) (theirsHold : Int)) = ((min oursHold theirsHold : Nat) : Int) := by omega
  have hmin' : (min (theirsHold : Int) (oursHold : Int)) = ((min oursHold theirsHold : Nat) : Int) := by omega
  have hc1 : (if theirsHold < oursHold then (theirsHold : Int) else oursHold) = ((min oursHold theirsHold : Nat) : Int) := by
    split <;> omega
  have hc2 : (if oursHold < theirsHold then (oursHold : Int) else theirsHold) = ((min oursHold theirsHold : Nat) : Int) := by
    split <;> omega
  have hc3 : (if theirsHold ≤ oursHold then (theirsHold : Int) else oursHold) = ((min oursHold theirsHold : Nat) : Int) := by
    split <;> omega
  have hc4 : (if oursHold ≤ theirsHold then (oursHold : Int) else theirsHold) = ((min oursHold theirsHold : Nat) : Int) := by
    split <;> omega
  have htr : ((theirsAs : Int) == 23456) = decide (theirsAs = 23456) := by
    by_cases h : theirsAs = 23456 <;> simp [h] <;> omega
  have htr' : ((theirsAs : Int) != 23456) = !decide (theirsAs = 23456) := by
    by_cases h : theirsAs = 23456 <;> simp [h] <;> omega
  unfold PyNego.Negotiating.negotiate_scalars scalarsOf negotiateSets asTrans
  simp only [hr, hm, PyNego.refreshAbsent, PyNego.initialSize, hmin, hmin', htr, htr']
  cases hs4 : s.asn4 <;> cases hr4 : r.asn4 <;> cases s.enhanced <;> cases r.enhanced <;> cases s.refresh <;>
    cases r.refresh <;> cases s.extMsg <;> cases r.extMsg <;> by_cases ht : theirsAs = 23456 <;>
    simp [ht, Refresh.code, initialSize, extendedSize, Bool.and_comm, hc1, hc2, hc3, hc4]

/-! ## The fixed part of a received OPEN (`Open.unpack_message`) -/

/-- what `decodeOpen` does before it reads the optional parameters -/
def openFront (body : Bytes) : Option Err :=
  if body.length < 10 then some ⟨1, 2⟩ else if body.getD 0 0 ≠ 4 then some ⟨2, 1⟩ else none

theorem decodeOpen_front (body : Bytes) (e : Err) (h : openFront body = some e) : decodeOpen body = .error e := by
  unfold openFront at h
  unfold decodeOpen
  by_cases h1 : body.length < 10
  · rw [if_pos h1] at h ⊢; cases h; rfl
  · rw [if_neg h1] at h ⊢
    by_cases h2 : body.getD 0 0 ≠ 4
    · rw [if_pos h2] at h ⊢; cases h; rfl
    · rw [if_neg h2] at h; cases h

/-- **`Open.unpack_message` as translated from /repo refuses exactly what `decodeOpen` refuses before it reads the
    optional parameters**, with the same NOTIFICATION (1/2 for a body shorter than the fixed part, 2/1 for a version
    other than 4), on what the model reads off the same bytes. -/
theorem py_open_fixed_eq_model (body : Bytes) :
    PyNego.OpenFixed.unpack_message ⟨⟩ body.length (body.getD 0 0) =
      (match openFront body with | some e => .raise e.code e.sub | none => .ret true ⟨⟩) := by
  unfold PyNego.OpenFixed.unpack_message openFront
  generalize body.getD 0 0 = v
  generalize body.length = n
  by_cases h1 : n < 10 <;> by_cases h2 : v = 4
  all_goals (
    have c1 : ((n : Int) < 10) ↔ n < 10 := by omega
    have c2 : ((v : Int) = 4) ↔ v = 4 := by omega
    simp [h1, h2, c1, c2])

end Exa.Open
