import ExaModel.Model.Nego
import ExaModel.Generated.PyNego
set_option linter.unusedSimpArgs false
set_option linter.unusedVariables false
/-!
# M-Nego — the model's `validateOpen` computes what the translated `Negotiated.validate` computes

`Generated/PyNego.lean` is `Negotiated.validate` of /repo translated statement by statement on every run
(`harness/pylite.py`); its inputs are the AS numbers, the hold time of the peer's OPEN and three facts
computed elsewhere (identifier 0.0.0.0, identifier equal to ours, the multisession verdict).
-/
namespace Exa.Open
open Exa.Generated Exa.Generated.PyNego

/-- the multisession verdict as `validate` looks at it: `isinstance(self.multisession, tuple)` and the tuple -/
def MS.refused : MS → Bool
  | .err _ _ => true
  | _ => false
def MS.code : MS → Int
  | .err c _ => c
  | _ => 0
def MS.sub : MS → Int
  | .err _ s => s
  | _ => 0

/-- a model verdict as a result of the translated method -/
def liftValidate : Option Err → PyRes NegotiatedSt Unit
  | none => .ret () ⟨⟩
  | some e => .raise e.code e.sub

/-- `Negotiated.validate` as translated from /repo = `validateOpen` of the model, for every configuration,
    negotiated state and peer OPEN. -/
theorem py_validate_eq_model (cfg : Cfg) (n : Negotiated) (theirs : OpenMsg) :
    PyNego.Negotiated.validate ⟨⟩ cfg.peerAs n.peerAs (decide (theirs.bgpId = 0)) cfg.localAs
        (decide (theirs.bgpId = cfg.routerId)) theirs.hold n.multisession.refused n.multisession.code n.multisession.sub =
      liftValidate (validateOpen cfg n theirs) := by
  unfold PyNego.Negotiated.validate validateOpen
  have hms : ∀ m : MS, (if m.refused then (PyRes.raise m.code m.sub : PyRes NegotiatedSt Unit) else .ret () ⟨⟩) =
      liftValidate (match m with | .err c s => some ⟨c, s⟩ | _ => none) := by
    intro m; cases m <;> simp [MS.refused, MS.code, MS.sub, liftValidate]
  by_cases h1 : cfg.peerAs ≠ 0 ∧ n.peerAs ≠ cfg.peerAs
  · have : ((cfg.peerAs : Int) != 0 && (n.peerAs : Int) != (cfg.peerAs : Int)) = true := by
      simp only [Bool.and_eq_true, bne_iff_ne, ne_eq]; omega
    simp [this, h1, liftValidate]
  · have : ((cfg.peerAs : Int) != 0 && (n.peerAs : Int) != (cfg.peerAs : Int)) = false := by
      simp only [Bool.and_eq_false_iff, bne_eq_false_iff_eq]; omega
    rw [if_neg h1]
    simp only [this, Bool.false_eq_true, if_false]
    by_cases h2 : theirs.bgpId = 0
    · simp [h2, liftValidate]
    · simp only [h2, decide_false, Bool.false_eq_true, if_false]
      by_cases h3 : n.peerAs = cfg.localAs ∧ theirs.bgpId = cfg.routerId
      · have e1 : ((n.peerAs : Int) == (cfg.localAs : Int)) = true := by simp; omega
        simp [h3, e1, liftValidate]
      · rw [if_neg h3]
        have hnest : ∀ (A B : PyRes NegotiatedSt Unit),
            (if ((n.peerAs : Int) == (cfg.localAs : Int)) = true then
              (if decide (theirs.bgpId = cfg.routerId) = true then A else B) else B) = B := by
          intro A B
          by_cases e : n.peerAs = cfg.localAs
          · have e' : theirs.bgpId ≠ cfg.routerId := fun x => h3 ⟨e, x⟩
            simp [e, e']
          · have : ((n.peerAs : Int) == (cfg.localAs : Int)) = false := by simp; omega
            simp [this]
        rw [hnest]
        by_cases h4 : theirs.hold ≠ 0 ∧ theirs.hold < holdMin
        · have : ((theirs.hold : Int) != 0 && decide ((theirs.hold : Int) < 3)) = true := by
            unfold holdMin at h4
            simp only [Bool.and_eq_true, bne_iff_ne, ne_eq, decide_eq_true_eq]; omega
          simp only [this, if_true, if_pos h4, liftValidate]
          rfl
        · have : ((theirs.hold : Int) != 0 && decide ((theirs.hold : Int) < 3)) = false := by
            unfold holdMin at h4
            simp only [Bool.and_eq_false_iff, bne_eq_false_iff_eq, decide_eq_false_iff_not]; omega
          simp only [this, Bool.false_eq_true, if_false, if_neg h4]
          exact hms n.multisession

end Exa.Open
