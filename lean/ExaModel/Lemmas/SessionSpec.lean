import ExaModel.Lemmas.SessionStep
set_option linter.unusedSimpArgs false
set_option linter.unusedVariables false
/-!
# M-Session — which NOTIFICATION answers which fault (towards C10 `code_is_class`)
-/
namespace Exa.Session

/-- why a message handed to a coroutine reading in FSM state `st` ends the session per the RFCs;
    `none`: the state accepts the message (or it is a NOTIFICATION: closed without reply). -/
def causeOf (st : Fsm) : Msg → Option Cause
  | .bad f => some (.fault f)
  | .operational => if st = .established then none else some (.unexpected .operational)
  | .notification => none
  | .openOk l => if st = .opensent then none else some (.unexpected (.openOk l))
  | .openSem e => if st = .opensent then some (.sem e) else some (.unexpected (.openSem e))
  | .keepalive => if st = .opensent then some (.unexpected .keepalive) else none
  | .update => if st = .established then none else some (.unexpected .update)
  | .refresh => if st = .established then none else some (.unexpected .refresh)

/-- what the model (= the code, by the correspondence) raises. -/
def modelCode (st : Fsm) : Msg → Nat × Nat
  | .bad f => raised f
  | .openSem e => if st = .opensent then semCode e else (5, fsmSub st)
  | _ => (5, fsmSub st)

def isReading : Fsm → Bool
  | .opensent | .openconfirm | .established => true
  | _ => false

/-- the table half of `code_is_class`: what is raised is in the RFC class. -/
theorem modelCode_in_class (st : Fsm) (m : Msg) (cause : Cause) (hst : isReading st = true)
    (hc : causeOf st m = some cause) : modelCode st m ∈ errorClass cause st := by
  cases st <;> simp [isReading] at hst <;> cases m <;> simp [causeOf] at hc <;> subst hc <;>
    first
      | decide
      | (rename_i f; cases f <;> decide)
      | (rename_i e; cases e <;> decide)

/-- the writes on connection `c` in a list of outputs. -/
def sendsOn (c : Nat) (os : List Out) : List Kind :=
  os.filterMap fun o => match o with
    | .send c' k _ => if c' = c then some k else none
    | _ => none

theorem sendsOn_append (c : Nat) (a b : List Out) : sendsOn c (a ++ b) = sendsOn c a ++ sendsOn c b := by
  simp [sendsOn, List.filterMap_append]

theorem sendsOn_nil (c : Nat) : sendsOn c [] = [] := rfl
theorem sendsOn_send_self (c : Nat) (k : Kind) (st : Fsm) (os : List Out) :
    sendsOn c (Out.send c k st :: os) = k :: sendsOn c os := by simp [sendsOn]
theorem sendsOn_fsm (c : Nat) (a b : Fsm) (os : List Out) : sendsOn c (Out.fsm a b :: os) = sendsOn c os := rfl
theorem sendsOn_close (c d : Nat) (os : List Out) : sendsOn c (Out.close d :: os) = sendsOn c os := rfl
theorem sendsOn_got (c d : Nat) (os : List Out) : sendsOn c (Out.gotNotification d :: os) = sendsOn c os := rfl
theorem sendsOn_down (c : Nat) (os : List Out) : sendsOn c (Out.down :: os) = sendsOn c os := rfl

/-- what `_close` tells the API process. -/
def downOut (s : State) : List Out := if s.cfg.changes && !s.dead then [Out.down] else []

theorem sendsOn_downOut (c : Nat) (s : State) : sendsOn c (downOut s) = [] := by
  unfold downOut; split <;> rfl

/-- the ghost marker `onProcessError` leaves when what could not be forwarded was a NOTIFICATION. -/
def gotNote (m : Msg) (s : State) : List Out :=
  match m, s.conn with
  | .notification, some c => [Out.gotNotification c.id]
  | _, _ => []

theorem sendsOn_gotNote (c : Nat) (m : Msg) (s : State) : sendsOn c (gotNote m s) = [] := by
  unfold gotNote; split <;> rfl

theorem closeP_snd (s : State) :
    (closeP s).2 = (if quietFsm s.fsm then [] else downOut s) ++ [Out.fsm s.fsm .idle] ++
      (match s.conn with | some c => [Out.close c.id] | none => []) := by
  simp only [closeP, apiDown, fsmTo, closeConn, andThen_snd, andThen_fst, quietFsm, downOut]
  cases hf : s.fsm <;> cases hc : s.conn <;> simp [hf, hc]

theorem resetP_snd (s : State) : (resetP s).2 = (closeP s).2 := by
  simp only [resetP, andThen_snd]
  split <;> simp

theorem stopIfExhausted_snd (s : State) :
    (stopIfExhausted s).2 = if canReconnect s then [] else [Out.fsm s.fsm .idle] := by
  unfold stopIfExhausted stopP fsmTo
  split <;> simp

theorem stopIfExhausted_conn (s : State) : (stopIfExhausted s).1.conn = s.conn := by
  unfold stopIfExhausted stopP fsmTo
  split <;> rfl

/-- outputs of `except Notify` when `peer.proto` is there and the write goes through. -/
theorem onNotify_outs (code sub : Nat) (s : State) (k : Conn) (hc : s.conn = some k) (hr : k.rst = false) :
    (onNotify code sub s).2 =
      [Out.send k.id (.notification code sub) s.fsm] ++ (if quietFsm s.fsm then [] else downOut s) ++
      [Out.fsm s.fsm .idle, Out.close k.id] ++ (if canReconnect s then [] else [Out.fsm .idle .idle]) := by
  have hs : (sendOn (.notification code sub) s).1 =
      ({ s with conn := some (markSent (.notification code sub) k) }, [Out.send k.id (.notification code sub) s.fsm]) := by
    simp [sendOn, hc, hr]
  simp only [onNotify, andThen_snd, andThen_fst, hs, resetP_snd, closeP_snd, stopIfExhausted_snd, finish, resetP_fst,
    List.append_nil]
  have hcr : canReconnect
      { s with fsm := Fsm.idle, conn := none,
               isUp := s.isUp && quietFsm s.fsm,
               teardown := if s.restart then none else s.teardown,
               refreshQ := if s.restart then 0 else s.refreshQ } = canReconnect s := rfl
  simp [markSent, canReconnect, downOut]

theorem onNotify_sends (code sub : Nat) (s : State) (k : Conn) (hc : s.conn = some k) (hr : k.rst = false) :
    sendsOn k.id (onNotify code sub s).2 = [.notification code sub] ∧ Out.close k.id ∈ (onNotify code sub s).2 ∧
    (onNotify code sub s).1.conn = none := by
  rw [onNotify_outs code sub s k hc hr, onNotify_fst]
  refine ⟨?_, by simp, rfl⟩
  cases quietFsm s.fsm <;> cases canReconnect s <;>
    simp [sendsOn_append, sendsOn_send_self, sendsOn_fsm, sendsOn_close, sendsOn_downOut, sendsOn_nil]

/-- handing `m` to the API process raises `ProcessError` (the process is gone and `m` is forwarded). -/
def apiFails (m : Msg) (s : State) : Bool := s.cfg.forward && s.dead && forwardRaises m

/-- the structural half of `code_is_class`: a message with a cause is answered by `onNotify`
    with `modelCode` — unless handing it to the API process already failed. -/
theorem deliver_eq_onNotify (m : Msg) (s : State) (hinv : Inv s) (c : Nat) (k : Conn)
    (haw : awaited s = some c) (hc : s.conn = some k) (hk : k.id = c) (cause : Cause)
    (hcause : causeOf s.fsm m = some cause) (hapi : apiFails m s = false) :
    deliver m s = onNotify (modelCode s.fsm m).1 (modelCode s.fsm m).2 s := by
  have hd : deliver m s = deliverAlive m s := by
    unfold deliver; unfold apiFails at hapi; rw [hapi]; simp
  rw [hd]
  cases hp : s.pc with
  | awaitOpen c' =>
    have hcc : c' = c := by simpa [awaited, hp] using haw
    subst hcc
    have hf := (hinv.awaitOpen _ k hp hc hk).1
    rw [hf] at hcause ⊢
    unfold deliverAlive; rw [hp]
    cases m <;> simp [causeOf] at hcause <;> simp [modelCode, fsmSub]
  | awaitKa c' =>
    have hcc : c' = c := by simpa [awaited, hp] using haw
    subst hcc
    have hf := (hinv.awaitKa _ k hp hc hk).1
    rw [hf] at hcause ⊢
    unfold deliverAlive; rw [hp]
    cases m <;> simp [causeOf] at hcause <;> simp [modelCode, fsmSub]
  | mainLoop c' =>
    have hcc : c' = c := by simpa [awaited, hp] using haw
    subst hcc
    have hf := (hinv.main _ k hp hc hk).1
    rw [hf] at hcause ⊢
    unfold deliverAlive; rw [hp]
    cases m <;> simp [causeOf] at hcause <;> simp [mainIter, modelCode, fsmSub]
  | backoff => simp [awaited, hp] at haw
  | done => simp [awaited, hp] at haw
  | passiveWait => simp [awaited, hp] at haw
  | connecting => simp [awaited, hp] at haw

/-- ... and when it failed: `except ProcessError` of `_run` — nothing is written, the connection is closed. -/
theorem deliver_process_error (m : Msg) (s : State) (k : Conn) (hc : s.conn = some k) (hapi : apiFails m s = true) :
    sendsOn k.id (deliver m s).2 = [] ∧ Out.close k.id ∈ (deliver m s).2 ∧ (deliver m s).1.conn = none := by
  have hd : deliver m s = onProcessError m s := by
    unfold deliver; unfold apiFails at hapi; rw [hapi]; simp
  rw [hd]
  have ho : (onProcessError m s).2 = gotNote m s ++ (closeP s).2 := by
    simp only [onProcessError, onOther, finish, resetP_snd, gotNote, andThen_snd, List.append_nil]
    cases m <;> cases s.conn <;> rfl
  refine ⟨?_, ?_, ?_⟩
  · rw [ho, closeP_snd, hc]
    cases quietFsm s.fsm <;>
      simp [sendsOn_append, sendsOn_fsm, sendsOn_close, sendsOn_downOut, sendsOn_nil, sendsOn_gotNote]
  · rw [ho, closeP_snd, hc]; simp
  · unfold onProcessError; rw [andThen_fst, onOther_fst]

end Exa.Session
