import ExaModel.Lemmas.SessionStep
set_option linter.unusedSimpArgs false
set_option linter.unusedVariables false
/-!
# M-Session — which NOTIFICATION answers which fault (towards C10 `code_is_class`)
-/
namespace Exa.Session

/-- why a message handed to a coroutine reading in FSM state `st` ends the session per the RFCs;
    `none`: the state accepts the message (or it is a NOTIFICATION: closed without reply). -/
def causeOf (st : Fsm) : Msg → Option Cause
  | .bad f => some (.fault f)
  | .operational => if st = .established then none else some (.unexpected .operational)
  | .notification => none
  | .openOk l => if st = .opensent then none else some (.unexpected (.openOk l))
  | .openSem e => if st = .opensent then some (.sem e) else some (.unexpected (.openSem e))
  | .keepalive => if st = .opensent then some (.unexpected .keepalive) else none
  | .update => if st = .established then none else some (.unexpected .update)
  | .refresh => if st = .established then none else some (.unexpected .refresh)

/-- what the model (= the code, by the correspondence) raises. -/
def modelCode (st : Fsm) : Msg → Nat × Nat
  | .bad f => raised f
  | .openSem e => if st = .opensent then semCode e else (5, fsmSub st)
  | _ => (5, fsmSub st)

def isReading : Fsm → Bool
  | .opensent | .openconfirm | .established => true
  | _ => false

/-- the table half of `code_is_class`: what is raised is in the RFC class. -/
theorem modelCode_in_class (st : Fsm) (m : Msg) (cause : Cause) (hst : isReading st = true)
    (hc : causeOf st m = some cause) : modelCode st m ∈ errorClass cause st := by
  cases st <;> simp [isReading] at hst <;> cases m <;> simp [causeOf] at hc <;> subst hc <;>
    first
      | decide
      | (rename_i f; cases f <;> decide)
      | (rename_i e; cases e <;> decide)

/-- outputs of `except Notify` when `peer.proto` is there and the write goes through. -/
theorem onNotify_outs (code sub : Nat) (s : State) (k : Conn) (hc : s.conn = some k) (hr : k.rst = false) :
    (onNotify code sub s).2 =
      [Out.send k.id (.notification code sub) s.fsm] ++ (if quietFsm s.fsm then [] else [Out.down]) ++
      [Out.fsm s.fsm .idle, Out.close k.id] ++ (if canReconnect s then [] else [Out.fsm .idle .idle]) := by
  obtain ⟨cfg, fsm, pc, conn, nextId, restart, teardown, attempts, rib, rq, rp, ep, ka, up⟩ := s
  simp only at hc
  subst hc
  simp only [onNotify, andThen_snd, andThen_fst, sendOn, hr, resetP, closeP, apiDown, fsmTo, closeConn, stopIfExhausted,
    stopP, finish, canReconnect, quietFsm]
  rcases Bool.eq_false_or_eq_true (cfg.maxAttempts == 0 || decide (attempts < cfg.maxAttempts)) with hcr | hcr <;>
    cases restart <;> cases fsm <;> simp [hcr, markSent]

/-- the writes on connection `c` in a list of outputs. -/
def sendsOn (c : Nat) (os : List Out) : List Kind :=
  os.filterMap fun o => match o with
    | .send c' k _ => if c' = c then some k else none
    | _ => none

theorem onNotify_sends (code sub : Nat) (s : State) (k : Conn) (hc : s.conn = some k) (hr : k.rst = false) :
    sendsOn k.id (onNotify code sub s).2 = [.notification code sub] ∧ Out.close k.id ∈ (onNotify code sub s).2 ∧
    (onNotify code sub s).1.conn = none := by
  rw [onNotify_outs code sub s k hc hr, onNotify_fst]
  refine ⟨?_, by simp, rfl⟩
  cases quietFsm s.fsm <;> cases canReconnect s <;> simp [sendsOn]

/-- the structural half of `code_is_class`: a message with a cause is answered by `onNotify`
    with `modelCode`. -/
theorem deliver_eq_onNotify (m : Msg) (s : State) (hinv : Inv s) (c : Nat) (k : Conn)
    (haw : awaited s = some c) (hc : s.conn = some k) (hk : k.id = c) (cause : Cause)
    (hcause : causeOf s.fsm m = some cause) :
    deliver m s = onNotify (modelCode s.fsm m).1 (modelCode s.fsm m).2 s := by
  cases hp : s.pc with
  | awaitOpen c' =>
    have hcc : c' = c := by simpa [awaited, hp] using haw
    subst hcc
    have hf := (hinv.awaitOpen _ k hp hc hk).1
    rw [hf] at hcause ⊢
    unfold deliver; rw [hp]
    cases m <;> simp [causeOf] at hcause <;> simp [modelCode, fsmSub]
  | awaitKa c' =>
    have hcc : c' = c := by simpa [awaited, hp] using haw
    subst hcc
    have hf := (hinv.awaitKa _ k hp hc hk).1
    rw [hf] at hcause ⊢
    unfold deliver; rw [hp]
    cases m <;> simp [causeOf] at hcause <;> simp [modelCode, fsmSub]
  | mainLoop c' =>
    have hcc : c' = c := by simpa [awaited, hp] using haw
    subst hcc
    have hf := (hinv.main _ k hp hc hk).1
    rw [hf] at hcause ⊢
    unfold deliver; rw [hp]
    cases m <;> simp [causeOf] at hcause <;> simp [mainIter, modelCode, fsmSub]
  | backoff => simp [awaited, hp] at haw
  | done => simp [awaited, hp] at haw
  | passiveWait => simp [awaited, hp] at haw
  | connecting => simp [awaited, hp] at haw

end Exa.Session
