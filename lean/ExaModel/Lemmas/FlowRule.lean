import ExaModel.Lemmas.FlowRaw
set_option linter.unusedSimpArgs false
set_option linter.unusedSectionVars false
/-! The rule layer: operator byte fields, `interp (toRaw c) = c`, shapes of encoded components. -/
namespace Exa.Flow

theorem b2n_le (b : Bool) : b2n b ≤ 1 := by cases b <;> simp [b2n]
theorem b2n_eq_one (b : Bool) : decide (b2n b = 1) = b := by cases b <;> simp [b2n]

section opbyte
variable (eol and lt gt eq : Bool) (code : Nat) (hc : code < 4)
include hc

theorem opEol_opByte : opEol (opByte eol and code lt gt eq) = eol := by
  have h1 := b2n_le eol; have h2 := b2n_le and; have h3 := b2n_le lt; have h4 := b2n_le gt; have h5 := b2n_le eq
  have : (opByte eol and code lt gt eq) / 128 % 2 = b2n eol := by simp only [opByte]; omega
  simp only [opEol, this, b2n_eq_one]

theorem opAnd_opByte : opAnd (opByte eol and code lt gt eq) = and := by
  have h1 := b2n_le eol; have h2 := b2n_le and; have h3 := b2n_le lt; have h4 := b2n_le gt; have h5 := b2n_le eq
  have : (opByte eol and code lt gt eq) / 64 % 2 = b2n and := by simp only [opByte]; omega
  simp only [opAnd, this, b2n_eq_one]

theorem opCode_opByte : (opByte eol and code lt gt eq) / 16 % 4 = code := by
  have h1 := b2n_le eol; have h2 := b2n_le and; have h3 := b2n_le lt; have h4 := b2n_le gt; have h5 := b2n_le eq
  simp only [opByte]; omega

theorem opWidth_opByte : opWidth (opByte eol and code lt gt eq) = 2 ^ code := by
  simp only [opWidth, opCode_opByte eol and lt gt eq code hc]

theorem opLt_opByte : opLt (opByte eol and code lt gt eq) = lt := by
  have h1 := b2n_le eol; have h2 := b2n_le and; have h3 := b2n_le lt; have h4 := b2n_le gt; have h5 := b2n_le eq
  have : (opByte eol and code lt gt eq) / 4 % 2 = b2n lt := by simp only [opByte]; omega
  simp only [opLt, this, b2n_eq_one]

theorem opGt_opByte : opGt (opByte eol and code lt gt eq) = gt := by
  have h1 := b2n_le eol; have h2 := b2n_le and; have h3 := b2n_le lt; have h4 := b2n_le gt; have h5 := b2n_le eq
  have : (opByte eol and code lt gt eq) / 2 % 2 = b2n gt := by simp only [opByte]; omega
  simp only [opGt, this, b2n_eq_one]

theorem opEq_opByte : opEq (opByte eol and code lt gt eq) = eq := by
  have h1 := b2n_le eol; have h2 := b2n_le and; have h3 := b2n_le lt; have h4 := b2n_le gt; have h5 := b2n_le eq
  have : (opByte eol and code lt gt eq) % 2 = b2n eq := by simp only [opByte]; omega
  simp only [opEq, this, b2n_eq_one]

theorem opByte_lt : opByte eol and code lt gt eq < 256 := by
  have h1 := b2n_le eol; have h2 := b2n_le and; have h3 := b2n_le lt; have h4 := b2n_le gt; have h5 := b2n_le eq
  simp only [opByte]; omega

end opbyte

theorem widthCode_lt (v : Nat) : widthCode v < 4 := by
  simp only [widthCode]; split <;> (try split) <;> (try split) <;> omega

/-- the chosen width holds the value (values below 2^64) -/
theorem widthCode_fits (v : Nat) (h : v < 18446744073709551616) : v < 256 ^ (2 ^ widthCode v) := by
  simp only [widthCode]
  split
  · simpa using (by omega : v < 256)
  · split
    · show v < 256 ^ 2; omega
    · split
      · show v < 256 ^ 4; omega
      · show v < 256 ^ 8; omega

/-- … and no shorter one of 1, 2, 4, 8 does -/
theorem widthCode_min (v w : Nat) (hw : w = 1 ∨ w = 2 ∨ w = 4 ∨ w = 8) (h : v < 256 ^ w) : 2 ^ widthCode v ≤ w := by
  simp only [widthCode]
  rcases hw with rfl | rfl | rfl | rfl
  · have : v < 256 := by simpa using h
    simp [this]
  · have : v < 65536 := by simpa using h
    split <;> (try split) <;> simp <;> omega
  · have : v < 4294967296 := by simpa using h
    split <;> (try split) <;> (try split) <;> simp <;> omega
  · split <;> (try split) <;> (try split) <;> simp

theorem maxWidth_cases (t : Nat) : maxWidth t = 1 ∨ maxWidth t = 2 ∨ maxWidth t = 4 := by
  simp only [maxWidth]; split <;> (try split) <;> simp

theorem maxWidth_bound (t v : Nat) (h : v < 256 ^ maxWidth t) : v < 4294967296 := by
  rcases maxWidth_cases t with e | e | e <;> rw [e] at h <;> omega

/-- the shortest width is one the component allows -/
theorem widthCode_allowed (t v : Nat) (h : v < 256 ^ maxWidth t) : 2 ^ widthCode v ≤ maxWidth t := by
  apply widthCode_min
  · rcases maxWidth_cases t with e | e | e <;> simp [e]
  · exact h

/-! ### terms -/

theorem toRawTerms_length (ts : List Term) : (toRawTerms ts).length = ts.length := by
  induction ts with
  | nil => rfl
  | cons t ts ih =>
    cases ts with
    | nil => rfl
    | cons t' ts' => simp only [toRawTerms, List.length_cons] at ih ⊢; omega

theorem toRawTerms_shape (ts : List Term) (h : ts ≠ []) : TermsShape (toRawTerms ts) := by
  induction ts with
  | nil => exact absurd rfl h
  | cons t ts ih =>
    cases ts with
    | nil =>
      simp only [toRawTerms, TermsShape, toRawTerm]
      refine ⟨opEol_opByte _ _ _ _ _ _ (widthCode_lt _), ?_⟩
      rw [opWidth_opByte _ _ _ _ _ _ (widthCode_lt _), beN_length]
    | cons t' ts' =>
      have hrec := ih (by simp)
      simp only [toRawTerms] at hrec ⊢
      cases hts : toRawTerms (t' :: ts') with
      | nil =>
        have := toRawTerms_length (t' :: ts'); rw [hts] at this; simp at this
      | cons r rs =>
        rw [hts] at hrec
        simp only [TermsShape, toRawTerm]
        refine ⟨opEol_opByte _ _ _ _ _ _ (widthCode_lt _), ?_, hrec⟩
        rw [opWidth_opByte _ _ _ _ _ _ (widthCode_lt _), beN_length]

theorem interpTerm_toRawTerm (numeric first last : Bool) (t : Term)
    (hv : t.value < 4294967296) (hf : first = true → t.andBit = false) (hn : numeric = false → t.lt = false) :
    interpTerm numeric first (toRawTerm last t) = t := by
  have hc := widthCode_lt t.value
  simp only [interpTerm, toRawTerm, opAnd_opByte _ _ _ _ _ _ hc, opLt_opByte _ _ _ _ _ _ hc,
    opGt_opByte _ _ _ _ _ _ hc, opEq_opByte _ _ _ _ _ _ hc, rdN_beN_lt (widthCode_fits t.value (by omega))]
  cases t with
  | mk a l g e v =>
    simp only [Term.mk.injEq, and_true]
    refine ⟨?_, ?_⟩
    · cases first
      · simp
      · simp at hf; simp [hf]
    · cases numeric
      · simp at hn; simp [hn]
      · rfl

theorem map_interp_toRawTerms (numeric : Bool) (ts : List Term)
    (hv : ∀ t ∈ ts, t.value < 4294967296) (hn : ∀ t ∈ ts, numeric = false → t.lt = false) :
    (toRawTerms ts).map (interpTerm numeric false) = ts := by
  induction ts with
  | nil => rfl
  | cons t ts ih =>
    have h1 := interpTerm_toRawTerm numeric false
    cases ts with
    | nil =>
      simp only [toRawTerms, List.map_cons, List.map_nil]
      rw [h1 true t (hv t (by simp)) (by simp) (hn t (by simp))]
    | cons t' ts' =>
      simp only [toRawTerms, List.map_cons]
      rw [h1 false t (hv t (by simp)) (by simp) (hn t (by simp))]
      have := ih (fun x hx => hv x (List.mem_cons_of_mem _ hx)) (fun x hx => hn x (List.mem_cons_of_mem _ hx))
      rw [this]

theorem interpTerms_toRawTerms (numeric : Bool) (ts : List Term)
    (hv : ∀ t ∈ ts, t.value < 4294967296) (hn : ∀ t ∈ ts, numeric = false → t.lt = false)
    (hf : ∀ t ∈ ts.take 1, t.andBit = false) :
    interpTerms numeric (toRawTerms ts) = ts := by
  cases ts with
  | nil => rfl
  | cons t ts =>
    have hft : t.andBit = false := hf t (by simp)
    cases ts with
    | nil =>
      simp only [toRawTerms, interpTerms, List.map_nil]
      rw [interpTerm_toRawTerm numeric true true t (hv t (by simp)) (fun _ => hft) (hn t (by simp))]
    | cons t' ts' =>
      simp only [toRawTerms, interpTerms]
      rw [interpTerm_toRawTerm numeric true false t (hv t (by simp)) (fun _ => hft) (hn t (by simp))]
      have := map_interp_toRawTerms numeric (t' :: ts') (fun x hx => hv x (List.mem_cons_of_mem _ hx))
        (fun x hx => hn x (List.mem_cons_of_mem _ hx))
      rw [this]

/-! ### prefixes -/

theorem pow256 (n : Nat) : 256 ^ n = 2 ^ (n * 8) := by
  rw [Nat.mul_comm, Nat.pow_mul]

theorem patBytes_ge (bits : Nat) : bits ≤ patBytes bits * 8 := by
  simp only [patBytes]; omega

@[simp] theorem patEncode_length (bits pat : Nat) : (patEncode bits pat).length = patBytes bits := by
  simp [patEncode]

theorem patDecode_patEncode (bits pat : Nat) (h : pat < 2 ^ bits) : patDecode bits (patEncode bits pat) = pat := by
  have hge := patBytes_ge bits
  have hpos : 0 < 2 ^ (patBytes bits * 8 - bits) := Nat.pow_pos (by omega)
  have hlt : pat * 2 ^ (patBytes bits * 8 - bits) < 256 ^ patBytes bits := by
    rw [pow256]
    have : 2 ^ (patBytes bits * 8) = 2 ^ bits * 2 ^ (patBytes bits * 8 - bits) := by
      rw [← Nat.pow_add]; congr 1; omega
    rw [this]
    exact Nat.mul_lt_mul_of_pos_right h hpos
  simp only [patDecode, patEncode]
  rw [rdN_beN_lt hlt, Nat.mul_div_cancel _ hpos]

/-! ### components -/

theorem toRaw_ty (c : Comp) : (toRaw c).ty = c.ty := by cases c <;> rfl
theorem interp_ty (v6 : Bool) (c : RawComp) : (interp v6 c).ty = c.ty := by cases c <;> rfl

theorem kindOf_prefix (v6 : Bool) (ty : Nat) (h : ty = 1 ∨ ty = 2) : kindOf v6 ty = some .prefix := by
  simp [kindOf, h]

theorem toRaw_shape (v6 : Bool) (c : Comp) (h : WFComp v6 c) : CompShape v6 rfcP6 (toRaw c) := by
  cases c with
  | prefix4 ty len pat =>
    obtain ⟨hv, hty, hlen, _⟩ := h
    exact ⟨hv, kindOf_prefix v6 ty hty, hlen, by simp⟩
  | prefix6 ty len off pat =>
    obtain ⟨hv, hty, hok, _⟩ := h
    exact ⟨hv, kindOf_prefix v6 ty hty, len - off, by simp [rfcP6, hok], by simp⟩
  | ops ty ts =>
    obtain ⟨hk, hne, _, _⟩ := h
    exact ⟨hk, toRawTerms_shape ts hne⟩

theorem interp_toRaw (v6 : Bool) (c : Comp) (h : WFComp v6 c) : interp v6 (toRaw c) = c := by
  cases c with
  | prefix4 ty len pat =>
    obtain ⟨_, _, _, hp⟩ := h
    simp only [toRaw, interp, patDecode_patEncode len pat hp]
  | prefix6 ty len off pat =>
    obtain ⟨_, _, _, hp⟩ := h
    simp only [toRaw, interp, patDecode_patEncode (len - off) pat hp]
  | ops ty ts =>
    obtain ⟨_, _, hwf, hfirst⟩ := h
    simp only [toRaw, interp]
    rw [interpTerms_toRawTerms _ ts (fun t ht => maxWidth_bound ty _ (hwf t ht).1) (fun t ht => (hwf t ht).2) hfirst]

theorem map_toRaw_ty (r : Rule) : (r.map toRaw).map RawComp.ty = r.map Comp.ty := by
  simp [List.map_map, Function.comp_def, toRaw_ty]

/-- what is on the wire for a well-formed rule reads back, component for component -/
theorem decodeRaw_encodeFlow (v6 : Bool) (r : Rule) (h : ∀ c ∈ r, WFComp v6 c) :
    decodeRaw v6 (encodeFlow r) = .ok (r.map toRaw) := by
  simp only [decodeRaw, encodeFlow]
  apply decodeComps_complete
  · intro c hc
    obtain ⟨c', hc', rfl⟩ := List.mem_map.1 hc
    exact toRaw_shape v6 c' (h c' hc')
  · omega

theorem flow_roundtrip' (v6 : Bool) (r : Rule) (h : WFRule v6 r) : decodeFlow v6 (encodeFlow r) = .ok r := by
  obtain ⟨hc, ha⟩ := h
  have hm : List.map (interp v6) (List.map toRaw r) = r := by
    rw [List.map_map]
    calc List.map (interp v6 ∘ toRaw) r = List.map id r := by
          apply List.map_congr_left
          intro c hc'
          exact interp_toRaw v6 c (hc c hc')
      _ = r := by simp
  simp only [decodeFlow, decodeRaw_encodeFlow v6 r hc, map_toRaw_ty, ha, if_true, hm]

end Exa.Flow
