import ExaModel.Model.Health
import ExaModel.Generated.PyHealth
set_option linter.unusedSimpArgs false
set_option linter.unusedVariables false
/-!
# M-Health — the hand-written state machine computes what the translated Python computes

`Generated/PyHealth.lean` is `trigger` and `one` of `healthcheck.loop` translated statement by
statement on every run (`harness/pylite.py`).  States are numbered in the order of `class States`.
-/
namespace Exa.Health
open Exa.Generated Exa.Generated.PyHealth

/-- position of the state in `class States` -/
def St.code : St → Int
  | .init => 0 | .disabled => 1 | .rising => 2 | .falling => 3 | .up => 4 | .down => 5 | .exit => 6 | .end_ => 7

theorem St.code_inj (a b : St) (h : a.code = b.code) : a = b := by
  cases a <;> cases b <;> simp [St.code] at h <;> rfl

/-- the numbering is the one of the source on this run -/
theorem stateNames_eq : PyHealth.stateNames = St.all.map St.name := by decide

theorem py_trigger_eq_model (c : Cfg) (t : St) :
    PyHealth.Health.trigger t.code c.rise c.fall = (trigger c t).code := by
  unfold PyHealth.Health.trigger trigger
  cases t <;> simp [St.code] <;> split <;> simp_all [St.code]

/-- what the translated `one` returns, from what the model's `fsm` returns: the pair
    `(checks, state)`, the state handed to `exabgp` (`emitted`, unchanged when it is not called),
    or the `ValueError` of an unhandled state. -/
def pyOfFsm (c : Cfg) (l : Loop) (e0 : Int) (r : Loop × Option St × Bool) : PyRes HealthSt (Int × Int) :=
  if r.2.2 then .raise (-1) (-1)
  else .ret (r.1.checks, r.1.st.code) ⟨if !c.debounce || r.1.st != l.st then r.1.st.code else e0⟩

/-- `one(checks, state)` as translated from /repo = the model's `fsm` (and so `one`, `handed`), for
    every configuration, loop state, disable-file state and check result. -/
theorem py_one_eq_model (c : Cfg) (l : Loop) (i : Inp) (e0 : Int) :
    PyHealth.Health.one ⟨e0⟩ l.checks l.st.code c.rise c.fall c.debounce c.hasDisable i.file i.ok =
      pyOfFsm c l e0 (fsm c l i) := by
  obtain ⟨checks, st⟩ := l
  obtain ⟨file, ok⟩ := i
  unfold PyHealth.Health.one fsm Inp.disabled Inp.successful PyHealth.Health.trigger trigger pyOfFsm
  cases st <;> simp only [St.code] <;>
    cases hd : (c.hasDisable && file) <;> cases ok <;> cases hb : c.debounce <;>
    simp [hd, hb, St.code, Inp.disabled] <;> (repeat' split) <;> simp_all [St.code, Inp.disabled] <;> omega

/-- the effect recorded by the translation is the model's `handed` -/
theorem pyOfFsm_emitted (c : Cfg) (l : Loop) (i : Inp) (e0 : Int) (h : (fsm c l i).2.2 = false) :
    pyOfFsm c l e0 (fsm c l i) =
      .ret ((one c l i).checks, (one c l i).st.code) ⟨match handed c l i with | some t => t.code | none => e0⟩ := by
  unfold pyOfFsm handed one
  simp only [h, Bool.false_eq_true, if_false]
  split <;> rfl

end Exa.Health
