import ExaModel.Lemmas.WireExaWF
import ExaModel.Lemmas.WireExaSpec
set_option linter.unusedSimpArgs false
/-!
  M-Wire-Exa, part 4 of the lemmas: looking an attribute up in the block (`findSome?` over the slots of
  the packing loop), M-Wire's finders and the canonical report as such look-ups.
-/
namespace Exa.WireExa
open Exa Exa.Wire

/-! ### the finders of M-Wire as `findSome?` -/

def gAs4 (a : Attr) : Option (List Seg) := match a.val with | .as4Path s => some s | _ => none
def gAgg (a : Attr) : Option (Nat × Nat) := match a.val with | .aggregator x y => some (x, y) | _ => none
def gAgg4 (a : Attr) : Option (Nat × Nat) := match a.val with | .as4Aggregator x y => some (x, y) | _ => none
def gNh (a : Attr) : Option Nat := match a.val with | .nextHop ip => some ip | _ => none

theorem findAs4Path_eq (l : List Attr) : findAs4Path l = l.findSome? gAs4 := by
  induction l with
  | nil => rfl
  | cons a t ih =>
    simp only [findAs4Path, List.findSome?_cons, gAs4]
    cases a.val <;> simp [ih]

theorem findAgg_eq (l : List Attr) : findAgg l = l.findSome? gAgg := by
  induction l with
  | nil => rfl
  | cons a t ih =>
    simp only [findAgg, List.findSome?_cons, gAgg]
    cases a.val <;> simp [ih]

theorem findAgg4_eq (l : List Attr) : findAgg4 l = l.findSome? gAgg4 := by
  induction l with
  | nil => rfl
  | cons a t ih =>
    simp only [findAgg4, List.findSome?_cons, gAgg4]
    cases a.val <;> simp [ih]

theorem findNextHop_eq (l : List Attr) : findNextHop l = l.findSome? gNh := by
  induction l with
  | nil => rfl
  | cons a t ih =>
    simp only [findNextHop, List.findSome?_cons, gNh]
    cases a.val <;> simp [ih]

theorem gAs4_none (a : Attr) (h : a.code ≠ 17) : gAs4 a = none := by
  unfold gAs4; unfold Attr.code at h; cases hv : a.val <;> simp_all [AttrVal.code]
theorem gAgg_none (a : Attr) (h : a.code ≠ 7) : gAgg a = none := by
  unfold gAgg; unfold Attr.code at h; cases hv : a.val <;> simp_all [AttrVal.code]
theorem gAgg4_none (a : Attr) (h : a.code ≠ 18) : gAgg4 a = none := by
  unfold gAgg4; unfold Attr.code at h; cases hv : a.val <;> simp_all [AttrVal.code]
theorem gNh_none (a : Attr) (h : a.code ≠ 3) : gNh a = none := by
  unfold gNh; unfold Attr.code at h; cases hv : a.val <;> simp_all [AttrVal.code]

/-! ### looking a type code up in the report -/

theorem find_insertVal (v : AttrVal) (l : List AttrVal) (c : Nat) :
    (insertVal v l).find? (fun w => w.code == c) = if v.code == c then some v else l.find? (fun w => w.code == c) := by
  induction l with
  | nil => simp [insertVal, List.find?]
  | cons w t ih =>
    unfold insertVal
    by_cases h : v.code ≤ w.code
    · simp only [h, if_true, List.find?_cons]
      cases hv : (v.code == c) <;> simp
    · simp only [h, if_false, List.find?_cons, ih]
      cases hw : (w.code == c)
      · simp
      · have hw' : w.code = c := by simpa using hw
        have hv : (v.code == c) = false := by
          simp only [beq_eq_false_iff_ne]; omega
        simp [hv]

theorem find_sortVals (l : List AttrVal) (c : Nat) :
    (sortVals l).find? (fun w => w.code == c) = l.find? (fun w => w.code == c) := by
  induction l with
  | nil => rfl
  | cons v t ih =>
    simp only [sortVals, find_insertVal, ih, List.find?_cons]
    cases (v.code == c) <;> simp

/-- What attribute `a` contributes to the report under type code `c`. -/
def repAt (R : Attr → Option AttrVal) (c : Nat) (a : Attr) : Option AttrVal :=
  match R a with
  | some v => if v.code == c then some v else none
  | none => none

theorem find_filterMap (R : Attr → Option AttrVal) (l : List Attr) (c : Nat) :
    (l.filterMap R).find? (fun w => w.code == c) = l.findSome? (repAt R c) := by
  induction l with
  | nil => rfl
  | cons a t ih =>
    simp only [List.filterMap_cons, List.findSome?_cons, repAt]
    cases hR : R a with
    | none => simp [ih]
    | some v =>
      simp only [List.find?_cons]
      cases hv : (v.code == c) <;> simp [ih]

theorem reportAttr_eq (p : Params) (u : UpdateSem) (c : Nat) :
    reportAttr p u c = u.attrs.findSome? (repAt (reportVal p u.attrs) c) := by
  simp only [reportAttr, report, find_sortVals, find_filterMap]

theorem reportVal_code (p : Params) (as : List Attr) (a : Attr) (v : AttrVal)
    (h : reportVal p as a = some v) : v.code = a.code := by
  unfold reportVal at h
  unfold Attr.code
  cases hv : a.val <;> simp only [hv] at h
  all_goals try (first | (cases h; done) | (cases h; rfl))
  case unknown c raw =>
    split at h
    · cases h; rfl
    · split at h
      · cases h; rfl
      · cases h
  case asPath s =>
    split at h
    · cases h; rfl
    · split at h
      · split at h <;> (cases h; rfl)
      · cases h; rfl
  case aggregator asn ip =>
    split at h
    · cases h; rfl
    · split at h
      · split at h <;> (cases h; rfl)
      · cases h; rfl

theorem repAt_none (p : Params) (as : List Attr) (c : Nat) (a : Attr) (h : a.code ≠ c) :
    repAt (reportVal p as) c a = none := by
  unfold repAt
  cases hR : reportVal p as a with
  | none => rfl
  | some v =>
    have := reportVal_code p as a v hR
    have hv : (v.code == c) = false := by simp only [beq_eq_false_iff_ne]; omega
    simp [hv]

/-! ### `findSome?` over the slots -/

theorem findSome_none_of_all {β : Type} (l : List Attr) (g : Attr → Option β) (h : ∀ a ∈ l, g a = none) :
    l.findSome? g = none := by
  induction l with
  | nil => rfl
  | cons a t ih =>
    simp only [List.findSome?_cons, h a (by simp)]
    exact ih (fun x hx => h x (List.mem_cons_of_mem _ hx))

theorem findSome_append {β : Type} (a b : List Attr) (g : Attr → Option β) :
    (a ++ b).findSome? g = match a.findSome? g with | some x => some x | none => b.findSome? g := by
  induction a with
  | nil => rfl
  | cons x t ih =>
    simp only [List.cons_append, List.findSome?_cons]
    cases g x <;> simp [ih]

theorem findSome_flatMap_none {β : Type} (ks : List Nat) (sem : Nat → List Attr) (g : Attr → Option β)
    (h : ∀ k ∈ ks, ∀ a ∈ sem k, g a = none) : (ks.flatMap sem).findSome? g = none := by
  apply findSome_none_of_all
  intro a ha
  simp only [List.mem_flatMap] at ha
  obtain ⟨k, hk, hk'⟩ := ha
  exact h k hk a hk'

theorem findSome_flatMap_one {β : Type} (ks : List Nat) (sem : Nat → List Attr) (g : Attr → Option β) (k : Nat)
    (hnd : ks.Nodup) (hk : k ∈ ks) (h : ∀ k' ∈ ks, k' ≠ k → ∀ a ∈ sem k', g a = none) :
    (ks.flatMap sem).findSome? g = (sem k).findSome? g := by
  induction ks with
  | nil => cases hk
  | cons k0 t ih =>
    simp only [List.flatMap_cons, findSome_append]
    simp only [List.nodup_cons] at hnd
    by_cases e : k0 = k
    · subst e
      have : (t.flatMap sem).findSome? g = none := by
        apply findSome_flatMap_none
        intro k' hk' a ha
        exact h k' (List.mem_cons_of_mem _ hk') (by intro e; subst e; exact hnd.1 hk') a ha
      rw [this]
      cases (sem k0).findSome? g <;> rfl
    · have h0 : (sem k0).findSome? g = none :=
        findSome_none_of_all _ _ (fun a ha => h k0 (by simp) e a ha)
      rw [h0]
      simp only
      rcases List.mem_cons.1 hk with hk | hk
      · exact absurd hk.symm e
      · exact ih hnd.2 hk (fun k' hk' => h k' (List.mem_cons_of_mem _ hk'))

theorem codeOrder_nodup : codeOrder.Nodup := by decide

/-- A look-up for type code `c` only sees the slot that can emit `c`. -/
theorem find_semAll_slot {β : Type} (p : SessParams) (r : RouteReq) (nh : Bytes) (g : Attr → Option β) (c k : Nat)
    (hg : ∀ a, a.code ≠ c → g a = none) (hk : k ∈ codeOrder)
    (hs : ∀ k' ∈ codeOrder, k' ≠ k → c ∉ slot k') :
    (semAll p r nh).findSome? g = (semCode p r nh k).findSome? g := by
  unfold semAll
  apply findSome_flatMap_one _ _ _ _ codeOrder_nodup hk
  intro k' hk' hne a ha
  apply hg
  intro e
  exact hs k' hk' hne (e ▸ mem_code_slot p r nh k' a ha)

theorem find_semAll_none {β : Type} (p : SessParams) (r : RouteReq) (nh : Bytes) (g : Attr → Option β) (c : Nat)
    (hg : ∀ a, a.code ≠ c → g a = none) (hs : ∀ k' ∈ codeOrder, c ∉ slot k') :
    (semAll p r nh).findSome? g = none := by
  unfold semAll
  apply findSome_flatMap_none
  intro k' hk' a ha
  apply hg
  intro e
  exact hs k' hk' (e ▸ mem_code_slot p r nh k' a ha)

/-- A tail that contributes nothing to a look-up. -/
theorem findSome_append_tail {β : Type} (a b : List Attr) (g : Attr → Option β) (h : ∀ x ∈ b, g x = none) :
    (a ++ b).findSome? g = a.findSome? g := by
  rw [findSome_append, findSome_none_of_all b g h]
  cases a.findSome? g <;> rfl

end Exa.WireExa
