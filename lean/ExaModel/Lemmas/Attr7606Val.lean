/-
  M-Attr7606, value level: what the repaired value decoders accept is well-formed by the RFC syntax
  (`valOutcome allFix … = .ok → wfVal …`), and codes outside `specCodes` are never malformed by value or flags.
-/
import ExaModel.Model.Attr7606
set_option linter.unusedSimpArgs false
set_option linter.unusedVariables false

namespace Exa.Attr7606
open Exa Exa.Wire
open Exa.Generated.AttrTable (Row)

theorem decSegs_cons2 (w4 : Bool) (f t c : Nat) (r : Bytes) : decSegs w4 (f + 1) (t :: c :: r) =
    (if t = 0 ∨ t > 4 ∨ c = 0 then none
     else match decAsns w4 c r with
       | none => none
       | some (as, rest) =>
         match decSegs w4 f rest with
         | none => none
         | some ss => some ((t, as) :: ss)) := by
  rfl

theorem decSegs_nil (w4 : Bool) (f : Nat) : decSegs w4 f [] = some [] := by
  cases f <;> rfl

/-- ExaBGP's segment walk with the zero-count repair accepts only what the reference `decSegs` accepts. -/
theorem exaSegs_decSegs (w4 : Bool) : ∀ (f : Nat) (v : Bytes), exaSegs true w4 f v = true → (decSegs w4 f v).isSome = true := by
  intro f
  induction f with
  | zero =>
    intro v h
    cases v with
    | nil => simp [decSegs]
    | cons a t => simp [exaSegs] at h
  | succ f ih =>
    intro v h
    match v with
    | [] => simp [decSegs_nil]
    | [_] => simp [exaSegs] at h
    | t :: c :: r =>
      rw [decSegs_cons2]
      simp only [exaSegs] at h
      by_cases h1 : t = 0 ∨ t > 4
      · simp [h1] at h
      · by_cases h2 : c = 0
        · simp [h1, h2] at h
        · have h3 : ¬ (t = 0 ∨ t > 4 ∨ c = 0) := by omega
          simp only [h1, h2, if_false, false_and] at h
          simp only [h3, if_false]
          cases hd : decAsns w4 c r with
          | none => simp [hd] at h
          | some pr =>
            obtain ⟨as, rest⟩ := pr
            simp only [hd] at h
            have := ih rest h
            cases hs : decSegs w4 f rest with
            | none => simp [hs] at this
            | some ss => simp [hs]

theorem eq_nil_of_isEmpty {v : Bytes} (h : v.isEmpty = true) : v = [] := by
  cases v <;> simp_all

theorem segs_wf (w4 : Bool) (v : Bytes) (h : v.isEmpty = true ∨ exaSegs true w4 v.length v = true) :
    ∃ ss, decSegs w4 v.length v = some ss := by
  rcases h with h | h
  · have := eq_nil_of_isEmpty h; subst this; exact ⟨[], decSegs_nil _ _⟩
  · have := exaSegs_decSegs w4 v.length v h
    cases hd : decSegs w4 v.length v with
    | none => simp [hd] at this
    | some ss => exact ⟨ss, rfl⟩

/-- The repaired value decoders accept only RFC-well-formed values (non-emptiness of the list-valued
    attributes is the caller's zero-length test). -/
theorem valOutcome_wfVal (xp : XP) (code : Nat) (v : Bytes) (hc : code ∈ specCodes)
    (hok : valOutcome allFix xp code v = .ok) (hne : mustNonEmpty.contains code = true → v ≠ []) :
    wfVal xp.p code v = true := by
  have hne' : ∀ c, code = c → mustNonEmpty.contains c = true → v.isEmpty = false := by
    intro c hcc hcn; subst hcc
    have := hne hcn
    cases v <;> simp_all
  simp only [specCodes, List.mem_cons, List.mem_nil_iff, or_false] at hc
  rcases hc with h | h | h | h | h | h | h | h | h | h | h | h | h | h | h | h | h <;> subst h
  · simp [valOutcome, allFix] at hok
    simp [wfVal, decVal, nonEmptyCodes]
    grind
  · -- AS_PATH
    have hs : v.isEmpty = true ∨ exaSegs true xp.p.asn4 v.length v = true := by
      simp [valOutcome, allFix] at hok
      grind
    obtain ⟨ss, hss⟩ := segs_wf _ _ hs
    simp [wfVal, decVal, nonEmptyCodes, hss]
  · have hn := hne' 3 rfl (by decide)
    simp [valOutcome, allFix] at hok
    simp [wfVal, decVal, nonEmptyCodes]
    grind
  · simp [valOutcome, allFix] at hok
    simp [wfVal, decVal, nonEmptyCodes]
    grind
  · simp [valOutcome, allFix] at hok
    simp [wfVal, decVal, nonEmptyCodes]
    grind
  · simp [valOutcome, allFix] at hok
    simp [wfVal, decVal, nonEmptyCodes]
    grind
  · simp [valOutcome, allFix] at hok
    simp [wfVal, decVal, nonEmptyCodes]
    grind
  · have hn := hne' 8 rfl (by decide)
    simp [valOutcome, allFix] at hok
    simp [wfVal, decVal, nonEmptyCodes]
    grind
  · simp [valOutcome, allFix] at hok
    simp [wfVal, decVal, nonEmptyCodes]
    grind
  · have hn := hne' 10 rfl (by decide)
    simp [valOutcome, allFix] at hok
    simp [wfVal, decVal, nonEmptyCodes]
    grind
  · simp [valOutcome, allFix, exaMpReach] at hok
    simp [wfVal, decVal, nonEmptyCodes]
    grind
  · simp [valOutcome, allFix, exaMpUnreach] at hok
    simp [wfVal, decVal, nonEmptyCodes]
    grind
  · have hn := hne' 16 rfl (by decide)
    simp [valOutcome, allFix] at hok
    simp [wfVal, decVal, nonEmptyCodes]
    grind
  · -- AS4_PATH
    have hs : v.isEmpty = true ∨ exaSegs true true v.length v = true := by
      simp [valOutcome, allFix] at hok
      grind
    obtain ⟨ss, hss⟩ := segs_wf _ _ hs
    simp [wfVal, decVal, nonEmptyCodes, hss]
  · simp [valOutcome, allFix] at hok
    simp [wfVal, decVal, nonEmptyCodes]
    grind
  · have hn := hne' 25 rfl (by decide)
    simp [valOutcome, allFix] at hok
    simp [wfVal, decVal, nonEmptyCodes]
    grind
  · have hn := hne' 32 rfl (by decide)
    simp [valOutcome, allFix] at hok
    simp [wfVal, decVal, nonEmptyCodes]
    grind

theorem lookup_none_of {β : Type} (code : Nat) : ∀ (l : List (Nat × β)), (∀ e ∈ l, e.1 ≠ code) → l.lookup code = none
  | [], _ => rfl
  | (k, v) :: t, h => by
    have hk : (code == k) = false := by
      have := h (k, v) (by simp)
      simp only [beq_eq_false_iff_ne, ne_eq]
      intro hh; exact this hh.symm
    simp only [List.lookup, hk]
    exact lookup_none_of code t (fun e he => h e (by simp [he]))

theorem flagSpecX_none (code : Nat) (hc : code ∉ specCodes) : flagSpecX code = none := by
  simp only [specCodes, List.mem_cons, List.mem_nil_iff, or_false, not_or] at hc
  obtain ⟨h1, h2, h3, h4, h5, h6, h7, h8, h9, h10, h14, h15, h16, h17, h18, h25, h32⟩ := hc
  simp only [flagSpecX, h25, if_false, flagSpec]
  apply lookup_none_of
  intro e he
  simp only [specTable, List.mem_cons, List.mem_nil_iff, or_false] at he
  rcases he with h | h | h | h | h | h | h | h | h | h | h | h | h | h | h | h <;> subst h <;> simp <;> omega

/-- An attribute whose code the RFCs say nothing about is never malformed by flags or value. -/
theorem wfAttr_of_not_spec (p : Params) (code flag : Nat) (v : Bytes) (hc : code ∉ specCodes) :
    wfAttr p code flag v = true := by
  have hf := flagSpecX_none code hc
  simp only [specCodes, List.mem_cons, List.mem_nil_iff, or_false, not_or] at hc
  obtain ⟨h1, h2, h3, h4, h5, h6, h7, h8, h9, h10, h14, h15, h16, h17, h18, h25, h32⟩ := hc
  simp only [wfAttr, flagsOk, hf, Bool.true_and]
  simp [wfVal, decVal, nonEmptyCodes, h1, h2, h3, h4, h5, h6, h7, h8, h9, h10, h14, h15, h16, h17, h18, h25, h32]

end Exa.Attr7606
