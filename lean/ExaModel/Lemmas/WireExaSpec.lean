import ExaModel.Model.WireExa
/-!
  C01 — the property as a predicate on the DECODED message (definitions only; the theorems are in
  `Props/C01.lean`, the lemmas in `Lemmas/WireExa*.lean`).

  `Meets p r u` reads the decoded UPDATE `u` through M-Wire's canonical `report` (the RFC reading of an
  UPDATE: which routes are announced with which next hop, the attribute values after the RFC 6793
  reconstruction) and compares it, item by item, with what the operator wrote (`r`) and the RFC
  defaults. Nothing in it refers to how ExaBGP builds the bytes.
-/
namespace Exa.WireExa
open Exa Exa.Wire

/-- The session is internal when both speakers are in the same (true) AS. -/
def ibgp (p : SessParams) : Bool := p.localAs == p.peerAs

/-- The next hop asked for: the address written, or the local address of the session for `self`. -/
def wantNh (p : SessParams) (r : RouteReq) : Bytes :=
  match r.nexthop with
  | .v4 a => a
  | .v6 a => a
  | .self => p.localAddr

/-- ORIGIN: as written, else IGP. -/
def wantOrigin (r : RouteReq) : Nat :=
  match firstOf r.attrs 1 with
  | some (.origin v) => v
  | _ => 0

/-- AS_PATH: as written, else empty on iBGP and the true local AS on eBGP. -/
def wantPath (p : SessParams) (r : RouteReq) : List Seg :=
  match firstOf r.attrs 2 with
  | some (.asPath s) => s
  | _ => if ibgp p then [] else [(2, [p.localAs])]

/-- LOCAL_PREF on iBGP: as written, else 100. -/
def wantLocalPref (r : RouteReq) : Nat :=
  match firstOf r.attrs 5 with
  | some (.localPref v) => v
  | _ => 100

/-- The value the peer must see for attribute type `c` (`none`: the attribute must be absent).
    NEXT_HOP (3) is handled with the route. Set-valued attributes are given in the order written and
    compared as sets (`SameVal`); an empty list means the attribute is not sent. LOCAL_PREF never goes
    to an external peer (RFC 4271 §5.1.5), asked for or not. -/
def want (p : SessParams) (r : RouteReq) (c : Nat) : Option AttrVal :=
  if c = 1 then some (.origin (wantOrigin r))
  else if c = 2 then some (.asPath (wantPath p r))
  else if c = 4 then (match firstOf r.attrs 4 with | some (.med v) => some (.med v) | _ => none)
  else if c = 5 then (if ibgp p then some (.localPref (wantLocalPref r)) else none)
  else if c = 6 then (match firstOf r.attrs 6 with | some .atomicAggregate => some .atomicAggregate | _ => none)
  else if c = 7 then (match firstOf r.attrs 7 with | some (.aggregator a i) => some (.aggregator a i) | _ => none)
  else if c = 8 then (match firstOf r.attrs 8 with
    | some (.communities cs) => if cs = [] then none else some (.communities cs) | _ => none)
  else if c = 9 then (match firstOf r.attrs 9 with | some (.originatorId i) => some (.originatorId i) | _ => none)
  else if c = 10 then (match firstOf r.attrs 10 with
    | some (.clusterList ids) => if ids = [] then none else some (.clusterList ids) | _ => none)
  else if c = 16 then (if extAll r.attrs = [] then none else some (.extCommunities (extAll r.attrs)))
  else if c = 32 then (match firstOf r.attrs 32 with
    | some (.largeCommunities cs) => if cs = [] then none else some (.largeCommunities cs) | _ => none)
  else none

/-- Equal values; communities of the three kinds are sets. -/
def SameVal (a b : AttrVal) : Prop :=
  a = b ∨
  (∃ x y, a = .communities x ∧ b = .communities y ∧ ∀ c, c ∈ x ↔ c ∈ y) ∨
  (∃ x y, a = .extCommunities x ∧ b = .extCommunities y ∧ ∀ c, c ∈ x ↔ c ∈ y) ∨
  (∃ x y, a = .largeCommunities x ∧ b = .largeCommunities y ∧ ∀ c, c ∈ x ↔ c ∈ y)

def SameOpt (a b : Option AttrVal) : Prop :=
  match a, b with
  | none, none => True
  | some x, some y => SameVal x y
  | _, _ => False

/-- The attribute of type `c` in the canonical report of a decoded UPDATE. -/
def reportAttr (p : Params) (u : UpdateSem) (c : Nat) : Option AttrVal :=
  (report p u).attrs.find? (fun v => v.code == c)

/-- **The property, pointwise on the decoded message.** -/
def Meets (p : SessParams) (r : RouteReq) (u : UpdateSem) : Prop :=
  -- exactly one route is announced: the family, next hop, path id, labels, RD and prefix asked for
  (report (paramsOf p) u).announce = [(r.afi, r.safi, wantNh p r, wantNlri p r)] ∧
  -- nothing is withdrawn and the message is not an End-of-RIB marker
  (report (paramsOf p) u).withdraw = [] ∧ (report (paramsOf p) u).eor = none ∧
  -- every attribute type: the value asked for, else the RFC default, else absent
  (∀ c, c ≠ 3 → SameOpt (reportAttr (paramsOf p) u c) (want p r c)) ∧
  -- a NEXT_HOP attribute, if there is one, is the next hop asked for
  (reportAttr (paramsOf p) u 3 = none ∨
    ((wantNh p r).length = 4 ∧ reportAttr (paramsOf p) u 3 = some (.nextHop (rd32 (wantNh p r)))))

/-- The first attribute of type `c` as it is on the wire (before any RFC 6793 reconstruction). -/
def rawAttr (u : UpdateSem) (c : Nat) : Option AttrVal := (u.attrs.find? (fun a => a.code == c)).map (·.val)

/-! ### the situations in which the unchanged code does not meet the property (findings) -/

/-- F4: `Negotiated.local_as` is the 2-byte field of the OPEN, so a 4-byte local AS is seen as 23456. -/
def LocalAs2 (p : SessParams) : Prop := p.localAs ≤ 65535

/-- An IPv4 route of a SAFI other than unicast must not be in the classic NLRI field (RFC 4760). -/
def NotClassicMulticast (r : RouteReq) (nh : Bytes) : Prop := classic r nh = true → r.safi = 1

/-- The next hop has a family the session can carry for this route: IPv4 (or IPv6 under RFC 8950)
    for AFI 1, IPv6 for AFI 2. -/
def NhFamilyOk (p : SessParams) (r : RouteReq) (nh : Bytes) : Prop :=
  (r.afi = 1 → nh.length = 4 ∨ (nh.length = 16 ∧ p.extnh.contains (r.afi, r.safi) = true)) ∧
  (r.afi = 2 → nh.length = 16)

/-- `next-hop self` on a session whose local address has the family of the route. -/
def SelfOk (p : SessParams) (r : RouteReq) : Prop :=
  r.nexthop = .self → (r.afi = 1 → p.localAddr.length = 4) ∧ (r.afi = 2 → p.localAddr.length = 16)

/-- The link-local address is not appended behind a VPN next hop (RD + global + link-local = 40 bytes). -/
def NoVpnLinkLocal (p : SessParams) (r : RouteReq) (nh : Bytes) : Prop :=
  r.afi = 2 → r.safi = 128 → p.linkLocal.isSome = true → isLinkLocal nh = true

end Exa.WireExa
