import ExaModel.Lemmas.FrameLemmas
set_option linter.unusedSimpArgs false
/-! Reader-level lemmas: stability of the state between reads, feeding appended chunks,
    parsing the reference encoding. -/
namespace Exa.Frame
open Exa Exa.Generated.MsgLength

/-- Between reads the reader either is dead or holds an incomplete message. -/
def Stable (r : Reader) : Prop := r.dead = true ∨ parse1 r.max r.pend = .need

theorem pump_left_need (max f : Nat) (bs : Bytes) (hf : bs.length < f) :
    (pump max f bs).2.2 = false → parse1 max (pump max f bs).2.1 = .need := by
  induction f generalizing bs with
  | zero => omega
  | succ n ih =>
    rw [pump_succ]
    cases hp : parse1 max bs with
    | need => intro _; exact hp
    | out o rest =>
      cases o with
      | err c s => intro h; cases h
      | msg ty body =>
        have hlt := (parse1_msg_append max bs [] ty body rest hp).2
        exact ih rest (by omega)

theorem pump_dead_left (max f : Nat) (bs : Bytes) : (pump max f bs).2.2 = true → (pump max f bs).2.1 = [] := by
  induction f generalizing bs with
  | zero => intro h; cases h
  | succ n ih =>
    rw [pump_succ]
    cases hp : parse1 max bs with
    | need => intro h; cases h
    | out o rest =>
      cases o with
      | err c s => intro _; rfl
      | msg ty body => exact ih rest

theorem stable_init (max : Nat) : Stable (Reader.init max) := by
  right; simp [Reader.init, parse1, headerLen]

theorem stable_feed (r : Reader) (bs : Bytes) (h : Stable r) : Stable (r.feed bs).1 := by
  unfold Reader.feed
  by_cases hd : r.dead = true
  · simp [hd]; exact Or.inl hd
  · simp only [hd, Bool.false_eq_true, if_false]
    cases hdead : (pump r.max ((r.pend ++ bs).length + 1) (r.pend ++ bs)).2.2 with
    | true => left; simp [hdead]
    | false =>
      right
      have := pump_left_need r.max _ (r.pend ++ bs) (Nat.lt_succ_self _) hdead
      simpa using this

theorem pump_need (max f : Nat) (bs : Bytes) (h : parse1 max bs = .need) : pump max f bs = ([], bs, false) := by
  cases f with
  | zero => rfl
  | succ n => rw [pump_succ, h]

theorem feed_nil (r : Reader) (h : Stable r) : r.feed [] = (r, []) := by
  unfold Reader.feed
  by_cases hd : r.dead = true
  · simp [hd]
  · rcases h with h | h
    · exact absurd h hd
    · simp only [hd, Bool.false_eq_true, if_false, List.append_nil]
      rw [pump_need _ _ _ h]
      cases r; simp_all

/-- Feeding `a ++ b` is feeding `a` then `b`. -/
theorem feed_append (r : Reader) (a b : Bytes) :
    r.feed (a ++ b) = ((r.feed a).1.feed b |>.1, (r.feed a).2 ++ ((r.feed a).1.feed b).2) := by
  unfold Reader.feed
  by_cases hd : r.dead = true
  · simp [hd]
  · simp only [hd, Bool.false_eq_true, if_false]
    have key := pump_append r.max ((r.pend ++ a).length + 1) (r.pend ++ a) b (Nat.lt_succ_self _)
    have hlen : (r.pend ++ a ++ b).length + 1 = (r.pend ++ a).length + b.length + 1 := by
      simp only [List.length_append]
    rw [← List.append_assoc, hlen, key]
    cases hdead : (pump r.max ((r.pend ++ a).length + 1) (r.pend ++ a)).2.2 with
    | true =>
      simp only [hdead, if_true, List.append_nil]
    | false =>
      simp only [hdead, Bool.false_eq_true, if_false]
      have hl2 : ((pump r.max ((r.pend ++ a).length + 1) (r.pend ++ a)).2.1 ++ b).length + 1
          = (pump r.max ((r.pend ++ a).length + 1) (r.pend ++ a)).2.1.length + b.length + 1 := by simp
      rw [hl2]

/-- parsing the reference encoding of one message followed by anything -/
theorem parse1_encode (max ty : Nat) (body rest : Bytes)
    (hmax : headerLen + body.length ≤ max) (h16 : max ≤ 65535)
    (hv : lengthValid ty (headerLen + body.length) = true) :
    parse1 max (encodeMsg ty body ++ rest) = .out (.msg ty body) rest := by
  have hlen : hdrLen (encodeMsg ty body ++ rest) = headerLen + body.length := by
    simp only [hdrLen, encodeMsg, marker, List.append_assoc]
    show rd16 (be16 (headerLen + body.length) ++ _) = _
    exact rd16_be16 _ (by omega) _
  have hty : hdrTy (encodeMsg ty body ++ rest) = ty := by
    simp [hdrTy, encodeMsg, marker, be16]
  have hmk : (encodeMsg ty body ++ rest).take 16 = marker := by
    simp [encodeMsg, marker]
  have htot : (encodeMsg ty body ++ rest).length = 19 + body.length + rest.length := by
    simp [encodeMsg, marker, be16]; omega
  unfold parse1
  have herr : hdrErr max (encodeMsg ty body ++ rest) = none := by
    unfold hdrErr
    rw [hmk, hlen, hty]
    simp only [ne_eq, not_true_eq_false, if_false, hv]
    have : ¬ (headerLen + body.length < headerLen ∨ headerLen + body.length > max) := by omega
    simp [this]
  rw [herr, hlen, hty, htot]
  simp only [headerLen]
  have h1 : ¬ (19 + body.length + rest.length < 19) := by omega
  have h2 : ¬ (19 + body.length + rest.length < 19 + body.length) := by omega
  simp only [h1, h2, if_false]
  have hd19 : (encodeMsg ty body ++ rest).drop 19 = body ++ rest := by
    simp [encodeMsg, marker, be16]
  have hdl : (encodeMsg ty body ++ rest).drop (19 + body.length) = rest := by
    rw [← List.drop_drop, hd19]
    exact List.drop_left' rfl
  rw [hd19, hdl]
  simp

/-- A message acceptable on a session with maximum size `max`. -/
def ValidMsg (max : Nat) (m : Nat × Bytes) : Prop :=
  headerLen + m.2.length ≤ max ∧ lengthValid m.1 (headerLen + m.2.length) = true

def encodeAll (ms : List (Nat × Bytes)) : Bytes := (ms.map (fun m => encodeMsg m.1 m.2)).flatten

theorem pump_encodeAll (max : Nat) (h16 : max ≤ 65535) (ms : List (Nat × Bytes)) (hv : ∀ m ∈ ms, ValidMsg max m)
    (tail : Bytes) (f : Nat) (hf : (encodeAll ms ++ tail).length < f) :
    pump max f (encodeAll ms ++ tail) =
      ((ms.map (fun m => Out.msg m.1 m.2)) ++ (pump max (tail.length + 1) tail).1,
       (pump max (tail.length + 1) tail).2.1, (pump max (tail.length + 1) tail).2.2) := by
  induction ms generalizing f with
  | nil =>
    simp only [encodeAll, List.map_nil, List.flatten_nil, List.nil_append] at hf ⊢
    rw [pump_fuel max f (tail.length + 1) tail hf (Nat.lt_succ_self _)]
  | cons m rest ih =>
    obtain ⟨hm1, hm2⟩ := hv m List.mem_cons_self
    cases f with
    | zero => omega
    | succ n =>
      have henc : encodeAll (m :: rest) ++ tail = encodeMsg m.1 m.2 ++ (encodeAll rest ++ tail) := by
        simp [encodeAll, List.append_assoc]
      rw [henc] at hf ⊢
      rw [pump_succ, parse1_encode max m.1 m.2 _ hm1 h16 hm2]
      simp only
      have hlen : (encodeAll rest ++ tail).length < n := by
        have : (encodeMsg m.1 m.2).length = 19 + m.2.length := by simp [encodeMsg, marker, be16]; omega
        simp only [List.length_append] at hf ⊢
        omega
      rw [ih (fun x hx => hv x (List.mem_cons_of_mem _ hx)) n hlen]
      simp

end Exa.Frame
