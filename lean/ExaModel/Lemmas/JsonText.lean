import ExaModel.Lemmas.JsonSound
set_option linter.unusedSimpArgs false
set_option linter.unusedVariables false
/-! Single-line / ASCII facts about `render`, and the lemmas about `text.oneline`. -/
namespace Exa.Json

/-! ### every rendered code point is printable ASCII -/

theorem isNumChar_ascii (c : Nat) (h : isNumChar c = true) : 0x20 ≤ c ∧ c < 0x7F := by
  simp only [isNumChar, isDigit, Bool.or_eq_true, Bool.and_eq_true, decide_eq_true_eq] at h
  omega

def Ascii (l : Str) : Prop := ∀ x ∈ l, 0x20 ≤ x ∧ x < 0x7F

theorem ascii_append {a b : Str} (ha : Ascii a) (hb : Ascii b) : Ascii (a ++ b) := by
  intro x hx
  rcases List.mem_append.1 hx with h | h
  · exact ha x h
  · exact hb x h

theorem ascii_cons {c : Nat} {t : Str} (hc : 0x20 ≤ c ∧ c < 0x7F) (ht : Ascii t) : Ascii (c :: t) := by
  intro x hx
  rcases List.mem_cons.1 hx with h | h
  · subst h; exact hc
  · exact ht x h

theorem ascii_nil : Ascii [] := by intro x hx; cases hx

mutual
theorem render_ascii : (j : J) → j.wf = true → Ascii (render j)
  | .null, _ => by intro x hx; simp only [render, List.mem_cons, List.not_mem_nil, or_false] at hx; omega
  | .bool true, _ => by intro x hx; simp only [render, List.mem_cons, List.not_mem_nil, or_false] at hx; omega
  | .bool false, _ => by intro x hx; simp only [render, List.mem_cons, List.not_mem_nil, or_false] at hx; omega
  | .num lit, hw => by
    simp only [J.wf, wfNum, Bool.and_eq_true, List.all_eq_true] at hw
    intro x hx
    exact isNumChar_ascii x (hw.2 x hx)
  | .str s, _ => quote_ascii s
  | .arr .nil, _ => by intro x hx; simp only [render, List.mem_cons, List.not_mem_nil, or_false] at hx; omega
  | .arr (.cons h t), hw => by
    simp only [J.wf, JL.wf, Bool.and_eq_true] at hw
    simp only [render]
    exact ascii_append (ascii_cons (by omega) (ascii_cons (by omega) ascii_nil))
      (ascii_append (render_ascii h hw.1) (ascii_append (renderTL_ascii t hw.2) (ascii_cons (by omega) (ascii_cons (by omega) ascii_nil))))
  | .obj .nil, _ => by intro x hx; simp only [render, List.mem_cons, List.not_mem_nil, or_false] at hx; omega
  | .obj (.cons k v t), hw => by
    simp only [J.wf, JM.wf, Bool.and_eq_true] at hw
    simp only [render]
    exact ascii_append (ascii_cons (by omega) (ascii_cons (by omega) ascii_nil))
      (ascii_append (quote_ascii k) (ascii_append (ascii_cons (by omega) (ascii_cons (by omega) ascii_nil))
        (ascii_append (render_ascii v hw.1.2) (ascii_append (renderTM_ascii t hw.2) (ascii_cons (by omega) (ascii_cons (by omega) ascii_nil))))))
theorem renderTL_ascii : (l : JL) → l.wf = true → Ascii (renderTL l)
  | .nil, _ => ascii_nil
  | .cons h t, hw => by
    simp only [JL.wf, Bool.and_eq_true] at hw
    simp only [renderTL]
    exact ascii_append (ascii_cons (by omega) (ascii_cons (by omega) ascii_nil))
      (ascii_append (render_ascii h hw.1) (renderTL_ascii t hw.2))
theorem renderTM_ascii : (m : JM) → m.wf = true → Ascii (renderTM m)
  | .nil, _ => ascii_nil
  | .cons k v t, hw => by
    simp only [JM.wf, Bool.and_eq_true] at hw
    simp only [renderTM]
    exact ascii_append (ascii_cons (by omega) (ascii_cons (by omega) ascii_nil))
      (ascii_append (quote_ascii k) (ascii_append (ascii_cons (by omega) (ascii_cons (by omega) ascii_nil))
        (ascii_append (render_ascii v hw.1.2) (renderTM_ascii t hw.2))))
end

theorem firstCtl_none_iff (s : List Nat) : firstCtl s = none ↔ ∀ x ∈ s, 0x20 ≤ x := by
  induction s with
  | nil => simp [firstCtl]
  | cons c t ih =>
    simp only [firstCtl, List.mem_cons, forall_eq_or_imp]
    by_cases h : c < 0x20
    · simp [h]; omega
    · simp only [h, if_false, Option.map_eq_none_iff, ih]
      constructor
      · intro a; exact ⟨by omega, a⟩
      · intro a; exact a.2

/-! ### text.oneline -/

open Exa.Generated.Printable in
/-- some range of the generated table covers `lo..hi` entirely -/
def covered (lo hi : Nat) : Bool := nonPrintable.any (fun r => r.1 ≤ lo && hi ≤ r.2)

open Exa.Generated.Printable in
/-- no range of the generated table touches 0x20..0x7E -/
def asciiFree : Bool := nonPrintable.all (fun r => r.2 < 0x20 || 0x7F ≤ r.1)

theorem covered_spec (lo hi c : Nat) (h : covered lo hi = true) (h1 : lo ≤ c) (h2 : c ≤ hi) : isPrintable c = false := by
  simp only [covered, List.any_eq_true, Bool.and_eq_true, decide_eq_true_eq] at h
  obtain ⟨r, hr, a, b⟩ := h
  simp only [isPrintable, Bool.not_eq_eq_eq_not, Bool.not_false, List.any_eq_true, Bool.and_eq_true, decide_eq_true_eq]
  exact ⟨r, hr, by omega, by omega⟩

theorem asciiFree_spec (c : Nat) (h : asciiFree = true) (h1 : 0x20 ≤ c) (h2 : c < 0x7F) : isPrintable c = true := by
  simp only [asciiFree, List.all_eq_true, Bool.or_eq_true, decide_eq_true_eq] at h
  simp only [isPrintable, Bool.not_eq_eq_eq_not, Bool.not_true, List.any_eq_false, Bool.and_eq_true, decide_eq_true_eq, not_and]
  intro r hr a
  have := h r hr
  omega

/-- generated table, one pass each: C0 controls, DEL..NBSP (C1 controls included), and the
    Unicode line / paragraph separators are not printable; nothing in 0x20..0x7E is excluded -/
theorem table_c0 : covered 0 0x1F = true := by decide +kernel
theorem table_c1 : covered 0x7F 0xA0 = true := by decide +kernel
theorem table_seps : covered 0x2028 0x2029 = true := by decide +kernel
theorem table_ascii : asciiFree = true := by decide +kernel

theorem printable_low (c : Nat) (hc : c < 0xA1) (hp : isPrintable c = true) : 0x20 ≤ c ∧ c < 0x7F := by
  by_cases h1 : c ≤ 0x1F
  · rw [covered_spec 0 0x1F c table_c0 (by omega) h1] at hp; cases hp
  by_cases h2 : 0x7F ≤ c
  · rw [covered_spec 0x7F 0xA0 c table_c1 h2 (by omega)] at hp; cases hp
  omega

theorem printable_ascii (c : Nat) (h1 : 0x20 ≤ c) (h2 : c < 0x7F) : isPrintable c = true :=
  asciiFree_spec c table_ascii h1 h2

theorem printable_seps (c : Nat) (h : c = 0x2028 ∨ c = 0x2029) : isPrintable c = false :=
  covered_spec 0x2028 0x2029 c table_seps (by omega) (by omega)

theorem reprEsc_ascii (c : Nat) : Ascii (reprEsc c) := by
  intro x hx
  unfold reprEsc at hx
  split at hx
  · simp only [List.mem_cons, List.not_mem_nil, or_false] at hx; omega
  split at hx
  · simp only [List.mem_cons, List.not_mem_nil, or_false] at hx; omega
  split at hx
  · simp only [List.mem_cons, List.not_mem_nil, or_false] at hx; omega
  split at hx
  · simp only [List.mem_cons, List.not_mem_nil, or_false] at hx
    rcases hx with rfl | rfl | rfl | rfl
    · omega
    · omega
    · exact hexDigit_mod_ascii _
    · exact hexDigit_mod_ascii _
  split at hx
  · exact u4_ascii _ x hx
  · simp only [List.mem_cons, List.not_mem_nil, or_false] at hx
    rcases hx with rfl | rfl | rfl | rfl | rfl | rfl | rfl | rfl | rfl | rfl
    · omega
    · omega
    all_goals exact hexDigit_mod_ascii _

/-- what `escWith pass` lets through unescaped is what `pass` accepts (or a space); the rest is ASCII -/
theorem escWith_mem (pass : Nat → Bool) (s : Str) (x : Nat) (hx : x ∈ escWith pass s) :
    (pass x = true ∧ x ∈ s) ∨ (0x20 ≤ x ∧ x < 0x7F) := by
  simp only [escWith, List.mem_flatMap] at hx
  obtain ⟨c, hc, h⟩ := hx
  split at h
  · rename_i hp
    simp only [List.mem_cons, List.not_mem_nil, or_false] at h
    subst h
    rcases hp with hp | hp
    · exact Or.inl ⟨hp, hc⟩
    · right; omega
  · exact Or.inr (reprEsc_ascii c x h)

/-! ### injectivity where there is no backslash in the input -/

theorem unOneline_cons (c : Nat) (t : Str) : unOneline (c :: t) =
    if c = 0x5C then
      match t with
      | [] => [c]
      | e :: t2 =>
        if e = 0x74 then 0x09 :: unOneline t2
        else if e = 0x6E then 0x0A :: unOneline t2
        else if e = 0x72 then 0x0D :: unOneline t2
        else if e = 0x78 then
          match t2 with
          | a :: b :: t3 =>
            match hexVal a, hexVal b with
            | some a, some b => (a * 16 + b) :: unOneline t3
            | _, _ => []
          | _ => []
        else if e = 0x75 then
          match t2 with
          | a :: b :: c' :: d :: t3 =>
            match hex4 a b c' d with
            | some u => u :: unOneline t3
            | none => []
          | _ => []
        else if e = 0x55 then
          match t2 with
          | a :: b :: c' :: d :: a2 :: b2 :: c2 :: d2 :: t3 =>
            match hex4 a b c' d, hex4 a2 b2 c2 d2 with
            | some u, some v => (u * 0x10000 + v) :: unOneline t3
            | _, _ => []
          | _ => []
        else c :: e :: unOneline t2
    else c :: unOneline t := by
  rw [unOneline.eq_def]; rfl

theorem unOneline_reprEsc (c : Nat) (hc : c < 0x100000000) (tail : Str) :
    unOneline (reprEsc c ++ tail) = c :: unOneline tail := by
  unfold reprEsc
  by_cases h1 : c = 0x09
  · subst h1; simp [unOneline_cons]
  by_cases h2 : c = 0x0A
  · subst h2; simp [unOneline_cons]
  by_cases h3 : c = 0x0D
  · subst h3; simp [unOneline_cons]
  simp only [h1, h2, h3, if_false]
  by_cases h4 : c < 0x100
  · simp only [h4, if_true, List.cons_append, List.nil_append]
    rw [unOneline_cons]
    simp only [if_true, show ¬ ((0x78 : Nat) = 0x74) by decide, show ¬ ((0x78 : Nat) = 0x6E) by decide,
      show ¬ ((0x78 : Nat) = 0x72) by decide, if_false, hexVal_hexDigit _ (show c / 16 % 16 < 16 by omega),
      hexVal_hexDigit _ (show c % 16 < 16 by omega)]
    congr 1; omega
  simp only [h4, if_false]
  by_cases h5 : c < 0x10000
  · simp only [h5, if_true, u4, List.cons_append, List.nil_append]
    rw [unOneline_cons]
    simp only [if_true, show ¬ ((0x75 : Nat) = 0x74) by decide, show ¬ ((0x75 : Nat) = 0x6E) by decide,
      show ¬ ((0x75 : Nat) = 0x72) by decide, show ¬ ((0x75 : Nat) = 0x78) by decide, if_false, hex4_u4 c h5]
  · simp only [h5, if_false, List.cons_append, List.nil_append]
    rw [unOneline_cons]
    have e1 : hex4 (hexDigit (c / 0x10000000 % 16)) (hexDigit (c / 0x1000000 % 16)) (hexDigit (c / 0x100000 % 16))
        (hexDigit (c / 0x10000 % 16)) = some (c / 0x10000) := by
      have := hex4_u4 (c / 0x10000) (by omega)
      have a1 : c / 0x10000 / 4096 % 16 = c / 0x10000000 % 16 := by omega
      have a2 : c / 0x10000 / 256 % 16 = c / 0x1000000 % 16 := by omega
      have a3 : c / 0x10000 / 16 % 16 = c / 0x100000 % 16 := by omega
      rw [a1, a2, a3] at this
      exact this
    have e2 : hex4 (hexDigit (c / 0x1000 % 16)) (hexDigit (c / 0x100 % 16)) (hexDigit (c / 0x10 % 16))
        (hexDigit (c % 16)) = some (c % 0x10000) := by
      have := hex4_u4 (c % 0x10000) (by omega)
      have a1 : c % 0x10000 / 4096 % 16 = c / 0x1000 % 16 := by omega
      have a2 : c % 0x10000 / 256 % 16 = c / 0x100 % 16 := by omega
      have a3 : c % 0x10000 / 16 % 16 = c / 0x10 % 16 := by omega
      have a4 : c % 0x10000 % 16 = c % 16 := by omega
      rw [a1, a2, a3, a4] at this
      exact this
    simp only [if_true, show ¬ ((0x55 : Nat) = 0x74) by decide, show ¬ ((0x55 : Nat) = 0x6E) by decide,
      show ¬ ((0x55 : Nat) = 0x72) by decide, show ¬ ((0x55 : Nat) = 0x78) by decide,
      show ¬ ((0x55 : Nat) = 0x75) by decide, if_false, e1, e2]
    congr 1; omega

/-- `unOneline` reads back what `escWith pass` wrote, for any `pass`, when the input has no backslash -/
theorem unOneline_escWith (pass : Nat → Bool) (s : Str) (hs : ∀ c ∈ s, c ≠ 0x5C ∧ c < 0x110000) :
    unOneline (escWith pass s) = s := by
  induction s with
  | nil => simp [escWith, unOneline]
  | cons c s ih =>
    have hc := hs c (by simp)
    have ih' := ih (fun x hx => hs x (by simp [hx]))
    simp only [escWith, List.flatMap_cons] at ih' ⊢
    split
    · simp only [List.cons_append, List.nil_append]
      rw [unOneline_cons]
      simp only [hc.1, if_false, ih']
    · rw [unOneline_reprEsc c (by omega), ih']

end Exa.Json
