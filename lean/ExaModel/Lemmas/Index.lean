import ExaModel.Model.Index
set_option linter.unusedSimpArgs false
/-! Helper lemmas for M-Index: the family prefix is a fixed-length injective code, and the
    case analysis on the ADD-PATH sentinels. -/
namespace Exa.Index
open Exa

theorem hexDigit_inj {a b : Nat} (ha : a < 16) (hb : b < 16) (h : hexDigit a = hexDigit b) : a = b := by
  unfold hexDigit at h
  split at h <;> split at h <;> omega

theorem fmt02x_inj {n m : Nat} (hn : n < 256) (hm : m < 256) (h : fmt02x n = fmt02x m) : n = m := by
  unfold fmt02x at h
  simp only [List.cons.injEq, and_true] at h
  have h1 := hexDigit_inj (by omega) (by omega) h.1
  have h2 := hexDigit_inj (by omega) (by omega) h.2
  omega

@[simp] theorem famIndex_length (a s : Nat) : (famIndex a s).length = 4 := rfl

theorem famIndex_inj {a s a' s' : Nat} (ha : a < 256) (hs : s < 256) (ha' : a' < 256) (hs' : s' < 256)
    (h : famIndex a s = famIndex a' s') : a = a' ∧ s = s' := by
  unfold famIndex at h
  have := List.append_inj h (by simp [fmt02x])
  exact ⟨fmt02x_inj ha ha' this.1, fmt02x_inj hs hs' this.2⟩

/-- Splitting an index equation at the 4-byte family prefix. -/
theorem fam_split {a s a' s' : Nat} {x y : Bytes} (ha : a < 256) (hs : s < 256) (ha' : a' < 256) (hs' : s' < 256)
    (h : famIndex a s ++ x = famIndex a' s' ++ y) : a = a' ∧ s = s' ∧ x = y := by
  have := List.append_inj h (by simp)
  have f := famIndex_inj ha hs ha' hs' this.1
  exact ⟨f.1, f.2, this.2⟩

/-- Unpacking of the guard. -/
structure WF (a : IpNlri) : Prop where
  afi : a.afi < 256
  safi : a.safi < 256
  path : ∀ p, a.path = some p → p.length = 4
  rd : ∀ r, a.rd = some r → r.length = 8
  pfx : a.pfx.length = cidrSize a.mask
  mask : a.mask ≤ 128
  inet : a.kind = .inet → a.labels = [] ∧ a.rd = none
  label : a.kind = .label → a.rd = none

theorem wf_iff (a : IpNlri) (h : wf a = true) : WF a := by
  unfold wf at h
  simp only [Bool.and_eq_true, decide_eq_true_eq, beq_iff_eq] at h
  obtain ⟨⟨⟨⟨⟨⟨h1, h2⟩, h3⟩, h4⟩, h5⟩, h6⟩, h7⟩ := h
  refine ⟨h1, h2, ?_, ?_, h5, h6, ?_, ?_⟩
  · intro p hp; rw [hp] at h3; simpa [optLenIs] using h3
  · intro r hr; rw [hr] at h4; simpa [optLenIs] using h4
  · intro hk; rw [hk] at h7
    simp only [Bool.and_eq_true, List.isEmpty_iff, Option.isNone_iff_eq_none] at h7
    exact h7
  · intro hk; rw [hk] at h7
    simpa using h7

/-- The tail `[m] ++ rd ++ pfx` determines its parts once the RD lengths agree. -/
theorem tail_inj {m m' : Nat} {r r' p p' : Bytes} (hl : r.length = r'.length)
    (h : [m] ++ r ++ p = [m'] ++ r' ++ p') : m = m' ∧ r = r' ∧ p = p' := by
  simp only [List.cons_append, List.nil_append, List.cons.injEq] at h
  have := List.append_inj h.2 hl
  exact ⟨h.1, this.1, this.2⟩

/-- Two ADD-PATH tags followed by anything: equal tags, unless one of the ambiguous path-ids is
    involved. This is the whole content of the sentinel analysis. -/
theorem pathTag_split {p q : Option Bytes} {x y : Bytes}
    (hp : ∀ b, p = some b → b.length = 4) (hq : ∀ b, q = some b → b.length = 4)
    (hpd : p ≠ some disa) (hqd : q ≠ some disa) (hpn : p ≠ some nop) (hqn : q ≠ some nop)
    (h : pathTag p ++ x = pathTag q ++ y) : p = q ∧ x = y := by
  cases p with
  | none =>
    cases q with
    | none => exact ⟨rfl, List.append_cancel_left h⟩
    | some b =>
      exfalso
      have hb := hq b rfl
      match b, hb with
      | [b0, b1, b2, b3], _ =>
        simp only [pathTag] at h
        split at h
        · simp [disabled, nopi] at h
        · simp only [disabled, List.cons_append, List.nil_append, List.cons.injEq] at h
          obtain ⟨h0, h1, h2, h3, _⟩ := h
          apply hqd; simp [disa, ← h0, ← h1, ← h2, ← h3]
  | some a =>
    have ha := hp a rfl
    cases q with
    | none =>
      exfalso
      match a, ha with
      | [a0, a1, a2, a3], _ =>
        simp only [pathTag] at h
        split at h
        · simp [disabled, nopi] at h
        · simp only [disabled, List.cons_append, List.nil_append, List.cons.injEq] at h
          obtain ⟨h0, h1, h2, h3, _⟩ := h
          apply hpd; simp [disa, h0, h1, h2, h3]
    | some b =>
      have hb := hq b rfl
      match a, ha, b, hb with
      | [a0, a1, a2, a3], _, [b0, b1, b2, b3], _ =>
        simp only [pathTag] at h
        split at h <;> split at h
        · rename_i e1 e2
          rw [e1, e2]; exact ⟨rfl, List.append_cancel_left h⟩
        · rename_i e1 e2
          exfalso
          simp only [nopi, List.cons_append, List.nil_append, List.cons.injEq] at h
          obtain ⟨h0, h1, h2, h3, _⟩ := h
          apply hqn; simp [nop, ← h0, ← h1, ← h2, ← h3]
        · rename_i e1 e2
          exfalso
          simp only [nopi, List.cons_append, List.nil_append, List.cons.injEq] at h
          obtain ⟨h0, h1, h2, h3, _⟩ := h
          apply hpn; simp [nop, h0, h1, h2, h3]
        · simp only [List.cons_append, List.nil_append, List.cons.injEq] at h
          obtain ⟨h0, h1, h2, h3, h4⟩ := h
          subst h0 h1 h2 h3
          exact ⟨rfl, h4⟩

/-- When both masks bytes are below `b'b'` (98) no sentinel can be mistaken for a path-id followed
    by a mask byte (`disabled`[4] = 98, `no-pi`[4] = 105): the IPv4 case. -/
theorem pathTag_split_small {p q : Option Bytes} {m m' : Nat} {x y : Bytes}
    (hp : ∀ b, p = some b → b.length = 4) (hq : ∀ b, q = some b → b.length = 4)
    (hm : m < 98) (hm' : m' < 98)
    (h : pathTag p ++ (m :: x) = pathTag q ++ (m' :: y)) : p = q ∧ m :: x = m' :: y := by
  cases p with
  | none =>
    cases q with
    | none => exact ⟨rfl, List.append_cancel_left h⟩
    | some b =>
      exfalso
      have hb := hq b rfl
      match b, hb with
      | [b0, b1, b2, b3], _ =>
        simp only [pathTag] at h
        split at h
        · simp [disabled, nopi] at h
        · simp only [disabled, List.cons_append, List.nil_append, List.cons.injEq] at h
          omega
  | some a =>
    have ha := hp a rfl
    cases q with
    | none =>
      exfalso
      match a, ha with
      | [a0, a1, a2, a3], _ =>
        simp only [pathTag] at h
        split at h
        · simp [disabled, nopi] at h
        · simp only [disabled, List.cons_append, List.nil_append, List.cons.injEq] at h
          omega
    | some b =>
      have hb := hq b rfl
      match a, ha, b, hb with
      | [a0, a1, a2, a3], _, [b0, b1, b2, b3], _ =>
        simp only [pathTag] at h
        split at h <;> split at h
        · rename_i e1 e2
          rw [e1, e2]; exact ⟨rfl, List.append_cancel_left h⟩
        · exfalso
          simp only [nopi, List.cons_append, List.nil_append, List.cons.injEq] at h
          omega
        · exfalso
          simp only [nopi, List.cons_append, List.nil_append, List.cons.injEq] at h
          omega
        · simp only [List.cons_append, List.nil_append, List.cons.injEq] at h
          obtain ⟨h0, h1, h2, h3, h4⟩ := h
          subst h0 h1 h2 h3
          exact ⟨rfl, by rw [h4.1, h4.2]⟩

theorem optBytes_length_eq {r r' : Option Bytes} (hr : ∀ b, r = some b → b.length = 8)
    (hr' : ∀ b, r' = some b → b.length = 8) (h : r.isSome = r'.isSome) :
    (optBytes r).length = (optBytes r').length := by
  cases r <;> cases r' <;> simp_all [optBytes]

theorem optBytes_inj {r r' : Option Bytes} (h : r.isSome = r'.isSome) (he : optBytes r = optBytes r') : r = r' := by
  cases r <;> cases r' <;> simp_all [optBytes]

end Exa.Index
