import ExaModel.Model.Index
set_option linter.unusedSimpArgs false
/-! Helper lemmas for M-Index: the family prefix is a fixed-length injective code, the ADD-PATH
    tags are a prefix-free code. -/
namespace Exa.Index
open Exa

theorem hexDigit_inj {a b : Nat} (ha : a < 16) (hb : b < 16) (h : hexDigit a = hexDigit b) : a = b := by
  unfold hexDigit at h
  split at h <;> split at h <;> omega

theorem fmt02x_inj {n m : Nat} (hn : n < 256) (hm : m < 256) (h : fmt02x n = fmt02x m) : n = m := by
  unfold fmt02x at h
  simp only [List.cons.injEq, and_true] at h
  have h1 := hexDigit_inj (by omega) (by omega) h.1
  have h2 := hexDigit_inj (by omega) (by omega) h.2
  omega

@[simp] theorem famIndex_length (a s : Nat) : (famIndex a s).length = 4 := rfl

theorem famIndex_inj {a s a' s' : Nat} (ha : a < 256) (hs : s < 256) (ha' : a' < 256) (hs' : s' < 256)
    (h : famIndex a s = famIndex a' s') : a = a' ∧ s = s' := by
  unfold famIndex at h
  have := List.append_inj h (by simp [fmt02x])
  exact ⟨fmt02x_inj ha ha' this.1, fmt02x_inj hs hs' this.2⟩

/-- Splitting an index equation at the 4-byte family prefix. -/
theorem fam_split {a s a' s' : Nat} {x y : Bytes} (ha : a < 256) (hs : s < 256) (ha' : a' < 256) (hs' : s' < 256)
    (h : famIndex a s ++ x = famIndex a' s' ++ y) : a = a' ∧ s = s' ∧ x = y := by
  have := List.append_inj h (by simp)
  have f := famIndex_inj ha hs ha' hs' this.1
  exact ⟨f.1, f.2, this.2⟩

/-- Unpacking of the guard. -/
structure WF (a : IpNlri) : Prop where
  afi : a.afi < 256
  safi : a.safi < 256
  path : ∀ p, a.path = some p → p.length = 4
  rd : ∀ r, a.rd = some r → r.length = 8
  pfx : a.pfx.length = cidrSize a.mask
  mask : a.mask ≤ 128
  inet : a.kind = .inet → a.labels = [] ∧ a.rd = none
  label : a.kind = .label → a.rd = none

theorem wf_iff (a : IpNlri) (h : wf a = true) : WF a := by
  unfold wf at h
  simp only [Bool.and_eq_true, decide_eq_true_eq, beq_iff_eq] at h
  obtain ⟨⟨⟨⟨⟨⟨h1, h2⟩, h3⟩, h4⟩, h5⟩, h6⟩, h7⟩ := h
  refine ⟨h1, h2, ?_, ?_, h5, h6, ?_, ?_⟩
  · intro p hp; rw [hp] at h3; simpa [optLenIs] using h3
  · intro r hr; rw [hr] at h4; simpa [optLenIs] using h4
  · intro hk; rw [hk] at h7
    simp only [Bool.and_eq_true, List.isEmpty_iff, Option.isNone_iff_eq_none] at h7
    exact h7
  · intro hk; rw [hk] at h7
    simpa using h7

theorem optBytes_length_eq {r r' : Option Bytes} (hr : ∀ b, r = some b → b.length = 8)
    (hr' : ∀ b, r' = some b → b.length = 8) (h : r.isSome = r'.isSome) :
    (optBytes r).length = (optBytes r').length := by
  cases r <;> cases r' <;> simp_all [optBytes]

theorem optBytes_inj {r r' : Option Bytes} (h : r.isSome = r'.isSome) (he : optBytes r = optBytes r') : r = r' := by
  cases r <;> cases r' <;> simp_all [optBytes]

theorem key_ext {a b : IpNlri} (h1 : a.afi = b.afi) (h2 : a.safi = b.safi) (h3 : a.path = b.path)
    (h4 : a.mask = b.mask) (h5 : a.pfx = b.pfx) (h6 : a.rd = b.rd) : key a = key b := by
  simp [key, h1, h2, h3, h4, h5, h6]

/-- Under the guard the three class-specific formulas are the one formula `indexU`. -/
theorem index_eq_uniform (a : IpNlri) (ha : WF a) : index a = indexU a := by
  unfold index indexU
  cases hk : a.kind with
  | inet =>
    have ia := ha.inet hk
    have hf : rdFlag a = [] := by simp [rdFlag, hk]
    simp only [packed, rdBits, hf, ia.1, ia.2, optBytes]
    cases hp : a.path <;> simp [pathTag, optBytes]
  | label =>
    have ra := ha.label hk
    have hf : rdFlag a = [] := by simp [rdFlag, hk]
    simp [rdBits, hf, ra, optBytes]
  | vpn =>
    have hf : rdFlag a = [if a.rd.isSome then 1 else 0] := by simp [rdFlag, hk]
    simp [hf]

/-- The tags are a prefix-free code. -/
theorem pathTag_split {k : Kind} {p q : Option Bytes} {x y : Bytes}
    (hp : ∀ b, p = some b → b.length = 4) (hq : ∀ b, q = some b → b.length = 4)
    (h : pathTag k p ++ x = pathTag k q ++ y) : p = q ∧ x = y := by
  cases p with
  | none =>
    cases q with
    | none => exact ⟨rfl, List.append_cancel_left h⟩
    | some b =>
      exfalso
      simp only [pathTag] at h
      split at h <;> simp [disabled, nopi, pathWord] at h
  | some a =>
    have ha := hp a rfl
    cases q with
    | none =>
      exfalso
      simp only [pathTag] at h
      split at h <;> simp [disabled, nopi, pathWord] at h
    | some b =>
      have hb := hq b rfl
      simp only [pathTag] at h
      split at h <;> split at h
      · rename_i e1 e2
        rw [e1.2, e2.2]; exact ⟨rfl, List.append_cancel_left h⟩
      · exfalso; simp [nopi, pathWord] at h
      · exfalso; simp [nopi, pathWord] at h
      · simp only [List.append_assoc] at h
        have h1 := List.append_cancel_left h
        have h2 := List.append_inj h1 (by omega)
        exact ⟨by rw [h2.1], h2.2⟩

end Exa.Index
