import ExaModel.Lemmas.NegoSpec
set_option linter.unusedSimpArgs false
set_option linter.unusedVariables false
/-! What the OPEN we send advertises (`Capabilities.new`), stated on the views the RFCs negotiate on. -/
namespace Exa.Open

theorem mem_ite_nil {α : Type} (p : Prop) [Decidable p] (l : List α) (x : α) :
    x ∈ (if p then l else []) ↔ p ∧ x ∈ l := by
  by_cases h : p <;> simp [h]

theorem ourCaps_mp (cfg : Cfg) (a s : Nat) : Cap.mp a s ∈ ourCaps cfg ↔ (a, s) ∈ cfg.families := by
  simp only [ourCaps, List.mem_append, mem_ite_nil, List.mem_map]
  cases cfg.graceful <;> simp
  all_goals
    constructor
    · rintro ⟨x, y, h, rfl, rfl⟩; exact h
    · intro h; exact ⟨a, s, h, rfl, rfl⟩


theorem ourCaps_refresh (cfg : Cfg) : Cap.refresh ∈ ourCaps cfg ↔ cfg.routeRefresh = true := by
  simp only [ourCaps, List.mem_append, mem_ite_nil, List.mem_map]
  cases cfg.graceful <;> simp

theorem ourCaps_enhanced (cfg : Cfg) : Cap.enhanced ∈ ourCaps cfg ↔ cfg.routeRefresh = true := by
  simp only [ourCaps, List.mem_append, mem_ite_nil, List.mem_map]
  cases cfg.graceful <;> simp

theorem ourCaps_extMsg (cfg : Cfg) : Cap.extMsg ∈ ourCaps cfg ↔ cfg.extMsg = true := by
  simp only [ourCaps, List.mem_append, mem_ite_nil, List.mem_map]
  cases cfg.graceful <;> simp

theorem ourCaps_asn4_mem (cfg : Cfg) (v : Nat) : Cap.asn4 v ∈ ourCaps cfg ↔ cfg.asn4 = true ∧ v = cfg.localAs := by
  simp only [ourCaps, List.mem_append, mem_ite_nil, List.mem_map]
  cases cfg.graceful <;> simp

theorem ourCaps_nexthop_mem (cfg : Cfg) (es : List Triple) :
    Cap.nexthop es ∈ ourCaps cfg ↔
      cfg.nexthopOn = true ∧ es = nexthopAllowed.filter (fun t => cfg.nexthops.contains t) := by
  simp only [ourCaps, List.mem_append, mem_ite_nil, List.mem_map]
  cases cfg.graceful <;> simp

theorem ourCaps_addpath_mem (cfg : Cfg) (es : List Triple) :
    Cap.addpath es ∈ ourCaps cfg ↔
      cfg.addPath ≠ 0 ∧ es = (addPathAllowed.filter (fun f => cfg.addpaths.contains f)).map (famTriple cfg.addPath) := by
  simp only [ourCaps, List.mem_append, mem_ite_nil, List.mem_map]
  cases cfg.graceful <;> simp

def asn4Step (acc : Option Nat) (c : Cap) : Option Nat := match c with | .asn4 v => some v | _ => acc

theorem asn4Fold_none (l : List Cap) (init : Option Nat) (h : ∀ w, Cap.asn4 w ∉ l) : l.foldl asn4Step init = init := by
  induction l generalizing init with
  | nil => rfl
  | cons c t ih =>
    simp only [List.foldl_cons]
    rw [ih _ (fun w hw => h w (List.mem_cons_of_mem _ hw))]
    cases c <;> simp [asn4Step]
    rename_i w; exact absurd (by simp) (h w)

theorem asn4Fold_some (l : List Cap) (init : Option Nat) (h : ∃ w, Cap.asn4 w ∈ l) :
    ∃ w, Cap.asn4 w ∈ l ∧ l.foldl asn4Step init = some w := by
  induction l generalizing init with
  | nil => simp at h
  | cons c t ih =>
    simp only [List.foldl_cons]
    by_cases ht : ∃ w, Cap.asn4 w ∈ t
    · obtain ⟨w, hw, e⟩ := ih (asn4Step init c) ht
      exact ⟨w, List.mem_cons_of_mem _ hw, e⟩
    · have ht' : ∀ w, Cap.asn4 w ∉ t := fun w hw => ht ⟨w, hw⟩
      rw [asn4Fold_none t _ ht']
      obtain ⟨w, hw⟩ := h
      rcases List.mem_cons.1 hw with h1 | h1
      · subst h1; exact ⟨w, by simp, rfl⟩
      · exact absurd h1 (ht' w)

theorem asn4Of_eq_fold (caps : List Cap) : asn4Of caps = caps.foldl asn4Step none := rfl

/-- the last ASN4 capability is one of the ASN4 capabilities of the list; none iff there is none -/
theorem asn4Of_mem (caps : List Cap) (v : Nat) (h : asn4Of caps = some v) : Cap.asn4 v ∈ caps := by
  by_cases he : ∃ w, Cap.asn4 w ∈ caps
  · obtain ⟨w, hw, e⟩ := asn4Fold_some caps none he
    rw [asn4Of_eq_fold, e] at h; cases h; exact hw
  · rw [asn4Of_eq_fold, asn4Fold_none caps none (fun w hw => he ⟨w, hw⟩)] at h; cases h

theorem asn4Of_isSome (caps : List Cap) : (asn4Of caps).isSome = true ↔ ∃ w, Cap.asn4 w ∈ caps := by
  constructor
  · intro h
    cases hv : asn4Of caps with
    | none => simp [hv] at h
    | some v => exact ⟨v, asn4Of_mem caps v hv⟩
  · intro he
    obtain ⟨w, _, e⟩ := asn4Fold_some caps none he
    rw [asn4Of_eq_fold, e]; rfl

theorem ourCaps_asn4Of (cfg : Cfg) : asn4Of (ourCaps cfg) = if cfg.asn4 then some cfg.localAs else none := by
  by_cases h : cfg.asn4 = true
  · have he : ∃ w, Cap.asn4 w ∈ ourCaps cfg := ⟨cfg.localAs, (ourCaps_asn4_mem cfg _).2 ⟨h, rfl⟩⟩
    obtain ⟨w, hw, e⟩ := asn4Fold_some (ourCaps cfg) none he
    have := ((ourCaps_asn4_mem cfg w).1 hw).2
    subst this
    simp [asn4Of_eq_fold, e, h]
  · have hn : ∀ w, Cap.asn4 w ∉ ourCaps cfg := fun w hw => h ((ourCaps_asn4_mem cfg w).1 hw).1
    simp [asn4Of_eq_fold, asn4Fold_none _ none hn, h]

theorem ourCaps_nexthopOf (cfg : Cfg) (x : Triple) :
    x ∈ nexthopOf (ourCaps cfg) ↔ cfg.nexthopOn = true ∧ x ∈ nexthopAllowed ∧ x ∈ cfg.nexthops := by
  simp only [mem_nexthopOf, ourCaps_nexthop_mem]
  constructor
  · rintro ⟨es, ⟨h1, rfl⟩, h2⟩
    simp only [List.mem_filter, List.contains_iff_mem] at h2
    exact ⟨h1, h2.1, by simpa using h2.2⟩
  · rintro ⟨h1, h2, h3⟩
    exact ⟨_, ⟨h1, rfl⟩, by simp [List.mem_filter, h2, h3]⟩

theorem mem_addpathEntries (caps : List Cap) (e : Triple) :
    e ∈ addpathEntries caps ↔ ∃ es, Cap.addpath es ∈ caps ∧ e ∈ es := by
  simp only [addpathEntries, List.mem_flatMap]
  constructor
  · rintro ⟨c, hc, h⟩
    cases c <;> simp at h
    exact ⟨_, hc, h⟩
  · rintro ⟨es, hc, h⟩; exact ⟨_, hc, by simpa using h⟩

theorem srFold_unique (f : Family) (v : Nat) (es : List Triple) (init : Nat)
    (h : ∀ e ∈ es, (e.1, e.2.1) = f → e.2.2 = v) :
    srFold f init es = if es.any (fun e => decide ((e.1, e.2.1) = f)) then v else init := by
  induction es generalizing init with
  | nil => simp [srFold]
  | cons e t ih =>
    have step : srFold f init (e :: t) = srFold f (if (e.1, e.2.1) = f then e.2.2 else init) t := rfl
    rw [step, ih _ (fun x hx => h x (List.mem_cons_of_mem _ hx))]
    by_cases he : (e.1, e.2.1) = f
    · have := h e (by simp) he
      simp [List.any_cons, he, this]
    · have hd : decide ((e.1, e.2.1) = f) = false := decide_eq_false he
      simp only [List.any_cons, hd, Bool.false_or, if_neg he]

/-- The Send/Receive octet our OPEN carries for a family: the configured direction on the
    configured ADD-PATH families the implementation supports, nothing elsewhere. -/
theorem ourCaps_srOf (cfg : Cfg) (f : Family) :
    srOf (ourCaps cfg) f =
      if cfg.addPath ≠ 0 ∧ f ∈ addPathAllowed ∧ f ∈ cfg.addpaths then cfg.addPath else 0 := by
  have hall : ∀ e ∈ addpathEntries (ourCaps cfg), (e.1, e.2.1) = f → e.2.2 = cfg.addPath := by
    intro e he _
    obtain ⟨es, hes, hm⟩ := (mem_addpathEntries _ e).1 he
    obtain ⟨_, rfl⟩ := (ourCaps_addpath_mem cfg es).1 hes
    simp only [List.mem_map, famTriple] at hm
    obtain ⟨g, _, rfl⟩ := hm
    rfl
  rw [srOf_eq, srFold_unique f cfg.addPath _ 0 hall]
  have hiff : (addpathEntries (ourCaps cfg)).any (fun e => decide ((e.1, e.2.1) = f)) = true
      ↔ cfg.addPath ≠ 0 ∧ f ∈ addPathAllowed ∧ f ∈ cfg.addpaths := by
    simp only [List.any_eq_true, decide_eq_true_eq]
    constructor
    · rintro ⟨e, he, hf⟩
      obtain ⟨es, hes, hm⟩ := (mem_addpathEntries _ e).1 he
      obtain ⟨h0, rfl⟩ := (ourCaps_addpath_mem cfg es).1 hes
      simp only [List.mem_map, famTriple, List.mem_filter, List.contains_iff_mem] at hm
      obtain ⟨g, ⟨hg1, hg2⟩, rfl⟩ := hm
      simp only at hf
      have : g = f := by cases g; simpa using hf
      subst this
      exact ⟨h0, hg1, hg2⟩
    · rintro ⟨h0, h1, h2⟩
      refine ⟨famTriple cfg.addPath f, ?_, by simp [famTriple]⟩
      apply (mem_addpathEntries _ _).2
      refine ⟨_, (ourCaps_addpath_mem cfg _).2 ⟨h0, rfl⟩, ?_⟩
      simp only [List.mem_map, List.mem_filter, List.contains_iff_mem]
      exact ⟨f, ⟨h1, h2⟩, rfl⟩
  by_cases hc : cfg.addPath ≠ 0 ∧ f ∈ addPathAllowed ∧ f ∈ cfg.addpaths
  · rw [if_pos (hiff.2 hc), if_pos hc]
  · have : ¬ ((addpathEntries (ourCaps cfg)).any (fun e => decide ((e.1, e.2.1) = f)) = true) := fun h => hc (hiff.1 h)
    rw [if_neg this, if_neg hc]

/-! ### every other capability `Capabilities.new` can emit -/

theorem ourCaps_graceful_mem (cfg : Cfg) (fl t : Nat) (fams : List Triple) :
    Cap.graceful fl t fams ∈ ourCaps cfg ↔
      ∃ rt, cfg.graceful = some rt ∧ fl = 0 ∧ t = restartTime cfg rt % 4096 ∧ fams = cfg.families.map (famTriple 128) := by
  simp only [ourCaps, List.mem_append, mem_ite_nil, List.mem_map]
  cases cfg.graceful <;> simp

theorem ourCaps_hostname_mem (cfg : Cfg) (h d : Bytes) :
    Cap.hostname h d ∈ ourCaps cfg ↔ cfg.host ≠ [] ∧ h = cfg.host.take 64 ∧ d = cfg.domain.take 64 := by
  simp only [ourCaps, List.mem_append, mem_ite_nil, List.mem_map]
  cases cfg.graceful <;> cases hh : cfg.host <;> simp

theorem ourCaps_software_mem (cfg : Cfg) (v : Bytes) :
    Cap.software v ∈ ourCaps cfg ↔ cfg.software = true ∧ v = cfg.swVersion := by
  simp only [ourCaps, List.mem_append, mem_ite_nil, List.mem_map]
  cases cfg.graceful <;> simp

theorem ourCaps_operational (cfg : Cfg) : Cap.operational ∈ ourCaps cfg ↔ cfg.operational = true := by
  simp only [ourCaps, List.mem_append, mem_ite_nil, List.mem_map]
  cases cfg.graceful <;> simp

theorem ourCaps_linkLocal (cfg : Cfg) : Cap.linkLocal ∈ ourCaps cfg ↔ cfg.linkLocal = true := by
  simp only [ourCaps, List.mem_append, mem_ite_nil, List.mem_map]
  cases cfg.graceful <;> simp

theorem ourCaps_multisession_mem (cfg : Cfg) (c : Bool) (v : Bytes) :
    Cap.multisession c v ∈ ourCaps cfg ↔ cfg.multiSession = true ∧ c = false ∧ (v = [0] ∨ v = [1]) := by
  simp only [ourCaps, List.mem_append, mem_ite_nil, List.mem_map]
  cases cfg.graceful <;> simp <;> grind

theorem ourCaps_pathsLimit_mem (cfg : Cfg) (es : List Triple) :
    Cap.pathsLimit es ∈ ourCaps cfg ↔ cfg.addPath ≠ 0 ∧ ourPathsLimit cfg ≠ [] ∧ es = ourPathsLimit cfg := by
  simp only [ourCaps, List.mem_append, mem_ite_nil, List.mem_map]
  cases cfg.graceful <;> simp <;> grind

/-- the limits advertised: the configured non-zero limits of the families on which we advertise
    ADD-PATH *receive* -/
theorem mem_ourPathsLimit (cfg : Cfg) (a s l : Nat) :
    (a, s, l) ∈ ourPathsLimit cfg ↔
      ((a, s), l) ∈ cfg.pathsLimit ∧ (a, s) ∈ addPathAllowed ∧ (a, s) ∈ cfg.addpaths ∧ cfg.addPath % 2 = 1 ∧ 0 < l := by
  simp only [ourPathsLimit, List.mem_map, List.mem_filter, Bool.and_eq_true, List.contains_iff_mem,
    decide_eq_true_eq]
  constructor
  · rintro ⟨⟨⟨a', s'⟩, l'⟩, ⟨h1, ⟨⟨h2, h3⟩, h4⟩, h5⟩, h6⟩
    simp only [Prod.mk.injEq] at h6
    obtain ⟨rfl, rfl, rfl⟩ := h6
    exact ⟨h1, h2, h3, h4, h5⟩
  · rintro ⟨h1, h2, h3, h4, h5⟩
    exact ⟨((a, s), l), ⟨h1, ⟨⟨h2, h3⟩, h4⟩, h5⟩, rfl⟩

theorem ourCaps_never (cfg : Cfg) :
    Cap.refreshCisco ∉ ourCaps cfg ∧ (∀ c v, Cap.unknown c v ∉ ourCaps cfg) ∧ (∀ v, Cap.multisession true v ∉ ourCaps cfg) := by
  refine ⟨?_, ?_, ?_⟩
  · simp only [ourCaps, List.mem_append, mem_ite_nil, List.mem_map]
    cases cfg.graceful <;> simp
  · intro c v
    simp only [ourCaps, List.mem_append, mem_ite_nil, List.mem_map]
    cases cfg.graceful <;> simp
  · intro v h
    have := (ourCaps_multisession_mem cfg true v).1 h
    simp at this

theorem any_isMs_iff (caps : List Cap) (b : Bool) : caps.any (isMs b) = true ↔ ∃ v, Cap.multisession b v ∈ caps := by
  simp only [List.any_eq_true]
  constructor
  · rintro ⟨c, hc, h⟩
    cases c <;> simp [isMs] at h
    subst h; exact ⟨_, hc⟩
  · rintro ⟨v, hv⟩; exact ⟨_, hv, by simp [isMs]⟩

theorem ourCaps_isMs (cfg : Cfg) : (ourCaps cfg).any (isMs false) = cfg.multiSession ∧ (ourCaps cfg).any (isMs true) = false := by
  constructor
  · cases h : cfg.multiSession with
    | true => exact (any_isMs_iff _ _).2 ⟨[0], (ourCaps_multisession_mem cfg false [0]).2 ⟨h, rfl, Or.inl rfl⟩⟩
    | false =>
      cases h2 : (ourCaps cfg).any (isMs false) with
      | false => rfl
      | true =>
        obtain ⟨v, hv⟩ := (any_isMs_iff _ _).1 h2
        have := ((ourCaps_multisession_mem cfg false v).1 hv).1
        rw [h] at this; cases this
  · cases h2 : (ourCaps cfg).any (isMs true) with
    | false => rfl
    | true =>
      obtain ⟨v, hv⟩ := (any_isMs_iff _ _).1 h2
      exact absurd hv ((ourCaps_never cfg).2.2 v)

end Exa.Open
