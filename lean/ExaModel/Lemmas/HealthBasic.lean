import ExaModel.Model.Health
set_option linter.unusedSimpArgs false
/-! Helper lemmas for M-Health: streaks (`trailing`), one-step facts about `one`, the run invariant. -/
namespace Exa.Health

/-! ## streaks -/

theorem trailing_nil {α : Type} (p : α → Bool) : trailing p [] = 0 := rfl

theorem trailing_snoc {α : Type} (p : α → Bool) (l : List α) (x : α) :
    trailing p (l ++ [x]) = if p x then trailing p l + 1 else 0 := by
  unfold trailing
  simp only [List.reverse_append, List.reverse_cons, List.reverse_nil, List.nil_append,
    List.singleton_append, List.takeWhile_cons]
  split <;> simp

/-- A streak of at least `n` means: the history ends with a window of exactly `n` inputs that all
    satisfy `p`. -/
theorem trailing_window {α : Type} (p : α → Bool) (l : List α) (n : Nat) (h : n ≤ trailing p l) :
    ∃ before window, l = before ++ window ∧ window.length = n ∧ ∀ x ∈ window, p x = true := by
  unfold trailing at h
  have hsplit := List.takeWhile_append_dropWhile (p := p) (l := l.reverse)
  have hl : l = (l.reverse.dropWhile p).reverse ++ (l.reverse.takeWhile p).reverse := by
    have := congrArg List.reverse hsplit
    rw [List.reverse_append, List.reverse_reverse] at this
    exact this.symm
  let tw := (l.reverse.takeWhile p).reverse
  have htw : tw.length = (l.reverse.takeWhile p).length := by simp [tw]
  refine ⟨(l.reverse.dropWhile p).reverse ++ tw.take (tw.length - n), tw.drop (tw.length - n), ?_, ?_, ?_⟩
  · rw [List.append_assoc, List.take_append_drop]; exact hl
  · simp only [List.length_drop]; omega
  · intro x hx
    have hx' : x ∈ tw := List.mem_of_mem_drop hx
    have hx'' : x ∈ l.reverse.takeWhile p := by simpa [tw] using hx'
    have hall := List.all_takeWhile (l := l.reverse) (p := p)
    exact List.all_eq_true.1 hall x hx''

/-! ## runs -/

theorem Run.from_append (c : Cfg) (r : Run) (a b : List Inp) :
    Run.from c r (a ++ b) = Run.from c (Run.from c r a) b := by
  simp [Run.from, List.foldl_append]

theorem run_snoc (c : Cfg) (pre : List Inp) (i : Inp) :
    run c (pre ++ [i]) = (run c pre).step c i := by
  simp [run, Run.from, List.foldl_append]

theorem run_nil (c : Cfg) : run c [] = {} := rfl

end Exa.Health
