import ExaModel.Model.Session
set_option linter.unusedSimpArgs false
set_option linter.unusedVariables false
/-!
# M-Session — the state invariant and its preservation

`Inv` relates where the coroutine is (`pc`), the FSM variable and `peer.proto` (`conn`); it holds
initially and after every `step`.  Everything the property theorems need follows from it.
-/
namespace Exa.Session

@[simp] theorem andThen_fst (r : R) (f : State → R) : (r ⊳ f).1 = (f r.1).1 := rfl
@[simp] theorem andThen_snd (r : R) (f : State → R) : (r ⊳ f).2 = r.2 ++ (f r.1).2 := rfl

/-- the coroutine reads connection `c` and `c` is still `peer.proto`. -/
def Cur (s : State) (c : Nat) : Prop := ∃ k, s.conn = some k ∧ k.id = c

structure Inv (s : State) : Prop where
  backoffIdle : s.pc = .backoff → s.fsm = .idle
  doneIdle : s.pc = .done → s.fsm = .idle
  connectingIdle : s.pc = .connecting → s.fsm = .idle
  passive : s.pc = .passiveWait → (s.fsm = .active ∨ s.fsm = .idle) ∧ s.conn = none
  awaitOpen : ∀ c k, s.pc = .awaitOpen c → s.conn = some k → k.id = c → s.fsm = .opensent ∧ k.openSent = true
  awaitKa : ∀ c k, s.pc = .awaitKa c → s.conn = some k → k.id = c →
    s.fsm = .openconfirm ∧ k.openSent = true ∧ k.openRecv = true
  main : ∀ c k, s.pc = .mainLoop c → s.conn = some k → k.id = c →
    s.fsm = .established ∧ k.openSent = true ∧ k.openRecv = true ∧ k.kaRecv = true
  opensent : s.fsm = .opensent → ∃ k, s.conn = some k ∧ s.pc = .awaitOpen k.id
  openconfirm : s.fsm = .openconfirm → ∃ k, s.conn = some k ∧ s.pc = .awaitKa k.id
  established : s.fsm = .established → ∃ k, s.conn = some k ∧ s.pc = .mainLoop k.id
  notConnect : s.fsm ≠ .connect
  connId : ∀ k, s.conn = some k → k.id < s.nextId
  awaitId : ∀ c, awaited s = some c → c < s.nextId
  up : s.isUp = true → s.fsm = .established ∨ s.pc = .done

theorem inv_init (cfg : Cfg) (rib : Bool) : Inv (init cfg rib) := by
  constructor <;> simp [init, awaited]

end Exa.Session
