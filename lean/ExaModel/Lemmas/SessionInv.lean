import ExaModel.Model.Session
set_option linter.unusedSimpArgs false
set_option linter.unusedVariables false
/-!
# M-Session — the state invariant and its preservation

`Inv` relates where the coroutine is (`pc`), the FSM variable and `peer.proto` (`conn`); it holds
initially and after every `step`.  The property theorems follow from it.
-/
namespace Exa.Session

@[simp] theorem andThen_fst (r : R) (f : State → R) : (r ⊳ f).1 = (f r.1).1 := rfl
@[simp] theorem andThen_snd (r : R) (f : State → R) : (r ⊳ f).2 = r.2 ++ (f r.1).2 := rfl

structure Inv (s : State) : Prop where
  backoffIdle : s.pc = .backoff → s.fsm = .idle
  doneIdle : s.pc = .done → s.fsm = .idle
  connectingIdle : s.pc = .connecting → s.fsm = .idle
  passive : s.pc = .passiveWait → (s.fsm = .active ∨ s.fsm = .idle) ∧ s.conn = none
  awaitOpen : ∀ c k, s.pc = .awaitOpen c → s.conn = some k → k.id = c → s.fsm = .opensent ∧ k.openSent = true
  awaitKa : ∀ c k, s.pc = .awaitKa c → s.conn = some k → k.id = c →
    s.fsm = .openconfirm ∧ k.openSent = true ∧ k.openRecv = true
  main : ∀ c k, s.pc = .mainLoop c → s.conn = some k → k.id = c →
    s.fsm = .established ∧ k.openSent = true ∧ k.openRecv = true ∧ k.kaRecv = true
  opensent : s.fsm = .opensent → ∃ k, s.conn = some k ∧ s.pc = .awaitOpen k.id
  openconfirm : s.fsm = .openconfirm → ∃ k, s.conn = some k ∧ s.pc = .awaitKa k.id
  established : s.fsm = .established → ∃ k, s.conn = some k ∧ s.pc = .mainLoop k.id
  notConnect : s.fsm ≠ .connect
  active : s.fsm = .active → s.pc = .passiveWait
  connId : ∀ k, s.conn = some k → k.id < s.nextId
  awaitId : ∀ c, awaited s = some c → c < s.nextId
  up : s.isUp = true → s.fsm = .established ∨ s.pc = .done
  quietFresh : (s.fsm = .idle ∨ s.fsm = .active) → ∀ k, s.conn = some k → k.openSent = false

theorem inv_init (cfg : Cfg) (rib : Bool) : Inv (init cfg rib) := by
  constructor <;> simp [init, awaited]

/-- API `up` is outstanding only while ESTABLISHED (or when the peer has ended for good). -/
theorem Inv.hup {s : State} (h : Inv s) (hd : s.pc ≠ .done) : s.isUp = true → s.fsm = .established := by
  intro hu
  rcases h.up hu with h1 | h1
  · exact h1
  · exact (hd h1).elim

theorem Inv.isUp_false {s : State} (h : Inv s) (hd : s.pc ≠ .done) (he : s.fsm ≠ .established) : s.isUp = false := by
  cases hu : s.isUp
  · rfl
  · rcases h.up hu with h1 | h1 <;> contradiction

/-! ## closed forms of the handlers (state part) -/

def quietFsm (f : Fsm) : Bool := f == .idle || f == .active

theorem closeP_fst (s : State) :
    (closeP s).1 = { s with fsm := .idle, conn := none, isUp := s.isUp && quietFsm s.fsm } := by
  simp only [closeP, apiDown, fsmTo, closeConn, andThen_fst, quietFsm]
  cases hf : s.fsm <;> cases hc : s.conn <;> simp [hf, hc]

theorem resetP_fst (s : State) :
    (resetP s).1 = { s with fsm := .idle, conn := none, isUp := s.isUp && quietFsm s.fsm,
                            teardown := if s.restart then none else s.teardown,
                            refreshQ := if s.restart then 0 else s.refreshQ } := by
  simp only [resetP, andThen_fst, closeP_fst]
  cases hr : s.restart <;> simp [hr]

/-- the state after `except NetworkError` / `except Notification`. -/
theorem onNetErr_fst (s : State) :
    (onNetErr s).1 =
      { s with fsm := .idle, conn := none, restart := s.restart && canReconnect s,
               pc := if s.restart && canReconnect s then .backoff else .done,
               isUp := s.isUp && (quietFsm s.fsm || !canReconnect s),
               teardown := if canReconnect s then (if s.restart then none else s.teardown) else some 3,
               refreshQ := if s.restart && canReconnect s then 0 else s.refreshQ } := by
  simp only [onNetErr, stopIfExhausted, stopP, fsmTo, finish, andThen_fst, resetP_fst]
  cases hc : canReconnect s <;> cases hr : s.restart <;> simp [hc, hr, quietFsm]

theorem onNotification_fst (s : State) : (onNotification s).1 = (onNetErr s).1 := rfl

theorem onOther_fst (s : State) :
    (onOther s).1 =
      { s with fsm := .idle, conn := none, pc := if s.restart then .backoff else .done,
               isUp := s.isUp && quietFsm s.fsm,
               teardown := if s.restart then none else s.teardown,
               refreshQ := if s.restart then 0 else s.refreshQ } := by
  simp only [onOther, finish, andThen_fst, resetP_fst]

theorem onNotify_fst (code sub : Nat) (s : State) :
    (onNotify code sub s).1 =
      { s with fsm := .idle, conn := none, restart := s.restart && canReconnect s,
               pc := if s.restart && canReconnect s then .backoff else .done,
               isUp := s.isUp && quietFsm s.fsm,
               teardown := if canReconnect s then (if s.restart then none else s.teardown) else some 3,
               refreshQ := if s.restart then 0 else s.refreshQ } := by
  obtain ⟨cfg, fsm, pc, conn, nextId, restart, teardown, attempts, rib, rq, rp, ep, ka, up⟩ := s
  simp only [onNotify, stopIfExhausted, stopP, fsmTo, finish, andThen_fst, resetP_fst, sendOn, canReconnect]
  rcases Bool.eq_false_or_eq_true (cfg.maxAttempts == 0 || decide (attempts < cfg.maxAttempts)) with hcr | hcr <;>
  cases restart <;> cases conn with
  | none => simp [hcr, quietFsm]
  | some c => cases hrst : c.rst <;> simp [hcr, quietFsm, hrst]

/-! ## where the handlers leave the peer -/

/-- where every exception handler of `_run` leaves the peer. -/
structure Ended (s s' : State) : Prop where
  fsm : s'.fsm = .idle
  conn : s'.conn = none
  pc : s'.pc = .backoff ∨ s'.pc = .done
  nextId : s'.nextId = s.nextId
  up : s'.isUp = true → s'.pc = .done

theorem inv_of_ended {s s' : State} (h : Ended s s') : Inv s' := by
  obtain ⟨hf, hc, hp, hn, hu⟩ := h
  constructor <;> intros <;> simp_all [awaited]
  all_goals (rcases hp with hp | hp <;> simp_all)

theorem quiet_of_up {s : State} (hup : s.isUp = true → s.fsm = .established) (h : s.isUp = true) :
    quietFsm s.fsm = false := by rw [hup h]; rfl

theorem onNetErr_ended (s : State) (hup : s.isUp = true → s.fsm = .established) : Ended s (onNetErr s).1 := by
  rw [onNetErr_fst]
  refine ⟨rfl, rfl, ?_, rfl, ?_⟩
  · cases s.restart <;> cases canReconnect s <;> simp
  · cases hu : s.isUp
    · simp
    · cases hc : canReconnect s <;> simp [quiet_of_up hup hu]

theorem onNotification_ended (s : State) (hup : s.isUp = true → s.fsm = .established) :
    Ended s (onNotification s).1 := onNetErr_ended s hup

theorem onOther_ended (s : State) (hup : s.isUp = true → s.fsm = .established) : Ended s (onOther s).1 := by
  rw [onOther_fst]
  refine ⟨rfl, rfl, ?_, rfl, ?_⟩
  · cases s.restart <;> simp
  · cases hu : s.isUp
    · simp
    · simp [quiet_of_up hup hu]

theorem onNotify_ended (code sub : Nat) (s : State) (hup : s.isUp = true → s.fsm = .established) :
    Ended s (onNotify code sub s).1 := by
  rw [onNotify_fst]
  refine ⟨rfl, rfl, ?_, rfl, ?_⟩
  · cases s.restart <;> cases canReconnect s <;> simp
  · cases hu : s.isUp
    · simp
    · simp [quiet_of_up hup hu]

theorem Ended.trans_eq {s t u : State} (h : Ended t u) (hn : t.nextId = s.nextId) : Ended s u :=
  ⟨h.fsm, h.conn, h.pc, by rw [h.nextId, hn], h.up⟩

/-! ## congruence: `Inv` looks at `fsm`, `pc`, `conn` (id and history), `nextId`, `isUp` only -/

/-- the part of a connection `Inv` speaks about. -/
def Conn.hist (k : Conn) : Nat × Bool × Bool × Bool := (k.id, k.openSent, k.openRecv, k.kaRecv)

theorem Inv.congr {s s' : State} (h : Inv s) (hf : s'.fsm = s.fsm) (hp : s'.pc = s.pc)
    (hc : s'.conn.map Conn.hist = s.conn.map Conn.hist) (hn : s'.nextId = s.nextId) (hu : s'.isUp = s.isUp) : Inv s' := by
  have hcase : (s'.conn = none ∧ s.conn = none) ∨
      ∃ k k', s.conn = some k ∧ s'.conn = some k' ∧ k'.id = k.id ∧ k'.openSent = k.openSent ∧
        k'.openRecv = k.openRecv ∧ k'.kaRecv = k.kaRecv := by
    cases h1 : s.conn <;> cases h2 : s'.conn <;> simp [h1, h2, Conn.hist] at hc ⊢
    exact ⟨hc.1, hc.2.1, hc.2.2.1, hc.2.2.2⟩
  have haw : awaited s' = awaited s := by simp [awaited, hp]
  rcases hcase with ⟨h1, h2⟩ | ⟨k, k', h1, h2, i1, i2, i3, i4⟩
  · constructor <;> simp only [hf, hp, hn, hu, h1, haw]
    · exact h.backoffIdle
    · exact h.doneIdle
    · exact h.connectingIdle
    · intro hh; exact ⟨(h.passive hh).1, trivial⟩
    · intro c x hh hx; cases hx
    · intro c x hh hx; cases hx
    · intro c x hh hx; cases hx
    · intro hh; obtain ⟨x, hx, _⟩ := h.opensent hh; rw [h2] at hx; cases hx
    · intro hh; obtain ⟨x, hx, _⟩ := h.openconfirm hh; rw [h2] at hx; cases hx
    · intro hh; obtain ⟨x, hx, _⟩ := h.established hh; rw [h2] at hx; cases hx
    · exact h.notConnect
    · exact h.active
    · intro x hx; cases hx
    · exact h.awaitId
    · exact h.up
    · intro _ x hx; cases hx
  · constructor <;> simp only [hf, hp, hn, hu, h2, haw]
    · exact h.backoffIdle
    · exact h.doneIdle
    · exact h.connectingIdle
    · intro hh; have := h.passive hh; simp_all
    · intro c x hh hx hi; cases hx; have := h.awaitOpen c k hh h1 (by omega); simp_all
    · intro c x hh hx hi; cases hx; have := h.awaitKa c k hh h1 (by omega); simp_all
    · intro c x hh hx hi; cases hx; have := h.main c k hh h1 (by omega); simp_all
    · intro hh; obtain ⟨x, hx, hpc⟩ := h.opensent hh; rw [h1] at hx; cases hx; exact ⟨k', rfl, by rw [i1]; exact hpc⟩
    · intro hh; obtain ⟨x, hx, hpc⟩ := h.openconfirm hh; rw [h1] at hx; cases hx; exact ⟨k', rfl, by rw [i1]; exact hpc⟩
    · intro hh; obtain ⟨x, hx, hpc⟩ := h.established hh; rw [h1] at hx; cases hx; exact ⟨k', rfl, by rw [i1]; exact hpc⟩
    · exact h.notConnect
    · exact h.active
    · intro x hx; cases hx; rw [i1]; exact h.connId k h1
    · exact h.awaitId
    · exact h.up
    · intro hq x hx; cases hx; rw [i2]; exact h.quietFresh hq k h1

/-! ## the five shapes a state has between two steps -/

theorem inv_idle {s : State} (hf : s.fsm = .idle) (hid : ∀ k, s.conn = some k → k.id < s.nextId)
    (haw : ∀ c, awaited s = some c → c < s.nextId ∧ ∀ k, s.conn = some k → k.id ≠ c)
    (hpas : s.pc = .passiveWait → s.conn = none) (hup : s.isUp = true → s.pc = .done)
    (hfresh : ∀ k, s.conn = some k → k.openSent = false) : Inv s := by
  have stale : ∀ c k, awaited s = some c → s.conn = some k → k.id = c → False :=
    fun c k h1 h2 h3 => (haw c h1).2 k h2 h3
  constructor
  · intro _; exact hf
  · intro _; exact hf
  · intro _; exact hf
  · intro h; exact ⟨Or.inr hf, hpas h⟩
  · intro c k hp hc hi; exact (stale c k (by simp [awaited, hp]) hc hi).elim
  · intro c k hp hc hi; exact (stale c k (by simp [awaited, hp]) hc hi).elim
  · intro c k hp hc hi; exact (stale c k (by simp [awaited, hp]) hc hi).elim
  · intro h; rw [hf] at h; cases h
  · intro h; rw [hf] at h; cases h
  · intro h; rw [hf] at h; cases h
  · rw [hf]; intro h; cases h
  · intro h; rw [hf] at h; cases h
  · exact hid
  · intro c h; exact (haw c h).1
  · intro h; exact Or.inr (hup h)
  · intro _; exact hfresh

theorem inv_passive {s : State} (hf : s.fsm = .active) (hp : s.pc = .passiveWait) (hc : s.conn = none)
    (hup : s.isUp = false) : Inv s := by
  constructor <;> simp_all [awaited]

theorem inv_awaitOpen {s : State} {k : Conn} (hf : s.fsm = .opensent) (hp : s.pc = .awaitOpen k.id)
    (hc : s.conn = some k) (h1 : k.openSent = true) (hid : k.id < s.nextId) (hup : s.isUp = false) : Inv s := by
  constructor <;> simp_all [awaited]

theorem inv_awaitKa {s : State} {k : Conn} (hf : s.fsm = .openconfirm) (hp : s.pc = .awaitKa k.id)
    (hc : s.conn = some k) (h1 : k.openSent = true) (h2 : k.openRecv = true) (hid : k.id < s.nextId)
    (hup : s.isUp = false) : Inv s := by
  constructor <;> simp_all [awaited]

theorem inv_main {s : State} {k : Conn} (hf : s.fsm = .established) (hp : s.pc = .mainLoop k.id)
    (hc : s.conn = some k) (h1 : k.openSent = true) (h2 : k.openRecv = true) (h3 : k.kaRecv = true)
    (hid : k.id < s.nextId) : Inv s := by
  constructor <;> simp_all [awaited]

end Exa.Session
