import ExaModel.Lemmas.FlowNlri
set_option linter.unusedSimpArgs false
/-! Per-operator view of an encoded component, and the traffic-action communities. -/
namespace Exa.Flow

theorem toRawTerms_getElem (ts : List Term) (i : Nat) (h : i < ts.length) :
    (toRawTerms ts)[i]'(by rw [toRawTerms_length]; exact h) = toRawTerm (decide (i + 1 = ts.length)) ts[i] := by
  induction ts generalizing i with
  | nil => simp at h
  | cons t ts ih =>
    cases ts with
    | nil =>
      have : i = 0 := by simpa using h
      subst this
      simp [toRawTerms]
    | cons t' ts' =>
      cases i with
      | zero => simp [toRawTerms]
      | succ j =>
        have hj : j < (t' :: ts').length := by simpa using h
        have := ih j hj
        simp only [toRawTerms, List.getElem_cons_succ, List.length_cons] at this ⊢
        rw [this]
        congr 1
        simp

theorem action_roundtrip (a : Action) (h : WFAction a) : decodeAction (encodeAction a) = some a := by
  cases a with
  | rateBytes asn f =>
    obtain ⟨h1, h2⟩ := h
    simp [encodeAction, decodeAction, beN, rdN]; omega
  | ratePackets asn f =>
    obtain ⟨h1, h2⟩ := h
    simp [encodeAction, decodeAction, beN, rdN]; omega
  | trafficAction s t =>
    cases s <;> cases t <;> simp [encodeAction, decodeAction, b2n]
  | redirectAS2 asn nn =>
    obtain ⟨h1, h2⟩ := h
    simp [encodeAction, decodeAction, beN, rdN]; omega
  | redirectIP4 ip nn =>
    obtain ⟨h1, h2⟩ := h
    simp [encodeAction, decodeAction, beN, rdN]; omega
  | redirectAS4 asn nn =>
    obtain ⟨h1, h2⟩ := h
    simp [encodeAction, decodeAction, beN, rdN]; omega
  | mark d =>
    simp only [WFAction] at h
    simp [encodeAction, decodeAction]; omega
  | nexthopSimpson c =>
    cases c <;> simp [encodeAction, decodeAction, b2n]
  | nexthopIetf4 ip c =>
    simp only [WFAction] at h
    cases c <;> simp [encodeAction, decodeAction, beN, rdN, b2n] <;> omega

theorem action_length (a : Action) : (encodeAction a).length = 8 := by
  cases a <;> simp [encodeAction]

theorem action_wf (a : Action) (h : WFAction a) : WFBytes (encodeAction a) := by
  cases a with
  | rateBytes asn f => exact wfBytes_append (wfBytes_append (by decide) (wf_beN _ _)) (wf_beN _ _)
  | ratePackets asn f => exact wfBytes_append (wfBytes_append (by decide) (wf_beN _ _)) (wf_beN _ _)
  | trafficAction s t => cases s <;> cases t <;> decide
  | redirectAS2 asn nn => exact wfBytes_append (wfBytes_append (by decide) (wf_beN _ _)) (wf_beN _ _)
  | redirectIP4 ip nn => exact wfBytes_append (wfBytes_append (by decide) (wf_beN _ _)) (wf_beN _ _)
  | redirectAS4 asn nn => exact wfBytes_append (wfBytes_append (by decide) (wf_beN _ _)) (wf_beN _ _)
  | mark d =>
    simp only [WFAction] at h
    intro b hb; simp [encodeAction] at hb; omega
  | nexthopSimpson c => cases c <;> decide
  | nexthopIetf4 ip c =>
    refine wfBytes_append (wfBytes_append (by decide) (wf_beN _ _)) ?_
    cases c <;> decide

end Exa.Flow
