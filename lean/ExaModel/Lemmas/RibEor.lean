import ExaModel.Lemmas.RibDown
set_option linter.unusedSimpArgs false
/-! End-of-RIB: facts about `ESess` (the `_send_eor_messages` step on top of M-Rib). -/
namespace Exa.Rib
open Exa

def EOp.isUp : EOp → Bool
  | .op o => o.isUp
  | .eor => true

def isEorEv : Ev → Bool
  | .eor _ => true
  | _ => false

theorem snapshot_no_eor (rib : Rib) : ∀ e ∈ rib.snapshotEvents, isEorEv e = false := by
  intro e he
  simp only [Rib.snapshotEvents, annSection, List.mem_append, List.mem_map, List.mem_flatMap,
    List.mem_singleton] at he
  rcases he with (((⟨_, _, rfl⟩ | ⟨_, _, rfl⟩) | ⟨_, _, rfl⟩) | ⟨_, _, rfl⟩) | ⟨_, _, h⟩
  · rfl
  · rfl
  · rfl
  · rfl
  · rcases h with ⟨_, _, rfl⟩ | rfl <;> rfl

/-- nothing in flight is an End-of-RIB marker: generators carry routes and refresh markers only -/
def NoEorInflight (s : Sess) : Prop := ∀ evs, s.inflight = some evs → ∀ e ∈ evs, isEorEv e = false

theorem noEor_step (s : Sess) (op : Op) (h : NoEorInflight s) :
    NoEorInflight (s.step op).1 ∧ ∀ e ∈ (s.step op).2, isEorEv e = false := by
  have keep : ∀ (rib : Rib), NoEorInflight ⟨rib, s.inflight, s.inclWd⟩ := fun _ => h
  have nil : ∀ e ∈ ([] : List Ev), isEorEv e = false := fun e he => by cases he
  cases op with
  | add r f => exact ⟨keep _, nil⟩
  | del n f => exact ⟨keep _, nil⟩
  | resend e f => exact ⟨keep _, nil⟩
  | withdrawAll fs => exact ⟨keep _, nil⟩
  | wdogAdd r n w => exact ⟨keep _, nil⟩
  | wdogAnnounce n => exact ⟨keep _, nil⟩
  | wdogWithdraw n => exact ⟨keep _, nil⟩
  | established p n => exact ⟨keep _, nil⟩
  | reload p n => exact ⟨keep _, nil⟩
  | lost => exact ⟨fun evs he => by simp [Sess.step] at he, nil⟩
  | start =>
    obtain ⟨rib, infl, incl⟩ := s
    cases infl with
    | some x => exact ⟨h, nil⟩
    | none =>
      simp only [Sess.step]
      split
      · refine ⟨?_, nil⟩
        intro evs he e hm
        simp only [Option.some.injEq] at he
        subst he
        exact snapshot_no_eor rib e (List.mem_filter.1 hm).1
      · exact ⟨h, nil⟩
  | next =>
    obtain ⟨rib, infl, incl⟩ := s
    cases infl with
    | none => exact ⟨h, nil⟩
    | some evs =>
      cases evs with
      | nil => exact ⟨fun evs he => by simp [Sess.step] at he, nil⟩
      | cons e rest =>
        simp only [Sess.step]
        have hall := h (e :: rest) rfl
        refine ⟨?_, ?_⟩
        · intro evs he x hx
          simp only [Option.some.injEq] at he
          subst he
          exact hall x (List.mem_cons_of_mem _ hx)
        · intro x hx
          simp only [List.mem_singleton] at hx
          subst hx
          exact hall x List.mem_cons_self

/-- After the End-of-RIB of a session has been sent, no other one is sent until the next
    establishment, whatever happens. -/
theorem eor_not_repeated (s : ESess) (ops : List EOp) (hs : s.sendEor = false) (hn : NoEorInflight s.core)
    (hops : ∀ o ∈ ops, o.isUp = true) :
    ∀ e ∈ (s.run ops).2, isEorEv e = false := by
  induction ops generalizing s with
  | nil => intro e he; cases he
  | cons o os ih =>
    simp only [ESess.run]
    have hup := hops o List.mem_cons_self
    have hstep : (s.step o).1.sendEor = false ∧ NoEorInflight (s.step o).1.core
        ∧ ∀ e ∈ (s.step o).2, isEorEv e = false := by
      cases o with
      | eor => simp [ESess.step, hs]; exact hn
      | op o' =>
        cases o' with
        | established p n => simp [EOp.isUp, Op.isUp] at hup
        | lost => simp [EOp.isUp, Op.isUp] at hup
        | add r f => exact ⟨hs, (noEor_step s.core _ hn).1, (noEor_step s.core _ hn).2⟩
        | del n f => exact ⟨hs, (noEor_step s.core _ hn).1, (noEor_step s.core _ hn).2⟩
        | resend e f => exact ⟨hs, (noEor_step s.core _ hn).1, (noEor_step s.core _ hn).2⟩
        | withdrawAll fs => exact ⟨hs, (noEor_step s.core _ hn).1, (noEor_step s.core _ hn).2⟩
        | wdogAdd r n w => exact ⟨hs, (noEor_step s.core _ hn).1, (noEor_step s.core _ hn).2⟩
        | wdogAnnounce n => exact ⟨hs, (noEor_step s.core _ hn).1, (noEor_step s.core _ hn).2⟩
        | wdogWithdraw n => exact ⟨hs, (noEor_step s.core _ hn).1, (noEor_step s.core _ hn).2⟩
        | start => exact ⟨hs, (noEor_step s.core _ hn).1, (noEor_step s.core _ hn).2⟩
        | next => exact ⟨hs, (noEor_step s.core _ hn).1, (noEor_step s.core _ hn).2⟩
        | reload p n => exact ⟨hs, (noEor_step s.core _ hn).1, (noEor_step s.core _ hn).2⟩
    intro e he
    rcases List.mem_append.1 he with h1 | h1
    · exact hstep.2.2 e h1
    · exact ih (s.step o).1 hstep.1 hstep.2.1 (fun x hx => hops x (List.mem_cons_of_mem _ hx)) e h1

/-- `next` steps after a `start` leave the queues as the `start` left them. -/
theorem nexts_rib (s : Sess) (k : Nat) : (s.run (List.replicate k Op.next)).1.rib = s.rib := by
  induction k generalizing s with
  | zero => rfl
  | succ n ih =>
    simp only [List.replicate_succ, Sess.run]
    rw [ih]
    obtain ⟨rib, infl, incl⟩ := s
    cases infl with
    | none => rfl
    | some evs => cases evs <;> rfl

theorem start_not_pending (s : Sess) (h : s.inflight = none) : (s.step .start).1.rib.pending = false := by
  obtain ⟨rib, infl, incl⟩ := s
  simp only at h
  subst h
  simp only [Sess.step]
  by_cases hp : rib.pending = true
  · rw [if_pos hp]; rfl
  · rw [if_neg hp]; simpa using hp

end Exa.Rib
