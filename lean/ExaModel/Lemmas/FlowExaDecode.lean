import ExaModel.Lemmas.FlowExaWF
set_option linter.unusedSimpArgs false
/-! ExaBGP's decoder (`exaDecode`) against the RFC reference decoder (`decodeNlri`):
    what the model of the code delivers, `regroup` on ascending components, transfer of shapes
    between the RFC reading of IPv6 prefixes and the code's reading when the offset is 0. -/
namespace Exa.Flow

/-! ### What the code delivers -/

/-- the term an API consumer reads from a stored `operations` value and the value bytes -/
def storedTerm (numeric : Bool) (s : Nat) (val : Bytes) : Term :=
  ⟨s / 64 % 2 = 1, numeric && decide (s / 4 % 2 = 1), s / 2 % 2 = 1, s % 2 = 1, rdN val⟩

def exaDeliveredTerms (numeric : Bool) : Bool → List RawTerm → List Term
  | _, [] => []
  | first, t :: ts => storedTerm numeric (exaStoredOp numeric first t.op) t.val :: exaDeliveredTerms numeric false ts

/-- The rule component ExaBGP delivers for a decoded raw component: operators through
    `exaStoredOp` (what `_parse_operations` stores), an IPv6 prefix as the `len` bits of the address
    it stores (`IPrefix6.make` keeps `[mask] + address bytes` and the offset). -/
def exaDelivered (v6 : Bool) : RawComp → Comp
  | .prefix4 ty len bs => .prefix4 ty len (patDecode len bs)
  | .prefix6 ty len off bs => .prefix6 ty len off (patDecode len bs)
  | .ops ty ts => .ops ty (exaDeliveredTerms (kindOf v6 ty == some .numeric) true ts)

/-- no IPv6 prefix with a non-zero offset (the open finding F46 is about exactly those) -/
def Comp.off0 : Comp → Prop
  | .prefix6 _ _ off _ => off = 0
  | _ => True
def RawComp.off0 : RawComp → Prop
  | .prefix6 _ _ off _ => off = 0
  | _ => True
def NoOffset (r : Rule) : Prop := ∀ c ∈ r, c.off0
def NoOffsetRaw (cs : List RawComp) : Prop := ∀ c ∈ cs, c.off0

instance (c : Comp) : Decidable c.off0 := by cases c <;> simp only [Comp.off0] <;> exact inferInstance
instance (c : RawComp) : Decidable c.off0 := by cases c <;> simp only [RawComp.off0] <;> exact inferInstance
instance (r : Rule) : Decidable (NoOffset r) := by unfold NoOffset; exact inferInstance
instance (cs : List RawComp) : Decidable (NoOffsetRaw cs) := by unfold NoOffsetRaw; exact inferInstance

theorem storedTerm_exaStoredOp (numeric first : Bool) (op : Nat) (val : Bytes) :
    storedTerm numeric (exaStoredOp numeric first op) val = interpTerm numeric first ⟨op, val⟩ := by
  have hA : exaStoredOp numeric first op / 64 % 2 = if first then 0 else op / 64 % 2 := by
    cases first <;> cases numeric <;> simp only [exaStoredOp, if_true, if_false, Bool.false_eq_true] <;> omega
  have hL : numeric = true → exaStoredOp numeric first op / 4 % 2 = op / 4 % 2 := by
    intro hn; subst hn
    cases first <;> simp only [exaStoredOp, if_true, if_false, Bool.false_eq_true] <;> omega
  have hG : exaStoredOp numeric first op / 2 % 2 = op / 2 % 2 := by
    cases first <;> cases numeric <;> simp only [exaStoredOp, if_true, if_false, Bool.false_eq_true] <;> omega
  have hE : exaStoredOp numeric first op % 2 = op % 2 := by
    cases first <;> cases numeric <;> simp only [exaStoredOp, if_true, if_false, Bool.false_eq_true] <;> omega
  simp only [storedTerm, interpTerm, opAnd, opLt, opGt, opEq, hA, hG, hE, Term.mk.injEq, and_true, true_and]
  refine ⟨?_, ?_⟩
  · cases first <;> simp
  · cases numeric
    · simp
    · simp [hL rfl]

theorem exaDeliveredTerms_eq (numeric : Bool) (ts : List RawTerm) :
    exaDeliveredTerms numeric true ts = interpTerms numeric ts := by
  have hrest : ∀ l : List RawTerm, exaDeliveredTerms numeric false l = l.map (interpTerm numeric false) := by
    intro l
    induction l with
    | nil => rfl
    | cons t l ih =>
      obtain ⟨op, val⟩ := t
      simp only [exaDeliveredTerms, List.map_cons, ih, storedTerm_exaStoredOp]
  cases ts with
  | nil => rfl
  | cons t l =>
    obtain ⟨op, val⟩ := t
    simp only [exaDeliveredTerms, interpTerms, hrest, storedTerm_exaStoredOp]

theorem exaDelivered_eq_interp (v6 : Bool) (c : RawComp)
    (h : c.off0) : exaDelivered v6 c = interp v6 c := by
  cases c with
  | prefix4 _ _ _ => rfl
  | prefix6 ty len off bs => simp only [RawComp.off0] at h; subst h; simp [exaDelivered, interp]
  | ops ty ts => simp only [exaDelivered, interp, exaDeliveredTerms_eq]

/-! ### Shapes: the RFC reading and the code's reading of an IPv6 prefix agree when the offset is 0 -/

theorem shape_rfc_to_exa (v6 : Bool) (c : RawComp) (h : CompShape v6 rfcP6 c)
    (h0 : c.off0) : CompShape v6 exaP6 c := by
  cases c with
  | prefix4 _ _ _ => exact h
  | ops _ _ => exact h
  | prefix6 ty len off bs =>
    simp only [RawComp.off0] at h0; subst h0
    obtain ⟨hv, hk, bits, hb, hl⟩ := h
    simp only [rfcP6] at hb
    split at hb
    · rename_i hok
      simp only [Option.some.injEq] at hb
      refine ⟨hv, hk, len, ?_, by rw [hl, ← hb]; simp⟩
      simp only [p6ok, decide_eq_true_eq] at hok
      simp only [exaP6]; rw [if_pos (by omega)]
    · simp at hb

theorem shape_exa_to_rfc (v6 : Bool) (c : RawComp) (h : CompShape v6 exaP6 c)
    (h0 : c.off0) : CompShape v6 rfcP6 c := by
  cases c with
  | prefix4 _ _ _ => exact h
  | ops _ _ => exact h
  | prefix6 ty len off bs =>
    simp only [RawComp.off0] at h0; subst h0
    obtain ⟨hv, hk, bits, hb, hl⟩ := h
    simp only [exaP6] at hb
    split at hb
    · rename_i hle
      simp only [Option.some.injEq] at hb
      refine ⟨hv, hk, len, ?_, by rw [hl, ← hb]⟩
      have : p6ok len 0 = true := by
        simp only [p6ok, decide_eq_true_eq]
        by_cases h : len = 0
        · left; exact ⟨h, trivial⟩
        · right; omega
      simp [rfcP6, this]
    · simp at hb

/-! ### `regroup` is the identity on complete components in strictly ascending order -/

/-- the piece of `regroup` for one ID -/
def regroupPiece (cs : List RawComp) (id : Nat) : List RawComp :=
  if id = 1 ∨ id = 2 then cs.filter (fun c => c.ty == id)
  else
    let ts := regroupOps id cs
    if ts.isEmpty then [] else [.ops id ts]

theorem regroup_eq (cs : List RawComp) : regroup cs = allIds.flatMap (regroupPiece cs) := rfl

theorem opsOf_ne (id : Nat) (c : RawComp) (h : c.ty ≠ id) : opsOf id c = [] := by
  cases c with
  | prefix4 _ _ _ => rfl
  | prefix6 _ _ _ _ => rfl
  | ops ty ts =>
    simp only [RawComp.ty] at h
    simp [opsOf, h]

theorem regroupOps_cons_ne (id : Nat) (c : RawComp) (t : List RawComp) (h : c.ty ≠ id) :
    regroupOps id (c :: t) = regroupOps id t := by
  simp [regroupOps, opsOf_ne id c h]

theorem flatMap_clearHead_none (id : Nat) (t : List RawComp) (h : ∀ x ∈ t, x.ty ≠ id) :
    t.flatMap (fun d => clearHead (opsOf id d)) = [] := by
  induction t with
  | nil => rfl
  | cons x xs ih =>
    simp only [List.flatMap_cons, opsOf_ne id x (h x List.mem_cons_self), clearHead, List.nil_append]
    exact ih (fun y hy => h y (List.mem_cons_of_mem _ hy))

/-- one occurrence of `id`, nothing of that type after it: its operators, untouched -/
theorem regroupOps_single (id : Nat) (ts : List RawTerm) (t : List RawComp) (hne : ts ≠ [])
    (h : ∀ x ∈ t, x.ty ≠ id) : regroupOps id (.ops id ts :: t) = ts := by
  have he : (opsOf id (.ops id ts)) = ts := by simp [opsOf]
  have hemp : ts.isEmpty = false := by cases ts with | nil => exact absurd rfl hne | cons _ _ => rfl
  simp only [regroupOps, he, hemp, Bool.false_eq_true, if_false, flatMap_clearHead_none id t h, List.append_nil]

theorem regroupPiece_cons_ne (id : Nat) (c : RawComp) (t : List RawComp) (h : c.ty ≠ id) :
    regroupPiece (c :: t) id = regroupPiece t id := by
  simp only [regroupPiece, regroupOps_cons_ne id c t h]
  have : (c.ty == id) = false := by simpa using h
  simp [List.filter_cons, this]

theorem regroupPiece_none (id : Nat) (cs : List RawComp) (h : ∀ c ∈ cs, c.ty ≠ id) : regroupPiece cs id = [] := by
  induction cs with
  | nil => simp [regroupPiece, regroupOps]
  | cons c t ih =>
    rw [regroupPiece_cons_ne id c t (h c List.mem_cons_self)]
    exact ih (fun x hx => h x (List.mem_cons_of_mem _ hx))

/-- a complete component: its type is 1..13, and outside 1, 2 it is an operator list with at least one operator -/
theorem shape_facts (v6 : Bool) (p : Nat → Nat → Option Nat) (c : RawComp) (h : CompShape v6 p c) :
    1 ≤ c.ty ∧ c.ty ≤ 13 ∧ (¬ (c.ty = 1 ∨ c.ty = 2) → ∃ ts, c = .ops c.ty ts ∧ ts ≠ []) := by
  have hk : ∀ t k, kindOf v6 t = some k → 1 ≤ t ∧ t ≤ 13 ∧ (k = .prefix → t = 1 ∨ t = 2) := by
    intro t k hk
    simp only [kindOf] at hk
    split at hk
    · omega
    · split at hk
      · refine ⟨by omega, by omega, ?_⟩; intro e; subst e; simp at hk
      · split at hk
        · refine ⟨by omega, by omega, ?_⟩; intro e; subst e; simp at hk
        · split at hk
          · refine ⟨by omega, by omega, ?_⟩; intro e; subst e; simp at hk
          · simp at hk
  cases c with
  | prefix4 ty len bs =>
    obtain ⟨_, hkk, _⟩ := h
    obtain ⟨a, b, c'⟩ := hk ty _ hkk
    exact ⟨a, b, fun hn => absurd (c' rfl) hn⟩
  | prefix6 ty len off bs =>
    obtain ⟨_, hkk, _⟩ := h
    obtain ⟨a, b, c'⟩ := hk ty _ hkk
    exact ⟨a, b, fun hn => absurd (c' rfl) hn⟩
  | ops ty ts =>
    obtain ⟨hkk, hts⟩ := h
    have hne : ts ≠ [] := by intro e; subst e; simp [TermsShape] at hts
    rcases hkk with hkk | hkk <;> (obtain ⟨a, b, _⟩ := hk ty _ hkk; exact ⟨a, b, fun _ => ⟨ts, rfl, hne⟩⟩)

theorem flatMap_congr' {α β : Type} (l : List α) (f g : α → List β) (h : ∀ a ∈ l, f a = g a) :
    l.flatMap f = l.flatMap g := by
  induction l with
  | nil => rfl
  | cons a t ih =>
    simp only [List.flatMap_cons, h a List.mem_cons_self, ih (fun x hx => h x (List.mem_cons_of_mem _ hx))]

theorem ascFrom_all_gt (lo : Nat) (l : List Nat) (h : ascFrom lo l) : ∀ a ∈ l, lo < a := by
  induction l generalizing lo with
  | nil => intro a ha; cases ha
  | cons b t ih =>
    intro a ha
    rcases List.mem_cons.1 ha with e | e
    · subst e; exact h.1
    · have := ih b h.2 a e; have := h.1; omega

theorem regroup_range (v6 : Bool) (p : Nat → Nat → Option Nat) (n lo : Nat) (cs : List RawComp)
    (hs : ∀ c ∈ cs, CompShape v6 p c) (ha : ascFrom lo (cs.map RawComp.ty)) (hn : lo + n = 13) :
    (List.range' (lo + 1) n).flatMap (regroupPiece cs) = cs := by
  induction n generalizing lo cs with
  | zero =>
    cases cs with
    | nil => rfl
    | cons c t =>
      have h1 := (shape_facts v6 p c (hs c List.mem_cons_self)).2.1
      have h2 : lo < c.ty := ha.1
      omega
  | succ n ih =>
    rw [List.range'_succ, List.flatMap_cons]
    cases cs with
    | nil =>
      rw [regroupPiece_none _ [] (by intro c hc; cases hc)]
      simpa using ih (lo + 1) [] (by intro c hc; cases hc) trivial (by omega)
    | cons c t =>
      have hlo : lo < c.ty := ha.1
      have hat : ascFrom c.ty (t.map RawComp.ty) := ha.2
      have hst : ∀ x ∈ t, CompShape v6 p x := fun x hx => hs x (List.mem_cons_of_mem _ hx)
      have htgt : ∀ x ∈ t, c.ty < x.ty := by
        intro x hx
        exact ascFrom_all_gt _ _ hat x.ty (List.mem_map.2 ⟨x, hx, rfl⟩)
      by_cases he : c.ty = lo + 1
      · -- this component is the piece of id lo+1; the rest is regrouped from t
        have hnone : ∀ x ∈ t, x.ty ≠ lo + 1 := by intro x hx; have := htgt x hx; omega
        have hpiece : regroupPiece (c :: t) (lo + 1) = [c] := by
          simp only [regroupPiece]
          by_cases h12 : lo + 1 = 1 ∨ lo + 1 = 2
          · rw [if_pos h12]
            have hc : (c.ty == lo + 1) = true := by simp [he]
            have ht : t.filter (fun c => c.ty == lo + 1) = [] := by
              apply List.filter_eq_nil_iff.2
              intro x hx; simpa using hnone x hx
            simp [List.filter_cons, hc, ht]
          · rw [if_neg h12]
            obtain ⟨ts, hcts, hne⟩ := (shape_facts v6 p c (hs c List.mem_cons_self)).2.2 (by rw [he]; exact h12)
            rw [hcts, he, regroupOps_single (lo + 1) ts t hne hnone]
            have : ts.isEmpty = false := by cases ts with | nil => exact absurd rfl hne | cons _ _ => rfl
            simp [this]
        have hrest : (List.range' (lo + 1 + 1) n).flatMap (regroupPiece (c :: t)) = t := by
          have hcongr : ∀ id ∈ List.range' (lo + 1 + 1) n, regroupPiece (c :: t) id = regroupPiece t id := by
            intro id hid
            have := (List.mem_range'_1.1 hid).1
            exact regroupPiece_cons_ne id c t (by omega)
          rw [flatMap_congr' _ _ _ hcongr]
          exact ih (lo + 1) t hst (by rw [← he]; exact hat) (by omega)
        rw [hpiece, hrest]; rfl
      · -- nothing has type lo+1
        have hnone : ∀ x ∈ c :: t, x.ty ≠ lo + 1 := by
          intro x hx
          rcases List.mem_cons.1 hx with e | e
          · subst e; exact he
          · have := htgt x e; omega
        rw [regroupPiece_none _ _ hnone, List.nil_append]
        exact ih (lo + 1) (c :: t) hs ⟨by omega, hat⟩ (by omega)

theorem ascFrom_of_ascending (l : List Nat) (lo : Nat) (h : ascending l = true) (hh : ∀ a ∈ l.head?, lo < a) :
    ascFrom lo l := by
  induction l generalizing lo with
  | nil => trivial
  | cons a t ih =>
    refine ⟨hh a (by simp), ?_⟩
    cases t with
    | nil => trivial
    | cons b t' =>
      simp only [ascending, Bool.and_eq_true, decide_eq_true_eq] at h
      exact ih a h.2 (by intro x hx; simp at hx; subst hx; exact h.1)

theorem regroup_id (v6 : Bool) (p : Nat → Nat → Option Nat) (cs : List RawComp)
    (hs : ∀ c ∈ cs, CompShape v6 p c) (ha : ascending (cs.map RawComp.ty) = true) : regroup cs = cs := by
  have hall : allIds = List.range' (0 + 1) 13 := by decide
  rw [regroup_eq, hall]
  apply regroup_range v6 p 13 0 cs hs _ rfl
  apply ascFrom_of_ascending _ 0 ha
  intro a hm
  cases cs with
  | nil => simp at hm
  | cons c t =>
    simp at hm; subst hm
    exact (shape_facts v6 p c (hs c List.mem_cons_self)).1

/-- `regroup` neither invents nor loses an IPv6 prefix -/
theorem mem_regroup_prefix6 (v6 : Bool) (p : Nat → Nat → Option Nat) (cs : List RawComp)
    (hs : ∀ c ∈ cs, CompShape v6 p c) (ty len off : Nat) (bs : Bytes) (h : RawComp.prefix6 ty len off bs ∈ cs) :
    RawComp.prefix6 ty len off bs ∈ regroup cs := by
  have hsh := hs _ h
  obtain ⟨_, hk, _⟩ := hsh
  have h12 : ty = 1 ∨ ty = 2 := by
    simp only [kindOf] at hk
    split at hk
    · assumption
    · split at hk
      · simp at hk
      · split at hk
        · simp at hk
        · split at hk <;> simp at hk
  rw [regroup_eq]
  apply List.mem_flatMap.2
  refine ⟨ty, by rcases h12 with e | e <;> subst e <;> decide, ?_⟩
  simp only [regroupPiece, if_pos h12]
  exact List.mem_filter.2 ⟨h, by simp [RawComp.ty]⟩

end Exa.Flow
