import ExaModel.Lemmas.RibEffect
set_option linter.unusedSimpArgs false
/-! Every compound RIB operation is a composition of `add`, `del`, `resend` and watchdog-book
    updates; a predicate closed under those four is closed under all of them. -/
namespace Exa.Rib
open Exa

structure RibClosed (P : Rib → Prop) : Prop where
  add : ∀ s r f, P s → P (s.add r f)
  del : ∀ s n f, P s → P (s.del n f)
  resend : ∀ s e f, P s → P (s.resend e f)
  book : ∀ s p m, P s → P { s with wdPlus := p, wdMinus := m }

variable {P : Rib → Prop}

theorem RibClosed.delRoutes (h : RibClosed P) (rs : List Route) (s : Rib) (hs : P s) : P (s.delRoutes rs) := by
  induction rs generalizing s with
  | nil => exact hs
  | cons r t ih => exact ih _ (h.del s r.nlri r.fam hs)

theorem RibClosed.addRoutes (h : RibClosed P) (f : Bool) (rs : List Route) (s : Rib) (hs : P s) :
    P (rs.foldl (fun s r => s.add r f) s) := by
  induction rs generalizing s with
  | nil => exact hs
  | cons r t ih => exact ih _ (h.add s r f hs)

theorem RibClosed.withdrawAll (h : RibClosed P) (fs : List Nat) (s : Rib) (hs : P s) : P (s.withdrawAll fs) := by
  unfold Rib.withdrawAll
  exact h.delRoutes _ s hs

theorem RibClosed.wdogAdd (h : RibClosed P) (r : Route) (name : Nat) (w : Bool) (s : Rib) (hs : P s) :
    P (s.wdogAdd r name w) := by
  unfold Rib.wdogAdd
  split
  · exact h.book s s.wdPlus _ hs
  · exact h.add _ r false (h.book s _ s.wdMinus hs)

theorem RibClosed.wdogAnnounce (h : RibClosed P) (name : Nat) (s : Rib) (hs : P s) : P (s.wdogAnnounce name) := by
  unfold Rib.wdogAnnounce
  split
  · exact hs
  · exact h.book _ _ _ (h.addRoutes false _ s hs)

theorem RibClosed.wdogWithdraw (h : RibClosed P) (name : Nat) (s : Rib) (hs : P s) : P (s.wdogWithdraw name) := by
  unfold Rib.wdogWithdraw
  split
  · exact hs
  · exact h.book _ _ _ (h.delRoutes _ s hs)

theorem RibClosed.replaceRestart (h : RibClosed P) (prev new : List Route) (s : Rib) (hs : P s) :
    P (s.replaceRestart prev new) := by
  unfold Rib.replaceRestart
  exact h.delRoutes _ _ (h.addRoutes true _ s hs)

theorem RibClosed.reloadFold (h : RibClosed P) (new : List Route) (acc : Rib × AList Nat Route) (hs : P acc.1) :
    P (new.foldl (fun (acc : Rib × AList Nat Route) (r : Route) =>
      match AList.lookup r.nlri acc.2 with
      | some _ => (acc.1, AList.erase r.nlri acc.2)
      | none => (acc.1.add r true, acc.2)) acc).1 := by
  induction new generalizing acc with
  | nil => exact hs
  | cons r t ih =>
    simp only [List.foldl_cons]
    apply ih
    split
    · exact hs
    · exact h.add _ r true hs

theorem RibClosed.replaceReload (h : RibClosed P) (prev new : List Route) (s : Rib) (hs : P s) :
    P (s.replaceReload prev new) := by
  unfold Rib.replaceReload
  simp only
  exact h.delRoutes _ _ (h.reloadFold new _ hs)

end Exa.Rib
