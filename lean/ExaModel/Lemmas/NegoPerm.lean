import ExaModel.Lemmas.NegoOurs
set_option linter.unusedSimpArgs false
set_option linter.unusedVariables false
/-! Order of the capabilities in the peer's OPEN: the negotiated parameters depend on the *set* of
    capabilities only, as long as repeated ASN4 capabilities / repeated ADD-PATH entries of a family
    do not contradict each other (when they do, the code takes the later one: `capSet_asn4`,
    `capSet_addpath_sr`). -/
namespace Exa.Open

/-- all ASN4 capabilities of the list carry the same AS number -/
def asn4Single (caps : List Cap) : Prop := ∀ v w, Cap.asn4 v ∈ caps → Cap.asn4 w ∈ caps → v = w

/-- all ADD-PATH entries of one family carry the same Send/Receive octet -/
def srSingle (caps : List Cap) : Prop :=
  ∀ e e', e ∈ addpathEntries caps → e' ∈ addpathEntries caps → (e.1, e.2.1) = (e'.1, e'.2.1) → e.2.2 = e'.2.2

theorem asn4Of_eq_some_iff (caps : List Cap) (h : asn4Single caps) (v : Nat) :
    asn4Of caps = some v ↔ Cap.asn4 v ∈ caps := by
  constructor
  · exact asn4Of_mem caps v
  · intro hv
    obtain ⟨w, hw, e⟩ := asn4Fold_some caps none ⟨v, hv⟩
    rw [asn4Of_eq_fold, e, h v w hv hw]

theorem asn4Of_perm (c1 c2 : List Cap) (hp : c1.Perm c2) (h : asn4Single c1) : asn4Of c1 = asn4Of c2 := by
  have h2 : asn4Single c2 := fun v w hv hw => h v w (hp.mem_iff.2 hv) (hp.mem_iff.2 hw)
  cases e : asn4Of c1 with
  | some v =>
    have := (asn4Of_eq_some_iff c1 h v).1 e
    exact ((asn4Of_eq_some_iff c2 h2 v).2 (hp.mem_iff.1 this)).symm
  | none =>
    cases e2 : asn4Of c2 with
    | none => rfl
    | some w =>
      have := (asn4Of_eq_some_iff c2 h2 w).1 e2
      rw [(asn4Of_eq_some_iff c1 h w).2 (hp.mem_iff.2 this)] at e
      cases e

theorem mem_addpathEntries_perm (c1 c2 : List Cap) (hp : c1.Perm c2) (e : Triple) :
    e ∈ addpathEntries c1 ↔ e ∈ addpathEntries c2 := by
  simp only [mem_addpathEntries]
  constructor
  · rintro ⟨es, h1, h2⟩; exact ⟨es, hp.mem_iff.1 h1, h2⟩
  · rintro ⟨es, h1, h2⟩; exact ⟨es, hp.mem_iff.2 h1, h2⟩

/-- with non-contradicting entries, the octet in force for a family is that of any of its entries -/
theorem srOf_of_mem (caps : List Cap) (h : srSingle caps) (e : Triple) (he : e ∈ addpathEntries caps) :
    srOf caps (e.1, e.2.1) = e.2.2 := by
  rw [srOf_eq, srFold_unique (e.1, e.2.1) e.2.2 _ 0 (fun x hx hf => h x e hx he hf)]
  have : (addpathEntries caps).any (fun x => decide ((x.1, x.2.1) = (e.1, e.2.1))) = true := by
    simp only [List.any_eq_true, decide_eq_true_eq]; exact ⟨e, he, rfl⟩
  rw [if_pos this]

theorem srOf_of_not_mem (caps : List Cap) (f : Family) (h : ∀ e ∈ addpathEntries caps, (e.1, e.2.1) ≠ f) :
    srOf caps f = 0 := by
  rw [srOf_eq, srFold_unique f 0 _ 0 (fun x hx hf => absurd hf (h x hx))]
  simp

theorem srOf_perm (c1 c2 : List Cap) (hp : c1.Perm c2) (h : srSingle c1) (f : Family) : srOf c1 f = srOf c2 f := by
  have h2 : srSingle c2 := fun e e' he he' => h e e' ((mem_addpathEntries_perm c1 c2 hp e).2 he)
    ((mem_addpathEntries_perm c1 c2 hp e').2 he')
  by_cases hex : ∃ e ∈ addpathEntries c1, (e.1, e.2.1) = f
  · obtain ⟨e, he, rfl⟩ := hex
    rw [srOf_of_mem c1 h e he, srOf_of_mem c2 h2 e ((mem_addpathEntries_perm c1 c2 hp e).1 he)]
  · have n1 : ∀ e ∈ addpathEntries c1, (e.1, e.2.1) ≠ f := fun e he hf => hex ⟨e, he, hf⟩
    have n2 : ∀ e ∈ addpathEntries c2, (e.1, e.2.1) ≠ f :=
      fun e he hf => hex ⟨e, (mem_addpathEntries_perm c1 c2 hp e).2 he, hf⟩
    rw [srOf_of_not_mem c1 f n1, srOf_of_not_mem c2 f n2]

theorem contains_perm (c1 c2 : List Cap) (hp : c1.Perm c2) (x : Cap) : c1.contains x = c2.contains x := by
  have := hp.mem_iff (a := x)
  cases h1 : c1.contains x <;> cases h2 : c2.contains x <;> simp_all [List.contains_iff_mem]

theorem mem_nexthopOf_perm (c1 c2 : List Cap) (hp : c1.Perm c2) (x : Triple) :
    x ∈ nexthopOf c1 ↔ x ∈ nexthopOf c2 := by
  simp only [mem_nexthopOf]
  constructor
  · rintro ⟨es, h1, h2⟩; exact ⟨es, hp.mem_iff.1 h1, h2⟩
  · rintro ⟨es, h1, h2⟩; exact ⟨es, hp.mem_iff.2 h1, h2⟩

/-- same parameters "as sets" -/
structure SameParams (a b : Negotiated) : Prop where
  hold : a.hold = b.hold
  asn4 : a.asn4 = b.asn4
  localAs : a.localAs = b.localAs
  peerAs : a.peerAs = b.peerAs
  families : ∀ f, f ∈ a.families ↔ f ∈ b.families
  nexthop : ∀ x, x ∈ a.nexthop ↔ x ∈ b.nexthop
  send : ∀ f, a.send f = b.send f
  receive : ∀ f, a.receive f = b.receive f
  refresh : a.refresh = b.refresh
  msgSize : a.msgSize = b.msgSize

theorem negotiate_perm (o t t' : OpenMsg) (hp : t.caps.Perm t'.caps)
    (hAs : t'.myAs = t.myAs) (hHold : t'.hold = t.hold)
    (h4 : asn4Single t.caps) (hsr : srSingle t.caps) :
    SameParams (negotiate o t) (negotiate o t') := by
  have a4 := asn4Of_perm _ _ hp h4
  refine ⟨?_, ?_, ?_, ?_, ?_, ?_, ?_, ?_, ?_, ?_⟩
  · simp [negotiate_hold, hHold]
  · simp [negotiate_asn4, a4]
  · rfl
  · simp [negotiate_peerAs, a4, hAs]
  · intro f; simp [negotiate_families_mem, hp.mem_iff]
  · intro x; simp [negotiate_nexthop_mem, mem_nexthopOf_perm _ _ hp x]
  · intro f; simp [negotiate_send, srOf_perm _ _ hp hsr f]
  · intro f; simp [negotiate_receive, srOf_perm _ _ hp hsr f]
  · rw [negotiate_refresh, negotiate_refresh, contains_perm _ _ hp .enhanced, contains_perm _ _ hp .refresh]
  · rw [negotiate_msgSize, negotiate_msgSize, contains_perm _ _ hp .extMsg]

end Exa.Open
