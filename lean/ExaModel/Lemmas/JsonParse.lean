import ExaModel.Lemmas.JsonEsc
set_option linter.unusedSimpArgs false
set_option linter.unusedVariables false
/-! Completeness of the parser on rendered values (`parse (render j) = ok j`). -/
namespace Exa.Json

/-! ### unfolding lemmas (the compiled equation lemmas are split by the inner matches) -/

theorem pValue_succ_cons (f c : Nat) (t : List Nat) : pValue (f + 1) (c :: t) =
    if c = 0x7B then
      match skipWs t with
      | [] => .error (.bad 0)
      | c2 :: t2 =>
        if c2 = 0x7D then .ok (.obj .nil, t2)
        else
          match pMembers f [] (c2 :: t2) with
          | .ok (m, r) => .ok (.obj m, r)
          | .error e => .error e
    else if c = 0x5B then
      match skipWs t with
      | [] => .error (.bad 0)
      | c2 :: t2 =>
        if c2 = 0x5D then .ok (.arr .nil, t2)
        else
          match pElems f (c2 :: t2) with
          | .ok (l, r) => .ok (.arr l, r)
          | .error e => .error e
    else if c = 0x22 then
      match lexStr t with
      | some (s, r) => .ok (.str s, r)
      | none => .error (.bad (t.length + 1))
    else if c = 0x74 then
      if t.take 3 = [0x72, 0x75, 0x65] then .ok (.bool true, t.drop 3) else .error (.bad (t.length + 1))
    else if c = 0x66 then
      if t.take 4 = [0x61, 0x6C, 0x73, 0x65] then .ok (.bool false, t.drop 4) else .error (.bad (t.length + 1))
    else if c = 0x6E then
      if t.take 3 = [0x75, 0x6C, 0x6C] then .ok (.null, t.drop 3) else .error (.bad (t.length + 1))
    else
      if validNum (spanNum (c :: t)).1 = true then .ok (.num (spanNum (c :: t)).1, (spanNum (c :: t)).2)
      else .error (.bad (t.length + 1)) := by
  rw [pValue]; rfl

theorem pMembers_succ_cons (f : Nat) (seen : List Str) (c : Nat) (t : List Nat) : pMembers (f + 1) seen (c :: t) =
    if c = 0x22 then
      match lexStr t with
      | none => .error (.bad (t.length + 1))
      | some (k, r) =>
        if k ∈ seen then .error (.dup k r.length)
        else
          match skipWs r with
          | [] => .error (.bad 0)
          | c2 :: t2 =>
            if c2 = 0x3A then
              match pValue f (skipWs t2) with
              | .error e => .error e
              | .ok (v, r2) =>
                match skipWs r2 with
                | [] => .error (.bad 0)
                | c3 :: t3 =>
                  if c3 = 0x2C then
                    match pMembers f (k :: seen) (skipWs t3) with
                    | .ok (m, r3) => .ok (.cons k v m, r3)
                    | .error e => .error e
                  else if c3 = 0x7D then .ok (.cons k v .nil, t3)
                  else .error (.bad (t3.length + 1))
            else .error (.bad (t2.length + 1))
    else .error (.bad (t.length + 1)) := by
  rw [pMembers]; rfl

theorem pElems_succ (f : Nat) (inp : List Nat) : pElems (f + 1) inp =
    match pValue f inp with
    | .error e => .error e
    | .ok (v, r) =>
      match skipWs r with
      | [] => .error (.bad 0)
      | c :: t =>
        if c = 0x2C then
          match pElems f (skipWs t) with
          | .ok (l, r2) => .ok (.cons v l, r2)
          | .error e => .error e
        else if c = 0x5D then .ok (.cons v .nil, t)
        else .error (.bad (t.length + 1)) := by
  rw [pElems]; rfl

theorem skipWs_cons_of_not_ws (c : Nat) (t : List Nat) (h : isWs c = false) : skipWs (c :: t) = c :: t := by
  simp [skipWs, h]

theorem skipWs_space (t : List Nat) : skipWs (0x20 :: t) = skipWs t := by
  simp [skipWs, isWs]

/-! ### numbers -/

def restOk (rest : List Nat) : Prop := ∀ c, rest.head? = some c → isNumChar c = false

theorem spanNum_append (lit rest : List Nat) (hl : lit.all isNumChar = true) (hr : restOk rest) :
    spanNum (lit ++ rest) = (lit, rest) := by
  induction lit with
  | nil =>
    cases rest with
    | nil => rfl
    | cons c t => simp [spanNum, hr c (by simp)]
  | cons c t ih =>
    simp only [List.all_cons, Bool.and_eq_true] at hl
    simp [spanNum, hl.1, ih hl.2]

theorem validNum_head (l : Str) (h : validNum l = true) : ∃ c t, l = c :: t ∧ (c = 0x2D ∨ isDigit c = true) := by
  cases l with
  | nil => simp [validNum] at h
  | cons c t =>
    refine ⟨c, t, rfl, ?_⟩
    by_cases hm : c = 0x2D
    · exact Or.inl hm
    · right
      simp only [validNum, hm, if_false] at h
      split at h
      · simp [isDigit]; omega
      · split at h
        · simp [isDigit]; omega
        · simp at h

/-! ### the first character of a rendering -/

theorem render_head (j : J) (hw : j.wf = true) :
    ∃ c tl, render j = c :: tl ∧ isWs c = false ∧ c ≠ 0x5D ∧ c ≠ 0x7D := by
  cases j with
  | null => exact ⟨_, _, rfl, by decide, by decide, by decide⟩
  | bool b => cases b <;> exact ⟨_, _, rfl, by decide, by decide, by decide⟩
  | num lit =>
    simp only [J.wf, wfNum, Bool.and_eq_true] at hw
    obtain ⟨c, t, rfl, hc⟩ := validNum_head lit hw.1
    refine ⟨c, t, rfl, ?_⟩
    rcases hc with rfl | hc
    · exact ⟨by decide, by decide, by decide⟩
    · simp only [isDigit, Bool.and_eq_true, decide_eq_true_eq] at hc
      refine ⟨?_, by omega, by omega⟩
      simp [isWs]; omega
  | str s => exact ⟨_, _, rfl, by decide, by decide, by decide⟩
  | arr l => cases l <;> exact ⟨_, _, rfl, by decide, by decide, by decide⟩
  | obj m => cases m <;> exact ⟨_, _, rfl, by decide, by decide, by decide⟩

/-! ### sizes (the fuel a value needs) -/

mutual
def J.size : J → Nat
  | .arr l => 1 + l.size
  | .obj m => 1 + m.size
  | _ => 1
def JL.size : JL → Nat
  | .nil => 0
  | .cons h t => 1 + h.size + t.size
def JM.size : JM → Nat
  | .nil => 0
  | .cons _ v t => 1 + v.size + t.size
end

mutual
theorem size_le_render : (j : J) → j.wf = true → j.size ≤ (render j).length
  | .null, _ => by simp [J.size, render]
  | .bool true, _ => by simp [J.size, render]
  | .bool false, _ => by simp [J.size, render]
  | .num lit, hw => by
    simp only [J.wf, wfNum, Bool.and_eq_true] at hw
    obtain ⟨c, t, rfl, _⟩ := validNum_head lit hw.1
    simp [J.size, render]
  | .str s, _ => by simp [J.size, render, quote]
  | .arr .nil, _ => by simp [J.size, JL.size, render]
  | .arr (.cons h t), hw => by
    simp only [J.wf, JL.wf, Bool.and_eq_true] at hw
    have h1 := size_le_render h hw.1
    have h2 := sizeL_le_render t hw.2
    simp only [J.size, JL.size, render, List.length_append, List.length_cons, List.length_nil]
    omega
  | .obj .nil, _ => by simp [J.size, JM.size, render]
  | .obj (.cons k v t), hw => by
    simp only [J.wf, JM.wf, Bool.and_eq_true] at hw
    have h1 := size_le_render v hw.1.2
    have h2 := sizeM_le_render t hw.2
    simp only [J.size, JM.size, render, List.length_append, List.length_cons, List.length_nil]
    omega
theorem sizeL_le_render : (l : JL) → l.wf = true → l.size ≤ (renderTL l).length
  | .nil, _ => by simp [JL.size]
  | .cons h t, hw => by
    simp only [JL.wf, Bool.and_eq_true] at hw
    have h1 := size_le_render h hw.1
    have h2 := sizeL_le_render t hw.2
    simp only [JL.size, renderTL, List.length_append, List.length_cons, List.length_nil]
    omega
theorem sizeM_le_render : (m : JM) → m.wf = true → m.size ≤ (renderTM m).length
  | .nil, _ => by simp [JM.size]
  | .cons k v t, hw => by
    simp only [JM.wf, Bool.and_eq_true] at hw
    have h1 := size_le_render v hw.1.2
    have h2 := sizeM_le_render t hw.2
    simp only [JM.size, renderTM, List.length_append, List.length_cons, List.length_nil]
    omega
end

/-! ### completeness -/

theorem skipWs_render (j : J) (hw : j.wf = true) (X : List Nat) : skipWs (render j ++ X) = render j ++ X := by
  obtain ⟨c, tl, hr, hws, _, _⟩ := render_head j hw
  rw [hr, List.cons_append, skipWs_cons_of_not_ws _ _ hws]

theorem quote_append (k : Str) (X : List Nat) : quote k ++ X = 0x22 :: (escBody k ++ 0x22 :: X) := by
  simp [quote]

theorem restOk_nil : restOk [] := by intro c h; simp at h

theorem restOk_cons (c : Nat) (t : List Nat) (h : isNumChar c = false) : restOk (c :: t) := by
  intro c' h'; simp at h'; subst h'; exact h

theorem restOk_TL (t : JL) (X : List Nat) : restOk (renderTL t ++ 0x20 :: X) := by
  cases t with
  | nil => exact restOk_cons _ _ (by decide)
  | cons h t => exact restOk_cons _ _ (by decide)

theorem restOk_TM (t : JM) (X : List Nat) : restOk (renderTM t ++ 0x20 :: X) := by
  cases t with
  | nil => exact restOk_cons _ _ (by decide)
  | cons k v t => exact restOk_cons _ _ (by decide)

/-- the value parser returns `h` and stops exactly after its rendering -/
def ValueOk (h : J) : Prop :=
  ∀ f rest, h.size ≤ f → restOk rest → pValue f (render h ++ rest) = .ok (h, rest)

theorem elems_step_last (f : Nat) (h : J) (hv : ValueOk h) (hf : h.size ≤ f) (rest : List Nat) :
    pElems (f + 1) (render h ++ (0x20 :: 0x5D :: rest)) = .ok (.cons h .nil, rest) := by
  rw [pElems_succ, hv f _ hf (restOk_cons _ _ (by decide))]
  simp [skipWs, isWs]

theorem elems_step_more (f : Nat) (h : J) (hv : ValueOk h) (hf : h.size ≤ f) (h' : J) (hw' : h'.wf = true) (X : List Nat) :
    pElems (f + 1) (render h ++ (0x2C :: 0x20 :: (render h' ++ X))) =
      match pElems f (render h' ++ X) with
      | .ok (l, r2) => .ok (.cons h l, r2)
      | .error e => .error e := by
  rw [pElems_succ, hv f _ hf (restOk_cons _ _ (by decide))]
  simp only [skipWs_cons_of_not_ws 0x2C _ (by decide), if_true, skipWs_space, skipWs_render h' hw']

theorem members_step_last (f : Nat) (seen : List Str) (k : Str) (hk : wfStr k = true) (hs : k ∉ seen)
    (v : J) (hw : v.wf = true) (hv : ValueOk v) (hf : v.size ≤ f) (rest : List Nat) :
    pMembers (f + 1) seen (quote k ++ (0x3A :: 0x20 :: (render v ++ (0x20 :: 0x7D :: rest)))) = .ok (.cons k v .nil, rest) := by
  have e := hv f (0x20 :: 0x7D :: rest) hf (restOk_cons _ _ (by decide))
  rw [quote_append, pMembers_succ_cons, if_pos rfl, lexStr_escBody k hk]
  simp only [hs, if_false, skipWs_cons_of_not_ws 0x3A _ (by decide), if_true, skipWs_space, skipWs_render v hw, e]
  simp [skipWs, isWs]

theorem members_step_more (f : Nat) (seen : List Str) (k : Str) (hk : wfStr k = true) (hs : k ∉ seen)
    (v : J) (hw : v.wf = true) (hv : ValueOk v) (hf : v.size ≤ f) (k' : Str) (X : List Nat) :
    pMembers (f + 1) seen (quote k ++ (0x3A :: 0x20 :: (render v ++ (0x2C :: 0x20 :: (quote k' ++ X))))) =
      match pMembers f (k :: seen) (quote k' ++ X) with
      | .ok (m, r3) => .ok (.cons k v m, r3)
      | .error e => .error e := by
  have e := hv f (0x2C :: 0x20 :: (quote k' ++ X)) hf (restOk_cons _ _ (by decide))
  rw [quote_append, pMembers_succ_cons, if_pos rfl, lexStr_escBody k hk]
  simp only [hs, if_false, skipWs_cons_of_not_ws 0x3A _ (by decide), if_true, skipWs_space, skipWs_render v hw, e]
  simp only [skipWs_cons_of_not_ws 0x2C _ (by decide), if_true, skipWs_space]
  rw [quote_append k', skipWs_cons_of_not_ws 0x22 _ (by decide)]

mutual
theorem pValue_render : (j : J) → j.wf = true → j.nodup = true → ValueOk j
  | .null, _, _ => by
    intro f rest hf _
    obtain ⟨f', rfl⟩ : ∃ f', f = f' + 1 := ⟨f - 1, by simp [J.size] at hf; omega⟩
    simp [render, pValue_succ_cons]
  | .bool true, _, _ => by
    intro f rest hf _
    obtain ⟨f', rfl⟩ : ∃ f', f = f' + 1 := ⟨f - 1, by simp [J.size] at hf; omega⟩
    simp [render, pValue_succ_cons]
  | .bool false, _, _ => by
    intro f rest hf _
    obtain ⟨f', rfl⟩ : ∃ f', f = f' + 1 := ⟨f - 1, by simp [J.size] at hf; omega⟩
    simp [render, pValue_succ_cons]
  | .num lit, hw, _ => by
    intro f rest hf hr
    obtain ⟨f', rfl⟩ : ∃ f', f = f' + 1 := ⟨f - 1, by simp [J.size] at hf; omega⟩
    simp only [J.wf, wfNum, Bool.and_eq_true] at hw
    obtain ⟨c, t, rfl, hc⟩ := validNum_head (lit) hw.1
    have hsp := spanNum_append (c :: t) rest hw.2 hr
    simp only [render, List.cons_append] at hsp ⊢
    rw [pValue_succ_cons]
    have hne : c ≠ 0x7B ∧ c ≠ 0x5B ∧ c ≠ 0x22 ∧ c ≠ 0x74 ∧ c ≠ 0x66 ∧ c ≠ 0x6E := by
      rcases hc with rfl | hc
      · decide
      · simp only [isDigit, Bool.and_eq_true, decide_eq_true_eq] at hc; omega
    simp only [hne.1, hne.2.1, hne.2.2.1, hne.2.2.2.1, hne.2.2.2.2.1, hne.2.2.2.2.2, if_false, hsp, hw.1, if_true]
  | .str s, hw, _ => by
    intro f rest hf _
    obtain ⟨f', rfl⟩ : ∃ f', f = f' + 1 := ⟨f - 1, by simp [J.size] at hf; omega⟩
    simp only [J.wf] at hw
    simp only [render, quote_append]
    rw [pValue_succ_cons]
    simp [lexStr_escBody s hw]
  | .arr .nil, _, _ => by
    intro f rest hf _
    obtain ⟨f', rfl⟩ : ∃ f', f = f' + 1 := ⟨f - 1, by simp [J.size] at hf; omega⟩
    simp [render, pValue_succ_cons, skipWs, isWs]
  | .arr (.cons h t), hw, hn => by
    intro f rest hf _
    obtain ⟨f', rfl⟩ : ∃ f', f = f' + 1 := ⟨f - 1, by simp [J.size] at hf; omega⟩
    simp only [J.wf, JL.wf, Bool.and_eq_true] at hw
    simp only [J.nodup, JL.nodup, Bool.and_eq_true] at hn
    have key := pElems_render t hw.2 hn.2 h hw.1 (pValue_render h hw.1 hn.1) f' rest
      (by simp only [J.size, JL.size] at hf; omega)
    obtain ⟨c2, tl, hr, hws, h5d, _⟩ := render_head h hw.1
    simp only [render, List.cons_append, List.nil_append, List.append_assoc]
    rw [hr] at key ⊢
    simp only [List.cons_append] at key ⊢
    rw [pValue_succ_cons]
    simp [skipWs_space, skipWs_cons_of_not_ws _ _ hws, h5d, key]
  | .obj .nil, _, _ => by
    intro f rest hf _
    obtain ⟨f', rfl⟩ : ∃ f', f = f' + 1 := ⟨f - 1, by simp [J.size] at hf; omega⟩
    simp [render, pValue_succ_cons, skipWs, isWs]
  | .obj (.cons k v t), hw, hn => by
    intro f rest hf _
    obtain ⟨f', rfl⟩ : ∃ f', f = f' + 1 := ⟨f - 1, by simp [J.size] at hf; omega⟩
    simp only [J.wf, JM.wf, Bool.and_eq_true] at hw
    simp only [J.nodup, JM.nodup, JM.keys, Bool.and_eq_true, decide_eq_true_eq, List.nodup_cons] at hn
    have key := pMembers_render t hw.2 hn.2.2 k v [] hw.1.1 hw.1.2 (pValue_render v hw.1.2 hn.2.1)
      (by simp) (fun k' hk' => ⟨fun e => hn.1.1 (e ▸ hk'), by simp⟩) hn.1.2 f' rest
      (by simp only [J.size, JM.size] at hf; omega)
    simp only [render, List.cons_append, List.nil_append, List.append_assoc]
    rw [quote_append] at key ⊢
    rw [pValue_succ_cons]
    simp [skipWs_space, skipWs_cons_of_not_ws 0x22 _ (by decide), key]
theorem pElems_render : (t : JL) → t.wf = true → t.nodup = true → ∀ h : J, h.wf = true → ValueOk h →
    ∀ f rest, h.size + t.size + 1 ≤ f →
      pElems f (render h ++ (renderTL t ++ (0x20 :: 0x5D :: rest))) = .ok (.cons h t, rest)
  | .nil, _, _ => by
    intro h hw hv f rest hf
    obtain ⟨f', rfl⟩ : ∃ f', f = f' + 1 := ⟨f - 1, by omega⟩
    simp only [renderTL, List.nil_append]
    exact elems_step_last f' h hv (by simp only [JL.size] at hf; omega) rest
  | .cons h' t', hw', hn' => by
    intro h hw hv f rest hf
    obtain ⟨f', rfl⟩ : ∃ f', f = f' + 1 := ⟨f - 1, by omega⟩
    simp only [JL.wf, Bool.and_eq_true] at hw'
    simp only [JL.nodup, Bool.and_eq_true] at hn'
    simp only [JL.size] at hf
    simp only [renderTL, List.cons_append, List.nil_append, List.append_assoc]
    rw [elems_step_more f' h hv (by omega) h' hw'.1,
      pElems_render t' hw'.2 hn'.2 h' hw'.1 (pValue_render h' hw'.1 hn'.1) f' rest (by omega)]
theorem pMembers_render : (t : JM) → t.wf = true → t.nodup = true → ∀ (k : Str) (v : J) (seen : List Str),
    wfStr k = true → v.wf = true → ValueOk v → k ∉ seen → (∀ k' ∈ t.keys, k' ≠ k ∧ k' ∉ seen) → t.keys.Nodup →
    ∀ f rest, v.size + t.size + 1 ≤ f →
      pMembers f seen (quote k ++ (0x3A :: 0x20 :: (render v ++ (renderTM t ++ (0x20 :: 0x7D :: rest))))) = .ok (.cons k v t, rest)
  | .nil, _, _ => by
    intro k v seen hk hw hv hs _ _ f rest hf
    obtain ⟨f', rfl⟩ : ∃ f', f = f' + 1 := ⟨f - 1, by omega⟩
    simp only [renderTM, List.nil_append]
    exact members_step_last f' seen k hk hs v hw hv (by simp only [JM.size] at hf; omega) rest
  | .cons k' v' t', hw', hn' => by
    intro k v seen hk hw hv hs hdis hnd f rest hf
    obtain ⟨f', rfl⟩ : ∃ f', f = f' + 1 := ⟨f - 1, by omega⟩
    simp only [JM.wf, Bool.and_eq_true] at hw'
    simp only [JM.nodup, Bool.and_eq_true] at hn'
    simp only [JM.keys, List.nodup_cons] at hnd
    simp only [JM.size] at hf
    have hk'1 := hdis k' (by simp [JM.keys])
    simp only [renderTM, List.cons_append, List.nil_append, List.append_assoc]
    rw [members_step_more f' seen k hk hs v hw hv (by omega) k',
      pMembers_render t' hw'.2 hn'.2 k' v' (k :: seen) hw'.1.1 hw'.1.2 (pValue_render v' hw'.1.2 hn'.1)
        (by simp [hk'1.1, hk'1.2])
        (fun k'' hk'' => ⟨fun e => hnd.1 (e ▸ hk''), by
          have := hdis k'' (by simp [JM.keys, hk'']); simp [this.1, this.2]⟩)
        hnd.2 f' rest (by omega)]
end

theorem parse_render_lemma (j : J) (hw : j.wf = true) (hn : j.nodup = true) : parse (render j) = .ok j := by
  have h := pValue_render j hw hn ((render j).length + 1) [] (by have := size_le_render j hw; omega) restOk_nil
  simp only [List.append_nil] at h
  have hs := skipWs_render j hw []
  simp only [List.append_nil] at hs
  simp [parse, hs, h, skipWs]

end Exa.Json
