import ExaModel.Lemmas.WireExaReport
set_option linter.unusedSimpArgs false
/-!
  M-Wire-Exa, part 7 of the lemmas: the attribute clause of `Meets` for the block ExaBGP writes, and
  the NLRI / MP_REACH_NLRI pieces as reference encodings.
-/
namespace Exa.WireExa
open Exa Exa.Wire
open Exa.Generated.ExaEncTable

theorem sameVal_refl (a : AttrVal) : SameVal a a := Or.inl rfl

/-- For a value that is not a community list, `SameVal` is equality. -/
theorem sameVal_eq (w v : AttrVal) (h : SameVal w v)
    (h8 : ∀ y, v ≠ .communities y) (h16 : ∀ y, v ≠ .extCommunities y) (h32 : ∀ y, v ≠ .largeCommunities y) :
    w = v := by
  rcases h with h | ⟨x, y, _, e, _⟩ | ⟨x, y, _, e, _⟩ | ⟨x, y, _, e, _⟩
  · exact h
  · exact absurd e (h8 y)
  · exact absurd e (h16 y)
  · exact absurd e (h32 y)

theorem sameOpt_some_eq (x : Option AttrVal) (v : AttrVal) (h : SameOpt x (some v))
    (h8 : ∀ y, v ≠ .communities y) (h16 : ∀ y, v ≠ .extCommunities y) (h32 : ∀ y, v ≠ .largeCommunities y) :
    x = some v := by
  cases x with
  | none => exact absurd h (by simp [SameOpt])
  | some w => rw [sameVal_eq w v h h8 h16 h32]

theorem sameOpt_none (x : Option AttrVal) (h : SameOpt x none) : x = none := by
  cases x with
  | none => rfl
  | some w => exact absurd h (by simp [SameOpt])

theorem sameOpt_refl (a : Option AttrVal) : SameOpt a a := by
  cases a with
  | none => trivial
  | some v => exact sameVal_refl v

theorem modelPath_eq (p : SessParams) (r : RouteReq) (hs : WFSess p) : modelPath p r = wantPath p r := by
  unfold modelPath wantPath
  rw [defaultPath_eq p hs]
  cases firstOf r.attrs 2 with
  | none => rfl
  | some b => cases b <;> rfl

theorem modelPath_ok (p : SessParams) (r : RouteReq) (hs : WFSess p) (hw : ∀ a ∈ r.attrs, WFReqAttr a) :
    PathOk (modelPath p r) := by
  unfold modelPath
  cases hf : firstOf r.attrs 2 with
  | none => exact defaultPath_ok p hs.1
  | some b =>
    cases b <;> try exact defaultPath_ok p hs.1
    case asPath s => exact hw _ (firstOf_mem r.attrs 2 _ hf)

/-- **Every attribute type is what was asked for, else the RFC default, else absent.** -/
theorem attrs_meet (p : SessParams) (r : RouteReq) (nh : Bytes) (tail : List Attr) (ht : IsTail tail)
    (hs : WFSess p) (hw : ∀ a ∈ r.attrs, WFReqAttr a) (c : Nat) (hc : c ≠ 3) :
    SameOpt ((semAll p r nh ++ tail).findSome? (repAt (reportVal (paramsOf p) (semAll p r nh ++ tail)) c))
      (want p r c) := by
  by_cases h1 : c = 1
  · subst h1; rw [rep1 p r nh tail ht]; exact sameOpt_refl _
  by_cases h2 : c = 2
  · subst h2
    rw [rep2 p r nh tail ht (modelPath_ok p r hs hw), modelPath_eq p r hs]
    exact sameOpt_refl _
  by_cases h4 : c = 4
  · subst h4; rw [rep4 p r nh tail ht]; exact sameOpt_refl _
  by_cases h5 : c = 5
  · subst h5; rw [rep5 p r nh tail ht, sameAs_eq p hs]; exact sameOpt_refl _
  by_cases h6 : c = 6
  · subst h6; rw [rep6 p r nh tail ht]; exact sameOpt_refl _
  by_cases h7 : c = 7
  · subst h7; rw [rep7 p r nh tail ht]; exact sameOpt_refl _
  by_cases h8 : c = 8
  · subst h8
    rw [rep8 p r nh tail ht]
    simp only [want, show ¬ (8 = 1) by decide, show ¬ (8 = 2) by decide, show ¬ (8 = 4) by decide,
      show ¬ (8 = 5) by decide, show ¬ (8 = 6) by decide, show ¬ (8 = 7) by decide, if_false, if_true]
    cases hf : firstOf r.attrs 8 with
    | none => trivial
    | some b =>
      cases b <;> try trivial
      case communities cs =>
        simp only
        by_cases hn : cs = []
        · simp [hn, SameOpt]
        · simp only [hn, if_false, SameOpt]
          exact Or.inr (Or.inl ⟨_, _, rfl, rfl, fun x => mem_sortBy id cs x⟩)
  by_cases h9 : c = 9
  · subst h9; rw [rep9 p r nh tail ht]; exact sameOpt_refl _
  by_cases h10 : c = 10
  · subst h10; rw [rep10 p r nh tail ht]; exact sameOpt_refl _
  by_cases h16 : c = 16
  · subst h16
    rw [rep16 p r nh tail ht]
    simp only [want, show ¬ (16 = 1) by decide, show ¬ (16 = 2) by decide, show ¬ (16 = 4) by decide,
      show ¬ (16 = 5) by decide, show ¬ (16 = 6) by decide, show ¬ (16 = 7) by decide, show ¬ (16 = 8) by decide,
      show ¬ (16 = 9) by decide, show ¬ (16 = 10) by decide, if_false, if_true]
    by_cases hn : extAll r.attrs = []
    · simp [hn, SameOpt]
    · simp only [hn, if_false, SameOpt]
      exact Or.inr (Or.inr (Or.inl ⟨_, _, rfl, rfl, fun x => mem_sortBy key2 _ x⟩))
  by_cases h32 : c = 32
  · subst h32
    rw [rep32 p r nh tail ht]
    simp only [want, show ¬ (32 = 1) by decide, show ¬ (32 = 2) by decide, show ¬ (32 = 4) by decide,
      show ¬ (32 = 5) by decide, show ¬ (32 = 6) by decide, show ¬ (32 = 7) by decide, show ¬ (32 = 8) by decide,
      show ¬ (32 = 9) by decide, show ¬ (32 = 10) by decide, show ¬ (32 = 16) by decide, if_false, if_true]
    cases hf : firstOf r.attrs 32 with
    | none => trivial
    | some b =>
      cases b <;> try trivial
      case largeCommunities cs =>
        simp only
        by_cases hn : cs = []
        · simp [hn, SameOpt]
        · simp only [hn, if_false, SameOpt]
          exact Or.inr (Or.inr (Or.inr ⟨_, _, rfl, rfl, fun x => by rw [mem_sortBy, mem_dedup]⟩))
  have hw0 : want p r c = none := by simp [want, h1, h2, h4, h5, h6, h7, h8, h9, h10, h16, h32]
  rw [hw0]
  by_cases h17 : c = 17
  · subst h17; rw [rep17 p r nh tail ht]; trivial
  by_cases h18 : c = 18
  · subst h18; rw [rep18 p r nh tail ht]; trivial
  rw [rep_other p r nh tail ht (paramsOf p) c (by
    simp only [allCodes, List.mem_cons, List.mem_nil_iff, or_false, not_or]
    exact ⟨h1, h2, h17, hc, h4, h5, h6, h7, h18, h8, h9, h10, h16, h32⟩)]
  trivial

/-! ### NLRI -/

theorem packNlri_eq (p : SessParams) (r : RouteReq)
    (hw : WFNlri r.afi r.safi (apSends p r) false (wantNlri p r)) :
    packNlri p r = encNlri r.safi false (wantNlri p r) := by
  obtain ⟨_, _, h0, _⟩ := hw
  unfold packNlri encNlri wantNlri
  simp only [packLabels_eq]
  have hl : labelField r.safi false r.labels = encStack r.labels := by
    unfold labelField
    by_cases hh : hasLabel r.safi = true
    · simp [hh]
    · have hh' : hasLabel r.safi = false := by simpa using hh
      have : r.labels = [] := h0 hh'
      simp [hh', this, encStack]
  rw [hl]
  cases hap : apSends p r with
  | false => simp [encPathId]
  | true =>
    cases hpi : r.pathId with
    | none => simp [encPathId, noPath, be32]
    | some i => simp [encPathId]

theorem encNlris_single (safi : Nat) (wd : Bool) (n : Nlri) : encNlris safi wd [n] = encNlri safi wd n := by
  simp [encNlris]

/-! ### MP_REACH_NLRI -/

/-- The MP_REACH_NLRI attribute ExaBGP builds for the route. -/
def mpAttr (p : SessParams) (r : RouteReq) (nh : Bytes) : Attr :=
  mk (paramsOf p) true false (.mpReach r.afi r.safi (mpNextHop p r nh) [wantNlri p r])

theorem mpPayload_eq (p : SessParams) (r : RouteReq) (nh : Bytes)
    (hw : WFNlri r.afi r.safi (apSends p r) false (wantNlri p r)) :
    mpPayload p r nh = encVal (paramsOf p) (.mpReach r.afi r.safi (mpNextHop p r nh) [wantNlri p r]) := by
  unfold mpPayload
  simp only [encVal, encNlris_single, packNlri_eq p r hw]

theorem mpReach_eq (p : SessParams) (r : RouteReq) (nh : Bytes)
    (hw : WFNlri r.afi r.safi (apSends p r) false (wantNlri p r)) :
    mpReach p r nh = encAttr (paramsOf p) (mpAttr p r nh) := by
  unfold mpReach mpHeader mpAttr mk
  rw [mpPayload_eq p r nh hw]
  by_cases hl : (encVal (paramsOf p) (.mpReach r.afi r.safi (mpNextHop p r nh) [wantNlri p r])).length > 255
  · simp [hl, encAttr, exaFlags, Flags.byte, b2n, encLen, mpFlag, mpReachCode, AttrVal.code]
  · simp [hl, encAttr, exaFlags, Flags.byte, b2n, encLen, mpFlag, mpReachCode, AttrVal.code]

theorem rdSize_eq (afi safi : Nat) (ha : afi = 1 ∨ afi = 2) (hsf : safi = 1 ∨ safi = 2 ∨ safi = 4 ∨ safi = 128) :
    rdSize afi safi = if safi == 128 then 8 else 0 := by
  rcases ha with ha | ha <;> rcases hsf with h | h | h | h <;> subst ha <;> subst h <;> decide

theorem take16 (nh : Bytes) (h : nh.length = 16) : nh.take 16 = nh := by
  rw [← h]; exact List.take_length

theorem mpNextHop_len (p : SessParams) (r : RouteReq) (nh : Bytes) (hs : WFSess p)
    (ha : r.afi = 1 ∨ r.afi = 2) (hsf : r.safi = 1 ∨ r.safi = 2 ∨ r.safi = 4 ∨ r.safi = 128)
    (hn : nh.length = 4 ∨ nh.length = 16) : (mpNextHop p r nh).length < 256 := by
  unfold mpNextHop
  rw [rdSize_eq r.afi r.safi ha hsf]
  have hb : (if (r.safi == 128) = true then 8 else 0) ≤ 8 := by split <;> omega
  simp only [List.length_append, List.length_replicate]
  by_cases h : (r.afi != 2) = true
  · simp only [h, if_true]; omega
  · have h' : (r.afi != 2) = false := by simpa using h
    simp only [h', Bool.false_eq_true, if_false]
    cases hll : p.linkLocal with
    | none => simp only; omega
    | some ll =>
      have := hs.2.2.2.2.2.2.2.2.2.2 ll hll
      simp only
      by_cases hi : isLinkLocal nh = true
      · simp only [hi, if_true]; omega
      · have hi' : isLinkLocal nh = false := by simpa using hi
        simp only [hi', Bool.false_eq_true, if_false, List.length_append]; omega

theorem supported_of (afi safi : Nat) (ha : afi = 1 ∨ afi = 2) (hsf : safi = 1 ∨ safi = 2 ∨ safi = 4 ∨ safi = 128) :
    supported afi safi = true := by
  rcases ha with ha | ha <;> rcases hsf with h | h | h | h <;> subst ha <;> subst h <;> decide

theorem prewf_mpAttr (p : SessParams) (r : RouteReq) (nh : Bytes) (hs : WFSess p) (hw : WFReq p r)
    (hn : nh.length = 4 ∨ nh.length = 16) : PreWF (paramsOf p) (mpAttr p r nh) := by
  obtain ⟨ha, hsf, hnl, _, _⟩ := hw
  refine prewf_mk _ _ _ _ rfl ⟨supported_of _ _ ha hsf, mpNextHop_len p r nh hs ha hsf hn, ?_⟩
  intro n hn'
  simp only [List.mem_singleton] at hn'
  subst hn'
  exact hnl

theorem isTail_mp (p : SessParams) (r : RouteReq) (nh : Bytes) : IsTail [mpAttr p r nh] := by
  intro x hx
  simp only [List.mem_singleton] at hx
  subst hx
  exact ⟨_, _, _, _, rfl⟩

theorem isTail_nil : IsTail [] := by intro x hx; cases hx

/-- RFC 4760 / 2545 / 4364 / 4659 / 8950 accept the length of the next hop field ExaBGP writes. -/
theorem nhLenOk_mp (p : SessParams) (r : RouteReq) (nh : Bytes) (hs : WFSess p)
    (ha : r.afi = 1 ∨ r.afi = 2) (hsf : r.safi = 1 ∨ r.safi = 2 ∨ r.safi = 4 ∨ r.safi = 128)
    (hfam : NhFamilyOk p r nh) (hll : NoVpnLinkLocal p r nh) :
    nhLenOk (paramsOf p) r.afi r.safi (mpNextHop p r nh).length = true := by
  unfold mpNextHop
  rw [rdSize_eq r.afi r.safi ha hsf]
  simp only [List.length_append, List.length_replicate]
  unfold nhLenOk
  rcases ha with ha | ha
  · -- IPv4 family: 4-byte next hop, or 16 bytes under RFC 8950
    have := hfam.1 ha
    simp only [ha, show ((1 : Nat) != 2) = true by decide, if_true, paramsOf]
    rcases this with h4 | ⟨h16, hx⟩
    · simp [h4]
    · rw [ha] at hx
      rcases hsf with h | h | h | h <;> (rw [h] at hx; simp [h, h16]; simpa using hx)
  · -- IPv6 family: 16 bytes, or 32 with the link-local address (never behind a VPN next hop)
    have h16 := hfam.2 ha
    simp only [ha, show ((2 : Nat) != 2) = false by decide, Bool.false_eq_true, if_false,
      show ((2 : Nat) == 1) = false by decide]
    cases hl : p.linkLocal with
    | none => rcases hsf with h | h | h | h <;> simp [h, h16]
    | some ll =>
      have hlen := hs.2.2.2.2.2.2.2.2.2.2 ll hl
      simp only
      by_cases hi : isLinkLocal nh = true
      · rcases hsf with h | h | h | h <;> simp [h, h16, hi]
      · have hi' : isLinkLocal nh = false := by simpa using hi
        rcases hsf with h | h | h | h
        · simp [h, h16, hi', hlen]
        · simp [h, h16, hi', hlen]
        · simp [h, h16, hi', hlen]
        · have := hll ha h (by simp [hl])
          rw [hi'] at this; cases this

/-- The address the report gives for the route is the next hop, without the zero RD and the link-local part. -/
theorem nhAddr_mp (p : SessParams) (r : RouteReq) (nh : Bytes)
    (ha : r.afi = 1 ∨ r.afi = 2) (hsf : r.safi = 1 ∨ r.safi = 2 ∨ r.safi = 4 ∨ r.safi = 128)
    (hn : nh.length = 4 ∨ nh.length = 16) (hfam : NhFamilyOk p r nh) :
    nhAddr r.safi (mpNextHop p r nh) = nh := by
  unfold nhAddr mpNextHop
  rw [rdSize_eq r.afi r.safi ha hsf]
  have hd : ∀ (k : Nat) (x : Bytes), (List.replicate k 0 ++ x).drop k = x := by
    intro k x
    exact List.drop_left' (by simp)
  simp only [hd]
  by_cases h2 : r.afi = 2
  · have h16 := hfam.2 h2
    simp only [h2, show ((2 : Nat) != 2) = false by decide, Bool.false_eq_true, if_false]
    cases hl : p.linkLocal with
    | none => simp [h16, take16 nh h16]
    | some ll =>
      simp only
      split
      · simp [h16, take16 nh h16]
      · have : ¬ (nh ++ ll).length = 4 := by simp [h16]; omega
        simp only [beq_iff_eq, this, if_false]
        exact List.take_left' h16
  · have h1 : (r.afi != 2) = true := by simpa using h2
    simp only [h1, if_true]
    rcases hn with h | h
    · simp [h]
    · simp [h, take16 nh h]

end Exa.WireExa
