import ExaModel.Lemmas.OpenCodecValue
set_option linter.unusedSimpArgs false
set_option linter.unusedVariables false
/-! Round trip of the framing: capability TLVs, optional parameters (both formats), fixed part. -/
namespace Exa.Open

instance {ε α : Type} [DecidableEq ε] [DecidableEq α] : DecidableEq (Except ε α) := fun a b =>
  match a, b with
  | .ok x, .ok y => if h : x = y then isTrue (by rw [h]) else isFalse (by intro e; cases e; exact h rfl)
  | .error x, .error y => if h : x = y then isTrue (by rw [h]) else isFalse (by intro e; cases e; exact h rfl)
  | .ok _, .error _ => isFalse (by intro e; cases e)
  | .error _, .ok _ => isFalse (by intro e; cases e)

theorem walkCaps_nil (fuel : Nat) : walkCaps fuel [] = .ok [] := by
  cases fuel <;> simp [walkCaps]

theorem walkParams_nil (ext : Bool) (fuel : Nat) : walkParams ext fuel [] = .ok [] := by
  cases fuel <;> simp [walkParams]

theorem encCapTLV_length (c : Cap) : (encCapTLV c).length = c.value.length + 2 := by
  simp [encCapTLV]

theorem length_le_groupLen (g : List Cap) : g.length ≤ groupLen g := by
  induction g with
  | nil => simp [groupLen]
  | cons c t ih =>
    simp only [groupLen, List.flatMap_cons, List.length_append, encCapTLV_length, List.length_cons] at *
    omega

theorem walkCaps_enc (g : List Cap) (hw : g.all wfCap = true) (fuel : Nat) (hf : g.length ≤ fuel) :
    walkCaps fuel (g.flatMap encCapTLV) = .ok g := by
  induction g generalizing fuel with
  | nil => simpa using walkCaps_nil fuel
  | cons c t ih =>
    cases fuel with
    | zero => simp at hf
    | succ f =>
      simp only [List.all_cons, Bool.and_eq_true] at hw
      have hf' : t.length ≤ f := by simpa using hf
      have e : (c :: t).flatMap encCapTLV = c.code :: c.value.length :: (c.value ++ t.flatMap encCapTLV) := by
        simp [List.flatMap_cons, encCapTLV]
      have tk : List.take c.value.length (c.value ++ t.flatMap encCapTLV) = c.value := List.take_left' rfl
      have dr : List.drop c.value.length (c.value ++ t.flatMap encCapTLV) = t.flatMap encCapTLV := List.drop_left' rfl
      rw [e]
      simp [walkCaps, tk, dr, decodeCap_value c hw.1, ih hw.2 f hf']
      rw [if_neg (by omega), if_neg (by omega)]

theorem encGroup_length (ext : Bool) (g : List Cap) :
    (encGroup ext g).length = groupLen g + (if ext then 3 else 2) := by
  cases ext <;> simp [encGroup, groupLen] <;> omega

theorem length_le_encParams (ext : Bool) (gs : List (List Cap)) : gs.length ≤ (encParams ext gs).length := by
  induction gs with
  | nil => simp [encParams]
  | cons g t ih =>
    have h := encGroup_length ext g
    simp only [encParams, List.flatMap_cons, List.length_append, List.length_cons] at *
    cases ext
    · simp only [if_false, Bool.false_eq_true] at h; omega
    · simp only [if_true] at h; omega

def mapOk (pre : List Cap) (r : Res (List Cap)) : Res (List Cap) :=
  match r with
  | .error e => .error e
  | .ok x => .ok (pre ++ x)

/-- Well-formed capability parameters followed by anything: the walk consumes them and goes on
    with the tail (this is where a non-capability parameter is met). -/
theorem walkParams_enc_append (ext : Bool) (gs : List (List Cap)) (hw : gs.all (wfGroup ext) = true)
    (tail : Bytes) (fuel : Nat) (hf : gs.length ≤ fuel) :
    walkParams ext fuel (encParams ext gs ++ tail) = mapOk gs.flatten (walkParams ext (fuel - gs.length) tail) := by
  induction gs generalizing fuel with
  | nil =>
    simp only [encParams, List.flatMap_nil, List.nil_append, List.length_nil, Nat.sub_zero, List.flatten_nil, mapOk]
    cases walkParams ext fuel tail <;> simp
  | cons g t ih =>
    cases fuel with
    | zero => simp at hf
    | succ f =>
      simp only [List.all_cons, Bool.and_eq_true] at hw
      have hf' : t.length ≤ f := by simpa using hf
      obtain ⟨hg, ht⟩ := hw
      simp only [wfGroup, Bool.and_eq_true, decide_eq_true_eq] at hg
      obtain ⟨hcaps, hlen⟩ := hg
      have wc := walkCaps_enc g hcaps (groupLen g + 1) (by have := length_le_groupLen g; omega)
      have ihh := ih ht f hf'
      clear ih
      have fe : f + 1 - (g :: t).length = f - t.length := by simp
      rw [fe]
      generalize walkParams ext (f - t.length) tail = R at *
      cases ext with
      | false =>
        simp only [if_false, Bool.false_eq_true] at hlen
        have e : encParams false (g :: t) ++ tail
            = 2 :: groupLen g :: (g.flatMap encCapTLV ++ (encParams false t ++ tail)) := by
          simp [encParams, List.flatMap_cons, encGroup, groupLen]
        have tk : List.take (groupLen g) (g.flatMap encCapTLV ++ (encParams false t ++ tail)) = g.flatMap encCapTLV :=
          List.take_left' rfl
        have dr : List.drop (groupLen g) (g.flatMap encCapTLV ++ (encParams false t ++ tail)) = encParams false t ++ tail :=
          List.drop_left' rfl
        rw [e]
        have gl : (g.flatMap encCapTLV).length = groupLen g := rfl
        generalize encParams false t ++ tail = rest at *
        simp [walkParams, tk, dr, gl, wc, ihh]
        try rw [if_neg (by omega), if_neg (by omega)]
        cases R <;> simp [mapOk]
      | true =>
        simp only [if_true] at hlen
        have e : encParams true (g :: t) ++ tail
            = 2 :: (be16 (groupLen g) ++ (g.flatMap encCapTLV ++ (encParams true t ++ tail))) := by
          simp [encParams, List.flatMap_cons, encGroup, groupLen]
        have r := rd16_be16 (groupLen g) hlen (g.flatMap encCapTLV ++ (encParams true t ++ tail))
        have d3 : List.drop 2 (be16 (groupLen g) ++ (g.flatMap encCapTLV ++ (encParams true t ++ tail)))
            = g.flatMap encCapTLV ++ (encParams true t ++ tail) := List.drop_left' (by simp)
        have tk : List.take (groupLen g) (g.flatMap encCapTLV ++ (encParams true t ++ tail)) = g.flatMap encCapTLV :=
          List.take_left' rfl
        have dr : List.drop (groupLen g) (g.flatMap encCapTLV ++ (encParams true t ++ tail)) = encParams true t ++ tail :=
          List.drop_left' rfl
        have dr' : List.drop (groupLen g + 2) (be16 (groupLen g) ++ (g.flatMap encCapTLV ++ (encParams true t ++ tail)))
            = encParams true t ++ tail := by
          rw [Nat.add_comm, ← List.drop_drop, d3, dr]
        rw [e]
        have gl : (g.flatMap encCapTLV).length = groupLen g := rfl
        generalize encParams true t ++ tail = rest at *
        simp [walkParams, r, d3, tk, dr', gl, wc, ihh]
        try rw [if_neg (by omega), if_neg (by omega)]
        cases R <;> simp [mapOk]

theorem walkParams_enc (ext : Bool) (gs : List (List Cap)) (hw : gs.all (wfGroup ext) = true)
    (fuel : Nat) (hf : gs.length ≤ fuel) :
    walkParams ext fuel (encParams ext gs) = .ok gs.flatten := by
  have := walkParams_enc_append ext gs hw [] fuel hf
  simpa [walkParams_nil, mapOk] using this

theorem wfGroups_iff (ext : Bool) (gs : List (List Cap)) :
    wfGroups ext gs = true ↔ gs.all (wfGroup ext) = true ∧ (encParams ext gs).length < (if ext then 65536 else 256) := by
  simp [wfGroups, wfGroup]

theorem decodeOptional_enc (ext : Bool) (gs : List (List Cap)) (hw : wfGroups ext gs = true) :
    decodeOptional (encOptional ext gs) = .ok gs.flatten := by
  rw [wfGroups_iff] at hw
  obtain ⟨hg, hl⟩ := hw
  have wp := fun fuel h => walkParams_enc ext gs hg fuel h
  have lp := length_le_encParams ext gs
  cases ext with
  | true =>
    simp only [if_true] at hl
    have r := rd16_be16 (encParams true gs).length hl (encParams true gs)
    have d2 : List.drop 2 (be16 (encParams true gs).length ++ encParams true gs) = encParams true gs :=
      List.drop_left' (by simp)
    have w := wp ((encParams true gs).length + 1) (by omega)
    simp only [encOptional, if_true]
    generalize encParams true gs = p at *
    have e : [255, 255] ++ be16 p.length ++ p = 255 :: 255 :: (be16 p.length ++ p) := by simp
    rw [e]
    simp [decodeOptional, r, d2, w]
    rw [if_neg (by omega), if_neg (by omega)]
  | false =>
    simp only [if_false, Bool.false_eq_true] at hl
    simp only [encOptional, if_false, Bool.false_eq_true]
    by_cases h255 : (encParams false gs).length = 255
    · have w := wp 256 (by omega)
      cases gs with
      | nil => simp [encParams] at h255
      | cons g t =>
        have e : encParams false (g :: t) = 2 :: groupLen g :: (g.flatMap encCapTLV ++ encParams false t) := by
          simp [encParams, List.flatMap_cons, encGroup, groupLen]
        rw [e] at h255 w ⊢
        generalize (g.flatMap encCapTLV ++ encParams false t) = rest at *
        have tk : List.take 255 (2 :: groupLen g :: rest) = 2 :: groupLen g :: rest :=
          List.take_of_length_le (by omega)
        simp only [List.length_cons] at h255
        simp [decodeOptional, h255]
        have tk' : List.take 253 rest = rest := List.take_of_length_le (by omega)
        rw [tk']; simpa using w
    · have w := wp ((encParams false gs).length + 1) (by omega)
      generalize encParams false gs = p at *
      simp [decodeOptional, h255, w]

theorem encOptional_length_pos (ext : Bool) (gs : List (List Cap)) : 0 < (encOptional ext gs).length := by
  cases ext <;> simp [encOptional]

theorem decodeOpen_encG (ext : Bool) (myAs hold bgpId : Nat) (gs : List (List Cap))
    (hf : wfFixed myAs hold bgpId = true) (hg : wfGroups ext gs = true) :
    decodeOpen (encodeOpenG ext 4 myAs hold bgpId gs)
      = .ok { version := 4, myAs := myAs, hold := hold, bgpId := bgpId, caps := gs.flatten } := by
  simp only [wfFixed, Bool.and_eq_true, decide_eq_true_eq] at hf
  obtain ⟨⟨h1, h2⟩, h3⟩ := hf
  have ho := decodeOptional_enc ext gs hg
  have hp := encOptional_length_pos ext gs
  simp only [encodeOpenG, encFixed]
  generalize encOptional ext gs = opt at *
  have e : [4] ++ be16 myAs ++ be16 hold ++ be32 bgpId ++ opt
      = 4 :: (be16 myAs ++ (be16 hold ++ (be32 bgpId ++ opt))) := by simp
  rw [e]
  have r1 := rd16_be16 myAs h1 (be16 hold ++ (be32 bgpId ++ opt))
  have r2 := rd16_be16 hold h2 (be32 bgpId ++ opt)
  have r3 := rd32_be32 bgpId h3 opt
  have d1 : List.drop 1 (4 :: (be16 myAs ++ (be16 hold ++ (be32 bgpId ++ opt))))
      = be16 myAs ++ (be16 hold ++ (be32 bgpId ++ opt)) := by simp
  have d3 : List.drop 3 (4 :: (be16 myAs ++ (be16 hold ++ (be32 bgpId ++ opt))))
      = be16 hold ++ (be32 bgpId ++ opt) := by simp [be16]
  have d5 : List.drop 5 (4 :: (be16 myAs ++ (be16 hold ++ (be32 bgpId ++ opt))))
      = be32 bgpId ++ opt := by simp [be16]
  have d9 : List.drop 9 (4 :: (be16 myAs ++ (be16 hold ++ (be32 bgpId ++ opt)))) = opt := by simp [be16, be32]
  have len : ¬ (4 :: (be16 myAs ++ (be16 hold ++ (be32 bgpId ++ opt)))).length < 10 := by
    simp only [List.length_cons, List.length_append, be16_length, be32_length]; omega
  simp only [decodeOpen, if_neg len, d1, d3, d5, d9, r1, r2, r3, ho]
  simp

/-- `caps.map (fun c => [c])` is the layout ExaBGP emits; flattening gives the capabilities back. -/
theorem flatten_singletons (caps : List Cap) : (caps.map (fun c => [c])).flatten = caps := by
  induction caps with
  | nil => rfl
  | cons c t ih => simp [ih]

theorem decodeOpen_encode (o : OpenMsg) (h : wfOpen o = true) : decodeOpen (encodeOpen o) = .ok o := by
  simp only [wfOpen, Bool.and_eq_true, decide_eq_true_eq] at h
  obtain ⟨⟨hv, hf⟩, hg⟩ := h
  have := decodeOpen_encG (useExtended o.caps) o.myAs o.hold o.bgpId _ hf hg
  rw [flatten_singletons] at this
  simp only [encodeOpen, hv]
  rw [this]
  cases o; simp_all

end Exa.Open
