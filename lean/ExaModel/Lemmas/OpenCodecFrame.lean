import ExaModel.Lemmas.OpenCodecValue
set_option linter.unusedSimpArgs false
set_option linter.unusedVariables false
/-! Round trip of the framing: capability TLVs, optional parameters (both formats), fixed part. -/
namespace Exa.Open

theorem walkCaps_nil (fuel : Nat) : walkCaps fuel [] = .ok [] := by
  cases fuel <;> simp [walkCaps]

theorem walkParams_nil (ext : Bool) (fuel : Nat) : walkParams ext fuel [] = .ok [] := by
  cases fuel <;> simp [walkParams]

theorem encCapTLV_length (c : Cap) : (encCapTLV c).length = c.value.length + 2 := by
  simp [encCapTLV]

theorem length_le_groupLen (g : List Cap) : g.length ≤ groupLen g := by
  induction g with
  | nil => simp [groupLen]
  | cons c t ih =>
    simp only [groupLen, List.flatMap_cons, List.length_append, encCapTLV_length, List.length_cons] at *
    omega

theorem walkCaps_enc (g : List Cap) (hw : g.all wfCap = true) (fuel : Nat) (hf : g.length ≤ fuel) :
    walkCaps fuel (g.flatMap encCapTLV) = .ok g := by
  induction g generalizing fuel with
  | nil => simpa using walkCaps_nil fuel
  | cons c t ih =>
    cases fuel with
    | zero => simp at hf
    | succ f =>
      simp only [List.all_cons, Bool.and_eq_true] at hw
      have hf' : t.length ≤ f := by simpa using hf
      have e : (c :: t).flatMap encCapTLV = c.code :: c.value.length :: (c.value ++ t.flatMap encCapTLV) := by
        simp [List.flatMap_cons, encCapTLV]
      have tk : List.take c.value.length (c.value ++ t.flatMap encCapTLV) = c.value := List.take_left' rfl
      have dr : List.drop c.value.length (c.value ++ t.flatMap encCapTLV) = t.flatMap encCapTLV := List.drop_left' rfl
      rw [e]
      simp [walkCaps, tk, dr, decodeCap_value c hw.1, ih hw.2 f hf']
      rw [if_neg (by omega), if_neg (by omega)]

/-- one parameter = one well-formed group that fits the length field of the format -/
def wfGroup (ext : Bool) (g : List Cap) : Bool :=
  g.all wfCap && decide (groupLen g < (if ext then 65536 else 256))

theorem encGroup_length (ext : Bool) (g : List Cap) :
    (encGroup ext g).length = groupLen g + (if ext then 3 else 2) := by
  cases ext <;> simp [encGroup, groupLen] <;> omega

theorem length_le_encParams (ext : Bool) (gs : List (List Cap)) : gs.length ≤ (encParams ext gs).length := by
  induction gs with
  | nil => simp [encParams]
  | cons g t ih =>
    have h := encGroup_length ext g
    simp only [encParams, List.flatMap_cons, List.length_append, List.length_cons] at *
    cases ext
    · simp only [if_false, Bool.false_eq_true] at h; omega
    · simp only [if_true] at h; omega

theorem walkParams_enc (ext : Bool) (gs : List (List Cap)) (hw : gs.all (wfGroup ext) = true)
    (fuel : Nat) (hf : gs.length ≤ fuel) :
    walkParams ext fuel (encParams ext gs) = .ok gs.flatten := by
  induction gs generalizing fuel with
  | nil => simpa [encParams] using walkParams_nil ext fuel
  | cons g t ih =>
    cases fuel with
    | zero => simp at hf
    | succ f =>
      simp only [List.all_cons, Bool.and_eq_true] at hw
      have hf' : t.length ≤ f := by simpa using hf
      obtain ⟨hg, ht⟩ := hw
      simp only [wfGroup, Bool.and_eq_true, decide_eq_true_eq] at hg
      obtain ⟨hcaps, hlen⟩ := hg
      have wc := walkCaps_enc g hcaps (groupLen g + 1) (by have := length_le_groupLen g; omega)
      have ihh := ih ht f hf'
      clear ih
      cases ext with
      | false =>
        simp only [if_false, Bool.false_eq_true] at hlen
        have e : encParams false (g :: t) = 2 :: groupLen g :: (g.flatMap encCapTLV ++ encParams false t) := by
          simp [encParams, List.flatMap_cons, encGroup, groupLen]
        have tk : List.take (groupLen g) (g.flatMap encCapTLV ++ encParams false t) = g.flatMap encCapTLV :=
          List.take_left' rfl
        have dr : List.drop (groupLen g) (g.flatMap encCapTLV ++ encParams false t) = encParams false t :=
          List.drop_left' rfl
        rw [e]
        have gl : (g.flatMap encCapTLV).length = groupLen g := rfl
        generalize encParams false t = rest at *
        simp [walkParams, tk, dr, gl, wc, ihh]
        try rw [if_neg (by omega), if_neg (by omega)]
      | true =>
        simp only [if_true] at hlen
        have e : encParams true (g :: t) = 2 :: (be16 (groupLen g) ++ (g.flatMap encCapTLV ++ encParams true t)) := by
          simp [encParams, List.flatMap_cons, encGroup, groupLen]
        have r := rd16_be16 (groupLen g) hlen (g.flatMap encCapTLV ++ encParams true t)
        have d3 : List.drop 2 (be16 (groupLen g) ++ (g.flatMap encCapTLV ++ encParams true t))
            = g.flatMap encCapTLV ++ encParams true t := List.drop_left' (by simp)
        have tk : List.take (groupLen g) (g.flatMap encCapTLV ++ encParams true t) = g.flatMap encCapTLV :=
          List.take_left' rfl
        have dr : List.drop (groupLen g) (g.flatMap encCapTLV ++ encParams true t) = encParams true t :=
          List.drop_left' rfl
        have dr' : List.drop (groupLen g + 2) (be16 (groupLen g) ++ (g.flatMap encCapTLV ++ encParams true t))
            = encParams true t := by
          rw [Nat.add_comm, ← List.drop_drop, d3, dr]
        rw [e]
        have gl : (g.flatMap encCapTLV).length = groupLen g := rfl
        generalize encParams true t = rest at *
        simp [walkParams, r, d3, tk, dr', gl, wc, ihh]
        try rw [if_neg (by omega), if_neg (by omega)]

end Exa.Open
