import ExaModel.Lemmas.FlowRule
set_option linter.unusedSimpArgs false
/-! The NLRI level: length prefix (240 switch), route distinguisher, round trip, soundness. -/
namespace Exa.Flow

/-- the length field `lp` announces `n` payload bytes (RFC 8955 §4.1), `hi` as in `splitNlri` -/
def LenField (hi : Nat → Nat) (lp : Bytes) (n : Nat) : Prop :=
  (∃ b, lp = [b] ∧ b / 16 % 16 ≠ 15 ∧ n = b) ∨ (∃ b c, lp = [b, c] ∧ b / 16 % 16 = 15 ∧ n = hi (b % 16) + c)

theorem lengthPrefix_small (n : Nat) (h : n < 240) : lengthPrefix n = [n] := by simp [lengthPrefix, h]
theorem lengthPrefix_big (n : Nat) (h : 240 ≤ n) : lengthPrefix n = [240 + n / 256, n % 256] := by
  simp [lengthPrefix]; omega

theorem wf_lengthPrefix (n : Nat) (h : n < 4096) : WFBytes (lengthPrefix n) := by
  intro b hb
  simp only [lengthPrefix] at hb
  split at hb
  · simp at hb; omega
  · simp at hb; rcases hb with rfl | rfl <;> omega

theorem lenField_lengthPrefix (n : Nat) (h : n < 4096) : LenField rfcHi (lengthPrefix n) n := by
  by_cases hn : n < 240
  · left; exact ⟨n, lengthPrefix_small n hn, by omega, rfl⟩
  · right
    refine ⟨240 + n / 256, n % 256, lengthPrefix_big n (by omega), by omega, ?_⟩
    simp only [rfcHi]; omega

theorem splitNlri_encode (p rest : Bytes) (h : p.length < 4096) :
    splitNlri rfcHi (lengthPrefix p.length ++ p ++ rest) = .ok (p, rest) := by
  by_cases hn : p.length < 240
  · rw [lengthPrefix_small _ hn]
    simp only [List.cons_append, List.nil_append, splitNlri]
    rw [if_neg (by omega), if_neg (by simp)]
    rw [List.take_left', List.drop_left'] <;> rfl
  · rw [lengthPrefix_big _ (by omega)]
    simp only [List.cons_append, List.nil_append, splitNlri]
    rw [if_pos (by omega)]
    have e : rfcHi ((240 + p.length / 256) % 16) + p.length % 256 = p.length := by simp only [rfcHi]; omega
    simp only [e]
    rw [if_neg (by simp)]
    rw [List.take_left', List.drop_left'] <;> rfl

theorem splitNlri_sound (hi : Nat → Nat) (bs p rest : Bytes) (h : splitNlri hi bs = .ok (p, rest)) :
    ∃ lp, bs = lp ++ p ++ rest ∧ LenField hi lp p.length := by
  cases bs with
  | nil => simp [splitNlri] at h
  | cons b t =>
    simp only [splitNlri] at h
    split at h
    · rename_i hb
      cases t with
      | nil => simp at h
      | cons c t2 =>
        simp only at h
        split at h
        · simp at h
        · rename_i hlen
          simp only [Except.ok.injEq, Prod.mk.injEq] at h
          obtain ⟨h1, h2⟩ := h
          subst h1; subst h2
          refine ⟨[b, c], by simp [List.take_append_drop], Or.inr ⟨b, c, rfl, hb, ?_⟩⟩
          simp only [List.length_take]; omega
    · rename_i hb
      split at h
      · simp at h
      · rename_i hlen
        simp only [Except.ok.injEq, Prod.mk.injEq] at h
        obtain ⟨h1, h2⟩ := h
        subst h1; subst h2
        refine ⟨[b], by simp [List.take_append_drop], Or.inl ⟨b, rfl, hb, ?_⟩⟩
        simp only [List.length_take]; omega

theorem nlri_roundtrip' (v6 vpn : Bool) (x : Nlri) (rest : Bytes) (h : WFNlri v6 vpn x) :
    decodeNlri v6 vpn (encodeNlri x ++ rest) = .ok (x, rest) := by
  obtain ⟨hr, hlen, hrd⟩ := h
  simp only [decodeNlri, encodeNlri, splitNlri_encode _ rest hlen]
  cases vpn with
  | false =>
    simp only [Bool.false_eq_true, if_false] at hrd ⊢
    cases x with
    | mk rd rule =>
      simp only at hrd; subst hrd
      simp only [nlriPayload, Option.getD_none, List.nil_append, flow_roundtrip' v6 rule hr]
  | true =>
    simp only [if_true] at hrd ⊢
    obtain ⟨rd, hx, hl⟩ := hrd
    cases x with
    | mk rd' rule =>
      simp only at hx; subst hx
      have hp : nlriPayload ⟨some rd, rule⟩ = rd ++ encodeFlow rule := rfl
      rw [hp]
      rw [if_neg (by simp only [List.length_append]; omega)]
      rw [← hl, List.drop_left', List.take_left', flow_roundtrip' v6 rule hr] <;> rfl

/-- Everything `decodeFlow` accepts is exactly a sequence of complete components of defined
    types in strictly ascending order, and the rule is their meaning. -/
theorem decodeFlow_sound (v6 : Bool) (bs : Bytes) (r : Rule) (h : decodeFlow v6 bs = .ok r) :
    ∃ rc, bs = encodeRaw rc ∧ (∀ c ∈ rc, CompShape v6 rfcP6 c) ∧ ascending (rc.map RawComp.ty) = true ∧
      r = rc.map (interp v6) := by
  simp only [decodeFlow] at h
  split at h
  · simp at h
  · rename_i rc hrc
    split at h
    · rename_i ha
      simp only [Except.ok.injEq] at h
      obtain ⟨e1, e2⟩ := decodeComps_sound _ _ _ _ _ hrc
      exact ⟨rc, e1, e2, ha, h.symm⟩
    · simp at h

theorem decodeNlri_sound (v6 vpn : Bool) (bs : Bytes) (x : Nlri) (rest : Bytes)
    (h : decodeNlri v6 vpn bs = .ok (x, rest)) :
    ∃ lp rdb rc, bs = lp ++ (rdb ++ encodeRaw rc) ++ rest ∧ LenField rfcHi lp (rdb ++ encodeRaw rc).length ∧
      (if vpn then rdb.length = 8 ∧ x.rd = some rdb else rdb = [] ∧ x.rd = none) ∧
      (∀ c ∈ rc, CompShape v6 rfcP6 c) ∧ ascending (rc.map RawComp.ty) = true ∧ x.rule = rc.map (interp v6) := by
  simp only [decodeNlri] at h
  split at h
  · simp at h
  · rename_i payload rest' hsplit
    obtain ⟨lp, hbs, hlf⟩ := splitNlri_sound _ _ _ _ hsplit
    cases vpn with
    | false =>
      simp only [Bool.false_eq_true, if_false] at h ⊢
      split at h
      · simp at h
      · rename_i r hr
        simp only [Except.ok.injEq, Prod.mk.injEq] at h
        obtain ⟨h1, h2⟩ := h
        subst h1; subst h2
        obtain ⟨rc, e1, e2, e3, e4⟩ := decodeFlow_sound _ _ _ hr
        refine ⟨lp, [], rc, ?_, ?_, ⟨rfl, rfl⟩, e2, e3, e4⟩
        · simp only [List.nil_append]; rw [← e1]; exact hbs
        · simp only [List.nil_append]; rw [← e1]; exact hlf
    | true =>
      simp only [if_true] at h ⊢
      split at h
      · simp at h
      · rename_i hlen
        split at h
        · simp at h
        · rename_i r hr
          simp only [Except.ok.injEq, Prod.mk.injEq] at h
          obtain ⟨h1, h2⟩ := h
          subst h1; subst h2
          obtain ⟨rc, e1, e2, e3, e4⟩ := decodeFlow_sound _ _ _ hr
          have hp : payload = payload.take 8 ++ encodeRaw rc := by rw [← e1, List.take_append_drop]
          refine ⟨lp, payload.take 8, rc, ?_, ?_, ⟨?_, rfl⟩, e2, e3, e4⟩
          · rw [← hp]; exact hbs
          · rw [← hp]; exact hlf
          · simp only [List.length_take]; omega

end Exa.Flow
