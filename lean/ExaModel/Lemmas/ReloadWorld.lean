import ExaModel.Lemmas.ReloadSess
set_option linter.unusedSimpArgs false
/-! World-level plumbing of M-Reload: what `Reactor.reload()` leaves under ONE neighbor name
    (the reload folds over all neighbors; neighbors of other names do not touch it). -/
namespace Exa.Reload
open Exa Exa.Rib

/-! ### association lists -/

theorem insert_same_gen {β : Type} {l : AList Nat β} {k : Nat} {v : β} (h : AList.lookup k l = some v) :
    AList.insert k v l = l := by
  induction l with
  | nil => simp [AList.lookup] at h
  | cons hd t ih =>
    obtain ⟨k₁, v₁⟩ := hd
    by_cases hk : k₁ = k
    · subst hk; simp [AList.lookup] at h; subst h; simp [AList.insert]
    · simp [AList.lookup, hk] at h; simp [AList.insert, hk, ih h]

theorem lookup_filter_key {β : Type} (q : Nat → Bool) (l : AList Nat β) (a : Nat) :
    AList.lookup a (l.filter (fun p => q p.1)) = if q a then AList.lookup a l else none := by
  induction l with
  | nil => simp [AList.lookup]
  | cons hd t ih =>
    obtain ⟨k, v⟩ := hd
    by_cases hk : k = a
    · subst hk
      by_cases hq : q k = true
      · simp [List.filter_cons, hq, AList.lookup]
      · have hq' : q k = false := by simpa using hq
        simp only [List.filter_cons, hq', Bool.false_eq_true, if_false, ih]
    · by_cases hq : q k = true
      · simp only [List.filter_cons, hq, if_true, AList.lookup, hk, if_false, ih]
      · have hq' : q k = false := by simpa using hq
        simp only [List.filter_cons, hq', Bool.false_eq_true, if_false, AList.lookup, hk, ih]

/-! ### finding the section of a name -/

def byName (a : Nat) (x : Nbr) : Bool := x.name == a

theorem find_none (ns : List Nbr) (a : Nat) (h : a ∉ ns.map Nbr.name) : ns.find? (byName a) = none := by
  apply List.find?_eq_none.2
  intro x hx hb
  simp only [byName, beq_iff_eq] at hb
  exact h (List.mem_map.2 ⟨x, hx, hb⟩)

theorem find_nodup (ns : List Nbr) (hn : (ns.map Nbr.name).Nodup) (n : Nbr) (hm : n ∈ ns) :
    ns.find? (byName n.name) = some n := by
  induction ns with
  | nil => cases hm
  | cons x t ih =>
    simp only [List.map_cons, List.nodup_cons] at hn
    rcases List.mem_cons.1 hm with e | e
    · subst e; simp [List.find?_cons, byName]
    · have hne : x.name ≠ n.name := fun e' => hn.1 (e' ▸ List.mem_map.2 ⟨n, e, rfl⟩)
      have hb : byName n.name x = false := by simp [byName, hne]
      rw [List.find?_cons, hb]
      exact ih hn.2 e

/-! ### stage (b): parsing all neighbors -/

theorem parseAll_fields (ns : List Nbr) (w : World) :
    (parseAll w ns).nbrs = w.nbrs ∧ (parseAll w ns).peers = w.peers ∧ (parseAll w ns).procs = w.procs ∧
    (parseAll w ns).pending = w.pending := by
  induction ns generalizing w with
  | nil => exact ⟨rfl, rfl, rfl, rfl⟩
  | cons x t ih =>
    simp only [parseAll, List.foldl_cons] at ih ⊢
    obtain ⟨h1, h2, h3, h4⟩ := ih (parseNbr w x)
    exact ⟨h1, h2, h3, h4⟩

theorem parseAll_ribs (ns : List Nbr) (w : World) (a : Nat) (hn : (ns.map Nbr.name).Nodup) :
    AList.lookup a (parseAll w ns).ribs
      = match ns.find? (byName a) with
        | some n => some (parseSess (AList.lookup a w.ribs) n)
        | none => AList.lookup a w.ribs := by
  induction ns generalizing w with
  | nil => rfl
  | cons x t ih =>
    simp only [List.map_cons, List.nodup_cons] at hn
    have := ih (parseNbr w x) hn.2
    simp only [parseAll, List.foldl_cons] at this ⊢
    rw [this]
    by_cases hx : x.name = a
    · subst hx
      rw [find_none t x.name hn.1]
      simp [List.find?_cons, byName, parseNbr]
    · have hb : byName a x = false := by simp [byName, hx]
      have hx' : a ≠ x.name := fun e => hx e.symm
      rw [List.find?_cons, hb]
      simp only [parseNbr, AList.lookup_insert_ne hx']

/-! ### `configuration.neighbors` of the new configuration -/

def KeyName (d : AList Nat Nbr) : Prop := ∀ p ∈ d, p.2.name = p.1

theorem toDict_aux (ns : List Nbr) (d : AList Nat Nbr) (a : Nat) (hn : (ns.map Nbr.name).Nodup) :
    AList.lookup a (ns.foldl (fun d n => AList.insert n.name n d) d)
      = match ns.find? (byName a) with
        | some n => some n
        | none => AList.lookup a d := by
  induction ns generalizing d with
  | nil => rfl
  | cons x t ih =>
    simp only [List.map_cons, List.nodup_cons] at hn
    simp only [List.foldl_cons]
    rw [ih _ hn.2]
    by_cases hx : x.name = a
    · subst hx
      rw [find_none t x.name hn.1]
      simp [List.find?_cons, byName]
    · have hb : byName a x = false := by simp [byName, hx]
      have hx' : a ≠ x.name := fun e => hx e.symm
      rw [List.find?_cons, hb]
      simp only [AList.lookup_insert_ne hx']

theorem toDict_lookup (ns : List Nbr) (hn : (ns.map Nbr.name).Nodup) (n : Nbr) (hm : n ∈ ns) :
    AList.lookup n.name (toDict ns) = some n := by
  unfold toDict
  rw [toDict_aux ns [] n.name hn, find_nodup ns hn n hm]

theorem toDict_wf_aux (ns : List Nbr) (d : AList Nat Nbr) (h1 : AList.NodupKeys d) (h2 : KeyName d) :
    AList.NodupKeys (ns.foldl (fun d n => AList.insert n.name n d) d) ∧
    KeyName (ns.foldl (fun d n => AList.insert n.name n d) d) := by
  induction ns generalizing d with
  | nil => exact ⟨h1, h2⟩
  | cons x t ih =>
    simp only [List.foldl_cons]
    apply ih _ (AList.nodup_insert h1)
    intro p hp
    rcases AList.mem_insert hp with e | e
    · subst e; rfl
    · exact h2 p e

theorem toDict_wf (ns : List Nbr) : AList.NodupKeys (toDict ns) ∧ KeyName (toDict ns) :=
  toDict_wf_aux ns [] (by simp [AList.NodupKeys, AList.keys]) (by intro p hp; cases hp)

theorem values_names (d : AList Nat Nbr) (h : KeyName d) : (AList.values d).map Nbr.name = AList.keys d := by
  induction d with
  | nil => rfl
  | cons hd t ih =>
    simp only [AList.values, AList.keys, List.map_cons, List.map_map] at ih ⊢
    rw [h hd List.mem_cons_self]
    congr 1
    simpa [List.map_map] using ih (fun p hp => h p (List.mem_cons_of_mem _ hp))

/-! ### stage (d): removal, then the per-neighbor decision -/

theorem removePeers_lookup (w : World) (a : Nat) (n : Nbr) (h : AList.lookup a w.nbrs = some n) :
    AList.lookup a (removePeers w).peers = AList.lookup a w.peers ∧
    AList.lookup a (removePeers w).ribs = AList.lookup a w.ribs ∧
    (removePeers w).nbrs = w.nbrs ∧ (removePeers w).procs = w.procs ∧ (removePeers w).pending = w.pending := by
  refine ⟨?_, ?_, rfl, rfl, rfl⟩
  · simp only [removePeers]
    rw [lookup_filter_key (fun k => (AList.lookup k w.nbrs).isSome)]
    simp [h]
  · simp only [removePeers]
    rw [lookup_filter_key (fun k => !((AList.keys w.peers).filter (fun k => (AList.lookup k w.nbrs).isNone)).contains k)]
    have : ((AList.keys w.peers).filter (fun k => (AList.lookup k w.nbrs).isNone)).contains a = false := by
      cases hc : ((AList.keys w.peers).filter (fun k => (AList.lookup k w.nbrs).isNone)).contains a with
      | false => rfl
      | true =>
        have := (List.mem_filter.1 (List.contains_iff_mem.1 hc)).2
        rw [h] at this; cases this
    rw [this]; rfl

theorem decideOne_fields (prevs : AList Nat Nbr) (w : World) (n : Nbr) :
    (decideOne prevs w n).nbrs = w.nbrs ∧ (decideOne prevs w n).procs = w.procs ∧
    (decideOne prevs w n).pending = w.pending := ⟨rfl, rfl, rfl⟩

theorem decideOne_other (prevs : AList Nat Nbr) (w : World) (n : Nbr) (a : Nat) (h : n.name ≠ a) :
    AList.lookup a (decideOne prevs w n).peers = AList.lookup a w.peers ∧
    AList.lookup a (decideOne prevs w n).ribs = AList.lookup a w.ribs := by
  have h' : a ≠ n.name := fun e => h e.symm
  refine ⟨?_, ?_⟩
  · simp only [decideOne, AList.lookup_insert_ne h']
  · simp only [decideOne]
    split
    · rw [AList.lookup_insert_ne h']
    · rfl

/-- What the decision leaves under the name it is about. -/
def decided (prevs : AList Nat Nbr) (n : Nbr) (p : Option PeerSt) (s : Option Sess) : Option PeerSt × Option Sess :=
  let r := decidePeer ((AList.lookup n.name prevs).map Nbr.plain) n p s
  (some r.1, match r.2 with | some s' => some s' | none => s)

theorem decideOne_self (prevs : AList Nat Nbr) (w : World) (n : Nbr) :
    (AList.lookup n.name (decideOne prevs w n).peers, AList.lookup n.name (decideOne prevs w n).ribs)
      = decided prevs n (AList.lookup n.name w.peers) (AList.lookup n.name w.ribs) := by
  simp only [decideOne, decided, AList.lookup_insert_self]
  split <;> simp_all

theorem decideFold_fields (prevs : AList Nat Nbr) (l : List Nbr) (w : World) :
    (l.foldl (decideOne prevs) w).nbrs = w.nbrs ∧ (l.foldl (decideOne prevs) w).procs = w.procs ∧
    (l.foldl (decideOne prevs) w).pending = w.pending := by
  induction l generalizing w with
  | nil => exact ⟨rfl, rfl, rfl⟩
  | cons x t ih => simp only [List.foldl_cons]; exact ih (decideOne prevs w x)

theorem decideFold (prevs : AList Nat Nbr) (l : List Nbr) (w : World) (a : Nat) (hn : (l.map Nbr.name).Nodup) :
    (AList.lookup a (l.foldl (decideOne prevs) w).peers, AList.lookup a (l.foldl (decideOne prevs) w).ribs)
      = match l.find? (byName a) with
        | some n => decided prevs n (AList.lookup a w.peers) (AList.lookup a w.ribs)
        | none => (AList.lookup a w.peers, AList.lookup a w.ribs) := by
  induction l generalizing w with
  | nil => rfl
  | cons x t ih =>
    simp only [List.map_cons, List.nodup_cons] at hn
    simp only [List.foldl_cons]
    rw [ih _ hn.2]
    by_cases hx : x.name = a
    · subst hx
      rw [find_none t x.name hn.1]
      simp only [List.find?_cons, byName, beq_self_eq_true]
      exact decideOne_self prevs w x
    · have hb : byName a x = false := by simp [byName, hx]
      rw [List.find?_cons, hb]
      obtain ⟨h1, h2⟩ := decideOne_other prevs w x a hx
      rw [h1, h2]

/-! ### `Reactor.reload()` on a valid configuration, seen from one neighbor name -/

/-- The world `Configuration.reload()` leaves when the file is valid and `_attach` was empty. -/
def committed (w : World) (c : Config) : World :=
  { parseAll { w with procs := [], nbrs := [] } c.nbrs with procs := c.procs, nbrs := toDict c.nbrs }

theorem parseAll_setPending (ns : List Nbr) (u : World) (l : List Nbr) :
    parseAll { u with pending := l } ns = { parseAll u ns with pending := l } := by
  induction ns generalizing u with
  | nil => rfl
  | cons x t ih =>
    simp only [parseAll, List.foldl_cons] at ih ⊢
    exact ih (parseNbr u x)

theorem cfgReload_ok (w : World) (c : Config) (hp : w.pending = []) :
    cfgReload w c none = (committed w c, true) := by
  obtain ⟨procs, nbrs, ribs, peers, pending⟩ := w
  simp only at hp
  subst hp
  have key : parseAll ⟨[], [], ribs, peers, c.nbrs⟩ c.nbrs
      = { parseAll ⟨[], [], ribs, peers, []⟩ c.nbrs with pending := c.nbrs } :=
    parseAll_setPending c.nbrs ⟨[], [], ribs, peers, []⟩ c.nbrs
  have q4 : (parseAll ⟨[], [], ribs, peers, []⟩ c.nbrs).pending = [] := (parseAll_fields c.nbrs _).2.2.2
  simp only [cfgReload, clearStage, parseStage, attachRibs, committed, List.nil_append, key, q4]

theorem reactorReload_ok (w : World) (c : Config) (hp : w.pending = [])
    (hnodup : (c.nbrs.map Nbr.name).Nodup) (n : Nbr) (hn : n ∈ c.nbrs) :
    (reactorReload w c none).2 = true ∧
    (AList.lookup n.name (reactorReload w c none).1.peers, AList.lookup n.name (reactorReload w c none).1.ribs)
      = decided w.nbrs n (AList.lookup n.name w.peers) (some (parseSess (AList.lookup n.name w.ribs) n)) ∧
    AList.lookup n.name (reactorReload w c none).1.nbrs = some n := by
  -- the world `_clear()` leaves: same RIBs and peers
  let w0 : World := { w with procs := [], nbrs := [] }
  obtain ⟨_, pf2, _, _⟩ := parseAll_fields c.nbrs w0
  have hcfg : cfgReload w c none
      = ({ parseAll w0 c.nbrs with procs := c.procs, nbrs := toDict c.nbrs }, true) := cfgReload_ok w c hp
  have hlk : AList.lookup n.name (toDict c.nbrs) = some n := toDict_lookup c.nbrs hnodup n hn
  obtain ⟨wf1, wf2⟩ := toDict_wf c.nbrs
  have hvals : ((AList.values (toDict c.nbrs)).map Nbr.name).Nodup := by
    rw [values_names _ wf2]; exact wf1
  have hmem : n ∈ AList.values (toDict c.nbrs) :=
    List.mem_map.2 ⟨(n.name, n), AList.mem_of_lookup hlk, rfl⟩
  -- the world after configuration.reload()
  let w1 : World := { parseAll w0 c.nbrs with procs := c.procs, nbrs := toDict c.nbrs }
  have hw1n : AList.lookup n.name w1.nbrs = some n := hlk
  obtain ⟨r1, r2, r3, _, _⟩ := removePeers_lookup w1 n.name n hw1n
  have hres : reactorReload w c none
      = ((AList.values (removePeers w1).nbrs).foldl (decideOne w.nbrs) (removePeers w1), true) := by
    simp only [reactorReload, hcfg, if_true, w1]
  rw [hres]
  obtain ⟨f1, _, _⟩ := decideFold_fields w.nbrs (AList.values (removePeers w1).nbrs) (removePeers w1)
  refine ⟨rfl, ?_, ?_⟩
  · simp only
    rw [decideFold w.nbrs _ (removePeers w1) n.name (by rw [r3]; exact hvals)]
    rw [r3, find_nodup _ hvals n hmem]
    simp only
    rw [r1, r2]
    have hp' : AList.lookup n.name w1.peers = AList.lookup n.name w.peers := by
      show AList.lookup n.name (parseAll w0 c.nbrs).peers = _
      rw [pf2]
    have hr : AList.lookup n.name w1.ribs = some (parseSess (AList.lookup n.name w.ribs) n) := by
      show AList.lookup n.name (parseAll w0 c.nbrs).ribs = _
      rw [parseAll_ribs c.nbrs w0 n.name hnodup, find_nodup c.nbrs hnodup n hn]
    rw [hp', hr]
  · simp only; rw [f1, r3]; exact hlk

/-- `_attach` is empty after every reload that got as far as `_clear()` (commit and abort both
    empty it), and after any reload at all if it was empty before. -/
theorem reload_pending (w : World) (c : Config) (f : Option Fault)
    (h : f = some .missingFile → w.pending = []) : (reactorReload w c f).1.pending = [] := by
  cases f with
  | none =>
    simp only [reactorReload, cfgReload, clearStage, parseStage, attachRibs, if_true]
    rw [(decideFold_fields _ _ _).2.2]
    rfl
  | some f =>
    cases f with
    | missingFile => simpa [reactorReload, cfgReload] using h rfl
    | firstLine => simp [reactorReload, cfgReload, clearStage, parseStage, abortStage]
    | «syntax» k => simp [reactorReload, cfgReload, clearStage, parseStage, abortStage]
    | «exception» k => simp [reactorReload, cfgReload, clearStage, parseStage, abortStage]

/-- A neighbor that a successful reload removes leaves nothing under its name: no peer, no RIB
    (`Peer.remove()` → `stop()` → `rib.uncache()`), no configured section. -/
theorem removed_leaves_nothing (w : World) (c : Config) (hp : w.pending = []) (a : Nat)
    (hnodup : (c.nbrs.map Nbr.name).Nodup) (ha : a ∉ c.nbrs.map Nbr.name)
    (hpeer : (AList.lookup a w.peers).isSome = true) :
    AList.lookup a (reactorReload w c none).1.peers = none ∧
    AList.lookup a (reactorReload w c none).1.ribs = none ∧
    AList.lookup a (reactorReload w c none).1.nbrs = none := by
  let w0 : World := { w with procs := [], nbrs := [] }
  let w1 : World := { parseAll w0 c.nbrs with procs := c.procs, nbrs := toDict c.nbrs }
  have hcfg : cfgReload w c none = (w1, true) := cfgReload_ok w c hp
  obtain ⟨wf1, wf2⟩ := toDict_wf c.nbrs
  have hvals : ((AList.values (toDict c.nbrs)).map Nbr.name).Nodup := by
    rw [values_names _ wf2]; exact wf1
  have hnl : AList.lookup a (toDict c.nbrs) = none := by
    unfold toDict
    rw [toDict_aux c.nbrs [] a hnodup, find_none c.nbrs a ha]; rfl
  have hres : reactorReload w c none
      = ((AList.values (removePeers w1).nbrs).foldl (decideOne w.nbrs) (removePeers w1), true) := by
    simp only [reactorReload, hcfg, if_true]
  have hkeys : a ∉ (AList.values (toDict c.nbrs)).map Nbr.name := by
    rw [values_names _ wf2]
    exact AList.lookup_eq_none_iff.1 hnl
  have hfold := decideFold w.nbrs (AList.values (removePeers w1).nbrs) (removePeers w1) a
    (by show ((AList.values (toDict c.nbrs)).map Nbr.name).Nodup; exact hvals)
  rw [show (removePeers w1).nbrs = toDict c.nbrs from rfl, find_none _ a hkeys] at hfold
  obtain ⟨hf1, hf2⟩ := Prod.mk.inj hfold
  have hpeers1 : AList.lookup a w1.peers = AList.lookup a w.peers := by
    show AList.lookup a (parseAll w0 c.nbrs).peers = _
    rw [(parseAll_fields c.nbrs w0).2.1]
  have hin : a ∈ AList.keys w1.peers := by
    cases hl : AList.lookup a w1.peers with
    | none => rw [hpeers1] at hl; rw [hl] at hpeer; cases hpeer
    | some p =>
      have := AList.mem_of_lookup hl
      exact List.mem_map.2 ⟨(a, p), this, rfl⟩
  rw [hres]
  refine ⟨?_, ?_, ?_⟩
  · show AList.lookup a ((AList.values (removePeers w1).nbrs).foldl (decideOne w.nbrs) (removePeers w1)).peers = none
    rw [show (removePeers w1).nbrs = toDict c.nbrs from rfl, hf1]
    simp only [removePeers]
    rw [lookup_filter_key (fun k => (AList.lookup k w1.nbrs).isSome)]
    have : AList.lookup a w1.nbrs = none := hnl
    simp [this]
  · show AList.lookup a ((AList.values (removePeers w1).nbrs).foldl (decideOne w.nbrs) (removePeers w1)).ribs = none
    rw [show (removePeers w1).nbrs = toDict c.nbrs from rfl, hf2]
    simp only [removePeers]
    rw [lookup_filter_key (fun k => !((AList.keys w1.peers).filter (fun k => (AList.lookup k w1.nbrs).isNone)).contains k)]
    have hc : ((AList.keys w1.peers).filter (fun k => (AList.lookup k w1.nbrs).isNone)).contains a = true := by
      apply List.contains_iff_mem.2
      apply List.mem_filter.2
      refine ⟨hin, ?_⟩
      have : AList.lookup a w1.nbrs = none := hnl
      simp [this]
    rw [hc]; rfl
  · show AList.lookup a ((AList.values (removePeers w1).nbrs).foldl (decideOne w.nbrs) (removePeers w1)).nbrs = none
    rw [(decideFold_fields _ _ _).1]
    exact hnl

/-! ### re-committing a section that is already live changes nothing -/

/-- Neighbor section `n` is already live in `w` with exactly these routes: parsing it again
    changes nothing. -/
def Settled (w : World) (n : Nbr) : Prop :=
  ∃ s, AList.lookup n.name w.ribs = some s ∧ s.rib.families = n.fams ∧ FamOK s.rib ∧ n.adjOut = true ∧
    ∀ cr ∈ n.routes, n.fams.contains cr.r.fam = true → cr.wd = none ∧ s.rib.inCache cr.r = true

theorem run_noop (s : Sess) (crs : List CRoute)
    (h : ∀ cr ∈ crs, cr.wd = none ∧ s.rib.inCache cr.r = true) : (s.run (crs.map insertOp)).1 = s := by
  induction crs with
  | nil => rfl
  | cons cr t ih =>
    obtain ⟨h1, h2⟩ := h cr List.mem_cons_self
    have hstep : (s.step (insertOp cr)).1 = s := by
      simp only [insertOp, h1, Sess.step, Rib.add, h2, Bool.not_false, Bool.true_and, if_true]
    simp only [List.map_cons, Sess.run, hstep]
    exact ih (fun c hc => h c (List.mem_cons_of_mem _ hc))

theorem parseNbr_settled (w : World) (n : Nbr) (h : Settled w n) : parseNbr w n = w := by
  obtain ⟨s, hl, hf, hok, ha, hr⟩ := h
  have hp : parseSess (AList.lookup n.name w.ribs) n = s := by
    rw [hl]
    simp only [parseSess, attach_same s n hf hok ha, insertOps]
    apply run_noop
    intro cr hcr
    obtain ⟨h1, h2⟩ := List.mem_filter.1 hcr
    exact hr cr h1 h2
  simp only [parseNbr, hp, insert_same_gen hl]

theorem parseAll_settled (w : World) (ns : List Nbr) (h : ∀ n ∈ ns, Settled w n) : parseAll w ns = w := by
  induction ns with
  | nil => rfl
  | cons x t ih =>
    simp only [parseAll, List.foldl_cons, parseNbr_settled w x (h x List.mem_cons_self)]
    exact ih (fun n hn => h n (List.mem_cons_of_mem _ hn))

end Exa.Reload
