import ExaModel.Model.Fields
set_option linter.unusedSimpArgs false
/-! Helper lemmas for M-Fields: big-endian integers of any width, the generic `Layout`
    round trip, and the AS_PATH segment split.  Core Lean only. -/
namespace Exa.Fields
open Exa

theorem beN_length (n v : Nat) : (beN n v).length = n := by
  induction n generalizing v with
  | zero => rfl
  | succ n ih => simp [beN, ih]

theorem wf_beN (n v : Nat) : WFBytes (beN n v) := by
  induction n generalizing v with
  | zero => intro b hb; cases hb
  | succ n ih =>
    simp only [beN]
    apply wfBytes_append (ih _)
    intro b hb; simp at hb; subst hb; omega

theorem rdN_append_single (bs : Bytes) (b : Nat) : rdN (bs ++ [b]) = rdN bs * 256 + b := by
  simp [rdN, List.foldl_append]

theorem rdN_beN (n v : Nat) : rdN (beN n v) = v % 256 ^ n := by
  induction n generalizing v with
  | zero => simp [beN, rdN, Nat.mod_one]
  | succ n ih =>
    simp only [beN, rdN_append_single, ih]
    have h : v % (256 * 256 ^ n) = v % 256 + 256 * (v / 256 % 256 ^ n) := Nat.mod_mul
    rw [Nat.pow_succ, Nat.mul_comm (256 ^ n) 256, h]
    omega

theorem rdN_foldl_lt (bs : Bytes) (h : WFBytes bs) (acc : Nat) :
    bs.foldl (fun a b => a * 256 + b) acc < (acc + 1) * 256 ^ bs.length := by
  induction bs generalizing acc with
  | nil => simp
  | cons b t ih =>
    have hb : b < 256 := h b List.mem_cons_self
    have ht : WFBytes t := fun x hx => h x (List.mem_cons_of_mem _ hx)
    have := ih ht (acc * 256 + b)
    simp only [List.foldl_cons, List.length_cons]
    have h1 : (acc * 256 + b + 1) ≤ (acc + 1) * 256 := by omega
    have h2 : (acc * 256 + b + 1) * 256 ^ t.length ≤ (acc + 1) * 256 * 256 ^ t.length :=
      Nat.mul_le_mul_right _ h1
    have h3 : (acc + 1) * 256 * 256 ^ t.length = (acc + 1) * 256 ^ (t.length + 1) := by
      rw [Nat.pow_succ, Nat.mul_assoc, Nat.mul_comm 256]
    omega

theorem rdN_lt (bs : Bytes) (h : WFBytes bs) : rdN bs < 256 ^ bs.length := by
  have := rdN_foldl_lt bs h 0
  simpa [rdN] using this

namespace Layout

theorem wf_iff (l : Layout) : l.wf = true ↔
    0 < l.mul ∧ l.add < l.mul ∧ 0 < l.limit ∧ l.limit ≤ l.modulus ∧ (l.limit - 1) * l.mul + l.add < 256 ^ l.width := by
  simp [wf, and_assoc]

theorem encode_length (l : Layout) (v : Nat) : (l.encode v).length = l.width := beN_length _ _

theorem encode_wfBytes (l : Layout) (v : Nat) : WFBytes (l.encode v) := wf_beN _ _

theorem raw_lt (l : Layout) (hw : l.wf = true) (v : Nat) (hv : v < l.limit) :
    v * l.mul + l.add < 256 ^ l.width := by
  obtain ⟨_, _, _, _, h5⟩ := (wf_iff l).1 hw
  have : v * l.mul ≤ (l.limit - 1) * l.mul := Nat.mul_le_mul_right _ (by omega)
  omega

theorem roundtrip (l : Layout) (hw : l.wf = true) (v : Nat) (hv : l.fits v = true) :
    l.decode (l.encode v) = v := by
  have hv' : v < l.limit := by simpa [fits] using hv
  obtain ⟨h1, h2, _, h4, _⟩ := (wf_iff l).1 hw
  have hraw := raw_lt l hw v hv'
  simp only [decode, encode, rdN_beN, Nat.mod_eq_of_lt hraw]
  have hdiv : (v * l.mul + l.add) / l.mul = v := by
    rw [Nat.mul_comm, Nat.mul_add_div h1, Nat.div_eq_of_lt h2, Nat.add_zero]
  rw [hdiv]
  exact Nat.mod_eq_of_lt (by omega)

theorem encode_valid (l : Layout) (hw : l.wf = true) (v : Nat) (hv : l.fits v = true) :
    l.validWire (l.encode v) = true := by
  have hv' : v < l.limit := by simpa [fits] using hv
  simp [validWire, roundtrip l hw v hv, hv']

theorem nofit (l : Layout) (v : Nat) (hv : l.fits v = false) (bs : Bytes)
    (hvalid : l.validWire bs = true) : l.decode bs ≠ v := by
  have h1 : ¬ v < l.limit := by simpa [fits] using hv
  have h2 : l.decode bs < l.limit := by simpa [validWire] using hvalid
  omega

theorem validWire_of_full (l : Layout) (hw : l.wf = true) (hf : l.full = true) (bs : Bytes)
    (hlen : bs.length = l.width) (hbs : WFBytes bs) : l.validWire bs = true := by
  obtain ⟨_, _, h3, h4, _⟩ := (wf_iff l).1 hw
  have hm : 0 < l.modulus := by omega
  have goal : (rdN bs / l.mul) % l.modulus < l.limit := by
    have hf' : l.modulus ≤ l.limit ∨ (256 ^ l.width - 1) / l.mul < l.limit := by
      simpa [full] using hf
    rcases hf' with hf' | hf'
    · have := Nat.mod_lt (rdN bs / l.mul) hm
      omega
    · have hlt := rdN_lt bs hbs
      rw [hlen] at hlt
      have hle : rdN bs / l.mul ≤ (256 ^ l.width - 1) / l.mul := Nat.div_le_div_right (by omega)
      have := Nat.mod_le (rdN bs / l.mul) l.modulus
      omega
  simp only [validWire, decode]
  exact decide_eq_true goal

end Layout

/-! ## every field's layout is well formed -/

theorem layout_wf (f : Field) : (layout f).wf = true := by
  cases f <;> first | decide | (rename_i s; cases s <;> decide)

/-! ## AS_PATH segment split -/

theorem segSplitAux_sum (fuel n : Nat) (h : n ≤ fuel) : (segSplitAux fuel n).sum = n := by
  induction fuel generalizing n with
  | zero => have : n = 0 := by omega
            subst this; simp [segSplitAux]
  | succ fuel ih =>
    simp only [segSplitAux]
    split
    · simp; omega
    · split
      · simp
      · simp only [List.sum_cons]
        rw [ih (n - 255) (by omega)]; omega

theorem segSplitAux_le (fuel n : Nat) : ∀ x ∈ segSplitAux fuel n, 0 < x ∧ x ≤ 255 := by
  induction fuel generalizing n with
  | zero => intro x hx; simp [segSplitAux] at hx
  | succ fuel ih =>
    intro x hx
    simp only [segSplitAux] at hx
    split at hx
    · simp at hx
    · split at hx
      · simp at hx; subst hx; omega
      · rcases List.mem_cons.1 hx with h | h
        · subst h; omega
        · exact ih _ x h

end Exa.Fields
