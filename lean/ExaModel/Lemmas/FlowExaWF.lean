import ExaModel.Lemmas.FlowExaPack
set_option linter.unusedSimpArgs false
/-! Good text denotes a well-formed rule: `GoodText v6 t → WFRule v6 (toRule v6 t)`. -/
namespace Exa.Flow

/-- every element above `lo`, and strictly ascending -/
def ascFrom (lo : Nat) : List Nat → Prop
  | [] => True
  | a :: t => lo < a ∧ ascFrom a t

theorem ascending_of_ascFrom (lo : Nat) (l : List Nat) (h : ascFrom lo l) : ascending l = true := by
  induction l generalizing lo with
  | nil => rfl
  | cons a t ih =>
    cases t with
    | nil => rfl
    | cons b t' =>
      obtain ⟨_, h2⟩ := h
      have hb : a < b := h2.1
      simp only [ascending, Bool.and_eq_true, decide_eq_true_eq]
      exact ⟨hb, ih a h2⟩

theorem ascFrom_weaken (lo lo' : Nat) (l : List Nat) (hle : lo' ≤ lo) (h : ascFrom lo l) : ascFrom lo' l := by
  cases l with
  | nil => trivial
  | cons a t => exact ⟨by have := h.1; omega, h.2⟩

/-- a flatMap over strictly ascending ids whose pieces are empty or one element of type `id` -/
theorem ascFrom_flatMap (f : Nat → List Comp) (ids : List Nat) (lo : Nat) (hids : ascFrom lo ids)
    (hf : ∀ id ∈ ids, f id = [] ∨ ∃ c, f id = [c] ∧ c.ty = id) :
    ascFrom lo ((ids.flatMap f).map Comp.ty) := by
  induction ids generalizing lo with
  | nil => trivial
  | cons id ids ih =>
    obtain ⟨h1, h2⟩ := hids
    have hrec := ih id h2 (fun x hx => hf x (List.mem_cons_of_mem _ hx))
    rcases hf id List.mem_cons_self with he | ⟨c, hc, hty⟩
    · simp only [List.flatMap_cons, he, List.nil_append]
      exact ascFrom_weaken _ _ _ (by omega) hrec
    · simp only [List.flatMap_cons, hc, List.cons_append, List.nil_append, List.map_cons, hty]
      exact ⟨h1, hrec⟩

theorem termsOf_ne_nil (n : Bool) (ps : List (Nat × Int)) (h : ps ≠ []) : termsOf n ps ≠ [] := by
  cases ps with
  | nil => exact absurd rfl h
  | cons p rest => obtain ⟨f, v⟩ := p; simp [termsOf]

theorem mem_termsOf (n : Bool) (ps : List (Nat × Int)) (t : Term) (h : t ∈ termsOf n ps) :
    ∃ p ∈ ps, ∃ first, t = termOfFlags n first p.1 p.2 := by
  cases ps with
  | nil => simp [termsOf] at h
  | cons p rest =>
    obtain ⟨f, v⟩ := p
    simp only [termsOf, List.mem_cons, List.mem_map] at h
    rcases h with h | ⟨q, hq, hq'⟩
    · exact ⟨(f, v), List.mem_cons_self, true, h⟩
    · exact ⟨q, List.mem_cons_of_mem _ hq, false, hq'.symm⟩

theorem compOfGroup_shape (v6 : Bool) (text : List TComp) (id : Nat) (hg : GoodText v6 text) :
    compOfGroup v6 id (text.filter (fun c => c.ty == id)) = [] ∨
    ∃ c, compOfGroup v6 id (text.filter (fun c => c.ty == id)) = [c] ∧ c.ty = id ∧ WFComp v6 c := by
  generalize hgr : text.filter (fun c => c.ty == id) = g
  have hmem : ∀ c ∈ g, GoodTComp v6 c ∧ c.ty = id := by
    intro c hc; rw [← hgr] at hc
    obtain ⟨h1, h2⟩ := group_mem text id c hc
    exact ⟨hg.comps c h1, h2⟩
  cases g with
  | nil => left; rfl
  | cons c cs =>
    right
    obtain ⟨hgc, hty⟩ := hmem c List.mem_cons_self
    cases c with
    | prefix4 ty addr len =>
      obtain ⟨hv, h12, hlen, _, _⟩ := hgc
      refine ⟨_, rfl, hty, hv, h12, hlen, ?_⟩
      simp only [patOf, Nat.sub_zero]
      exact Nat.mod_lt _ (Nat.pow_pos (by omega))
    | prefix6 ty addr len off =>
      obtain ⟨hv, h12, hlen, hoff, _, _⟩ := hgc
      subst hoff
      refine ⟨_, rfl, hty, hv, h12, ?_, ?_⟩
      · simp only [p6ok, decide_eq_true_eq]
        by_cases h0 : len = 0
        · left; exact ⟨h0, trivial⟩
        · right; omega
      · simp only [patOf, Nat.sub_zero]
        exact Nat.mod_lt _ (Nat.pow_pos (by omega))
    | op ty f v =>
      simp only [TComp.ty] at hty; subst hty
      obtain ⟨hk, _⟩ := hgc
      refine ⟨_, rfl, rfl, hk, ?_, ?_, ?_⟩
      · exact termsOf_ne_nil _ _ (by simp [opPairs])
      · intro t ht
        obtain ⟨p, hp, first, rfl⟩ := mem_termsOf _ _ _ ht
        obtain ⟨ty', hm⟩ := mem_opPairs _ p hp
        obtain ⟨hgx, htx⟩ := hmem _ hm
        simp only [TComp.ty] at htx; subst htx
        obtain ⟨_, v', hv', hlt, _, _, _⟩ := hgx
        refine ⟨?_, ?_⟩
        · simp only [termOfFlags]; simp only at hv'; rw [hv', Int.toNat_natCast]; exact hlt
        · intro hn; simp [termOfFlags, hn]
      · intro t ht
        simp only [opPairs, termsOf, List.take_succ_cons, List.take_zero, List.mem_singleton] at ht
        subst ht
        simp [termOfFlags]

theorem allIds_ascFrom : ascFrom 0 allIds := by
  simp [allIds, ascFrom]

theorem toRule_wf (v6 : Bool) (text : List TComp) (hg : GoodText v6 text) : WFRule v6 (toRule v6 text) := by
  constructor
  · intro c hc
    simp only [toRule, List.mem_flatMap] at hc
    obtain ⟨id, _, hc⟩ := hc
    rcases compOfGroup_shape v6 text id hg with he | ⟨c', hc', _, hwf⟩
    · rw [he] at hc; simp at hc
    · rw [hc'] at hc; simp at hc; subst hc; exact hwf
  · apply ascending_of_ascFrom 0
    apply ascFrom_flatMap _ _ _ allIds_ascFrom
    intro id _
    rcases compOfGroup_shape v6 text id hg with he | ⟨c', hc', hty, _⟩
    · left; exact he
    · right; exact ⟨c', hc', hty⟩

end Exa.Flow
