/-
  M-Attr7606 vs M-Wire, value level: the value decoders of the model of ExaBGP accept every value the reference
  encoder produces for a well-formed attribute (under the side conditions `ExaAccepts`), the lenient segment
  parser reads reference-encoded paths back, and `mergeExa` is `merge6793`.
-/
import ExaModel.Lemmas.Attr7606Top
import ExaModel.Lemmas.WireTlv
import ExaModel.Lemmas.WireMerge
set_option linter.unusedSimpArgs false
set_option linter.unusedVariables false

namespace Exa.Attr7606
open Exa Exa.Wire
open Exa.Generated.AttrTable (Row)

/-! ### AS paths -/

theorem exaParseSegs_cons2 (seg0 w4 : Bool) (f t c : Nat) (r : Bytes) : exaParseSegs seg0 w4 (f + 1) (t :: c :: r) =
    (if t = 0 ∨ t > 4 then none
     else if c = 0 ∧ seg0 = true then none
     else match decAsns w4 c r with
       | none => none
       | some (as, rest) =>
         match exaParseSegs seg0 w4 f rest with
         | none => none
         | some ss => some ((t, as) :: ss)) := rfl

theorem exaSegs_cons2 (seg0 w4 : Bool) (f t c : Nat) (r : Bytes) : exaSegs seg0 w4 (f + 1) (t :: c :: r) =
    (if t = 0 ∨ t > 4 then false
     else if c = 0 ∧ seg0 = true then false
     else match decAsns w4 c r with
       | none => false
       | some (_, rest) => exaSegs seg0 w4 f rest) := rfl

/-- ExaBGP's segment parser reads a reference-encoded well-formed path back. -/
theorem exaParseSegs_encSegs (seg0 w4 : Bool) (segs : List Seg) (h : ∀ s ∈ segs, WFSeg w4 s) (fuel : Nat)
    (hf : (encSegs w4 segs).length ≤ fuel) : exaParseSegs seg0 w4 fuel (encSegs w4 segs) = some segs := by
  induction segs generalizing fuel with
  | nil => cases fuel <;> rfl
  | cons s t ih =>
    obtain ⟨h1, h2, h3, h4, h5⟩ := h s (by simp)
    rw [encSegs_cons] at hf ⊢
    cases fuel with
    | zero => simp at hf
    | succ f =>
      rw [exaParseSegs_cons2]
      have c1 : ¬ (s.1 = 0 ∨ s.1 > 4) := by omega
      have c2 : ¬ (s.2.length = 0 ∧ seg0 = true) := by omega
      rw [if_neg c1, if_neg c2, decAsns_encAsns w4 s.2 h5]
      simp only
      rw [ih (fun x hx => h x (List.mem_cons_of_mem _ hx)) f (by simp at hf; omega)]

theorem exaSegs_encSegs (seg0 w4 : Bool) (segs : List Seg) (h : ∀ s ∈ segs, WFSeg w4 s) (fuel : Nat)
    (hf : (encSegs w4 segs).length ≤ fuel) : exaSegs seg0 w4 fuel (encSegs w4 segs) = true := by
  induction segs generalizing fuel with
  | nil => cases fuel <;> rfl
  | cons s t ih =>
    obtain ⟨h1, h2, h3, h4, h5⟩ := h s (by simp)
    rw [encSegs_cons] at hf ⊢
    cases fuel with
    | zero => simp at hf
    | succ f =>
      rw [exaSegs_cons2]
      have c1 : ¬ (s.1 = 0 ∨ s.1 > 4) := by omega
      have c2 : ¬ (s.2.length = 0 ∧ seg0 = true) := by omega
      rw [if_neg c1, if_neg c2, decAsns_encAsns w4 s.2 h5]
      simp only
      exact ih (fun x hx => h x (List.mem_cons_of_mem _ hx)) f (by simp at hf; omega)

/-! ### the merge -/

theorem countExa_eq (s : List Seg) : countExa s = pathCount s := by
  induction s with
  | nil => rfl
  | cons x t ih => simp [countExa, pathCount, segCount, ih]

theorem keepExa_eq (s : List Seg) (k : Nat) : keepExa k s = takeUnits k s := by
  induction s generalizing k with
  | nil => rfl
  | cons x t ih =>
    unfold keepExa takeUnits
    by_cases h2 : x.1 = 2
    · simp only [h2, if_true]
      by_cases hl : x.2.length ≤ k
      · simp [hl, ih]
      · simp only [hl, if_false]
        by_cases hk : k = 0
        · simp [hk]
        · simp only [hk, ne_eq, not_false_eq_true, if_true, if_false]
    · by_cases h1 : x.1 = 1
      · by_cases hk : k = 0 <;> simp [h2, h1, hk, ih]
      · simp [h2, h1, ih]

/-- The model of ExaBGP's `merge_attributes` (as repaired by 72add9c) IS the RFC 6793 §4.2.3 reference merge. -/
theorem mergeExa_eq_merge6793 (as2 as4 : List Seg) : mergeExa as2 as4 = merge6793 as2 as4 := by
  unfold mergeExa merge6793 plainSegs
  rw [countExa_eq, countExa_eq, keepExa_eq]

end Exa.Attr7606

namespace Exa.Attr7606
open Exa Exa.Wire
open Exa.Generated.AttrTable (Row)

/-! ### value decoders on reference-encoded values -/

/-- What the value decoders of ExaBGP ask of a well-formed value beyond the reference's `WFVal`: MP families
    negotiated, no RFC 8950 next hops negotiated (outside the model), a next-hop length the family allows, a zero
    route distinguisher in a VPN next hop, at least one NLRI in MP_REACH_NLRI. Unrecognised attributes and
    families outside AFI 1/2 × SAFI 1, 2, 4, 128 are not decoded by value at all. -/
def ValAccepts (xp : XP) : AttrVal → Prop
  | .mpReach afi safi nh ns =>
      xp.families.contains (afi, safi) = true ∧ xp.p.extnh = [] ∧ nhLenOk xp.p afi safi nh.length = true ∧
      (safi = 128 → sumBytes (nh.take 8) = 0) ∧ ns ≠ []
  | .mpUnreach afi safi _ => xp.families.contains (afi, safi) = true
  | .mpReachRaw .. => False
  | .mpUnreachRaw .. => False
  | .unknown .. => False
  | _ => True

theorem encNlris_ne_nil (safi : Nat) (wd : Bool) (ns : List Nlri) (h : ns ≠ []) : 0 < (encNlris safi wd ns).length := by
  cases ns with
  | nil => exact absurd rfl h
  | cons n t => simp [encNlris, encNlri]; omega

theorem mpSize_supported (p : Params) (afi safi len : Nat) (hs : supported afi safi = true) (hx : p.extnh = [])
    (hl : nhLenOk p afi safi len = true) :
    ∃ lens rd, mpSize afi safi = some (lens, rd) ∧ lens.contains len = true ∧ (rd ≠ 0 → safi = 128 ∧ 8 ≤ len) := by
  simp only [supported, Bool.and_eq_true, Bool.or_eq_true, beq_iff_eq] at hs
  obtain ⟨ha, hsf⟩ := hs
  simp only [nhLenOk, hx] at hl
  rcases ha with ha | ha <;> rcases hsf with ((hsf | hsf) | hsf) | hsf <;> subst ha <;> subst hsf <;>
    refine ⟨_, _, rfl, ?_, ?_⟩ <;> simp_all <;> omega

theorem valOutcome_enc (fx : Fix) (xp : XP) (v : AttrVal) (hwf : WFVal xp.p v) (hacc : ValAccepts xp v) :
    valOutcome fx xp v.code (encVal xp.p v) = .ok := by
  cases v with
  | origin o => simp [WFVal] at hwf; simp [valOutcome, AttrVal.code, encVal]; omega
  | asPath segs =>
    simp only [WFVal] at hwf
    simp only [valOutcome, AttrVal.code, encVal]
    simp [exaSegs_encSegs fx.seg0 xp.p.asn4 segs hwf _ (Nat.le_refl _)]
  | nextHop ip => simp [valOutcome, AttrVal.code, encVal]
  | med m => simp [valOutcome, AttrVal.code, encVal]
  | localPref m => simp [valOutcome, AttrVal.code, encVal]
  | atomicAggregate => simp [valOutcome, AttrVal.code, encVal]
  | aggregator asn ip => cases h4 : xp.p.asn4 <;> simp [valOutcome, AttrVal.code, encVal, encAsn, h4]
  | communities cs => simp [valOutcome, AttrVal.code, encVal, encAsns_length]
  | originatorId ip => simp [valOutcome, AttrVal.code, encVal]
  | clusterList ids => simp [valOutcome, AttrVal.code, encVal, encAsns_length]
  | extCommunities cs => simp [valOutcome, AttrVal.code, encVal, encAsns_length, flat2_length]; omega
  | as4Path segs =>
    simp only [WFVal] at hwf
    simp only [valOutcome, AttrVal.code, encVal]
    simp [exaSegs_encSegs fx.seg0 true segs hwf _ (Nat.le_refl _)]
  | as4Aggregator asn ip => simp [valOutcome, AttrVal.code, encVal]
  | largeCommunities cs => simp [valOutcome, AttrVal.code, encVal, encAsns_length, flat3_length]; omega
  | mpReachRaw afi safi nh raw => exact absurd hacc id
  | mpUnreachRaw afi safi raw => exact absurd hacc id
  | unknown c raw => exact absurd hacc id
  | mpUnreach afi safi ns =>
    simp only [WFVal] at hwf
    simp only [ValAccepts] at hacc
    obtain ⟨ha, _⟩ := supported_bounds afi safi hwf.1
    have e2 : (be16 afi ++ (safi :: encNlris safi true ns)).getD 2 0 = safi := by simp [be16]
    simp only [valOutcome, AttrVal.code, encVal]
    simp only [exaMpUnreach, e2, rd16_be16 afi ha, hacc]
    simp
    omega
  | mpReach afi safi nh ns =>
    simp only [WFVal] at hwf
    obtain ⟨hs, hnh, _⟩ := hwf
    simp only [ValAccepts] at hacc
    obtain ⟨hfam, hx, hlen, hrd, hne⟩ := hacc
    obtain ⟨ha, _⟩ := supported_bounds afi safi hs
    obtain ⟨lens, rd, hms, hlc, hrdz⟩ := mpSize_supported xp.p afi safi nh.length hs hx hlen
    have hpos := encNlris_ne_nil safi false ns hne
    have e3 : (be16 afi ++ (safi :: nh.length :: (nh ++ 0 :: encNlris safi false ns))).getD 3 0 = nh.length := by
      simp [be16]
    have e2 : (be16 afi ++ (safi :: nh.length :: (nh ++ 0 :: encNlris safi false ns))).getD 2 0 = safi := by
      simp [be16]
    have el : (be16 afi ++ (safi :: nh.length :: (nh ++ 0 :: encNlris safi false ns))).length =
        5 + nh.length + (encNlris safi false ns).length := by
      simp; omega
    have d4 : (be16 afi ++ (safi :: nh.length :: (nh ++ 0 :: encNlris safi false ns))).drop 4 =
        nh ++ 0 :: encNlris safi false ns := by simp [be16]
    have er : (be16 afi ++ (safi :: nh.length :: (nh ++ 0 :: encNlris safi false ns))).getD (4 + nh.length) 0 = 0 := by
      have : (be16 afi ++ (safi :: nh.length :: (nh ++ 0 :: encNlris safi false ns))) =
          ([afi / 256 % 256, afi % 256, safi, nh.length] ++ nh) ++ (0 :: encNlris safi false ns) := by simp [be16]
      rw [this, List.getD_eq_getElem?_getD, List.getElem?_append_right (by simp; omega)]
      simp
      have : 4 + nh.length - (nh.length + 4) = 0 := by omega
      rw [this]; rfl
    have hv : ∀ V, valOutcome fx xp 14 V = exaMpReach xp V := by intro V; simp [valOutcome]
    simp only [AttrVal.code, encVal, hv]
    unfold exaMpReach
    rw [e3, e2, el, rd16_be16 afi ha, d4, er]
    have c1 : ¬ 5 + nh.length + (encNlris safi false ns).length < 5 := by omega
    have c2 : ¬ 5 + nh.length + (encNlris safi false ns).length < 5 + nh.length := by omega
    have c3 : ¬ 5 + nh.length + (encNlris safi false ns).length ≤ 5 + nh.length := by omega
    simp only [c1, c2, c3, hfam, hx, hms, hlc, if_false, Bool.not_true, Bool.false_eq_true, List.isEmpty_nil]
    by_cases hr0 : rd = 0
    · simp [hr0]
    · obtain ⟨h128, h8⟩ := hrdz hr0
      have : (nh ++ 0 :: encNlris safi false ns).take 8 = nh.take 8 := List.take_append_of_le_length h8
      rw [this, hrd h128]
      simp

/-- The list-valued attributes carry at least one element (RFC 7606 calls the empty ones malformed; the model of
    ExaBGP answers a zero-length one with treat-as-withdraw, the reference codec accepts it). -/
def NonEmptyLists : AttrVal → Prop
  | .communities cs => cs ≠ []
  | .clusterList ids => ids ≠ []
  | .extCommunities cs => cs ≠ []
  | .largeCommunities cs => cs ≠ []
  | _ => True

/-- A reference-encoded well-formed value is empty only for the empty AS_PATH / AS4_PATH, ATOMIC_AGGREGATE and
    the empty lists (communities, cluster list, extended, large communities). -/
theorem encVal_ne_nil (p : Params) (v : AttrVal) (hc : v.code ≠ 2 ∧ v.code ≠ 6 ∧ v.code ≠ 17)
    (hl : NonEmptyLists v) (hu : ∀ c raw, v ≠ .unknown c raw) :
    (encVal p v).length ≠ 0 := by
  cases v with
  | origin o => simp [encVal]
  | asPath segs => simp [AttrVal.code] at hc
  | nextHop ip => simp [encVal]
  | med m => simp [encVal]
  | localPref m => simp [encVal]
  | atomicAggregate => simp [AttrVal.code] at hc
  | aggregator asn ip => simp [encVal]
  | communities cs => cases cs <;> simp_all [encVal, encAsns, encAsn, NonEmptyLists]
  | originatorId ip => simp [encVal]
  | clusterList ids => cases ids <;> simp_all [encVal, encAsns, encAsn, NonEmptyLists]
  | extCommunities cs => cases cs with
    | nil => simp [NonEmptyLists] at hl
    | cons c t => obtain ⟨a, b⟩ := c; simp [encVal, flat2, encAsns, encAsn]
  | as4Path segs => simp [AttrVal.code] at hc
  | as4Aggregator asn ip => simp [encVal]
  | largeCommunities cs => cases cs with
    | nil => simp [NonEmptyLists] at hl
    | cons c t => obtain ⟨a, b, c'⟩ := c; simp [encVal, flat3, encAsns, encAsn]
  | mpReach afi safi nh ns => simp [encVal]
  | mpUnreach afi safi ns => simp [encVal]
  | mpReachRaw afi safi nh raw => simp [encVal]
  | mpUnreachRaw afi safi raw => simp [encVal]
  | unknown c raw => exact absurd rfl (hu c raw)

end Exa.Attr7606
