import ExaModel.Lemmas.SessionInv
set_option linter.unusedSimpArgs false
set_option linter.unusedVariables false
/-!
# M-Session — `Inv` is preserved by every step
-/
namespace Exa.Session

theorem afterConnect_inv (s : State) (k : Conn) (hc : s.conn = some k) (hid : k.id < s.nextId)
    (hup : s.isUp = false) : Inv (afterConnect s).1 := by
  cases hr : k.rst
  · -- the OPEN is written
    have : (afterConnect s).1 =
        { s with fsm := .opensent, conn := some { k with openSent := true }, pc := .awaitOpen k.id } := by
      simp [afterConnect, fsmTo, sendOn, hc, hr, setPc, connId, markSent]
    rw [this]
    exact inv_awaitOpen (k := { k with openSent := true }) rfl rfl rfl rfl hid hup
  · -- the write fails: NetworkError
    have : (afterConnect s).1 = (onNetErr { s with fsm := .connect, conn := none }).1 := by
      simp [afterConnect, fsmTo, sendOn, hc, hr]
    rw [this]
    exact inv_of_ended (onNetErr_ended _ (by simp [hup]))

theorem establish2_inv (s : State) (hid : ∀ k, s.conn = some k → k.id < s.nextId) (hup : s.isUp = false) :
    Inv (establish2 s).1 := by
  cases hc : s.conn with
  | none =>
    have : (establish2 s).1 = { s with fsm := .idle, attempts := s.attempts + 1, pc := .connecting } := by
      simp [establish2, fsmTo, hc]
    rw [this]
    exact inv_idle rfl (by simp [hc]) (by simp [awaited]) (by simp) (by simp [hup]) (by simp [hc])
  | some k =>
    have : (establish2 s).1 = (afterConnect { s with fsm := .idle }).1 := by
      simp [establish2, fsmTo, hc]
    rw [this]
    exact afterConnect_inv _ k hc (hid k hc) hup

theorem beginRun_inv (s : State) (hid : ∀ k, s.conn = some k → k.id < s.nextId) (hup : s.isUp = false) :
    Inv (beginRun s).1 := by
  by_cases hp : s.cfg.passive = true ∧ s.conn = none
  · have : (beginRun s).1 = { s with fsm := .active, pc := .passiveWait } := by
      simp [beginRun, fsmTo, setPc, hp.1, hp.2]
    rw [this]
    exact inv_passive rfl rfl hp.2 hup
  · have : (beginRun s).1 = (establish2 { s with fsm := .active }).1 := by
      simp only [beginRun, fsmTo, andThen_fst]
      rw [if_neg (by simpa using hp)]
    rw [this]
    exact establish2_inv _ hid hup

/-! ## the main loop -/

/-- everything but `conn` and the three outbound queues. -/
structure Same (s t : State) : Prop where
  fsm : t.fsm = s.fsm
  pc : t.pc = s.pc
  nextId : t.nextId = s.nextId
  isUp : t.isUp = s.isUp
  teardown : t.teardown = s.teardown
  cfg : t.cfg = s.cfg
  restart : t.restart = s.restart
  attempts : t.attempts = s.attempts

theorem mainSends_spec (s : State) :
    Same s (mainSends s).1.1 ∧
    ((mainSends s).2 = true → (mainSends s).1.1.conn = s.conn) ∧
    ((mainSends s).2 = false → (mainSends s).1.1.conn = none) := by
  obtain ⟨cfg, fsm, pc, conn, nextId, restart, teardown, attempts, rib, rq, rp, ep, ka, up, dead⟩ := s
  simp only [mainSends, W.andSend, sendIf, sendOn]
  cases conn with
  | none => by_cases h1 : rq > 0 <;> cases rp <;> cases ep <;> simp [h1] <;> exact ⟨rfl, rfl, rfl, rfl, rfl, rfl, rfl, rfl⟩
  | some k =>
    cases hr : k.rst <;> by_cases h1 : rq > 0 <;> cases rp <;> cases ep <;> simp [h1, hr, markSent] <;>
      exact ⟨rfl, rfl, rfl, rfl, rfl, rfl, rfl, rfl⟩

theorem mainExit_inv (s t : State) (h : Inv s) (hf : s.fsm = .established) (hsame : Same s t) (hc : t.conn = s.conn) :
    Inv (mainExit t).1 := by
  have hinv : Inv t := h.congr hsame.fsm hsame.pc (by rw [hc]) hsame.nextId hsame.isUp
  have hft : t.fsm = .established := by rw [hsame.fsm, hf]
  unfold mainExit
  cases htd : t.teardown with
  | none => exact hinv
  | some code =>
    simp only []
    split
    · -- graceful restart: close without NOTIFICATION, then NetworkError('closing')
      rw [andThen_fst]
      refine inv_of_ended (onNetErr_ended _ ?_)
      rw [closeP_fst]; simp [hft, quietFsm]
    · exact inv_of_ended (onNotify_ended _ _ _ (fun _ => hft))

theorem mainTail_inv (s : State) (h : Inv s) (hf : s.fsm = .established) : Inv (mainTail s).1 := by
  obtain ⟨hsame, hok, hfail⟩ := mainSends_spec s
  unfold mainTail
  cases hw : (mainSends s).2
  · simp only [Bool.false_eq_true, if_false, andThen_fst]
    exact inv_of_ended (onNetErr_ended _ (fun _ => by rw [hsame.fsm, hf]))
  · simp only [if_true, andThen_fst]
    exact mainExit_inv s _ h hf hsame (hok hw)

theorem mainIter_inv (m : Option Msg) (s : State) (h : Inv s) (hf : s.fsm = .established) :
    Inv (mainIter m s).1 := by
  have hup : s.isUp = true → s.fsm = .established := fun _ => hf
  have tail : Inv (mainTail (mainPre m s)).1 := mainTail_inv _ (h.congr rfl rfl rfl rfl rfl) hf
  have dflt : Inv (if s.cfg.hold0 = true ∧ m = some .keepalive ∧ s.kaSeen = true then onNotify 2 6 s
      else mainTail (mainPre m s)).1 := by
    split
    · exact inv_of_ended (onNotify_ended _ _ _ hup)
    · exact tail
  unfold mainIter
  split
  · exact inv_of_ended (onNotify_ended _ _ _ hup)
  · exact inv_of_ended (onNotification_ended _ hup)
  · exact inv_of_ended (onNotify_ended _ _ _ hup)
  · exact inv_of_ended (onNotify_ended _ _ _ hup)
  · exact dflt

/-! ## a message is handed to the coroutine -/

theorem deliver_awaitOpen_inv (m : Msg) (s : State) (h : Inv s) (c : Nat) (k : Conn)
    (hp : s.pc = .awaitOpen c) (hc : s.conn = some k) (hk : k.id = c) : Inv (deliverAlive m s).1 := by
  obtain ⟨hf, hos⟩ := h.awaitOpen c k hp hc hk
  have hu : s.isUp = false := h.isUp_false (by rw [hp]; simp) (by rw [hf]; simp)
  have hup : s.isUp = true → s.fsm = .established := by rw [hu]; simp
  have hid := h.connId k hc
  unfold deliverAlive
  rw [hp]
  simp only []
  cases m with
  | openOk low =>
    simp only []
    cases hr : k.rst
    · have : (fsmTo Fsm.openconfirm (markConn (fun k => { k with idLow := low, openRecv := true }) s) ⊳ sendKa c).1 =
          { s with fsm := .openconfirm, conn := some { k with idLow := low, openRecv := true }, pc := .awaitKa c } := by
        simp [fsmTo, markConn, hc, sendKa, sendOn, hr, markSent, setPc]
      rw [this]
      subst hk
      exact inv_awaitKa (k := { k with idLow := low, openRecv := true }) rfl rfl rfl hos rfl hid hu
    · have : (fsmTo Fsm.openconfirm (markConn (fun k => { k with idLow := low, openRecv := true }) s) ⊳ sendKa c).1 =
          (onNetErr { s with fsm := .openconfirm, conn := none }).1 := by
        simp [fsmTo, markConn, hc, sendKa, sendOn, hr]
      rw [this]
      exact inv_of_ended (onNetErr_ended _ (by simp [hu]))
  | bad f => exact inv_of_ended (onNotify_ended _ _ _ hup)
  | operational => exact inv_of_ended (onNotify_ended _ _ _ hup)
  | notification => exact inv_of_ended (onNotification_ended _ hup)
  | openSem e => exact inv_of_ended (onNotify_ended _ _ _ hup)
  | keepalive => exact inv_of_ended (onNotify_ended _ _ _ hup)
  | update => exact inv_of_ended (onNotify_ended _ _ _ hup)
  | refresh => exact inv_of_ended (onNotify_ended _ _ _ hup)

theorem deliver_awaitKa_inv (m : Msg) (s : State) (h : Inv s) (c : Nat) (k : Conn)
    (hp : s.pc = .awaitKa c) (hc : s.conn = some k) (hk : k.id = c) : Inv (deliverAlive m s).1 := by
  obtain ⟨hf, hos, hor⟩ := h.awaitKa c k hp hc hk
  have hu : s.isUp = false := h.isUp_false (by rw [hp]; simp) (by rw [hf]; simp)
  have hup : s.isUp = true → s.fsm = .established := by rw [hu]; simp
  have hid := h.connId k hc
  unfold deliverAlive
  rw [hp]
  simp only []
  cases m with
  | keepalive =>
    simp only []
    cases htd : s.teardown with
    | none =>
      cases hdead : (s.cfg.changes && s.dead) with
      | false =>
        have : (fsmTo Fsm.established (markConn (fun k => { k with kaRecv := true }) s) ⊳ enterMain c).1 =
            { s with fsm := .established, conn := some { k with kaRecv := true }, routesPending := s.ribNonEmpty,
                     eorPending := true, kaSeen := false, isUp := s.cfg.changes, pc := .mainLoop c } := by
          simp [fsmTo, markConn, hc, enterMain, htd, hdead]
        rw [this]
        subst hk
        exact inv_main (k := { k with kaRecv := true }) rfl rfl rfl hos hor rfl hid
      | true =>
        -- `processes.up` raises ProcessError
        have : (fsmTo Fsm.established (markConn (fun k => { k with kaRecv := true }) s) ⊳ enterMain c).1 =
            (onNotify 6 0 { s with fsm := .established, conn := some { k with kaRecv := true } }).1 := by
          simp [fsmTo, markConn, hc, enterMain, htd, hdead]
        rw [this]
        exact inv_of_ended (onNotify_ended _ _ _ (fun _ => rfl))
    | some code =>
      have : (fsmTo Fsm.established (markConn (fun k => { k with kaRecv := true }) s) ⊳ enterMain c).1 =
          (onNotify 6 3 { s with fsm := .established, conn := some { k with kaRecv := true } }).1 := by
        simp [fsmTo, markConn, hc, enterMain, htd]
      rw [this]
      exact inv_of_ended (onNotify_ended _ _ _ (fun _ => rfl))
  | bad f => exact inv_of_ended (onNotify_ended _ _ _ hup)
  | operational => exact inv_of_ended (onNotify_ended _ _ _ hup)
  | notification => exact inv_of_ended (onNotification_ended _ hup)
  | openSem e => exact inv_of_ended (onNotify_ended _ _ _ hup)
  | openOk l => exact inv_of_ended (onNotify_ended _ _ _ hup)
  | update => exact inv_of_ended (onNotify_ended _ _ _ hup)
  | refresh => exact inv_of_ended (onNotify_ended _ _ _ hup)

theorem deliverAlive_inv (m : Msg) (s : State) (h : Inv s) (c : Nat) (k : Conn)
    (haw : awaited s = some c) (hc : s.conn = some k) (hk : k.id = c) : Inv (deliverAlive m s).1 := by
  cases hp : s.pc with
  | awaitOpen c' =>
    have : c' = c := by simpa [awaited, hp] using haw
    subst this; exact deliver_awaitOpen_inv m s h _ k hp hc hk
  | awaitKa c' =>
    have : c' = c := by simpa [awaited, hp] using haw
    subst this; exact deliver_awaitKa_inv m s h _ k hp hc hk
  | mainLoop c' =>
    have : c' = c := by simpa [awaited, hp] using haw
    subst this
    have hf := (h.main _ k hp hc hk).1
    unfold deliverAlive; rw [hp]
    exact mainIter_inv _ s h hf
  | backoff => simp [awaited, hp] at haw
  | done => simp [awaited, hp] at haw
  | passiveWait => simp [awaited, hp] at haw
  | connecting => simp [awaited, hp] at haw

/-- the API process is gone and the message could not be forwarded: `ProcessError`, `_reset`. -/
theorem onProcessError_inv (m : Msg) (s : State) (h : Inv s) (hd : s.pc ≠ .done) : Inv (onProcessError m s).1 := by
  unfold onProcessError
  rw [andThen_fst]
  exact inv_of_ended (onOther_ended _ (h.hup hd))

theorem deliver_inv (m : Msg) (s : State) (h : Inv s) (c : Nat) (k : Conn)
    (haw : awaited s = some c) (hc : s.conn = some k) (hk : k.id = c) : Inv (deliver m s).1 := by
  unfold deliver
  split
  · refine onProcessError_inv m s h ?_
    intro hd; simp [awaited, hd] at haw
  · exact deliverAlive_inv m s h c k haw hc hk

theorem readErr_inv (s : State) (h : Inv s) (hd : s.pc ≠ .done) : Inv (readErr s).1 := by
  unfold readErr
  rw [andThen_fst]
  refine inv_of_ended (onNetErr_ended _ ?_)
  intro hu
  have h1 : (closeConn s).1.isUp = s.isUp := by unfold closeConn; cases s.conn <;> rfl
  have h2 : (closeConn s).1.fsm = s.fsm := by unfold closeConn; cases s.conn <;> rfl
  rw [h1] at hu
  rw [h2]
  rcases h.up hu with h3 | h3
  · exact h3
  · exact (hd h3).elim

theorem advance_inv : ∀ (n : Nat) (s : State), Inv s → Inv (advance n s).1
  | 0, s, h => h
  | n + 1, s, h => by
    unfold advance
    cases haw : awaited s with
    | none => simpa using h
    | some c =>
      cases hc : s.conn with
      | none => simpa using h
      | some k =>
        simp only []
        by_cases hk : k.id = c
        · rw [if_pos hk]
          cases hi : k.inbox with
          | nil =>
            simp only []
            split
            · refine readErr_inv s h ?_
              intro hd; simp [awaited, hd] at haw
            · exact h
          | cons m rest =>
            simp only [andThen_fst]
            refine advance_inv n _ (deliver_inv m _ ?_ c { k with inbox := rest } ?_ rfl hk)
            · exact h.congr rfl rfl (by simp [hc, Conn.hist]) rfl rfl
            · simpa [awaited] using haw
        · rw [if_neg hk]; exact h

/-! ## the stale main loop, `handle_connection`, and every event -/

theorem staleIter_inv (s : State) (h : Inv s) (hd : s.pc ≠ .done) : Inv (staleIter s).1 :=
  inv_of_ended (onOther_ended _ (h.hup hd))

theorem Inv.bump {s : State} (h : Inv s) : Inv { s with nextId := s.nextId + 1 } := by
  constructor
  · exact h.backoffIdle
  · exact h.doneIdle
  · exact h.connectingIdle
  · exact h.passive
  · exact h.awaitOpen
  · exact h.awaitKa
  · exact h.main
  · exact h.opensent
  · exact h.openconfirm
  · exact h.established
  · exact h.notConnect
  · exact h.active
  · intro k hk; exact Nat.lt_succ_of_lt (h.connId k hk)
  · intro c hc; exact Nat.lt_succ_of_lt (h.awaitId c hc)
  · exact h.up
  · exact h.quietFresh

/-- without a connection the FSM variable is IDLE, or ACTIVE in the passive wait. -/
theorem Inv.idle_of_noconn {s : State} (h : Inv s) (hc : s.conn = none) (hp : s.pc ≠ .passiveWait) : s.fsm = .idle := by
  cases hf : s.fsm with
  | idle => rfl
  | active => exact (hp (h.active hf)).elim
  | connect => exact (h.notConnect hf).elim
  | opensent => obtain ⟨k, hk, _⟩ := h.opensent hf; rw [hc] at hk; cases hk
  | openconfirm => obtain ⟨k, hk, _⟩ := h.openconfirm hf; rw [hc] at hk; cases hk
  | established => obtain ⟨k, hk, _⟩ := h.established hf; rw [hc] at hk; cases hk

theorem quiet_up_done {s : State} (h : Inv s) (hu : s.isUp = true) (hq : quietFsm s.fsm = true) : s.pc = .done := by
  rcases h.up hu with h1 | h1
  · rw [h1] at hq; cases hq
  · exact h1

theorem handleConnection_inv (s : State) (h : Inv s) : Inv (handleConnection s).1 := by
  unfold handleConnection
  split
  · exact h.bump
  split
  · -- `processes.connected` raises: what `peer.proto` was is closed, the new connection is dropped
    rw [andThen_fst]
    cases hc : s.conn with
    | none =>
      simp only [Option.isSome_none, Bool.false_eq_true, if_false]
      exact h.bump
    | some k =>
      simp only [Option.isSome_some, if_true, closeP_fst]
      refine inv_idle rfl (by simp) ?_ (by simp) ?_ (by simp)
      · intro c haw
        have := h.awaitId c (by simpa [awaited] using haw)
        exact ⟨by simp; omega, by simp⟩
      · intro hu
        simp only [Bool.and_eq_true] at hu
        exact quiet_up_done (s := s) h hu.1 hu.2
  · unfold adopt
    simp only [andThen_fst]
    by_cases hp : s.pc = .passiveWait
    · -- the passive wait ends: the coroutine goes on with the adopted connection
      have hc : s.conn = none := (h.passive hp).2
      have hf : s.fsm ≠ .established := by rcases (h.passive hp).1 with h1 | h1 <;> rw [h1] <;> simp
      have hu : s.isUp = false := h.isUp_false (by rw [hp]; simp) hf
      simp only [hc, Option.isSome_none, Bool.false_eq_true, if_false, hp, if_true]
      exact establish2_inv _ (by simp) hu
    · cases hc : s.conn with
      | none =>
        simp only [Option.isSome_none, Bool.false_eq_true, if_false, hp]
        have hf := h.idle_of_noconn hc hp
        refine inv_idle hf (by simp) ?_ (by simpa using hp) ?_ (by simp)
        · intro c haw
          have := h.awaitId c (by simpa [awaited] using haw)
          refine ⟨by simp; omega, ?_⟩
          intro k hk; simp at hk; subst hk; simp; omega
        · intro hu; exact (h.up hu).resolve_left (by rw [hf]; simp)
      | some k =>
        simp only [Option.isSome_some, if_true, closeP_fst, hp, if_false]
        refine inv_idle rfl (by simp) ?_ (by simpa using hp) ?_ (by simp)
        · intro c haw
          have := h.awaitId c (by simpa [awaited] using haw)
          refine ⟨by simp; omega, ?_⟩
          intro k hk; simp at hk; subst hk; simp; omega
        · intro hu
          simp only [Bool.and_eq_true] at hu
          exact quiet_up_done (s := s) h hu.1 hu.2

theorem stop_inv (s : State) (h : Inv s) : Inv ((if s.conn.isSome then closeP s else (s, [])) ⊳ stopP).1 := by
  simp only [andThen_fst, stopP, fsmTo]
  cases hc : s.conn with
  | none =>
    simp only [Option.isSome_none, Bool.false_eq_true, if_false]
    refine inv_idle rfl (by simp [hc]) ?_ (by simp [hc]) ?_ (by simp [hc])
    · intro c haw
      exact ⟨h.awaitId c (by simpa [awaited] using haw), by simp [hc]⟩
    · intro hu
      rcases h.up hu with h1 | h1
      · obtain ⟨k, hk, _⟩ := h.established h1; rw [hc] at hk; cases hk
      · exact h1
  | some k =>
    simp only [Option.isSome_some, if_true, closeP_fst]
    refine inv_idle rfl (by simp) ?_ (by simp) ?_ (by simp)
    · intro c haw
      exact ⟨h.awaitId c (by simpa [awaited] using haw), by simp⟩
    · intro hu
      simp only [Bool.and_eq_true] at hu
      exact quiet_up_done (s := s) h hu.1 hu.2

theorem drainMain_inv : ∀ (n : Nat) (s : State), Inv s → Inv (drainMain n s).1
  | 0, s, h => h
  | n + 1, s, h => by
    unfold drainMain
    cases hp : s.pc with
    | mainLoop c =>
      simp only []
      cases hc : s.conn with
      | none => exact staleIter_inv s h (by rw [hp]; simp)
      | some k =>
        simp only [andThen_fst]
        refine drainMain_inv n _ ?_
        split
        · rename_i hk
          exact mainIter_inv _ s h (h.main c k hp hc hk).1
        · exact staleIter_inv s h (by rw [hp]; simp)
    | backoff => exact h
    | done => exact h
    | passiveWait => exact h
    | connecting => exact h
    | awaitOpen c => exact h
    | awaitKa c => exact h

theorem react_inv (s : State) (e : Event) (h : Inv s) : Inv (react s e).1 := by
  cases e with
  | start =>
    simp only [react]
    split
    · rename_i hp
      have hf := h.backoffIdle hp
      split
      · exact beginRun_inv s h.connId (h.isUp_false (by rw [hp]; simp) (by rw [hf]; simp))
      · refine inv_idle hf h.connId (by simp [awaited, setPc]) (by simp [setPc]) (by simp [setPc]) (h.quietFresh (Or.inl hf))
    · exact h
  | connectOk =>
    simp only [react]
    split
    · rename_i hp
      have hf := h.connectingIdle hp
      have hu := h.isUp_false (by rw [hp]; simp) (by rw [hf]; simp)
      split
      · rw [andThen_fst]
        exact inv_of_ended (onOther_ended _ (by simp [hu]))
      · rw [andThen_fst]
        exact afterConnect_inv _ { id := s.nextId } rfl (by simp) hu
    · exact h
  | connectFail =>
    simp only [react]
    split
    · rename_i hp
      have hf := h.connectingIdle hp
      have hu := h.isUp_false (by rw [hp]; simp) (by rw [hf]; simp)
      rw [andThen_fst]
      refine inv_of_ended (onOther_ended _ ?_)
      cases hc : s.conn <;> simp [closeP_fst, hu]
    · exact h
  | incoming => exact handleConnection_inv s h
  | recv c m =>
    simp only [react]
    cases hc : s.conn with
    | none => exact h
    | some k =>
      simp only []
      split
      · exact h.congr rfl rfl (by simp [hc, Conn.hist]) rfl rfl
      · exact h
  | eof c =>
    simp only [react]
    cases hc : s.conn with
    | none => exact h
    | some k =>
      simp only []
      split
      · exact h.congr rfl rfl (by simp [hc, Conn.hist]) rfl rfl
      · exact h
  | sockError c =>
    simp only [react]
    cases hc : s.conn with
    | none => exact h
    | some k =>
      simp only []
      split
      · exact h.congr rfl rfl (by simp [hc, Conn.hist]) rfl rfl
      · exact h
  | openwaitExpired =>
    simp only [react]
    split
    · rename_i c hp
      exact inv_of_ended (onNotify_ended _ _ _ (h.hup (by rw [hp]; simp)))
    · exact h
  | holdExpired =>
    simp only [react]
    split
    · rename_i c hp
      split
      · exact h
      · rw [andThen_fst]
        have hx : Inv (drainMain (s.refreshQ + 1) s).1 := drainMain_inv _ s h
        split
        · rename_i c' hp'
          exact inv_of_ended (onNotify_ended _ _ _ (hx.hup (fun hd' => absurd (hp'.symm.trans hd') (by simp))))
        · exact hx
    · rename_i c hp
      split
      · exact h
      · exact inv_of_ended (onNotify_ended _ _ _ (h.hup (by rw [hp]; simp)))
    · exact h
  | tick =>
    simp only [react]
    split
    · rename_i c hp
      have hd : s.pc ≠ .done := by rw [hp]; simp
      cases hc : s.conn with
      | none => exact staleIter_inv s h hd
      | some k =>
        simp only []
        split
        · rename_i hk
          exact mainIter_inv _ s h (h.main c k hp hc hk).1
        · exact staleIter_inv s h hd
    · exact h
  | teardown code => exact h.congr rfl rfl rfl rfl rfl
  | reestablish => exact h.congr rfl rfl rfl rfl rfl
  | stop => exact stop_inv s h
  | queueRefresh => exact h.congr rfl rfl rfl rfl rfl
  | announce => exact h.congr rfl rfl rfl rfl rfl
  | apiDies => exact h.congr rfl rfl rfl rfl rfl

theorem step_inv (s : State) (e : Event) (h : Inv s) : Inv (step s e).1 := by
  unfold step
  rw [andThen_fst]
  exact advance_inv _ _ (react_inv s e h)

theorem run_inv : ∀ (evs : List Event) (s : State), Inv s → Inv (run s evs).1
  | [], s, h => h
  | e :: es, s, h => by
    unfold run
    rw [andThen_fst]
    exact run_inv es _ (step_inv s e h)

end Exa.Session
