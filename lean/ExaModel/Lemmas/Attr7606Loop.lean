/-
  M-Attr7606, loop level: the decision taken for a malformed first occurrence (`decide1_malformed`), and what
  that means for the state the loop ends in (`loop_malformed`).
-/
import ExaModel.Lemmas.Attr7606Val
set_option linter.unusedSimpArgs false
set_option linter.unusedVariables false

namespace Exa.Attr7606
open Exa Exa.Wire
open Exa.Generated.AttrTable (Row)

/-! ### registry -/

theorem rowOf_some {tb : List Row} {c : Nat} {row : Row} (h : rowOf tb c = some row) : row ∈ tb ∧ row.id = c := by
  unfold rowOf at h
  refine ⟨List.mem_of_find?_eq_some h, ?_⟩
  have := List.find?_some h
  simpa using this

/-- Optional/Transitive bits of an octet whose masked form equals a registered FLAG. -/
theorem bits_of_noExt (f g o t : Nat) (ho : o ≤ 1) (ht : t ≤ 1) (hg : g = maskLow f ∨ g = noPart (maskLow f))
    (h : noExt g = o * 128 + t * 64) : f / 128 % 2 = o ∧ f / 64 % 2 = t := by
  rcases hg with hg | hg <;> subst hg <;> simp only [noExt, noPart, maskLow, b2n, beq_iff_eq] at h <;>
    (repeat' split at h) <;> omega

theorem flagsOk_of_registered (tb : List Row) (htb : ∀ r ∈ tb, rowOk r = true) (t : Tlv)
    (hreg : registered tb t.code (effFlag tb t) = true) : flagsOk t.code t.flag = true := by
  unfold registered at hreg
  obtain ⟨r, hr, hrr⟩ := List.any_eq_true.1 hreg
  simp only [Bool.and_eq_true, beq_iff_eq] at hrr
  obtain ⟨hid, hfl⟩ := hrr
  have hok := htb r hr
  unfold rowOk at hok
  simp only [Bool.and_eq_true] at hok
  obtain ⟨⟨hok1, _⟩, _⟩ := hok
  rw [hid] at hok1
  unfold flagsOk
  cases hfs : flagSpecX t.code with
  | none => rfl
  | some ot =>
    obtain ⟨o, tt⟩ := ot
    simp only [hfs, beq_iff_eq] at hok1
    have hg : effFlag tb t = maskLow t.flag ∨ effFlag tb t = noPart (maskLow t.flag) := by
      unfold effFlag; split <;> simp
    have hb := bits_of_noExt t.flag (effFlag tb t) (b2n o 1) (b2n tt 1)
      (by cases o <;> simp [b2n]) (by cases tt <;> simp [b2n]) hg
      (by rw [← hfl, hok1]; cases o <;> cases tt <;> simp [b2n])
    obtain ⟨hb1, hb2⟩ := hb
    cases o <;> cases tt <;> simp [b2n] at hb1 hb2 <;> simp [hb1, hb2]

/-! ### one decision -/

/-- What a decision on a malformed first occurrence may be: never kept; dropped or discarded only where the
    RFC class is attribute discard; anything else (treat-as-withdraw, an exception leaving `parse`) is fine. -/
def DecOk (code : Nat) : Dec → Prop
  | .keep => False
  | .keepGeneric => False
  | .drop => rfc7606Class code = some .discard
  | .disc => rfc7606Class code = some .discard
  | _ => True

theorem class_discard_of_row {tb : List Row} (htb : TableOk tb) {row : Row} (hr : row ∈ tb)
    (hs : row.id ∈ specCodes) (hd : row.discard = true) (hw : row.treatAsWithdraw = false) :
    rfc7606Class row.id = some .discard := by
  have hok := htb.1 row hr
  unfold rowOk at hok
  simp only [Bool.and_eq_true] at hok
  obtain ⟨⟨_, hok2⟩, _⟩ := hok
  have hc : specCodes.contains row.id = true := by simpa using hs
  simp only [hc, hd, hw, Bool.not_true, Bool.false_or, beq_iff_eq] at hok2
  exact hok2

theorem decide1_malformed {fx : Fix} {tb : List Row} {xp : XP} {present : List Nat} {t : Tlv}
    (htb : TableOk tb) (hm : malformed xp.p t = true) (hg : GapFree fx xp t)
    (hp : present.contains t.code = false) : DecOk t.code (decide1 fx tb xp present t) := by
  unfold decide1
  by_cases ho : t.overrun = true
  · simp [ho, DecOk]
  · simp only [ho, Bool.false_eq_true, if_false]
    have hov : t.overrun = false := by simpa using ho
    have hwf : wfAttr xp.p t.code t.flag t.val = false := by
      simp only [malformed, hov, Bool.or_false, Bool.not_eq_true'] at hm; exact hm
    have hspec : t.code ∈ specCodes := by
      by_cases hc : t.code ∈ specCodes
      · exact hc
      · have := wfAttr_of_not_spec xp.p t.code t.flag t.val hc
        simp [this] at hwf
    obtain ⟨row, hrow⟩ := Option.isSome_iff_exists.1 (htb.2 _ hspec)
    obtain ⟨hrmem, hrid⟩ := rowOf_some hrow
    have hrspec : row.id ∈ specCodes := by rw [hrid]; exact hspec
    simp only [hrow, hp, Bool.false_eq_true, if_false]
    by_cases hreg : registered tb t.code (effFlag tb t) = true
    · simp only [hreg, if_true]
      have hfo := flagsOk_of_registered tb htb.1 t hreg
      have hwv : wfVal xp.p t.code t.val = false := by
        simp only [wfAttr, hfo, Bool.true_and] at hwf; exact hwf
      by_cases hz : (t.dlen == 0 && !row.validZero) = true
      · simp [hz, DecOk]
      · simp only [hz, Bool.false_eq_true, if_false]
        cases hvo : valOutcome fx xp t.code t.val with
        | ok =>
          exfalso
          have h1 := hg hvo
          have hne : mustNonEmpty.contains t.code = true → t.val ≠ [] := by
            intro hn
            have hok := htb.1 row hrmem
            unfold rowOk at hok
            simp only [Bool.and_eq_true] at hok
            obtain ⟨_, hok3⟩ := hok
            rw [hrid, hn] at hok3
            simp only [Bool.not_true, Bool.false_or, Bool.not_eq_true'] at hok3
            simp only [hok3, Bool.not_false, Bool.and_true, beq_iff_eq] at hz
            simp only [Tlv.overrun, decide_eq_false_iff_not, Nat.not_lt] at hov
            intro hnil
            rw [hnil] at hov
            simp at hov
            exact hz hov
          have := valOutcome_wfVal xp t.code t.val hspec h1 hne
          simp [this] at hwv
        | valueError =>
          simp only
          by_cases hw : row.treatAsWithdraw = true
          · simp [hw, DecOk]
          · by_cases hd : row.discard = true
            · simp only [hw, hd, Bool.false_eq_true, if_false, if_true, DecOk]
              rw [← hrid]; exact class_discard_of_row htb hrmem hrspec hd (by simpa using hw)
            · simp [hw, hd, DecOk]
        | notify c s =>
          simp only
          by_cases hw : row.treatAsWithdraw = true
          · simp [hw, DecOk]
          · by_cases hd : row.discard = true
            · simp only [hw, hd, Bool.false_eq_true, if_false, if_true, DecOk]
              rw [← hrid]; exact class_discard_of_row htb hrmem hrspec hd (by simpa using hw)
            · simp [hw, hd, DecOk]
        | unmodelled => simp [DecOk]
    · simp only [hreg, Bool.false_eq_true, if_false]
      by_cases hw : row.treatAsWithdraw = true
      · simp [hw, DecOk]
      · by_cases hd : row.discard = true
        · simp only [hw, hd, Bool.false_eq_true, if_false, if_true, DecOk]
          rw [← hrid]; exact class_discard_of_row htb hrmem hrspec hd (by simpa using hw)
        · simp [hw, hd, DecOk]

/-- An overrunning attribute is never kept once the length check is in (whatever else is wrong with it). -/
theorem decide1_overrun (fx : Fix) (tb : List Row) (xp : XP) (present : List Nat) (t : Tlv)
    (ho : t.overrun = true) : decide1 fx tb xp present t = .taw := by
  simp [decide1, ho]

/-! ### the loop -/

theorem loop_cons (fx : Fix) (tb : List Row) (xp : XP) (t : Tlv) (ts : List Tlv) (st : LoopSt) :
    loop fx tb xp (t :: ts) st =
      (match applyDec tb t st (decide1 fx tb xp (st.kept.map (·.code)) t) with
       | .ok st' => loop fx tb xp ts st'
       | .error e => .error e) := rfl

theorem loop_append (fx : Fix) (tb : List Row) (xp : XP) : ∀ (a b : List Tlv) (st : LoopSt),
    loop fx tb xp (a ++ b) st =
      (match loop fx tb xp a st with
       | .ok st' => loop fx tb xp b st'
       | .error e => .error e)
  | [], b, st => rfl
  | t :: a, b, st => by
    simp only [List.cons_append, loop_cons]
    cases applyDec tb t st (decide1 fx tb xp (st.kept.map (·.code)) t) with
    | error e => rfl
    | ok st' => exact loop_append fx tb xp a b st'

/-- What one applied decision does to the state. -/
theorem applyDec_ok {tb : List Row} {t : Tlv} {st st' : LoopSt} {d : Dec} (h : applyDec tb t st d = .ok st') :
    (st.taw = true → st'.taw = true) ∧
    (∀ k ∈ st'.kept, k ∈ st.kept ∨ k.code = t.code) := by
  cases d <;> simp only [applyDec, Except.ok.injEq, reduceCtorEq] at h <;> subst h
  · exact ⟨id, fun k hk => by
      rcases List.mem_append.1 hk with h | h
      · exact Or.inl h
      · simp at h; exact Or.inr (by rw [h]; rfl)⟩
  · exact ⟨id, fun k hk => by
      rcases List.mem_append.1 hk with h | h
      · exact Or.inl h
      · simp at h; exact Or.inr (by rw [h]; rfl)⟩
  · exact ⟨fun _ => rfl, fun k hk => Or.inl hk⟩
  · exact ⟨id, fun k hk => Or.inl hk⟩
  · exact ⟨id, fun k hk => Or.inl hk⟩

theorem loop_taw_mono (fx : Fix) (tb : List Row) (xp : XP) : ∀ (ts : List Tlv) (st st' : LoopSt),
    loop fx tb xp ts st = .ok st' → st.taw = true → st'.taw = true
  | [], st, st', h, ht => by simp only [loop, Except.ok.injEq] at h; subst h; exact ht
  | t :: ts, st, st', h, ht => by
    rw [loop_cons] at h
    cases ha : applyDec tb t st (decide1 fx tb xp (st.kept.map (·.code)) t) with
    | error e => simp [ha] at h
    | ok s1 =>
      simp only [ha] at h
      exact loop_taw_mono fx tb xp ts s1 st' h ((applyDec_ok ha).1 ht)

/-- The codes in the collection come from the collection the loop started with or from the attributes walked. -/
theorem loop_kept_codes (fx : Fix) (tb : List Row) (xp : XP) : ∀ (ts : List Tlv) (st st' : LoopSt),
    loop fx tb xp ts st = .ok st' → ∀ k ∈ st'.kept, k ∈ st.kept ∨ ∃ u ∈ ts, u.code = k.code
  | [], st, st', h, k, hk => by simp only [loop, Except.ok.injEq] at h; subst h; exact Or.inl hk
  | t :: ts, st, st', h, k, hk => by
    rw [loop_cons] at h
    cases ha : applyDec tb t st (decide1 fx tb xp (st.kept.map (·.code)) t) with
    | error e => simp [ha] at h
    | ok s1 =>
      simp only [ha] at h
      rcases loop_kept_codes fx tb xp ts s1 st' h k hk with h1 | ⟨u, hu, huc⟩
      · rcases (applyDec_ok ha).2 k h1 with h2 | h2
        · exact Or.inl h2
        · exact Or.inr ⟨t, by simp, h2.symm⟩
      · exact Or.inr ⟨u, by simp [hu], huc⟩

/-- The Discard marker does not influence the rest of the loop. -/
theorem loop_disc_irrel (fx : Fix) (tb : List Row) (xp : XP) : ∀ (ts : List Tlv) (st s : LoopSt),
    loop fx tb xp ts { st with disc := true } = .ok s →
    ∃ s', loop fx tb xp ts st = .ok s' ∧ s'.kept = s.kept ∧ s'.taw = s.taw
  | [], st, s, h => by
    simp only [loop, Except.ok.injEq] at h; subst h
    exact ⟨st, rfl, rfl, rfl⟩
  | t :: ts, st, s, h => by
    rw [loop_cons] at h
    rw [loop_cons]
    simp only at h
    cases hd : decide1 fx tb xp (st.kept.map (·.code)) t <;> simp only [hd, applyDec] at h ⊢
    · exact loop_disc_irrel fx tb xp ts _ s h
    · exact loop_disc_irrel fx tb xp ts _ s h
    · exact loop_disc_irrel fx tb xp ts _ s h
    · exact ⟨s, h, rfl, rfl⟩
    · exact loop_disc_irrel fx tb xp ts st s h
    · simp at h
    · simp at h
    · simp at h

/-- The loop on a block with a malformed first occurrence `t`: it ends marked treat-as-withdraw, or `t` is of
    the attribute-discard class and the loop ends as it does on the block without `t` (same attributes, same
    treat-as-withdraw marker). -/
theorem loop_malformed {fx : Fix} {tb : List Row} {xp : XP} (htb : TableOk tb)
    (pre : List Tlv) (t : Tlv) (post : List Tlv) (st0 st : LoopSt)
    (h : loop fx tb xp (pre ++ t :: post) st0 = .ok st)
    (hpre : ∀ u ∈ pre, u.code ≠ t.code) (hst0 : ∀ k ∈ st0.kept, k.code ≠ t.code)
    (hm : malformed xp.p t = true) (hg : GapFree fx xp t) :
    st.taw = true ∨
    (rfc7606Class t.code = some .discard ∧
      ∃ st', loop fx tb xp (pre ++ post) st0 = .ok st' ∧ st'.kept = st.kept ∧ st'.taw = st.taw) := by
  rw [loop_append] at h
  cases h1 : loop fx tb xp pre st0 with
  | error e => simp [h1] at h
  | ok s1 =>
    simp only [h1] at h
    have hp : (s1.kept.map (·.code)).contains t.code = false := by
      rw [Bool.eq_false_iff]
      intro hc
      simp only [List.contains_iff_mem, List.mem_map] at hc
      obtain ⟨k, hk, hkc⟩ := hc
      rcases loop_kept_codes fx tb xp pre st0 s1 h1 k hk with h2 | ⟨u, hu, huc⟩
      · exact hst0 k h2 hkc
      · exact hpre u hu (huc.trans hkc)
    have hd := decide1_malformed htb hm hg hp
    rw [loop_cons] at h
    have hpp : loop fx tb xp (pre ++ post) st0 = loop fx tb xp post s1 := by
      rw [loop_append, h1]
    cases hdd : decide1 fx tb xp (s1.kept.map (·.code)) t <;> simp only [hdd, applyDec, DecOk] at h hd
    · exact Or.inl (loop_taw_mono fx tb xp post _ st h rfl)
    · obtain ⟨s', hs', hk, ht⟩ := loop_disc_irrel fx tb xp post s1 st h
      exact Or.inr ⟨hd, s', by rw [hpp]; exact hs', hk, ht⟩
    · exact Or.inr ⟨hd, st, by rw [hpp]; exact h, rfl, rfl⟩
    · simp at h
    · simp at h
    · simp at h

end Exa.Attr7606
