import ExaModel.Lemmas.FlowBytes
set_option linter.unusedSimpArgs false
/-! The raw layer: `decodeOps`/`decodeComps` are sound and complete for the byte grammar
    (`encodeRaw` is their exact inverse on well-shaped component lists). -/
namespace Exa.Flow

/-- the `{op, value}` list of one component: every value has the announced width, the
    end-of-list bit is on the last pair and on no other -/
def TermsShape : List RawTerm → Prop
  | [] => False
  | [t] => opEol t.op = true ∧ t.val.length = opWidth t.op
  | t :: t' :: ts => opEol t.op = false ∧ t.val.length = opWidth t.op ∧ TermsShape (t' :: ts)

/-- a complete component of a type the family defines -/
def CompShape (v6 : Bool) (p6bits : Nat → Nat → Option Nat) : RawComp → Prop
  | .prefix4 ty len bs => v6 = false ∧ kindOf v6 ty = some .prefix ∧ len ≤ 32 ∧ bs.length = patBytes len
  | .prefix6 ty len off bs =>
    v6 = true ∧ kindOf v6 ty = some .prefix ∧ ∃ bits, p6bits len off = some bits ∧ bs.length = patBytes bits
  | .ops ty ts => (kindOf v6 ty = some .numeric ∨ kindOf v6 ty = some .bitmask) ∧ TermsShape ts

theorem decodeOps_sound (fuel : Nat) (bs : Bytes) (ts : List RawTerm) (rest : Bytes)
    (h : decodeOps fuel bs = .ok (ts, rest)) :
    bs = ts.flatMap encodeRawTerm ++ rest ∧ TermsShape ts := by
  induction fuel generalizing bs ts rest with
  | zero => simp [decodeOps] at h
  | succ f ih =>
    cases bs with
    | nil => simp [decodeOps] at h
    | cons b t =>
      simp only [decodeOps] at h
      split at h
      · simp at h
      · rename_i hlen
        split at h
        · rename_i heol
          simp only [Except.ok.injEq, Prod.mk.injEq] at h
          obtain ⟨h1, h2⟩ := h
          subst h1; subst h2
          refine ⟨?_, ?_⟩
          · simp [encodeRawTerm, List.take_append_drop]
          · simp only [TermsShape]
            refine ⟨heol, ?_⟩
            simp only [List.length_take]; omega
        · rename_i heol
          split at h
          · rename_i ts' r' hrec
            simp only [Except.ok.injEq, Prod.mk.injEq] at h
            obtain ⟨h1, h2⟩ := h
            subst h1; subst h2
            have := ih _ _ _ hrec
            obtain ⟨e1, e2⟩ := this
            refine ⟨?_, ?_⟩
            · simp only [List.flatMap_cons, encodeRawTerm, List.cons_append, List.append_assoc]
              rw [← e1, List.take_append_drop]
            · cases ts' with
              | nil => simp [TermsShape] at e2
              | cons t' ts'' =>
                simp only [TermsShape]
                refine ⟨by simpa using heol, ?_, e2⟩
                simp only [List.length_take]; omega
          · simp at h

theorem decodeOps_complete (ts : List RawTerm) (rest : Bytes) (fuel : Nat)
    (hs : TermsShape ts) (hf : (ts.flatMap encodeRawTerm ++ rest).length < fuel) :
    decodeOps fuel (ts.flatMap encodeRawTerm ++ rest) = .ok (ts, rest) := by
  induction ts generalizing fuel with
  | nil => simp [TermsShape] at hs
  | cons t ts ih =>
    cases fuel with
    | zero => omega
    | succ f =>
      cases ts with
      | nil =>
        simp only [TermsShape] at hs
        obtain ⟨heol, hw⟩ := hs
        simp only [List.flatMap_cons, List.flatMap_nil, encodeRawTerm, List.append_nil, List.cons_append, decodeOps]
        rw [if_neg (by simp only [List.length_append]; omega)]
        simp only [heol, if_true]
        rw [← hw, List.take_left', List.drop_left'] <;> rfl
      | cons t' ts' =>
        simp only [TermsShape] at hs
        obtain ⟨heol, hw, hrest⟩ := hs
        rw [List.flatMap_cons] at hf ⊢
        have hrec := ih f hrest (by
          simp only [encodeRawTerm, List.length_cons, List.length_append] at hf
          simp only [List.length_append]; omega)
        rw [List.append_assoc] at hf ⊢
        generalize List.flatMap encodeRawTerm (t' :: ts') ++ rest = tail at hf hrec ⊢
        simp only [encodeRawTerm, List.cons_append, decodeOps]
        rw [if_neg (by simp only [List.length_append]; omega)]
        simp only [heol, Bool.false_eq_true, if_false]
        have hd : List.drop (opWidth t.op) (t.val ++ tail) = tail := by
          rw [← hw, List.drop_left']; rfl
        have ht : List.take (opWidth t.op) (t.val ++ tail) = t.val := by
          rw [← hw, List.take_left']; rfl
        rw [hd, ht, hrec]

theorem encodeRaw_cons (c : RawComp) (cs : List RawComp) : encodeRaw (c :: cs) = encodeRawComp c ++ encodeRaw cs := by
  simp [encodeRaw]

theorem decodeComps_sound (v6 : Bool) (p6bits : Nat → Nat → Option Nat) (fuel : Nat) (bs : Bytes)
    (cs : List RawComp) (h : decodeComps v6 p6bits fuel bs = .ok cs) :
    bs = encodeRaw cs ∧ ∀ c ∈ cs, CompShape v6 p6bits c := by
  induction fuel generalizing bs cs with
  | zero => simp [decodeComps] at h
  | succ f ih =>
    cases bs with
    | nil =>
      simp only [decodeComps, Except.ok.injEq] at h
      subst h; simp [encodeRaw]
    | cons t rest =>
      simp only [decodeComps] at h
      split at h
      · simp at h
      · rename_i hk
        split at h
        · rename_i hv6
          split at h
          · rename_i len off r2
            split at h
            · simp at h
            · rename_i bits hbits
              split at h
              · simp at h
              · rename_i hlen
                split at h
                · rename_i cs' hrec
                  simp only [Except.ok.injEq] at h
                  subst h
                  obtain ⟨e1, e2⟩ := ih _ _ hrec
                  refine ⟨?_, ?_⟩
                  · rw [encodeRaw_cons, ← e1]
                    simp [encodeRawComp, List.take_append_drop]
                  · intro c hc
                    rcases List.mem_cons.1 hc with hc | hc
                    · subst hc
                      refine ⟨hv6, hk, bits, hbits, ?_⟩
                      simp only [List.length_take]; omega
                    · exact e2 c hc
                · simp at h
          · simp at h
        · rename_i hv6
          split at h
          · rename_i len r2
            split at h
            · simp at h
            · rename_i hle
              split at h
              · simp at h
              · rename_i hlen
                split at h
                · rename_i cs' hrec
                  simp only [Except.ok.injEq] at h
                  subst h
                  obtain ⟨e1, e2⟩ := ih _ _ hrec
                  refine ⟨?_, ?_⟩
                  · rw [encodeRaw_cons, ← e1]
                    simp [encodeRawComp, List.take_append_drop]
                  · intro c hc
                    rcases List.mem_cons.1 hc with hc | hc
                    · subst hc
                      refine ⟨by simpa using hv6, hk, by omega, ?_⟩
                      simp only [List.length_take]; omega
                    · exact e2 c hc
                · simp at h
          · simp at h
      · rename_i k hk hnp
        split at h
        · simp at h
        · rename_i ts r hops
          split at h
          · rename_i cs' hrec
            simp only [Except.ok.injEq] at h
            subst h
            obtain ⟨e1, e2⟩ := ih _ _ hrec
            obtain ⟨o1, o2⟩ := decodeOps_sound _ _ _ _ hops
            refine ⟨?_, ?_⟩
            · rw [encodeRaw_cons, ← e1, o1]
              simp [encodeRawComp]
            · intro c hc
              rcases List.mem_cons.1 hc with hc | hc
              · subst hc
                refine ⟨?_, o2⟩
                rcases k with _ | _ | _
                · exact absurd rfl hk
                · exact Or.inl hnp
                · exact Or.inr hnp
              · exact e2 c hc
          · simp at h

theorem decodeComps_complete (v6 : Bool) (p6bits : Nat → Nat → Option Nat) (cs : List RawComp) (fuel : Nat)
    (hs : ∀ c ∈ cs, CompShape v6 p6bits c) (hf : (encodeRaw cs).length < fuel) :
    decodeComps v6 p6bits fuel (encodeRaw cs) = .ok cs := by
  induction cs generalizing fuel with
  | nil =>
    cases fuel with
    | zero => omega
    | succ f => simp [encodeRaw, decodeComps]
  | cons c cs ih =>
    cases fuel with
    | zero => omega
    | succ f =>
      have hc := hs c List.mem_cons_self
      have hcs : ∀ c ∈ cs, CompShape v6 p6bits c := fun x hx => hs x (List.mem_cons_of_mem _ hx)
      rw [encodeRaw_cons] at hf ⊢
      cases c with
      | prefix4 ty len bs =>
        obtain ⟨hv, hk, hle, hlen⟩ := hc
        subst hv
        have hrec := ih f hcs (by simp only [encodeRawComp, List.length_append, List.length_cons] at hf; omega)
        simp only [encodeRawComp, List.cons_append, decodeComps, hk, Bool.false_eq_true, if_false]
        rw [if_neg (by omega), if_neg (by simp only [List.length_append]; omega)]
        rw [← hlen, List.take_left', List.drop_left', hrec] <;> rfl
      | prefix6 ty len off bs =>
        obtain ⟨hv, hk, bits, hb, hlen⟩ := hc
        subst hv
        have hrec := ih f hcs (by simp only [encodeRawComp, List.length_append, List.length_cons] at hf; omega)
        simp only [encodeRawComp, List.cons_append, decodeComps, hk, if_true, hb]
        rw [if_neg (by simp only [List.length_append]; omega)]
        rw [← hlen, List.take_left', List.drop_left', hrec] <;> rfl
      | ops ty ts =>
        obtain ⟨hk, hts⟩ := hc
        have hrec := ih f hcs (by simp only [encodeRawComp, List.length_append, List.length_cons] at hf; omega)
        have hops := decodeOps_complete ts (encodeRaw cs) f hts (by
          simp only [encodeRawComp, List.length_append, List.length_cons] at hf
          simp only [List.length_append]; omega)
        simp only [encodeRawComp, List.cons_append, decodeComps]
        rcases hk with hk | hk <;> simp only [hk, hops, hrec]

/-! ### Errors propagate: what follows well-shaped components decides the outcome -/

/-- all pairs complete and none carries the end-of-list bit -/
def TermsOpen : List RawTerm → Prop
  | [] => True
  | t :: ts => opEol t.op = false ∧ t.val.length = opWidth t.op ∧ TermsOpen ts

theorem decodeOps_open_error (ts : List RawTerm) (tail : Bytes) (e : Err) (fuel : Nat)
    (hs : TermsOpen ts) (hf : (ts.flatMap encodeRawTerm ++ tail).length < fuel)
    (ht : ∀ f, tail.length < f → decodeOps f tail = .error e) :
    decodeOps fuel (ts.flatMap encodeRawTerm ++ tail) = .error e := by
  induction ts generalizing fuel with
  | nil => simpa using ht fuel (by simpa using hf)
  | cons t ts ih =>
    cases fuel with
    | zero => omega
    | succ f =>
      obtain ⟨heol, hw, hrest⟩ := hs
      rw [List.flatMap_cons, List.append_assoc] at hf ⊢
      have hrec := ih f hrest (by
        simp only [encodeRawTerm, List.length_cons, List.length_append] at hf
        simp only [List.length_append]; omega)
      generalize List.flatMap encodeRawTerm ts ++ tail = rest at hf hrec ⊢
      simp only [encodeRawTerm, List.cons_append, decodeOps]
      rw [if_neg (by simp only [List.length_append]; omega)]
      simp only [heol, Bool.false_eq_true, if_false]
      have hd : List.drop (opWidth t.op) (t.val ++ rest) = rest := by
        rw [← hw, List.drop_left']; rfl
      rw [hd, hrec]

/-- an operator announcing more value bytes than are left -/
theorem decodeOps_short (op : Nat) (val : Bytes) (h : val.length < opWidth op) (f : Nat) (hf : (op :: val).length < f) :
    decodeOps f (op :: val) = .error .valueShort := by
  cases f with
  | zero => omega
  | succ f => simp [decodeOps, h]

theorem decodeComps_prefix_error (v6 : Bool) (p6bits : Nat → Nat → Option Nat) (pre : List RawComp) (tail : Bytes)
    (e : Err) (fuel : Nat) (hs : ∀ c ∈ pre, CompShape v6 p6bits c) (hf : (encodeRaw pre ++ tail).length < fuel)
    (ht : ∀ f, tail.length < f → decodeComps v6 p6bits f tail = .error e) :
    decodeComps v6 p6bits fuel (encodeRaw pre ++ tail) = .error e := by
  induction pre generalizing fuel with
  | nil => simpa [encodeRaw] using ht fuel (by simpa [encodeRaw] using hf)
  | cons c cs ih =>
    cases fuel with
    | zero => omega
    | succ f =>
      have hc := hs c List.mem_cons_self
      have hcs : ∀ c ∈ cs, CompShape v6 p6bits c := fun x hx => hs x (List.mem_cons_of_mem _ hx)
      rw [encodeRaw_cons, List.append_assoc] at hf ⊢
      have hrec := ih f hcs (by
        simp only [List.length_append] at hf ⊢
        have : 0 < (encodeRawComp c).length := by cases c <;> simp [encodeRawComp]
        omega)
      generalize hrest : encodeRaw cs ++ tail = rest at hf hrec ⊢
      cases c with
      | prefix4 ty len bs =>
        obtain ⟨hv, hk, hle, hlen⟩ := hc
        subst hv
        simp only [encodeRawComp, List.cons_append, decodeComps, hk, Bool.false_eq_true, if_false]
        rw [if_neg (by omega), if_neg (by simp only [List.length_append]; omega)]
        rw [← hlen, List.drop_left', hrec]; rfl
      | prefix6 ty len off bs =>
        obtain ⟨hv, hk, bits, hb, hlen⟩ := hc
        subst hv
        simp only [encodeRawComp, List.cons_append, decodeComps, hk, if_true, hb]
        rw [if_neg (by simp only [List.length_append]; omega)]
        rw [← hlen, List.drop_left', hrec]; rfl
      | ops ty ts =>
        obtain ⟨hk, hts⟩ := hc
        have hops := decodeOps_complete ts rest f hts (by
          simp only [encodeRawComp, List.length_append, List.length_cons] at hf
          simp only [List.length_append]; omega)
        simp only [encodeRawComp, List.cons_append, decodeComps]
        rcases hk with hk | hk <;> simp only [hk, hops, hrec]

/-- a component of a type the family does not define -/
theorem decodeComps_undefined (v6 : Bool) (p6bits : Nat → Nat → Option Nat) (t : Nat) (tail : Bytes)
    (h : kindOf v6 t = none) (f : Nat) (hf : (t :: tail).length < f) :
    decodeComps v6 p6bits f (t :: tail) = .error .undefinedType := by
  cases f with
  | zero => omega
  | succ f => simp [decodeComps, h]

/-- an operator component whose last operator announces more value bytes than the payload holds -/
theorem decodeComps_value_short (v6 : Bool) (p6bits : Nat → Nat → Option Nat) (ty : Nat) (ts : List RawTerm)
    (op : Nat) (val : Bytes) (hk : kindOf v6 ty = some .numeric ∨ kindOf v6 ty = some .bitmask)
    (hs : TermsOpen ts) (h : val.length < opWidth op) (f : Nat)
    (hf : (ty :: (ts.flatMap encodeRawTerm ++ op :: val)).length < f) :
    decodeComps v6 p6bits f (ty :: (ts.flatMap encodeRawTerm ++ op :: val)) = .error .valueShort := by
  cases f with
  | zero => omega
  | succ f =>
    have := decodeOps_open_error ts (op :: val) .valueShort f hs (by simpa using hf)
      (fun f' hf' => decodeOps_short op val h f' hf')
    simp only [decodeComps]
    rcases hk with hk | hk <;> simp only [hk, this]

/-- an operator component that ends without an end-of-list operator -/
theorem decodeComps_no_eol (v6 : Bool) (p6bits : Nat → Nat → Option Nat) (ty : Nat) (ts : List RawTerm)
    (hk : kindOf v6 ty = some .numeric ∨ kindOf v6 ty = some .bitmask)
    (hs : TermsOpen ts) (f : Nat) (hf : (ty :: ts.flatMap encodeRawTerm).length < f) :
    decodeComps v6 p6bits f (ty :: ts.flatMap encodeRawTerm) = .error .noEol := by
  cases f with
  | zero => omega
  | succ f =>
    have := decodeOps_open_error ts [] .noEol f hs (by simpa using hf)
      (fun f' hf' => by cases f' with
        | zero => simp at hf'
        | succ n => simp [decodeOps])
    simp only [List.append_nil] at this
    simp only [decodeComps]
    rcases hk with hk | hk <;> simp only [hk, this]

end Exa.Flow
