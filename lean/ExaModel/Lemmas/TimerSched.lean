import ExaModel.Lemmas.Timer
set_option linter.unusedSimpArgs false
set_option linter.unusedVariables false
/-!
Invariants of a session along a schedule of `_main` iterations (C12).

`Inv H s L A` : the session is open, was negotiated with hold time `H`, the last real message was
handed to the hold timer when the clock read `L` ms, the last KEEPALIVE was sent (or the
`SendTimer` created) when it read `A` ms.
-/
namespace Exa.Timer
open Exa.Generated

structure Inv (H : Nat) (s : Sess) (L A : Nat) : Prop where
  opn : s.closed = none
  hold : s.recv.hold = H
  code : s.recv.code = 4
  sub : s.recv.sub = 0
  lastRead : s.recv.lastRead = L / 1000
  ka : s.send.keepalive = H / 3
  lastSent : s.send.lastSent = A / 1000

theorem inv_init (H tR tS : Nat) : Inv H (Sess.init H tR tS) tR tS := by
  constructor <;> simp [Sess.init, Recv.init, Send.init, secs, keepaliveOf_eq, holdNotify_eq]

/-- what one iteration does to an open session with `H ≠ 0`, in terms of the invariant -/
theorem inv_step (H : Nat) (s : Sess) (L A : Nat) (p : Poll) (hH : H ≠ 0) (inv : Inv H s L A) :
    (p.kind.real = false ∧ L / 1000 + H < p.t / 1000 ∧
        (s.poll p).2 = .notify 4 0 ∧ (s.poll p).1.closed = some (p.t, 4, 0))
    ∨ ((p.kind.real = true ∨ p.t / 1000 ≤ L / 1000 + H) ∧
        ( ((s.poll p).2 = .ka ∧ H / 3 ≠ 0 ∧ A / 1000 + H / 3 ≤ p.t / 1000 ∧
              Inv H (s.poll p).1 (if p.kind.real = true then p.t else L) p.t)
        ∨ ((s.poll p).2 = .idle ∧ (H / 3 = 0 ∨ p.t / 1000 < A / 1000 + H / 3) ∧
              Inv H (s.poll p).1 (if p.kind.real = true then p.t else L) A))) := by
  have hh : s.recv.hold ≠ 0 := by rw [inv.hold]; exact hH
  rw [poll_pos s p inv.opn hh]
  by_cases hfire : p.kind.real = false ∧ secs p.t - s.recv.lastRead > s.recv.hold
  · left
    rw [if_pos hfire]
    obtain ⟨hr, he⟩ := hfire
    rw [inv.hold, inv.lastRead] at he
    simp only [secs] at he
    refine ⟨hr, by omega, ?_, ?_⟩
    · simp [inv.code, inv.sub]
    · simp [inv.code, inv.sub]
  · right
    rw [if_neg hfire]
    have hno : p.kind.real = true ∨ p.t / 1000 ≤ L / 1000 + H := by
      by_cases hr : p.kind.real = true
      · exact Or.inl hr
      · right
        have hr' : p.kind.real = false := by simpa using hr
        have : ¬ (secs p.t - s.recv.lastRead > s.recv.hold) := fun h => hfire ⟨hr', h⟩
        rw [inv.hold, inv.lastRead] at this
        simp only [secs] at this
        omega
    refine ⟨hno, ?_⟩
    by_cases hk : s.send.keepalive = 0
    · right
      rw [needKa_zero _ _ hk]
      refine ⟨by simp, Or.inl (by rw [← inv.ka]; exact hk), ?_⟩
      constructor <;> simp [inv.opn, inv.hold, inv.code, inv.sub, inv.ka, inv.lastSent, inv.lastRead, secs]
      split <;> simp [inv.lastRead]
    · rw [needKa_pos _ _ hk]
      have hk3 : H / 3 ≠ 0 := by rw [← inv.ka]; exact hk
      by_cases hdue : s.send.lastSent + s.send.keepalive ≤ secs p.t
      · left
        rw [if_pos hdue]
        rw [inv.lastSent, inv.ka] at hdue
        simp only [secs] at hdue
        refine ⟨by simp, hk3, hdue, ?_⟩
        constructor <;> simp [inv.opn, inv.hold, inv.code, inv.sub, inv.ka, inv.lastSent, inv.lastRead, secs]
        split <;> simp [inv.lastRead]
      · right
        rw [if_neg hdue]
        rw [inv.lastSent, inv.ka] at hdue
        simp only [secs] at hdue
        refine ⟨by simp, Or.inr (by omega), ?_⟩
        constructor <;> simp [inv.opn, inv.hold, inv.code, inv.sub, inv.ka, inv.lastSent, inv.lastRead, secs]
        split <;> simp [inv.lastRead]

/-! ### list vocabulary -/

theorem run_cons (s : Sess) (p : Poll) (ps : List Poll) :
    s.run (p :: ps) = (((s.poll p).1.run ps).1, (p.t, (s.poll p).2) :: ((s.poll p).1.run ps).2) := by
  simp [Sess.run]

theorem gaps_split (δ prev : Nat) (pre : List Poll) (p : Poll) (post : List Poll)
    (h : Gaps δ prev (pre ++ p :: post)) : p.t ≤ lastPollMs prev pre + δ := by
  induction pre generalizing prev with
  | nil => simpa [Gaps, lastPollMs] using h.1
  | cons q pre ih =>
    simp only [List.cons_append, Gaps] at h
    simpa [lastPollMs] using ih q.t h.2

/-! ### hold timer, `H ≠ 0` -/

/-- If the session ended, it ended at one poll of the schedule, which carried no real message,
    with 4/0, more than `H·1000` ms after the last poll that delivered a real message; until
    then it was open. -/
theorem closed_split (H : Nat) (hH : H ≠ 0) (ps : List Poll) (s : Sess) (L A : Nat) (inv : Inv H s L A)
    (t c sb : Nat) (hc : (s.run ps).1.closed = some (t, c, sb)) :
    ∃ pre p post, ps = pre ++ p :: post ∧ p.t = t ∧ c = 4 ∧ sb = 0 ∧ p.kind.real = false ∧
      lastRealMs L pre + H * 1000 < t ∧ (s.run pre).1.closed = none := by
  induction ps generalizing s L A with
  | nil => simp [Sess.run, inv.opn] at hc
  | cons p ps ih =>
    rw [run_cons] at hc
    simp only at hc
    rcases inv_step H s L A p hH inv with ⟨hr, hlt, _, hcl⟩ | ⟨_, h⟩
    · have := (run_closed (s.poll p).1 ps _ hcl).1
      rw [this, hcl] at hc
      simp only [Option.some.injEq, Prod.mk.injEq] at hc
      refine ⟨[], p, ps, rfl, hc.1, hc.2.1.symm, hc.2.2.symm, hr, ?_, by simp [Sess.run, inv.opn]⟩
      simp only [lastRealMs]
      omega
    · have hinv : ∃ A', Inv H (s.poll p).1 (if p.kind.real = true then p.t else L) A' := by
        rcases h with ⟨_, _, _, i⟩ | ⟨_, _, i⟩
        · exact ⟨_, i⟩
        · exact ⟨_, i⟩
      obtain ⟨A', i⟩ := hinv
      obtain ⟨pre, q, post, e, h1, h2, h3, h4, h5, h6⟩ := ih _ _ _ i hc
      refine ⟨p :: pre, q, post, by simp [e], h1, h2, h3, h4, ?_, ?_⟩
      · simpa [lastRealMs] using h5
      · rw [run_cons]; simpa using h6

/-- An open session has been silent for less than `(H+1)·1000` ms as of its last poll. -/
theorem open_silence_lt (H : Nat) (hH : H ≠ 0) (ps : List Poll) (s : Sess) (L A prev : Nat)
    (inv : Inv H s L A) (hprev : prev < L + (H + 1) * 1000)
    (ho : (s.run ps).1.closed = none) :
    lastPollMs prev ps < lastRealMs L ps + (H + 1) * 1000 := by
  induction ps generalizing s L A prev with
  | nil => simpa [lastPollMs, lastRealMs] using hprev
  | cons p ps ih =>
    rw [run_cons] at ho
    simp only at ho
    rcases inv_step H s L A p hH inv with ⟨_, _, _, hcl⟩ | ⟨hno, h⟩
    · have := (run_closed (s.poll p).1 ps _ hcl).1
      rw [this, hcl] at ho
      cases ho
    · have hinv : ∃ A', Inv H (s.poll p).1 (if p.kind.real = true then p.t else L) A' := by
        rcases h with ⟨_, _, _, i⟩ | ⟨_, _, i⟩
        · exact ⟨_, i⟩
        · exact ⟨_, i⟩
      obtain ⟨A', i⟩ := hinv
      simp only [lastPollMs, lastRealMs]
      refine ih _ _ _ p.t i ?_ ho
      by_cases hr : p.kind.real = true
      · rw [if_pos hr]; omega
      · rw [if_neg hr]
        rcases hno with h | h
        · exact absurd h hr
        · omega

/-- Polled (last poll of a non-empty schedule) with a silence of at least `(H+1)·1000` ms:
    the session has ended. -/
theorem expired_of_silence (H : Nat) (hH : H ≠ 0) (ps : List Poll) (s : Sess) (L A prev : Nat)
    (inv : Inv H s L A) (hne : ps ≠ [])
    (hs : lastRealMs L ps + (H + 1) * 1000 ≤ lastPollMs prev ps) :
    (s.run ps).1.closed ≠ none := by
  induction ps generalizing s L A prev with
  | nil => exact absurd rfl hne
  | cons p ps ih =>
    rw [run_cons]
    simp only
    rcases inv_step H s L A p hH inv with ⟨_, _, _, hcl⟩ | ⟨hno, h⟩
    · have := (run_closed (s.poll p).1 ps _ hcl).1
      rw [this, hcl]
      simp
    · have hinv : ∃ A', Inv H (s.poll p).1 (if p.kind.real = true then p.t else L) A' := by
        rcases h with ⟨_, _, _, i⟩ | ⟨_, _, i⟩
        · exact ⟨_, i⟩
        · exact ⟨_, i⟩
      obtain ⟨A', i⟩ := hinv
      simp only [lastPollMs, lastRealMs] at hs
      cases ps with
      | nil =>
        exfalso
        simp only [lastPollMs, lastRealMs] at hs
        by_cases hr : p.kind.real = true
        · rw [if_pos hr] at hs; omega
        · rw [if_neg hr] at hs
          rcases hno with h | h
          · exact hr h
          · omega
      | cons q qs => exact ih _ _ _ p.t i (by simp) hs

/-! ### keepalive timer, `H ≥ 3` -/

theorem kaTimes_cons_ka (t : Nat) (tr : List (Nat × Fired)) : kaTimes ((t, .ka) :: tr) = t :: kaTimes tr := rfl
theorem kaTimes_cons_idle (t : Nat) (tr : List (Nat × Fired)) : kaTimes ((t, .idle) :: tr) = kaTimes tr := rfl
theorem kaTimes_cons_notify (t c sb : Nat) (tr : List (Nat × Fired)) :
    kaTimes ((t, .notify c sb) :: tr) = kaTimes tr := rfl

/-- Successive KEEPALIVEs (the first counted from the creation of the `SendTimer`, at `A`) are
    less than `⌊H/3⌋·1000 + δ` ms apart when the loop comes round at least every `δ` ms. -/
theorem ka_adj_lt (H δ : Nat) (hH : 3 ≤ H) (ps : List Poll) (s : Sess) (L A prev : Nat)
    (inv : Inv H s L A) (hprev : prev / 1000 < A / 1000 + H / 3) (hg : Gaps δ prev ps) :
    AdjLt (H / 3 * 1000 + δ) (A :: kaTimes (s.run ps).2) := by
  induction ps generalizing s L A prev with
  | nil => simp [Sess.run, kaTimes, AdjLt]
  | cons p ps ih =>
    rw [run_cons]
    simp only
    obtain ⟨hg1, hg2⟩ := hg
    rcases inv_step H s L A p (by omega) inv with ⟨_, _, hf, hcl⟩ | ⟨_, ⟨hf, hk, hdue, i⟩ | ⟨hf, hnd, i⟩⟩
    · rw [hf, kaTimes_cons_notify, (run_closed (s.poll p).1 ps _ hcl).2]
      simp [AdjLt]
    · rw [hf, kaTimes_cons_ka]
      refine ⟨by omega, ?_⟩
      exact ih _ _ _ p.t i (by omega) hg2
    · rw [hf, kaTimes_cons_idle]
      exact ih _ _ _ p.t i (by omega) hg2

/-- … and more than `(⌊H/3⌋ − 1)·1000` ms apart (no KEEPALIVE storm), on every schedule. -/
theorem ka_adj_gt (H : Nat) (hH : 3 ≤ H) (ps : List Poll) (s : Sess) (L A : Nat)
    (inv : Inv H s L A) :
    AdjGt ((H / 3 - 1) * 1000) (A :: kaTimes (s.run ps).2) := by
  induction ps generalizing s L A with
  | nil => simp [Sess.run, kaTimes, AdjGt]
  | cons p ps ih =>
    rw [run_cons]
    simp only
    rcases inv_step H s L A p (by omega) inv with ⟨_, _, hf, hcl⟩ | ⟨_, ⟨hf, hk, hdue, i⟩ | ⟨hf, hnd, i⟩⟩
    · rw [hf, kaTimes_cons_notify, (run_closed (s.poll p).1 ps _ hcl).2]
      simp [AdjGt]
    · rw [hf, kaTimes_cons_ka]
      refine ⟨?_, ih _ _ _ i⟩
      have : (H / 3 - 1) * 1000 = H / 3 * 1000 - 1000 := by omega
      omega
    · rw [hf, kaTimes_cons_idle]
      exact ih _ _ _ i

/-- At every poll of an open session the last KEEPALIVE sent is less than `⌊H/3⌋·1000` ms old. -/
theorem ka_fresh (H : Nat) (hH : 3 ≤ H) (ps : List Poll) (s : Sess) (L A prev : Nat)
    (inv : Inv H s L A) (hprev : prev / 1000 < A / 1000 + H / 3)
    (ho : (s.run ps).1.closed = none) :
    lastPollMs prev ps < lastOr A (kaTimes (s.run ps).2) + H / 3 * 1000 := by
  induction ps generalizing s L A prev with
  | nil =>
    simp only [lastPollMs, Sess.run, kaTimes, lastOr]
    omega
  | cons p ps ih =>
    rw [run_cons] at ho ⊢
    simp only at ho ⊢
    rcases inv_step H s L A p (by omega) inv with ⟨_, _, hf, hcl⟩ | ⟨_, ⟨hf, hk, hdue, i⟩ | ⟨hf, hnd, i⟩⟩
    · rw [(run_closed (s.poll p).1 ps _ hcl).1, hcl] at ho
      cases ho
    · rw [hf, kaTimes_cons_ka]
      simp only [lastPollMs, lastOr]
      exact ih _ _ _ p.t i (by omega) ho
    · rw [hf, kaTimes_cons_idle]
      simp only [lastPollMs]
      exact ih _ _ _ p.t i (by omega) ho

/-! ### outbound traffic, establishment -/

/-- Outbound writes are invisible to the timers: a run over events is the run over its polls. -/
theorem runEv_eq_run (s : Sess) (evs : List Ev) :
    (s.runEv evs).1 = (s.run (pollsOf evs)).1 ∧
    kaTimes (s.runEv evs).2 = kaTimes (s.run (pollsOf evs)).2 := by
  induction evs generalizing s with
  | nil => simp [Sess.runEv, Sess.run, pollsOf]
  | cons e es ih =>
    cases e with
    | poll p =>
      obtain ⟨h1, h2⟩ := ih (s.poll p).1
      simp only [Sess.runEv, Sess.step, pollsOf, run_cons]
      refine ⟨h1, ?_⟩
      cases hf : (s.poll p).2 <;> simp [kaTimes, h2]
    | out t k =>
      obtain ⟨h1, h2⟩ := ih s
      simp only [Sess.runEv, Sess.step, pollsOf]
      exact ⟨h1, by simpa [kaTimes] using h2⟩

theorem establish_eq (l p tR tS : Nat) : Sess.establish l p tR tS = Sess.init (min l p) tR tS := rfl

/-! ### OPENCONFIRM -/

theorem openConfirmNotify_eq : TimerTable.openConfirmNotify = (4, 0) := rfl
theorem openConfirmUnexpected_eq : TimerTable.openConfirmUnexpected = (5, 2) := rfl

theorem firstReal_mem (ps : List Poll) (p : Poll) (h : firstReal ps = some p) : p ∈ ps ∧ p.kind.real = true := by
  induction ps with
  | nil => simp [firstReal] at h
  | cons q qs ih =>
    simp only [firstReal] at h
    by_cases hq : q.kind.real = true
    · simp [hq] at h; subst h; exact ⟨by simp, hq⟩
    · simp [hq] at h; exact ⟨List.mem_cons_of_mem _ (ih h).1, (ih h).2⟩

theorem firstReal_none (ps : List Poll) (h : firstReal ps = none) : ∀ q ∈ ps, q.kind.real = false := by
  induction ps with
  | nil => simp
  | cons q qs ih =>
    simp only [firstReal] at h
    by_cases hq : q.kind.real = true
    · simp [hq] at h
    · simp [hq] at h
      intro r hr
      rcases List.mem_cons.1 hr with e | e
      · subst e; simpa using hq
      · exact ih h r e

theorem mono_ge (prev : Nat) (ps : List Poll) (h : Mono prev ps) : ∀ q ∈ ps, prev ≤ q.t := by
  induction ps generalizing prev with
  | nil => simp
  | cons p ps ih =>
    intro q hq
    rcases List.mem_cons.1 hq with e | e
    · subst e; exact h.1
    · exact Nat.le_trans h.1 (ih p.t h.2 q e)

/-- in a time-ordered sequence the first real message is the earliest real message -/
theorem firstReal_le (prev : Nat) (ps : List Poll) (hm : Mono prev ps) (p : Poll) (h : firstReal ps = some p) :
    ∀ q ∈ ps, q.kind.real = true → p.t ≤ q.t := by
  induction ps generalizing prev with
  | nil => simp [firstReal] at h
  | cons r rs ih =>
    simp only [firstReal] at h
    intro q hq hqr
    by_cases hr : r.kind.real = true
    · simp [hr] at h; subst h
      rcases List.mem_cons.1 hq with e | e
      · subst e; exact Nat.le_refl _
      · exact mono_ge r.t rs hm.2 q e
    · simp [hr] at h
      rcases List.mem_cons.1 hq with e | e
      · subst e; exact absurd hqr hr
      · exact ih r.t hm.2 h q e hqr

/-- after the first KEEPALIVE (at `a`) the established-phase invariant holds with the silence counted from `a` -/
theorem inv_afterOpenConfirm (l p tC a tS : Nat) (hH : min l p ≠ 0) :
    Inv (min l p) (Sess.afterOpenConfirm l p tC a tS) a tS := by
  have hr : Kind.keepalive.real = true := by decide
  constructor <;>
    simp [Sess.afterOpenConfirm, Recv.establish, Send.establish, Recv.init, Send.init, Recv.checkKaTimer,
      negotiatedHold, hH, hr, secs, keepaliveOf_eq, holdNotify_eq]

/-! ### hold time zero -/

structure Inv0 (s : Sess) : Prop where
  opn : s.closed = none
  hold : s.recv.hold = 0
  ka : s.send.keepalive = 0

theorem inv0_init (tR tS : Nat) : Inv0 (Sess.init 0 tR tS) ∧ (Sess.init 0 tR tS).recv.single = false := by
  refine ⟨?_, ?_⟩
  · constructor <;> simp [Sess.init, Recv.init, Send.init, keepaliveOf_eq]
  · simp [Sess.init, Recv.init]

/-- With hold time zero no KEEPALIVE is ever sent, and the session ends exactly when a second
    KEEPALIVE is received, with 2/6 — never with 4/0. -/
theorem h0_run (ps : List Poll) (s : Sess) (inv : Inv0 s) :
    kaTimes (s.run ps).2 = [] ∧
    (∀ t c sb, (s.run ps).1.closed = some (t, c, sb) → c = 2 ∧ sb = 6) ∧
    ((s.run ps).1.closed ≠ none ↔ 2 ≤ kaCount ps + (if s.recv.single = true then 1 else 0)) := by
  induction ps generalizing s with
  | nil => simp [Sess.run, kaTimes, kaCount, inv.opn]; split <;> omega
  | cons p ps ih =>
    rw [run_cons]
    simp only
    rw [poll_zero s p inv.opn inv.hold inv.ka]
    by_cases hfire : p.kind.isKeepalive = true ∧ s.recv.single = true
    · rw [if_pos hfire]
      simp only
      have hcl : ({ s with closed := some (p.t, TimerTable.h0KaNotify.1, TimerTable.h0KaNotify.2) } : Sess).closed
          = some (p.t, 2, 6) := by simp [h0KaNotify_eq]
      have hr := run_closed _ ps _ hcl
      rw [hr.1, kaTimes_cons_notify, hr.2]
      refine ⟨rfl, ?_, ?_⟩
      · intro t c sb h
        simp [h0KaNotify_eq] at h
        omega
      · simp [kaCount, hfire.1, hfire.2]
    · rw [if_neg hfire]
      simp only
      have i : Inv0 { s with recv := { s.recv with single := s.recv.single || p.kind.isKeepalive } } := by
        constructor <;> simp [inv.opn, inv.hold, inv.ka]
      obtain ⟨h1, h2, h3⟩ := ih _ i
      refine ⟨by simpa [kaTimes] using h1, h2, ?_⟩
      rw [h3]
      simp only [kaCount]
      by_cases hk : p.kind.isKeepalive = true
      · have hs : s.recv.single = false := by
          cases h : s.recv.single with
          | false => rfl
          | true => exact absurd ⟨hk, h⟩ hfire
        simp [hk, hs]
        omega
      · simp [hk]

end Exa.Timer
