import ExaModel.Lemmas.Wire
set_option linter.unusedSimpArgs false
/-! Byte accounting of the M-Wire decoder: whatever it accepts, the reference encoding of the value
    it returns is as long as the bytes it consumed — nothing is skipped, nothing read twice.
    (Equality of the bytes themselves cannot hold: the RFCs make the decoder ignore the four low
    flag bits, the reserved octet of MP_REACH_NLRI, the spare bits of a label and the label of a
    withdrawal.) -/
namespace Exa.Wire
open Exa

/-! ### NLRI -/

theorem decStack_len (n : Nat) (bs : Bytes) (ls : List Nat) (rest : Bytes)
    (h : decStack n bs = some (ls, rest)) : ls ≠ [] ∧ bs.length = 3 * ls.length + rest.length := by
  induction n generalizing bs ls rest with
  | zero => simp [decStack] at h
  | succ m ih =>
    rw [decStack_succ] at h
    by_cases c1 : bs.length < 3
    · simp [c1] at h
    rw [if_neg c1] at h
    by_cases c2 : rd24 bs % 2 = 1
    · rw [if_pos c2] at h
      simp only [Option.some.injEq, Prod.mk.injEq] at h
      obtain ⟨rfl, rfl⟩ := h
      refine ⟨by simp, ?_⟩
      simp only [List.length_cons, List.length_nil, List.length_drop]; omega
    · rw [if_neg c2] at h
      cases hd : decStack m (bs.drop 3) with
      | none => rw [hd] at h; simp at h
      | some pr =>
        obtain ⟨l', r'⟩ := pr
        rw [hd] at h
        simp only [Option.some.injEq, Prod.mk.injEq] at h
        obtain ⟨rfl, rfl⟩ := h
        obtain ⟨_, hl⟩ := ih _ _ _ hd
        refine ⟨by simp, ?_⟩
        simp only [List.length_cons, List.length_drop] at hl ⊢; omega

theorem encNlri_length (safi : Nat) (wd : Bool) (n : Nlri) :
    (encNlri safi wd n).length =
      (encPathId n.pathId).length + 1 + (labelField safi wd n.labels).length + n.rd.length + n.pfx.length := by
  simp [encNlri]; omega

theorem decPathId_len (ap : Bool) (bs : Bytes) (pid : Option Nat) (b1 : Bytes)
    (h : decPathId ap bs = .ok (pid, b1)) : bs.length = (encPathId pid).length + b1.length := by
  unfold decPathId at h
  cases ap with
  | false =>
    simp only [Bool.false_eq_true, if_false, Except.ok.injEq, Prod.mk.injEq] at h
    obtain ⟨rfl, rfl⟩ := h
    simp [encPathId]
  | true =>
    simp only [if_true] at h
    by_cases c : bs.length < 4
    · simp [c] at h
    · rw [if_neg c] at h
      simp only [Except.ok.injEq, Prod.mk.injEq] at h
      obtain ⟨rfl, rfl⟩ := h
      simp only [encPathId, be32_length, List.length_drop]; omega

theorem decLabels_len (safi : Nat) (wd : Bool) (len : Nat) (b2 : Bytes) (ls : List Nat) (used : Nat) (b3 : Bytes)
    (h : decLabels safi wd len b2 = .ok (ls, used, b3)) :
    b2.length = (labelField safi wd ls).length + b3.length := by
  unfold decLabels at h
  cases hL : hasLabel safi with
  | false =>
    simp only [hL, Bool.false_eq_true, if_false, Except.ok.injEq, Prod.mk.injEq] at h
    obtain ⟨rfl, _, rfl⟩ := h
    simp [labelField, hL]
  | true =>
    simp only [hL, if_true] at h
    by_cases c : wd = true ∧ 3 ≤ b2.length ∧ rd24 b2 = wdLabel ∧ rdBits safi + 24 ≤ len
    · rw [if_pos c] at h
      simp only [Except.ok.injEq, Prod.mk.injEq] at h
      obtain ⟨rfl, _, rfl⟩ := h
      obtain ⟨hw, h3, _, _⟩ := c
      simp only [labelField, hL, hw, if_true, List.isEmpty_nil, Bool.and_self, be24_length, List.length_drop]
      omega
    · rw [if_neg c] at h
      cases hd : decStack ((len - rdBits safi) / 24) b2 with
      | none => rw [hd] at h; simp at h
      | some pr =>
        obtain ⟨l', r'⟩ := pr
        rw [hd] at h
        simp only [Except.ok.injEq, Prod.mk.injEq] at h
        obtain ⟨rfl, _, rfl⟩ := h
        obtain ⟨hne, hl⟩ := decStack_len _ _ _ _ hd
        have he : l'.isEmpty = false := by
          cases l' with
          | nil => exact absurd rfl hne
          | cons _ _ => rfl
        simp only [labelField, hL, if_true, he, Bool.and_false, Bool.false_eq_true, if_false, encStack_length]
        exact hl

theorem decRdPrefix_len (afi safi : Nat) (pid : Option Nat) (ls : List Nat) (bits : Nat) (b3 : Bytes)
    (n : Nlri) (rest : Bytes) (h : decRdPrefix afi safi pid ls bits b3 = .ok (n, rest)) :
    n.pathId = pid ∧ n.labels = ls ∧ b3.length = n.rd.length + n.pfx.length + rest.length := by
  unfold decRdPrefix at h
  by_cases c1 : bits < rdBits safi
  · rw [if_pos c1] at h; cases h
  by_cases c2 : b3.length < rdBits safi / 8
  · rw [if_neg c1, if_pos c2] at h; cases h
  by_cases c3 : bits - rdBits safi > maxBits afi
  · rw [if_neg c1, if_neg c2, if_pos c3] at h; cases h
  by_cases c4 : (b3.drop (rdBits safi / 8)).length < prefixBytes (bits - rdBits safi)
  · rw [if_neg c1, if_neg c2, if_neg c3, if_pos c4] at h; cases h
  rw [if_neg c1, if_neg c2, if_neg c3, if_neg c4] at h
  simp only [Except.ok.injEq, Prod.mk.injEq] at h
  obtain ⟨rfl, rfl⟩ := h
  refine ⟨rfl, rfl, ?_⟩
  simp only [List.length_take, List.length_drop] at c4 ⊢
  omega

/-- One NLRI: the bytes consumed are as many as the reference encoding of what was read. -/
theorem decNlri_len (afi safi : Nat) (ap wd : Bool) (bs : Bytes) (n : Nlri) (rest : Bytes)
    (h : decNlri afi safi ap wd bs = .ok (n, rest)) :
    bs.length = (encNlri safi wd n).length + rest.length := by
  unfold decNlri at h
  cases hp : decPathId ap bs with
  | error e => rw [hp] at h; simp at h
  | ok pr =>
    obtain ⟨pid, b1⟩ := pr
    rw [hp] at h
    have l1 := decPathId_len ap bs pid b1 hp
    cases b1 with
    | nil => simp at h
    | cons len b2 =>
      simp only at h
      cases hl : decLabels safi wd len b2 with
      | error e => rw [hl] at h; simp at h
      | ok tr =>
        obtain ⟨ls, used, b3⟩ := tr
        rw [hl] at h
        simp only at h
        have l2 := decLabels_len safi wd len b2 ls used b3 hl
        by_cases c : len < used
        · simp [c] at h
        · rw [if_neg c] at h
          obtain ⟨e1, e2, l3⟩ := decRdPrefix_len afi safi pid ls (len - used) b3 n rest h
          rw [encNlri_length, e1, e2]
          simp only [List.length_cons] at l1
          omega

/-- The NLRI walk reads its field to the last byte. -/
theorem decNlris_len (afi safi : Nat) (ap wd : Bool) (fuel : Nat) (bs : Bytes) (ns : List Nlri)
    (h : decNlris afi safi ap wd fuel bs = .ok ns) : (encNlris safi wd ns).length = bs.length := by
  induction fuel generalizing bs ns with
  | zero =>
    cases bs with
    | nil => simp [decNlris] at h; subst h; rfl
    | cons b t => simp [decNlris] at h
  | succ f ih =>
    cases bs with
    | nil => simp [decNlris] at h; subst h; rfl
    | cons b t =>
      simp only [decNlris] at h
      cases h1 : decNlri afi safi ap wd (b :: t) with
      | error e => rw [h1] at h; simp at h
      | ok pr =>
        obtain ⟨n, rest⟩ := pr
        rw [h1] at h
        simp only at h
        cases h2 : decNlris afi safi ap wd f rest with
        | error e => rw [h2] at h; simp at h
        | ok ns' =>
          rw [h2] at h
          simp only [Except.ok.injEq] at h
          subst h
          have := decNlri_len afi safi ap wd (b :: t) n rest h1
          simp only [encNlris, List.length_append, ih rest ns' h2]
          omega

/-! ### attribute values -/

theorem decAsns_len (w4 : Bool) (n : Nat) (bs : Bytes) (l : List Nat) (rest : Bytes)
    (h : decAsns w4 n bs = some (l, rest)) :
    l.length = n ∧ bs.length = (if w4 then 4 else 2) * n + rest.length := by
  induction n generalizing bs l rest with
  | zero =>
    simp only [decAsns, Option.some.injEq, Prod.mk.injEq] at h
    obtain ⟨rfl, rfl⟩ := h
    simp
  | succ m ih =>
    cases w4 with
    | true =>
      rw [decAsns_succ_true] at h
      by_cases c : bs.length < 4
      · simp [c] at h
      rw [if_neg c] at h
      cases hd : decAsns true m (bs.drop 4) with
      | none => rw [hd] at h; simp at h
      | some pr =>
        obtain ⟨l', r'⟩ := pr
        rw [hd] at h
        simp only [Option.some.injEq, Prod.mk.injEq] at h
        obtain ⟨rfl, rfl⟩ := h
        obtain ⟨e1, e2⟩ := ih _ _ _ hd
        simp only [List.length_cons, List.length_drop, if_true] at e2 ⊢
        omega
    | false =>
      rw [decAsns_succ_false] at h
      by_cases c : bs.length < 2
      · simp [c] at h
      rw [if_neg c] at h
      cases hd : decAsns false m (bs.drop 2) with
      | none => rw [hd] at h; simp at h
      | some pr =>
        obtain ⟨l', r'⟩ := pr
        rw [hd] at h
        simp only [Option.some.injEq, Prod.mk.injEq] at h
        obtain ⟨rfl, rfl⟩ := h
        obtain ⟨e1, e2⟩ := ih _ _ _ hd
        simp only [List.length_cons, List.length_drop, Bool.false_eq_true, if_false] at e2 ⊢
        omega

theorem decAsns_some (n : Nat) (bs : Bytes) (h : 4 * n ≤ bs.length) :
    ∃ l rest, decAsns true n bs = some (l, rest) := by
  induction n generalizing bs with
  | zero => exact ⟨[], bs, rfl⟩
  | succ m ih =>
    rw [decAsns_succ_true]
    have c : ¬ bs.length < 4 := by omega
    rw [if_neg c]
    obtain ⟨l, r, hl⟩ := ih (bs.drop 4) (by simp only [List.length_drop]; omega)
    rw [hl]
    exact ⟨_, _, rfl⟩

theorem decU32s_len (v : Bytes) (h : v.length % 4 = 0) :
    (decU32s v).length = v.length / 4 ∧ (encAsns true (decU32s v)).length = v.length := by
  unfold decU32s
  obtain ⟨l, r, hl⟩ := decAsns_some (v.length / 4) v (by omega)
  obtain ⟨e1, _⟩ := decAsns_len true _ _ _ _ hl
  rw [hl]
  show l.length = v.length / 4 ∧ (encAsns true l).length = v.length
  refine ⟨e1, ?_⟩
  have e := encAsns_length true l
  simp only [if_true] at e
  omega

theorem decSegs_len (w4 : Bool) (fuel : Nat) (bs : Bytes) (segs : List Seg)
    (h : decSegs w4 fuel bs = some segs) : (encSegs w4 segs).length = bs.length := by
  induction fuel generalizing bs segs with
  | zero =>
    cases bs with
    | nil => simp [decSegs] at h; subst h; rfl
    | cons b t => simp [decSegs] at h
  | succ f ih =>
    match bs with
    | [] => simp [decSegs] at h; subst h; rfl
    | [_] => simp [decSegs] at h
    | t :: c :: r =>
      rw [decSegs_succ] at h
      by_cases cc : t = 0 ∨ t > 4 ∨ c = 0
      · simp [cc] at h
      rw [if_neg cc] at h
      cases hd : decAsns w4 c r with
      | none => rw [hd] at h; simp at h
      | some pr =>
        obtain ⟨as, rest⟩ := pr
        rw [hd] at h
        simp only at h
        cases hs : decSegs w4 f rest with
        | none => rw [hs] at h; simp at h
        | some ss =>
          rw [hs] at h
          simp only [Option.some.injEq] at h
          subst h
          obtain ⟨e1, e2⟩ := decAsns_len w4 c r as rest hd
          rw [encSegs_cons]
          simp only [List.length_cons, List.length_append, encAsns_length, ih rest ss hs, e1]
          omega

theorem flat2_unflat2_length (l : List Nat) (h : l.length % 2 = 0) : (flat2 (unflat2 l)).length = l.length := by
  match l with
  | [] => rfl
  | [_] => simp at h
  | a :: b :: t =>
    simp only [unflat2, flat2, List.length_cons]
    rw [flat2_unflat2_length t (by simp only [List.length_cons] at h; omega)]

theorem flat3_unflat3_length (l : List Nat) (h : l.length % 3 = 0) : (flat3 (unflat3 l)).length = l.length := by
  match l with
  | [] => rfl
  | [_] => simp at h
  | [_, _] => simp at h
  | a :: b :: c :: t =>
    simp only [unflat3, flat3, List.length_cons]
    rw [flat3_unflat3_length t (by simp only [List.length_cons] at h; omega)]

theorem decMpReach_len (p : Params) (v : Bytes) (val : AttrVal) (h : decMpReach p v = .ok val) :
    (encVal p val).length = v.length := by
  unfold decMpReach at h
  by_cases c1 : v.length < 5
  · rw [if_pos c1] at h; cases h
  by_cases c2 : v.length < 5 + v.getD 3 0
  · rw [if_neg c1, if_pos c2] at h; cases h
  rw [if_neg c1, if_neg c2] at h
  simp only at h
  have hnh : ((v.drop 4).take (v.getD 3 0)).length = v.getD 3 0 := by
    simp only [List.length_take, List.length_drop]; omega
  cases hs : supported (rd16 v) (v.getD 2 0) with
  | false =>
    simp only [hs, Bool.false_eq_true, if_false, Except.ok.injEq] at h
    subst h
    simp only [encVal, List.length_append, be16_length, List.length_cons, hnh, List.length_drop]
    omega
  | true =>
    simp only [hs, if_true] at h
    cases hd : decNlris (rd16 v) (v.getD 2 0) (p.ap (rd16 v) (v.getD 2 0)) false
        (v.drop (5 + v.getD 3 0)).length (v.drop (5 + v.getD 3 0)) with
    | error e => rw [hd] at h; simp at h
    | ok ns =>
      rw [hd] at h
      simp only [Except.ok.injEq] at h
      subst h
      have := decNlris_len _ _ _ _ _ _ _ hd
      simp only [encVal, List.length_append, be16_length, List.length_cons, hnh, this, List.length_drop]
      omega

theorem decMpUnreach_len (p : Params) (v : Bytes) (val : AttrVal) (h : decMpUnreach p v = .ok val) :
    (encVal p val).length = v.length := by
  unfold decMpUnreach at h
  by_cases c1 : v.length < 3
  · rw [if_pos c1] at h; cases h
  rw [if_neg c1] at h
  simp only at h
  cases hs : supported (rd16 v) (v.getD 2 0) with
  | false =>
    simp only [hs, Bool.false_eq_true, if_false, Except.ok.injEq] at h
    subst h
    simp only [encVal, List.length_append, be16_length, List.length_cons, List.length_drop]
    omega
  | true =>
    simp only [hs, if_true] at h
    cases hd : decNlris (rd16 v) (v.getD 2 0) (p.ap (rd16 v) (v.getD 2 0)) true (v.drop 3).length (v.drop 3) with
    | error e => rw [hd] at h; simp at h
    | ok ns =>
      rw [hd] at h
      simp only [Except.ok.injEq] at h
      subst h
      have := decNlris_len _ _ _ _ _ _ _ hd
      simp only [encVal, List.length_append, be16_length, List.length_cons, this, List.length_drop]
      omega

end Exa.Wire
