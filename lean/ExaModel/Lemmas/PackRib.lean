import ExaModel.Lemmas.PackSpec
set_option linter.unusedSimpArgs false
set_option linter.unusedVariables false
/-! When does `messages` run to its end?  For the shapes of collection the RIB builds
    (`OutgoingRIB.updates`: announces of ONE kind — IPv4 classic, or MP — or withdraws alone)
    `FitsAlone` is enough: no `RuntimeError`, no `struct.error`, no silent give-up. -/
namespace Exa.Pack

theorem splitGroup_no_raise (maxi hdr : Nat) :
    ∀ (xs cur : List Nlri), (∀ x ∈ xs, attrLen (hdr + x.size) ≤ maxi) →
      (splitGroup maxi hdr xs cur).2 = false := by
  intro xs
  induction xs with
  | nil => intro cur _; rfl
  | cons x xs ih =>
    intro cur hx
    have hx0 := hx x (by simp)
    have hxs : ∀ y ∈ xs, attrLen (hdr + y.size) ≤ maxi := fun y hy => hx y (by simp [hy])
    unfold splitGroup
    split
    · rename_i hbig
      split
      · rename_i h0
        exfalso
        have e : hdr + sz cur + x.size = hdr + x.size := by omega
        rw [e] at hbig; omega
      · exact ih [x] hxs
    · exact ih (cur ++ [x]) hxs

theorem reachGen_no_raise (maxi fam : Nat) :
    ∀ gs : List ((Nat × Nat) × List Nlri), (∀ g ∈ gs, ∀ x ∈ g.2, attrLen (5 + g.1.2 + x.size) ≤ maxi) →
      (reachGen maxi fam gs).2 = false := by
  intro gs
  induction gs with
  | nil => intro _; rfl
  | cons g gs ih =>
    intro hg
    obtain ⟨k, xs⟩ := g
    have h1 := splitGroup_no_raise maxi (5 + k.2) xs [] (hg (k, xs) (by simp))
    unfold reachGen
    simp only [h1, Bool.false_eq_true, if_false]
    exact ih (fun g' hg' => hg g' (by simp [hg']))

theorem unreachGen_no_raise (maxi fam : Nat) (xs : List Nlri) (hx : ∀ x ∈ xs, attrLen (3 + x.size) ≤ maxi) :
    (unreachGen maxi fam xs).2 = false := by
  unfold unreachGen
  exact splitGroup_no_raise maxi 3 xs [] hx

theorem feedReach_nil_state (attr : Nat) :
    ∀ (rs : List Mp) (p : Option Mp), (feedReach attr rs [] [] p).2.w = [] ∧ (feedReach attr rs [] [] p).2.a = [] := by
  intro rs
  induction rs with
  | nil => intro p; exact ⟨rfl, rfl⟩
  | cons r rs ih =>
    intro p
    cases p with
    | none => unfold feedReach; exact ih (some r)
    | some p => unfold feedReach; exact ih (some r)

/-- one family, nothing left over from the IPv4 part, and announces or withdraws but not both:
    no `RuntimeError` when every NLRI fits alone -/
theorem famStep_no_raise (inclW : Bool) (ms attr fam : Nat) (ra wa : List Nlri)
    (hra : ∀ x ∈ ra, attrLen (5 + x.nhLen + x.size) ≤ ms)
    (hwa : inclW = true → ∀ x ∈ wa, attrLen (3 + x.size) ≤ ms)
    (hone : ra = [] ∨ wa = [] ∨ inclW = false) :
    (famStep inclW ms attr fam ra wa [] []).2 = false := by
  have hg : ∀ g ∈ groupsOf ra, ∀ x ∈ g.2, attrLen (5 + g.1.2 + x.size) ≤ ms - (sz ([] : List Nlri) + sz ([] : List Nlri)) := by
    intro g hg x hx
    obtain ⟨hxr, hk⟩ := groupsOf_mem hg x hx
    have := hra x hxr
    rw [← hk]; simpa [nhKey] using this
  have h1 := reachGen_no_raise (ms - (sz ([] : List Nlri) + sz ([] : List Nlri))) fam (groupsOf ra) hg
  unfold famStep
  simp only [h1, Bool.false_eq_true, if_false]
  split
  · rename_i hi
    rcases hone with h | h | h
    · -- no announce: nothing pending, the withdraw generator gets the whole room
      subst h
      have e : (reachGen (ms - (sz ([] : List Nlri) + sz ([] : List Nlri))) fam (groupsOf [])).1 = [] := by
        simp [groupsOf, firsts, reachGen]
      rw [e]
      simp only [feedReach, sz_nil, owire_none, Nat.add_zero, Nat.sub_zero]
      have := unreachGen_no_raise ms fam wa (hwa hi)
      simp [this]
    · subst h
      have : ∀ m, (unreachGen m fam []).2 = false := fun m => unreachGen_no_raise m fam [] (by intro x hx; simp at hx)
      simp [this]
    · rw [hi] at h; cases h
  · rfl

theorem famLoop_no_raise (inclW : Bool) (ms attr : Nat) (ma mw : List Nlri)
    (hma : ∀ x ∈ ma, attrLen (5 + x.nhLen + x.size) ≤ ms)
    (hmw : inclW = true → ∀ x ∈ mw, attrLen (3 + x.size) ≤ ms)
    (hone : ma = [] ∨ mw = [] ∨ inclW = false) :
    ∀ fs : List Nat, (famLoop inclW ms attr ma mw fs [] []).2 = false := by
  intro fs
  induction fs with
  | nil => rfl
  | cons f fs ih =>
    have s := famStep_no_raise inclW ms attr f (ma.filter (fun x => x.fam = f)) (mw.filter (fun x => x.fam = f))
      (fun x hx => hma x (List.mem_filter.1 hx).1) (fun hi x hx => hmw hi x (List.mem_filter.1 hx).1)
      (by
        rcases hone with h | h | h
        · exact Or.inl (by simp [h])
        · exact Or.inr (Or.inl (by simp [h]))
        · exact Or.inr (Or.inr h))
    unfold famLoop
    simp only [s, Bool.false_eq_true, if_false]
    exact ih

theorem v4AnnLoop_no_bail (ms attr : Nat) :
    ∀ (xs w a : List Nlri), (∀ x ∈ xs, x.size ≤ ms) → (v4AnnLoop ms attr xs w a).bailed = false := by
  intro xs
  induction xs with
  | nil => intro w a _; rfl
  | cons x xs ih =>
    intro w a hx
    have hx0 := hx x (by simp)
    have hxs : ∀ y ∈ xs, y.size ≤ ms := fun y hy => hx y (by simp [hy])
    unfold v4AnnLoop
    split
    · exact ih w (a ++ [x]) hxs
    · split
      · rename_i hnf h0; omega
      · exact ih [] [x] hxs

theorem v4WdLoop_no_bail (ms attr : Nat) :
    ∀ (xs w a : List Nlri), (∀ x ∈ xs, x.size ≤ ms) → (v4WdLoop ms attr xs w a).bailed = false := by
  intro xs
  induction xs with
  | nil => intro w a _; rfl
  | cons x xs ih =>
    intro w a hx
    have hx0 := hx x (by simp)
    have hxs : ∀ y ∈ xs, y.size ≤ ms := fun y hy => hx y (by simp [hy])
    unfold v4WdLoop
    split
    · exact ih (w ++ [x]) a hxs
    · split
      · rename_i hnf h0; omega
      · exact ih [x] [] hxs

theorem cut_ok : ∀ (l : List Msg), (∀ m ∈ l, m.len ≤ 65535) → (cut l).2 = false := by
  intro l
  induction l with
  | nil => intro _; rfl
  | cons x xs ih =>
    intro h
    have hx := h x (by simp)
    unfold cut
    have : ¬ x.len > 65535 := by omega
    simp only [this, if_false]
    exact ih (fun m hm => h m (by simp [hm]))

/-- the shapes `OutgoingRIB.updates` builds: only classic IPv4 NLRIs, or only MP NLRIs of which
    either announces or withdraws (to be sent) but not both -/
def RibShaped (i : Input) : Prop :=
  (mpAnns i = [] ∧ mpWds i = []) ∨
  (v4Anns i = [] ∧ v4Wds i = [] ∧ (mpAnns i = [] ∨ mpWds i = [] ∨ i.includeWithdraw = false))

instance (i : Input) : Decidable (RibShaped i) := by unfold RibShaped; exact inferInstance

theorem packRaw_rib_ok (i : Input) (hfit : FitsAlone i) (hroom : 23 + chosenAttr i < i.M) (hs : RibShaped i) :
    (packRaw i).status = .ok := by
  obtain ⟨h1, h2, h3, h4⟩ := hfit
  unfold packRaw
  split
  · rfl
  · simp only
    split
    · rename_i h; omega
    · split
      · rename_i h; omega
      · generalize hms : i.M - 23 - chosenAttr i = ms
        have hMe : 23 + chosenAttr i + ms = i.M := by omega
        have b1 := v4AnnLoop_no_bail ms (chosenAttr i) (v4Anns i) [] [] (fun x hx => by have := h1 x hx; omega)
        simp only [b1, Bool.false_eq_true, if_false]
        have b2 : (v4WdPart i.includeWithdraw ms (chosenAttr i) (v4Wds i)
            (v4AnnLoop ms (chosenAttr i) (v4Anns i) [] []).w (v4AnnLoop ms (chosenAttr i) (v4Anns i) [] []).a).bailed = false := by
          unfold v4WdPart
          split
          · rename_i hi
            exact v4WdLoop_no_bail ms (chosenAttr i) (v4Wds i) _ _ (fun x hx => by have := h2 hi x hx; omega)
          · rfl
        simp only [b2, Bool.false_eq_true, if_false]
        suffices hmp : (famLoop i.includeWithdraw ms (chosenAttr i) (mpAnns i) (mpWds i) (mpFams i)
            (v4WdPart i.includeWithdraw ms (chosenAttr i) (v4Wds i)
              (v4AnnLoop ms (chosenAttr i) (v4Anns i) [] []).w (v4AnnLoop ms (chosenAttr i) (v4Anns i) [] []).a).w
            (v4WdPart i.includeWithdraw ms (chosenAttr i) (v4Wds i)
              (v4AnnLoop ms (chosenAttr i) (v4Anns i) [] []).w (v4AnnLoop ms (chosenAttr i) (v4Anns i) [] []).a).a).2 = false by
          simp [hmp]
        rcases hs with ⟨e1, e2⟩ | ⟨e1, e2, e3⟩
        · -- no MP family at all
          have : mpFams i = [] := by
            unfold mpFams; simp [e1, e2]
          rw [this]; rfl
        · -- no IPv4 NLRI: the MP loop starts with empty hands
          have hw : (v4WdPart i.includeWithdraw ms (chosenAttr i) (v4Wds i)
              (v4AnnLoop ms (chosenAttr i) (v4Anns i) [] []).w (v4AnnLoop ms (chosenAttr i) (v4Anns i) [] []).a) =
              { msgs := [], w := [], a := [], bailed := false } := by
            rw [e1, e2]; unfold v4WdPart; split <;> simp [v4AnnLoop, v4WdLoop]
          rw [hw]
          exact famLoop_no_raise i.includeWithdraw ms (chosenAttr i) (mpAnns i) (mpWds i)
            (fun x hx => by have := h3 x hx; omega) (fun hi x hx => by have := h4 hi x hx; omega) e3 (mpFams i)

end Exa.Pack
