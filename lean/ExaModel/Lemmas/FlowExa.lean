import ExaModel.Lemmas.FlowAction
set_option linter.unusedSimpArgs false
/-! ExaBGP's encoder (`exaPack`) against the RFC reference encoder on good text. -/
namespace Exa.Flow

theorem take_beN (n k v : Nat) : (beN (n + k) v).take n = beN n (v / 256 ^ k) := by
  induction n with
  | zero => simp [beN]
  | succ n ih =>
    have e : n + 1 + k = (n + k) + 1 := by omega
    rw [e]
    simp only [beN, List.take_succ_cons, ih]
    congr 1
    rw [Nat.div_div_eq_div_mul, ← Nat.pow_add, Nat.add_comm k n]

/-- `raw[:ceil(len/8)]` of a canonical address is the RFC pattern field (offset 0) -/
theorem prefix_bytes (N len addr : Nat) (hlen : len ≤ N * 8) (haddr : addr < 2 ^ (N * 8))
    (hmod : addr % 2 ^ (N * 8 - len) = 0) :
    (beN N addr).take (patBytes len) = patEncode len (addr / 2 ^ (N * 8 - len) % 2 ^ len) := by
  have hn : patBytes len ≤ N := by simp only [patBytes]; omega
  have hge := patBytes_ge len
  obtain ⟨k, hk⟩ : ∃ k, N = patBytes len + k := ⟨N - patBytes len, by omega⟩
  generalize hq : addr / 2 ^ (N * 8 - len) = q
  have hqlt : q < 2 ^ len := by
    rw [← hq]
    apply Nat.div_lt_of_lt_mul
    rw [← Nat.pow_add]
    have : N * 8 - len + len = N * 8 := by omega
    rw [this]; exact haddr
  have haddr' : addr = 2 ^ (N * 8 - len) * q := by
    have := Nat.div_add_mod addr (2 ^ (N * 8 - len))
    rw [hmod, hq] at this; omega
  rw [Nat.mod_eq_of_lt hqlt]
  conv => lhs; rw [hk]
  rw [take_beN]
  simp only [patEncode]
  congr 1
  rw [pow256, haddr']
  have e : N * 8 - len = k * 8 + (patBytes len * 8 - len) := by omega
  rw [e, Nat.pow_add, Nat.mul_assoc, Nat.mul_div_cancel_left _ (Nat.pow_pos (by omega)), Nat.mul_comm]

theorem b2n_decide_mod2 (x : Nat) : b2n (decide (x % 2 = 1)) = x % 2 := by
  rcases Nat.mod_two_eq_zero_or_one x with h | h <;> simp [h, b2n]

theorem exaEncodeValue_good (m v : Nat) (hm : m = 1 ∨ m = 2 ∨ m = 4) (hv : v < 256 ^ m) :
    exaEncodeValue m (v : Int) = .ok (widthCode v, beN (2 ^ widthCode v) v) := by
  rcases hm with rfl | rfl | rfl
  · have h : v < 256 := by simpa using hv
    have hi : (v : Int) < 256 := by omega
    simp [exaEncodeValue, widthCode, h, hi, beN, Nat.mod_eq_of_lt h]
  · have h2 : v < 65536 := by simpa using hv
    have h2i : (v : Int) < 65536 := by omega
    by_cases h : v < 256
    · have hi : (v : Int) < 256 := by omega
      simp [exaEncodeValue, widthCode, h, hi, beN, Nat.mod_eq_of_lt h]
    · have hi : ¬ ((v : Int) < 256) := by omega
      simp [exaEncodeValue, widthCode, h, hi, h2, h2i, beN]
  · have h4 : v < 4294967296 := by simpa using hv
    have h4i : (v : Int) < 4294967296 := by omega
    by_cases h : v < 256
    · have hi : (v : Int) < 256 := by omega
      simp [exaEncodeValue, widthCode, h, hi, beN, Nat.mod_eq_of_lt h]
    · have hi : ¬ ((v : Int) < 256) := by omega
      by_cases h2 : v < 65536
      · have h2i : (v : Int) < 65536 := by omega
        simp [exaEncodeValue, widthCode, h, hi, h2, h2i, beN]
      · have h2i : ¬ ((v : Int) < 65536) := by omega
        simp [exaEncodeValue, widthCode, h, hi, h2, h2i, h4, h4i, beN]

/-- an operation as the text parser builds it, fit for a component whose class writes up to `m` bytes -/
def GoodPair (m : Nat) (numeric : Bool) (p : Nat × Int) : Prop :=
  ∃ v : Nat, p.2 = (v : Int) ∧ v < 256 ^ m ∧ p.1 % 64 < 8 ∧ p.1 < 128 ∧ (numeric = false → p.1 / 4 % 2 = 0)

theorem exaPackOp_good (m : Nat) (last numeric : Bool) (p : Nat × Int) (hm : m = 1 ∨ m = 2 ∨ m = 4)
    (h : GoodPair m numeric p) :
    exaPackOp m last p.1 p.2 = .ok (encodeRawTerm (toRawTerm last (termOfFlags numeric false p.1 p.2))) := by
  obtain ⟨v, hv, hlt, hf, hf2, hb⟩ := h
  rw [hv]
  simp only [exaPackOp, exaEncodeValue_good m v hm hlt, encodeRawTerm, toRawTerm, termOfFlags, Int.toNat_natCast,
    Bool.false_eq_true, if_false]
  congr 2
  simp only [opByte, opAnd, opLt, opGt, opEq, b2n_decide_mod2]
  cases numeric
  · have := hb rfl
    simp only [Bool.false_eq_true, if_false, b2n]
    omega
  · simp only [if_true, b2n_decide_mod2]
    omega

theorem exaPackOps_good (m : Nat) (numeric : Bool) (ps : List (Nat × Int)) (hm : m = 1 ∨ m = 2 ∨ m = 4)
    (h : ∀ p ∈ ps, GoodPair m numeric p) :
    exaPackOps m ps = .ok ((toRawTerms (ps.map (fun p => termOfFlags numeric false p.1 p.2))).flatMap encodeRawTerm) := by
  induction ps with
  | nil => rfl
  | cons p rest ih =>
    have hrec := ih (fun x hx => h x (List.mem_cons_of_mem _ hx))
    obtain ⟨f, v⟩ := p
    have hp := exaPackOp_good m rest.isEmpty numeric (f, v) hm (h _ List.mem_cons_self)
    simp only at hp
    simp only [exaPackOps, hp, hrec]
    cases rest with
    | nil => simp [toRawTerms]
    | cons q qs => simp [toRawTerms]

theorem mem_opPairs (g : List TComp) (p : Nat × Int) (h : p ∈ opPairs g) : ∃ ty, TComp.op ty p.1 p.2 ∈ g := by
  induction g with
  | nil => simp [opPairs] at h
  | cons c cs ih =>
    cases c with
    | op ty f v =>
      simp only [opPairs, List.mem_cons] at h
      rcases h with h | h
      · subst h; exact ⟨ty, List.mem_cons_self⟩
      · obtain ⟨ty', h'⟩ := ih h; exact ⟨ty', List.mem_cons_of_mem _ h'⟩
    | prefix4 _ _ _ =>
      simp only [opPairs] at h
      obtain ⟨ty', h'⟩ := ih h; exact ⟨ty', List.mem_cons_of_mem _ h'⟩
    | prefix6 _ _ _ _ =>
      simp only [opPairs] at h
      obtain ⟨ty', h'⟩ := ih h; exact ⟨ty', List.mem_cons_of_mem _ h'⟩

/-! ### Good text -/

/-- A text component the RFCs can express, in family `v6`: canonical prefixes (no host bits) with
    offset 0, operator flags as the parser builds them, values within the component's RFC width. -/
def GoodTComp (v6 : Bool) : TComp → Prop
  | .prefix4 ty addr len => v6 = false ∧ (ty = 1 ∨ ty = 2) ∧ len ≤ 32 ∧ addr < 2 ^ 32 ∧ addr % 2 ^ (32 - len) = 0
  | .prefix6 ty addr len off =>
    v6 = true ∧ (ty = 1 ∨ ty = 2) ∧ len ≤ 128 ∧ off = 0 ∧ addr < 2 ^ 128 ∧ addr % 2 ^ (128 - len) = 0
  | .op ty flags v =>
    (kindOf v6 ty = some .numeric ∨ kindOf v6 ty = some .bitmask) ∧
    GoodPair (maxWidth ty) (kindOf v6 ty == some .numeric) (flags, v)

structure GoodText (v6 : Bool) (text : List TComp) : Prop where
  comps : ∀ c ∈ text, GoodTComp v6 c
  /-- at most one destination and one source prefix -/
  onePrefix : ∀ id, id = 1 ∨ id = 2 → (text.filter (fun c => c.ty == id)).length ≤ 1
  /-- the first operation of a component carries no AND (the text grammar cannot write one) -/
  firstAnd : ∀ id, ∀ p ∈ (opPairs (text.filter (fun c => c.ty == id))).take 1, p.1 / 64 % 2 = 0

theorem good_op_ty (v6 : Bool) (ty f : Nat) (v : Int) (h : GoodTComp v6 (.op ty f v)) : ty ≠ 1 ∧ ty ≠ 2 := by
  obtain ⟨hk, _⟩ := h
  constructor <;> intro e <;> subst e <;> simp [kindOf] at hk

theorem kind_ids (v6 : Bool) (ty : Nat) (h : kindOf v6 ty = some .numeric ∨ kindOf v6 ty = some .bitmask) :
    3 ≤ ty ∧ ty ≤ 13 := by
  simp only [kindOf] at h
  split at h
  · simp at h
  · split at h
    · omega
    · split at h
      · omega
      · split at h
        · omega
        · simp at h

/-! ### `Flow.settle_family`: the family of good text is the family of its prefixes -/

theorem exaFamily_good (v6 hint6 : Bool) (text : List TComp) (h : ∀ c ∈ text, GoodTComp v6 c)
    (hp : text.any (fun c => c.isPrefix) = true) : exaFamily hint6 text = v6 := by
  simp only [exaFamily]
  split
  · rename_i p hp'
    have hm := List.mem_of_mem_head? hp'
    have hmem : p ∈ text ∧ p.isPrefix = true := by
      rcases List.mem_append.1 hm with h' | h' <;>
        (have := List.mem_filter.1 h'; simp only [Bool.and_eq_true] at this; exact ⟨this.1, this.2.1⟩)
    have hg := h p hmem.1
    cases p with
    | prefix4 _ _ _ => obtain ⟨hv, _⟩ := hg; simp [TComp.isV6, hv]
    | prefix6 _ _ _ _ => obtain ⟨hv, _⟩ := hg; simp [TComp.isV6, hv]
    | op _ _ _ => simp [TComp.isPrefix] at hmem
  · rename_i hnone
    exfalso
    obtain ⟨c, hc, hcp⟩ := List.any_eq_true.1 hp
    have hg := h c hc
    have hty : c.ty = 1 ∨ c.ty = 2 := by
      cases c with
      | prefix4 _ _ _ => exact hg.2.1
      | prefix6 _ _ _ _ => exact hg.2.1
      | op _ _ _ => simp [TComp.isPrefix] at hcp
    have : c ∈ text.filter (fun c => c.isPrefix && c.ty == 1) ++ text.filter (fun c => c.isPrefix && c.ty == 2) := by
      rcases hty with e | e
      · exact List.mem_append_left _ (List.mem_filter.2 ⟨hc, by simp [hcp, e]⟩)
      · exact List.mem_append_right _ (List.mem_filter.2 ⟨hc, by simp [hcp, e]⟩)
    have hne := List.ne_nil_of_mem this
    cases hl : text.filter (fun c => c.isPrefix && c.ty == 1) ++ text.filter (fun c => c.isPrefix && c.ty == 2) with
    | nil => exact hne hl
    | cons a t => rw [hl] at hnone; simp at hnone

end Exa.Flow
