import ExaModel.Lemmas.WireAttr
set_option linter.unusedSimpArgs false
/-! Round trip of every attribute value, of one attribute TLV (both length widths) and of the TLV walk. -/
namespace Exa.Wire
open Exa

/-- **Every value codec.** -/
theorem decVal_encVal (p : Params) (v : AttrVal) (h : WFVal p v) : decVal p v.code (encVal p v) = .ok v := by
  cases v with
  | origin x =>
    simp only [WFVal] at h
    simp [decVal, encVal, AttrVal.code]; omega
  | asPath segs =>
    simp only [WFVal] at h
    simp only [decVal, encVal, AttrVal.code]
    simp only [show (2 : Nat) ≠ 1 by decide, if_false, if_true]
    rw [decSegs_encSegs p.asn4 segs h _ (Nat.le_refl _)]
  | nextHop ip =>
    simp only [WFVal] at h
    simp [decVal, encVal, AttrVal.code]
    have := rd32_be32 ip h []; simpa using this
  | med x =>
    simp only [WFVal] at h
    simp [decVal, encVal, AttrVal.code]
    have := rd32_be32 x h []; simpa using this
  | localPref x =>
    simp only [WFVal] at h
    simp [decVal, encVal, AttrVal.code]
    have := rd32_be32 x h []; simpa using this
  | atomicAggregate => simp [decVal, encVal, AttrVal.code]
  | aggregator asn ip =>
    simp only [WFVal] at h
    obtain ⟨h1, h2⟩ := h
    cases ha : p.asn4 with
    | true =>
      simp only [ha, if_true] at h1
      have e1 := rd32_be32 asn h1 (be32 ip)
      have e2 := rd32_be32 ip h2 []
      simp [decVal, encVal, AttrVal.code, ha, encAsn, e1, drop4_be32]
      simpa using e2
    | false =>
      simp only [ha, Bool.false_eq_true, if_false] at h1
      have e1 := rd16_be16 asn h1 (be32 ip)
      have e2 := rd32_be32 ip h2 []
      simp [decVal, encVal, AttrVal.code, ha, encAsn, e1, drop2_be16]
      simpa using e2
  | communities cs =>
    simp only [WFVal] at h
    simp [decVal, encVal, AttrVal.code, encAsns_length, decU32s_enc cs h]
  | originatorId ip =>
    simp only [WFVal] at h
    simp [decVal, encVal, AttrVal.code]
    have := rd32_be32 ip h []; simpa using this
  | clusterList ids =>
    simp only [WFVal] at h
    simp [decVal, encVal, AttrVal.code, encAsns_length, decU32s_enc ids h]
  | mpReach afi safi nh ns =>
    simp only [WFVal] at h
    obtain ⟨hs, hnh, hn⟩ := h
    simp only [decVal, encVal, AttrVal.code]
    simp only [show (14 : Nat) ≠ 1 by decide, show (14 : Nat) ≠ 2 by decide, show (14 : Nat) ≠ 3 by decide,
      show (14 : Nat) ≠ 4 by decide, show (14 : Nat) ≠ 5 by decide, show (14 : Nat) ≠ 6 by decide,
      show (14 : Nat) ≠ 7 by decide, show (14 : Nat) ≠ 8 by decide, show (14 : Nat) ≠ 9 by decide,
      show (14 : Nat) ≠ 10 by decide, if_false, if_true]
    exact decMpReach_enc p afi safi nh ns hs hnh hn
  | mpUnreach afi safi ns =>
    simp only [WFVal] at h
    obtain ⟨hs, hn⟩ := h
    simp only [decVal, encVal, AttrVal.code]
    simp only [show (15 : Nat) ≠ 1 by decide, show (15 : Nat) ≠ 2 by decide, show (15 : Nat) ≠ 3 by decide,
      show (15 : Nat) ≠ 4 by decide, show (15 : Nat) ≠ 5 by decide, show (15 : Nat) ≠ 6 by decide,
      show (15 : Nat) ≠ 7 by decide, show (15 : Nat) ≠ 8 by decide, show (15 : Nat) ≠ 9 by decide,
      show (15 : Nat) ≠ 10 by decide, show (15 : Nat) ≠ 14 by decide, if_false, if_true]
    exact decMpUnreach_enc p afi safi ns hs hn
  | extCommunities cs =>
    simp only [WFVal] at h
    have hm : 4 * (2 * cs.length) % 8 = 0 := by omega
    simp [decVal, encVal, AttrVal.code, encAsns_length, decU32s_enc _ h, flat2_length, unflat2_flat2, hm]
  | as4Path segs =>
    simp only [WFVal] at h
    simp only [decVal, encVal, AttrVal.code]
    simp only [show (17 : Nat) ≠ 1 by decide, show (17 : Nat) ≠ 2 by decide, show (17 : Nat) ≠ 3 by decide,
      show (17 : Nat) ≠ 4 by decide, show (17 : Nat) ≠ 5 by decide, show (17 : Nat) ≠ 6 by decide,
      show (17 : Nat) ≠ 7 by decide, show (17 : Nat) ≠ 8 by decide, show (17 : Nat) ≠ 9 by decide,
      show (17 : Nat) ≠ 10 by decide, show (17 : Nat) ≠ 14 by decide, show (17 : Nat) ≠ 15 by decide,
      show (17 : Nat) ≠ 16 by decide, if_false, if_true]
    rw [decSegs_encSegs true segs h _ (Nat.le_refl _)]
  | as4Aggregator asn ip =>
    simp only [WFVal] at h
    obtain ⟨h1, h2⟩ := h
    have e1 := rd32_be32 asn h1 (be32 ip)
    have e2 := rd32_be32 ip h2 []
    simp [decVal, encVal, AttrVal.code, e1, drop4_be32]
    simpa using e2
  | largeCommunities cs =>
    simp only [WFVal] at h
    have hm : 4 * (3 * cs.length) % 12 = 0 := by omega
    simp [decVal, encVal, AttrVal.code, encAsns_length, decU32s_enc _ h, flat3_length, unflat3_flat3, hm]
  | mpReachRaw afi safi nh raw =>
    simp only [WFVal] at h
    obtain ⟨hs, ha, _, hnh⟩ := h
    simp only [decVal, encVal, AttrVal.code]
    simp only [show (14 : Nat) ≠ 1 by decide, show (14 : Nat) ≠ 2 by decide, show (14 : Nat) ≠ 3 by decide,
      show (14 : Nat) ≠ 4 by decide, show (14 : Nat) ≠ 5 by decide, show (14 : Nat) ≠ 6 by decide,
      show (14 : Nat) ≠ 7 by decide, show (14 : Nat) ≠ 8 by decide, show (14 : Nat) ≠ 9 by decide,
      show (14 : Nat) ≠ 10 by decide, if_false, if_true]
    exact decMpReach_raw p afi safi nh raw hs ha hnh
  | mpUnreachRaw afi safi raw =>
    simp only [WFVal] at h
    obtain ⟨hs, ha, _⟩ := h
    simp only [decVal, encVal, AttrVal.code]
    simp only [show (15 : Nat) ≠ 1 by decide, show (15 : Nat) ≠ 2 by decide, show (15 : Nat) ≠ 3 by decide,
      show (15 : Nat) ≠ 4 by decide, show (15 : Nat) ≠ 5 by decide, show (15 : Nat) ≠ 6 by decide,
      show (15 : Nat) ≠ 7 by decide, show (15 : Nat) ≠ 8 by decide, show (15 : Nat) ≠ 9 by decide,
      show (15 : Nat) ≠ 10 by decide, show (15 : Nat) ≠ 14 by decide, if_false, if_true]
    exact decMpUnreach_raw p afi safi raw hs ha
  | unknown c raw =>
    simp only [WFVal, knownCodes, List.mem_cons, List.not_mem_nil, or_false, not_or] at h
    obtain ⟨h1, h2, h3, h4, h5, h6, h7, h8, h9, h10, h14, h15, h16, h17, h18, h32⟩ := h
    simp only [decVal, encVal, AttrVal.code, h1, h2, h3, h4, h5, h6, h7, h8, h9, h10, h14, h15, h16, h17, h18,
      h32, if_false]

theorem encAttr_append (p : Params) (a : Attr) (rest : Bytes) :
    encAttr p a ++ rest =
      a.flags.byte :: a.val.code :: (encLen a.flags.ext (encVal p a.val).length ++ (encVal p a.val ++ rest)) := by
  simp [encAttr]

theorem decAttr_cons (p : Params) (fb code : Nat) (r : Bytes) : decAttr p (fb :: code :: r) =
    match decLen (Flags.ofByte fb).ext r with
    | none => .error (3, 1)
    | some (len, body) =>
      if body.length < len then .error (3, 1)
      else match flagErr (Flags.ofByte fb) code with
        | some e => .error e
        | none =>
          match decVal p code (body.take len) with
          | .error e => .error e
          | .ok v => .ok ({ flags := Flags.ofByte fb, val := v }, body.drop len) := rfl

/-- **One attribute TLV**, with the 1-byte or the 2-byte length field. -/
theorem decAttr_encAttr (p : Params) (a : Attr) (h : WFAttr p a) (rest : Bytes) :
    decAttr p (encAttr p a ++ rest) = .ok (a, rest) := by
  obtain ⟨hf, hv, hl⟩ := h
  rw [encAttr_append, decAttr_cons, flags_ofByte_byte, decLen_encLen a.flags.ext _ hl]
  simp only
  have c : ¬ (encVal p a.val ++ rest).length < (encVal p a.val).length := by simp
  rw [if_neg c, hf]
  simp only
  rw [List.take_left', List.drop_left', decVal_encVal p a.val hv]
  all_goals rfl

theorem encAttr_length_pos (p : Params) (a : Attr) : 0 < (encAttr p a).length := by
  simp [encAttr]

/-- **The TLV walk**, any number of attributes in any order. -/
theorem decAttrs_encAttrs (p : Params) (as : List Attr) (h : ∀ a ∈ as, WFAttr p a) (fuel : Nat)
    (hf : (encAttrs p as).length ≤ fuel) : decAttrs p fuel (encAttrs p as) = .ok as := by
  induction as generalizing fuel with
  | nil => cases fuel <;> simp [encAttrs, decAttrs]
  | cons a t ih =>
    have hpos := encAttr_length_pos p a
    simp only [encAttrs, List.length_append] at hf ⊢
    cases fuel with
    | zero => omega
    | succ f =>
      cases hb : encAttr p a with
      | nil => rw [hb] at hpos; simp at hpos
      | cons b bs =>
        simp only [List.cons_append, decAttrs]
        have := decAttr_encAttr p a (h a (by simp)) (encAttrs p t)
        rw [hb] at this
        simp only [List.cons_append] at this
        rw [this]
        simp only
        rw [ih (fun x hx => h x (List.mem_cons_of_mem _ hx)) f (by omega)]

end Exa.Wire
