import ExaModel.Model.OpenCodec
set_option linter.unusedSimpArgs false
/-! C03 for the OPEN decoder model (M-OpenCodec, a model of `Open.unpack_message` /
    `Capabilities.unpack`): every error is one of five literal (code, subcode) pairs; the capability
    walk has a counting twin whose count is linear in the bytes. -/
namespace Exa.Open
open Exa

/-- The (code, subcode) pairs the OPEN decoder model can answer with. -/
def openErrSites : List (Nat × Nat) := [(1, 2), (2, 0), (2, 1), (2, 4), (2, 5)]

theorem optList_err (o : Option (List Triple)) (k : List Triple → Cap) (e : Err) (h : optList o k = .error e) :
    e = malformed := by
  unfold optList at h
  cases o with
  | none => simp only [Except.error.injEq] at h; exact h.symm
  | some es => cases h

local macro "oleaf" h:ident : tactic =>
  `(tactic| ((repeat' split at $h:ident) <;>
      first | (simp only [Except.error.injEq] at $h:ident; exact ($h:ident).symm) | cases $h:ident
            | exact optList_err _ _ _ $h:ident))

/-- Every refusal of a capability value is OPEN Message Error / Unspecific. -/
theorem decodeCap_err (code : Nat) (v : Bytes) (e : Err) (h : decodeCap code v = .error e) : e = malformed := by
  unfold decodeCap at h
  by_cases c1 : code = 1
  · rw [if_pos c1] at h; oleaf h
  rw [if_neg c1] at h
  by_cases c65 : code = 65
  · rw [if_pos c65] at h; oleaf h
  rw [if_neg c65] at h
  by_cases c69 : code = 69
  · rw [if_pos c69] at h; exact optList_err _ _ _ h
  rw [if_neg c69] at h
  by_cases c5 : code = 5
  · rw [if_pos c5] at h; exact optList_err _ _ _ h
  rw [if_neg c5] at h
  by_cases c2 : code = 2
  · rw [if_pos c2] at h; cases h
  rw [if_neg c2] at h
  by_cases c128 : code = 128
  · rw [if_pos c128] at h; cases h
  rw [if_neg c128] at h
  by_cases c70 : code = 70
  · rw [if_pos c70] at h; cases h
  rw [if_neg c70] at h
  by_cases c6 : code = 6
  · rw [if_pos c6] at h; cases h
  rw [if_neg c6] at h
  by_cases c185 : code = 185
  · rw [if_pos c185] at h; cases h
  rw [if_neg c185] at h
  by_cases c77 : code = 77
  · rw [if_pos c77] at h; cases h
  rw [if_neg c77] at h
  by_cases c64 : code = 64
  · rw [if_pos c64] at h; oleaf h
  rw [if_neg c64] at h
  by_cases c73 : code = 73
  · rw [if_pos c73] at h; simp only at h; oleaf h
  rw [if_neg c73] at h
  by_cases c75 : code = 75
  · rw [if_pos c75] at h; simp only at h; oleaf h
  rw [if_neg c75] at h
  by_cases c68 : code = 68
  · rw [if_pos c68] at h; cases h
  rw [if_neg c68] at h
  by_cases c131 : code = 131
  · rw [if_pos c131] at h; cases h
  rw [if_neg c131] at h
  by_cases c76 : code = 76
  · rw [if_pos c76] at h; exact optList_err _ _ _ h
  rw [if_neg c76] at h
  cases h

theorem walkCaps_err (fuel : Nat) (data : Bytes) (e : Err) (h : walkCaps fuel data = .error e) : e = malformed := by
  induction fuel generalizing data with
  | zero =>
    unfold walkCaps at h
    split at h
    · cases h
    · simp only [Except.error.injEq] at h; exact h.symm
  | succ f ih =>
    unfold walkCaps at h
    split at h
    · cases h
    split at h
    · simp only [Except.error.injEq] at h; exact h.symm
    simp only at h
    split at h
    · simp only [Except.error.injEq] at h; exact h.symm
    split at h
    · rename_i e1 h1
      simp only [Except.error.injEq] at h
      subst h
      exact decodeCap_err _ _ _ h1
    · split at h
      · rename_i e2 h2
        simp only [Except.error.injEq] at h
        subst h
        exact ih _ h2
      · cases h

theorem walkParams_err (ext : Bool) (fuel : Nat) (data : Bytes) (e : Err) (h : walkParams ext fuel data = .error e) :
    (e.code, e.sub) ∈ openErrSites := by
  induction fuel generalizing data with
  | zero =>
    unfold walkParams at h
    split at h
    · cases h
    · simp only [Except.error.injEq] at h; subst h; decide
  | succ f ih =>
    unfold walkParams at h
    by_cases c0 : data.isEmpty
    · rw [if_pos c0] at h; cases h
    rw [if_neg c0] at h
    cases ext
    all_goals
      simp only [Bool.false_eq_true, if_false, if_true] at h
      split at h
      · simp only [Except.error.injEq] at h; subst h; decide
      split at h
      · simp only [Except.error.injEq] at h; subst h; decide
      split at h
      · simp only [Except.error.injEq] at h; subst h; decide
      split at h
      · split at h
        · rename_i e1 h1
          simp only [Except.error.injEq] at h
          subst h
          rw [walkCaps_err _ _ _ h1]; decide
        · split at h
          · rename_i e2 h2
            simp only [Except.error.injEq] at h
            subst h
            exact ih _ h2
          · cases h
      · simp only [Except.error.injEq] at h; subst h; decide

theorem decodeOptional_err (data : Bytes) (e : Err) (h : decodeOptional data = .error e) :
    (e.code, e.sub) ∈ openErrSites := by
  unfold decodeOptional at h
  by_cases c0 : data.isEmpty
  · rw [if_pos c0] at h; cases h
  rw [if_neg c0] at h
  simp only at h
  by_cases c255 : data.getD 0 0 = 255
  · rw [if_pos c255] at h
    by_cases c4 : data.length < 4
    · rw [if_pos c4] at h; simp only [Except.error.injEq] at h; subst h; decide
    rw [if_neg c4] at h
    by_cases cx : data.getD 1 0 = 255
    · rw [if_pos cx] at h
      by_cases cl : data.length < rd16 (data.drop 2) + 4
      · rw [if_pos cl] at h; simp only [Except.error.injEq] at h; subst h; decide
      · rw [if_neg cl] at h; exact walkParams_err _ _ _ _ h
    · rw [if_neg cx] at h
      by_cases cl : data.length < 256
      · rw [if_pos cl] at h; simp only [Except.error.injEq] at h; subst h; decide
      · rw [if_neg cl] at h; exact walkParams_err _ _ _ _ h
  · rw [if_neg c255] at h
    by_cases cl : data.length < data.getD 0 0 + 1
    · rw [if_pos cl] at h; simp only [Except.error.injEq] at h; subst h; decide
    · rw [if_neg cl] at h; exact walkParams_err _ _ _ _ h

/-- Every refusal of the OPEN decoder model is one of five literal pairs. -/
theorem decodeOpen_err (body : Bytes) (e : Err) (h : decodeOpen body = .error e) : (e.code, e.sub) ∈ openErrSites := by
  unfold decodeOpen at h
  split at h
  · simp only [Except.error.injEq] at h; subst h; decide
  split at h
  · simp only [Except.error.injEq] at h; subst h; decide
  split at h
  · rename_i e1 h1
    simp only [Except.error.injEq] at h
    subst h
    exact decodeOptional_err _ _ h1
  · cases h

/-! ### the capability walk, counted -/

/-- `walkCaps` + the number of capability TLVs it looked at. -/
def walkCapsSteps (fuel : Nat) (data : Bytes) : Res (List Cap) × Nat :=
  match fuel with
  | 0 => (if data.isEmpty then .ok [] else .error malformed, 0)
  | fuel + 1 =>
    if data.isEmpty then (.ok [], 0) else
    if data.length < 2 then (.error malformed, 1) else
    if data.length < data.getD 1 0 + 2 then (.error malformed, 1) else
    match decodeCap (data.getD 0 0) ((data.drop 2).take (data.getD 1 0)) with
    | .error e => (.error e, 1)
    | .ok c =>
      ((match (walkCapsSteps fuel (data.drop (data.getD 1 0 + 2))).1 with
        | .error e => .error e
        | .ok r => .ok (c :: r)),
       (walkCapsSteps fuel (data.drop (data.getD 1 0 + 2))).2 + 1)

theorem walkCapsSteps_fst (fuel : Nat) (data : Bytes) : (walkCapsSteps fuel data).1 = walkCaps fuel data := by
  induction fuel generalizing data with
  | zero => simp [walkCapsSteps, walkCaps]
  | succ f ih =>
    unfold walkCapsSteps walkCaps
    by_cases c0 : data.isEmpty
    · rw [if_pos c0, if_pos c0]
    rw [if_neg c0, if_neg c0]
    by_cases c1 : data.length < 2
    · rw [if_pos c1, if_pos c1]
    rw [if_neg c1, if_neg c1]
    by_cases c2 : data.length < data.getD 1 0 + 2
    · simp only [if_pos c2]
    simp only [if_neg c2]
    cases hd : decodeCap (data.getD 0 0) ((data.drop 2).take (data.getD 1 0)) with
    | error e => rfl
    | ok c =>
      simp only [ih]
      cases walkCaps f (data.drop (data.getD 1 0 + 2)) <;> rfl

/-- **Linear iteration count of the capability walk**: a capability TLV is at least 2 bytes. -/
theorem walkCapsSteps_le (fuel : Nat) (data : Bytes) : 2 * (walkCapsSteps fuel data).2 ≤ data.length + 2 := by
  induction fuel generalizing data with
  | zero => simp [walkCapsSteps]
  | succ f ih =>
    unfold walkCapsSteps
    by_cases c0 : data.isEmpty
    · rw [if_pos c0]; simp
    rw [if_neg c0]
    by_cases c1 : data.length < 2
    · rw [if_pos c1]; simp
    rw [if_neg c1]
    by_cases c2 : data.length < data.getD 1 0 + 2
    · rw [if_pos c2]; simp
    rw [if_neg c2]
    cases hd : decodeCap (data.getD 0 0) ((data.drop 2).take (data.getD 1 0)) with
    | error e => simp
    | ok c =>
      have := ih (data.drop (data.getD 1 0 + 2))
      have hl : (data.drop (data.getD 1 0 + 2)).length = data.length - (data.getD 1 0 + 2) := List.length_drop
      simp only
      omega

end Exa.Open
