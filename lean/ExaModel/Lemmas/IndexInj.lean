import ExaModel.Lemmas.Index
set_option linter.unusedSimpArgs false
/-! Injectivity of `index()` on the key (family, path-id, mask, prefix, RD), per class, under the
    side conditions the sentinel analysis forces; injectivity of the repaired encoding. -/
namespace Exa.Index
open Exa

/-- The ADD-PATH part of `INET.index`: the stored path bytes, or the sentinel. -/
def pathTagI : Option Bytes → Bytes
  | none => disabled
  | some p => p

theorem index_inet (a : IpNlri) (hk : a.kind = .inet) (hl : a.labels = []) (hr : a.rd = none) :
    index a = famIndex a.afi a.safi ++ (pathTagI a.path ++ ([a.mask] ++ a.pfx)) := by
  unfold index
  rw [hk]
  simp only [packed, rdBits, hl, hr, optBytes]
  cases h : a.path <;> simp [pathTagI, optBytes]

theorem pathTagI_split {p q : Option Bytes} {x y : Bytes}
    (hp : ∀ b, p = some b → b.length = 4) (hq : ∀ b, q = some b → b.length = 4)
    (hpd : p ≠ some disa) (hqd : q ≠ some disa)
    (h : pathTagI p ++ x = pathTagI q ++ y) : p = q ∧ x = y := by
  cases p with
  | none =>
    cases q with
    | none => exact ⟨rfl, List.append_cancel_left h⟩
    | some b =>
      exfalso
      have hb := hq b rfl
      match b, hb with
      | [b0, b1, b2, b3], _ =>
        simp only [pathTagI, disabled, List.cons_append, List.nil_append, List.cons.injEq] at h
        obtain ⟨h0, h1, h2, h3, _⟩ := h
        apply hqd; simp [disa, ← h0, ← h1, ← h2, ← h3]
  | some a =>
    have ha := hp a rfl
    cases q with
    | none =>
      exfalso
      match a, ha with
      | [a0, a1, a2, a3], _ =>
        simp only [pathTagI, disabled, List.cons_append, List.nil_append, List.cons.injEq] at h
        obtain ⟨h0, h1, h2, h3, _⟩ := h
        apply hpd; simp [disa, h0, h1, h2, h3]
    | some b =>
      have hb := hq b rfl
      have := List.append_inj h (by simp [pathTagI, ha, hb])
      simp only [pathTagI] at this
      exact ⟨by rw [this.1], this.2⟩

theorem pathTagI_split_small {p q : Option Bytes} {m m' : Nat} {x y : Bytes}
    (hp : ∀ b, p = some b → b.length = 4) (hq : ∀ b, q = some b → b.length = 4)
    (hm : m < 98) (hm' : m' < 98)
    (h : pathTagI p ++ (m :: x) = pathTagI q ++ (m' :: y)) : p = q ∧ m :: x = m' :: y := by
  cases p with
  | none =>
    cases q with
    | none => exact ⟨rfl, List.append_cancel_left h⟩
    | some b =>
      exfalso
      have hb := hq b rfl
      match b, hb with
      | [b0, b1, b2, b3], _ =>
        simp only [pathTagI, disabled, List.cons_append, List.nil_append, List.cons.injEq] at h
        omega
  | some a =>
    have ha := hp a rfl
    cases q with
    | none =>
      exfalso
      match a, ha with
      | [a0, a1, a2, a3], _ =>
        simp only [pathTagI, disabled, List.cons_append, List.nil_append, List.cons.injEq] at h
        omega
    | some b =>
      have hb := hq b rfl
      have := List.append_inj h (by simp [pathTagI, ha, hb])
      simp only [pathTagI] at this
      exact ⟨by rw [this.1], this.2⟩

theorem key_ext {a b : IpNlri} (h1 : a.afi = b.afi) (h2 : a.safi = b.safi) (h3 : a.path = b.path)
    (h4 : a.mask = b.mask) (h5 : a.pfx = b.pfx) (h6 : a.rd = b.rd) : key a = key b := by
  simp [key, h1, h2, h3, h4, h5, h6]

/-- Core: equal indexes give equal keys, away from the two ambiguous path-ids and for equal RD
    presence. -/
theorem index_key (a b : IpNlri) (ha : WF a) (hb : WF b) (hk : a.kind = b.kind)
    (hda : a.path ≠ some disa) (hdb : b.path ≠ some disa)
    (hna : a.path ≠ some nop) (hnb : b.path ≠ some nop)
    (hr : a.rd.isSome = b.rd.isSome) (h : index a = index b) : key a = key b := by
  cases hka : a.kind with
  | inet =>
    have hkb : b.kind = .inet := by rw [← hk, hka]
    have ia := ha.inet hka
    have ib := hb.inet hkb
    rw [index_inet a hka ia.1 ia.2, index_inet b hkb ib.1 ib.2] at h
    obtain ⟨e1, e2, e3⟩ := fam_split ha.afi ha.safi hb.afi hb.safi h
    obtain ⟨e4, e5⟩ := pathTagI_split ha.path hb.path hda hdb e3
    simp only [List.cons_append, List.nil_append, List.cons.injEq] at e5
    exact key_ext e1 e2 e4 e5.1 e5.2 (by rw [ia.2, ib.2])
  | label =>
    have hkb : b.kind = .label := by rw [← hk, hka]
    have ra := ha.label hka
    have rb := hb.label hkb
    unfold index at h
    rw [hka, hkb] at h
    simp only [List.append_assoc] at h
    obtain ⟨e1, e2, e3⟩ := fam_split ha.afi ha.safi hb.afi hb.safi h
    obtain ⟨e4, e5⟩ := pathTag_split ha.path hb.path hda hdb hna hnb e3
    simp only [List.cons_append, List.nil_append, List.cons.injEq] at e5
    exact key_ext e1 e2 e4 e5.1 e5.2 (by rw [ra, rb])
  | vpn =>
    have hkb : b.kind = .vpn := by rw [← hk, hka]
    unfold index at h
    rw [hka, hkb] at h
    simp only [List.append_assoc] at h
    obtain ⟨e1, e2, e3⟩ := fam_split ha.afi ha.safi hb.afi hb.safi h
    obtain ⟨e4, e5⟩ := pathTag_split ha.path hb.path hda hdb hna hnb e3
    have hl := optBytes_length_eq ha.rd hb.rd hr
    have e6 := tail_inj hl (by simpa [List.append_assoc] using e5)
    have hbits : rdBits a = rdBits b := by simp [rdBits, hr]
    have e7 := optBytes_inj hr e6.2.1
    exact key_ext e1 e2 e4 (by have := e6.1; omega) e6.2.2 e7

/-- IPv4-sized masks (mask byte below 98): no side condition on the path-ids at all. -/
theorem index_key_small (a b : IpNlri) (ha : WF a) (hb : WF b) (hk : a.kind = b.kind)
    (hma : a.mask ≤ 32) (hmb : b.mask ≤ 32)
    (hr : a.rd.isSome = b.rd.isSome) (h : index a = index b) : key a = key b := by
  cases hka : a.kind with
  | inet =>
    have hkb : b.kind = .inet := by rw [← hk, hka]
    have ia := ha.inet hka
    have ib := hb.inet hkb
    rw [index_inet a hka ia.1 ia.2, index_inet b hkb ib.1 ib.2] at h
    obtain ⟨e1, e2, e3⟩ := fam_split ha.afi ha.safi hb.afi hb.safi h
    obtain ⟨e4, e5⟩ := pathTagI_split_small ha.path hb.path (m := a.mask) (m' := b.mask) (by omega) (by omega) (by simpa using e3)
    simp only [List.cons.injEq] at e5
    exact key_ext e1 e2 e4 e5.1 e5.2 (by rw [ia.2, ib.2])
  | label =>
    have hkb : b.kind = .label := by rw [← hk, hka]
    have ra := ha.label hka
    have rb := hb.label hkb
    unfold index at h
    rw [hka, hkb] at h
    simp only [List.append_assoc] at h
    obtain ⟨e1, e2, e3⟩ := fam_split ha.afi ha.safi hb.afi hb.safi h
    obtain ⟨e4, e5⟩ := pathTag_split_small ha.path hb.path (m := a.mask) (m' := b.mask) (by omega) (by omega) (by simpa using e3)
    simp only [List.cons.injEq] at e5
    exact key_ext e1 e2 e4 e5.1 e5.2 (by rw [ra, rb])
  | vpn =>
    have hkb : b.kind = .vpn := by rw [← hk, hka]
    unfold index at h
    rw [hka, hkb] at h
    simp only [List.append_assoc] at h
    obtain ⟨e1, e2, e3⟩ := fam_split ha.afi ha.safi hb.afi hb.safi h
    have hbits : rdBits a = rdBits b := by simp [rdBits, hr]
    have hba : rdBits a ≤ 64 := by unfold rdBits; split <;> omega
    have hbb : rdBits b ≤ 64 := by unfold rdBits; split <;> omega
    obtain ⟨e4, e5⟩ := pathTag_split_small ha.path hb.path (m := rdBits a + a.mask) (m' := rdBits b + b.mask)
      (by omega) (by omega) (by simpa using e3)
    have hl := optBytes_length_eq ha.rd hb.rd hr
    have e6 := tail_inj hl (by simpa [List.append_assoc] using e5)
    have e7 := optBytes_inj hr e6.2.1
    exact key_ext e1 e2 e4 (by have := e6.1; omega) e6.2.2 e7

theorem tagFix_split {k : Kind} {p q : Option Bytes} {x y : Bytes}
    (hp : ∀ b, p = some b → b.length = 4) (hq : ∀ b, q = some b → b.length = 4)
    (h : tagFix k p ++ x = tagFix k q ++ y) : p = q ∧ x = y := by
  cases p with
  | none =>
    cases q with
    | none => exact ⟨rfl, List.append_cancel_left h⟩
    | some b =>
      exfalso
      simp only [tagFix] at h
      split at h <;> simp [disabled, nopi, pathWord] at h
  | some a =>
    have ha := hp a rfl
    cases q with
    | none =>
      exfalso
      simp only [tagFix] at h
      split at h <;> simp [disabled, nopi, pathWord] at h
    | some b =>
      have hb := hq b rfl
      simp only [tagFix] at h
      split at h <;> split at h
      · rename_i e1 e2
        rw [e1.2, e2.2]; exact ⟨rfl, List.append_cancel_left h⟩
      · exfalso; simp [nopi, pathWord] at h
      · exfalso; simp [nopi, pathWord] at h
      · simp only [List.append_assoc] at h
        have h1 := List.append_cancel_left h
        have h2 := List.append_inj h1 (by omega)
        exact ⟨by rw [h2.1], h2.2⟩

/-- The repaired encoding: no side condition (same class on both sides, as for `index`). -/
theorem indexFix_key (a b : IpNlri) (ha : WF a) (hb : WF b) (hk : a.kind = b.kind)
    (h : indexFix a = indexFix b) : key a = key b := by
  unfold indexFix at h
  simp only [List.append_assoc] at h
  obtain ⟨e1, e2, e3⟩ := fam_split ha.afi ha.safi hb.afi hb.safi h
  rw [hk] at e3
  obtain ⟨e4, e5⟩ := tagFix_split ha.path hb.path e3
  simp only [List.cons_append, List.nil_append, List.cons.injEq] at e5
  obtain ⟨hm, e6⟩ := e5
  cases hka : a.kind with
  | inet =>
    have hkb : b.kind = .inet := by rw [← hk, hka]
    have ia := ha.inet hka
    have ib := hb.inet hkb
    simp only [rdFlag, hka, hkb, ia.2, ib.2, optBytes, List.nil_append] at e6
    simp only [rdBits, ia.2, ib.2] at hm
    exact key_ext e1 e2 e4 (by simpa using hm) e6 (by rw [ia.2, ib.2])
  | label =>
    have hkb : b.kind = .label := by rw [← hk, hka]
    have ra := ha.label hka
    have rb := hb.label hkb
    simp only [rdFlag, hka, hkb, ra, rb, optBytes, List.nil_append] at e6
    simp only [rdBits, ra, rb] at hm
    exact key_ext e1 e2 e4 (by simpa using hm) e6 (by rw [ra, rb])
  | vpn =>
    have hkb : b.kind = .vpn := by rw [← hk, hka]
    simp only [rdFlag, hka, hkb, List.cons_append, List.nil_append, List.cons.injEq] at e6
    obtain ⟨hf, e7⟩ := e6
    have hr : a.rd.isSome = b.rd.isSome := by
      cases h1 : a.rd <;> cases h2 : b.rd <;> simp [h1, h2] at hf ⊢
    have hl := optBytes_length_eq ha.rd hb.rd hr
    have e8 := List.append_inj e7 hl
    have hbits : rdBits a = rdBits b := by simp [rdBits, hr]
    exact key_ext e1 e2 e4 (by omega) e8.2 (optBytes_inj hr e8.1)

/-- For INET the hash key is the index without its (fixed-length) family prefix. -/
theorem index_inet_hashKey (a : IpNlri) (hk : a.kind = .inet) : index a = famIndex a.afi a.safi ++ hashKey a := by
  unfold index hashKey
  rw [hk]

end Exa.Index
