import ExaModel.Lemmas.Index
set_option linter.unusedSimpArgs false
/-! Injectivity of `index()` on the key (family, path-id, mask, prefix, RD), and the hash
    contract, for the three classes. -/
namespace Exa.Index
open Exa

theorem indexU_key (a b : IpNlri) (ha : WF a) (hb : WF b) (hk : a.kind = b.kind)
    (h : indexU a = indexU b) : key a = key b := by
  unfold indexU at h
  simp only [List.append_assoc] at h
  obtain ⟨e1, e2, e3⟩ := fam_split ha.afi ha.safi hb.afi hb.safi h
  rw [hk] at e3
  obtain ⟨e4, e5⟩ := pathTag_split ha.path hb.path e3
  simp only [List.cons_append, List.nil_append, List.cons.injEq] at e5
  obtain ⟨hm, e6⟩ := e5
  cases hka : a.kind with
  | inet =>
    have hkb : b.kind = .inet := by rw [← hk, hka]
    have ia := ha.inet hka
    have ib := hb.inet hkb
    simp only [rdFlag, hka, hkb, ia.2, ib.2, optBytes, List.nil_append] at e6
    simp only [rdBits, ia.2, ib.2] at hm
    exact key_ext e1 e2 e4 (by simpa using hm) e6 (by rw [ia.2, ib.2])
  | label =>
    have hkb : b.kind = .label := by rw [← hk, hka]
    have ra := ha.label hka
    have rb := hb.label hkb
    simp only [rdFlag, hka, hkb, ra, rb, optBytes, List.nil_append] at e6
    simp only [rdBits, ra, rb] at hm
    exact key_ext e1 e2 e4 (by simpa using hm) e6 (by rw [ra, rb])
  | vpn =>
    have hkb : b.kind = .vpn := by rw [← hk, hka]
    simp only [rdFlag, hka, hkb, List.cons_append, List.nil_append, List.cons.injEq] at e6
    obtain ⟨hf, e7⟩ := e6
    have hr : a.rd.isSome = b.rd.isSome := by
      cases h1 : a.rd <;> cases h2 : b.rd <;> simp [h1, h2] at hf ⊢
    have hl := optBytes_length_eq ha.rd hb.rd hr
    have e8 := List.append_inj e7 hl
    have hbits : rdBits a = rdBits b := by simp [rdBits, hr]
    exact key_ext e1 e2 e4 (by omega) e8.2 (optBytes_inj hr e8.1)

/-- Equal indexes give equal keys: no side condition. -/
theorem index_key (a b : IpNlri) (ha : WF a) (hb : WF b) (hk : a.kind = b.kind)
    (h : index a = index b) : key a = key b := by
  rw [index_eq_uniform a ha, index_eq_uniform b hb] at h
  exact indexU_key a b ha hb hk h

/-- For INET the index is the family, the tag word when there is a path-id, and the hash key. -/
theorem inet_hashKey_of_index (a b : IpNlri) (ha : WF a) (hb : WF b)
    (ka : a.kind = .inet) (kb : b.kind = .inet) (h : index a = index b) : hashKey a = hashKey b := by
  have hkey := index_key a b ha hb (by rw [ka, kb]) h
  simp only [key, Key.mk.injEq] at hkey
  obtain ⟨_, _, e3, e4, e5, e6⟩ := hkey
  have ia := ha.inet ka
  have ib := hb.inet kb
  simp [hashKey, ka, kb, packed, rdBits, e3, e4, e5, e6, ia.1, ib.1]

end Exa.Index
