/-
  M-Attr7606 vs M-Wire, message level: the model of ExaBGP's decoder on `encodeUpdate p u`, and the canonical
  report both sides are compared on.
-/
import ExaModel.Lemmas.Attr7606AgreeLoop
import ExaModel.Lemmas.Wire
set_option linter.unusedSimpArgs false
set_option linter.unusedVariables false

namespace Exa.Attr7606
open Exa Exa.Wire
open Exa.Generated.AttrTable (Row)

/-! ### the canonical report of the model of ExaBGP -/

/-- The value ExaBGP relays for a kept attribute: the kept bytes read by the reference value syntax (ExaBGP keeps
    the wire bytes, `_packed`); the merged AS_PATH is `mergeExa` of its two parts; an AGGREGATOR that took over
    AS4_AGGREGATOR's value is in 4-octet packing. -/
def keptVal (p : Params) (k : Kept) : Option AttrVal :=
  if k.code = 2 ∧ k.merged = true then
    match exaParseSegs false false k.val.length k.val, exaParseSegs false true k.as4.length k.as4 with
    | some s2, some s4 => some (.asPath (mergeExa s2 s4))
    | _, _ => none
  else
    match decVal { p with asn4 := p.asn4 || (k.code == 7 && k.merged) } k.code k.val with
    | .ok v => some v
    | .error _ => none

def nh4Of (ks : List Kept) : Bytes := match findKept ks 3 with | some k => k.val | none => []

def nhMpOf (ks : List Kept) : Bytes :=
  match findKept ks 14 with
  | some k => nhAddr (k.val.getD 2 0) ((k.val.drop 4).take (k.val.getD 3 0))
  | none => []

/-- The attribute values ExaBGP relays, in the order of its collection. -/
def relayed (p : Params) (st : LoopSt) : List AttrVal := (reportedAttrs st).filterMap (keptVal p)

/-- `Update.unpack_message`: an UPDATE without routes and without attributes left is an End-of-RIB; of the
    family of its MP_UNREACH_NLRI / MP_REACH_NLRI if it had one. -/
def eorOfParts (pt : Parts) : Option (Nat × Nat) :=
  if (reportedAttrs pt.st).isEmpty && !pt.st.taw && !pt.st.disc && pt.nlri.isEmpty && (pt.wd4 ++ pt.wdMp).isEmpty then
    match findKept pt.st.kept 15 with
    | some k => some (rd16 k.val, k.val.getD 2 0)
    | none =>
      match findKept pt.st.kept 14 with
      | some k => some (rd16 k.val, k.val.getD 2 0)
      | none => some (1, 1)
  else none

/-- What the model of ExaBGP's decoder reports, on the canonical form of M-Wire (`Exa.Wire.Report`). -/
def reportParts (p : Params) (pt : Parts) : Report :=
  { announce := pt.ann4.map (fun r => (r.1, r.2.1, nh4Of pt.st.kept, r.2.2)) ++
                pt.annMp.map (fun r => (r.1, r.2.1, nhMpOf pt.st.kept, r.2.2)),
    withdraw := (pt.wd4 ++ pt.wdMp).map (fun r => (r.1, r.2.1, eraseLabels r.2.2)),
    attrs := sortVals (relayed p pt.st),
    eor := eorOfParts pt }

/-! ### frame -/

theorem splitBody_frame (W A N : Bytes) (hW : W.length < 65536) (hA : A.length < 65536) :
    splitBody (be16 W.length ++ (W ++ (be16 A.length ++ (A ++ N)))) = .ok (W, A, N) := by
  unfold splitBody
  have e1 : rd16 (be16 W.length ++ (W ++ (be16 A.length ++ (A ++ N)))) = W.length := rd16_be16 _ hW _
  have d2 : (be16 W.length ++ (W ++ (be16 A.length ++ (A ++ N)))).drop 2 = W ++ (be16 A.length ++ (A ++ N)) :=
    drop2_be16 _ _
  have dW : (be16 W.length ++ (W ++ (be16 A.length ++ (A ++ N)))).drop (2 + W.length) =
      be16 A.length ++ (A ++ N) := by
    rw [← List.drop_drop, d2]; exact List.drop_left' rfl
  have d4 : (be16 W.length ++ (W ++ (be16 A.length ++ (A ++ N)))).drop (4 + W.length) = A ++ N := by
    have : 4 + W.length = 2 + W.length + 2 := by omega
    rw [this, ← List.drop_drop, dW, drop2_be16]
  have el : (be16 W.length ++ (W ++ (be16 A.length ++ (A ++ N)))).length = 4 + W.length + A.length + N.length := by
    simp; omega
  rw [el, e1, dW, rd16_be16 _ hA, d2, d4]
  have c1 : ¬ 4 + W.length + A.length + N.length < 4 := by omega
  have c2 : ¬ 4 + W.length + A.length + N.length < 4 + W.length := by omega
  have c3 : ¬ 4 + W.length + A.length + N.length < 4 + W.length + A.length := by omega
  rw [if_neg c1, if_neg c2, if_neg c3]
  have dN : (be16 W.length ++ (W ++ (be16 A.length ++ (A ++ N)))).drop (4 + W.length + A.length) = N := by
    rw [← List.drop_drop, d4]; exact List.drop_left' rfl
  rw [dN, List.take_left' rfl, List.take_left' rfl]

/-! ### the attribute block -/

/-- The loop of the model on the reference encoding of a well-formed attribute list. -/
theorem loop_encAttrs {fx : Fix} {tb : List Row} {xp : XP} (htb : TableOk tb) (hz : TableZero tb) (as : List Attr)
    (hwf : ∀ a ∈ as, WFAttr xp.p a) (hacc : ∀ a ∈ as, ExaAccepts tb xp a) (hnd : dupCode as = false) :
    loop fx tb xp (tlvsOf (encAttrs xp.p as)) initSt =
      .ok { kept := as.filterMap (keptOfAttr xp.p), taw := false, disc := false } ∧
    cutOf (encAttrs xp.p as) = false := by
  have hw := walk_encAttrs xp.p as hwf _ (Nat.le_refl _)
  unfold tlvsOf cutOf
  rw [hw]
  refine ⟨?_, rfl⟩
  have := loop_enc (fx := fx) htb hz as hwf hacc hnd initSt (by intro a _; simp [initSt])
  simpa [initSt] using this

end Exa.Attr7606

namespace Exa.Attr7606
open Exa Exa.Wire
open Exa.Generated.AttrTable (Row)

/-! ### relayed attributes, without RFC 6793 reconstruction -/

/-- No RFC 6793 reconstruction is involved: no AS4_AGGREGATOR, and on a 2-octet session no AS4_PATH. -/
def MergeFree (p : Params) (as : List Attr) : Prop :=
  (∀ a ∈ as, a.val.code ≠ 18) ∧ (p.asn4 = false → ∀ a ∈ as, a.val.code ≠ 17)

theorem filterMap_filter_filterMap {α β γ : Type} (g : α → Option β) (q : β → Bool) (h : β → Option γ) (l : List α) :
    ((l.filterMap g).filter q).filterMap h = l.filterMap (fun a => (g a).bind (fun k => if q k then h k else none)) := by
  induction l with
  | nil => rfl
  | cons a t ih =>
    cases hg : g a with
    | none => simp [List.filterMap_cons, hg, ih]
    | some k =>
      cases hq : q k <;> simp [List.filterMap_cons, hg, hq, ih, List.filter_cons]

theorem kept_codes_of {p : Params} {as : List Attr} {c : Nat} (h : ∀ a ∈ as, a.val.code ≠ c) :
    ∀ k ∈ as.filterMap (keptOfAttr p), k.code ≠ c := by
  intro k hk
  obtain ⟨a, ha, hka⟩ := List.mem_filterMap.1 hk
  rw [keptOfAttr_code p a k hka]
  exact h a ha

theorem findKept_none_of {ks : List Kept} {c : Nat} (h : ∀ k ∈ ks, k.code ≠ c) : findKept ks c = none := by
  unfold findKept
  apply List.find?_eq_none.2
  intro k hk
  simp [h k hk]

theorem hasKept_false_of {ks : List Kept} {c : Nat} (h : ∀ k ∈ ks, k.code ≠ c) : hasKept ks c = false := by
  unfold hasKept
  apply List.any_eq_false.2
  intro k hk
  simp [h k hk]

theorem findAs4Path_none {as : List Attr} (h : ∀ a ∈ as, a.val.code ≠ 17) : findAs4Path as = none := by
  induction as with
  | nil => rfl
  | cons a t ih =>
    have ha := h a (by simp)
    unfold findAs4Path
    cases hv : a.val <;> simp_all [AttrVal.code]

theorem findAgg4_none {as : List Attr} (h : ∀ a ∈ as, a.val.code ≠ 18) : findAgg4 as = none := by
  induction as with
  | nil => rfl
  | cons a t ih =>
    have ha := h a (by simp)
    unfold findAgg4
    cases hv : a.val <;> simp_all [AttrVal.code]

/-- `postLoop` on a collection without AS4_AGGREGATOR (and, on a 2-octet session, without AS4_PATH), not marked. -/
theorem postLoop_mergeFree (asn4 : Bool) (ks : List Kept) (d : Bool) (h18 : ∀ k ∈ ks, k.code ≠ 18)
    (h17 : asn4 = false → ∀ k ∈ ks, k.code ≠ 17) :
    postLoop asn4 { kept := ks, taw := false, disc := d } =
      { kept := ks.filter (fun k => !asn4 || k.code != 17), taw := false, disc := d } := by
  unfold postLoop
  cases asn4 with
  | true => simp
  | false =>
    have e0 : ks.filter (fun k => !false || k.code != 17) = ks := by simp
    have e1 : mergeAggregator ks = ks := by simp [mergeAggregator, findKept_none_of h18]
    have e2 : mergePath ks = ks := by simp [mergePath, hasKept_false_of (h17 rfl)]
    rw [e0]; simp [e1, e2]

/-- The kept bytes of a well-formed attribute, read back. -/
theorem keptVal_enc (p : Params) (a : Attr) (hv : WFVal p a.val) : keptVal p (keptOf (tlvOf p a)) = some a.val := by
  have hdv := decVal_encVal p a.val hv
  have hp : ({ p with asn4 := p.asn4 || false } : Params) = p := by cases p; simp
  simp [keptVal, keptOf, tlvOf, hp, hdv]

/-- One attribute: what the model relays for it is what the reference reports for it. -/
theorem relay_one (p : Params) (as : List Attr) (hmf : MergeFree p as) (a : Attr) (ha : a ∈ as) (hwf : WFAttr p a)
    (hna : ∀ c raw, a.val = .unknown c raw → c ≠ aigpCode) :
    (keptOfAttr p a).bind (fun k =>
        if ((!p.asn4 || k.code != 17) && (k.code != 14 && k.code != 15)) then keptVal p k else none) =
      reportVal p as a := by
  obtain ⟨hf, hv, _⟩ := hwf
  have h18 := hmf.1 a ha
  have hkv := keptVal_enc p a hv
  cases hval : a.val with
  | unknown c raw =>
    have hv' := hv
    rw [hval] at hv'
    simp only [WFVal, knownCodes, List.mem_cons, List.mem_nil_iff, or_false, not_or] at hv'
    have hdv := decVal_encVal p a.val hv
    rw [hval] at hdv
    simp only [AttrVal.code, encVal] at hdv
    have hp : ({ p with asn4 := p.asn4 || false } : Params) = p := by cases p; simp
    cases ht : a.flags.trans
    · have h26 := hna c raw hval
      simp [keptOfAttr, hval, ht, reportVal, h26]
    · have hc : c ≠ 17 ∧ c ≠ 14 ∧ c ≠ 15 ∧ c ≠ 2 := by omega
      simp [keptOfAttr, hval, ht, reportVal, hc, keptVal, hp, hdv]
  | mpReach afi safi nh ns => simp [keptOfAttr, hval, reportVal, keptOf, tlvOf, AttrVal.code]
  | mpUnreach afi safi ns => simp [keptOfAttr, hval, reportVal, keptOf, tlvOf, AttrVal.code]
  | mpReachRaw afi safi nh raw => simp [keptOfAttr, hval, reportVal, keptOf, tlvOf, AttrVal.code]
  | mpUnreachRaw afi safi raw => simp [keptOfAttr, hval, reportVal, keptOf, tlvOf, AttrVal.code]
  | as4Aggregator x y => rw [hval] at h18; simp [AttrVal.code] at h18
  | as4Path s =>
    cases h4 : p.asn4
    · have := hmf.2 h4 a ha; rw [hval] at this; simp [AttrVal.code] at this
    · simp [keptOfAttr, hval, reportVal, keptOf, tlvOf, AttrVal.code, h4]
  | asPath s =>
    have hc : (keptOf (tlvOf p a)).code = 2 := by simp [keptOf, tlvOf, hval, AttrVal.code]
    simp only [keptOfAttr, hval, Option.bind_some, hc, hkv]
    cases h4 : p.asn4
    · simp [reportVal, h4, hval, findAs4Path_none (hmf.2 h4)]
    · simp [reportVal, h4, hval]
  | aggregator x y =>
    have hc : (keptOf (tlvOf p a)).code = 7 := by simp [keptOf, tlvOf, hval, AttrVal.code]
    simp only [keptOfAttr, hval, Option.bind_some, hc, hkv]
    cases h4 : p.asn4 <;> simp [reportVal, h4, hval, findAgg4_none hmf.1]
  | origin o =>
    have hc : (keptOf (tlvOf p a)).code = 1 := by simp [keptOf, tlvOf, hval, AttrVal.code]
    simp [keptOfAttr, hval, hc, hkv, reportVal]
  | nextHop o =>
    have hc : (keptOf (tlvOf p a)).code = 3 := by simp [keptOf, tlvOf, hval, AttrVal.code]
    simp [keptOfAttr, hval, hc, hkv, reportVal]
  | med o =>
    have hc : (keptOf (tlvOf p a)).code = 4 := by simp [keptOf, tlvOf, hval, AttrVal.code]
    simp [keptOfAttr, hval, hc, hkv, reportVal]
  | localPref o =>
    have hc : (keptOf (tlvOf p a)).code = 5 := by simp [keptOf, tlvOf, hval, AttrVal.code]
    simp [keptOfAttr, hval, hc, hkv, reportVal]
  | communities o =>
    have hc : (keptOf (tlvOf p a)).code = 8 := by simp [keptOf, tlvOf, hval, AttrVal.code]
    simp [keptOfAttr, hval, hc, hkv, reportVal]
  | originatorId o =>
    have hc : (keptOf (tlvOf p a)).code = 9 := by simp [keptOf, tlvOf, hval, AttrVal.code]
    simp [keptOfAttr, hval, hc, hkv, reportVal]
  | clusterList o =>
    have hc : (keptOf (tlvOf p a)).code = 10 := by simp [keptOf, tlvOf, hval, AttrVal.code]
    simp [keptOfAttr, hval, hc, hkv, reportVal]
  | extCommunities o =>
    have hc : (keptOf (tlvOf p a)).code = 16 := by simp [keptOf, tlvOf, hval, AttrVal.code]
    simp [keptOfAttr, hval, hc, hkv, reportVal]
  | largeCommunities o =>
    have hc : (keptOf (tlvOf p a)).code = 32 := by simp [keptOf, tlvOf, hval, AttrVal.code]
    simp [keptOfAttr, hval, hc, hkv, reportVal]
  | atomicAggregate =>
    have hc : (keptOf (tlvOf p a)).code = 6 := by simp [keptOf, tlvOf, hval, AttrVal.code]
    simp [keptOfAttr, hval, hc, hkv, reportVal]

end Exa.Attr7606

namespace Exa.Attr7606
open Exa Exa.Wire
open Exa.Generated.AttrTable (Row)

/-! ### finding one attribute on both sides -/

def findAttr (as : List Attr) (c : Nat) : Option Attr := as.find? (fun a => a.val.code == c)

theorem keptOfAttr_known (p : Params) (a : Attr) (h : ∀ c raw, a.val ≠ .unknown c raw) :
    keptOfAttr p a = some (keptOf (tlvOf p a)) := by
  unfold keptOfAttr
  cases hv : a.val <;> simp
  exact absurd hv (h _ _)

theorem not_unknown_of_code {p : Params} {a : Attr} (hwf : WFAttr p a) {c : Nat} (hc : c ∈ knownCodes)
    (h : a.val.code = c) : ∀ c' raw, a.val ≠ .unknown c' raw := by
  intro c' raw hu
  have hv := hwf.2.1
  rw [hu] at hv h
  simp only [WFVal] at hv
  simp only [AttrVal.code] at h
  exact hv (h ▸ hc)

/-- The first kept attribute with a recognised code is the first attribute of the UPDATE with that code. -/
theorem findKept_enc (p : Params) (c : Nat) (hc : c ∈ knownCodes) (q : Kept → Bool) (hq : ∀ k, k.code = c → q k = true) :
    ∀ (as : List Attr), (∀ a ∈ as, WFAttr p a) →
    findKept ((as.filterMap (keptOfAttr p)).filter q) c = (findAttr as c).map (fun a => keptOf (tlvOf p a))
  | [], _ => rfl
  | a :: t, hwf => by
    have ih := findKept_enc p c hc q hq t (fun x hx => hwf x (List.mem_cons_of_mem _ hx))
    unfold findKept findAttr at *
    by_cases hac : a.val.code = c
    · have hk := keptOfAttr_known p a (not_unknown_of_code (hwf a (by simp)) hc hac)
      have hkc : (keptOf (tlvOf p a)).code = c := by simp [keptOf, tlvOf, hac]
      simp [List.filterMap_cons, hk, List.filter_cons, hq _ hkc, List.find?_cons, hkc, hac]
    · cases hk : keptOfAttr p a with
      | none => simp [List.filterMap_cons, hk, List.find?_cons, hac, ih]
      | some k =>
        have hkc : k.code ≠ c := by rw [keptOfAttr_code p a k hk]; exact hac
        cases hqk : q k <;> simp [List.filterMap_cons, hk, List.filter_cons, hqk, List.find?_cons, hkc, hac, ih]

theorem findAttr_cons (a : Attr) (t : List Attr) (c : Nat) :
    findAttr (a :: t) c = if a.val.code = c then some a else findAttr t c := by
  unfold findAttr
  by_cases h : a.val.code = c <;> simp [List.find?_cons, h]

theorem findNextHop_cons (a : Attr) (t : List Attr) :
    findNextHop (a :: t) = (match a.val with | .nextHop ip => some ip | _ => findNextHop t) := rfl

theorem unknown_code_not_known {p : Params} {a : Attr} (hwf : WFAttr p a) {c : Nat} {raw : Bytes}
    (hv : a.val = .unknown c raw) : c ∉ knownCodes := by
  have := hwf.2.1; rw [hv] at this; exact this

theorem findNextHop_eq (p : Params) (as : List Attr) (hwf : ∀ a ∈ as, WFAttr p a) :
    findNextHop as = (findAttr as 3).bind (fun a => match a.val with | .nextHop ip => some ip | _ => none) := by
  induction as with
  | nil => rfl
  | cons a t ih =>
    have iht := ih (fun x hx => hwf x (List.mem_cons_of_mem _ hx))
    rw [findNextHop_cons, findAttr_cons]
    cases hv : a.val with
    | nextHop ip => simp [AttrVal.code, hv]
    | unknown c raw =>
      have := unknown_code_not_known (hwf a (by simp)) hv
      have hc : c ≠ 3 := by intro h; subst h; exact this (by decide)
      simp [AttrVal.code, hc, iht]
    | _ => simp [AttrVal.code, iht]

theorem mpWithdraws_cons (a : Attr) (t : List Attr) :
    mpWithdraws (a :: t) = (match a.val with
      | .mpUnreach afi safi ns => ns.map (fun n => (afi, safi, eraseLabels n))
      | _ => []) ++ mpWithdraws t := rfl

theorem mpAnnounces_cons (a : Attr) (t : List Attr) :
    mpAnnounces (a :: t) = (match a.val with
      | .mpReach afi safi nh ns => ns.map (fun n => (afi, safi, nhAddr safi nh, n))
      | _ => []) ++ mpAnnounces t := rfl

theorem findAttr_none_of_hasCode {t : List Attr} {c : Nat} (h : hasCode t c = false) : findAttr t c = none := by
  unfold findAttr
  apply List.find?_eq_none.2
  intro b hb
  have := hasCode_false h b hb
  simp [this]

theorem mpWithdraws_eq (p : Params) (as : List Attr) (hwf : ∀ a ∈ as, WFAttr p a) (hnd : dupCode as = false) :
    mpWithdraws as = (match findAttr as 15 with
      | some a => (match a.val with
        | .mpUnreach afi safi ns => ns.map (fun n => (afi, safi, eraseLabels n))
        | _ => [])
      | none => []) := by
  induction as with
  | nil => rfl
  | cons a t ih =>
    simp only [dupCode, Bool.or_eq_false_iff] at hnd
    obtain ⟨hnc, hnd'⟩ := hnd
    have iht := ih (fun x hx => hwf x (List.mem_cons_of_mem _ hx)) hnd'
    rw [mpWithdraws_cons, findAttr_cons]
    by_cases hac : a.val.code = 15
    · have hnone := findAttr_none_of_hasCode (c := 15) (by rw [← hac]; exact hnc)
      rw [hnone] at iht
      simp only [hac, if_true, iht, List.append_nil]
    · simp only [hac, if_false, iht]
      cases hv : a.val <;> simp_all [AttrVal.code]

theorem mpAnnounces_eq (p : Params) (as : List Attr) (hwf : ∀ a ∈ as, WFAttr p a) (hnd : dupCode as = false) :
    mpAnnounces as = (match findAttr as 14 with
      | some a => (match a.val with
        | .mpReach afi safi nh ns => ns.map (fun n => (afi, safi, nhAddr safi nh, n))
        | _ => [])
      | none => []) := by
  induction as with
  | nil => rfl
  | cons a t ih =>
    simp only [dupCode, Bool.or_eq_false_iff] at hnd
    obtain ⟨hnc, hnd'⟩ := hnd
    have iht := ih (fun x hx => hwf x (List.mem_cons_of_mem _ hx)) hnd'
    rw [mpAnnounces_cons, findAttr_cons]
    by_cases hac : a.val.code = 14
    · have hnone := findAttr_none_of_hasCode (c := 14) (by rw [← hac]; exact hnc)
      rw [hnone] at iht
      simp only [hac, if_true, iht, List.append_nil]
    · simp only [hac, if_false, iht]
      cases hv : a.val <;> simp_all [AttrVal.code]

end Exa.Attr7606

namespace Exa.Attr7606
open Exa Exa.Wire
open Exa.Generated.AttrTable (Row)

/-! ### the MP attributes and the next hop, read back from the kept bytes -/

theorem findAttr_mem {as : List Attr} {c : Nat} {a : Attr} (h : findAttr as c = some a) : a ∈ as ∧ a.val.code = c := by
  unfold findAttr at h
  refine ⟨List.mem_of_find?_eq_some h, ?_⟩
  have := List.find?_some h
  simpa using this

theorem nlriField_enc (xp : XP) (afi safi : Nat) (wd : Bool) (ns : List Nlri) (hs : supported afi safi = true)
    (hn : ∀ n ∈ ns, WFNlri afi safi (xp.p.ap afi safi) wd n) :
    nlriField xp afi safi wd (encNlris safi wd ns) = .ok (ns.map (fun n => (afi, safi, n))) := by
  unfold nlriField
  simp only [hs, if_true]
  rw [decNlris_encNlris afi safi (xp.p.ap afi safi) wd ns hn _ (Nat.le_refl _)]

/-- Routes of the MP_UNREACH_NLRI the model kept = routes of the MP_UNREACH_NLRI of the UPDATE. -/
theorem mpWithdrawn_enc {tb : List Row} (xp : XP) (as : List Attr) (hwf : ∀ a ∈ as, WFAttr xp.p a)
    (hacc : ∀ a ∈ as, ExaAccepts tb xp a) (q : Kept → Bool) (hq : ∀ k, k.code = 15 → q k = true) :
    mpWithdrawn xp ((as.filterMap (keptOfAttr xp.p)).filter q) =
      .ok (match findAttr as 15 with
        | some a => (match a.val with
          | .mpUnreach afi safi ns => ns.map (fun n => (afi, safi, n))
          | _ => [])
        | none => []) := by
  unfold mpWithdrawn
  rw [findKept_enc xp.p 15 (by decide) q hq as hwf]
  cases hf : findAttr as 15 with
  | none => rfl
  | some a =>
    obtain ⟨ham, hac⟩ := findAttr_mem hf
    have hv := (hwf a ham).2.1
    have hx := (hacc a ham).2
    simp only [Option.map_some]
    cases hval : a.val <;> rw [hval] at hac hv hx <;> simp only [AttrVal.code] at hac <;> try omega
    · -- mpUnreach
      rename_i afi safi ns
      simp only [WFVal] at hv
      obtain ⟨ha, _⟩ := supported_bounds afi safi hv.1
      have e2 : (be16 afi ++ (safi :: encNlris safi true ns)).getD 2 0 = safi := by simp [be16]
      have d3 : (be16 afi ++ (safi :: encNlris safi true ns)).drop 3 = encNlris safi true ns := by simp [be16]
      simp only [keptOf, tlvOf, hval, encVal, e2, d3, rd16_be16 afi ha]
      exact nlriField_enc xp afi safi true ns hv.1 hv.2
    · exact absurd hx id
    · rename_i c raw
      have := hv; simp only [WFVal] at this
      subst hac; exact absurd (by decide) this

/-- Routes and next hop of the MP_REACH_NLRI the model kept = those of the MP_REACH_NLRI of the UPDATE. -/
theorem mpAnnounced_enc {tb : List Row} (xp : XP) (as : List Attr) (hwf : ∀ a ∈ as, WFAttr xp.p a)
    (hacc : ∀ a ∈ as, ExaAccepts tb xp a) (q : Kept → Bool) (hq : ∀ k, k.code = 14 → q k = true) :
    mpAnnounced xp ((as.filterMap (keptOfAttr xp.p)).filter q) =
      .ok (match findAttr as 14 with
        | some a => (match a.val with
          | .mpReach afi safi _ ns => ns.map (fun n => (afi, safi, n))
          | _ => [])
        | none => []) ∧
    nhMpOf ((as.filterMap (keptOfAttr xp.p)).filter q) =
      (match findAttr as 14 with
        | some a => (match a.val with
          | .mpReach _ safi nh _ => nhAddr safi nh
          | _ => [])
        | none => []) := by
  unfold mpAnnounced nhMpOf
  rw [findKept_enc xp.p 14 (by decide) q hq as hwf]
  cases hf : findAttr as 14 with
  | none => exact ⟨rfl, rfl⟩
  | some a =>
    obtain ⟨ham, hac⟩ := findAttr_mem hf
    have hv := (hwf a ham).2.1
    have hx := (hacc a ham).2
    simp only [Option.map_some]
    cases hval : a.val <;> rw [hval] at hac hv hx <;> simp only [AttrVal.code] at hac <;> try omega
    · rename_i afi safi nh ns
      simp only [WFVal] at hv
      obtain ⟨hs, hnh, hn⟩ := hv
      obtain ⟨ha, _⟩ := supported_bounds afi safi hs
      have e3 : (be16 afi ++ (safi :: nh.length :: (nh ++ 0 :: encNlris safi false ns))).getD 3 0 = nh.length := by
        simp [be16]
      have e2 : (be16 afi ++ (safi :: nh.length :: (nh ++ 0 :: encNlris safi false ns))).getD 2 0 = safi := by
        simp [be16]
      have d4 : (be16 afi ++ (safi :: nh.length :: (nh ++ 0 :: encNlris safi false ns))).drop 4 =
          nh ++ 0 :: encNlris safi false ns := by simp [be16]
      have d5 : (be16 afi ++ (safi :: nh.length :: (nh ++ 0 :: encNlris safi false ns))).drop (5 + nh.length) =
          encNlris safi false ns := by
        have : 5 + nh.length = 4 + (nh.length + 1) := by omega
        rw [this, ← List.drop_drop, d4]
        have : nh ++ 0 :: encNlris safi false ns = (nh ++ [0]) ++ encNlris safi false ns := by simp
        rw [this]
        exact List.drop_left' (by simp)
      simp only [keptOf, tlvOf, hval, encVal, e2, e3, d4, d5, rd16_be16 afi ha, List.take_left' rfl]
      exact ⟨nlriField_enc xp afi safi false ns hs hn, trivial⟩
    · exact absurd hx id
    · rename_i c raw
      have := hv; simp only [WFVal] at this
      subst hac; exact absurd (by decide) this

/-- The NEXT_HOP the model kept = the NEXT_HOP of the UPDATE. -/
theorem nh4Of_enc (p : Params) (as : List Attr) (hwf : ∀ a ∈ as, WFAttr p a) (q : Kept → Bool)
    (hq : ∀ k, k.code = 3 → q k = true) :
    nh4Of ((as.filterMap (keptOfAttr p)).filter q) =
      (match findNextHop as with | some ip => be32 ip | none => []) := by
  unfold nh4Of
  rw [findKept_enc p 3 (by decide) q hq as hwf, findNextHop_eq p as hwf]
  cases hf : findAttr as 3 with
  | none => rfl
  | some a =>
    obtain ⟨ham, hac⟩ := findAttr_mem hf
    have hv := (hwf a ham).2.1
    simp only [Option.map_some, Option.bind_some]
    cases hval : a.val <;> rw [hval] at hac hv <;> simp only [AttrVal.code] at hac <;> try omega
    · simp [keptOf, tlvOf, hval, encVal]
    · rename_i c raw
      simp only [WFVal] at hv
      subst hac; exact absurd (by decide) hv

end Exa.Attr7606

namespace Exa.Attr7606
open Exa Exa.Wire
open Exa.Generated.AttrTable (Row)

/-! ### the whole message -/

theorem dupCode_of_semErr {p : Params} {u : UpdateSem} (h : semErr p u = none) : dupCode u.attrs = false := by
  unfold semErr at h
  cases hd : dupCode u.attrs
  · rfl
  · simp [hd] at h

/-- What the model of ExaBGP's decoder has in hand for the reference encoding of a well-formed UPDATE. -/
def partsOf (xp : XP) (u : UpdateSem) : Parts :=
  { st := { kept := (u.attrs.filterMap (keptOfAttr xp.p)).filter (fun k => !xp.p.asn4 || k.code != 17),
            taw := false, disc := false },
    wd4 := u.withdrawn.map (fun n => (1, 1, n)),
    ann4 := u.nlri.map (fun n => (1, 1, n)),
    wdMp := (match findAttr u.attrs 15 with
      | some a => (match a.val with
        | .mpUnreach afi safi ns => ns.map (fun n => (afi, safi, n))
        | _ => [])
      | none => []),
    annMp := (match findAttr u.attrs 14 with
      | some a => (match a.val with
        | .mpReach afi safi _ ns => ns.map (fun n => (afi, safi, n))
        | _ => [])
      | none => []) }

theorem decodeParts_enc {fx : Fix} {tb : List Row} {xp : XP} (htb : TableOk tb) (hz : TableZero tb) (u : UpdateSem)
    (hwf : WFUpdate xp.p u) (hacc : ∀ a ∈ u.attrs, ExaAccepts tb xp a) (hmf : MergeFree xp.p u.attrs) :
    decodeParts fx tb xp (encodeUpdate xp.p u) = .ok (partsOf xp u) := by
  obtain ⟨hw, ha, hn, hW, hA, _, hsem⟩ := hwf
  have hnd := dupCode_of_semErr hsem
  obtain ⟨hloop, hcut⟩ := loop_encAttrs (fx := fx) htb hz u.attrs ha hacc hnd
  unfold decodeParts encodeUpdate
  rw [splitBody_frame _ _ _ hW hA]
  simp only
  unfold parseBlock blockAttrs
  rw [hloop, hcut]
  simp only [Bool.or_false]
  rw [postLoop_mergeFree xp.p.asn4 _ false (kept_codes_of hmf.1) (fun h4 => kept_codes_of (hmf.2 h4))]
  simp only
  rw [nlriField_enc xp 1 1 true u.withdrawn (by decide) hw, nlriField_enc xp 1 1 false u.nlri (by decide) hn]
  simp only
  rw [mpWithdrawn_enc (tb := tb) xp u.attrs ha hacc _ (by intro k hk; simp [hk])]
  simp only
  rw [(mpAnnounced_enc (tb := tb) xp u.attrs ha hacc _ (by intro k hk; simp [hk])).1]
  rfl

theorem filterMap_congr_mem {α β : Type} {f g : α → Option β} : ∀ {l : List α}, (∀ a ∈ l, f a = g a) →
    l.filterMap f = l.filterMap g
  | [], _ => rfl
  | a :: t, h => by
    have ih := filterMap_congr_mem (l := t) (fun x hx => h x (List.mem_cons_of_mem _ hx))
    simp [List.filterMap_cons, h a (by simp), ih]

/-- The relayed attribute values, in wire order, are the reference's reported values before sorting. -/
theorem relayed_enc (xp : XP) (u : UpdateSem) (ha : ∀ a ∈ u.attrs, WFAttr xp.p a) (hmf : MergeFree xp.p u.attrs)
    (hna : ∀ a ∈ u.attrs, ∀ c raw, a.val = .unknown c raw → c ≠ aigpCode) :
    relayed xp.p (partsOf xp u).st = u.attrs.filterMap (reportVal xp.p u.attrs) := by
  unfold relayed reportedAttrs partsOf
  simp only [List.filter_filter]
  rw [filterMap_filter_filterMap]
  apply filterMap_congr_mem
  intro a ham
  have := relay_one xp.p u.attrs hmf a ham (ha a ham) (hna a ham)
  rw [← this]
  cases hk : keptOfAttr xp.p a with
  | none => rfl
  | some k =>
    simp only [Option.bind_some]
    cases h1 : (!xp.p.asn4 || k.code != 17) <;> cases h2 : (k.code != 14 && k.code != 15) <;> simp [h1, h2]

end Exa.Attr7606
