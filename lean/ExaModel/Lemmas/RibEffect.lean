import ExaModel.Lemmas.RibBasic
set_option linter.unusedSimpArgs false
/-! Per-NLRI effect of event lists and the closed form of a snapshot's effect. -/
namespace Exa.Rib
open Exa

abbrev Val := Option (Nat × Nat)

/-- What one event does to the peer's entry for NLRI `n`. -/
def upd (n : Nat) (v : Val) : Ev → Val
  | .ann r => if r.nlri = n then some (r.attr, r.nh) else v
  | .wd m _ => if m = n then none else v
  | _ => v

def effect (n : Nat) (evs : List Ev) (v : Val) : Val := evs.foldl (upd n) v

@[simp] theorem effect_nil (n : Nat) (v : Val) : effect n [] v = v := rfl
@[simp] theorem effect_cons (n : Nat) (e : Ev) (evs : List Ev) (v : Val) :
    effect n (e :: evs) v = effect n evs (upd n v e) := rfl
@[simp] theorem effect_append (n : Nat) (a b : List Ev) (v : Val) :
    effect n (a ++ b) v = effect n b (effect n a v) := by
  simp [effect, List.foldl_append]

theorem lookup_applyEv (n : Nat) (t : Table) (e : Ev) :
    AList.lookup n (applyEv t e) = upd n (AList.lookup n t) e := by
  cases e with
  | ann r =>
    simp only [applyEv, upd]
    by_cases h : r.nlri = n
    · subst h; simp
    · have h' : n ≠ r.nlri := fun e => h e.symm
      simp [h, AList.lookup_insert_ne h']
  | wd m f =>
    simp only [applyEv, upd]
    by_cases h : m = n
    · subst h; simp
    · have h' : n ≠ m := fun e => h e.symm
      simp [h, AList.lookup_erase_ne h']
  | rrStart f => rfl
  | rrEnd f => rfl
  | eor f => rfl

theorem lookup_applyEvs (n : Nat) (t : Table) (evs : List Ev) :
    AList.lookup n (applyEvs t evs) = effect n evs (AList.lookup n t) := by
  induction evs generalizing t with
  | nil => rfl
  | cons e es ih => simp [applyEvs, List.foldl_cons] at ih ⊢; rw [← lookup_applyEv]; exact ih _

/-- markers do nothing to a table entry -/
theorem effect_rrStart (n : Nat) (fs : List Nat) (v : Val) : effect n (fs.map Ev.rrStart) v = v := by
  induction fs with
  | nil => rfl
  | cons f t ih => simpa [upd] using ih

theorem effect_rrEnd (n : Nat) (fs : List Nat) (v : Val) : effect n (fs.map Ev.rrEnd) v = v := by
  induction fs with
  | nil => rfl
  | cons f t ih => simpa [upd] using ih

/-- announces of routes none of which is for `n` -/
theorem effect_ann_other (n : Nat) (rs : List Route) (v : Val) (h : ∀ r ∈ rs, r.nlri ≠ n) :
    effect n (rs.map Ev.ann) v = v := by
  induction rs with
  | nil => rfl
  | cons r t ih =>
    have h1 : r.nlri ≠ n := h r List.mem_cons_self
    simp only [List.map_cons, effect_cons, upd, h1, if_false]
    exact ih (fun r hr => h r (List.mem_cons_of_mem _ hr))

/-- announces that all agree with `c` on `n` leave `c` in place -/
theorem effect_ann_agree (n : Nat) (rs : List Route) (c : Val)
    (h : ∀ r ∈ rs, r.nlri = n → some (r.attr, r.nh) = c) :
    effect n (rs.map Ev.ann) c = c := by
  induction rs with
  | nil => rfl
  | cons r t ih =>
    simp only [List.map_cons, effect_cons, upd]
    by_cases h1 : r.nlri = n
    · simp only [h1, if_true]
      rw [h r List.mem_cons_self h1]
      exact ih (fun r hr => h r (List.mem_cons_of_mem _ hr))
    · simp only [h1, if_false]
      exact ih (fun r hr => h r (List.mem_cons_of_mem _ hr))

/-- dropping routes of another NLRI from an announce list does not change the effect on `n` -/
theorem effect_ann_filter_ne (n m : Nat) (rs : List Route) (v : Val) (h : n ≠ m) :
    effect n ((rs.filter (fun r => r.nlri != m)).map Ev.ann) v = effect n (rs.map Ev.ann) v := by
  induction rs generalizing v with
  | nil => rfl
  | cons r t ih =>
    by_cases h1 : r.nlri = m
    · have hmn : m ≠ n := fun e => h e.symm
      simp [h1, upd, hmn, ih]
    · simp [h1, ih]

theorem effect_ann_filter_self (n : Nat) (rs : List Route) (v : Val) :
    effect n ((rs.filter (fun r => r.nlri != n)).map Ev.ann) v = v := by
  apply effect_ann_other
  intro r hr
  have := (List.mem_filter.1 hr).2
  simpa using this

/-- withdraws: the entry is removed iff `n` is among them -/
theorem effect_wd (n : Nat) (l : AList Nat Nat) (v : Val) :
    effect n (l.map (fun p => Ev.wd p.1 p.2)) v = if AList.lookup n l = none then v else none := by
  induction l generalizing v with
  | nil => rfl
  | cons hd t ih =>
    obtain ⟨m, f⟩ := hd
    simp only [List.map_cons, effect_cons, upd, AList.lookup]
    by_cases h : m = n
    · subst h
      simp only [if_true]
      rw [ih]; split <;> simp
    · simp only [h, if_false]; exact ih v

/-- well-formed map of queued announces: keys are the routes' own nlri, no key twice -/
def KeyOK (l : AList Nat Route) : Prop := ∀ p ∈ l, p.2.nlri = p.1
def WFMap (l : AList Nat Route) : Prop := AList.NodupKeys l ∧ KeyOK l

theorem wfmap_nil : WFMap [] := by
  refine ⟨?_, ?_⟩
  · simp [AList.NodupKeys, AList.keys]
  · intro p hp; cases hp

theorem wfmap_insert {l : AList Nat Route} (h : WFMap l) (r : Route) : WFMap (AList.insert r.nlri r l) := by
  refine ⟨AList.nodup_insert h.1, ?_⟩
  intro p hp
  rcases AList.mem_insert hp with h1 | h1
  · subst h1; rfl
  · exact h.2 p h1

theorem wfmap_erase {l : AList Nat Route} (h : WFMap l) (n : Nat) : WFMap (AList.erase n l) :=
  ⟨AList.nodup_erase h.1, fun p hp => h.2 p (AList.mem_erase hp)⟩

theorem wfmap_tail {hd : Nat × Route} {t : AList Nat Route} (h : WFMap (hd :: t)) : WFMap t := by
  refine ⟨?_, fun p hp => h.2 p (List.mem_cons_of_mem _ hp)⟩
  have := h.1
  simp only [AList.NodupKeys, AList.keys, List.map_cons, List.nodup_cons] at this
  exact this.2

/-- the older announces kept for an NLRI are announces of that NLRI -/
def StaleOK (stale : AList Nat (List Route)) : Prop :=
  ∀ k chain, AList.lookup k stale = some chain → ∀ x ∈ chain, x.nlri = k

theorem staleOK_nil : StaleOK [] := by
  intro k chain h; simp at h

theorem staleOK_erase {stale : AList Nat (List Route)} (h : StaleOK stale) (n : Nat) :
    StaleOK (AList.erase n stale) := by
  intro k chain hk
  rw [AList.lookup_erase] at hk
  split at hk
  · cases hk
  · exact h k chain hk

theorem staleOK_insert {stale : AList Nat (List Route)} (h : StaleOK stale) (n : Nat) (c : List Route)
    (hc : ∀ x ∈ c, x.nlri = n) : StaleOK (AList.insert n c stale) := by
  intro k chain hk
  rw [AList.lookup_insert] at hk
  split at hk
  · rename_i e; cases hk; subst e; exact hc
  · exact h k chain hk

theorem chain_other (stale : AList Nat (List Route)) (h : StaleOK stale) (k n : Nat) (hk : k ≠ n) :
    ∀ r ∈ (AList.lookup k stale).getD [], r.nlri ≠ n := by
  intro r hr
  cases hl : AList.lookup k stale with
  | none => simp [hl] at hr
  | some c =>
    simp only [hl, Option.getD_some] at hr
    rw [h k c hl r hr]; exact hk

/-- the announce section: the latest queued route for `n` wins whatever older announces of `n`
    are still queued before it; otherwise nothing changes -/
theorem effect_annSection (n : Nat) (stale : AList Nat (List Route)) (l : AList Nat Route) (v : Val)
    (h : WFMap l) (hs : StaleOK stale) :
    effect n (annSection stale l) v =
      match AList.lookup n l with
      | some r => some (r.attr, r.nh)
      | none => v := by
  induction l generalizing v with
  | nil => rfl
  | cons hd t ih =>
    obtain ⟨k, r⟩ := hd
    have hk : r.nlri = k := h.2 (k, r) List.mem_cons_self
    have ht := wfmap_tail h
    simp only [annSection, List.flatMap_cons, effect_append, effect_cons, effect_nil, upd, AList.lookup]
    by_cases h1 : k = n
    · subst h1
      simp only [hk, if_true]
      have hnone : AList.lookup k t = none := by
        rw [AList.lookup_eq_none_iff]
        have := h.1
        simp only [AList.NodupKeys, AList.keys, List.map_cons, List.nodup_cons] at this
        exact this.1
      have := ih (some (r.attr, r.nh)) ht
      simp only [annSection] at this
      rw [this, hnone]
    · have h2 : r.nlri ≠ n := fun e => h1 (hk.symm.trans e)
      simp only [h1, h2, if_false]
      rw [effect_ann_other n _ v (chain_other stale hs k n h1)]
      have := ih v ht
      simp only [annSection] at this
      exact this

theorem mem_values_lookup {l : AList Nat Route} (h : WFMap l) {r : Route} (hr : r ∈ AList.values l) :
    AList.lookup r.nlri l = some r := by
  simp only [AList.values, List.mem_map] at hr
  obtain ⟨p, hp, rfl⟩ := hr
  have := h.2 p hp
  rw [this]
  exact AList.lookup_of_mem h.1 hp

end Exa.Rib
