import ExaModel.Model.Wire
set_option linter.unusedSimpArgs false
/-! RFC 6793 §4.2.3 on segments: what `takeUnits` keeps. -/
namespace Exa.Wire
open Exa

def flatAsns (s : List Seg) : List Nat := s.flatMap (fun x => x.2)

theorem pathCount_append (a b : List Seg) : pathCount (a ++ b) = pathCount a + pathCount b := by
  induction a with
  | nil => simp [pathCount]
  | cons s t ih => simp [pathCount, ih]; omega

/-- Confederation segments count for nothing: discarding them from an AS4_PATH leaves its count. -/
theorem pathCount_plainSegs (s : List Seg) : pathCount (plainSegs s) = pathCount s := by
  induction s with
  | nil => rfl
  | cons x t ih =>
    unfold plainSegs at ih ⊢
    by_cases h1 : x.1 = 1
    · simp [List.filter_cons, h1, pathCount, ih]
    · by_cases h2 : x.1 = 2
      · simp [List.filter_cons, h2, pathCount, ih]
      · simp [List.filter_cons, h1, h2, pathCount, segCount, ih]

/-- `takeUnits k` keeps a leading part that counts for exactly `k` AS numbers. -/
theorem pathCount_takeUnits (s : List Seg) (k : Nat) (h : k ≤ pathCount s) :
    pathCount (takeUnits k s) = k := by
  induction s generalizing k with
  | nil => simp [pathCount] at h; subst h; rfl
  | cons x t ih =>
    simp only [pathCount, segCount] at h
    unfold takeUnits
    by_cases h2 : x.1 = 2
    · simp only [h2, if_true] at h ⊢
      by_cases hl : x.2.length ≤ k
      · simp only [hl, if_true, pathCount, segCount, h2]
        rw [ih (k - x.2.length) (by omega)]; omega
      · simp only [hl, if_false]
        by_cases hk : k = 0
        · simp [hk, pathCount]
        · simp only [hk, if_false, pathCount, segCount, if_true, List.length_take]
          omega
    · simp only [h2, if_false] at h ⊢
      by_cases h1 : x.1 = 1
      · simp only [h1, if_true] at h ⊢
        by_cases hk : k = 0
        · simp [hk, pathCount]
        · simp only [hk, if_false, pathCount, segCount, h1, if_true]
          have : (1 : Nat) ≠ 2 := by decide
          simp only [this, if_false]
          rw [ih (k - 1) (by omega)]; omega
      · simp only [h1, if_false] at h ⊢
        simp only [pathCount, segCount, h2, h1, if_false]
        rw [ih k (by omega)]; omega

/-- The AS numbers kept are a prefix of the AS numbers of the path, in order. -/
theorem flatAsns_takeUnits_prefix (s : List Seg) (k : Nat) : flatAsns (takeUnits k s) <+: flatAsns s := by
  induction s generalizing k with
  | nil => simp [takeUnits, flatAsns]
  | cons x t ih =>
    unfold takeUnits
    by_cases h2 : x.1 = 2
    · simp only [h2, if_true]
      by_cases hl : x.2.length ≤ k
      · simp only [hl, if_true, flatAsns, List.flatMap_cons]
        exact (List.prefix_append_right_inj _).2 (ih _)
      · simp only [hl, if_false]
        by_cases hk : k = 0
        · simp [hk, flatAsns]
        · simp only [hk, if_false, flatAsns, List.flatMap_cons, List.flatMap_nil, List.append_nil]
          exact List.IsPrefix.trans (List.take_prefix _ _) (List.prefix_append _ _)
    · simp only [h2, if_false]
      by_cases h1 : x.1 = 1
      · simp only [h1, if_true]
        by_cases hk : k = 0
        · simp [hk, flatAsns]
        · simp only [hk, if_false, flatAsns, List.flatMap_cons]
          exact (List.prefix_append_right_inj _).2 (ih _)
      · simp only [h1, if_false, flatAsns, List.flatMap_cons]
        exact (List.prefix_append_right_inj _).2 (ih _)

/-- Whole segments are kept whole; at most the last kept AS_SEQUENCE is cut. -/
theorem takeUnits_all (s : List Seg) (k : Nat) (h : pathCount s ≤ k) : takeUnits k s = s := by
  induction s generalizing k with
  | nil => rfl
  | cons x t ih =>
    simp only [pathCount, segCount] at h
    unfold takeUnits
    by_cases h2 : x.1 = 2
    · simp only [h2, if_true] at h ⊢
      have hl : x.2.length ≤ k := by omega
      simp only [hl, if_true]
      rw [ih _ (by omega)]
    · simp only [h2, if_false] at h ⊢
      by_cases h1 : x.1 = 1
      · simp only [h1, if_true] at h ⊢
        have hk : k ≠ 0 := by omega
        simp only [hk, if_false]
        rw [ih _ (by omega)]
      · simp only [h1, if_false] at h ⊢
        rw [ih _ (by omega)]

end Exa.Wire
