import ExaModel.Lemmas.WireExaSem
set_option linter.unusedSimpArgs false
/-!
  M-Wire-Exa, part 3 of the lemmas: every semantic attribute ExaBGP emits is well formed for the RFC
  decoder (flags of its class, value in range), and the type codes of a slot are known — hence no
  duplicate attribute in the block.
-/
namespace Exa.WireExa
open Exa Exa.Wire
open Exa.Generated.ExaEncTable

/-- Well formed up to the bound on the value length (which comes from the size of the whole block). -/
def PreWF (p : Params) (a : Attr) : Prop :=
  a.flags.ext = decide ((encVal p a.val).length > 255) ∧ flagErr a.flags a.val.code = none ∧ WFVal p a.val

theorem flagErr_exa (o t : Bool) (n c : Nat) (h : flagSpec c = some (o, t)) : flagErr (exaFlags o t n) c = none := by
  simp [flagErr, h, exaFlags]

theorem prewf_mk (p : Params) (o t : Bool) (val : AttrVal) (hs : flagSpec val.code = some (o, t))
    (hv : WFVal p val) : PreWF p (mk p o t val) :=
  ⟨rfl, flagErr_exa o t _ _ hs, hv⟩

theorem wfattr_of_prewf (p : Params) (a : Attr) (h : PreWF p a) (hl : (encVal p a.val).length < 65536) :
    WFAttr p a := by
  refine ⟨h.2.1, h.2.2, ?_⟩
  rw [h.1]
  by_cases c : (encVal p a.val).length > 255
  · simp [c]; exact hl
  · simp [c]; omega

theorem encVal_lt_encAttr (p : Params) (a : Attr) : (encVal p a.val).length < (encAttr p a).length := by
  simp [encAttr]; omega

theorem encAttr_le_encAttrs (p : Params) (l : List Attr) (a : Attr) (h : a ∈ l) :
    (encAttr p a).length ≤ (encAttrs p l).length := by
  induction l with
  | nil => cases h
  | cons x t ih =>
    simp only [encAttrs, List.length_append]
    rcases List.mem_cons.1 h with h | h
    · subst h; omega
    · have := ih h; omega

/-- All attributes of a block of less than 65536 bytes are well formed as soon as they are `PreWF`. -/
theorem wfattrs_of_prewf (p : Params) (l : List Attr) (h : ∀ a ∈ l, PreWF p a)
    (hl : (encAttrs p l).length < 65536) : ∀ a ∈ l, WFAttr p a := by
  intro a ha
  have h1 := encVal_lt_encAttr p a
  have h2 := encAttr_le_encAttrs p l a ha
  exact wfattr_of_prewf p a (h a ha) (by omega)

/-! ### ranges -/

theorem transAsn_lt (a : Nat) : transAsn a < 65536 := by
  unfold transAsn isBig
  split
  · simp [exaAsTrans]
  · rename_i h; simp [asnMax2] at h; omega

theorem wfseg_true (s : Seg) (h : (s.1 = 1 ∨ s.1 = 2) ∧ 1 ≤ s.2.length ∧ s.2.length ≤ 255 ∧ ∀ a ∈ s.2, U32 a) :
    WFSeg true s := by
  refine ⟨by omega, by omega, h.2.1, h.2.2.1, ?_⟩
  intro a ha; have := h.2.2.2 a ha; unfold U32 at this; simpa using this

theorem wfseg_trans (segs : List Seg)
    (h : ∀ s ∈ segs, (s.1 = 1 ∨ s.1 = 2) ∧ 1 ≤ s.2.length ∧ s.2.length ≤ 255 ∧ ∀ a ∈ s.2, U32 a) :
    ∀ s ∈ transSegs segs, WFSeg false s := by
  intro s hs
  simp only [transSegs, List.mem_map] at hs
  obtain ⟨s0, h0, e⟩ := hs
  subst e
  have := h s0 h0
  refine ⟨by simp; omega, by simp; omega, by simpa using this.2.1, by simpa using this.2.2.1, ?_⟩
  intro a ha
  simp only [List.mem_map] at ha
  obtain ⟨a0, _, e⟩ := ha
  subst e
  simpa using transAsn_lt a0

def PathOk (segs : List Seg) : Prop :=
  ∀ s ∈ segs, (s.1 = 1 ∨ s.1 = 2) ∧ 1 ≤ s.2.length ∧ s.2.length ≤ 255 ∧ ∀ a ∈ s.2, U32 a

/-- A path of AS_SET and AS_SEQUENCE segments is sent whole in the AS4_PATH. -/
theorem plainSegs_of_PathOk (segs : List Seg) (h : PathOk segs) : plainSegs segs = segs := by
  unfold plainSegs
  apply List.filter_eq_self.2
  intro s hs
  rcases (h s hs).1 with h1 | h2
  · simp [h1]
  · simp [h2]

theorem prewf_semAsPath (p : SessParams) (segs : List Seg) (h : PathOk segs) :
    ∀ a ∈ semAsPath p segs, PreWF (paramsOf p) a := by
  unfold semAsPath
  by_cases h4 : p.asn4 = true
  · simp only [h4, if_true, List.mem_singleton]
    intro a ha; subst ha
    refine prewf_mk _ _ _ _ rfl ?_
    intro s hs
    have := wfseg_true s (h s hs)
    simpa [paramsOf, h4] using this
  · have h4' : p.asn4 = false := by simpa using h4
    simp only [h4', Bool.false_eq_true, if_false]
    intro a ha
    rcases List.mem_cons.1 ha with ha | ha
    · subst ha
      refine prewf_mk _ _ _ _ rfl ?_
      intro s hs
      have := wfseg_trans segs h s hs
      simpa [paramsOf, h4'] using this
    · split at ha
      · simp only [List.mem_singleton] at ha
        subst ha
        refine prewf_mk _ _ _ _ rfl ?_
        intro s hs; exact wfseg_true s (h s (List.mem_filter.mp hs).1)
      · cases ha

theorem prewf_semAggregator (p : SessParams) (asn ip : Nat) (h1 : U32 asn) (h2 : U32 ip) :
    ∀ a ∈ semAggregator p asn ip, PreWF (paramsOf p) a := by
  unfold semAggregator
  by_cases h4 : p.asn4 = true
  · simp only [h4, if_true, List.mem_singleton]
    intro a ha; subst ha
    refine prewf_mk _ _ _ _ rfl ?_
    simp only [WFVal, paramsOf, h4, if_true]; exact ⟨h1, h2⟩
  · have h4' : p.asn4 = false := by simpa using h4
    simp only [h4', Bool.false_eq_true, if_false]
    by_cases hb : isBig asn = true
    · simp only [hb, Bool.not_true, Bool.false_eq_true, if_false]
      intro a ha
      simp only [List.mem_cons, List.mem_nil_iff, or_false] at ha
      rcases ha with ha | ha
      · subst ha
        refine prewf_mk _ _ _ _ rfl ?_
        simp only [WFVal, paramsOf, h4', Bool.false_eq_true, if_false, exaAsTrans]; exact ⟨by omega, h2⟩
      · subst ha
        refine prewf_mk _ _ _ _ rfl ?_
        exact ⟨h1, h2⟩
    · have hb' : isBig asn = false := by simpa using hb
      simp only [hb', Bool.not_false, if_true, List.mem_singleton]
      intro a ha; subst ha
      refine prewf_mk _ _ _ _ rfl ?_
      simp only [WFVal, paramsOf, h4', Bool.false_eq_true, if_false]
      simp [isBig, asnMax2] at hb'
      exact ⟨by omega, h2⟩

theorem u32s_flat2 (cs : List (Nat × Nat)) (h : ∀ c ∈ cs, U32 c.1 ∧ U32 c.2) : U32s (flat2 cs) := by
  induction cs with
  | nil => intro a ha; simp [flat2] at ha
  | cons c t ih =>
    obtain ⟨x, y⟩ := c
    intro a ha
    simp only [flat2, List.mem_cons] at ha
    have hc := h (x, y) (by simp)
    rcases ha with ha | ha | ha
    · subst ha; exact hc.1
    · subst ha; exact hc.2
    · exact ih (fun c hc' => h c (List.mem_cons_of_mem _ hc')) a ha

theorem u32s_flat3 (cs : List (Nat × Nat × Nat)) (h : ∀ c ∈ cs, U32 c.1 ∧ U32 c.2.1 ∧ U32 c.2.2) :
    U32s (flat3 cs) := by
  induction cs with
  | nil => intro a ha; simp [flat3] at ha
  | cons c t ih =>
    obtain ⟨x, y, z⟩ := c
    intro a ha
    simp only [flat3, List.mem_cons] at ha
    have hc := h (x, y, z) (by simp)
    rcases ha with ha | ha | ha | ha
    · subst ha; exact hc.1
    · subst ha; exact hc.2.1
    · subst ha; exact hc.2.2
    · exact ih (fun c hc' => h c (List.mem_cons_of_mem _ hc')) a ha

theorem prewf_semGiven (p : SessParams) (a : ReqAttr) (h : WFReqAttr a) :
    ∀ x ∈ semGiven p a, PreWF (paramsOf p) x := by
  cases a with
  | origin v =>
    intro x hx; simp only [semGiven, List.mem_singleton] at hx; subst hx
    exact prewf_mk _ _ _ _ rfl h
  | asPath segs => exact prewf_semAsPath p segs h
  | med v =>
    intro x hx; simp only [semGiven, List.mem_singleton] at hx; subst hx
    exact prewf_mk _ _ _ _ rfl h
  | localPref v =>
    intro x hx; simp only [semGiven, List.mem_singleton] at hx; subst hx
    exact prewf_mk _ _ _ _ rfl h
  | atomicAggregate =>
    intro x hx; simp only [semGiven, List.mem_singleton] at hx; subst hx
    exact prewf_mk _ _ _ _ rfl trivial
  | aggregator asn ip => exact prewf_semAggregator p asn ip h.1 h.2
  | communities cs =>
    intro x hx; simp only [semGiven] at hx
    split at hx
    · cases hx
    · simp only [List.mem_singleton] at hx; subst hx
      exact prewf_mk _ _ _ _ rfl h
  | originatorId ip =>
    intro x hx; simp only [semGiven, List.mem_singleton] at hx; subst hx
    exact prewf_mk _ _ _ _ rfl h
  | clusterList ids =>
    intro x hx; simp only [semGiven] at hx
    split at hx
    · cases hx
    · simp only [List.mem_singleton] at hx; subst hx
      exact prewf_mk _ _ _ _ rfl h
  | extCommunities cs =>
    intro x hx; simp only [semGiven] at hx
    split at hx
    · cases hx
    · simp only [List.mem_singleton] at hx; subst hx
      exact prewf_mk _ _ _ _ rfl (u32s_flat2 cs h)
  | largeCommunities cs =>
    intro x hx; simp only [semGiven] at hx
    split at hx
    · cases hx
    · simp only [List.mem_singleton] at hx; subst hx
      exact prewf_mk _ _ _ _ rfl (u32s_flat3 cs h)

theorem negLocalAs_u32 (p : SessParams) (hl : U32 p.localAs) : U32 (negLocalAs p) := by
  unfold negLocalAs
  split
  · exact hl
  · split
    · simp [exaAsTrans, U32]
    · exact hl

theorem defaultPath_ok (p : SessParams) (hl : U32 p.localAs) : PathOk (defaultPath p) := by
  unfold defaultPath
  split
  · intro s hs; cases hs
  · intro s hs
    simp only [List.mem_singleton] at hs
    subst hs
    refine ⟨Or.inr rfl, by simp, by simp, ?_⟩
    intro a ha
    simp only [List.mem_singleton] at ha
    subst ha
    exact negLocalAs_u32 p hl

theorem prewf_semCode (p : SessParams) (r : RouteReq) (nh : Bytes) (c : Nat) (hl : U32 p.localAs)
    (hw : ∀ a ∈ r.attrs, WFReqAttr a) (hnh : nh.length = 4 → WFBytes nh) :
    ∀ x ∈ semCode p r nh c, PreWF (paramsOf p) x := by
  unfold semCode
  by_cases h3 : c = 3
  · simp only [h3, if_true]
    by_cases hl : nh.length = 4
    · simp only [hl, if_true, List.mem_singleton]
      intro x hx; subst hx
      exact prewf_mk _ _ _ _ rfl (rd32_lt nh hl (hnh hl))
    · simp only [hl, if_false]; intro x hx; cases hx
  · simp only [h3, if_false]
    cases hg : given r.attrs c with
    | none =>
      simp only
      by_cases h1 : c = 1
      · simp only [h1, if_true, List.mem_singleton]
        intro x hx; subst hx
        exact prewf_mk _ _ _ _ rfl (by simp [WFVal])
      · simp only [h1, if_false]
        by_cases h2 : c = 2
        · simp only [h2, if_true]
          exact prewf_semAsPath p _ (defaultPath_ok p hl)
        · simp only [h2, if_false]
          by_cases h5 : c = 5
          · simp only [h5, if_true]
            by_cases hs : sameAs p = true
            · simp only [hs, if_true, List.mem_singleton]
              intro x hx; subst hx
              exact prewf_mk _ _ _ _ rfl (by simp [WFVal])
            · simp only [hs, if_false]; intro x hx; cases hx
          · simp only [h5, if_false]; intro x hx; cases hx
    | some a =>
      simp only
      split
      · intro x hx; cases hx
      · exact prewf_semGiven p a (wf_given r.attrs hw c a hg)

theorem prewf_semAll (p : SessParams) (r : RouteReq) (nh : Bytes) (hl : U32 p.localAs)
    (hw : ∀ a ∈ r.attrs, WFReqAttr a) (hnh : nh.length = 4 → WFBytes nh) :
    ∀ x ∈ semAll p r nh, PreWF (paramsOf p) x := by
  intro x hx
  simp only [semAll, List.mem_flatMap] at hx
  obtain ⟨c, _, hc⟩ := hx
  exact prewf_semCode p r nh c hl hw hnh x hc

/-! ### type codes of a slot -/

/-- The type codes slot `c` of the packing loop can emit. -/
def slot (c : Nat) : List Nat := if c = 2 then [2, 17] else if c = 7 then [7, 18] else [c]

theorem codes_semAsPath (p : SessParams) (segs : List Seg) :
    List.Sublist ((semAsPath p segs).map Attr.code) [2, 17] := by
  unfold semAsPath
  split
  · simp only [List.map_cons, List.map_nil, mk, Attr.code, AttrVal.code]; simp [slot]
  · split
    · simp only [List.map_cons, List.map_nil, mk, Attr.code, AttrVal.code]; simp [slot]
    · simp only [List.map_cons, List.map_nil, mk, Attr.code, AttrVal.code]; simp [slot]

theorem codes_semAggregator (p : SessParams) (asn ip : Nat) :
    List.Sublist ((semAggregator p asn ip).map Attr.code) [7, 18] := by
  unfold semAggregator
  split
  · simp only [List.map_cons, List.map_nil, mk, Attr.code, AttrVal.code]; simp [slot]
  · split
    · simp only [List.map_cons, List.map_nil, mk, Attr.code, AttrVal.code]; simp [slot]
    · simp only [List.map_cons, List.map_nil, mk, Attr.code, AttrVal.code]; simp [slot]

theorem codes_semGiven (p : SessParams) (a : ReqAttr) : List.Sublist ((semGiven p a).map Attr.code) (slot a.code) := by
  cases a with
  | asPath segs => exact codes_semAsPath p segs
  | aggregator asn ip => exact codes_semAggregator p asn ip
  | communities cs =>
    simp only [semGiven]; split <;> simp only [List.map_cons, List.map_nil, mk, Attr.code, AttrVal.code, ReqAttr.code, slot] <;> simp [slot]
  | clusterList cs =>
    simp only [semGiven]; split <;> simp only [List.map_cons, List.map_nil, mk, Attr.code, AttrVal.code, ReqAttr.code, slot] <;> simp [slot]
  | extCommunities cs =>
    simp only [semGiven]; split <;> simp only [List.map_cons, List.map_nil, mk, Attr.code, AttrVal.code, ReqAttr.code, slot] <;> simp [slot]
  | largeCommunities cs =>
    simp only [semGiven]; split <;> simp only [List.map_cons, List.map_nil, mk, Attr.code, AttrVal.code, ReqAttr.code, slot] <;> simp [slot]
  | _ => simp only [semGiven, List.map_cons, List.map_nil, mk, Attr.code, AttrVal.code, ReqAttr.code, slot]; simp [slot]

theorem codes_semCode (p : SessParams) (r : RouteReq) (nh : Bytes) (c : Nat) :
    List.Sublist ((semCode p r nh c).map Attr.code) (slot c) := by
  unfold semCode
  by_cases h3 : c = 3
  · subst h3
    simp only [if_true]
    split <;> simp only [List.map_cons, List.map_nil, mk, Attr.code, AttrVal.code, slot] <;> simp [slot]
  · simp only [h3, if_false]
    cases hg : given r.attrs c with
    | none =>
      simp only
      by_cases h1 : c = 1
      · subst h1; simp only [if_true, List.map_cons, List.map_nil, mk, Attr.code, AttrVal.code, slot]; decide
      · simp only [h1, if_false]
        by_cases h2 : c = 2
        · subst h2; simp only [if_true]; exact codes_semAsPath p _
        · simp only [h2, if_false]
          by_cases h5 : c = 5
          · subst h5
            simp only [if_true]
            split <;> simp only [List.map_cons, List.map_nil, mk, Attr.code, AttrVal.code, slot] <;> decide
          · simp only [h5, if_false, List.map_nil]; exact List.nil_sublist _
    | some a =>
      simp only
      split
      · simp only [List.map_nil]; exact List.nil_sublist _
      · have := codes_semGiven p a
        rw [given_code r.attrs c a hg] at this
        exact this

/-- All type codes of the block, in the order ExaBGP writes them. -/
def allCodes : List Nat := [1, 2, 17, 3, 4, 5, 6, 7, 18, 8, 9, 10, 16, 32]

theorem codes_semAll (p : SessParams) (r : RouteReq) (nh : Bytes) :
    List.Sublist ((semAll p r nh).map Attr.code) allCodes := by
  unfold semAll codeOrder
  simp only [List.flatMap_cons, List.flatMap_nil, List.map_append, List.map_nil, List.append_nil]
  have h := codes_semCode p r nh
  exact (h 1).append ((h 2).append ((h 3).append ((h 4).append ((h 5).append ((h 6).append ((h 7).append
    ((h 8).append ((h 9).append ((h 10).append ((h 16).append (h 32)))))))))))

theorem mem_code_slot (p : SessParams) (r : RouteReq) (nh : Bytes) (c : Nat) (a : Attr)
    (h : a ∈ semCode p r nh c) : a.code ∈ slot c :=
  (codes_semCode p r nh c).subset (List.mem_map_of_mem h)

/-! ### no duplicate type code -/

theorem hasCode_false (as : List Attr) (c : Nat) (h : c ∉ as.map Attr.code) : hasCode as c = false := by
  induction as with
  | nil => rfl
  | cons a t ih =>
    simp only [List.map_cons, List.mem_cons, not_or] at h
    simp only [hasCode, List.any_cons, Bool.or_eq_false_iff]
    refine ⟨by simpa using fun e => h.1 e.symm, ?_⟩
    have := ih h.2
    simpa [hasCode] using this

theorem dupCode_false (as : List Attr) (h : (as.map Attr.code).Nodup) : dupCode as = false := by
  induction as with
  | nil => rfl
  | cons a t ih =>
    simp only [List.map_cons, List.nodup_cons] at h
    simp only [dupCode, Bool.or_eq_false_iff]
    exact ⟨hasCode_false t a.code h.1, ih h.2⟩

theorem hasCode_true (as : List Attr) (c : Nat) (h : c ∈ as.map Attr.code) : hasCode as c = true := by
  simp only [List.mem_map] at h
  obtain ⟨a, ha, e⟩ := h
  simp only [hasCode, List.any_eq_true]
  exact ⟨a, ha, by simp [e]⟩

end Exa.WireExa
