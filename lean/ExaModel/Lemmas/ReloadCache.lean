import ExaModel.Model.Reload
import ExaModel.Lemmas.RibDown
set_option linter.unusedSimpArgs false
/-! Closed forms of what the reload machinery does to the Adj-RIB-Out cache (M-Rib level):
    the insertion of the configured routes by `attach_ribs()` (commit stage), `replace_reload`, `replace_restart`.  All for adj-rib-out kept. -/
namespace Exa.Reload
open Exa Exa.Rib

/-! ### `lastOf` / `hasNlri` -/

theorem hasNlri_cons (r : Route) (t : List Route) (m : Nat) :
    hasNlri (r :: t) m = (r.nlri == m || hasNlri t m) := by
  simp [hasNlri]

theorem lastOf_none_iff (rs : List Route) (m : Nat) : lastOf rs m = none ↔ hasNlri rs m = false := by
  induction rs with
  | nil => simp [lastOf, hasNlri]
  | cons r t ih =>
    rw [hasNlri_cons]
    simp only [lastOf]
    cases h : lastOf t m with
    | some x =>
      have : hasNlri t m ≠ false := fun e => by rw [← ih] at e; rw [h] at e; cases e
      simp only [Option.orElse]
      cases ht : hasNlri t m
      · exact absurd ht this
      · simp
    | none =>
      have ht : hasNlri t m = false := ih.1 h
      simp only [Option.orElse, ht, Bool.or_false]
      by_cases hr : r.nlri = m <;> simp [hr]

theorem lastOf_some_hasNlri {rs : List Route} {m : Nat} {r : Route} (h : lastOf rs m = some r) :
    hasNlri rs m = true := by
  cases hh : hasNlri rs m with
  | true => rfl
  | false => rw [(lastOf_none_iff rs m).2 hh] at h; cases h

theorem lastOf_nlri {rs : List Route} {m : Nat} {r : Route} (h : lastOf rs m = some r) : r.nlri = m := by
  induction rs with
  | nil => simp [lastOf] at h
  | cons x t ih =>
    simp only [lastOf] at h
    cases ht : lastOf t m with
    | some y => rw [ht] at h; simp only [Option.orElse] at h; cases h; exact ih ht
    | none =>
      rw [ht] at h; simp only [Option.orElse] at h
      by_cases hx : x.nlri = m
      · simp only [hx, if_true] at h; cases h; exact hx
      · simp [hx] at h

theorem lastOf_mem {rs : List Route} {m : Nat} {r : Route} (h : lastOf rs m = some r) : r ∈ rs := by
  induction rs with
  | nil => simp [lastOf] at h
  | cons x t ih =>
    simp only [lastOf] at h
    cases ht : lastOf t m with
    | some y => rw [ht] at h; simp only [Option.orElse] at h; cases h; exact List.mem_cons_of_mem _ (ih ht)
    | none =>
      rw [ht] at h; simp only [Option.orElse] at h
      by_cases hx : x.nlri = m
      · simp only [hx, if_true] at h; cases h; exact List.mem_cons_self
      · simp [hx] at h

/-! ### the primitive operations on the cache view -/

theorem add_cacheOn (rib : Rib) (r : Route) (f : Bool) : (rib.add r f).cacheOn = rib.cacheOn := by
  unfold Rib.add; split <;> simp [Rib.updateRib]

theorem del_cacheOn (rib : Rib) (k f : Nat) : (rib.del k f).cacheOn = rib.cacheOn := by
  simp [Rib.del]

theorem add_families (rib : Rib) (r : Route) (f : Bool) : (rib.add r f).families = rib.families := by
  unfold Rib.add; split <;> simp [Rib.updateRib]

theorem del_families (rib : Rib) (k f : Nat) : (rib.del k f).families = rib.families := by
  simp [Rib.del]

theorem add_cacheView (rib : Rib) (r : Route) (f : Bool) (hc : rib.cacheOn = true) (m : Nat) :
    (rib.add r f).cacheView m = if m = r.nlri then some (r.attr, r.nh) else rib.cacheView m := by
  unfold Rib.add
  split
  · rename_i h
    by_cases hm : m = r.nlri
    · subst hm
      simp only [if_true]
      simp only [Rib.inCache, hc, Bool.true_and, Bool.and_eq_true, Bool.not_eq_true'] at h
      cases hl : AList.lookup r.nlri rib.cache with
      | none => rw [hl] at h; simp at h
      | some c =>
        rw [hl] at h
        simp only [Bool.and_eq_true, beq_iff_eq] at h
        simp [Rib.cacheView, hl, h.2.1, h.2.2]
    · simp [hm]
  · simp only [Rib.updateRib, hc, if_true, Rib.cacheView]
    exact cacheView_insert rib r m

theorem del_cacheView (rib : Rib) (k f : Nat) (hc : rib.cacheOn = true) (m : Nat) :
    (rib.del k f).cacheView m = if m = k then none else rib.cacheView m := by
  simp only [Rib.del, hc, if_true, Rib.cacheView, AList.lookup_erase]
  split <;> simp

theorem delRoutes_cacheOn (rs : List Route) (rib : Rib) : (rib.delRoutes rs).cacheOn = rib.cacheOn := by
  induction rs generalizing rib with
  | nil => rfl
  | cons r t ih => simp only [Rib.delRoutes, List.foldl_cons] at ih ⊢; rw [ih]; exact del_cacheOn rib _ _

theorem delRoutes_families (rs : List Route) (rib : Rib) : (rib.delRoutes rs).families = rib.families := by
  induction rs generalizing rib with
  | nil => rfl
  | cons r t ih => simp only [Rib.delRoutes, List.foldl_cons] at ih ⊢; rw [ih]; exact del_families rib _ _

theorem delRoutes_cacheView (rs : List Route) (rib : Rib) (hc : rib.cacheOn = true) (m : Nat) :
    (rib.delRoutes rs).cacheView m = if hasNlri rs m then none else rib.cacheView m := by
  induction rs generalizing rib with
  | nil => simp [Rib.delRoutes, hasNlri]
  | cons r t ih =>
    have := ih (rib.del r.nlri r.fam) (by rw [del_cacheOn]; exact hc)
    simp only [Rib.delRoutes, List.foldl_cons] at this ⊢
    rw [this, del_cacheView _ _ _ hc, hasNlri_cons]
    by_cases hm : r.nlri = m
    · subst hm; simp
    · have hm' : ¬ m = r.nlri := fun e => hm e.symm
      simp [hm, hm']

/-! ### insertion of the configured routes (`attach_ribs`, at the commit) -/

/-- The configured route is announced by the insertion (it is not parked by a `withdraw` watchdog). -/
def CRoute.live (cr : CRoute) : Bool :=
  match cr.wd with
  | some (_, true) => false
  | _ => true

theorem insertOp_isUp (cr : CRoute) : (insertOp cr).isUp = true := by
  unfold insertOp; cases cr.wd with
  | none => rfl
  | some p => obtain ⟨a, b⟩ := p; rfl

theorem insertOp_isRibOnly (cr : CRoute) : (insertOp cr).isRibOnly = true := by
  unfold insertOp; cases cr.wd with
  | none => rfl
  | some p => obtain ⟨a, b⟩ := p; rfl

theorem insertOps_isUp (n : Nbr) : ∀ op ∈ insertOps n, op.isUp = true := by
  intro op hop
  simp only [insertOps, List.mem_map] at hop
  obtain ⟨cr, _, rfl⟩ := hop
  exact insertOp_isUp cr

theorem insertOps_isRibOnly (n : Nbr) : ∀ op ∈ insertOps n, op.isRibOnly = true := by
  intro op hop
  simp only [insertOps, List.mem_map] at hop
  obtain ⟨cr, _, rfl⟩ := hop
  exact insertOp_isRibOnly cr

/-- RIB-only operations put nothing on the wire and leave the transmission state alone. -/
theorem ribOnly_step (s : Sess) (op : Op) (h : op.isRibOnly = true) :
    (s.step op).2 = [] ∧ (s.step op).1.inflight = s.inflight ∧ (s.step op).1.inclWd = s.inclWd := by
  cases op <;> first | exact ⟨rfl, rfl, rfl⟩ | cases h

theorem ribOnly_run (s : Sess) (ops : List Op) (h : ∀ op ∈ ops, op.isRibOnly = true) :
    (s.run ops).2 = [] ∧ (s.run ops).1.inflight = s.inflight ∧ (s.run ops).1.inclWd = s.inclWd := by
  induction ops generalizing s with
  | nil => exact ⟨rfl, rfl, rfl⟩
  | cons op rest ih =>
    simp only [Sess.run]
    obtain ⟨h1, h2, h3⟩ := ribOnly_step s op (h op List.mem_cons_self)
    obtain ⟨i1, i2, i3⟩ := ih (s.step op).1 (fun o ho => h o (List.mem_cons_of_mem _ ho))
    exact ⟨by simp [h1, i1], i2.trans h2, i3.trans h3⟩

theorem insertOp_cache (s : Sess) (cr : CRoute) (hc : s.rib.cacheOn = true) (hl : cr.live = true) :
    (s.step (insertOp cr)).1.rib.cacheOn = true ∧ (s.step (insertOp cr)).1.rib.families = s.rib.families ∧
    ∀ m, (s.step (insertOp cr)).1.rib.cacheView m
      = if m = cr.r.nlri then some (cr.r.attr, cr.r.nh) else s.rib.cacheView m := by
  unfold insertOp
  cases hw : cr.wd with
  | none =>
    simp only [Sess.step]
    exact ⟨by rw [add_cacheOn]; exact hc, add_families _ _ _, fun m => add_cacheView _ _ _ hc m⟩
  | some p =>
    obtain ⟨name, w⟩ := p
    cases w with
    | true => simp [CRoute.live, hw] at hl
    | false =>
      simp only [Sess.step, Rib.wdogAdd, Bool.false_eq_true, if_false]
      refine ⟨by rw [add_cacheOn]; exact hc, by rw [add_families], fun m => ?_⟩
      rw [add_cacheView _ _ _ (by exact hc)]
      rfl

/-- After inserting a list of configured routes the Adj-RIB-Out holds, for every prefix, the last
    route listed for it, and otherwise what it held. -/
theorem inserts_cache (crs : List CRoute) (s : Sess) (hc : s.rib.cacheOn = true)
    (hl : ∀ cr ∈ crs, cr.live = true) :
    (s.run (crs.map insertOp)).1.rib.cacheOn = true ∧
    (s.run (crs.map insertOp)).1.rib.families = s.rib.families ∧
    ∀ m, (s.run (crs.map insertOp)).1.rib.cacheView m
      = match lastOf (crs.map (·.r)) m with
        | some r => some (r.attr, r.nh)
        | none => s.rib.cacheView m := by
  induction crs generalizing s with
  | nil => exact ⟨hc, rfl, fun m => by simp [Sess.run, lastOf]⟩
  | cons cr t ih =>
    obtain ⟨h1, h2, h3⟩ := insertOp_cache s cr hc (hl cr List.mem_cons_self)
    obtain ⟨i1, i2, i3⟩ := ih (s.step (insertOp cr)).1 h1 (fun c hcm => hl c (List.mem_cons_of_mem _ hcm))
    simp only [List.map_cons, Sess.run]
    refine ⟨i1, i2.trans h2, fun m => ?_⟩
    rw [i3 m, h3 m]
    simp only [lastOf]
    cases ht : lastOf (t.map (·.r)) m with
    | some x => simp [Option.orElse]
    | none =>
      simp only [Option.orElse]
      by_cases hm : m = cr.r.nlri
      · subst hm; simp
      · have : ¬ cr.r.nlri = m := fun e => hm e.symm
        simp [hm, this]

/-! ### `replace_reload` -/

def pidx (prev : List Route) : AList Nat Route :=
  prev.foldl (fun d r => AList.insert r.nlri r d) ([] : AList Nat Route)

def rstep (acc : Rib × AList Nat Route) (r : Route) : Rib × AList Nat Route :=
  match AList.lookup r.nlri acc.2 with
  | some _ => (acc.1, AList.erase r.nlri acc.2)
  | none => (acc.1.add r true, acc.2)

theorem replaceReload_eq (rib : Rib) (prev new : List Route) :
    rib.replaceReload prev new
      = (new.foldl rstep (rib, pidx prev)).1.delRoutes (AList.values (new.foldl rstep (rib, pidx prev)).2) := by
  unfold Rib.replaceReload
  rfl

/-- The last route of prefix `m` that `replace_reload` force-adds (those it finds in the index of
    the previous routes are popped, not added). -/
def lastAdded : List Route → AList Nat Route → Nat → Option Route
  | [], _, _ => none
  | r :: t, idx, m =>
    match AList.lookup r.nlri idx with
    | some _ => lastAdded t (AList.erase r.nlri idx) m
    | none => (lastAdded t idx m).orElse (fun _ => if r.nlri = m then some r else none)

theorem rfold_cache (new : List Route) (rib : Rib) (idx : AList Nat Route) (hc : rib.cacheOn = true) :
    (new.foldl rstep (rib, idx)).1.cacheOn = true ∧
    (new.foldl rstep (rib, idx)).1.families = rib.families ∧
    ∀ m, (new.foldl rstep (rib, idx)).1.cacheView m
      = match lastAdded new idx m with
        | some r => some (r.attr, r.nh)
        | none => rib.cacheView m := by
  induction new generalizing rib idx with
  | nil => exact ⟨hc, rfl, fun m => by simp [lastAdded]⟩
  | cons r t ih =>
    simp only [List.foldl_cons]
    cases hl : AList.lookup r.nlri idx with
    | some x =>
      have hs : rstep (rib, idx) r = (rib, AList.erase r.nlri idx) := by simp [rstep, hl]
      rw [hs]
      obtain ⟨i1, i2, i3⟩ := ih rib (AList.erase r.nlri idx) hc
      refine ⟨i1, i2, fun m => ?_⟩
      rw [i3 m]; simp [lastAdded, hl]
    | none =>
      have hs : rstep (rib, idx) r = (rib.add r true, idx) := by simp [rstep, hl]
      rw [hs]
      obtain ⟨i1, i2, i3⟩ := ih (rib.add r true) idx (by rw [add_cacheOn]; exact hc)
      refine ⟨i1, i2.trans (add_families _ _ _), fun m => ?_⟩
      rw [i3 m, add_cacheView _ _ _ hc]
      simp only [lastAdded, hl]
      cases ht : lastAdded t idx m with
      | some x => simp [Option.orElse]
      | none =>
        simp only [Option.orElse]
        by_cases hm : m = r.nlri
        · subst hm; simp
        · have : ¬ r.nlri = m := fun e => hm e.symm
          simp [hm, this]

theorem rfold_idx (new : List Route) (rib : Rib) (idx : AList Nat Route) (m : Nat) :
    AList.lookup m (new.foldl rstep (rib, idx)).2 = if hasNlri new m then none else AList.lookup m idx := by
  induction new generalizing rib idx with
  | nil => simp [hasNlri]
  | cons r t ih =>
    simp only [List.foldl_cons, hasNlri_cons]
    cases hl : AList.lookup r.nlri idx with
    | some x =>
      have hs : rstep (rib, idx) r = (rib, AList.erase r.nlri idx) := by simp [rstep, hl]
      rw [hs, ih, AList.lookup_erase]
      by_cases hm : r.nlri = m
      · subst hm; simp
      · have : ¬ m = r.nlri := fun e => hm e.symm
        simp [hm, this]
    | none =>
      have hs : rstep (rib, idx) r = (rib.add r true, idx) := by simp [rstep, hl]
      rw [hs, ih]
      by_cases hm : r.nlri = m
      · subst hm; simp [hl]
      · simp [hm]

theorem rfold_wf (new : List Route) (rib : Rib) (idx : AList Nat Route) (h : WFMap idx) :
    WFMap (new.foldl rstep (rib, idx)).2 := by
  induction new generalizing rib idx with
  | nil => exact h
  | cons r t ih =>
    simp only [List.foldl_cons]
    cases hl : AList.lookup r.nlri idx with
    | some x =>
      have hs : rstep (rib, idx) r = (rib, AList.erase r.nlri idx) := by simp [rstep, hl]
      rw [hs]; exact ih _ _ (wfmap_erase h _)
    | none =>
      have hs : rstep (rib, idx) r = (rib.add r true, idx) := by simp [rstep, hl]
      rw [hs]; exact ih _ _ h

theorem lastAdded_none (new : List Route) (idx : AList Nat Route) (m : Nat)
    (h : lastAdded new idx m = none) (hi : AList.lookup m idx = none) : lastOf new m = none := by
  induction new generalizing idx with
  | nil => rfl
  | cons r t ih =>
    simp only [lastAdded] at h
    simp only [lastOf]
    cases hl : AList.lookup r.nlri idx with
    | some x =>
      rw [hl] at h
      have hne : r.nlri ≠ m := fun e => by rw [e, hi] at hl; cases hl
      have hi' : AList.lookup m (AList.erase r.nlri idx) = none := by
        rw [AList.lookup_erase]; split <;> simp [hi]
      rw [ih _ h hi']
      simp [Option.orElse, hne]
    | none =>
      rw [hl] at h
      cases ht : lastAdded t idx m with
      | some y => rw [ht] at h; simp [Option.orElse] at h
      | none =>
        rw [ht] at h
        simp only [Option.orElse] at h
        have hne : ¬ r.nlri = m := fun e => by simp [e] at h
        rw [ih _ ht hi]
        simp [Option.orElse, hne]

theorem lastAdded_some (new : List Route) (idx : AList Nat Route) (m : Nat) (r : Route)
    (h : lastAdded new idx m = some r) : lastOf new m = some r := by
  induction new generalizing idx with
  | nil => simp [lastAdded] at h
  | cons x t ih =>
    simp only [lastAdded] at h
    simp only [lastOf]
    cases hl : AList.lookup x.nlri idx with
    | some y =>
      rw [hl] at h
      rw [ih _ h]; simp [Option.orElse]
    | none =>
      rw [hl] at h
      cases ht : lastAdded t idx m with
      | some y =>
        rw [ht] at h; simp only [Option.orElse] at h; cases h
        rw [ih _ ht]; simp [Option.orElse]
      | none =>
        rw [ht] at h
        simp only [Option.orElse] at h
        by_cases hx : x.nlri = m
        · simp only [hx, if_true] at h; cases h
          have hi : AList.lookup m idx = none := by rw [← hx]; exact hl
          rw [lastAdded_none t idx m ht hi]
          simp [Option.orElse, hx]
        · simp [hx] at h

theorem pidx_aux (prev : List Route) (d : AList Nat Route) (hd : WFMap d) (m : Nat) :
    WFMap (prev.foldl (fun d r => AList.insert r.nlri r d) d) ∧
    (AList.lookup m (prev.foldl (fun d r => AList.insert r.nlri r d) d)).isSome
      = (hasNlri prev m || (AList.lookup m d).isSome) := by
  induction prev generalizing d with
  | nil => simp [hasNlri, hd]
  | cons r t ih =>
    simp only [List.foldl_cons]
    obtain ⟨h1, h2⟩ := ih (AList.insert r.nlri r d) (wfmap_insert hd r)
    refine ⟨h1, ?_⟩
    rw [h2, hasNlri_cons, AList.lookup_insert]
    by_cases hm : r.nlri = m
    · subst hm; simp
    · have : ¬ m = r.nlri := fun e => hm e.symm
      have hb : (r.nlri == m) = false := by simp [hm]
      simp [hm, this, hb, Bool.or_comm]

theorem pidx_wf (prev : List Route) : WFMap (pidx prev) := (pidx_aux prev [] wfmap_nil 0).1

theorem pidx_isSome (prev : List Route) (m : Nat) : (AList.lookup m (pidx prev)).isSome = hasNlri prev m := by
  have := (pidx_aux prev [] wfmap_nil m).2
  simpa [pidx] using this

theorem hasNlri_values {l : AList Nat Route} (h : WFMap l) (m : Nat) :
    hasNlri (AList.values l) m = (AList.lookup m l).isSome := by
  cases hl : AList.lookup m l with
  | some r =>
    have hm := AList.mem_of_lookup hl
    have hk : r.nlri = m := h.2 (m, r) hm
    simp only [Option.isSome_some, hasNlri, List.any_eq_true, beq_iff_eq]
    exact ⟨r, List.mem_map.2 ⟨(m, r), hm, rfl⟩, hk⟩
  | none =>
    simp only [Option.isSome_none]
    cases hh : hasNlri (AList.values l) m with
    | false => rfl
    | true =>
      simp only [hasNlri, List.any_eq_true, beq_iff_eq] at hh
      obtain ⟨r, hr, hk⟩ := hh
      obtain ⟨p, hp, rfl⟩ := List.mem_map.1 hr
      obtain ⟨k, v⟩ := p
      have hkv : v.nlri = k := h.2 (k, v) hp
      simp only at hk
      have : AList.lookup k l = some v := AList.lookup_of_mem h.1 hp
      rw [← hkv, hk] at this
      rw [this] at hl; cases hl

/-- **`replace_reload` on a RIB that already holds the new configuration** (that is what the
    insertion by `attach_ribs()` left): every prefix of the new configuration stays at the last route
    listed for it, a prefix of the previous configuration that is not listed any more is removed,
    everything else is untouched. -/
theorem replaceReload_cache (rib : Rib) (prev new : List Route) (hc : rib.cacheOn = true)
    (hpre : ∀ m r, lastOf new m = some r → rib.cacheView m = some (r.attr, r.nh)) :
    (rib.replaceReload prev new).cacheOn = true ∧
    (rib.replaceReload prev new).families = rib.families ∧
    ∀ m, (rib.replaceReload prev new).cacheView m = deltaView rib.cacheView prev new m := by
  rw [replaceReload_eq]
  obtain ⟨f1, f2, f3⟩ := rfold_cache new rib (pidx prev) hc
  refine ⟨by rw [delRoutes_cacheOn]; exact f1, by rw [delRoutes_families]; exact f2, fun m => ?_⟩
  rw [delRoutes_cacheView _ _ f1, hasNlri_values (rfold_wf new rib _ (pidx_wf prev)), rfold_idx, f3 m]
  unfold deltaView
  cases hlo : lastOf new m with
  | some r =>
    have hn := lastOf_some_hasNlri hlo
    simp only [hn, if_true, Option.isSome_none, Bool.false_eq_true, if_false]
    cases hla : lastAdded new (pidx prev) m with
    | some r' =>
      have := lastAdded_some new _ m r' hla
      rw [hlo] at this; cases this; rfl
    | none => exact hpre m r hlo
  | none =>
    have hn := (lastOf_none_iff new m).1 hlo
    simp only [hn, Bool.false_eq_true, if_false, pidx_isSome]
    cases hla : lastAdded new (pidx prev) m with
    | some r' =>
      have := lastAdded_some new _ m r' hla
      rw [hlo] at this; cases this
    | none => rfl

/-! ### `replace_restart` -/

theorem addRoutes_families (rs : List Route) (rib : Rib) (f : Bool) :
    (rs.foldl (fun s r => s.add r f) rib).families = rib.families := by
  induction rs generalizing rib with
  | nil => rfl
  | cons r t ih => simp only [List.foldl_cons]; rw [ih]; exact add_families _ _ _

theorem staleOf_lookup (prev new : List Route) (m : Nat) :
    AList.lookup m (staleOf prev new) = if hasNlri new m then none else AList.lookup m (pidx prev) := by
  unfold staleOf
  show AList.lookup m (new.foldl (fun d r => AList.erase r.nlri d) (pidx prev)) = _
  generalize pidx prev = d
  induction new generalizing d with
  | nil => simp [hasNlri]
  | cons r t ih =>
    simp only [List.foldl_cons]
    rw [ih, hasNlri_cons, AList.lookup_erase]
    by_cases hm : r.nlri = m
    · subst hm; simp
    · have : ¬ m = r.nlri := fun e => hm e.symm
      simp [hm, this]

theorem staleOf_wf (prev new : List Route) : WFMap (staleOf prev new) := by
  unfold staleOf
  show WFMap (new.foldl (fun d r => AList.erase r.nlri d) (pidx prev))
  have := pidx_wf prev
  generalize pidx prev = d at this
  induction new generalizing d with
  | nil => exact this
  | cons r t ih => simp only [List.foldl_cons]; exact ih _ (wfmap_erase this _)

/-- **`replace_restart`**: the cache is re-queued as it is, minus the prefixes the previous
    configuration listed and the current one does not. -/
theorem replaceRestart_cache (rib : Rib) (prev new : List Route) (hc : rib.cacheOn = true)
    (hw : WFMap rib.cache) :
    (rib.replaceRestart prev new).cacheOn = true ∧
    (rib.replaceRestart prev new).families = rib.families ∧
    ∀ m, (rib.replaceRestart prev new).cacheView m
      = if hasNlri prev m && !hasNlri new m then none else rib.cacheView m := by
  unfold Rib.replaceRestart
  have hrs : ∀ r ∈ rib.cachedRoutes rib.families, AList.lookup r.nlri rib.cache = some r :=
    fun r hr => mem_values_lookup hw (mem_cachedRoutes hr)
  obtain ⟨h1, _, _, h4, _⟩ := readd_cached (rib.cachedRoutes rib.families) rib hc hrs
  have hfam : (List.foldl (fun s r => s.add r true) rib (rib.cachedRoutes rib.families)).families = rib.families :=
    addRoutes_families _ _ _
  refine ⟨by rw [delRoutes_cacheOn]; exact h4, by rw [delRoutes_families]; exact hfam, fun m => ?_⟩
  rw [delRoutes_cacheView _ _ h4, hasNlri_values (staleOf_wf prev new), staleOf_lookup]
  have hcv : (List.foldl (fun s r => s.add r true) rib (rib.cachedRoutes rib.families)).cacheView m = rib.cacheView m := by
    simp only [Rib.cacheView, h1]
  rw [hcv]
  cases hn : hasNlri new m with
  | true => simp
  | false => simp [pidx_isSome]

/-! ### every cached route stays in a family the RIB serves -/

theorem famOK_add (rib : Rib) (r : Route) (f : Bool) (h : FamOK rib) (hr : rib.families.contains r.fam = true) :
    FamOK (rib.add r f) := by
  unfold Rib.add
  split
  · exact h
  · intro x hx
    simp only [Rib.updateRib] at hx ⊢
    split at hx
    · obtain ⟨p, hp, rfl⟩ := List.mem_map.1 hx
      rcases AList.mem_insert hp with e | e
      · subst e; exact hr
      · exact h _ (List.mem_map.2 ⟨p, e, rfl⟩)
    · exact h x hx

theorem famOK_del (rib : Rib) (k f : Nat) (h : FamOK rib) : FamOK (rib.del k f) := by
  intro x hx
  simp only [Rib.del] at hx ⊢
  split at hx
  · obtain ⟨p, hp, rfl⟩ := List.mem_map.1 hx
    exact h _ (List.mem_map.2 ⟨p, AList.mem_erase hp, rfl⟩)
  · exact h x hx

theorem famOK_delRoutes (rs : List Route) (rib : Rib) (h : FamOK rib) : FamOK (rib.delRoutes rs) := by
  induction rs generalizing rib with
  | nil => exact h
  | cons r t ih => simp only [Rib.delRoutes, List.foldl_cons] at ih ⊢; exact ih _ (famOK_del rib _ _ h)

theorem famOK_rfold (new : List Route) (rib : Rib) (idx : AList Nat Route) (h : FamOK rib)
    (hn : ∀ r ∈ new, rib.families.contains r.fam = true) : FamOK (new.foldl rstep (rib, idx)).1 := by
  induction new generalizing rib idx with
  | nil => exact h
  | cons r t ih =>
    simp only [List.foldl_cons]
    cases hl : AList.lookup r.nlri idx with
    | some x =>
      have hs : rstep (rib, idx) r = (rib, AList.erase r.nlri idx) := by simp [rstep, hl]
      rw [hs]; exact ih _ _ h (fun x hx => hn x (List.mem_cons_of_mem _ hx))
    | none =>
      have hs : rstep (rib, idx) r = (rib.add r true, idx) := by simp [rstep, hl]
      rw [hs]
      apply ih _ _ (famOK_add rib r true h (hn r List.mem_cons_self))
      intro x hx; rw [add_families]; exact hn x (List.mem_cons_of_mem _ hx)

theorem famOK_replaceReload (rib : Rib) (prev new : List Route) (h : FamOK rib)
    (hn : ∀ r ∈ new, rib.families.contains r.fam = true) : FamOK (rib.replaceReload prev new) := by
  rw [replaceReload_eq]
  exact famOK_delRoutes _ _ (famOK_rfold new rib _ h hn)

theorem famOK_insertOp (s : Sess) (cr : CRoute) (h : FamOK s.rib) (hr : s.rib.families.contains cr.r.fam = true) :
    FamOK (s.step (insertOp cr)).1.rib ∧ (s.step (insertOp cr)).1.rib.families = s.rib.families := by
  unfold insertOp
  cases hw : cr.wd with
  | none => simp only [Sess.step]; exact ⟨famOK_add _ _ _ h hr, add_families _ _ _⟩
  | some p =>
    obtain ⟨name, w⟩ := p
    cases w with
    | true => simp only [Sess.step, Rib.wdogAdd, if_true]; exact ⟨h, trivial⟩
    | false =>
      simp only [Sess.step, Rib.wdogAdd, Bool.false_eq_true, if_false]
      exact ⟨famOK_add _ _ _ (by exact h) (by exact hr), by rw [add_families]⟩

theorem famOK_inserts (crs : List CRoute) (s : Sess) (h : FamOK s.rib)
    (hr : ∀ cr ∈ crs, s.rib.families.contains cr.r.fam = true) :
    FamOK (s.run (crs.map insertOp)).1.rib := by
  induction crs generalizing s with
  | nil => exact h
  | cons cr t ih =>
    simp only [List.map_cons, Sess.run]
    obtain ⟨h1, h2⟩ := famOK_insertOp s cr h (hr cr List.mem_cons_self)
    apply ih _ h1
    intro c hcm; rw [h2]; exact hr c (List.mem_cons_of_mem _ hcm)

end Exa.Reload
