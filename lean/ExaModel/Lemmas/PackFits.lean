import ExaModel.Lemmas.PackBasic
set_option linter.unusedSimpArgs false
set_option linter.unusedVariables false
/-! Size lemmas of M-Pack: every loop of `messages` keeps what it holds within `ms`, whatever the
    NLRIs are (one that cannot fit alone is left out). `ms` is `msg_size`, `attr` the attribute
    block; a message is within the negotiated maximum when its length is at most `23 + attr + ms`. -/
namespace Exa.Pack

theorem mem_firsts (k : Nat × Nat) : ∀ l, k ∈ firsts l ↔ k ∈ l := by
  intro l
  induction l with
  | nil => simp [firsts]
  | cons h t ih =>
    simp only [firsts, List.mem_cons, List.mem_filter, ih]
    by_cases hk : k = h
    · simp [hk]
    · simp [hk]

theorem groupsOf_mem {xs : List Nlri} {g : (Nat × Nat) × List Nlri} (hg : g ∈ groupsOf xs) :
    ∀ x ∈ g.2, x ∈ xs ∧ nhKey x = g.1 := by
  unfold groupsOf at hg
  simp only [List.mem_map] at hg
  obtain ⟨k, _, rfl⟩ := hg
  intro x hx
  simp only [List.mem_filter, decide_eq_true_eq] at hx
  exact hx

theorem groupsOf_cover {xs : List Nlri} {x : Nlri} (hx : x ∈ xs) :
    ∃ g ∈ groupsOf xs, x ∈ g.2 ∧ g.1 = nhKey x := by
  refine ⟨(nhKey x, xs.filter (fun y => nhKey y = nhKey x)), ?_, ?_, rfl⟩
  · unfold groupsOf
    simp only [List.mem_map]
    refine ⟨nhKey x, ?_, rfl⟩
    rw [mem_firsts]
    exact List.mem_map.2 ⟨x, hx, rfl⟩
  · simp [List.mem_filter, hx]

/-! ### the v4 loops -/

theorem v4AnnLoop_fits (ms attr : Nat) :
    ∀ (xs w a : List Nlri), sz w + sz a ≤ ms →
      (∀ m ∈ (v4AnnLoop ms attr xs w a).msgs, m.len ≤ 23 + attr + ms) ∧
      sz (v4AnnLoop ms attr xs w a).w + sz (v4AnnLoop ms attr xs w a).a ≤ ms := by
  intro xs
  induction xs with
  | nil => intro w a h; simp [v4AnnLoop, h]
  | cons x xs ih =>
    intro w a h
    unfold v4AnnLoop
    split
    · exact ih w a h
    · split
      · exact ih w (a ++ [x]) (by simp; omega)
      · have := ih [] [x] (by simp; omega)
        refine ⟨?_, this.2⟩
        intro m hm
        simp only [List.mem_cons] at hm
        rcases hm with rfl | hm
        · have := mkMsg_len_le attr w none true none a
          simp at this; omega
        · exact this.1 m hm

theorem v4WdLoop_fits (ms attr : Nat) :
    ∀ (xs w a : List Nlri), sz w + sz a ≤ ms →
      (∀ m ∈ (v4WdLoop ms attr xs w a).msgs, m.len ≤ 23 + attr + ms) ∧
      sz (v4WdLoop ms attr xs w a).w + sz (v4WdLoop ms attr xs w a).a ≤ ms := by
  intro xs
  induction xs with
  | nil => intro w a h; simp [v4WdLoop, h]
  | cons x xs ih =>
    intro w a h
    unfold v4WdLoop
    split
    · exact ih w a h
    · split
      · exact ih (w ++ [x]) a (by simp; omega)
      · have := ih [x] [] (by simp; omega)
        refine ⟨?_, this.2⟩
        intro m hm
        simp only [List.mem_cons] at hm
        rcases hm with rfl | hm
        · have := mkMsg_len_le attr w none (decide (sz a ≠ 0)) none a
          simp at this; simp; omega
        · exact this.1 m hm

/-! ### the generators: every attribute yielded is within `maxi` -/

theorem reachGen_bound (maxi fam : Nat) :
    ∀ gs : List ((Nat × Nat) × List Nlri), ∀ r ∈ reachGen maxi fam gs, r.wire ≤ maxi := by
  intro gs
  induction gs with
  | nil => intro r hr; simp [reachGen] at hr
  | cons g gs ih =>
    intro r hr
    obtain ⟨k, xs⟩ := g
    unfold reachGen at hr
    simp only [List.mem_append, List.mem_map] at hr
    rcases hr with ⟨it, hit, rfl⟩ | hr
    · rw [wire_eq]; exact splitGroup_bound maxi (5 + k.2) xs [] (Or.inl rfl) it hit
    · exact ih r hr

theorem unreachGen_bound (maxi fam : Nat) (xs : List Nlri) :
    ∀ r ∈ unreachGen maxi fam xs, r.wire ≤ maxi := by
  intro r hr
  unfold unreachGen at hr
  simp only [List.mem_map] at hr
  obtain ⟨it, hit, rfl⟩ := hr
  rw [wire_eq]
  exact splitGroup_bound maxi 3 xs [] (Or.inl rfl) it hit

/-! ### the consumers -/

theorem feedReach_fits (ms attr : Nat) :
    ∀ (rs : List Mp) (p : Option Mp), (∀ r ∈ rs, r.wire ≤ ms) → owire p ≤ ms →
      (∀ m ∈ (feedReach attr rs p).1, m.len ≤ 23 + attr + ms) ∧ owire (feedReach attr rs p).2 ≤ ms := by
  intro rs
  induction rs with
  | nil => intro p _ h; simp [feedReach, h]
  | cons r rs ih =>
    intro p hr h
    have hrs : ∀ r' ∈ rs, r'.wire ≤ ms := fun r' h' => hr r' (by simp [h'])
    have hr0 := hr r (by simp)
    cases p with
    | none =>
      unfold feedReach
      exact ih (some r) hrs (by simpa using hr0)
    | some p =>
      unfold feedReach
      have := ih (some r) hrs (by simpa using hr0)
      refine ⟨?_, this.2⟩
      intro m hm
      simp only [List.mem_cons] at hm
      rcases hm with rfl | hm
      · have := mkMsg_len_le attr [] none true (some p) []
        simp at this h; omega
      · exact this.1 m hm

theorem feedUnreach_fits (ms attr : Nat) :
    ∀ (us : List Mp) (p u : Option Mp), (∀ r ∈ us, r.wire ≤ ms) → owire p + owire u ≤ ms →
      (∀ m ∈ (feedUnreach ms attr us p u).1, m.len ≤ 23 + attr + ms) ∧
      owire (feedUnreach ms attr us p u).2.reach + owire (feedUnreach ms attr us p u).2.unreach ≤ ms := by
  intro us
  induction us with
  | nil => intro p u _ h; simp [feedUnreach, h]
  | cons x us ih =>
    intro p u hr h
    have hrs : ∀ r' ∈ us, r'.wire ≤ ms := fun r' h' => hr r' (by simp [h'])
    have hr0 := hr x (by simp)
    unfold feedUnreach
    split
    · have := ih none (some x) hrs (by simpa using hr0)
      refine ⟨?_, this.2⟩
      intro m hm
      simp only [List.mem_cons] at hm
      rcases hm with rfl | hm
      · have := mkMsg_len_le attr [] u true p []
        simp at this; omega
      · exact this.1 m hm
    · rename_i hc
      have hu : u = none := by
        cases u with
        | none => rfl
        | some v => exact absurd (Or.inl rfl) hc
      subst hu
      have : ¬ owire p + x.wire > ms := fun h' => hc (Or.inr h')
      exact ih p (some x) hrs (by simp; omega)

theorem famFinal_fits (ms attr : Nat) (s : MpSt) (h : owire s.reach + owire s.unreach ≤ ms) :
    ∀ m ∈ famFinal attr s, m.len ≤ 23 + attr + ms := by
  intro m hm
  unfold famFinal at hm
  split at hm
  · simp at hm; subst hm
    have := mkMsg_len_le attr [] s.unreach true s.reach []
    simp at this; omega
  · simp at hm

/-- One family: every message within the maximum, whatever the NLRIs. -/
theorem famStep_fits (inclW : Bool) (ms attr fam : Nat) (ra wa : List Nlri) :
    ∀ m ∈ famStep inclW ms attr fam ra wa, m.len ≤ 23 + attr + ms := by
  have f1 := feedReach_fits ms attr (reachGen ms fam (groupsOf ra)) none
    (reachGen_bound ms fam (groupsOf ra)) (by simp)
  intro m hm
  unfold famStep at hm
  simp only at hm
  split at hm
  · have f2 := feedUnreach_fits ms attr (unreachGen ms fam wa) (feedReach attr (reachGen ms fam (groupsOf ra)) none).2 none
      (unreachGen_bound ms fam wa) (by simpa using f1.2)
    simp only [List.mem_append] at hm
    rcases hm with (hm | hm) | hm
    · exact f1.1 m hm
    · exact f2.1 m hm
    · exact famFinal_fits ms attr _ f2.2 m hm
  · simp only [List.mem_append] at hm
    rcases hm with hm | hm
    · exact f1.1 m hm
    · exact famFinal_fits ms attr _ (by simpa using f1.2) m hm

theorem famLoop_fits (inclW : Bool) (ms attr : Nat) (ma mw : List Nlri) :
    ∀ (fs : List Nat), ∀ m ∈ famLoop inclW ms attr ma mw fs, m.len ≤ 23 + attr + ms := by
  intro fs
  induction fs with
  | nil => intro m hm; simp [famLoop] at hm
  | cons f fs ih =>
    intro m hm
    unfold famLoop at hm
    simp only [List.mem_append] at hm
    rcases hm with hm | hm
    · exact famStep_fits inclW ms attr f _ _ m hm
    · exact ih m hm

theorem cut_sub : ∀ (l : List Msg), ∀ m ∈ (cut l).1, m ∈ l := by
  intro l
  induction l with
  | nil => intro m hm; simp [cut] at hm
  | cons x xs ih =>
    intro m hm
    unfold cut at hm
    split at hm
    · simp at hm
    · simp only [List.mem_cons] at hm
      rcases hm with rfl | hm
      · simp
      · exact List.mem_cons_of_mem _ (ih m hm)

end Exa.Pack
