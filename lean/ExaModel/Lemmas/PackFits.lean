import ExaModel.Lemmas.PackBasic
set_option linter.unusedSimpArgs false
set_option linter.unusedVariables false
/-! Size lemmas of M-Pack: every loop of `messages` keeps what it holds within `ms` when every
    NLRI fits alone. `ms` is `msg_size`, `attr` the attribute block; a message is within the
    negotiated maximum when its length is at most `23 + attr + ms`. -/
namespace Exa.Pack

theorem mem_firsts (k : Nat × Nat) : ∀ l, k ∈ firsts l ↔ k ∈ l := by
  intro l
  induction l with
  | nil => simp [firsts]
  | cons h t ih =>
    simp only [firsts, List.mem_cons, List.mem_filter, ih]
    by_cases hk : k = h
    · simp [hk]
    · simp [hk]

theorem groupsOf_mem {xs : List Nlri} {g : (Nat × Nat) × List Nlri} (hg : g ∈ groupsOf xs) :
    ∀ x ∈ g.2, x ∈ xs ∧ nhKey x = g.1 := by
  unfold groupsOf at hg
  simp only [List.mem_map] at hg
  obtain ⟨k, _, rfl⟩ := hg
  intro x hx
  simp only [List.mem_filter, decide_eq_true_eq] at hx
  exact hx

theorem groupsOf_cover {xs : List Nlri} {x : Nlri} (hx : x ∈ xs) :
    ∃ g ∈ groupsOf xs, x ∈ g.2 ∧ g.1 = nhKey x := by
  refine ⟨(nhKey x, xs.filter (fun y => nhKey y = nhKey x)), ?_, ?_, rfl⟩
  · unfold groupsOf
    simp only [List.mem_map]
    refine ⟨nhKey x, ?_, rfl⟩
    rw [mem_firsts]
    exact List.mem_map.2 ⟨x, hx, rfl⟩
  · simp [List.mem_filter, hx]

/-! ### the v4 loops -/

theorem v4AnnLoop_fits (ms attr : Nat) :
    ∀ (xs w a : List Nlri), (∀ x ∈ xs, x.size ≤ ms) → sz w + sz a ≤ ms →
      (∀ m ∈ (v4AnnLoop ms attr xs w a).msgs, m.len ≤ 23 + attr + ms) ∧
      sz (v4AnnLoop ms attr xs w a).w + sz (v4AnnLoop ms attr xs w a).a ≤ ms := by
  intro xs
  induction xs with
  | nil => intro w a _ h; simp [v4AnnLoop, h]
  | cons x xs ih =>
    intro w a hx h
    have hx0 := hx x (by simp)
    have hxs : ∀ y ∈ xs, y.size ≤ ms := fun y hy => hx y (by simp [hy])
    unfold v4AnnLoop
    split
    · rename_i hfit
      exact ih w (a ++ [x]) hxs (by simp; omega)
    · split
      · simp [h]
      · have := ih [] [x] hxs (by simp; omega)
        refine ⟨?_, this.2⟩
        intro m hm
        simp only [List.mem_cons] at hm
        rcases hm with rfl | hm
        · have := mkMsg_len_le attr w none true none a
          simp at this; omega
        · exact this.1 m hm

theorem v4WdLoop_fits (ms attr : Nat) :
    ∀ (xs w a : List Nlri), (∀ x ∈ xs, x.size ≤ ms) → sz w + sz a ≤ ms →
      (∀ m ∈ (v4WdLoop ms attr xs w a).msgs, m.len ≤ 23 + attr + ms) ∧
      sz (v4WdLoop ms attr xs w a).w + sz (v4WdLoop ms attr xs w a).a ≤ ms := by
  intro xs
  induction xs with
  | nil => intro w a _ h; simp [v4WdLoop, h]
  | cons x xs ih =>
    intro w a hx h
    have hx0 := hx x (by simp)
    have hxs : ∀ y ∈ xs, y.size ≤ ms := fun y hy => hx y (by simp [hy])
    unfold v4WdLoop
    split
    · rename_i hfit
      exact ih (w ++ [x]) a hxs (by simp; omega)
    · split
      · simp [h]
      · have := ih [x] [] hxs (by simp; omega)
        refine ⟨?_, this.2⟩
        intro m hm
        simp only [List.mem_cons] at hm
        rcases hm with rfl | hm
        · have := mkMsg_len_le attr w none (decide (sz a ≠ 0)) none a
          simp at this; simp; omega
        · exact this.1 m hm

/-! ### the generators -/

theorem reachGen_bound (maxi fam B : Nat) (hB : maxi ≤ B) :
    ∀ gs : List ((Nat × Nat) × List Nlri),
      (∀ g ∈ gs, ∀ x ∈ g.2, attrLen (5 + g.1.2 + x.size) ≤ B) →
      ∀ r ∈ (reachGen maxi fam gs).1, r.wire ≤ B := by
  intro gs
  induction gs with
  | nil => intro _ r hr; simp [reachGen] at hr
  | cons g gs ih =>
    intro hg r hr
    obtain ⟨k, xs⟩ := g
    have h1 := splitGroup_bound maxi (5 + k.2) B hB xs [] (hg (k, xs) (by simp)) (Or.inl rfl)
    have hgs : ∀ g ∈ gs, ∀ x ∈ g.2, attrLen (5 + g.1.2 + x.size) ≤ B := fun g' hg' => hg g' (by simp [hg'])
    unfold reachGen at hr
    simp only at hr
    split at hr
    · simp only [List.mem_map] at hr
      obtain ⟨it, hit, rfl⟩ := hr
      rw [wire_eq]; exact h1 it hit
    · simp only [List.mem_append, List.mem_map] at hr
      rcases hr with ⟨it, hit, rfl⟩ | hr
      · rw [wire_eq]; exact h1 it hit
      · exact ih hgs r hr

theorem reachGen_head (maxi fam : Nat) :
    ∀ gs : List ((Nat × Nat) × List Nlri),
      ∀ r, (reachGen maxi fam gs).1.head? = some r → r.wire ≤ maxi := by
  intro gs
  induction gs with
  | nil => intro r hr; simp [reachGen] at hr
  | cons g gs ih =>
    intro r hr
    obtain ⟨k, xs⟩ := g
    have h1 := splitGroup_head maxi (5 + k.2) xs [] (Or.inl rfl)
    unfold reachGen at hr
    simp only at hr
    split at hr
    · rw [List.head?_map] at hr
      cases hh : (splitGroup maxi (5 + k.2) xs []).1.head? with
      | none => simp [hh] at hr
      | some it =>
        simp [hh] at hr; subst hr
        rw [wire_eq]; exact h1 it hh
    · rw [List.head?_append, List.head?_map] at hr
      cases hh : (splitGroup maxi (5 + k.2) xs []).1.head? with
      | none => simp [hh] at hr; exact ih r hr
      | some it =>
        simp [hh] at hr; subst hr
        rw [wire_eq]; exact h1 it hh

theorem unreachGen_bound (maxi fam B : Nat) (hB : maxi ≤ B) (xs : List Nlri)
    (hx : ∀ x ∈ xs, attrLen (3 + x.size) ≤ B) :
    ∀ r ∈ (unreachGen maxi fam xs).1, r.wire ≤ B := by
  intro r hr
  unfold unreachGen at hr
  simp only [List.mem_map] at hr
  obtain ⟨it, hit, rfl⟩ := hr
  rw [wire_eq]
  exact splitGroup_bound maxi 3 B hB xs [] hx (Or.inl rfl) it hit

theorem unreachGen_head (maxi fam : Nat) (xs : List Nlri) :
    ∀ r, (unreachGen maxi fam xs).1.head? = some r → r.wire ≤ maxi := by
  intro r hr
  unfold unreachGen at hr
  simp only [List.head?_map] at hr
  cases hh : (splitGroup maxi 3 xs []).1.head? with
  | none => simp [hh] at hr
  | some it =>
    simp [hh] at hr; subst hr
    rw [wire_eq]; exact splitGroup_head maxi 3 xs [] (Or.inl rfl) it hh

/-! ### the consumers -/

theorem feedReach_fits (ms attr : Nat) :
    ∀ (rs : List Mp) (w a : List Nlri) (p : Option Mp),
      (∀ r ∈ rs, r.wire ≤ ms) →
      (p = none → ∀ r0, rs.head? = some r0 → sz w + sz a + r0.wire ≤ ms) →
      sz w + sz a + owire p ≤ ms →
      (∀ m ∈ (feedReach attr rs w a p).1, m.len ≤ 23 + attr + ms) ∧
      sz (feedReach attr rs w a p).2.w + sz (feedReach attr rs w a p).2.a
        + owire (feedReach attr rs w a p).2.reach ≤ ms ∧ (feedReach attr rs w a p).2.unreach = none := by
  intro rs
  induction rs with
  | nil => intro w a p _ _ h; simp [feedReach, h]
  | cons r rs ih =>
    intro w a p hr hh h
    have hrs : ∀ r' ∈ rs, r'.wire ≤ ms := fun r' h' => hr r' (by simp [h'])
    cases p with
    | none =>
      unfold feedReach
      exact ih w a (some r) hrs (by intro h0; cases h0) (by simpa using hh rfl r (by simp))
    | some p =>
      unfold feedReach
      have hr0 := hr r (by simp)
      have := ih [] [] (some r) hrs (by intro h0; cases h0) (by simpa using hr0)
      refine ⟨?_, this.2⟩
      intro m hm
      simp only [List.mem_cons] at hm
      rcases hm with rfl | hm
      · have := mkMsg_len_le attr w none true (some p) a
        simp at this h; omega
      · exact this.1 m hm

theorem feedUnreach_fits (ms attr : Nat) :
    ∀ (us : List Mp) (w a : List Nlri) (p u : Option Mp),
      (∀ r ∈ us, r.wire ≤ ms) →
      (u = none → ∀ u0, us.head? = some u0 → sz w + sz a + owire p + u0.wire ≤ ms) →
      sz w + sz a + owire p + owire u ≤ ms →
      (∀ m ∈ (feedUnreach attr us w a p u).1, m.len ≤ 23 + attr + ms) ∧
      sz (feedUnreach attr us w a p u).2.w + sz (feedUnreach attr us w a p u).2.a
        + owire (feedUnreach attr us w a p u).2.reach + owire (feedUnreach attr us w a p u).2.unreach ≤ ms := by
  intro us
  induction us with
  | nil => intro w a p u _ _ h; simp [feedUnreach, h]
  | cons x us ih =>
    intro w a p u hr hh h
    have hrs : ∀ r' ∈ us, r'.wire ≤ ms := fun r' h' => hr r' (by simp [h'])
    cases u with
    | none =>
      unfold feedUnreach
      exact ih w a p (some x) hrs (by intro h0; cases h0) (by simpa using hh rfl x (by simp))
    | some u =>
      unfold feedUnreach
      have hr0 := hr x (by simp)
      have := ih [] [] none (some x) hrs (by intro h0; cases h0) (by simpa using hr0)
      refine ⟨?_, this.2⟩
      intro m hm
      simp only [List.mem_cons] at hm
      rcases hm with rfl | hm
      · have := mkMsg_len_le attr w (some u) true p a
        simp at this h; omega
      · exact this.1 m hm

theorem famFinal_fits (ms attr : Nat) (s : MpSt)
    (h : sz s.w + sz s.a + owire s.reach + owire s.unreach ≤ ms) :
    ∀ m ∈ famFinal attr s, m.len ≤ 23 + attr + ms := by
  intro m hm
  unfold famFinal at hm
  split at hm
  · simp at hm; subst hm
    have := mkMsg_len_le attr s.w s.unreach true s.reach s.a
    omega
  · simp at hm

/-- One family: every message within the maximum when every NLRI of the family fits alone and the
    IPv4 leftover is within `ms`. -/
theorem famStep_fits (inclW : Bool) (ms attr fam : Nat) (ra wa w a : List Nlri)
    (hra : ∀ x ∈ ra, attrLen (5 + x.nhLen + x.size) ≤ ms)
    (hwa : inclW = true → ∀ x ∈ wa, attrLen (3 + x.size) ≤ ms)
    (h : sz w + sz a ≤ ms) :
    ∀ m ∈ (famStep inclW ms attr fam ra wa w a).1, m.len ≤ 23 + attr + ms := by
  have hg : ∀ g ∈ groupsOf ra, ∀ x ∈ g.2, attrLen (5 + g.1.2 + x.size) ≤ ms := by
    intro g hg x hx
    obtain ⟨hxr, hk⟩ := groupsOf_mem hg x hx
    have := hra x hxr
    rw [← hk]; simpa [nhKey] using this
  have b1 := reachGen_bound (ms - (sz w + sz a)) fam ms (by omega) (groupsOf ra) hg
  have h1 := reachGen_head (ms - (sz w + sz a)) fam (groupsOf ra)
  have f1 := feedReach_fits ms attr (reachGen (ms - (sz w + sz a)) fam (groupsOf ra)).1 w a none b1
    (by
      intro _ r0 hr0
      have := h1 r0 hr0
      have := wire_eq r0
      have := attrLen_pos r0.payload
      omega)
    (by simpa using h)
  intro m hm
  unfold famStep at hm
  simp only at hm
  split at hm
  · exact f1.1 m hm
  · split at hm
    · rename_i hi
      generalize hfr : feedReach attr (reachGen (ms - (sz w + sz a)) fam (groupsOf ra)).1 w a none = fr at f1 hm
      obtain ⟨f1a, f1b, f1c⟩ := f1
      have b2 := unreachGen_bound (ms - (sz fr.2.w + sz fr.2.a + owire fr.2.reach)) fam ms (by omega) wa (hwa hi)
      have h2 := unreachGen_head (ms - (sz fr.2.w + sz fr.2.a + owire fr.2.reach)) fam wa
      have f2 := feedUnreach_fits ms attr (unreachGen (ms - (sz fr.2.w + sz fr.2.a + owire fr.2.reach)) fam wa).1
        fr.2.w fr.2.a fr.2.reach none b2
        (by
          intro _ u0 hu0
          have := h2 u0 hu0
          have := wire_eq u0
          have := attrLen_pos u0.payload
          omega)
        (by simpa using f1b)
      split at hm
      · simp only [List.mem_append] at hm
        rcases hm with hm | hm
        · exact f1a m hm
        · exact f2.1 m hm
      · simp only [List.mem_append] at hm
        rcases hm with (hm | hm) | hm
        · exact f1a m hm
        · exact f2.1 m hm
        · exact famFinal_fits ms attr _ f2.2 m hm
    · simp only [List.mem_append] at hm
      rcases hm with hm | hm
      · exact f1.1 m hm
      · refine famFinal_fits ms attr _ ?_ m hm
        have := f1.2.1; have := f1.2.2
        simp_all

theorem famLoop_fits (inclW : Bool) (ms attr : Nat) (ma mw : List Nlri)
    (hma : ∀ x ∈ ma, attrLen (5 + x.nhLen + x.size) ≤ ms)
    (hmw : inclW = true → ∀ x ∈ mw, attrLen (3 + x.size) ≤ ms) :
    ∀ (fs : List Nat) (w a : List Nlri), sz w + sz a ≤ ms →
      ∀ m ∈ (famLoop inclW ms attr ma mw fs w a).1, m.len ≤ 23 + attr + ms := by
  intro fs
  induction fs with
  | nil => intro w a _ m hm; simp [famLoop] at hm
  | cons f fs ih =>
    intro w a h m hm
    have s1 := famStep_fits inclW ms attr f (ma.filter (fun x => x.fam = f)) (mw.filter (fun x => x.fam = f)) w a
      (fun x hx => hma x (List.mem_filter.1 hx).1)
      (fun hi x hx => hmw hi x (List.mem_filter.1 hx).1) h
    unfold famLoop at hm
    simp only at hm
    split at hm
    · exact s1 m hm
    · simp only [List.mem_append] at hm
      rcases hm with hm | hm
      · exact s1 m hm
      · exact ih [] [] (by simp) m hm

theorem cut_sub : ∀ (l : List Msg), ∀ m ∈ (cut l).1, m ∈ l := by
  intro l
  induction l with
  | nil => intro m hm; simp [cut] at hm
  | cons x xs ih =>
    intro m hm
    unfold cut at hm
    split at hm
    · simp at hm
    · simp only [List.mem_cons] at hm
      rcases hm with rfl | hm
      · simp
      · exact List.mem_cons_of_mem _ (ih m hm)

end Exa.Pack
