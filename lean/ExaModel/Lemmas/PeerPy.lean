import ExaModel.Model.Session
import ExaModel.Generated.PyPeer
set_option linter.unusedSimpArgs false
set_option linter.unusedVariables false
/-!
# M-Session — what an incoming connection meets is what the translated `Peer.handle_connection` decides

`Generated/PyPeer.lean` is `Peer.handle_connection` of /repo translated statement by statement on every run.  Its
inputs are instantiated with the state of M-Session: `self._restart` is `restart`, `self._teardown is not None` is
`teardown.isSome`, the two FSM tests are tests on `fsm`, `self.proto` is `conn.isSome`, and the comparison of the two
BGP identifiers is the `idLow` flag of the connection in hand.
-/
namespace Exa.Session
open Exa.Generated Exa.Generated.PyPeer

/-- the comparison `bytes(remote_id) < bytes(local_id)` on the OPEN of the connection in hand -/
def remoteIdLower (s : State) : Bool := match s.conn with | some k => k.idLow | none => false

/-- the translated method run on the model's state -/
def pyHandle (s : State) : PyRes PeerSt Unit :=
  Peer.handle_connection ⟨s.restart, s.conn.isSome, false⟩ s.teardown.isSome (s.fsm == .established)
    (s.fsm == .openconfirm) (remoteIdLower s)

/-- **Refusal.** The code answers the incoming connection with a NOTIFICATION exactly when the model's `refuses`
    holds; the code is 6/3 when `stop()` ran (the peer is being removed) and 6/7 (collision resolution) otherwise. -/
theorem py_handle_refuses (s : State) :
    (refuses s = true → pyHandle s = .raise 6 (if (!s.restart && s.teardown.isSome) then 3 else 7)) ∧
    (refuses s = false → pyHandle s = .ret () ⟨s.restart, true, s.conn.isSome⟩) := by
  unfold refuses pyHandle Peer.handle_connection remoteIdLower
  cases s.restart <;> cases s.teardown.isSome <;> cases hf : s.fsm <;> cases hc : s.conn <;> simp
  all_goals (try (rename_i k; cases k.idLow <;> simp))

/-- On acceptance the connection in hand is closed exactly when there was one (`adopt`: `closeP` iff `conn.isSome`),
    and `peer.proto` is the new connection. -/
theorem py_handle_accepts (s : State) (h : refuses s = false) :
    ∃ st, pyHandle s = .ret () st ∧ st.closed = s.conn.isSome ∧ st.proto = true ∧ st._restart = s.restart := by
  refine ⟨_, (py_handle_refuses s).2 h, rfl, rfl, rfl⟩

end Exa.Session
