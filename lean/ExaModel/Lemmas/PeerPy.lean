import ExaModel.Model.Session
import ExaModel.Generated.PyPeer
set_option linter.unusedSimpArgs false
set_option linter.unusedVariables false
/-!
# M-Session — what an incoming connection meets is what the translated `Peer.handle_connection` decides

`Generated/PyPeer.lean` is `Peer.handle_connection` of /repo translated statement by statement on every run.  Its
inputs are instantiated with the state of M-Session: `self._restart` is `restart`, `self._teardown is not None` is
`teardown.isSome`, the two FSM tests are tests on `fsm`, `self.proto` is `conn.isSome`, and the comparison of the two
BGP identifiers is the `idLow` flag of the connection in hand.
-/
namespace Exa.Session
open Exa.Generated Exa.Generated.PyPeer

/-- the comparison `bytes(remote_id) < bytes(local_id)` on the OPEN of the connection in hand -/
def remoteIdLower (s : State) : Bool := match s.conn with | some k => k.idLow | none => false

/-- the translated method run on the model's state -/
def pyHandle (s : State) : PyRes PeerSt Unit :=
  Peer.handle_connection ⟨s.restart, s.conn.isSome, false⟩ s.teardown.isSome (s.fsm == .established)
    (s.fsm == .openconfirm) (remoteIdLower s)

/-- **Refusal.** The code answers the incoming connection with a NOTIFICATION exactly when the model's `refuses`
    holds; the code is 6/3 when `stop()` ran (the peer is being removed) and 6/7 (collision resolution) otherwise. -/
theorem py_handle_refuses (s : State) :
    (refuses s = true → pyHandle s = .raise 6 (if (!s.restart && s.teardown.isSome) then 3 else 7)) ∧
    (refuses s = false → pyHandle s = .ret () ⟨s.restart, true, s.conn.isSome⟩) := by
  unfold refuses pyHandle Peer.handle_connection remoteIdLower
  cases s.restart <;> cases s.teardown.isSome <;> cases hf : s.fsm <;> cases hc : s.conn <;> simp
  all_goals (try (rename_i k; cases k.idLow <;> simp))

/-- On acceptance the connection in hand is closed exactly when there was one (`adopt`: `closeP` iff `conn.isSome`),
    and `peer.proto` is the new connection. -/
theorem py_handle_accepts (s : State) (h : refuses s = false) :
    ∃ st, pyHandle s = .ret () st ∧ st.closed = s.conn.isSome ∧ st.proto = true ∧ st._restart = s.restart := by
  refine ⟨_, (py_handle_refuses s).2 h, rfl, rfl, rfl⟩

/-! ## `can_reconnect` and `_reset` -/

/-- `Peer.can_reconnect` as translated = `canReconnect` of the model (exabgp.tcp.attempts; 0 = unlimited). -/
theorem py_can_reconnect_eq_model (s : State) :
    Attempts.can_reconnect ⟨s.cfg.maxAttempts, s.attempts⟩ = .ret (canReconnect s) ⟨s.cfg.maxAttempts, s.attempts⟩ := by
  unfold Attempts.can_reconnect canReconnect
  by_cases h : s.cfg.maxAttempts = 0
  · simp [h]
  · have h' : ((s.cfg.maxAttempts : Int) == 0) = false := by simp; omega
    have h'' : (s.cfg.maxAttempts == 0) = false := by simpa using h
    simp [h', h'']

/-- `Peer._reset` as translated, for a neighbor that is not ephemeral (the model has none): the connection is
    closed (`_close`) whatever the state; the pending teardown is forgotten and the RIB reset exactly when the
    peer restarts — `resetP` of the model (`teardown := none`, `refreshQ := 0` under `restart`). -/
theorem py_reset_eq_model (restart teardownSet : Bool) :
    Reset._reset ⟨restart, teardownSet, false, false⟩ false =
      .ret () ⟨restart, (if restart then false else teardownSet), true, restart⟩ := by
  unfold Reset._reset
  cases restart <;> simp

/-- an ephemeral neighbor is never restarted: nothing is reset for it -/
theorem py_reset_ephemeral (restart teardownSet : Bool) :
    Reset._reset ⟨restart, teardownSet, false, false⟩ true = .ret () ⟨restart, teardownSet, true, false⟩ := by
  unfold Reset._reset
  cases restart <;> simp

/-! ## `teardown`, `reestablish`, `stop` -/

/-- the control part of the model's state as the state of the translated methods -/
def ctl (s : State) (idle : Bool) : ControlSt := ⟨(s.teardown.getD 0 : Nat), s.restart, idle⟩

/-- `Peer.teardown(code)` as the API calls it (restart left at its default True) = the model's `.teardown code`. -/
theorem py_teardown_eq_model (s : State) (code : Nat) :
    Control.teardown (ctl s false) code true = .ret () (ctl (react s (.teardown code)).1 false) := by
  simp [Control.teardown, react, ctl]

/-- `Peer.reestablish()` = the model's `.reestablish` (teardown 3, the peer restarts). -/
theorem py_reestablish_eq_model (s : State) :
    Control.reestablish (ctl s false) = .ret () (ctl (react s .reestablish).1 false) := by
  simp [Control.reestablish, react, ctl]

/-- `Peer.stop()` = `stopP` of the model: teardown 3, no restart, the FSM goes to IDLE. -/
theorem py_stop_eq_model (s : State) :
    Control.stop (ctl s false) = .ret () (ctl (stopP s).1 true) ∧ (stopP s).1.fsm = .idle ∧
      stopChangesToIdle = true := by
  refine ⟨by simp [Control.stop, stopP, fsmTo, ctl], by simp [stopP, fsmTo], by decide⟩

/-! ## `_close` -/

/-- the translated `_close` run on the model's state (the rig's neighbors have an `api` section) -/
def pyClose (s : State) : PyRes CloseSt Unit :=
  Close._close ⟨s.conn.isSome, false, false, false⟩ (!(s.fsm == .idle || s.fsm == .active)) true s.cfg.changes

/-- `Peer._close` as translated from /repo: `processes.down` is called exactly when the FSM is beyond ACTIVE and
    the neighbor reports its changes, the FSM is told to go to IDLE, the connection in hand is closed exactly when
    there is one, and `peer.proto` is None afterwards. -/
theorem py_close_result (s : State) :
    pyClose s = .ret () ⟨false, (!(s.fsm == .idle || s.fsm == .active)) && s.cfg.changes, true, s.conn.isSome⟩ := by
  unfold pyClose Close._close
  cases s.conn <;> cases s.cfg.changes <;> cases hf : s.fsm <;> simp

/-- ... and that is `closeP` of the model: it writes `down` for the API exactly when the translated method calls
    `processes.down` and the API process is alive, it leaves the FSM in IDLE, it closes the transport exactly when
    the translated method calls `proto.close`, and there is no connection afterwards. -/
theorem py_close_is_closeP (s : State) :
    (Out.down ∈ (closeP s).2 ↔ ((!(s.fsm == .idle || s.fsm == .active)) && s.cfg.changes) = true ∧ s.dead = false) ∧
    (closeP s).1.fsm = .idle ∧ (closeP s).1.conn = none ∧
    ((∃ i, Out.close i ∈ (closeP s).2) ↔ s.conn.isSome = true) ∧ closeChangesToIdle = true := by
  refine ⟨?_, ?_, ?_, ?_, by decide⟩
  · unfold closeP apiDown fsmTo closeConn R.andThen
    cases hc : s.conn <;> cases hch : s.cfg.changes <;> cases hd : s.dead <;> cases hf : s.fsm <;> simp [hc, hch, hd, hf]
  · unfold closeP apiDown fsmTo closeConn R.andThen
    cases hc : s.conn <;> cases hf : s.fsm <;> simp [hc, hf]
  · unfold closeP apiDown fsmTo closeConn R.andThen
    cases hc : s.conn <;> cases hf : s.fsm <;> simp [hc, hf]
  · unfold closeP apiDown fsmTo closeConn R.andThen
    cases hc : s.conn <;> cases hch : s.cfg.changes <;> cases hd : s.dead <;> cases hf : s.fsm <;> simp [hc, hch, hd, hf]

end Exa.Session
