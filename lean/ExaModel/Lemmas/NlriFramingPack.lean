import ExaModel.Lemmas.NlriFraming
set_option linter.unusedSimpArgs false
set_option linter.unusedVariables false
/-! The packed-bytes-first contract: re-encoding what was decoded from canonical bytes gives the
    bytes back. `Canonical` names, per framing kind, the inputs for which this is true of the code
    as it is (everything else is a non-canonical encoding, or one of the findings). -/
namespace Exa.Framing
open Exa Exa.Generated.Registry

/-- Canonical wire form of ONE NLRI of a framing kind (beyond being accepted by the splitter). -/
def Canonical (k : Kind) (c : Cfg) (b : Bytes) : Prop :=
  match k with
  | .flow => WFBytes b ∧ (b.getD 0 0 < 240 ∨ (b.getD 0 0 = 240 ∧ 240 ≤ b.getD 1 0))  -- shortest length form
  | .vpls => WFBytes b ∧ rd16 b = 17         -- no trailing bytes after the 17 known ones
  | .rtc => b.getD 5 0 < 64                  -- the two high bits of the route-target type are clear
  | _ => True

theorem cutAt_stored {n : Nat} {d : Bytes} {c : Cut} (h : cutAt n d = some c) : c.stored = c.consumed := by
  unfold cutAt at h
  split at h
  · cases h
  · cases h; rfl

theorem whole_of_rest_nil {cut : Cut} {b : Bytes} (h : cut.consumed ++ cut.rest = b) (hr : cut.rest = []) :
    cut.consumed = b := by
  rw [hr] at h; simpa using h

theorem pack_pfx {c : Cfg} {b : Bytes} {cut : Cut} (h : split .prefixBits c b = some cut) (hr : cut.rest = []) :
    pack .prefixBits cut.stored = some b := by
  have hp := whole_of_rest_nil (split_prefix _ _ _ _ h) hr
  simp only [split] at h
  unfold splitPrefixBits at h
  dsimp only at h
  by_cases h1 : (c.addpath && decide (b.length ≤ pathInfoSize)) = true
  · simp [h1] at h
  · simp only [h1, if_false] at h
    by_cases h2 : b.length ≤ (if c.addpath = true then pathInfoSize else 0)
    · simp [h2] at h
    · simp only [h2, if_false] at h
      simp [pack, cutAt_stored h, hp]

theorem pack_typeLen8 {c : Cfg} {b : Bytes} {cut : Cut} (h : split .typeLen8 c b = some cut) (hr : cut.rest = []) :
    pack .typeLen8 cut.stored = some b := by
  have hp := whole_of_rest_nil (split_prefix _ _ _ _ h) hr
  simp only [split] at h
  unfold splitTypeLen8 at h
  split at h
  · cases h
  · simp [pack, cutAt_stored h, hp]

theorem pack_mup {c : Cfg} {b : Bytes} {cut : Cut} (h : split .mup c b = some cut) (hr : cut.rest = []) :
    pack .mup cut.stored = some b := by
  have hp := whole_of_rest_nil (split_prefix _ _ _ _ h) hr
  simp only [split] at h
  unfold splitMup at h
  split at h
  · cases h
  · simp [pack, cutAt_stored h, hp]

theorem pack_bgpls {c : Cfg} {b : Bytes} {cut : Cut} (h : split .type16Len16 c b = some cut) (hr : cut.rest = []) :
    pack .type16Len16 cut.stored = some b := by
  have hp := whole_of_rest_nil (split_prefix _ _ _ _ h) hr
  simp only [split] at h
  unfold splitBgpls at h
  split at h
  · cases h
  · simp only at h
    split at h
    · cases h
    · split at h
      · cases h
      · cases h; simp only [pack]; simp at hp; simp [hp]

theorem pack_flow {c : Cfg} {b : Bytes} {cut : Cut} (h : split .flow c b = some cut) (hr : cut.rest = [])
    (hc : Canonical .flow c b) : pack .flow cut.stored = some b := by
  simp only [split] at h
  unfold splitFlow splitFlowWith at h
  simp only [Canonical] at hc
  obtain ⟨hwf, hc⟩ := hc
  match b, h with
  | b0 :: t, h =>
    simp only [List.getD_cons_zero] at hc
    rcases hc with hs | ⟨h0, h1⟩
    · have hne : ¬ b0 / 16 % 16 = 15 := by omega
      simp only [hne, if_false] at h
      split at h
      · cases h
      · rename_i hle
        cases h
        simp only at hr
        have hlen : t.length ≤ b0 := by
          have := congrArg List.length hr; simp at this; omega
        have : t.take b0 = t := List.take_of_length_le hlen
        simp only [pack, this]
        rw [flowFrame_small t (by omega)]
        have : t.length = b0 := by omega
        rw [this]
    · subst h0
      simp only [show (240 / 16 % 16 = 15) from by decide, if_true] at h
      match t, h with
      | b1 :: t', h =>
        simp only [List.getD_cons_succ, List.getD_cons_zero] at h1
        have hb1 : b1 < 256 := hwf b1 (by simp)
        have hz : 240 % 16 * 2 ^ flowShift + b1 = b1 := by simp
        simp only [hz] at h
        split at h
        · cases h
        · rename_i hle
          cases h
          simp only at hr
          have hlen : t'.length ≤ b1 := by
            have := congrArg List.length hr; simp at this; omega
          have : t'.take b1 = t' := List.take_of_length_le hlen
          simp only [pack, this]
          have hl : t'.length = b1 := by omega
          rw [flowFrame_big t' (by omega) (by omega), hl]
          have q : b1 / 256 = 0 := by omega
          have r : b1 % 256 = b1 := by omega
          rw [q, r]

theorem take2_of_rd16 (b : Bytes) (hw : WFBytes b) (hl : 2 ≤ b.length) (n : Nat) (h : rd16 b = n) :
    b.take 2 = be16 n := by
  cases b with
  | nil => simp at hl
  | cons x t =>
    cases t with
    | nil => simp at hl
    | cons y t =>
      have hx : x < 256 := hw x (by simp)
      have hy : y < 256 := hw y (by simp)
      subst h
      have := be16_rd16 x y hx hy
      simp only [rd16, List.getD_cons_zero, List.getD_cons_succ] at this ⊢
      simp only [List.take_succ_cons, List.take_zero]
      exact this.symm

theorem pack_vpls {c : Cfg} {b : Bytes} {cut : Cut} (h : split .vpls c b = some cut)
    (hc : Canonical .vpls c b) : pack .vpls cut.stored = some b := by
  simp only [split] at h
  unfold splitVpls at h
  simp only [Canonical] at hc
  obtain ⟨hw, hc⟩ := hc
  split at h
  · cases h
  · rename_i h2
    simp only [hc, vplsPayloadSize] at h
    split at h
    · cases h
    · split at h
      · cases h
      · rename_i hl
        cases h
        simp only [pack]
        have hlen : b.length = 19 := by omega
        have : (b.drop 2).take 17 = b.drop 2 := List.take_of_length_le (by simp; omega)
        rw [this, ← take2_of_rd16 b hw (by omega) 17 hc, List.take_append_drop]

theorem len13 (p : Bytes) (h : p.length = 13) :
    ∃ a0 a1 a2 a3 a4 a5 a6 a7 a8 a9 a10 a11 a12, p = [a0, a1, a2, a3, a4, a5, a6, a7, a8, a9, a10, a11, a12] := by
  match p, h with
  | [a0, a1, a2, a3, a4, a5, a6, a7, a8, a9, a10, a11, a12], _ =>
    exact ⟨a0, a1, a2, a3, a4, a5, a6, a7, a8, a9, a10, a11, a12, rfl⟩

theorem pack_rtc {c : Cfg} {b : Bytes} {cut : Cut} (h : split .rtc c b = some cut) (hr : cut.rest = [])
    (hc : Canonical .rtc c b) : pack .rtc cut.stored = some b := by
  simp only [split] at h
  unfold splitRtc at h
  simp only [Canonical] at hc
  match b, h with
  | len :: t, h =>
    simp only at h
    split at h
    · rename_i h0
      cases h
      simp only at hr
      simp [pack, hr, h0]
    · split at h
      · cases h
      · split at h
        · cases h
        · rename_i hl
          cases h
          simp only at hr
          have hlen : (len :: t).length = 13 := by
            have := congrArg List.length hr
            simp [rtcFullLength] at this hl
            simp; omega
          obtain ⟨a0, a1, a2, a3, a4, a5, a6, a7, a8, a9, a10, a11, a12, e⟩ := len13 _ hlen
          rw [e] at hc ⊢
          simp only [List.getD_cons_succ, List.getD_cons_zero] at hc
          have : resetFlags a5 = a5 := by unfold resetFlags; omega
          simp [pack, this]

theorem pack_srPolicy {c : Cfg} {b : Bytes} {cut : Cut} (h : split .srPolicy c b = some cut) (hr : cut.rest = []) :
    pack .srPolicy cut.stored = some b := by
  simp only [split] at h
  unfold splitSrPolicy at h
  match b, h with
  | bits :: t, h =>
    simp only at h
    split at h
    · cases h
    · rename_i hb
      split at h
      · cases h
      · rename_i hl
        cases h
        simp only at hr
        have hbits : bits = srPolicyBits c.afi := by simpa using hb
        have h8 : bits / 8 * 8 = bits := by
          rw [hbits]; unfold srPolicyBits; omega
        have hlen : t.length = bits / 8 := by
          have := congrArg List.length hr
          simp at this hl; omega
        have : t.take (bits / 8) = t := List.take_of_length_le (by omega)
        simp only [pack, this, hlen, h8]

/-- All kinds together. -/
theorem pack_split (k : Kind) (c : Cfg) (b : Bytes) (cut : Cut) (h : split k c b = some cut)
    (hr : cut.rest = []) (hc : Canonical k c b) : pack k cut.stored = some b := by
  cases k
  · exact pack_pfx h hr
  · exact pack_typeLen8 h hr
  · exact pack_mup h hr
  · exact pack_bgpls h hr
  · exact pack_flow h hr hc
  · exact pack_vpls h hc
  · exact pack_rtc h hr hc
  · exact pack_srPolicy h hr

/-- With the decoder's shift of 16, every FlowSpec NLRI of 256 bytes or more that the encoder
    produces is refused by the decoder. -/
theorem flow_shift16_refuses (v : Bytes) (h1 : 256 ≤ v.length) (h2 : v.length < 4095) :
    ∃ f, flowFrame v = some f ∧ splitFlowWith 16 f = none := by
  refine ⟨_, flowFrame_big v (by omega) h2, ?_⟩
  unfold splitFlowWith
  have e1 : (240 + v.length / 256) / 16 % 16 = 15 := by omega
  simp only [e1, if_true]
  have : (240 + v.length / 256) % 16 * 2 ^ 16 + v.length % 256 > v.length := by
    have : (240 + v.length / 256) % 16 = v.length / 256 := by omega
    rw [this]
    have : 1 ≤ v.length / 256 := by omega
    have : (2 : Nat) ^ 16 = 65536 := by decide
    omega
  simp [this]

end Exa.Framing
