import ExaModel.Model.DecodeCache
import ExaModel.Lemmas.RibBasic
set_option linter.unusedSimpArgs false
set_option linter.unusedVariables false
/-!
Helper lemmas for M-DecodeCache: a keyed cache whose key determines the computed value (on the
inputs that occur) is transparent; a class attribute rewritten on dispatch is harmless iff no
class is registered under two codes.
-/
namespace Exa.DecodeCache
open Exa

section
variable {κ ρ ι : Type} [DecidableEq κ]

/-- The key is sound on a universe `U` of inputs: two inputs of the universe with the same key
    compute the same value — required only for values that are stored and served. -/
def SoundKeyOn (U : ι → Prop) (pol : Policy ρ) (keyOf : ι → κ) (compute : ι → ρ) : Prop :=
  ∀ i j, U i → U j → keyOf i = keyOf j →
    pol.effect (compute i) = .put → pol.servable (compute i) = true → compute j = compute i

/-- Every stored entry is the value computed from an input of the universe with that key, and
    was stored by `put`. -/
def Inv (U : ι → Prop) (pol : Policy ρ) (keyOf : ι → κ) (compute : ι → ρ) (st : Store κ ρ) : Prop :=
  ∀ k r, AList.lookup k st = some r → ∃ i, U i ∧ keyOf i = k ∧ compute i = r ∧ pol.effect r = .put

theorem inv_nil (U : ι → Prop) (pol : Policy ρ) (keyOf : ι → κ) (compute : ι → ρ) :
    Inv U pol keyOf compute ([] : Store κ ρ) := by
  intro k r h; simp at h

theorem inv_after {U : ι → Prop} {pol : Policy ρ} {keyOf : ι → κ} {compute : ι → ρ} {st : Store κ ρ}
    (h : Inv U pol keyOf compute st) (i : ι) (hi : U i) :
    Inv U pol keyOf compute (Store.after pol st (keyOf i) (compute i)) := by
  unfold Store.after
  cases he : pol.effect (compute i) with
  | keep => simpa using h
  | reset => exact inv_nil U pol keyOf compute
  | put =>
    simp only
    by_cases hs : pol.single = true
    · simp only [hs, if_true]
      intro k r hk
      simp only [AList.lookup] at hk
      by_cases hkk : keyOf i = k
      · simp only [hkk, if_true, Option.some.injEq] at hk
        exact ⟨i, hi, hkk, hk, hk ▸ he⟩
      · simp [hkk] at hk
    · have hs' : pol.single = false := by simpa using hs
      simp only [hs', Bool.false_eq_true, if_false]
      intro k r hk
      rw [AList.lookup_insert] at hk
      by_cases hkk : k = keyOf i
      · simp only [hkk, if_true, Option.some.injEq] at hk
        exact ⟨i, hi, hkk.symm, hk, hk ▸ he⟩
      · simp only [hkk, if_false] at hk
        exact h k r hk

/-- One access returns what computing from scratch returns, and keeps the invariant. -/
theorem access_sound {U : ι → Prop} {pol : Policy ρ} {keyOf : ι → κ} {compute : ι → ρ} {st : Store κ ρ}
    (hk : SoundKeyOn U pol keyOf compute) (h : Inv U pol keyOf compute st) (i : ι) (hi : U i) :
    (access pol st (keyOf i) (compute i)).2.1 = compute i ∧
      Inv U pol keyOf compute (access pol st (keyOf i) (compute i)).1 := by
  unfold access
  cases hl : AList.lookup (keyOf i) st with
  | none => exact ⟨rfl, inv_after h i hi⟩
  | some r =>
    simp only
    by_cases hs : pol.servable r = true
    · simp only [hs, if_true]
      obtain ⟨j, hj, hkj, hcj, hej⟩ := h _ _ hl
      refine ⟨?_, h⟩
      have := hk j i hj hi hkj (hcj ▸ hej) (hcj ▸ hs)
      rw [this, hcj]
    · simp only [hs]
      exact ⟨rfl, inv_after h i hi⟩

/-- **Transparency of a soundly keyed cache**: over any history of inputs of the universe, from
    any store satisfying the invariant, every access yields what computing from scratch yields. -/
theorem run_transparent {U : ι → Prop} {pol : Policy ρ} {keyOf : ι → κ} {compute : ι → ρ}
    (hk : SoundKeyOn U pol keyOf compute) (is : List ι) :
    ∀ (st : Store κ ρ), Inv U pol keyOf compute st → (∀ i ∈ is, U i) →
      (run pol keyOf compute st is).2 = is.map compute := by
  induction is with
  | nil => intro st _ _; rfl
  | cons i t ih =>
    intro st h hu
    have hi : U i := hu i List.mem_cons_self
    obtain ⟨h1, h2⟩ := access_sound hk h i hi
    simp only [run, List.map_cons]
    rw [h1, ih _ h2 (fun j hj => hu j (List.mem_cons_of_mem _ hj))]

theorem run_length (pol : Policy ρ) (keyOf : ι → κ) (compute : ι → ρ) (is : List ι) :
    ∀ st : Store κ ρ, (run pol keyOf compute st is).2.length = is.length := by
  induction is with
  | nil => intro st; rfl
  | cons i t ih => intro st; simp [run, ih]

/-- A single-slot cache never holds more than one entry. -/
theorem after_single_length {pol : Policy ρ} (hs : pol.single = true) (st : Store κ ρ) (k : κ) (fresh : ρ)
    (h : st.length ≤ 1) : (Store.after pol st k fresh).length ≤ 1 := by
  unfold Store.after
  cases pol.effect fresh <;> simp [hs, h]

theorem access_single_length {pol : Policy ρ} (hs : pol.single = true) (st : Store κ ρ) (k : κ) (fresh : ρ)
    (h : st.length ≤ 1) : (access pol st k fresh).1.length ≤ 1 := by
  unfold access
  cases AList.lookup k st with
  | none => exact after_single_length hs st k fresh h
  | some r =>
    simp only
    split
    · exact h
    · exact after_single_length hs st k fresh h

end

/-! ### The attribute cache -/

section
variable {ρ δ : Type}

/-- **What a sound key must contain.** The parse of a block whose result is stored and served
    depends on the negotiated parameters only through `dep`. -/
def Parser.DependsOnlyOn (P : Parser ρ) (dep : Params → δ) : Prop :=
  ∀ p p' bs, dep p = dep p' →
    (P.kind (P.parse p bs)).effect = .put → (P.kind (P.parse p bs)).truthy = true →
    P.parse p' bs = P.parse p bs

/-- the name this hypothesis has in DESIGN.md -/
abbrev parse_depends_only_on (P : Parser ρ) (dep : Params → δ) : Prop := P.DependsOnlyOn dep

theorem soundKey_full {P : Parser ρ} (hd : P.DependsOnlyOn Params.attrKey) :
    SoundKeyOn (fun _ => True) P.policy keyFull (fun x : Params × Bytes => P.parse x.1 x.2) := by
  intro i j _ _ hk he hs
  obtain ⟨p, bs⟩ := i
  obtain ⟨p', bs'⟩ := j
  simp only [keyFull, Prod.mk.injEq] at hk
  obtain ⟨hb, hp⟩ := hk
  subst hb
  exact hd p p' bs hp he hs

theorem soundKey_bytes_on [DecidableEq δ] {P : Parser ρ} {dep : Params → δ} (hd : P.DependsOnlyOn dep)
    (h : List (Params × Bytes)) (hagree : ∀ x ∈ h, ∀ y ∈ h, dep x.1 = dep y.1) :
    SoundKeyOn (fun x => x ∈ h) P.policy keyBytes (fun x : Params × Bytes => P.parse x.1 x.2) := by
  intro i j hi hj hk he hs
  obtain ⟨p, bs⟩ := i
  obtain ⟨p', bs'⟩ := j
  simp only [keyBytes] at hk
  subst hk
  exact hd p p' bs (hagree _ hi _ hj) he hs

end

/-! ### The class register -/

/-- every value in the register is a code registered for that class -/
def RegInv (table : AList Nat Nat) (r : Reg) : Prop :=
  ∀ cls v, AList.lookup cls r = some v → AList.lookup v table = some cls

theorem regInv_nil (table : AList Nat Nat) : RegInv table [] := by
  intro cls v h; simp at h

theorem regInv_dispatch {table : AList Nat Nat} {r : Reg} (h : RegInv table r) (c : Nat) :
    RegInv table (dispatch table r c).1 := by
  unfold dispatch
  cases hl : AList.lookup c table with
  | none => exact h
  | some k =>
    intro cls v hv
    simp only at hv
    rw [AList.lookup_insert] at hv
    by_cases hk : cls = k
    · simp only [hk, if_true, Option.some.injEq] at hv
      subst hv; subst hk; exact hl
    · simp only [hk, if_false] at hv
      exact h cls v hv

/-- under `SingleCode`, a class's entry never changes once written -/
theorem reg_stable_dispatch {table : AList Nat Nat} (hs : SingleCode table) {r : Reg} (h : RegInv table r)
    {cls v : Nat} (hv : AList.lookup cls r = some v) (c : Nat) :
    AList.lookup cls (dispatch table r c).1 = some v := by
  unfold dispatch
  cases hl : AList.lookup c table with
  | none => exact hv
  | some k =>
    simp only
    rw [AList.lookup_insert]
    by_cases hk : cls = k
    · simp only [hk, if_true, Option.some.injEq]
      subst hk
      exact hs c v cls hl (h cls v hv)
    · simp only [hk, if_false]; exact hv

theorem reg_stable {table : AList Nat Nat} (hs : SingleCode table) (cs : List Nat) :
    ∀ (r : Reg), RegInv table r → ∀ cls v, AList.lookup cls r = some v →
      AList.lookup cls (dispatchAll table r cs).1 = some v := by
  induction cs with
  | nil => intro r _ cls v hv; exact hv
  | cons c t ih =>
    intro r h cls v hv
    simp only [dispatchAll]
    exact ih _ (regInv_dispatch h c) cls v (reg_stable_dispatch hs h hv c)

theorem dispatch_inst {table : AList Nat Nat} {r : Reg} {c : Nat} {i : Inst}
    (h : (dispatch table r c).2 = some i) :
    i.code = c ∧ AList.lookup c table = some i.cls ∧ AList.lookup i.cls (dispatch table r c).1 = some c := by
  unfold dispatch at h ⊢
  cases hl : AList.lookup c table with
  | none => simp [hl] at h
  | some k =>
    simp only [hl, Option.some.injEq] at h
    subst h
    simp

/-- **A rewrite on dispatch is harmless when no class has two codes**: after any history, every
    instance ever returned still reads the code it was decoded from. -/
theorem dispatchAll_currentID {table : AList Nat Nat} (hs : SingleCode table) (dflt : Nat) (cs : List Nat) :
    ∀ (r : Reg), RegInv table r → ∀ i, some i ∈ (dispatchAll table r cs).2 →
      Inst.currentID (dispatchAll table r cs).1 dflt i = i.code := by
  induction cs with
  | nil => intro r _ i hi; simp [dispatchAll] at hi
  | cons c t ih =>
    intro r h i hi
    simp only [dispatchAll, List.mem_cons] at hi ⊢
    rcases hi with hi | hi
    · obtain ⟨h1, _, h3⟩ := dispatch_inst hi.symm
      have := reg_stable hs t _ (regInv_dispatch h c) i.cls c h3
      simp [Inst.currentID, this, h1]
    · exact ih _ (regInv_dispatch h c) i hi

/-- decidable form of `SingleCode` -/
def singleCodeB (table : AList Nat Nat) : Bool :=
  table.all (fun x => table.all (fun y => x.2 != y.2 || x.1 == y.1))

theorem singleCodeB_sound {table : AList Nat Nat} (h : singleCodeB table = true) : SingleCode table := by
  intro c c' k h1 h2
  have m1 := AList.mem_of_lookup h1
  have m2 := AList.mem_of_lookup h2
  simp only [singleCodeB, List.all_eq_true] at h
  have := h _ m1 _ m2
  simpa using this

end Exa.DecodeCache
