import ExaModel.Model.Timer
import ExaModel.Generated.PyTimer
set_option linter.unusedSimpArgs false
set_option linter.unusedVariables false
/-!
# M-Timer — the hand-written model computes what the translated Python computes

`Generated/PyTimer.lean` is `exabgp/bgp/timer.py` translated statement by statement on every run
(`harness/pylite.py`); the theorems here relate it to `Model/Timer.lean`, about which the
property theorems of C12 are stated.  Python integers are `Int` there and `Nat` in the model:
the embedding is the cast, and the only subtraction whose sign matters (`now - last_read`,
`last_sent + keepalive - now`) is compared, never stored.
-/
namespace Exa.Timer
open Exa.Generated Exa.Generated.PyTimer

def Recv.toPy (r : Recv) : ReceiveTimerSt :=
  { holdtime := r.hold, last_print := r.lastPrint, last_read := r.lastRead, code := r.code, subcode := r.sub,
    single := r.single }

def Send.toPy (s : Send) : SendTimerSt :=
  { keepalive := s.keepalive, last_print := s.lastPrint, last_sent := s.lastSent }

/-- a model result as a result of the translated method (a raise carries no state) -/
def liftRecvTimer : Recv × Res Bool → PyRes ReceiveTimerSt Bool
  | (r, .ret b) => .ret b r.toPy
  | (_, .raise c s) => .raise c s

def liftRecvKa : Recv × Option (Nat × Nat) → PyRes ReceiveTimerSt Unit
  | (r, none) => .ret () r.toPy
  | (_, some (c, s)) => .raise c s

def liftSend : Send × Bool → PyRes SendTimerSt Bool
  | (s, b) => .ret b s.toPy

theorem bne_cast (a b : Nat) : ((a : Int) != (b : Int)) = !(a == b) := by
  cases h : (a == b)
  · have h1 : a ≠ b := by simpa using h
    have : (a : Int) ≠ b := by omega
    simp [this]
  · have h1 : a = b := by simpa using h
    subst h1; simp

/-- `ReceiveTimer.check_ka_timer` as translated from /repo = `Recv.checkKaTimer` of the model, for
    every timer state, message kind and clock value. -/
theorem py_check_ka_timer_eq_model (r : Recv) (nowMs : Nat) (k : Kind) :
    ReceiveTimer.check_ka_timer r.toPy k.type k.sched (secs nowMs) = liftRecvTimer (r.checkKaTimer nowMs k) := by
  unfold ReceiveTimer.check_ka_timer Recv.checkKaTimer Recv.toPy
  simp only [Kind.isKeepalive, Kind.real, TimerTable.keepaliveType]
  by_cases h0 : r.hold = 0
  · simp [h0, liftRecvTimer, Recv.toPy]
    exact bne_cast k.type 4
  · have h0' : ¬ ((r.hold : Int) = 0) := by omega
    simp only [h0, h0', beq_iff_eq, if_false]
    by_cases hs : k.sched = 0
    · simp [hs, liftRecvTimer, Recv.toPy]
      split
      · omega
      · split
        · rename_i h; rw [h]
        · rfl
    · simp [hs, liftRecvTimer, Recv.toPy]
      by_cases he : r.hold < secs nowMs - r.lastRead
      · have he' : (r.hold : Int) < (secs nowMs : Int) - r.lastRead := by omega
        simp [he, he']
      · have he' : ¬ (r.hold : Int) < (secs nowMs : Int) - r.lastRead := by omega
        simp [he, he']

/-- `ReceiveTimer.check_ka` as translated = `Recv.checkKa` of the model. -/
theorem py_check_ka_eq_model (r : Recv) (nowMs : Nat) (k : Kind) :
    ReceiveTimer.check_ka r.toPy k.type k.sched (secs nowMs) = liftRecvKa (r.checkKa nowMs k) := by
  have h := py_check_ka_timer_eq_model r nowMs k
  unfold ReceiveTimer.check_ka Recv.checkKa
  simp only []
  rw [show (⟨r.toPy.holdtime, r.toPy.last_print, r.toPy.last_read, r.toPy.code, r.toPy.subcode, r.toPy.single⟩ :
      ReceiveTimerSt) = r.toPy from rfl, h]
  rcases hm : r.checkKaTimer nowMs k with ⟨r1, res⟩
  cases res with
  | raise c s => simp [liftRecvTimer, liftRecvKa]
  | ret b =>
    cases b
    · cases hsingle : r1.single <;>
        simp [liftRecvTimer, liftRecvKa, Recv.toPy, hsingle, TimerTable.h0KaNotify]
    · simp [liftRecvTimer, liftRecvKa, Recv.toPy]

/-- `SendTimer.need_ka` as translated = `Send.needKa` of the model.  The proof does not follow the shape of the
    translated code (which changes with every harmless rewrite of timer.py): every `if` of both sides is split and
    each case is closed by rewriting and linear arithmetic over the casts. -/
theorem py_need_ka_eq_model (s : Send) (nowMs : Nat) :
    SendTimer.need_ka s.toPy (secs nowMs) = liftSend (s.needKa nowMs) := by
  unfold SendTimer.need_ka Send.needKa Send.toPy liftSend
  simp only [beq_iff_eq, bne_iff_ne, ne_eq, decide_eq_true_eq, Bool.not_eq_true', decide_eq_false_iff_not,
    Bool.and_eq_true, Bool.or_eq_true, Bool.not_eq_eq_eq_not, Bool.not_true, Bool.not_false]
  repeat' split
  all_goals (first | omega | (simp_all [Send.toPy] <;> (try omega)) | skip)
  all_goals (first | omega | (constructor <;> omega) | skip)

end Exa.Timer
