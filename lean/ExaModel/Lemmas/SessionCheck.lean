import ExaModel.Lemmas.SessionTrace
set_option linter.unusedSimpArgs false
set_option linter.unusedVariables false
/-!
# M-Session — what a trace accepted by the checker satisfies

Pure list facts about `chkAll`; together with `run_acc` they give the trace theorems of C05 / C10.
-/
namespace Exa.Session

theorem chkAll_split {strict : Bool} {g g' : G} {xs ys : List Out} (h : chkAll strict g (xs ++ ys) = some g') :
    ∃ g1, chkAll strict g xs = some g1 ∧ chkAll strict g1 ys = some g' := by
  rw [chkAll_append] at h
  cases h1 : chkAll strict g xs with
  | none => simp [h1] at h
  | some g1 => exact ⟨g1, rfl, by simpa [h1] using h⟩

theorem chkAll_cons {strict : Bool} {g g' : G} {o : Out} {os : List Out} (h : chkAll strict g (o :: os) = some g') :
    ∃ g1, chk strict g o = some g1 ∧ chkAll strict g1 os = some g' := by
  simp only [chkAll] at h
  cases h1 : chk strict g o with
  | none => simp [h1] at h
  | some g1 => exact ⟨g1, rfl, by simpa [h1] using h⟩

/-- the checker only ever adds to `dead`. -/
theorem chk_dead_mono {strict : Bool} {g g' : G} {o : Out} (h : chk strict g o = some g') :
    ∀ i ∈ g.dead, i ∈ g'.dead := by
  intro i hi
  cases o with
  | fsm a b => simp only [chk] at h; split at h <;> simp at h; subst h; exact hi
  | send c k st =>
    simp only [chk] at h
    split at h
    · simp at h; subst h; cases k <;> simp [hi]
    · simp at h
  | up => simp only [chk] at h; split at h <;> simp at h; subst h; exact hi
  | down => simp [chk] at h; subst h; exact hi
  | gotNotification c => simp [chk] at h; subst h; simp [hi]
  | close c => simp [chk] at h; subst h; exact hi
  | reject c => simp [chk] at h; subst h; exact hi

theorem chkAll_dead_mono {strict : Bool} : ∀ {os : List Out} {g g' : G}, chkAll strict g os = some g' →
    ∀ i ∈ g.dead, i ∈ g'.dead
  | [], g, g', h => by simp [chkAll] at h; subst h; exact fun _ hi => hi
  | o :: os, g, g', h => by
    obtain ⟨g1, h1, h2⟩ := chkAll_cons h
    intro i hi
    exact chkAll_dead_mono h2 i (chk_dead_mono h1 i hi)

/-- every FSM change of an accepted trace is in the RFC table. -/
theorem accepted_fsm_rfc {strict : Bool} : ∀ {os : List Out} {g g' : G}, chkAll strict g os = some g' →
    ∀ a b, Out.fsm a b ∈ os → (a, b) ∈ rfcTable
  | [], _, _, _ => by simp
  | o :: os, g, g', h => by
    obtain ⟨g1, h1, h2⟩ := chkAll_cons h
    intro a b hm
    rcases List.mem_cons.1 hm with rfl | hm
    · simp only [chk] at h1
      split at h1
      · rename_i hc; exact hc.2
      · simp at h1
    · exact accepted_fsm_rfc h2 a b hm

/-- strict: UPDATE / End-of-RIB / ROUTE-REFRESH are only written in ESTABLISHED. -/
theorem accepted_data_established : ∀ {os : List Out} {g g' : G}, chkAll true g os = some g' →
    ∀ c k st, Out.send c k st ∈ os → isData k = true → st = .established
  | [], _, _, _ => by simp
  | o :: os, g, g', h => by
    obtain ⟨g1, h1, h2⟩ := chkAll_cons h
    intro c k st hm hk
    rcases List.mem_cons.1 hm with rfl | hm
    · simp only [chk] at h1
      split at h1
      · rename_i hc; exact hc.2.2 trivial hk
      · simp at h1
    · exact accepted_data_established h2 c k st hm hk

/-- the FSM state a trace leads to. -/
def fsmAfter (f : Fsm) : List Out → Fsm
  | [] => f
  | .fsm _ b :: os => fsmAfter b os
  | _ :: os => fsmAfter f os

theorem chk_fsm {strict : Bool} {g g' : G} {o : Out} (h : chk strict g o = some g') : g'.fsm = fsmAfter g.fsm [o] := by
  cases o with
  | fsm a b => simp only [chk] at h; split at h <;> simp at h; subst h; rfl
  | send c k st =>
    simp only [chk] at h
    split at h
    · simp at h; subst h; cases k <;> rfl
    · simp at h
  | up => simp only [chk] at h; split at h <;> simp at h; subst h; rfl
  | down => simp [chk] at h; subst h; rfl
  | gotNotification c => simp [chk] at h; subst h; rfl
  | close c => simp [chk] at h; subst h; rfl
  | reject c => simp [chk] at h; subst h; rfl

theorem fsmAfter_cons (f : Fsm) (o : Out) (os : List Out) : fsmAfter f (o :: os) = fsmAfter (fsmAfter f [o]) os := by
  cases o <;> rfl

theorem chkAll_fsm {strict : Bool} : ∀ {os : List Out} {g g' : G}, chkAll strict g os = some g' →
    g'.fsm = fsmAfter g.fsm os
  | [], g, g', h => by simp [chkAll] at h; subst h; rfl
  | o :: os, g, g', h => by
    obtain ⟨g1, h1, h2⟩ := chkAll_cons h
    rw [chkAll_fsm h2, chk_fsm h1, ← fsmAfter_cons]

/-- the `from` of every FSM change and the label of every write is the state the trace before it leads to. -/
theorem accepted_labels {strict : Bool} {g g' : G} {xs ys : List Out} {o : Out}
    (h : chkAll strict g (xs ++ o :: ys) = some g') :
    (∀ a b, o = .fsm a b → a = fsmAfter g.fsm xs) ∧ (∀ c k st, o = .send c k st → st = fsmAfter g.fsm xs) := by
  obtain ⟨g1, h1, h2⟩ := chkAll_split h
  obtain ⟨g2, h3, _⟩ := chkAll_cons h2
  have hf := chkAll_fsm h1
  constructor
  · intro a b e; subst e
    simp only [chk] at h3
    split at h3
    · rename_i hc; rw [hc.1, hf]
    · simp at h3
  · intro c k st e; subst e
    simp only [chk] at h3
    split at h3
    · rename_i hc; rw [hc.1, hf]
    · simp at h3

/-- after a NOTIFICATION was written on a connection, or read from it, nothing more is written on it. -/
theorem accepted_dead {strict : Bool} {g g' : G} {xs ys : List Out} {o : Out} {c : Nat}
    (h : chkAll strict g (xs ++ o :: ys) = some g')
    (ho : (∃ code sub st, o = .send c (.notification code sub) st) ∨ o = .gotNotification c) :
    ∀ k st, Out.send c k st ∉ ys := by
  obtain ⟨g1, _, h2⟩ := chkAll_split h
  obtain ⟨g2, h3, h4⟩ := chkAll_cons h2
  have hdead : c ∈ g2.dead := by
    rcases ho with ⟨code, sub, st, rfl⟩ | rfl
    · simp only [chk] at h3
      split at h3
      · simp at h3; subst h3; simp
      · simp at h3
    · simp [chk] at h3; subst h3; simp
  intro k st hm
  obtain ⟨zs, ws, rfl⟩ := List.append_of_mem hm
  obtain ⟨g3, h5, h6⟩ := chkAll_split h4
  obtain ⟨g4, h7, _⟩ := chkAll_cons h6
  have : c ∈ g3.dead := chkAll_dead_mono h5 c hdead
  simp only [chk] at h7
  split at h7
  · rename_i hc; exact hc.2.1 this
  · simp at h7

/-- between two API `up` there is a `down`. -/
theorem accepted_up_down {strict : Bool} {g g' : G} {xs ys zs : List Out}
    (h : chkAll strict g (xs ++ Out.up :: ys ++ Out.up :: zs) = some g') : Out.down ∈ ys := by
  rw [List.append_assoc] at h
  obtain ⟨g1, _, h2⟩ := chkAll_split h
  rw [List.cons_append] at h2
  obtain ⟨g2, h3, h4⟩ := chkAll_cons h2
  have hup : g2.up = true := by
    simp only [chk] at h3
    split at h3
    · simp at h3
    · simp at h3; subst h3; rfl
  obtain ⟨g3, h5, h6⟩ := chkAll_split h4
  obtain ⟨g4, h7, _⟩ := chkAll_cons h6
  have hup3 : g3.up = false := by
    simp only [chk] at h7
    split at h7
    · simp at h7
    · rename_i hn; simpa using hn
  -- `up` stays true along ys unless a `down` occurs
  have key : ∀ (ys : List Out) (ga gb : G), chkAll strict ga ys = some gb → ga.up = true → gb.up = false → Out.down ∈ ys := by
    intro ys
    induction ys with
    | nil => intro ga gb e h1 h2; simp [chkAll] at e; subst e; rw [h1] at h2; cases h2
    | cons o os ih =>
      intro ga gb e h1 h2
      obtain ⟨gc, e1, e2⟩ := chkAll_cons e
      cases o with
      | down => simp
      | up => simp only [chk] at e1; rw [h1] at e1; simp at e1
      | fsm a b =>
        simp only [chk] at e1; split at e1 <;> simp at e1; subst e1
        exact List.mem_cons_of_mem _ (ih _ gb e2 h1 h2)
      | send c k st =>
        simp only [chk] at e1
        split at e1
        · simp at e1; subst e1
          exact List.mem_cons_of_mem _ (ih _ gb e2 (by cases k <;> exact h1) h2)
        · simp at e1
      | gotNotification c => simp [chk] at e1; subst e1; exact List.mem_cons_of_mem _ (ih _ gb e2 h1 h2)
      | close c => simp [chk] at e1; subst e1; exact List.mem_cons_of_mem _ (ih _ gb e2 h1 h2)
      | reject c => simp [chk] at e1; subst e1; exact List.mem_cons_of_mem _ (ih _ gb e2 h1 h2)
  exact key ys g2 g3 h5 hup hup3

/-- `closed` only grows by the ids of `close` items. -/
theorem chk_closed {strict : Bool} {g g' : G} {o : Out} (h : chk strict g o = some g') :
    ∀ i ∈ g'.closed, i ∈ g.closed ∨ o = .close i := by
  intro i hi
  cases o with
  | fsm a b => simp only [chk] at h; split at h <;> simp at h; subst h; exact Or.inl hi
  | send c k st =>
    simp only [chk] at h
    split at h
    · simp at h; subst h; cases k <;> exact Or.inl hi
    · simp at h
  | up => simp only [chk] at h; split at h <;> simp at h; subst h; exact Or.inl hi
  | down => simp [chk] at h; subst h; exact Or.inl hi
  | gotNotification c => simp [chk] at h; subst h; exact Or.inl hi
  | close c =>
    simp [chk] at h; subst h
    rcases List.mem_cons.1 hi with rfl | hi
    · exact Or.inr rfl
    · exact Or.inl hi
  | reject c => simp [chk] at h; subst h; exact Or.inl hi

theorem chkAll_closed {strict : Bool} : ∀ {os : List Out} {g g' : G}, chkAll strict g os = some g' →
    ∀ i ∈ g'.closed, i ∈ g.closed ∨ Out.close i ∈ os
  | [], g, g', h => by simp [chkAll] at h; subst h; exact fun _ hi => Or.inl hi
  | o :: os, g, g', h => by
    obtain ⟨g1, h1, h2⟩ := chkAll_cons h
    intro i hi
    rcases chkAll_closed h2 i hi with h3 | h3
    · rcases chk_closed h1 i h3 with h4 | h4
      · exact Or.inl h4
      · exact Or.inr (by rw [h4]; simp)
    · exact Or.inr (List.mem_cons_of_mem _ h3)

/-- every connection the peer ever had is the one it has now, or its `close` is in the trace. -/
theorem run_transports_accounted (cfg : Cfg) (rib : Bool) (evs : List Event) :
    ∀ i, 0 < i → i < (run (init cfg rib) evs).1.nextId →
      (∃ k, (run (init cfg rib) evs).1.conn = some k ∧ k.id = i) ∨ Out.close i ∈ (run (init cfg rib) evs).2 := by
  obtain ⟨g, h, r⟩ := run_acc (strict := false) evs _ g0 (rel_init cfg rib) (inv_init cfg rib)
  intro i h0 hi
  rcases r.accounted i h0 hi with hcur | hcl
  · exact Or.inl hcur
  · rcases chkAll_closed h i hcl with h1 | h1
    · simp [g0] at h1
    · exact Or.inr h1

/-- every run from the initial state passes the strict checker too. -/
theorem run_accepted_strict (cfg : Cfg) (rib : Bool) (evs : List Event) :
    ∃ g, chkAll true g0 (run (init cfg rib) evs).2 = some g := by
  obtain ⟨g, h, _⟩ := run_acc (strict := true) evs _ g0 (rel_init cfg rib) (inv_init cfg rib)
  exact ⟨g, h⟩

/-- every run from the initial state passes the (non-strict) checker. -/
theorem run_accepted (cfg : Cfg) (rib : Bool) (evs : List Event) :
    ∃ g, chkAll false g0 (run (init cfg rib) evs).2 = some g := by
  obtain ⟨g, h, _⟩ := run_acc (strict := false) evs _ g0 (rel_init cfg rib) (inv_init cfg rib)
  exact ⟨g, h⟩

end Exa.Session
