import ExaModel.Lemmas.SessionStep
set_option linter.unusedSimpArgs false
set_option linter.unusedVariables false
/-!
# M-Session — a checker for output traces, and the proof that every run passes it

`chk` reads a trace left to right with a little state of its own (`G`): the FSM state according
to the `fsm a>b` items, whether an API `up` is outstanding, and the connections that are *dead*
for writing (a NOTIFICATION was written on them, or read from them).  It refuses:

* an `fsm a>b` whose `a` is not the state the previous items left, or with `(a, b)` not in the
  RFC 4271 table;
* a write labelled with another state than the trace's, or on a dead connection;
* (`strict` only) an UPDATE / End-of-RIB / ROUTE-REFRESH labelled with a state other than ESTABLISHED;
* an `up` while an `up` is outstanding.

`chkAll_run` : every run of the model passes the non-strict checker; the strict one under the
hypothesis that excludes the stale main loop (finding F30).
-/
namespace Exa.Session

structure G where
  fsm : Fsm
  up : Bool
  dead : List Nat
deriving Repr

def isData : Kind → Bool
  | .update | .eor | .refresh => true
  | _ => false

def chk (strict : Bool) (g : G) : Out → Option G
  | .fsm a b => if a = g.fsm ∧ (a, b) ∈ rfcTable then some { g with fsm := b } else none
  | .send c k st =>
    if st = g.fsm ∧ c ∉ g.dead ∧ (strict = true → isData k = true → st = .established) then
      some (match k with
        | .notification _ _ => { g with dead := c :: g.dead }
        | _ => g)
    else none
  | .up => if g.up then none else some { g with up := true }
  | .down => some { g with up := false }
  | .gotNotification c => some { g with dead := c :: g.dead }
  | .close _ => some g
  | .reject _ => some g

def chkAll (strict : Bool) (g : G) : List Out → Option G
  | [] => some g
  | o :: os => (chk strict g o).bind fun g' => chkAll strict g' os

theorem chkAll_append (strict : Bool) (g : G) (xs ys : List Out) :
    chkAll strict g (xs ++ ys) = (chkAll strict g xs).bind fun g' => chkAll strict g' ys := by
  induction xs generalizing g with
  | nil => rfl
  | cons o os ih =>
    simp only [List.cons_append, chkAll]
    cases chk strict g o with
    | none => rfl
    | some g' => simpa using ih g'

/-- model state and checker state agree; `full`: the connection in use is not dead. -/
structure Rel (full : Bool) (s : State) (g : G) : Prop where
  fsm : g.fsm = s.fsm
  up : g.up = s.isUp
  ids : ∀ i ∈ g.dead, i < s.nextId
  cid : ∀ k, s.conn = some k → k.id < s.nextId
  live : full = true → ∀ k, s.conn = some k → k.id ∉ g.dead

/-- the outputs of `r` pass the checker from `g`, and `Q` holds of where they lead. -/
def Acc (strict : Bool) (g : G) (r : R) (Q : State → G → Prop) : Prop :=
  ∃ g', chkAll strict g r.2 = some g' ∧ Q r.1 g'

theorem Acc.seq {strict : Bool} {g : G} {r : R} {f : State → R} {P Q : State → G → Prop}
    (h1 : Acc strict g r P) (h2 : ∀ g1, P r.1 g1 → Acc strict g1 (f r.1) Q) : Acc strict g (r ⊳ f) Q := by
  obtain ⟨g1, e1, p1⟩ := h1
  obtain ⟨g2, e2, q2⟩ := h2 g1 p1
  exact ⟨g2, by simp [chkAll_append, e1, e2], q2⟩

theorem Acc.mono {strict : Bool} {g : G} {r : R} {P Q : State → G → Prop}
    (h : Acc strict g r P) (hpq : ∀ s g, P s g → Q s g) : Acc strict g r Q := by
  obtain ⟨g1, e1, p1⟩ := h
  exact ⟨g1, e1, hpq _ _ p1⟩

theorem Acc.pure {strict : Bool} {g : G} {s : State} {Q : State → G → Prop} (h : Q s g) :
    Acc strict g (s, []) Q := ⟨g, rfl, h⟩

theorem Rel.weaken {full : Bool} {s : State} {g : G} (h : Rel full s g) : Rel false s g :=
  ⟨h.fsm, h.up, h.ids, h.cid, by simp⟩

/-- a change of the model state which touches none of `fsm`, `isUp`, `nextId`, `conn`. -/
theorem Rel.frame {full : Bool} {s t : State} {g : G} (h : Rel full s g) (h1 : t.fsm = s.fsm) (h2 : t.isUp = s.isUp)
    (h3 : t.nextId = s.nextId) (h4 : t.conn.map Conn.id = s.conn.map Conn.id) : Rel full t g := by
  have key : ∀ k, t.conn = some k → ∃ k', s.conn = some k' ∧ k.id = k'.id := by
    intro k hk
    cases hs : s.conn with
    | none => simp [hs, hk] at h4
    | some k' => exact ⟨k', rfl, by simpa [hs, hk] using h4⟩
  refine ⟨by rw [h.fsm, h1], by rw [h.up, h2], by rw [h3]; exact h.ids, ?_, ?_⟩
  · intro k hk
    obtain ⟨k', hs, e⟩ := key k hk
    rw [e, h3]; exact h.cid k' hs
  · intro hf k hk
    obtain ⟨k', hs, e⟩ := key k hk
    rw [e]; exact h.live hf k' hs

theorem to_idle_rfc (a : Fsm) : (a, Fsm.idle) ∈ rfcTable := by cases a <;> decide

/-! ## the primitives -/

theorem fsmTo_acc {strict full : Bool} {s : State} {g : G} (t : Fsm) (h : Rel full s g) (ht : (s.fsm, t) ∈ rfcTable) :
    Acc strict g (fsmTo t s) (fun s' g' => Rel full s' g' ∧ s' = { s with fsm := t }) := by
  refine ⟨{ g with fsm := t }, ?_, ⟨rfl, h.up, h.ids, h.cid, h.live⟩, rfl⟩
  simp [fsmTo, chkAll, chk, h.fsm, ht]

theorem apiDown_acc {strict full : Bool} {s : State} {g : G} (h : Rel full s g) :
    Acc strict g (apiDown s) (fun s' g' => Rel full s' g' ∧ s'.fsm = s.fsm ∧ s'.conn = s.conn ∧ s'.nextId = s.nextId) := by
  unfold apiDown
  split
  · exact ⟨g, rfl, h, rfl, rfl, rfl⟩
  · exact ⟨{ g with up := false }, by simp [chkAll, chk], ⟨h.fsm, rfl, h.ids, h.cid, h.live⟩, rfl, rfl, rfl⟩

theorem closeConn_acc {strict full : Bool} {s : State} {g : G} (h : Rel full s g) :
    Acc strict g (closeConn s) (fun s' g' => Rel true s' g' ∧ s'.conn = none ∧ s'.fsm = s.fsm) := by
  unfold closeConn
  cases hc : s.conn with
  | none => exact ⟨g, rfl, ⟨h.fsm, h.up, h.ids, by simp [hc], by simp [hc]⟩, hc, rfl⟩
  | some k => exact ⟨g, by simp [chkAll, chk], ⟨h.fsm, h.up, h.ids, by simp, by simp⟩, rfl, rfl⟩

theorem closeP_acc {strict full : Bool} {s : State} {g : G} (h : Rel full s g) :
    Acc strict g (closeP s) (fun s' g' => Rel true s' g' ∧ s'.conn = none ∧ s'.fsm = .idle) := by
  unfold closeP
  refine Acc.seq (Acc.seq (apiDown_acc h) (fun g1 p1 => fsmTo_acc .idle p1.1 (to_idle_rfc _))) ?_
  intro g2 ⟨r2, e2⟩
  refine Acc.mono (closeConn_acc r2) ?_
  intro s' g' ⟨r3, c3, f3⟩
  refine ⟨r3, c3, ?_⟩
  rw [f3, e2]

theorem resetP_acc {strict full : Bool} {s : State} {g : G} (h : Rel full s g) :
    Acc strict g (resetP s) (fun s' g' => Rel true s' g' ∧ s'.conn = none ∧ s'.fsm = .idle) := by
  unfold resetP
  refine Acc.seq (closeP_acc h) ?_
  intro g1 ⟨r1, c1, f1⟩
  split
  · exact Acc.pure ⟨r1.frame rfl rfl rfl rfl, c1, f1⟩
  · exact Acc.pure ⟨r1, c1, f1⟩

theorem stopP_acc {strict full : Bool} {s : State} {g : G} (h : Rel full s g) :
    Acc strict g (stopP s) (fun s' g' => Rel full s' g' ∧ s'.conn = s.conn ∧ s'.fsm = .idle) := by
  unfold stopP
  refine Acc.mono (fsmTo_acc .idle (h.frame (t := { s with teardown := some 3, restart := false }) rfl rfl rfl rfl)
    (to_idle_rfc _)) ?_
  intro s' g' ⟨r, e⟩
  exact ⟨r, by rw [e], by rw [e]⟩

theorem stopIfExhausted_acc {strict full : Bool} {s : State} {g : G} (h : Rel full s g) :
    Acc strict g (stopIfExhausted s) (fun s' g' => Rel full s' g' ∧ s'.conn = s.conn ∧ (s.fsm = .idle → s'.fsm = .idle)) := by
  unfold stopIfExhausted
  split
  · exact Acc.pure ⟨h, rfl, id⟩
  · exact Acc.mono (stopP_acc h) (fun s' g' ⟨r, c, f⟩ => ⟨r, c, fun _ => f⟩)

theorem finish_acc {strict full : Bool} {s : State} {g : G} (h : Rel full s g) :
    Acc strict g (finish s) (fun s' g' => Rel full s' g') :=
  Acc.pure (h.frame rfl rfl rfl rfl)

theorem onNetErr_acc {strict full : Bool} {s : State} {g : G} (h : Rel full s g) :
    Acc strict g (onNetErr s) (fun s' g' => Rel true s' g') := by
  unfold onNetErr
  refine Acc.seq (Acc.seq (stopIfExhausted_acc h) (fun g1 p1 => resetP_acc p1.1)) ?_
  intro g2 ⟨r2, _, _⟩
  exact finish_acc r2

theorem onOther_acc {strict full : Bool} {s : State} {g : G} (h : Rel full s g) :
    Acc strict g (onOther s) (fun s' g' => Rel true s' g') := by
  unfold onOther
  exact Acc.seq (resetP_acc h) (fun g1 p1 => finish_acc p1.1)

theorem onNotification_acc {strict : Bool} {s : State} {g : G} (h : Rel true s g) :
    Acc strict g (onNotification s) (fun s' g' => Rel true s' g') := by
  unfold onNotification
  refine Acc.seq (P := fun s' g' => Rel false s' g') ?_ (fun g1 p1 => onNetErr_acc p1)
  cases hc : s.conn with
  | none => exact ⟨g, rfl, h.weaken⟩
  | some k =>
    refine ⟨{ g with dead := k.id :: g.dead }, by simp [chkAll, chk], h.fsm, h.up, ?_, h.cid, by simp⟩
    intro i hi
    rcases List.mem_cons.1 hi with rfl | hi
    · exact h.cid k hc
    · exact h.ids i hi

end Exa.Session
