import ExaModel.Lemmas.SessionStep
set_option linter.unusedSimpArgs false
set_option linter.unusedVariables false
/-!
# M-Session — a checker for output traces, and the proof that every run passes it

`chk` reads a trace left to right with a little state of its own (`G`): the FSM state according
to the `fsm a>b` items, whether an API `up` is outstanding, and the connections that are *dead*
for writing (a NOTIFICATION was written on them, or read from them).  It refuses:

* an `fsm a>b` whose `a` is not the state the previous items left, or with `(a, b)` not in the
  RFC 4271 table;
* a write labelled with another state than the trace's, or on a dead connection;
* (`strict` only) an UPDATE / End-of-RIB / ROUTE-REFRESH labelled with a state other than ESTABLISHED;
* an `up` while an `up` is outstanding.

`run_acc` : every run of the model passes the checker, strict included (since /repo 3a62d00 the
stale main loop writes nothing).
-/
namespace Exa.Session

structure G where
  fsm : Fsm
  up : Bool
  dead : List Nat
  closed : List Nat := []
deriving Repr

def isData : Kind → Bool
  | .update | .eor | .refresh => true
  | _ => false

def chk (strict : Bool) (g : G) : Out → Option G
  | .fsm a b => if a = g.fsm ∧ (a, b) ∈ rfcTable then some { g with fsm := b } else none
  | .send c k st =>
    if st = g.fsm ∧ c ∉ g.dead ∧ (strict = true → isData k = true → st = .established) then
      some (match k with
        | .notification _ _ => { g with dead := c :: g.dead }
        | _ => g)
    else none
  | .up => if g.up then none else some { g with up := true }
  | .down => some { g with up := false }
  | .gotNotification c => some { g with dead := c :: g.dead }
  | .close c => some { g with closed := c :: g.closed }
  | .reject _ => some g

def chkAll (strict : Bool) (g : G) : List Out → Option G
  | [] => some g
  | o :: os => (chk strict g o).bind fun g' => chkAll strict g' os

theorem chkAll_append (strict : Bool) (g : G) (xs ys : List Out) :
    chkAll strict g (xs ++ ys) = (chkAll strict g xs).bind fun g' => chkAll strict g' ys := by
  induction xs generalizing g with
  | nil => rfl
  | cons o os ih =>
    simp only [List.cons_append, chkAll]
    cases chk strict g o with
    | none => rfl
    | some g' => simpa using ih g'

/-- the checker's `up` is the model's `isUp` as long as the API process lives (once it is gone no
    `down` can be written and no `up` ever follows); `isUp` is only ever set with `neighbor-changes`. -/
@[reducible] def UpRel (s : State) (g : G) : Prop :=
  (s.dead = false → g.up = s.isUp) ∧ (s.isUp = true → s.cfg.changes = true)

/-- model state and checker state agree; `full`: the connection in use is not dead. -/
structure Rel (full : Bool) (s : State) (g : G) : Prop where
  fsm : g.fsm = s.fsm
  up : UpRel s g
  ids : ∀ i ∈ g.dead, i < s.nextId
  cid : ∀ k, s.conn = some k → k.id < s.nextId
  live : full = true → ∀ k, s.conn = some k → k.id ∉ g.dead
  accounted : ∀ i, 0 < i → i < s.nextId → (∃ k, s.conn = some k ∧ k.id = i) ∨ i ∈ g.closed

/-- the outputs of `r` pass the checker from `g`, and `Q` holds of where they lead. -/
def Acc (strict : Bool) (g : G) (r : R) (Q : State → G → Prop) : Prop :=
  ∃ g', chkAll strict g r.2 = some g' ∧ Q r.1 g'

theorem Acc.seq {strict : Bool} {g : G} {r : R} {f : State → R} {P Q : State → G → Prop}
    (h1 : Acc strict g r P) (h2 : ∀ g1, P r.1 g1 → Acc strict g1 (f r.1) Q) : Acc strict g (r ⊳ f) Q := by
  obtain ⟨g1, e1, p1⟩ := h1
  obtain ⟨g2, e2, q2⟩ := h2 g1 p1
  exact ⟨g2, by simp [chkAll_append, e1, e2], q2⟩

theorem Acc.mono {strict : Bool} {g : G} {r : R} {P Q : State → G → Prop}
    (h : Acc strict g r P) (hpq : ∀ s g, P s g → Q s g) : Acc strict g r Q := by
  obtain ⟨g1, e1, p1⟩ := h
  exact ⟨g1, e1, hpq _ _ p1⟩

theorem Acc.pure {strict : Bool} {g : G} {s : State} {Q : State → G → Prop} (h : Q s g) :
    Acc strict g (s, []) Q := ⟨g, rfl, h⟩

theorem Rel.weaken {full : Bool} {s : State} {g : G} (h : Rel full s g) : Rel false s g :=
  ⟨h.fsm, h.up, h.ids, h.cid, by simp, h.accounted⟩

/-- a change of the model state which touches none of `fsm`, `isUp`, `nextId`, `conn`. -/
theorem Rel.frame {full : Bool} {s t : State} {g : G} (h : Rel full s g) (h1 : t.fsm = s.fsm) (h2 : t.isUp = s.isUp)
    (h3 : t.nextId = s.nextId) (h4 : t.conn.map Conn.id = s.conn.map Conn.id)
    (h5 : t.dead = s.dead := by rfl) (h6 : t.cfg = s.cfg := by rfl) : Rel full t g := by
  have key : ∀ k, t.conn = some k → ∃ k', s.conn = some k' ∧ k.id = k'.id := by
    intro k hk
    cases hs : s.conn with
    | none => simp [hs, hk] at h4
    | some k' => exact ⟨k', rfl, by simpa [hs, hk] using h4⟩
  refine ⟨by rw [h.fsm, h1], ⟨by rw [h5, h2]; exact h.up.1, by rw [h2, h6]; exact h.up.2⟩, by rw [h3]; exact h.ids, ?_, ?_, ?_⟩
  · intro k hk
    obtain ⟨k', hs, e⟩ := key k hk
    rw [e, h3]; exact h.cid k' hs
  · intro hf k hk
    obtain ⟨k', hs, e⟩ := key k hk
    rw [e]; exact h.live hf k' hs
  · intro i h0 hi
    rw [h3] at hi
    rcases h.accounted i h0 hi with ⟨k', hs, e⟩ | hcl
    · left
      cases ht : t.conn with
      | none => simp [hs, ht] at h4
      | some k =>
        have hid : k.id = k'.id := by simpa [hs, ht] using h4
        exact ⟨k, rfl, by rw [hid, e]⟩
    · exact Or.inr hcl

theorem to_idle_rfc (a : Fsm) : (a, Fsm.idle) ∈ rfcTable := by cases a <;> decide

/-! ## the primitives -/

theorem fsmTo_acc {strict full : Bool} {s : State} {g : G} (t : Fsm) (h : Rel full s g) (ht : (s.fsm, t) ∈ rfcTable) :
    Acc strict g (fsmTo t s) (fun s' g' => Rel full s' g' ∧ s' = { s with fsm := t }) := by
  refine ⟨{ g with fsm := t }, ?_, ⟨rfl, h.up, h.ids, h.cid, h.live, h.accounted⟩, rfl⟩
  simp [fsmTo, chkAll, chk, h.fsm, ht]

theorem apiDown_acc {strict full : Bool} {s : State} {g : G} (h : Rel full s g) :
    Acc strict g (apiDown s) (fun s' g' => Rel full s' g' ∧ s'.fsm = s.fsm ∧ s'.conn = s.conn ∧ s'.nextId = s.nextId) := by
  unfold apiDown
  split
  · exact ⟨g, rfl, h, rfl, rfl, rfl⟩
  · cases hch : s.cfg.changes <;> cases hdd : s.dead
    · -- no neighbor-changes: nothing is written, and `isUp` was never set
      refine ⟨g, by simp [chkAll, hch], ⟨h.fsm, ⟨?_, by simp⟩, h.ids, h.cid, h.live, h.accounted⟩, rfl, rfl, rfl⟩
      intro _
      have h1 := h.up.1 hdd
      have h2 := h.up.2
      cases hu : s.isUp
      · rw [h1, hu]
      · rw [hch] at h2; exact absurd (h2 hu) (by simp)
    · exact ⟨g, by simp [chkAll, hch], ⟨h.fsm, ⟨by simp [hdd], by simp⟩, h.ids, h.cid, h.live, h.accounted⟩, rfl, rfl, rfl⟩
    · exact ⟨{ g with up := false }, by simp [chkAll, chk, hch, hdd],
        ⟨h.fsm, ⟨fun _ => rfl, by simp⟩, h.ids, h.cid, h.live, h.accounted⟩, rfl, rfl, rfl⟩
    · exact ⟨g, by simp [chkAll, hch, hdd], ⟨h.fsm, ⟨by simp [hdd], by simp⟩, h.ids, h.cid, h.live, h.accounted⟩, rfl, rfl, rfl⟩

theorem closeConn_acc {strict full : Bool} {s : State} {g : G} (h : Rel full s g) :
    Acc strict g (closeConn s) (fun s' g' => Rel true s' g' ∧ s'.conn = none ∧ s'.fsm = s.fsm) := by
  unfold closeConn
  cases hc : s.conn with
  | none => exact ⟨g, rfl, ⟨h.fsm, h.up, h.ids, by simp [hc], by simp [hc], h.accounted⟩, hc, rfl⟩
  | some k =>
    refine ⟨{ g with closed := k.id :: g.closed }, by simp [chkAll, chk], ⟨h.fsm, h.up, h.ids, by simp, by simp, ?_⟩, rfl, rfl⟩
    intro i h0 hi
    rcases h.accounted i h0 hi with ⟨k', hs, e⟩ | hcl
    · rw [hc] at hs; cases hs; exact Or.inr (by simp [e])
    · exact Or.inr (by simp [hcl])

theorem closeP_acc {strict full : Bool} {s : State} {g : G} (h : Rel full s g) :
    Acc strict g (closeP s) (fun s' g' => Rel true s' g' ∧ s'.conn = none ∧ s'.fsm = .idle) := by
  unfold closeP
  refine Acc.seq (Acc.seq (apiDown_acc h) (fun g1 p1 => fsmTo_acc .idle p1.1 (to_idle_rfc _))) ?_
  intro g2 ⟨r2, e2⟩
  refine Acc.mono (closeConn_acc r2) ?_
  intro s' g' ⟨r3, c3, f3⟩
  refine ⟨r3, c3, ?_⟩
  rw [f3, e2]

theorem resetP_acc {strict full : Bool} {s : State} {g : G} (h : Rel full s g) :
    Acc strict g (resetP s) (fun s' g' => Rel true s' g' ∧ s'.conn = none ∧ s'.fsm = .idle) := by
  unfold resetP
  refine Acc.seq (closeP_acc h) ?_
  intro g1 ⟨r1, c1, f1⟩
  split
  · exact Acc.pure ⟨r1.frame rfl rfl rfl rfl, c1, f1⟩
  · exact Acc.pure ⟨r1, c1, f1⟩

theorem stopP_acc {strict full : Bool} {s : State} {g : G} (h : Rel full s g) :
    Acc strict g (stopP s) (fun s' g' => Rel full s' g' ∧ s'.conn = s.conn ∧ s'.fsm = .idle) := by
  unfold stopP
  refine Acc.mono (fsmTo_acc .idle (h.frame (t := { s with teardown := some 3, restart := false }) rfl rfl rfl rfl)
    (to_idle_rfc _)) ?_
  intro s' g' ⟨r, e⟩
  exact ⟨r, by rw [e], by rw [e]⟩

theorem stopIfExhausted_acc {strict full : Bool} {s : State} {g : G} (h : Rel full s g) :
    Acc strict g (stopIfExhausted s) (fun s' g' => Rel full s' g' ∧ s'.conn = s.conn ∧ (s.fsm = .idle → s'.fsm = .idle)) := by
  unfold stopIfExhausted
  split
  · exact Acc.pure ⟨h, rfl, id⟩
  · exact Acc.mono (stopP_acc h) (fun s' g' ⟨r, c, f⟩ => ⟨r, c, fun _ => f⟩)

theorem finish_acc {strict full : Bool} {s : State} {g : G} (h : Rel full s g) :
    Acc strict g (finish s) (fun s' g' => Rel full s' g') :=
  Acc.pure (h.frame rfl rfl rfl rfl)

theorem onNetErr_acc {strict full : Bool} {s : State} {g : G} (h : Rel full s g) :
    Acc strict g (onNetErr s) (fun s' g' => Rel true s' g') := by
  unfold onNetErr
  refine Acc.seq (Acc.seq (stopIfExhausted_acc h) (fun g1 p1 => resetP_acc p1.1)) ?_
  intro g2 ⟨r2, _, _⟩
  exact finish_acc r2

theorem onOther_acc {strict full : Bool} {s : State} {g : G} (h : Rel full s g) :
    Acc strict g (onOther s) (fun s' g' => Rel true s' g') := by
  unfold onOther
  exact Acc.seq (resetP_acc h) (fun g1 p1 => finish_acc p1.1)

theorem onNotification_acc {strict : Bool} {s : State} {g : G} (h : Rel true s g) :
    Acc strict g (onNotification s) (fun s' g' => Rel true s' g') := by
  unfold onNotification
  refine Acc.seq (P := fun s' g' => Rel false s' g') ?_ (fun g1 p1 => onNetErr_acc p1)
  cases hc : s.conn with
  | none => exact ⟨g, rfl, h.weaken⟩
  | some k =>
    refine ⟨{ g with dead := k.id :: g.dead }, by simp [chkAll, chk], h.fsm, h.up, ?_, h.cid, by simp, h.accounted⟩
    intro i hi
    rcases List.mem_cons.1 hi with rfl | hi
    · exact h.cid k hc
    · exact h.ids i hi

/-! ## writes -/

def notNotif : Kind → Bool
  | .notification _ _ => false
  | _ => true

theorem sendOn_none {k : Kind} {s : State} (hc : s.conn = none) : sendOn k s = ((s, []), true) := by
  simp [sendOn, hc]

theorem sendOn_ok {k : Kind} {s : State} {c : Conn} (hc : s.conn = some c) (hr : c.rst = false) :
    sendOn k s = (({ s with conn := some (markSent k c) }, [.send c.id k s.fsm]), true) := by
  simp [sendOn, hc, hr]

theorem sendOn_fail {k : Kind} {s : State} {c : Conn} (hc : s.conn = some c) (hr : c.rst = true) :
    sendOn k s = (({ s with conn := none }, [.send c.id k s.fsm, .close c.id]), false) := by
  simp [sendOn, hc, hr]

theorem markSent_id (k : Kind) (c : Conn) : (markSent k c).id = c.id := by cases k <;> rfl

/-- the checker state after a write of kind `k` on connection `c`. -/
def afterSend (k : Kind) (c : Nat) (g : G) : G :=
  match k with
  | .notification _ _ => { g with dead := c :: g.dead }
  | _ => g

theorem chk_send {strict : Bool} {g : G} {c : Nat} {k : Kind} {st : Fsm} (h1 : st = g.fsm) (h2 : c ∉ g.dead)
    (h3 : strict = true → isData k = true → st = .established) :
    chk strict g (.send c k st) = some (afterSend k c g) := by
  simp only [chk, afterSend]
  rw [if_pos ⟨h1, h2, h3⟩]

theorem afterSend_fsm (k : Kind) (c : Nat) (g : G) : (afterSend k c g).fsm = g.fsm := by cases k <;> rfl
theorem afterSend_up (k : Kind) (c : Nat) (g : G) : (afterSend k c g).up = g.up := by cases k <;> rfl
theorem afterSend_dead (k : Kind) (c : Nat) (g : G) : ∀ i ∈ (afterSend k c g).dead, i = c ∨ i ∈ g.dead := by
  intro i hi
  cases k <;> simp [afterSend] at hi <;> first | exact Or.inr hi | (rcases hi with rfl | hi; exact Or.inl rfl; exact Or.inr hi)
theorem afterSend_closed (k : Kind) (c : Nat) (g : G) : (afterSend k c g).closed = g.closed := by cases k <;> rfl
theorem afterSend_plain {k : Kind} (hk : notNotif k = true) (c : Nat) (g : G) : afterSend k c g = g := by
  cases k <;> simp [notNotif] at hk <;> rfl

theorem sendOn_acc {strict : Bool} {s : State} {g : G} (k : Kind) (h : Rel true s g)
    (hd : strict = true → isData k = true → s.fsm = .established) :
    Acc strict g (sendOn k s).1 (fun s' g' => Rel (notNotif k) s' g' ∧ s'.fsm = s.fsm ∧ s'.isUp = s.isUp ∧
      s'.pc = s.pc ∧ s'.nextId = s.nextId ∧ ((sendOn k s).2 = true → s'.conn.map Conn.id = s.conn.map Conn.id) ∧
      ((sendOn k s).2 = false → s'.conn = none)) := by
  cases hc : s.conn with
  | none =>
    rw [sendOn_none hc]
    exact ⟨g, rfl, ⟨h.fsm, h.up, h.ids, by simp [hc], by simp [hc], h.accounted⟩, rfl, rfl, rfl, rfl, fun _ => by simp [hc], fun _ => hc⟩
  | some c =>
    have hlive : c.id ∉ g.dead := h.live rfl c hc
    have hcid := h.cid c hc
    have hids : ∀ i ∈ (afterSend k c.id g).dead, i < s.nextId := by
      intro i hi
      rcases afterSend_dead k c.id g i hi with rfl | hi
      · exact hcid
      · exact h.ids i hi
    cases hr : c.rst
    · rw [sendOn_ok hc hr]
      refine ⟨afterSend k c.id g, ?_, ⟨?_, ?_, hids, ?_, ?_, ?_⟩, rfl, rfl, rfl, rfl, by simp [hc, markSent_id], by simp⟩
      · simp [chkAll, chk_send h.fsm.symm hlive hd]
      · rw [afterSend_fsm]; exact h.fsm
      · exact ⟨fun hdd => by rw [afterSend_up]; exact h.up.1 hdd, h.up.2⟩
      · intro k' hk'; simp at hk'; subst hk'; rw [markSent_id]; exact hcid
      · intro hk k' hk'; simp at hk'; subst hk'; rw [markSent_id, afterSend_plain hk]; exact hlive
      · intro i h0 hi
        rw [afterSend_closed]
        rcases h.accounted i h0 hi with ⟨k', hs, e⟩ | hcl
        · rw [hc] at hs; cases hs; exact Or.inl ⟨markSent k c, rfl, by rw [markSent_id, e]⟩
        · exact Or.inr hcl
    · rw [sendOn_fail hc hr]
      refine ⟨{ afterSend k c.id g with closed := c.id :: (afterSend k c.id g).closed }, ?_, ⟨?_, ?_, hids, by simp, by simp, ?_⟩, rfl, rfl, rfl, rfl, by simp, by simp⟩
      · show chkAll strict g [Out.send c.id k s.fsm, Out.close c.id] = _
        simp only [chkAll, chk_send h.fsm.symm hlive hd, Option.bind_some]
        rfl
      · show (afterSend k c.id g).fsm = s.fsm
        rw [afterSend_fsm]; exact h.fsm
      · exact ⟨fun hdd => by show (afterSend k c.id g).up = s.isUp; rw [afterSend_up]; exact h.up.1 hdd, h.up.2⟩
      · intro i h0 hi
        show _ ∨ i ∈ c.id :: (afterSend k c.id g).closed
        rw [afterSend_closed]
        rcases h.accounted i h0 hi with ⟨k', hs, e⟩ | hcl
        · rw [hc] at hs; cases hs; exact Or.inr (by simp [e])
        · exact Or.inr (by simp [hcl])

theorem Rel.full_of_plain {k : Kind} {s : State} {g : G} (hk : notNotif k = true) (h : Rel (notNotif k) s g) :
    Rel true s g := by rw [hk] at h; exact h

theorem onNotify_acc {strict : Bool} {s : State} {g : G} (code sub : Nat) (h : Rel true s g) :
    Acc strict g (onNotify code sub s) (fun s' g' => Rel true s' g') := by
  unfold onNotify
  have a1 := sendOn_acc (strict := strict) (.notification code sub) h (by simp [isData])
  have a2 := Acc.seq a1 (fun g1 p1 => resetP_acc p1.1)
  have a3 := Acc.seq a2 (fun g2 p2 => stopIfExhausted_acc p2.1)
  exact Acc.seq a3 (fun g3 p3 => finish_acc p3.1)

/-! ## establishment -/

theorem afterConnect_acc {strict : Bool} {s : State} {g : G} (h : Rel true s g) (hf : s.fsm = .idle) :
    Acc strict g (afterConnect s) (fun s' g' => Rel true s' g') := by
  have h1 : Acc strict g (fsmTo .connect s ⊳ fun t => (sendOn .open t).1)
      (fun s' g' => Rel true s' g' ∧ s'.fsm = .connect) := by
    refine Acc.seq (fsmTo_acc .connect h (by rw [hf]; decide)) ?_
    intro g1 ⟨r1, e1⟩
    refine Acc.mono (sendOn_acc .open r1 (by simp [isData])) ?_
    intro s' g' ⟨r, f, _⟩
    exact ⟨r.full_of_plain rfl, by rw [f, e1]⟩
  unfold afterConnect
  simp only []
  split
  · have a2 := Acc.seq h1 (fun g1 p1 => fsmTo_acc (strict := strict) .opensent p1.1 (by rw [p1.2]; decide))
    exact Acc.seq a2 (fun g2 p2 => Acc.pure (p2.1.frame rfl rfl rfl rfl))
  · exact Acc.seq h1 (fun g1 p1 => onNetErr_acc p1.1)

theorem establish2_acc {strict : Bool} {s : State} {g : G} (h : Rel true s g) :
    Acc strict g (establish2 s) (fun s' g' => Rel true s' g') := by
  unfold establish2
  refine Acc.seq (fsmTo_acc .idle h (to_idle_rfc _)) ?_
  intro g1 ⟨r1, e1⟩
  split
  · exact Acc.pure (r1.frame rfl rfl rfl (by simp [*]))
  · exact afterConnect_acc r1 (by rw [e1])

theorem beginRun_acc {strict : Bool} {s : State} {g : G} (h : Rel true s g) (hf : s.fsm = .idle) :
    Acc strict g (beginRun s) (fun s' g' => Rel true s' g') := by
  unfold beginRun
  refine Acc.seq (fsmTo_acc .active h (by rw [hf]; decide)) ?_
  intro g1 ⟨r1, e1⟩
  split
  · exact Acc.pure (r1.frame rfl rfl rfl rfl)
  · exact establish2_acc r1

theorem enterMain_acc {strict : Bool} {s : State} {g : G} (c : Nat) (h : Rel true s g) (hu : s.isUp = false) :
    Acc strict g (enterMain c s) (fun s' g' => Rel true s' g') := by
  unfold enterMain
  split
  · exact onNotify_acc 6 3 h
  split
  · exact onNotify_acc 6 0 h
  · rename_i hnd
    cases hch : s.cfg.changes
    · refine ⟨g, by simp [chkAll], h.fsm, ⟨?_, by simp⟩, h.ids, h.cid, h.live, h.accounted⟩
      intro hd
      have := h.up.1 hd
      rw [this, hu]
    · have hdd : s.dead = false := by simpa [hch] using hnd
      refine ⟨{ g with up := true }, ?_, h.fsm, ⟨fun _ => rfl, fun _ => hch⟩, h.ids, h.cid, h.live, h.accounted⟩
      have : g.up = false := by rw [h.up.1 hdd, hu]
      simp [chkAll, chk, this]

theorem sendKa_acc {strict : Bool} {s : State} {g : G} (c : Nat) (h : Rel true s g) :
    Acc strict g (sendKa c s) (fun s' g' => Rel true s' g') := by
  unfold sendKa
  simp only []
  have h1 := sendOn_acc (strict := strict) .keepalive h (by simp [isData])
  split
  · refine Acc.seq h1 ?_
    intro g1 ⟨r1, _⟩
    exact Acc.pure ((r1.full_of_plain rfl).frame rfl rfl rfl rfl)
  · exact Acc.seq h1 (fun g1 p1 => onNetErr_acc p1.1)

/-! ## the main loop -/

theorem andSend_acc {strict : Bool} {g : G} {w : W} {f : State → W} {P : State → G → Prop}
    (h1 : Acc strict g w.1 P) (h2 : ∀ g1, P w.1.1 g1 → Acc strict g1 (f w.1.1).1 P) :
    Acc strict g (w.andSend f).1 P := by
  unfold W.andSend
  split
  · exact Acc.seq (f := fun t => (f t).1) h1 h2
  · exact h1

theorem sendIf_acc {strict : Bool} {s : State} {g : G} (c : State → Bool) (k : Kind) (upd : State → State)
    (hk : notNotif k = true) (h : Rel true s g)
    (hupd : ∀ t, (upd t).fsm = t.fsm ∧ (upd t).isUp = t.isUp ∧ (upd t).nextId = t.nextId ∧ (upd t).conn = t.conn ∧
      (upd t).dead = t.dead ∧ (upd t).cfg = t.cfg)
    (hd : strict = true → isData k = true → s.fsm = .established) :
    Acc strict g (sendIf c k upd s).1 (fun s' g' => Rel true s' g' ∧ s'.fsm = s.fsm) := by
  unfold sendIf
  split
  · obtain ⟨u1, u2, u3, u4, u5, u6⟩ := hupd s
    refine Acc.mono (sendOn_acc k (h.frame u1 u2 u3 (by rw [u4]) u5 u6) (by rw [u1]; exact hd)) ?_
    intro s' g' ⟨r, f, _⟩
    exact ⟨r.full_of_plain hk, by rw [f, u1]⟩
  · exact Acc.pure ⟨h, rfl⟩

theorem mainSends_acc {strict : Bool} {s : State} {g : G} (h : Rel true s g)
    (hd : strict = true → s.fsm = .established) :
    Acc strict g (mainSends s).1 (fun s' g' => Rel true s' g' ∧ s'.fsm = s.fsm) := by
  unfold mainSends
  have a1 : Acc strict g (sendIf (fun s => decide (s.refreshQ > 0)) .refresh (fun s => { s with refreshQ := s.refreshQ - 1 }) s).1
      (fun s' g' => Rel true s' g' ∧ s'.fsm = s.fsm) :=
    sendIf_acc _ .refresh _ rfl h (fun t => ⟨rfl, rfl, rfl, rfl, rfl, rfl⟩) (fun hs _ => hd hs)
  have a2 := andSend_acc (f := sendIf (fun s => s.routesPending) .update (fun s => { s with routesPending := false })) a1 (by
    intro g1 ⟨r1, f1⟩
    refine Acc.mono (sendIf_acc _ .update _ rfl r1 (fun t => ⟨rfl, rfl, rfl, rfl, rfl, rfl⟩) (fun hs _ => by rw [f1]; exact hd hs)) ?_
    intro s' g' ⟨r, f⟩; exact ⟨r, by rw [f, f1]⟩)
  exact andSend_acc a2 (by
    intro g1 ⟨r1, f1⟩
    refine Acc.mono (sendIf_acc _ .eor _ rfl r1 (fun t => ⟨rfl, rfl, rfl, rfl, rfl, rfl⟩) (fun hs _ => by rw [f1]; exact hd hs)) ?_
    intro s' g' ⟨r, f⟩; exact ⟨r, by rw [f, f1]⟩)

theorem mainExit_acc {strict : Bool} {s : State} {g : G} (h : Rel true s g) :
    Acc strict g (mainExit s) (fun s' g' => Rel true s' g') := by
  unfold mainExit
  split
  · exact Acc.pure h
  · split
    · exact Acc.seq (closeP_acc h) (fun g1 p1 => onNetErr_acc p1.1)
    · exact onNotify_acc _ _ h

theorem mainTail_acc {strict : Bool} {s : State} {g : G} (h : Rel true s g)
    (hd : strict = true → s.fsm = .established) :
    Acc strict g (mainTail s) (fun s' g' => Rel true s' g') := by
  unfold mainTail
  split
  · exact Acc.seq (mainSends_acc h hd) (fun g1 p1 => mainExit_acc p1.1)
  · exact Acc.seq (mainSends_acc h hd) (fun g1 p1 => onNetErr_acc p1.1)

theorem mainIter_acc {strict : Bool} {s : State} {g : G} (m : Option Msg) (h : Rel true s g)
    (hd : strict = true → s.fsm = .established) :
    Acc strict g (mainIter m s) (fun s' g' => Rel true s' g') := by
  have dflt : Acc strict g (if s.cfg.hold0 = true ∧ m = some .keepalive ∧ s.kaSeen = true then onNotify 2 6 s
      else mainTail (mainPre m s)) (fun s' g' => Rel true s' g') := by
    split
    · exact onNotify_acc _ _ h
    · exact mainTail_acc (h.frame rfl rfl rfl rfl) hd
  unfold mainIter
  split
  · exact onNotify_acc _ _ h
  · exact onNotification_acc h
  · exact onNotify_acc _ _ h
  · exact onNotify_acc _ _ h
  · exact dflt

/-- the stale main loop ends with `Interrupted`: nothing is written. -/
theorem staleIter_acc {strict : Bool} {s : State} {g : G} (h : Rel true s g) :
    Acc strict g (staleIter s) (fun s' g' => Rel true s' g') := onOther_acc h

/-! ## delivery, the events, whole runs -/

theorem markConn_frame {full : Bool} {s : State} {g : G} (f : Conn → Conn) (hf : ∀ k, (f k).id = k.id)
    (h : Rel full s g) : Rel full (markConn f s) g := by
  unfold markConn
  cases hc : s.conn with
  | none => exact h
  | some k => exact h.frame rfl rfl rfl (by simp [hc, hf])

theorem markConn_fsm (f : Conn → Conn) (s : State) : (markConn f s).fsm = s.fsm := by
  unfold markConn; cases s.conn <;> rfl

theorem markConn_isUp (f : Conn → Conn) (s : State) : (markConn f s).isUp = s.isUp := by
  unfold markConn; cases s.conn <;> rfl

theorem deliverAlive_acc {strict : Bool} {s : State} {g : G} (m : Msg) (h : Rel true s g) (hinv : Inv s)
    (c : Nat) (k : Conn) (haw : awaited s = some c) (hc : s.conn = some k) (hk : k.id = c) :
    Acc strict g (deliverAlive m s) (fun s' g' => Rel true s' g') := by
  cases hp : s.pc with
  | awaitOpen c' =>
    have hcc : c' = c := by simpa [awaited, hp] using haw
    subst hcc
    have hf := (hinv.awaitOpen _ k hp hc hk).1
    unfold deliverAlive; rw [hp]; simp only []
    cases m with
    | openOk low =>
      simp only []
      refine Acc.seq (fsmTo_acc .openconfirm (markConn_frame _ (fun _ => rfl) h) (by rw [markConn_fsm, hf]; decide)) ?_
      intro g1 ⟨r1, _⟩
      exact sendKa_acc _ r1
    | bad f => exact onNotify_acc _ _ h
    | operational => exact onNotify_acc _ _ h
    | notification => exact onNotification_acc h
    | openSem e => exact onNotify_acc _ _ h
    | keepalive => exact onNotify_acc _ _ h
    | update => exact onNotify_acc _ _ h
    | refresh => exact onNotify_acc _ _ h
  | awaitKa c' =>
    have hcc : c' = c := by simpa [awaited, hp] using haw
    subst hcc
    have hf := (hinv.awaitKa _ k hp hc hk).1
    have hu : s.isUp = false := hinv.isUp_false (by rw [hp]; simp) (by rw [hf]; simp)
    unfold deliverAlive; rw [hp]; simp only []
    cases m with
    | keepalive =>
      simp only []
      refine Acc.seq (fsmTo_acc .established (markConn_frame _ (fun _ => rfl) h) (by rw [markConn_fsm, hf]; decide)) ?_
      intro g1 ⟨r1, e1⟩
      exact enterMain_acc _ r1 (by rw [e1]; simp [markConn_isUp, hu])
    | bad f => exact onNotify_acc _ _ h
    | operational => exact onNotify_acc _ _ h
    | notification => exact onNotification_acc h
    | openSem e => exact onNotify_acc _ _ h
    | openOk l => exact onNotify_acc _ _ h
    | update => exact onNotify_acc _ _ h
    | refresh => exact onNotify_acc _ _ h
  | mainLoop c' =>
    have hcc : c' = c := by simpa [awaited, hp] using haw
    subst hcc
    have hf := (hinv.main _ k hp hc hk).1
    unfold deliverAlive; rw [hp]
    exact mainIter_acc _ h (fun _ => hf)
  | backoff => simp [awaited, hp] at haw
  | done => simp [awaited, hp] at haw
  | passiveWait => simp [awaited, hp] at haw
  | connecting => simp [awaited, hp] at haw

/-- `ProcessError`: a NOTIFICATION that was read marks its connection; nothing is written. -/
theorem onProcessError_acc {strict : Bool} {s : State} {g : G} (m : Msg) (h : Rel true s g) :
    Acc strict g (onProcessError m s) (fun s' g' => Rel true s' g') := by
  unfold onProcessError
  refine Acc.seq (P := fun s' g' => Rel false s' g') ?_ (fun g1 p1 => onOther_acc p1)
  cases hc : s.conn with
  | none => cases m <;> exact ⟨g, rfl, h.weaken⟩
  | some k =>
    cases m with
    | notification =>
      refine ⟨{ g with dead := k.id :: g.dead }, by simp [chkAll, chk], h.fsm, h.up, ?_, h.cid, by simp, h.accounted⟩
      intro i hi
      rcases List.mem_cons.1 hi with rfl | hi
      · exact h.cid k hc
      · exact h.ids i hi
    | _ => exact ⟨g, rfl, h.weaken⟩

theorem deliver_acc {strict : Bool} {s : State} {g : G} (m : Msg) (h : Rel true s g) (hinv : Inv s)
    (c : Nat) (k : Conn) (haw : awaited s = some c) (hc : s.conn = some k) (hk : k.id = c) :
    Acc strict g (deliver m s) (fun s' g' => Rel true s' g') := by
  unfold deliver
  split
  · exact onProcessError_acc m h
  · exact deliverAlive_acc m h hinv c k haw hc hk

theorem readErr_acc {strict : Bool} {s : State} {g : G} (h : Rel true s g) :
    Acc strict g (readErr s) (fun s' g' => Rel true s' g') := by
  unfold readErr
  exact Acc.seq (closeConn_acc h) (fun g1 p1 => onNetErr_acc p1.1)

theorem advance_acc {strict : Bool} : ∀ (n : Nat) (s : State) (g : G), Rel true s g → Inv s →
    Acc strict g (advance n s) (fun s' g' => Rel true s' g')
  | 0, s, g, h, _ => Acc.pure h
  | n + 1, s, g, h, hinv => by
    unfold advance
    cases haw : awaited s with
    | none => exact Acc.pure h
    | some c =>
      cases hc : s.conn with
      | none => exact Acc.pure h
      | some k =>
        simp only []
        by_cases hk : k.id = c
        · rw [if_pos hk]
          cases hi : k.inbox with
          | nil =>
            simp only []
            split
            · exact readErr_acc h
            · exact Acc.pure h
          | cons m rest =>
            simp only []
            have hinv' : Inv { s with conn := some { k with inbox := rest } } :=
              hinv.congr rfl rfl (by simp [hc, Conn.hist]) rfl rfl
            have h' : Rel true { s with conn := some { k with inbox := rest } } g :=
              h.frame rfl rfl rfl (by simp [hc])
            refine Acc.seq (deliver_acc m h' hinv' c { k with inbox := rest } (by simpa [awaited] using haw) rfl hk) ?_
            intro g1 r1
            exact advance_acc n _ g1 r1 (deliver_inv m _ hinv' c { k with inbox := rest } (by simpa [awaited] using haw) rfl hk)
        · rw [if_neg hk]; exact Acc.pure h

theorem Rel.adopt {s : State} {g : G} (h : Rel true s g) (hc : s.conn = none) :
    Rel true { s with conn := some { id := s.nextId }, nextId := s.nextId + 1 } g := by
  refine ⟨h.fsm, h.up, fun i hi => Nat.lt_succ_of_lt (h.ids i hi), ?_, ?_, ?_⟩
  · intro k hk; simp at hk; subst hk; simp
  · intro _ k hk; simp at hk; subst hk
    intro hd; exact Nat.lt_irrefl _ (h.ids _ hd)
  · intro i h0 hi
    by_cases hlt : i < s.nextId
    · rcases h.accounted i h0 hlt with ⟨k', hs, _⟩ | hcl
      · rw [hc] at hs; cases hs
      · exact Or.inr hcl
    · exact Or.inl ⟨{ id := s.nextId }, rfl, by simp at hi ⊢; omega⟩

theorem passiveCont_acc {strict : Bool} {t : State} {g : G} (h : Rel true t g) :
    Acc strict g (if t.pc = .passiveWait then establish2 t else (t, [])) (fun s' g' => Rel true s' g') := by
  split
  · exact establish2_acc h
  · exact Acc.pure h

theorem adopt_acc {strict : Bool} {s : State} {g : G} (h : Rel true s g) :
    Acc strict g (adopt s) (fun s' g' => Rel true s' g') := by
  unfold adopt
  have a1 : Acc strict g (if s.conn.isSome then closeP s else (s, []))
      (fun s' g' => Rel true s' g' ∧ s'.conn = none) := by
    cases hc : s.conn with
    | none => simpa using Acc.pure (strict := strict) ⟨h, hc⟩
    | some k =>
      simp only [Option.isSome_some, if_true]
      exact Acc.mono (closeP_acc h) (fun s' g' ⟨r, c, _⟩ => ⟨r, c⟩)
  have a2 := Acc.seq (f := fun (t : State) => (({ t with conn := some { id := t.nextId }, nextId := t.nextId + 1 }, []) : R))
    a1 (fun g1 p1 => Acc.pure (p1.1.adopt p1.2))
  exact Acc.seq a2 (fun g2 r2 => passiveCont_acc r2)

/-- two checker states which differ by one more closed id in the second. -/
structure GPlus (c : Nat) (ga gb : G) : Prop where
  fsm : ga.fsm = gb.fsm
  up : ga.up = gb.up
  dead : ga.dead = gb.dead
  closed : ∀ i, i ∈ gb.closed ↔ i = c ∨ i ∈ ga.closed

theorem chk_gplus {strict : Bool} {c : Nat} {ga gb gb' : G} {o : Out} (h : GPlus c ga gb)
    (e : chk strict gb o = some gb') : ∃ ga', chk strict ga o = some ga' ∧ GPlus c ga' gb' := by
  obtain ⟨h1, h2, h3, h4⟩ := h
  cases o with
  | fsm a b =>
    simp only [chk] at e
    split at e
    · rename_i hc; simp at e; subst e
      refine ⟨{ ga with fsm := b }, ?_, ⟨rfl, h2, h3, h4⟩⟩
      simp only [chk]; rw [if_pos (by rw [h1]; exact hc)]
    · simp at e
  | send k kind st =>
    simp only [chk] at e
    split at e
    · rename_i hc; simp at e; subst e
      refine ⟨(match kind with | .notification _ _ => { ga with dead := k :: ga.dead } | _ => ga), ?_, ?_⟩
      · simp only [chk]; rw [if_pos (by rw [h1, h3]; exact hc)]; cases kind <;> rfl
      · cases kind <;> exact ⟨h1, h2, by simp [h3], h4⟩
    · simp at e
  | up =>
    simp only [chk] at e
    split at e
    · simp at e
    · rename_i hc; simp at e; subst e
      refine ⟨{ ga with up := true }, ?_, ⟨h1, rfl, h3, h4⟩⟩
      simp only [chk]; rw [if_neg (by rw [h2]; exact hc)]
  | down => simp [chk] at e; subst e; exact ⟨{ ga with up := false }, by simp [chk], ⟨h1, rfl, h3, h4⟩⟩
  | gotNotification k =>
    simp [chk] at e; subst e
    exact ⟨{ ga with dead := k :: ga.dead }, by simp [chk], ⟨h1, h2, by simp [h3], h4⟩⟩
  | close k =>
    simp [chk] at e; subst e
    refine ⟨{ ga with closed := k :: ga.closed }, by simp [chk], ⟨h1, h2, h3, ?_⟩⟩
    intro i; simp only [List.mem_cons, h4 i]
    constructor
    · rintro (h | h | h) <;> simp [h]
    · rintro (h | h | h) <;> simp [h]
  | reject k => simp [chk] at e; subst e; exact ⟨ga, by simp [chk], ⟨h1, h2, h3, h4⟩⟩

theorem chkAll_gplus {strict : Bool} {c : Nat} : ∀ {os : List Out} {ga gb gb' : G}, GPlus c ga gb →
    chkAll strict gb os = some gb' → ∃ ga', chkAll strict ga os = some ga' ∧ GPlus c ga' gb'
  | [], ga, gb, gb', h, e => by simp [chkAll] at e; subst e; exact ⟨ga, rfl, h⟩
  | o :: os, ga, gb, gb', h, e => by
    simp only [chkAll] at e ⊢
    cases h1 : chk strict gb o with
    | none => simp [h1] at e
    | some gb1 =>
      obtain ⟨ga1, e1, p1⟩ := chk_gplus h h1
      obtain ⟨ga', e2, p2⟩ := chkAll_gplus p1 (by simpa [h1] using e)
      exact ⟨ga', by simpa [e1] using e2, p2⟩

/-- a connection that was made but never became `peer.proto`: it has an id, and its `close` comes
    after whatever `f` does meanwhile. -/
theorem dropped_acc {strict : Bool} {s : State} {g : G} {f : State → R} (h : Rel true s g)
    (hf : ∀ g1, Rel true { s with nextId := s.nextId + 1 } g1 →
      Acc strict g1 (f { s with nextId := s.nextId + 1 }) (fun s' g' => Rel true s' g')) :
    Acc strict g (f { s with nextId := s.nextId + 1 } ⊳ fun t => (t, [.close s.nextId])) (fun s' g' => Rel true s' g') := by
  have r1 : Rel true { s with nextId := s.nextId + 1 } { g with closed := s.nextId :: g.closed } := by
    refine ⟨h.fsm, h.up, fun i hi => Nat.lt_succ_of_lt (h.ids i hi), ?_, h.live, ?_⟩
    · intro k hk; exact Nat.lt_succ_of_lt (h.cid k hk)
    · intro i h0 hi
      by_cases hlt : i < s.nextId
      · rcases h.accounted i h0 hlt with hcur | hcl
        · exact Or.inl hcur
        · exact Or.inr (by simp [hcl])
      · exact Or.inr (by simp at hi ⊢; omega)
  obtain ⟨gb', eb, rb⟩ := hf _ r1
  have hplus : GPlus s.nextId g { g with closed := s.nextId :: g.closed } :=
    ⟨rfl, rfl, rfl, fun i => List.mem_cons⟩
  obtain ⟨ga', ea, pa⟩ := chkAll_gplus hplus eb
  refine ⟨{ ga' with closed := s.nextId :: ga'.closed }, ?_, ?_⟩
  · simp [andThen_snd, chkAll_append, ea, chkAll, chk]
  · simp only [andThen_fst]
    refine ⟨by rw [← rb.fsm]; exact pa.fsm, ⟨fun hd => by rw [← rb.up.1 hd]; exact pa.up, rb.up.2⟩, ?_, rb.cid, ?_, ?_⟩
    · intro i hi; exact rb.ids i (by rw [← pa.dead]; exact hi)
    · intro hfull k hk; have := rb.live hfull k hk; rw [← pa.dead] at this; exact this
    · intro i h0 hi
      rcases rb.accounted i h0 hi with hcur | hcl
      · exact Or.inl hcur
      · exact Or.inr (by simpa [List.mem_cons] using (pa.closed i).1 hcl)

/-- a connection that is refused (or dropped) right away: it gets an id, `reject` and `close`. -/
theorem rejected_acc {strict : Bool} {s : State} {g : G} (h : Rel true s g) :
    Acc strict g (({ s with nextId := s.nextId + 1 }, [.reject s.nextId, .close s.nextId]) : R)
      (fun s' g' => Rel true s' g') := by
  refine ⟨{ g with closed := s.nextId :: g.closed }, by simp [chkAll, chk], h.fsm, h.up,
    fun i hi => Nat.lt_succ_of_lt (h.ids i hi), ?_, h.live, ?_⟩
  · intro k hk; exact Nat.lt_succ_of_lt (h.cid k hk)
  · intro i h0 hi
    by_cases hlt : i < s.nextId
    · rcases h.accounted i h0 hlt with hcur | hcl
      · exact Or.inl hcur
      · exact Or.inr (by simp [hcl])
    · exact Or.inr (by simp at hi ⊢; omega)

theorem handleConnection_acc {strict : Bool} {s : State} {g : G} (h : Rel true s g) :
    Acc strict g (handleConnection s) (fun s' g' => Rel true s' g') := by
  unfold handleConnection
  split
  · exact rejected_acc h
  split
  · -- `processes.connected` raises: the old transport is closed, the new connection dropped
    have a1 : Acc strict g (if s.conn.isSome then closeP s else (s, []))
        (fun s' g' => Rel true s' g') := by
      cases hc : s.conn with
      | none => simpa using Acc.pure (strict := strict) h
      | some k =>
        simp only [Option.isSome_some, if_true]
        exact Acc.mono (closeP_acc h) (fun s' g' p => p.1)
    refine Acc.seq a1 ?_
    intro g1 r1
    exact rejected_acc r1
  · exact adopt_acc h

theorem drainMain_acc {strict : Bool} : ∀ (n : Nat) (s : State) (g : G), Rel true s g → Inv s →
    Acc strict g (drainMain n s) (fun s' g' => Rel true s' g')
  | 0, s, g, h, _ => Acc.pure h
  | n + 1, s, g, h, hinv => by
    unfold drainMain
    cases hp : s.pc with
    | mainLoop c =>
      simp only []
      cases hc : s.conn with
      | none => exact staleIter_acc h
      | some k =>
        simp only []
        by_cases hk : k.id = c
        · rw [if_pos hk]
          have hf := (hinv.main c k hp hc hk).1
          refine Acc.seq (mainIter_acc none h (fun _ => hf)) ?_
          intro g1 r1
          exact drainMain_acc n _ g1 r1 (mainIter_inv _ s hinv hf)
        · rw [if_neg hk]
          refine Acc.seq (staleIter_acc h) ?_
          intro g1 r1
          exact drainMain_acc n _ g1 r1 (staleIter_inv s hinv (by rw [hp]; simp))
    | backoff => exact Acc.pure h
    | done => exact Acc.pure h
    | passiveWait => exact Acc.pure h
    | connecting => exact Acc.pure h
    | awaitOpen c => exact Acc.pure h
    | awaitKa c => exact Acc.pure h

theorem react_acc {strict : Bool} {s : State} {g : G} (e : Event) (h : Rel true s g) (hinv : Inv s) :
    Acc strict g (react s e) (fun s' g' => Rel true s' g') := by
  cases e with
  | start =>
    simp only [react]
    split
    · rename_i hp
      split
      · exact beginRun_acc h (hinv.backoffIdle hp)
      · exact Acc.pure (h.frame rfl rfl rfl rfl)
    · exact Acc.pure h
  | connectOk =>
    simp only [react]
    split
    · rename_i hp
      have hf := hinv.connectingIdle hp
      split
      · -- `processes.connected` raises: `_reset`, the connection just made is dropped
        exact dropped_acc h (fun g1 r1 => onOther_acc r1)
      refine Acc.seq (P := fun s' g' => Rel true s' g' ∧ s'.fsm = .idle) ?_ (fun g1 p1 => afterConnect_acc p1.1 p1.2)
      cases hc : s.conn with
      | none =>
        refine ⟨g, rfl, ⟨h.fsm, h.up, fun i hi => Nat.lt_succ_of_lt (h.ids i hi), ?_, ?_, ?_⟩, hf⟩
        · intro k hk; simp at hk; subst hk; simp
        · intro _ k hk; simp at hk; subst hk
          intro hd; exact Nat.lt_irrefl _ (h.ids _ hd)
        · intro i h0 hi
          by_cases hlt : i < s.nextId
          · rcases h.accounted i h0 hlt with ⟨k', hs, _⟩ | hcl
            · rw [hc] at hs; cases hs
            · exact Or.inr hcl
          · exact Or.inl ⟨{ id := s.nextId }, rfl, by simp at hi ⊢; omega⟩
      | some old =>
        refine ⟨{ g with closed := old.id :: g.closed }, by simp [chkAll, chk],
          ⟨h.fsm, h.up, fun i hi => Nat.lt_succ_of_lt (h.ids i hi), ?_, ?_, ?_⟩, hf⟩
        · intro k hk; simp at hk; subst hk; simp
        · intro _ k hk; simp at hk; subst hk
          intro hd; exact Nat.lt_irrefl _ (h.ids _ hd)
        · intro i h0 hi
          by_cases hlt : i < s.nextId
          · rcases h.accounted i h0 hlt with ⟨k', hs, e⟩ | hcl
            · rw [hc] at hs; cases hs; exact Or.inr (by simp [e])
            · exact Or.inr (by simp [hcl])
          · exact Or.inl ⟨{ id := s.nextId }, rfl, by simp at hi ⊢; omega⟩
    · exact Acc.pure h
  | connectFail =>
    simp only [react]
    split
    · refine Acc.seq (P := fun s' g' => Rel true s' g') ?_ (fun g1 p1 => onOther_acc p1)
      split
      · exact Acc.mono (closeP_acc h) (fun s' g' p => p.1)
      · exact Acc.pure h
    · exact Acc.pure h
  | incoming => exact handleConnection_acc h
  | recv c m =>
    simp only [react]
    cases hc : s.conn with
    | none => exact Acc.pure h
    | some k =>
      simp only []
      split
      · exact Acc.pure (h.frame rfl rfl rfl (by simp [hc]))
      · exact Acc.pure h
  | eof c =>
    simp only [react]
    cases hc : s.conn with
    | none => exact Acc.pure h
    | some k =>
      simp only []
      split
      · exact Acc.pure (h.frame rfl rfl rfl (by simp [hc]))
      · exact Acc.pure h
  | sockError c =>
    simp only [react]
    cases hc : s.conn with
    | none => exact Acc.pure h
    | some k =>
      simp only []
      split
      · exact Acc.pure (h.frame rfl rfl rfl (by simp [hc]))
      · exact Acc.pure h
  | openwaitExpired =>
    simp only [react]
    split
    · exact onNotify_acc _ _ h
    · exact Acc.pure h
  | holdExpired =>
    simp only [react]
    split
    · rename_i c hp
      split
      · exact Acc.pure h
      · refine Acc.seq (drainMain_acc _ s g h hinv) ?_
        intro g1 r1
        split
        · exact onNotify_acc _ _ r1
        · exact Acc.pure r1
    · split
      · exact Acc.pure h
      · exact onNotify_acc _ _ h
    · exact Acc.pure h
  | tick =>
    simp only [react]
    split
    · rename_i c hp
      cases hc : s.conn with
      | none => exact staleIter_acc h
      | some k =>
        simp only []
        split
        · rename_i hk
          exact mainIter_acc _ h (fun _ => (hinv.main c k hp hc hk).1)
        · exact staleIter_acc h
    · exact Acc.pure h
  | teardown code => exact Acc.pure (h.frame rfl rfl rfl rfl)
  | reestablish => exact Acc.pure (h.frame rfl rfl rfl rfl)
  | stop =>
    simp only [react]
    refine Acc.seq (P := fun s' g' => Rel true s' g') ?_ (fun g1 p1 => Acc.mono (stopP_acc p1) (fun s' g' p => p.1))
    split
    · exact Acc.mono (closeP_acc h) (fun s' g' p => p.1)
    · exact Acc.pure h
  | queueRefresh => exact Acc.pure (h.frame rfl rfl rfl rfl)
  | announce => exact Acc.pure (h.frame rfl rfl rfl rfl)
  | apiDies => exact Acc.pure ⟨h.fsm, ⟨by simp, h.up.2⟩, h.ids, h.cid, h.live, h.accounted⟩

theorem step_acc {strict : Bool} {s : State} {g : G} (e : Event) (h : Rel true s g) (hinv : Inv s) :
    Acc strict g (step s e) (fun s' g' => Rel true s' g') := by
  unfold step
  refine Acc.seq (react_acc e h hinv) ?_
  intro g1 r1
  exact advance_acc _ _ g1 r1 (react_inv s e hinv)

theorem run_acc {strict : Bool} : ∀ (evs : List Event) (s : State) (g : G), Rel true s g → Inv s →
    Acc strict g (run s evs) (fun s' g' => Rel true s' g')
  | [], s, g, h, _ => Acc.pure h
  | e :: es, s, g, h, hinv => by
    unfold run
    refine Acc.seq (step_acc e h hinv) ?_
    intro g1 r1
    exact run_acc es _ g1 r1 (step_inv s e hinv)

def g0 : G := { fsm := .idle, up := false, dead := [] }

theorem rel_init (cfg : Cfg) (rib : Bool) : Rel true (init cfg rib) g0 :=
  ⟨rfl, ⟨fun _ => rfl, by simp [init]⟩, by simp [g0], by simp [init], by simp [init], by intro i h0 hi; simp [init] at hi; omega⟩

end Exa.Session
