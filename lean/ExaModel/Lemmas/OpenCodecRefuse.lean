import ExaModel.Lemmas.OpenCodecFrame
set_option linter.unusedSimpArgs false
set_option linter.unusedVariables false
/-! Refusals decided while decoding: a parameter that is not a Capabilities parameter, met after
    any number of well-formed capability parameters. -/
namespace Exa.Open

/-- the optional-parameter block around raw parameter octets `p` -/
def optRaw (ext : Bool) (p : Bytes) : Bytes :=
  if ext then [255, 255] ++ be16 p.length ++ p else [p.length] ++ p

/-- an OPEN body (version 4) with raw parameter octets -/
def openRaw (ext : Bool) (myAs hold bgpId : Nat) (p : Bytes) : Bytes :=
  encFixed 4 myAs hold bgpId ++ optRaw ext p

/-- one optional parameter of type `k` with value `v` -/
def rawParam (ext : Bool) (k : Nat) (v : Bytes) : Bytes :=
  (if ext then [k] ++ be16 v.length else [k, v.length]) ++ v

theorem decodeOptional_raw (ext : Bool) (p : Bytes) (hl : p.length < (if ext then 65536 else 255)) :
    decodeOptional (optRaw ext p) = walkParams ext (p.length + 1) p := by
  cases ext with
  | true =>
    simp only [if_true] at hl
    have r := rd16_be16 p.length hl p
    have d2 : List.drop 2 (be16 p.length ++ p) = p := List.drop_left' (by simp)
    have e : optRaw true p = 255 :: 255 :: (be16 p.length ++ p) := by simp [optRaw]
    rw [e]
    simp [decodeOptional, r, d2]
    rw [if_neg (by omega), if_neg (by omega)]
  | false =>
    simp only [if_false, Bool.false_eq_true] at hl
    have h255 : p.length ≠ 255 := by omega
    simp [optRaw, decodeOptional, h255]

theorem decodeOpen_raw (ext : Bool) (myAs hold bgpId : Nat) (p : Bytes)
    (hf : wfFixed myAs hold bgpId = true) (hl : p.length < (if ext then 65536 else 255)) :
    decodeOpen (openRaw ext myAs hold bgpId p) =
      match walkParams ext (p.length + 1) p with
      | .error e => .error e
      | .ok caps => .ok { version := 4, myAs := myAs, hold := hold, bgpId := bgpId, caps := caps } := by
  simp only [wfFixed, Bool.and_eq_true, decide_eq_true_eq] at hf
  obtain ⟨⟨h1, h2⟩, h3⟩ := hf
  have ho := decodeOptional_raw ext p hl
  have hp : 0 < (optRaw ext p).length := by cases ext <;> simp [optRaw]
  simp only [openRaw, encFixed]
  generalize optRaw ext p = opt at *
  have e : [4] ++ be16 myAs ++ be16 hold ++ be32 bgpId ++ opt
      = 4 :: (be16 myAs ++ (be16 hold ++ (be32 bgpId ++ opt))) := by simp
  rw [e]
  have r1 := rd16_be16 myAs h1 (be16 hold ++ (be32 bgpId ++ opt))
  have r2 := rd16_be16 hold h2 (be32 bgpId ++ opt)
  have r3 := rd32_be32 bgpId h3 opt
  have d1 : List.drop 1 (4 :: (be16 myAs ++ (be16 hold ++ (be32 bgpId ++ opt))))
      = be16 myAs ++ (be16 hold ++ (be32 bgpId ++ opt)) := by simp
  have d3 : List.drop 3 (4 :: (be16 myAs ++ (be16 hold ++ (be32 bgpId ++ opt))))
      = be16 hold ++ (be32 bgpId ++ opt) := by simp [be16]
  have d5 : List.drop 5 (4 :: (be16 myAs ++ (be16 hold ++ (be32 bgpId ++ opt))))
      = be32 bgpId ++ opt := by simp [be16]
  have d9 : List.drop 9 (4 :: (be16 myAs ++ (be16 hold ++ (be32 bgpId ++ opt)))) = opt := by simp [be16, be32]
  have len : ¬ (4 :: (be16 myAs ++ (be16 hold ++ (be32 bgpId ++ opt)))).length < 10 := by
    simp only [List.length_cons, List.length_append, be16_length, be32_length]; omega
  simp only [decodeOpen, if_neg len, d1, d3, d5, d9, r1, r2, r3, ho]
  cases walkParams ext (p.length + 1) p <;> simp

/-- What the walk answers on a well-framed parameter whose type is not 2. -/
theorem walkParams_other (ext : Bool) (k : Nat) (v tail : Bytes) (hk : k ≠ 2)
    (hv : v.length < (if ext then 65536 else 256)) (fuel : Nat) :
    walkParams ext (fuel + 1) (rawParam ext k v ++ tail) = .error (if k = 1 then ⟨2, 5⟩ else ⟨2, 4⟩) := by
  cases ext with
  | false =>
    have e : rawParam false k v ++ tail = k :: v.length :: (v ++ tail) := by simp [rawParam]
    rw [e]
    by_cases h1 : k = 1 <;> simp [walkParams, hk, h1]
    all_goals rw [if_neg (by omega), if_neg (by omega)]
  | true =>
    simp only [if_true] at hv
    have e : rawParam true k v ++ tail = k :: (be16 v.length ++ (v ++ tail)) := by simp [rawParam]
    have r := rd16_be16 v.length hv (v ++ tail)
    rw [e]
    by_cases h1 : k = 1 <;> simp [walkParams, hk, h1, r]
    all_goals rw [if_neg (by omega), if_neg (by omega)]

/-- After any well-formed capability parameters, a well-framed parameter of another type ends
    the decoding: 2/5 for type 1 (Authentication Information), 2/4 for every other type (RFC 4271 §6.2). -/
theorem decodeOpen_other_param (ext : Bool) (myAs hold bgpId : Nat) (gs : List (List Cap)) (k : Nat) (v tail : Bytes)
    (hf : wfFixed myAs hold bgpId = true) (hg : gs.all (wfGroup ext) = true) (hk : k ≠ 2)
    (hv : v.length < (if ext then 65536 else 256))
    (hl : (encParams ext gs ++ (rawParam ext k v ++ tail)).length < (if ext then 65536 else 255)) :
    decodeOpen (openRaw ext myAs hold bgpId (encParams ext gs ++ (rawParam ext k v ++ tail)))
      = .error (if k = 1 then ⟨2, 5⟩ else ⟨2, 4⟩) := by
  rw [decodeOpen_raw ext myAs hold bgpId _ hf hl]
  have lp := length_le_encParams ext gs
  have hfuel : gs.length ≤ (encParams ext gs ++ (rawParam ext k v ++ tail)).length + 1 := by
    simp only [List.length_append]; omega
  rw [walkParams_enc_append ext gs hg _ _ hfuel]
  have hpos : ∃ f, (encParams ext gs ++ (rawParam ext k v ++ tail)).length + 1 - gs.length = f + 1 := by
    refine ⟨(encParams ext gs ++ (rawParam ext k v ++ tail)).length - gs.length, ?_⟩
    simp only [List.length_append] at *; omega
  obtain ⟨f, hf'⟩ := hpos
  rw [hf', walkParams_other ext k v tail hk hv f]
  simp [mapOk]

end Exa.Open
