import ExaModel.Model.Wire
import ExaModel.Lemmas.WireTlv
set_option linter.unusedSimpArgs false
/-! C03 — every error the reference decoder returns comes from one of a finite list of sites, each
    of which names a literal (code, subcode). Case analysis of the decoder, bottom up. -/
namespace Exa.Wire
open Exa

/-- The (code, subcode) pairs that occur as literals in `Model/Wire*.lean`. -/
def errSites : List Err :=
  [(1, 2), (3, 1), (3, 2), (3, 3), (3, 4), (3, 5), (3, 6), (3, 9), (3, 10), (3, 11)]

theorem decPathId_err (ap : Bool) (bs : Bytes) (e : Err) (h : decPathId ap bs = .error e) : e = (3, 10) := by
  unfold decPathId at h
  cases ap with
  | false => simp at h
  | true =>
    by_cases c : bs.length < 4
    · simp [c] at h; exact h.symm
    · simp [c] at h

theorem decLabels_err (safi : Nat) (wd : Bool) (len : Nat) (bs : Bytes) (e : Err)
    (h : decLabels safi wd len bs = .error e) : e = (3, 10) := by
  unfold decLabels at h
  split at h
  · split at h
    · cases h
    · split at h
      · cases h
      · simp only [Except.error.injEq] at h; exact h.symm
  · cases h

theorem decRdPrefix_err (afi safi : Nat) (pid : Option Nat) (ls : List Nat) (bits : Nat) (bs : Bytes) (e : Err)
    (h : decRdPrefix afi safi pid ls bits bs = .error e) : e = (3, 10) := by
  unfold decRdPrefix at h
  repeat' split at h
  all_goals first | (simp only [Except.error.injEq] at h; exact h.symm) | cases h

/-- Every failure of one NLRI is UPDATE Message Error / Invalid Network Field. -/
theorem decNlri_err (afi safi : Nat) (ap wd : Bool) (bs : Bytes) (e : Err)
    (h : decNlri afi safi ap wd bs = .error e) : e = (3, 10) := by
  unfold decNlri at h
  cases hp : decPathId ap bs with
  | error e1 =>
    rw [hp] at h
    simp only [Except.error.injEq] at h
    subst h
    exact decPathId_err ap bs _ hp
  | ok pr =>
    obtain ⟨pid, b1⟩ := pr
    rw [hp] at h
    cases b1 with
    | nil => simp only [Except.error.injEq] at h; exact h.symm
    | cons len b2 =>
      simp only at h
      cases hl : decLabels safi wd len b2 with
      | error e1 =>
        rw [hl] at h
        simp only [Except.error.injEq] at h
        subst h
        exact decLabels_err safi wd len b2 _ hl
      | ok tr =>
        obtain ⟨ls, used, b3⟩ := tr
        rw [hl] at h
        simp only at h
        by_cases c : len < used
        · simp only [c, if_true, Except.error.injEq] at h; exact h.symm
        · rw [if_neg c] at h
          exact decRdPrefix_err afi safi pid ls (len - used) b3 e h

theorem decNlris_err (afi safi : Nat) (ap wd : Bool) (f : Nat) (bs : Bytes) (e : Err)
    (h : decNlris afi safi ap wd f bs = .error e) : e = (3, 10) := by
  induction f generalizing bs with
  | zero =>
    cases bs with
    | nil => simp [decNlris] at h
    | cons b t => simp [decNlris] at h; exact h.symm
  | succ f ih =>
    cases bs with
    | nil => simp [decNlris] at h
    | cons b t =>
      simp only [decNlris] at h
      cases h1 : decNlri afi safi ap wd (b :: t) with
      | error e1 =>
        rw [h1] at h
        simp only [Except.error.injEq] at h
        subst h
        exact decNlri_err afi safi ap wd (b :: t) _ h1
      | ok pr =>
        obtain ⟨n, rest⟩ := pr
        rw [h1] at h
        simp only at h
        cases h2 : decNlris afi safi ap wd f rest with
        | ok ns => rw [h2] at h; simp at h
        | error e2 =>
          rw [h2] at h
          simp only [Except.error.injEq] at h
          subst h
          exact ih rest h2

theorem decMpReach_err (p : Params) (v : Bytes) (e : Err) (h : decMpReach p v = .error e) :
    e = (3, 9) ∨ e = (3, 10) := by
  unfold decMpReach at h
  split at h
  · simp only [Except.error.injEq] at h; exact Or.inl h.symm
  · split at h
    · simp only [Except.error.injEq] at h; exact Or.inl h.symm
    · simp only at h
      split at h
      · split at h
        · rename_i e1 h1
          simp only [Except.error.injEq] at h
          subst h
          exact Or.inr (decNlris_err _ _ _ _ _ _ _ h1)
        · cases h
      · cases h

theorem decMpUnreach_err (p : Params) (v : Bytes) (e : Err) (h : decMpUnreach p v = .error e) :
    e = (3, 9) ∨ e = (3, 10) := by
  unfold decMpUnreach at h
  split at h
  · simp only [Except.error.injEq] at h; exact Or.inl h.symm
  · simp only at h
    split at h
    · split at h
      · rename_i e1 h1
        simp only [Except.error.injEq] at h
        subst h
        exact Or.inr (decNlris_err _ _ _ _ _ _ _ h1)
      · cases h
    · cases h

/-- closes a leaf of `decVal`: a few nested `if`/`match` whose error branches are literals -/
local macro "leaf" h:ident : tactic =>
  `(tactic| ((repeat' split at $h:ident) <;>
      first | (simp only [Except.error.injEq] at $h:ident; subst $h:ident; decide) | cases $h:ident))

/-- Errors of an attribute value: length (3/5), ORIGIN (3/6), AS_PATH (3/11), MP (3/9), NLRI (3/10). -/
theorem decVal_err (p : Params) (code : Nat) (v : Bytes) (e : Err) (h : decVal p code v = .error e) :
    e ∈ [(3, 5), (3, 6), (3, 9), (3, 10), (3, 11)] := by
  unfold decVal at h
  by_cases c1 : code = 1
  · rw [if_pos c1] at h; leaf h
  rw [if_neg c1] at h
  by_cases c2 : code = 2
  · rw [if_pos c2] at h; leaf h
  rw [if_neg c2] at h
  by_cases c3 : code = 3
  · rw [if_pos c3] at h; leaf h
  rw [if_neg c3] at h
  by_cases c4 : code = 4
  · rw [if_pos c4] at h; leaf h
  rw [if_neg c4] at h
  by_cases c5 : code = 5
  · rw [if_pos c5] at h; leaf h
  rw [if_neg c5] at h
  by_cases c6 : code = 6
  · rw [if_pos c6] at h; leaf h
  rw [if_neg c6] at h
  by_cases c7 : code = 7
  · rw [if_pos c7] at h; leaf h
  rw [if_neg c7] at h
  by_cases c8 : code = 8
  · rw [if_pos c8] at h; leaf h
  rw [if_neg c8] at h
  by_cases c9 : code = 9
  · rw [if_pos c9] at h; leaf h
  rw [if_neg c9] at h
  by_cases c10 : code = 10
  · rw [if_pos c10] at h; leaf h
  rw [if_neg c10] at h
  by_cases c14 : code = 14
  · rw [if_pos c14] at h
    rcases decMpReach_err p v e h with rfl | rfl <;> decide
  rw [if_neg c14] at h
  by_cases c15 : code = 15
  · rw [if_pos c15] at h
    rcases decMpUnreach_err p v e h with rfl | rfl <;> decide
  rw [if_neg c15] at h
  by_cases c16 : code = 16
  · rw [if_pos c16] at h; leaf h
  rw [if_neg c16] at h
  by_cases c17 : code = 17
  · rw [if_pos c17] at h; leaf h
  rw [if_neg c17] at h
  by_cases c18 : code = 18
  · rw [if_pos c18] at h; leaf h
  rw [if_neg c18] at h
  by_cases c32 : code = 32
  · rw [if_pos c32] at h; leaf h
  rw [if_neg c32] at h
  cases h

theorem flagErr_err (f : Flags) (code : Nat) (e : Err) (h : flagErr f code = some e) : e = (3, 4) ∨ e = (3, 2) := by
  unfold flagErr at h
  split at h
  · split at h
    · cases h
    · simp only [Option.some.injEq] at h; exact Or.inl h.symm
  · split at h
    · simp only [Option.some.injEq] at h; exact Or.inr h.symm
    · split at h
      · simp only [Option.some.injEq] at h; exact Or.inl h.symm
      · cases h

theorem decAttr_err (p : Params) (bs : Bytes) (e : Err) (h : decAttr p bs = .error e) :
    e ∈ [(3, 1), (3, 2), (3, 4), (3, 5), (3, 6), (3, 9), (3, 10), (3, 11)] := by
  match bs with
  | [] => simp [decAttr] at h; subst h; decide
  | [_] => simp [decAttr] at h; subst h; decide
  | fb :: code :: r =>
    rw [decAttr_cons] at h
    cases hl : decLen (Flags.ofByte fb).ext r with
    | none => simp [hl] at h; subst h; decide
    | some pr =>
      obtain ⟨len, body⟩ := pr
      simp only [hl] at h
      by_cases c : body.length < len
      · simp [c] at h; subst h; decide
      · simp only [c, if_false] at h
        cases hf : flagErr (Flags.ofByte fb) code with
        | some e1 =>
          simp only [hf, Except.error.injEq] at h
          subst h
          rcases flagErr_err _ _ _ hf with rfl | rfl <;> decide
        | none =>
          simp only [hf] at h
          cases hv : decVal p code (body.take len) with
          | ok v => simp [hv] at h
          | error e1 =>
            simp only [hv, Except.error.injEq] at h
            subst h
            have := decVal_err p code (body.take len) _ hv
            simp only [List.mem_cons, List.mem_nil_iff, or_false] at this ⊢
            rcases this with h | h | h | h | h <;> simp [h]

theorem decAttrs_err (p : Params) (f : Nat) (bs : Bytes) (e : Err) (h : decAttrs p f bs = .error e) :
    e ∈ [(3, 1), (3, 2), (3, 4), (3, 5), (3, 6), (3, 9), (3, 10), (3, 11)] := by
  induction f generalizing bs with
  | zero =>
    cases bs with
    | nil => simp [decAttrs] at h
    | cons b t => simp [decAttrs] at h; subst h; decide
  | succ f ih =>
    cases bs with
    | nil => simp [decAttrs] at h
    | cons b t =>
      simp only [decAttrs] at h
      cases h1 : decAttr p (b :: t) with
      | error e1 =>
        rw [h1] at h
        simp only [Except.error.injEq] at h
        subst h
        exact decAttr_err p (b :: t) _ h1
      | ok pr =>
        obtain ⟨a, rest⟩ := pr
        rw [h1] at h
        simp only at h
        cases h2 : decAttrs p f rest with
        | ok as => rw [h2] at h; simp at h
        | error e2 =>
          rw [h2] at h
          simp only [Except.error.injEq] at h
          subst h
          exact ih rest h2

theorem semErr_err (p : Params) (u : UpdateSem) (e : Err) (h : semErr p u = some e) :
    e ∈ [(3, 1), (3, 9), (3, 3)] := by
  unfold semErr at h
  repeat' split at h
  all_goals first | (simp only [Option.some.injEq] at h; subst h; decide) | cases h

theorem decodeRaw_err (p : Params) (bs : Bytes) (e : Err) (h : decodeRaw p bs = .error e) : e ∈ errSites := by
  unfold decodeRaw at h
  split at h
  · simp only [Except.error.injEq] at h; subst h; decide
  split at h
  · simp only [Except.error.injEq] at h; subst h; decide
  split at h
  · simp only [Except.error.injEq] at h; subst h; decide
  split at h
  · rename_i e1 h1
    simp only [Except.error.injEq] at h
    subst h
    rw [decNlris_err _ _ _ _ _ _ _ h1]; decide
  · split at h
    · rename_i e1 h1
      simp only [Except.error.injEq] at h
      subst h
      have := decAttrs_err p _ _ _ h1
      simp only [errSites, List.mem_cons, List.mem_nil_iff, or_false] at this ⊢
      rcases this with h | h | h | h | h | h | h | h <;> simp [h]
    · split at h
      · rename_i e1 h1
        simp only [Except.error.injEq] at h
        subst h
        rw [decNlris_err _ _ _ _ _ _ _ h1]; decide
      · cases h

/-- Every error of the reference decoder is one of the ten listed sites. -/
theorem decodeUpdate_err (p : Params) (bs : Bytes) (e : Err) (h : decodeUpdate p bs = .error e) : e ∈ errSites := by
  unfold decodeUpdate at h
  split at h
  · simp only [Except.error.injEq] at h; subst h; decide
  · split at h
    · rename_i e1 h1
      simp only [Except.error.injEq] at h
      subst h
      exact decodeRaw_err p bs _ h1
    · split at h
      · rename_i e1 h1
        simp only [Except.error.injEq] at h
        subst h
        have := semErr_err p _ _ h1
        simp only [errSites, List.mem_cons, List.mem_nil_iff, or_false] at this ⊢
        rcases this with h | h | h <;> simp [h]
      · cases h

end Exa.Wire
