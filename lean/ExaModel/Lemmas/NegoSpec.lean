import ExaModel.Lemmas.NegoSet
set_option linter.unusedSimpArgs false
set_option linter.unusedVariables false
/-! `negotiate` (the code) against the raw capability lists and against `rfcNegotiate`. -/
namespace Exa.Open

theorem negotiate_families_mem (o t : OpenMsg) (f : Family) :
    f ∈ (negotiate o t).families ↔ Cap.mp f.1 f.2 ∈ o.caps ∧ Cap.mp f.1 f.2 ∈ t.caps := by
  have ho := capSet_mp_mem o.caps f
  have ht := capSet_mp_mem t.caps f
  simp only [negotiate, negotiateSets]
  cases h1 : (capSet t.caps).mp <;> cases h2 : (capSet o.caps).mp <;>
    simp_all [List.mem_filter] <;> grind

theorem negotiate_families_nodup (o t : OpenMsg) : (negotiate o t).families.Nodup := by
  have ht := capSet_mp_nodup t.caps
  simp only [negotiate, negotiateSets]
  cases h1 : (capSet t.caps).mp <;> cases h2 : (capSet o.caps).mp <;> simp_all
  exact List.Nodup.sublist List.filter_sublist ht

theorem negotiate_nexthop_mem (o t : OpenMsg) (x : Triple) :
    x ∈ (negotiate o t).nexthop ↔ x ∈ nexthopOf o.caps ∧ x ∈ nexthopOf t.caps := by
  have ho := capSet_nexthop_mem o.caps x
  have ht := capSet_nexthop_mem t.caps x
  simp only [negotiate, negotiateSets]
  cases h1 : (capSet t.caps).nexthop <;> cases h2 : (capSet o.caps).nexthop <;>
    simp_all [List.mem_filter] <;> grind

theorem negotiate_nexthop_nodup (o t : OpenMsg) : (negotiate o t).nexthop.Nodup := by
  have ht := capSet_nexthop_nodup t.caps
  simp only [negotiate, negotiateSets]
  cases h1 : (capSet t.caps).nexthop <;> cases h2 : (capSet o.caps).nexthop <;> simp_all
  exact List.Nodup.sublist List.filter_sublist ht

theorem negotiate_send (o t : OpenMsg) (f : Family) :
    (negotiate o t).send f = (sendBit (srOf o.caps f) && recvBit (srOf t.caps f)) := by
  simp only [negotiate, negotiateSets_send, capSet_addpath_sr]

theorem negotiate_receive (o t : OpenMsg) (f : Family) :
    (negotiate o t).receive f = (recvBit (srOf o.caps f) && sendBit (srOf t.caps f)) := by
  simp only [negotiate, negotiateSets_receive, capSet_addpath_sr]

theorem negotiate_asn4 (o t : OpenMsg) :
    (negotiate o t).asn4 = ((asn4Of o.caps).isSome && (asn4Of t.caps).isSome) := by
  simp only [negotiate, negotiateSets, capSet_asn4]

theorem negotiate_refresh (o t : OpenMsg) :
    (negotiate o t).refresh =
      if o.caps.contains .enhanced && t.caps.contains .enhanced then .enhanced
      else if o.caps.contains .refresh && t.caps.contains .refresh then .normal else .absent := by
  simp only [negotiate, negotiateSets, capSet_enhanced, capSet_refresh]
  cases o.caps.contains Cap.enhanced <;> cases t.caps.contains Cap.enhanced <;>
    cases o.caps.contains Cap.refresh <;> cases t.caps.contains Cap.refresh <;> rfl

theorem negotiate_msgSize (o t : OpenMsg) :
    (negotiate o t).msgSize = if o.caps.contains .extMsg && t.caps.contains .extMsg then 65535 else 4096 := by
  simp only [negotiate, negotiateSets, capSet_extMsg, extendedSize, initialSize]
  cases o.caps.contains Cap.extMsg <;> cases t.caps.contains Cap.extMsg <;> rfl

theorem negotiate_hold (o t : OpenMsg) : (negotiate o t).hold = min o.hold t.hold := rfl

theorem negotiate_localAs (o t : OpenMsg) : (negotiate o t).localAs = (asn4Of o.caps).getD o.myAs := by
  simp only [negotiate, negotiateSets, capSet_asn4]

theorem negotiate_peerAs (o t : OpenMsg) :
    (negotiate o t).peerAs =
      if t.myAs = asTrans ∧ ((asn4Of o.caps).isSome && (asn4Of t.caps).isSome) = true
      then (asn4Of t.caps).getD t.myAs else t.myAs := by
  simp only [negotiate, negotiateSets, capSet_asn4]

theorem negotiate_operational (o t : OpenMsg) :
    (negotiate o t).operational = (o.caps.contains .operational && t.caps.contains .operational) := by
  simp only [negotiate, negotiateSets, capSet_operational]

theorem negotiate_linkLocal (o t : OpenMsg) :
    (negotiate o t).linkLocal = (o.caps.contains .linkLocal && t.caps.contains .linkLocal) := by
  simp only [negotiate, negotiateSets, capSet_linkLocal]

/-- the multisession verdict on the raw capability lists (MP lists as the dict holds them) -/
theorem negotiate_multisession (o t : OpenMsg) :
    (negotiate o t).multisession =
      if ((o.caps.any (isMs false) && t.caps.any (isMs false)) || (o.caps.any (isMs true) && t.caps.any (isMs true))) = true then
        if some ((capSet o.caps).mp.getD []) ≠ (capSet t.caps).mp then .err 2 8 else .yes
      else if o.caps.any (isMs false) = true then .err 2 9 else .no := by
  simp only [negotiate, negotiateSets, capSet_multisession, capSet_multisessionCisco]

/-! ### ADD-PATH octets: the bit-mask reading and the RFC 7911 reading agree on 0..3 -/

theorem sendBit_eq_rfc (sr : Nat) (h : sr ≤ 3) : sendBit sr = rfcSend sr := by
  have : sr = 0 ∨ sr = 1 ∨ sr = 2 ∨ sr = 3 := by omega
  rcases this with h | h | h | h <;> subst h <;> decide

theorem recvBit_eq_rfc (sr : Nat) (h : sr ≤ 3) : recvBit sr = rfcRecv sr := by
  have : sr = 0 ∨ sr = 1 ∨ sr = 2 ∨ sr = 3 := by omega
  rcases this with h | h | h | h <;> subst h <;> decide

/-- every Send/Receive octet of the ADD-PATH capabilities is one RFC 7911 defines (or 0) -/
def validSR (caps : List Cap) : Prop := ∀ e ∈ addpathEntries caps, e.2.2 ≤ 3

theorem srFold_le (f : Family) (es : List Triple) (init : Nat) (hi : init ≤ 3) (h : ∀ e ∈ es, e.2.2 ≤ 3) :
    srFold f init es ≤ 3 := by
  induction es generalizing init with
  | nil => simpa [srFold] using hi
  | cons e t ih =>
    simp only [srFold, List.foldl_cons]
    apply ih
    · split
      · exact h e (by simp)
      · exact hi
    · intro x hx; exact h x (by simp [hx])

theorem srOf_le (caps : List Cap) (f : Family) (h : validSR caps) : srOf caps f ≤ 3 :=
  srFold_le f _ 0 (by omega) h

theorem srFold_ne_init (f : Family) (es : List Triple) (init : Nat) (h : srFold f init es ≠ init) :
    f ∈ es.map (fun e => (e.1, e.2.1)) := by
  induction es generalizing init with
  | nil => simp [srFold] at h
  | cons e t ih =>
    simp only [srFold, List.foldl_cons] at h
    by_cases he : (e.1, e.2.1) = f
    · simp [he]
    · simp only [he, if_false] at h
      simp only [List.map_cons, List.mem_cons]
      exact Or.inr (ih init h)

theorem srOf_ne_zero_mem (caps : List Cap) (f : Family) (h : srOf caps f ≠ 0) :
    f ∈ (addpathEntries caps).map (fun e => (e.1, e.2.1)) := srFold_ne_init f _ 0 h

theorem rfc_apSend_mem (o t : OpenMsg) (f : Family) :
    f ∈ (rfcNegotiate o t).apSend ↔ rfcSend (srOf o.caps f) = true ∧ rfcRecv (srOf t.caps f) = true := by
  simp only [rfcNegotiate, List.mem_filter, Bool.and_eq_true]
  constructor
  · exact fun h => h.2
  · intro h
    refine ⟨srOf_ne_zero_mem o.caps f ?_, h⟩
    intro e; rw [e] at h; simp [rfcSend] at h

theorem rfc_apRecv_mem (o t : OpenMsg) (f : Family) :
    f ∈ (rfcNegotiate o t).apRecv ↔ rfcRecv (srOf o.caps f) = true ∧ rfcSend (srOf t.caps f) = true := by
  simp only [rfcNegotiate, List.mem_filter, Bool.and_eq_true]
  constructor
  · exact fun h => h.2
  · intro h
    refine ⟨srOf_ne_zero_mem o.caps f ?_, h⟩
    intro e; rw [e] at h; simp [rfcRecv] at h

theorem rfc_families_mem (o t : OpenMsg) (f : Family) :
    f ∈ (rfcNegotiate o t).families ↔ Cap.mp f.1 f.2 ∈ o.caps ∧ Cap.mp f.1 f.2 ∈ t.caps := by
  simp [rfcNegotiate, List.mem_filter, mem_mpOf]

theorem rfc_nexthop_mem (o t : OpenMsg) (x : Triple) :
    x ∈ (rfcNegotiate o t).nexthop ↔ x ∈ nexthopOf o.caps ∧ x ∈ nexthopOf t.caps := by
  simp [rfcNegotiate, List.mem_filter]

/-- the peer's My-AS field is what RFC 6793 §4.1 tells a NEW speaker to put there -/
def consistentAs (t : OpenMsg) : Prop := ∀ a, asn4Of t.caps = some a → t.myAs = trans a

theorem peerAs_eq_rfc (o t : OpenMsg) (h : consistentAs t) : (negotiate o t).peerAs = (rfcNegotiate o t).peerAs := by
  rw [negotiate_peerAs]
  simp only [rfcNegotiate]
  cases ho : asn4Of o.caps <;> cases ht : asn4Of t.caps <;> simp
  rename_i a b
  have := h b ht
  simp only [trans] at this
  by_cases hb : b > 65535
  · simp [hb] at this; simp [this]
  · simp [hb] at this; simp [this]

end Exa.Open
