import ExaModel.Lemmas.Fields
set_option linter.unusedSimpArgs false
/-! The AS_TRANS construction (an AS number on a 2-byte session): round trip and no-encoding. -/
namespace Exa.Fields
open Exa

theorem trans_layout (f : Field) (h : f.isTrans = true) : layout f = Layout.uint 4 := by
  cases f <;> first | (simp [Field.isTrans] at h; done) | (rename_i s; cases s <;> simp [Field.isTrans, layout] at h ⊢)

theorem take2_trans (x v : Nat) : (beN 2 x ++ beN 4 v).take 2 = beN 2 x := by
  apply List.take_left'; exact beN_length 2 x
theorem drop2_trans (x v : Nat) : (beN 2 x ++ beN 4 v).drop 2 = beN 4 v := by
  apply List.drop_left'; exact beN_length 2 x

theorem trans_roundtrip (f : Field) (ht : f.isTrans = true) (v : Nat) (h : fits f v = true) :
    decodeField f (encodeField f v) = v := by
  have hv : v < 4294967296 := by
    simpa [fits, Layout.fits, trans_layout f ht, Layout.uint] using h
  simp only [decodeField, encodeField, ht, if_true, take2_trans, drop2_trans, rdN_beN, asTrans]
  by_cases h1 : v < 65536
  · simp only [h1, if_true]
    have : v % 256 ^ 2 = v := Nat.mod_eq_of_lt (by omega)
    rw [this]
    split
    · exact Nat.mod_eq_of_lt (by omega)
    · rfl
  · simp only [h1, if_false]
    have : 23456 % 256 ^ 2 = 23456 := by decide
    simp only [this, if_true]
    exact Nat.mod_eq_of_lt (by omega)

theorem trans_nofit (f : Field) (ht : f.isTrans = true) (v : Nat) (h : fits f v = false) (bs : Bytes)
    (hlen : bs.length = width f) (hbs : WFBytes bs) : decodeField f bs ≠ v := by
  have hv : ¬ v < 4294967296 := by
    simpa [fits, Layout.fits, trans_layout f ht, Layout.uint] using h
  have hl : bs.length = 6 := by simpa [width, ht] using hlen
  have h2 := rdN_lt (bs.take 2) (wfBytes_take 2 hbs)
  have h4 := rdN_lt (bs.drop 2) (wfBytes_drop 2 hbs)
  have l2 : (bs.take 2).length = 2 := by simp [hl]
  have l4 : (bs.drop 2).length = 4 := by simp [hl]
  rw [l2] at h2; rw [l4] at h4
  simp only [decodeField, ht, if_true]
  split <;> omega

end Exa.Fields
