import ExaModel.Lemmas.FieldsTrans
set_option linter.unusedSimpArgs false
/-! The acceptance side of M-Fields: the generated parser bounds are `[0, acceptLimit f - 1]` for
    every field, hence `accepts` is a plain range check against `acceptLimit`. -/
namespace Exa.Fields
open Exa

/-- **The translation obligation.**  For every field the bounds re-extracted from the parser sources
    are `0` and `acceptLimit f - 1`: a bound that changes in /repo makes this `decide` fail. -/
theorem parserBound_eq (f : Field) : parserBound f = some (0, (acceptLimit f : Int) - 1) := by
  cases f <;> first | decide | (rename_i s; cases s <;> decide)

theorem accepts_iff_lt (f : Field) (v : Int) :
    accepts f v = true ↔ 0 ≤ v ∧ v < (acceptLimit f : Int) := by
  simp only [accepts, parserBound_eq, Bool.and_eq_true, decide_eq_true_eq]
  omega

theorem acceptLimit_of_not_count (f : Field) (h : f.isCount = false) : acceptLimit f = rfcLimit f := by
  simp [acceptLimit, h]

/-- a list that is accepted fits its length field -/
theorem acceptLimit_le_rfcLimit (f : Field) : acceptLimit f ≤ rfcLimit f := by
  cases f <;> first | decide | (rename_i s; cases s <;> decide)

theorem fits_iff_lt (f : Field) (n : Nat) : fits f n = true ↔ n < rfcLimit f := by
  have : (layout f).limit = rfcLimit f := by
    cases f <;> first | decide | (rename_i s; cases s <;> decide)
  simp [fits, Layout.fits, this]

/-- for a list: below `acceptLimit` is "the value leaves room in the UPDATE" -/
theorem count_room (f : Field) (h : f.isCount = true) (n : Nat) :
    n < acceptLimit f ↔ msgFits 65535 (n * f.unit + 4) 128 = true := by
  cases f <;> simp [Field.isCount] at h <;>
    simp [acceptLimit, Field.isCount, Field.unit, msgFits] <;> omega

end Exa.Fields
