import ExaModel.Model.Nego
set_option linter.unusedSimpArgs false
set_option linter.unusedVariables false
/-! What `capSet` (the dict `Capabilities.unpack` builds, capability by capability) holds, stated on
    the raw capability list: membership for MP / next hop / the flag capabilities, the last ASN4,
    the last ADD-PATH entry of a family. -/
namespace Exa.Open

/-! ### generic: projections of the fold -/

theorem foldl_add_proj {β : Type} (p : CapSet → β) (step : β → Cap → β)
    (h : ∀ s c, p (s.add c) = step (p s) c) (caps : List Cap) (s : CapSet) :
    p (caps.foldl CapSet.add s) = caps.foldl step (p s) := by
  induction caps generalizing s with
  | nil => rfl
  | cons c t ih => simp only [List.foldl_cons]; rw [ih, h]

/-! ### flags -/

theorem foldl_or_contains (caps : List Cap) (x : Cap) (b : Bool) :
    caps.foldl (fun acc c => acc || (c == x)) b = (b || caps.contains x) := by
  induction caps generalizing b with
  | nil => simp
  | cons c t ih =>
    simp only [List.foldl_cons, ih, List.contains_cons]
    by_cases h : c = x
    · subst h; simp
    · have h1 : (c == x) = false := by simp [h]
      have h2 : (x == c) = false := by simp [Ne.symm h]
      simp [h1, h2]

theorem capSet_refresh (caps : List Cap) : (capSet caps).refresh = caps.contains .refresh := by
  have := foldl_add_proj (·.refresh) (fun acc c => acc || (c == Cap.refresh))
    (by intro s c; cases c <;> simp [CapSet.add] <;> (rename_i b _; cases b <;> simp)) caps {}
  simp only [capSet, this, foldl_or_contains]; rfl

theorem capSet_enhanced (caps : List Cap) : (capSet caps).enhanced = caps.contains .enhanced := by
  have := foldl_add_proj (·.enhanced) (fun acc c => acc || (c == Cap.enhanced))
    (by intro s c; cases c <;> simp [CapSet.add] <;> (rename_i b _; cases b <;> simp)) caps {}
  simp only [capSet, this, foldl_or_contains]; rfl

theorem capSet_extMsg (caps : List Cap) : (capSet caps).extMsg = caps.contains .extMsg := by
  have := foldl_add_proj (·.extMsg) (fun acc c => acc || (c == Cap.extMsg))
    (by intro s c; cases c <;> simp [CapSet.add] <;> (rename_i b _; cases b <;> simp)) caps {}
  simp only [capSet, this, foldl_or_contains]; rfl

theorem capSet_operational (caps : List Cap) : (capSet caps).operational = caps.contains .operational := by
  have := foldl_add_proj (·.operational) (fun acc c => acc || (c == Cap.operational))
    (by intro s c; cases c <;> simp [CapSet.add] <;> (rename_i b _; cases b <;> simp)) caps {}
  simp only [capSet, this, foldl_or_contains]; rfl

theorem capSet_linkLocal (caps : List Cap) : (capSet caps).linkLocal = caps.contains .linkLocal := by
  have := foldl_add_proj (·.linkLocal) (fun acc c => acc || (c == Cap.linkLocal))
    (by intro s c; cases c <;> simp [CapSet.add] <;> (rename_i b _; cases b <;> simp)) caps {}
  simp only [capSet, this, foldl_or_contains]; rfl

/-- a multisession capability of the given variant (RFC draft code 68 / Cisco code 131), any value -/
def isMs (cisco : Bool) (c : Cap) : Bool := match c with | .multisession b _ => b == cisco | _ => false

theorem foldl_or_any (caps : List Cap) (p : Cap → Bool) (b : Bool) :
    caps.foldl (fun acc c => acc || p c) b = (b || caps.any p) := by
  induction caps generalizing b with
  | nil => simp
  | cons c t ih => simp only [List.foldl_cons, ih, List.any_cons, Bool.or_assoc]

theorem capSet_multisession (caps : List Cap) : (capSet caps).multisession = caps.any (isMs false) := by
  have := foldl_add_proj (·.multisession) (fun acc c => acc || isMs false c)
    (by intro s c; cases c <;> simp [CapSet.add, isMs] <;> (rename_i b _; cases b <;> simp)) caps {}
  simp only [capSet, this, foldl_or_any]; rfl

theorem capSet_multisessionCisco (caps : List Cap) : (capSet caps).multisessionCisco = caps.any (isMs true) := by
  have := foldl_add_proj (·.multisessionCisco) (fun acc c => acc || isMs true c)
    (by intro s c; cases c <;> simp [CapSet.add, isMs] <;> (rename_i b _; cases b <;> simp)) caps {}
  simp only [capSet, this, foldl_or_any]; rfl

/-! ### ASN4: the last one -/

theorem capSet_asn4 (caps : List Cap) : (capSet caps).asn4 = asn4Of caps := by
  have := foldl_add_proj (·.asn4) (fun acc c => match c with | .asn4 v => some v | _ => acc)
    (by intro s c; cases c <;> simp [CapSet.add] <;> (rename_i b _; cases b <;> simp)) caps {}
  simp only [capSet, this, asn4Of]; rfl


/-! ### MP and next hop: accumulation as a set -/

theorem mem_addUnique {α : Type} [DecidableEq α] (l : List α) (y x : α) : x ∈ addUnique l y ↔ x ∈ l ∨ x = y := by
  unfold addUnique
  by_cases h : y ∈ l
  · simp only [h, if_true]; constructor
    · exact Or.inl
    · rintro (h1 | h1)
      · exact h1
      · exact h1 ▸ h
  · simp [h]

theorem nodup_addUnique {α : Type} [DecidableEq α] (l : List α) (y : α) (h : l.Nodup) : (addUnique l y).Nodup := by
  unfold addUnique
  by_cases hy : y ∈ l
  · simpa [hy] using h
  · simp only [hy, if_false]
    rw [List.nodup_append]
    refine ⟨h, by simp, ?_⟩
    intro a ha b hb
    simp at hb; subst hb
    intro e; subst e; exact hy ha

theorem mem_foldl_addUnique {α : Type} [DecidableEq α] (es l : List α) (x : α) :
    x ∈ es.foldl addUnique l ↔ x ∈ l ∨ x ∈ es := by
  induction es generalizing l with
  | nil => simp
  | cons e t ih => simp only [List.foldl_cons, ih, mem_addUnique, List.mem_cons]; grind

theorem nodup_foldl_addUnique {α : Type} [DecidableEq α] (es l : List α) (h : l.Nodup) :
    (es.foldl addUnique l).Nodup := by
  induction es generalizing l with
  | nil => simpa using h
  | cons e t ih => exact ih _ (nodup_addUnique l e h)

def stepMp (acc : Option (List Family)) (c : Cap) : Option (List Family) :=
  match c with
  | .mp a f => some (addUnique (acc.getD []) (a, f))
  | _ => acc

theorem mem_mpOf (caps : List Cap) (f : Family) : f ∈ mpOf caps ↔ Cap.mp f.1 f.2 ∈ caps := by
  simp only [mpOf, List.mem_filterMap]
  constructor
  · rintro ⟨c, hc, h⟩
    cases c <;> simp at h
    subst h; exact hc
  · intro h; exact ⟨_, h, by simp⟩

theorem mpOf_cons (c : Cap) (t : List Cap) :
    mpOf (c :: t) = (match c with | .mp a s => [(a, s)] | _ => []) ++ mpOf t := by
  cases c <;> simp [mpOf, List.filterMap_cons]

theorem foldl_stepMp_mem (caps : List Cap) (acc : Option (List Family)) (x : Family) :
    x ∈ (caps.foldl stepMp acc).getD [] ↔ x ∈ acc.getD [] ∨ x ∈ mpOf caps := by
  induction caps generalizing acc with
  | nil => simp [mpOf]
  | cons c t ih =>
    simp only [List.foldl_cons, ih, mpOf_cons]
    cases c <;> simp [stepMp, mem_addUnique] <;> grind

theorem foldl_stepMp_none (caps : List Cap) (acc : Option (List Family)) :
    caps.foldl stepMp acc = none ↔ acc = none ∧ mpOf caps = [] := by
  induction caps generalizing acc with
  | nil => simp [mpOf]
  | cons c t ih =>
    simp only [List.foldl_cons, ih, mpOf_cons]
    cases c <;> simp [stepMp]

theorem foldl_stepMp_nodup (caps : List Cap) (acc : Option (List Family)) (h : (acc.getD []).Nodup) :
    ((caps.foldl stepMp acc).getD []).Nodup := by
  induction caps generalizing acc with
  | nil => simpa using h
  | cons c t ih =>
    simp only [List.foldl_cons]
    apply ih
    cases c <;> simp [stepMp, h]
    exact nodup_addUnique _ _ h

theorem capSet_mp_eq (caps : List Cap) : (capSet caps).mp = caps.foldl stepMp none := by
  have := foldl_add_proj (·.mp) stepMp
    (by intro s c; cases c <;> simp [CapSet.add, stepMp] <;> (rename_i b _; cases b <;> simp)) caps {}
  simp only [capSet, this]

theorem capSet_mp_mem (caps : List Cap) (f : Family) :
    f ∈ (capSet caps).mp.getD [] ↔ Cap.mp f.1 f.2 ∈ caps := by
  rw [capSet_mp_eq, foldl_stepMp_mem, mem_mpOf]; simp

theorem capSet_mp_nodup (caps : List Cap) : ((capSet caps).mp.getD []).Nodup := by
  rw [capSet_mp_eq]; exact foldl_stepMp_nodup caps none (by simp)

theorem capSet_mp_none (caps : List Cap) : (capSet caps).mp = none ↔ mpOf caps = [] := by
  rw [capSet_mp_eq, foldl_stepMp_none]; simp

def stepNh (acc : Option (List Triple)) (c : Cap) : Option (List Triple) :=
  match c with
  | .nexthop es => some (es.foldl addUnique (acc.getD []))
  | _ => acc

theorem nexthopOf_cons (c : Cap) (t : List Cap) :
    nexthopOf (c :: t) = (match c with | .nexthop es => es | _ => []) ++ nexthopOf t := by
  cases c <;> simp [nexthopOf, List.flatMap_cons]

theorem foldl_stepNh_mem (caps : List Cap) (acc : Option (List Triple)) (x : Triple) :
    x ∈ (caps.foldl stepNh acc).getD [] ↔ x ∈ acc.getD [] ∨ x ∈ nexthopOf caps := by
  induction caps generalizing acc with
  | nil => simp [nexthopOf]
  | cons c t ih =>
    simp only [List.foldl_cons, ih, nexthopOf_cons]
    cases c <;> simp [stepNh, mem_foldl_addUnique] <;> grind

theorem foldl_stepNh_nodup (caps : List Cap) (acc : Option (List Triple)) (h : (acc.getD []).Nodup) :
    ((caps.foldl stepNh acc).getD []).Nodup := by
  induction caps generalizing acc with
  | nil => simpa using h
  | cons c t ih =>
    simp only [List.foldl_cons]
    apply ih
    cases c <;> simp [stepNh, h]
    exact nodup_foldl_addUnique _ _ h

theorem capSet_nexthop_eq (caps : List Cap) : (capSet caps).nexthop = caps.foldl stepNh none := by
  have := foldl_add_proj (·.nexthop) stepNh
    (by intro s c; cases c <;> simp [CapSet.add, stepNh] <;> (rename_i b _; cases b <;> simp)) caps {}
  simp only [capSet, this]

theorem capSet_nexthop_mem (caps : List Cap) (t : Triple) :
    t ∈ (capSet caps).nexthop.getD [] ↔ t ∈ nexthopOf caps := by
  rw [capSet_nexthop_eq, foldl_stepNh_mem]; simp

theorem capSet_nexthop_nodup (caps : List Cap) : ((capSet caps).nexthop.getD []).Nodup := by
  rw [capSet_nexthop_eq]; exact foldl_stepNh_nodup caps none (by simp)

theorem mem_nexthopOf (caps : List Cap) (t : Triple) : t ∈ nexthopOf caps ↔ ∃ es, Cap.nexthop es ∈ caps ∧ t ∈ es := by
  simp only [nexthopOf, List.mem_flatMap]
  constructor
  · rintro ⟨c, hc, h⟩
    cases c <;> simp at h
    exact ⟨_, hc, h⟩
  · rintro ⟨es, hc, h⟩; exact ⟨_, hc, by simpa using h⟩

/-! ### ADD-PATH: entries accumulate over all ADD-PATH capabilities, a later entry of a family overrides -/

def srFold (f : Family) (init : Nat) (es : List Triple) : Nat :=
  es.foldl (fun acc e => if (e.1, e.2.1) = f then e.2.2 else acc) init

theorem srOf_eq (caps : List Cap) (f : Family) : srOf caps f = srFold f 0 (addpathEntries caps) := rfl

theorem lookup_foldl_insertEntry (f : Family) (es : List Triple) (d : AList Family Nat) :
    (AList.lookup f (es.foldl insertEntry d)).getD 0 = srFold f ((AList.lookup f d).getD 0) es := by
  induction es generalizing d with
  | nil => rfl
  | cons e t ih =>
    simp only [List.foldl_cons, srFold] at *
    rw [ih]
    congr 1
    simp only [insertEntry, AList.lookup_insert]
    by_cases h : f = (e.1, e.2.1)
    · simp [h]
    · have h' : ¬ (e.1, e.2.1) = f := fun x => h x.symm
      simp [h, h']

def stepAp (acc : Option (AList Family Nat)) (c : Cap) : Option (AList Family Nat) :=
  match c with
  | .addpath es => some (es.foldl insertEntry (acc.getD []))
  | _ => acc

theorem addpathEntries_cons (c : Cap) (t : List Cap) :
    addpathEntries (c :: t) = (match c with | .addpath es => es | _ => []) ++ addpathEntries t := by
  cases c <;> simp [addpathEntries, List.flatMap_cons]

theorem lookup_foldl_stepAp (f : Family) (caps : List Cap) (acc : Option (AList Family Nat)) :
    (AList.lookup f ((caps.foldl stepAp acc).getD [])).getD 0
      = srFold f ((AList.lookup f (acc.getD [])).getD 0) (addpathEntries caps) := by
  induction caps generalizing acc with
  | nil => simp [addpathEntries, srFold]
  | cons c t ih =>
    simp only [List.foldl_cons, ih, addpathEntries_cons]
    cases c <;> simp [stepAp, srFold, List.foldl_append]
    rename_i es
    have := lookup_foldl_insertEntry f es (acc.getD [])
    simp only [srFold] at this
    rw [this]

theorem capSet_addpath_eq (caps : List Cap) : (capSet caps).addpath = caps.foldl stepAp none := by
  have := foldl_add_proj (·.addpath) stepAp
    (by intro s c; cases c <;> simp [CapSet.add, stepAp] <;> (rename_i b _; cases b <;> simp)) caps {}
  simp only [capSet, this]

/-- The Send/Receive octet the dict holds for a family = the last entry for that family over all
    ADD-PATH capabilities received (0 when there is none). -/
theorem capSet_addpath_sr (caps : List Cap) (f : Family) :
    (AList.lookup f ((capSet caps).addpath.getD [])).getD 0 = srOf caps f := by
  rw [capSet_addpath_eq, lookup_foldl_stepAp, srOf_eq]; simp

theorem foldl_stepAp_none (caps : List Cap) (acc : Option (AList Family Nat)) :
    caps.foldl stepAp acc = none ↔ acc = none ∧ ∀ es, Cap.addpath es ∉ caps := by
  induction caps generalizing acc with
  | nil => simp
  | cons c t ih =>
    simp only [List.foldl_cons, ih]
    cases c <;> simp [stepAp]
    rename_i es
    intro _; exact ⟨es, fun h => absurd rfl h⟩

/-- ADD-PATH is present in the dict iff some ADD-PATH capability was received. -/
theorem capSet_addpath_none (caps : List Cap) : (capSet caps).addpath = none ↔ ∀ es, Cap.addpath es ∉ caps := by
  rw [capSet_addpath_eq, foldl_stepAp_none]; simp

theorem lookup_none_of_not_mem_keys {β : Type} (k : Family) (l : AList Family β) (h : k ∉ AList.keys l) :
    AList.lookup k l = none := by
  induction l with
  | nil => rfl
  | cons hd t ih =>
    obtain ⟨k₁, v₁⟩ := hd
    simp only [AList.keys, List.map_cons, List.mem_cons, not_or] at h
    have hk : ¬ k₁ = k := fun e => h.1 e.symm
    simp only [AList.lookup, hk, if_false]
    exact ih h.2

theorem lookup_map_self {β : Type} (g : Family → β) (keys : List Family) (f : Family) :
    AList.lookup f (keys.map (fun k => (k, g k))) = if f ∈ keys then some (g f) else none := by
  induction keys with
  | nil => simp
  | cons k t ih =>
    simp only [List.map_cons, AList.lookup, ih, List.mem_cons]
    by_cases h : k = f
    · subst h; simp
    · have h' : ¬ f = k := fun e => h e.symm
      simp [h, h']

theorem sendBit_zero : sendBit 0 = false := by decide
theorem recvBit_zero : recvBit 0 = false := by decide

/-- `RequirePath.setup`: whatever the key order of the two dicts, `send(f)` is "we send and they
    receive" on the octets in force, and `receive(f)` its dual. -/
theorem negotiateSets_send (a b c d : Nat) (s r : CapSet) (f : Family) :
    (negotiateSets a b c d s r).send f
      = (sendBit ((AList.lookup f (s.addpath.getD [])).getD 0) && recvBit ((AList.lookup f (r.addpath.getD [])).getD 0)) := by
  simp only [Negotiated.send, negotiateSets, lookup_map_self]
  split
  · simp
  · rename_i h
    simp only [List.mem_append, List.mem_filter, not_or] at h
    have h1 := lookup_none_of_not_mem_keys f _ h.1
    simp [h1, sendBit_zero]

theorem negotiateSets_receive (a b c d : Nat) (s r : CapSet) (f : Family) :
    (negotiateSets a b c d s r).receive f
      = (recvBit ((AList.lookup f (s.addpath.getD [])).getD 0) && sendBit ((AList.lookup f (r.addpath.getD [])).getD 0)) := by
  simp only [Negotiated.receive, negotiateSets, lookup_map_self]
  split
  · simp
  · rename_i h
    simp only [List.mem_append, List.mem_filter, not_or] at h
    have h1 := lookup_none_of_not_mem_keys f _ h.1
    simp [h1, recvBit_zero]

end Exa.Open
