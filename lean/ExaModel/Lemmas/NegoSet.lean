import ExaModel.Model.Nego
set_option linter.unusedSimpArgs false
set_option linter.unusedVariables false
/-! What `capSet` (the dict `Capabilities.unpack` builds, capability by capability) holds, stated on
    the raw capability list: membership for MP / next hop / the flag capabilities, the last ASN4,
    the last ADD-PATH entry of a family. -/
namespace Exa.Open

/-! ### generic: projections of the fold -/

theorem foldl_add_proj {β : Type} (p : CapSet → β) (step : β → Cap → β)
    (h : ∀ s c, p (s.add c) = step (p s) c) (caps : List Cap) (s : CapSet) :
    p (caps.foldl CapSet.add s) = caps.foldl step (p s) := by
  induction caps generalizing s with
  | nil => rfl
  | cons c t ih => simp only [List.foldl_cons]; rw [ih, h]

/-! ### flags -/

theorem foldl_or_contains (caps : List Cap) (x : Cap) (b : Bool) :
    caps.foldl (fun acc c => acc || (c == x)) b = (b || caps.contains x) := by
  induction caps generalizing b with
  | nil => simp
  | cons c t ih =>
    simp only [List.foldl_cons, ih, List.contains_cons]
    by_cases h : c = x
    · subst h; simp
    · have h1 : (c == x) = false := by simp [h]
      have h2 : (x == c) = false := by simp [Ne.symm h]
      simp [h1, h2]

theorem capSet_refresh (caps : List Cap) : (capSet caps).refresh = caps.contains .refresh := by
  have := foldl_add_proj (·.refresh) (fun acc c => acc || (c == Cap.refresh))
    (by intro s c; cases c <;> simp [CapSet.add] <;> (rename_i b _; cases b <;> simp)) caps {}
  simp only [capSet, this, foldl_or_contains]; rfl

theorem capSet_enhanced (caps : List Cap) : (capSet caps).enhanced = caps.contains .enhanced := by
  have := foldl_add_proj (·.enhanced) (fun acc c => acc || (c == Cap.enhanced))
    (by intro s c; cases c <;> simp [CapSet.add] <;> (rename_i b _; cases b <;> simp)) caps {}
  simp only [capSet, this, foldl_or_contains]; rfl

theorem capSet_extMsg (caps : List Cap) : (capSet caps).extMsg = caps.contains .extMsg := by
  have := foldl_add_proj (·.extMsg) (fun acc c => acc || (c == Cap.extMsg))
    (by intro s c; cases c <;> simp [CapSet.add] <;> (rename_i b _; cases b <;> simp)) caps {}
  simp only [capSet, this, foldl_or_contains]; rfl

/-! ### ASN4: the last one -/

theorem capSet_asn4 (caps : List Cap) : (capSet caps).asn4 = asn4Of caps := by
  have := foldl_add_proj (·.asn4) (fun acc c => match c with | .asn4 v => some v | _ => acc)
    (by intro s c; cases c <;> simp [CapSet.add] <;> (rename_i b _; cases b <;> simp)) caps {}
  simp only [capSet, this, asn4Of]; rfl


/-! ### MP and next hop: accumulation as a set -/

theorem mem_addUnique {α : Type} [DecidableEq α] (l : List α) (y x : α) : x ∈ addUnique l y ↔ x ∈ l ∨ x = y := by
  unfold addUnique
  by_cases h : y ∈ l
  · simp only [h, if_true]; constructor
    · exact Or.inl
    · rintro (h1 | h1)
      · exact h1
      · exact h1 ▸ h
  · simp [h]

theorem nodup_addUnique {α : Type} [DecidableEq α] (l : List α) (y : α) (h : l.Nodup) : (addUnique l y).Nodup := by
  unfold addUnique
  by_cases hy : y ∈ l
  · simpa [hy] using h
  · simp only [hy, if_false]
    rw [List.nodup_append]
    refine ⟨h, by simp, ?_⟩
    intro a ha b hb
    simp at hb; subst hb
    intro e; subst e; exact hy ha

theorem mem_foldl_addUnique {α : Type} [DecidableEq α] (es l : List α) (x : α) :
    x ∈ es.foldl addUnique l ↔ x ∈ l ∨ x ∈ es := by
  induction es generalizing l with
  | nil => simp
  | cons e t ih => simp only [List.foldl_cons, ih, mem_addUnique, List.mem_cons]; grind

theorem nodup_foldl_addUnique {α : Type} [DecidableEq α] (es l : List α) (h : l.Nodup) :
    (es.foldl addUnique l).Nodup := by
  induction es generalizing l with
  | nil => simpa using h
  | cons e t ih => exact ih _ (nodup_addUnique l e h)

def stepMp (acc : Option (List Family)) (c : Cap) : Option (List Family) :=
  match c with
  | .mp a f => some (addUnique (acc.getD []) (a, f))
  | _ => acc

theorem mem_mpOf (caps : List Cap) (f : Family) : f ∈ mpOf caps ↔ Cap.mp f.1 f.2 ∈ caps := by
  simp only [mpOf, List.mem_filterMap]
  constructor
  · rintro ⟨c, hc, h⟩
    cases c <;> simp at h
    subst h; exact hc
  · intro h; exact ⟨_, h, by simp⟩

theorem mpOf_cons (c : Cap) (t : List Cap) :
    mpOf (c :: t) = (match c with | .mp a s => [(a, s)] | _ => []) ++ mpOf t := by
  cases c <;> simp [mpOf, List.filterMap_cons]

theorem foldl_stepMp_mem (caps : List Cap) (acc : Option (List Family)) (x : Family) :
    x ∈ (caps.foldl stepMp acc).getD [] ↔ x ∈ acc.getD [] ∨ x ∈ mpOf caps := by
  induction caps generalizing acc with
  | nil => simp [mpOf]
  | cons c t ih =>
    simp only [List.foldl_cons, ih, mpOf_cons]
    cases c <;> simp [stepMp, mem_addUnique] <;> grind

theorem foldl_stepMp_none (caps : List Cap) (acc : Option (List Family)) :
    caps.foldl stepMp acc = none ↔ acc = none ∧ mpOf caps = [] := by
  induction caps generalizing acc with
  | nil => simp [mpOf]
  | cons c t ih =>
    simp only [List.foldl_cons, ih, mpOf_cons]
    cases c <;> simp [stepMp]

theorem foldl_stepMp_nodup (caps : List Cap) (acc : Option (List Family)) (h : (acc.getD []).Nodup) :
    ((caps.foldl stepMp acc).getD []).Nodup := by
  induction caps generalizing acc with
  | nil => simpa using h
  | cons c t ih =>
    simp only [List.foldl_cons]
    apply ih
    cases c <;> simp [stepMp, h]
    exact nodup_addUnique _ _ h

theorem capSet_mp_eq (caps : List Cap) : (capSet caps).mp = caps.foldl stepMp none := by
  have := foldl_add_proj (·.mp) stepMp
    (by intro s c; cases c <;> simp [CapSet.add, stepMp] <;> (rename_i b _; cases b <;> simp)) caps {}
  simp only [capSet, this]

theorem capSet_mp_mem (caps : List Cap) (f : Family) :
    f ∈ (capSet caps).mp.getD [] ↔ Cap.mp f.1 f.2 ∈ caps := by
  rw [capSet_mp_eq, foldl_stepMp_mem, mem_mpOf]; simp

theorem capSet_mp_nodup (caps : List Cap) : ((capSet caps).mp.getD []).Nodup := by
  rw [capSet_mp_eq]; exact foldl_stepMp_nodup caps none (by simp)

theorem capSet_mp_none (caps : List Cap) : (capSet caps).mp = none ↔ mpOf caps = [] := by
  rw [capSet_mp_eq, foldl_stepMp_none]; simp

def stepNh (acc : Option (List Triple)) (c : Cap) : Option (List Triple) :=
  match c with
  | .nexthop es => some (es.foldl addUnique (acc.getD []))
  | _ => acc

theorem nexthopOf_cons (c : Cap) (t : List Cap) :
    nexthopOf (c :: t) = (match c with | .nexthop es => es | _ => []) ++ nexthopOf t := by
  cases c <;> simp [nexthopOf, List.flatMap_cons]

theorem foldl_stepNh_mem (caps : List Cap) (acc : Option (List Triple)) (x : Triple) :
    x ∈ (caps.foldl stepNh acc).getD [] ↔ x ∈ acc.getD [] ∨ x ∈ nexthopOf caps := by
  induction caps generalizing acc with
  | nil => simp [nexthopOf]
  | cons c t ih =>
    simp only [List.foldl_cons, ih, nexthopOf_cons]
    cases c <;> simp [stepNh, mem_foldl_addUnique] <;> grind

theorem foldl_stepNh_nodup (caps : List Cap) (acc : Option (List Triple)) (h : (acc.getD []).Nodup) :
    ((caps.foldl stepNh acc).getD []).Nodup := by
  induction caps generalizing acc with
  | nil => simpa using h
  | cons c t ih =>
    simp only [List.foldl_cons]
    apply ih
    cases c <;> simp [stepNh, h]
    exact nodup_foldl_addUnique _ _ h

theorem capSet_nexthop_eq (caps : List Cap) : (capSet caps).nexthop = caps.foldl stepNh none := by
  have := foldl_add_proj (·.nexthop) stepNh
    (by intro s c; cases c <;> simp [CapSet.add, stepNh] <;> (rename_i b _; cases b <;> simp)) caps {}
  simp only [capSet, this]

theorem capSet_nexthop_mem (caps : List Cap) (t : Triple) :
    t ∈ (capSet caps).nexthop.getD [] ↔ t ∈ nexthopOf caps := by
  rw [capSet_nexthop_eq, foldl_stepNh_mem]; simp

theorem capSet_nexthop_nodup (caps : List Cap) : ((capSet caps).nexthop.getD []).Nodup := by
  rw [capSet_nexthop_eq]; exact foldl_stepNh_nodup caps none (by simp)

theorem mem_nexthopOf (caps : List Cap) (t : Triple) : t ∈ nexthopOf caps ↔ ∃ es, Cap.nexthop es ∈ caps ∧ t ∈ es := by
  simp only [nexthopOf, List.mem_flatMap]
  constructor
  · rintro ⟨c, hc, h⟩
    cases c <;> simp at h
    exact ⟨_, hc, h⟩
  · rintro ⟨es, hc, h⟩; exact ⟨_, hc, by simpa using h⟩

end Exa.Open
