import ExaModel.Model.Api
set_option linter.unusedSimpArgs false
set_option linter.unusedVariables false
/-! Lemmas about command effects: which RIBs a handler can touch, how many replies it writes. -/
namespace Exa.Api
open Exa Exa.Rib Exa.Generated.ApiTable

theorem applyPeers_get {peers : List Nat} (f : Nat → Rib → Rib) (ribs : List Rib) {i : Nat} (h : i ∉ peers) :
    (applyPeers peers f ribs)[i]? = ribs[i]? := by
  have hc : peers.contains i = false := by simpa using h
  simp only [applyPeers, List.getElem?_mapIdx, hc]
  cases ribs[i]? <;> simp

theorem announceOne_get (nbrs : List Nbr) {peers : List Nat} (r : Route) (ribs : List Rib) {i : Nat} (h : i ∉ peers) :
    (announceOne nbrs peers r ribs)[i]? = ribs[i]? := applyPeers_get _ _ h

theorem withdrawOne_get (nbrs : List Nbr) {peers : List Nat} (r : Route) (ribs : List Rib) {i : Nat} (h : i ∉ peers) :
    (withdrawOne nbrs peers r ribs)[i]? = ribs[i]? := applyPeers_get _ _ h

theorem announceRoutes_get (nbrs : List Nbr) (v : Bool) {peers : List Nat} {i : Nat} (h : i ∉ peers) (rs : List PRoute) :
    ∀ ribs, (announceRoutes nbrs v peers rs ribs).1[i]? = ribs[i]? := by
  induction rs with
  | nil => intro ribs; rfl
  | cons r rs ih =>
    intro ribs
    simp only [announceRoutes]
    split
    · rfl
    · rw [ih, announceOne_get nbrs r.route ribs h]

theorem withdrawRoutes_get (nbrs : List Nbr) {peers : List Nat} {i : Nat} (h : i ∉ peers) (rs : List PRoute) :
    ∀ ribs, (withdrawRoutes nbrs peers rs ribs)[i]? = ribs[i]? := by
  induction rs with
  | nil => intro ribs; rfl
  | cons r rs ih =>
    intro ribs
    simp only [withdrawRoutes, List.foldl_cons] at ih ⊢
    rw [ih, withdrawOne_get nbrs r.route ribs h]

theorem groupAnnounce_get (nbrs : List Nbr) {peers : List Nat} {i : Nat} (h : i ∉ peers) (rs : List PRoute) :
    ∀ ribs, (rs.foldl (fun ribs r => if r.valid then announceOne nbrs peers r.route ribs else ribs) ribs)[i]? = ribs[i]? := by
  induction rs with
  | nil => intro ribs; rfl
  | cons r rs ih =>
    intro ribs
    simp only [List.foldl_cons]
    rw [ih]
    split
    · exact announceOne_get nbrs r.route ribs h
    · rfl

theorem groupOne_get (env : Env) {peers : List Nat} {i : Nat} (h : i ∉ peers) (ribs : List Rib) (cmd : Cmd) :
    (groupOne env peers ribs cmd).1[i]? = ribs[i]? := by
  unfold groupOne
  split
  · rfl
  · simp only
    split
    · rfl
    · split
      · split
        · rfl
        · exact groupAnnounce_get env.nbrs h _ ribs
      · split
        · split
          · rfl
          · exact withdrawRoutes_get env.nbrs h _ ribs
        · rfl

theorem groupAll_get (env : Env) {peers : List Nat} {i : Nat} (h : i ∉ peers) (cmds : List Cmd) :
    ∀ ribs, (groupAll env peers cmds ribs).1[i]? = ribs[i]? := by
  induction cmds with
  | nil => intro ribs; rfl
  | cons c cs ih =>
    intro ribs
    simp only [groupAll]
    rw [ih, groupOne_get env h]

/-- A handler other than the watchdog ones touches only the RIBs of `peers`; the watchdog
    handlers too once they walk `peers` (quirk off). -/
theorem runHandler_get (env : Env) (st : St) (h : Handler) {peers : List Nat} (rest : List Tok) (action : Nat)
    {i : Nat} (hw : env.q.watchdogAll = false) (hi : i ∉ peers) :
    (runHandler env st h peers rest action).1.ribs[i]? = st.ribs[i]? := by
  unfold runHandler
  split
  · split
    · rfl
    · rfl
    · split
      · exact announceRoutes_get env.nbrs _ hi _ st.ribs
      · exact withdrawRoutes_get env.nbrs hi _ st.ribs
  · split
    all_goals first
      | rfl
      | (simp only [hw]; exact applyPeers_get _ _ hi)
      | (split <;> first | rfl | exact applyPeers_get _ _ hi | (split <;> first | rfl | exact applyPeers_get _ _ hi | (split <;> rfl)))

theorem v6Typed_get (env : Env) (st : St) (ann : Bool) {peers : List Nat} (rest : List Tok)
    {i : Nat} (hw : env.q.watchdogAll = false) (hi : i ∉ peers) :
    (v6Typed env st ann peers rest).1.ribs[i]? = st.ribs[i]? := by
  unfold v6Typed
  split
  · rfl
  · split
    · rfl
    · exact runHandler_get env st _ _ _ hw hi

/-- Whatever the command, only the RIBs of the peers handed to the handler can change
    (`group end` excepted: it replays the buffered lines on all peers of the service). -/
theorem exec_get (env : Env) (st : St) (cmd : Cmd) (h : Handler) (sel : Option Sel) {peers : List Nat}
    (rest : List Tok) (action : Nat) {i : Nat} (hw : env.q.watchdogAll = false) (hg : h ≠ .group_group_end)
    (hi : i ∉ peers) : (exec env st cmd (.call h sel peers rest action)).1.ribs[i]? = st.ribs[i]? := by
  unfold exec
  simp only
  split
  · exact v6Typed_get env st true rest hw hi
  · exact v6Typed_get env st false rest hw hi
  · split <;> rfl
  · exact absurd rfl hg
  · split
    · rfl
    · exact groupAll_get env hi _ st.ribs
  · exact runHandler_get env st h rest action hw hi

/-! ### acknowledgements -/

theorem reply_len (st : St) (hack : st.ack = true) (r : Reply) : (st.reply r).length = 1 := by
  simp [St.reply, hack]

theorem runHandler_one (env : Env) (st : St) (h : Handler) (peers : List Nat) (rest : List Tok) (action : Nat)
    (hack : st.ack = true) (hs : h ≠ .reactor_silence_ack) (hc : h ≠ .reactor_crash)
    (hm : (runHandler env st h peers rest action).2.modelled = true) :
    (runHandler env st h peers rest action).2.replies.length = 1 := by
  revert hm
  unfold runHandler
  split
  · split
    · intro _; exact reply_len st hack _
    · intro _; exact reply_len st hack _
    · split <;> (intro _; exact reply_len st hack _)
  · split
    all_goals (intro hm; repeat' split)
    all_goals first
      | exact reply_len st hack _
      | rfl
      | exact absurd rfl hs
      | exact absurd rfl hc
      | simp_all

theorem lookupTok_mem {β : Type} (k : Tok) (l : List (Tok × β)) (v : β) (h : lookupTok k l = some v) :
    ∃ k', (k', v) ∈ l := by
  induction l with
  | nil => simp [lookupTok] at h
  | cons p t ih =>
    obtain ⟨k1, v1⟩ := p
    simp only [lookupTok] at h
    split at h
    · simp only [Option.some.injEq] at h; subst h; exact ⟨k1, by simp⟩
    · obtain ⟨k', hk⟩ := ih h; exact ⟨k', by simp [hk]⟩

/-- table fact: the announce/withdraw type tables name neither `silence_ack` nor `crash` -/
theorem typeTables_ok : ∀ p ∈ v6AnnounceTypes ++ v6WithdrawTypes,
    p.2 ≠ Handler.reactor_silence_ack ∧ p.2 ≠ Handler.reactor_crash := by decide

theorem v6Typed_one (env : Env) (st : St) (ann : Bool) (peers : List Nat) (rest : List Tok)
    (hack : st.ack = true) (hm : (v6Typed env st ann peers rest).2.modelled = true) :
    (v6Typed env st ann peers rest).2.replies.length = 1 := by
  revert hm
  unfold v6Typed
  split
  · intro _; exact reply_len st hack _
  · split
    · intro _; exact reply_len st hack _
    · rename_i ty _ h hl
      intro hm
      obtain ⟨k', hk⟩ := lookupTok_mem _ _ _ hl
      have hmem : (k', h) ∈ v6AnnounceTypes ++ v6WithdrawTypes := by
        cases ann <;> simp at hk <;> simp [hk]
      have := typeTables_ok (k', h) hmem
      exact runHandler_one env st h peers _ _ hack this.1 this.2 hm

/-- With acknowledgements on, every command within the model gets exactly one terminal reply —
    except `silence-ack` (none: it switches them off) and `crash` (two: fault injection). -/
theorem exec_one (env : Env) (st : St) (cmd : Cmd) (r : Routed) (hack : st.ack = true)
    (hs : ∀ sel peers rest action, r ≠ .call .reactor_silence_ack sel peers rest action)
    (hc : ∀ sel peers rest action, r ≠ .call .reactor_crash sel peers rest action)
    (hm : (exec env st cmd r).2.modelled = true) : (exec env st cmd r).2.replies.length = 1 := by
  revert hm
  unfold exec
  split
  · intro _; exact reply_len st hack _
  · intro _; exact reply_len st hack _
  · rename_i h sel peers rest action
    simp only
    split
    · exact v6Typed_one env st true peers rest hack
    · exact v6Typed_one env st false peers rest hack
    · split <;> (intro _; exact reply_len st hack _)
    · split <;> (intro _; exact reply_len st hack _)
    · split <;> (intro _; exact reply_len st hack _)
    · intro hm
      exact runHandler_one env st h peers rest action hack
        (fun e => hs sel peers rest action (by rw [e])) (fun e => hc sel peers rest action (by rw [e])) hm

/-! ### the parser refuses the text -/

/-- the route grammar refuses whatever it is given (no route / exception) -/
def Refuses (env : Env) : Prop := ∀ k, env.parse k = none ∨ env.parse k = some []

/-- handlers that change a RIB without parsing any route text -/
def changesWithoutParsing : Handler → Bool
  | .watchdog_announce_watchdog | .watchdog_withdraw_watchdog | .rib_flush_adj_rib_out | .rib_clear_adj_rib => true
  | _ => false

theorem runHandler_refused (env : Env) (st : St) (h : Handler) (peers : List Nat) (rest : List Tok) (action : Nat)
    (hp : Refuses env) (hh : changesWithoutParsing h = false) :
    (runHandler env st h peers rest action).1.ribs = st.ribs := by
  unfold runHandler
  split
  · rename_i fn ann validate _
    rcases hp { fn := fn, action := action, toks := stripSync rest } with e | e <;> simp [e]
  · split
    all_goals first
      | rfl
      | (simp [changesWithoutParsing] at hh; done)
      | (repeat' split) <;> rfl

/-- table fact: only the type word `watchdog` leads to a handler that changes a RIB without parsing -/
theorem typeTables_parse : ∀ p ∈ v6AnnounceTypes ++ v6WithdrawTypes,
    p.1 ≠ Kw.k_watchdog → changesWithoutParsing p.2 = false := by decide

theorem lookupTok_mem' {β : Type} (k : Tok) (l : List (Tok × β)) (v : β) (h : lookupTok k l = some v) :
    (k, v) ∈ l := by
  induction l with
  | nil => simp [lookupTok] at h
  | cons p t ih =>
    obtain ⟨k1, v1⟩ := p
    simp only [lookupTok] at h
    split at h
    · rename_i hk
      simp only [Option.some.injEq] at h; subst h
      have : k1 = k := by simpa using hk
      subst this; simp
    · simp [ih h]

theorem v6Typed_refused (env : Env) (st : St) (ann : Bool) (peers : List Nat) (rest : List Tok)
    (hp : Refuses env) (hw : rest.head? ≠ some Kw.k_watchdog) : (v6Typed env st ann peers rest).1.ribs = st.ribs := by
  unfold v6Typed
  split
  · rfl
  · split
    · rfl
    · rename_i ty tl _ h hl
      have hmem : (ty, h) ∈ v6AnnounceTypes ++ v6WithdrawTypes := by
        have := lookupTok_mem' _ _ _ hl
        cases ann <;> simp at this <;> simp [this]
      have hne : ty ≠ Kw.k_watchdog := by
        intro e; apply hw; simp [e]
      exact runHandler_refused env st h peers _ _ hp (typeTables_parse (ty, h) hmem hne)

theorem groupOne_refused (env : Env) (peers : List Nat) (ribs : List Rib) (cmd : Cmd) (hp : Refuses env) :
    (groupOne env peers ribs cmd).1 = ribs := by
  unfold groupOne
  split
  · rfl
  · rename_i a rest _
    simp only
    split
    · rfl
    · split
      · rcases hp { fn := 6, action := 1, toks := stripSync rest } with e | e <;> simp [e]
      · split
        · rcases hp { fn := 6, action := 2, toks := stripSync rest } with e | e <;> simp [e, withdrawRoutes]
        · rfl

theorem groupAll_refused (env : Env) (peers : List Nat) (cmds : List Cmd) (hp : Refuses env) :
    ∀ ribs, (groupAll env peers cmds ribs).1 = ribs := by
  induction cmds with
  | nil => intro ribs; rfl
  | cons c cs ih => intro ribs; simp only [groupAll]; rw [ih, groupOne_refused env peers ribs c hp]

/-- A command none of whose route texts parses changes no RIB, wherever it is routed (direct
    handler, `v6_announce`/`v6_withdraw`, buffered in a group, `group end`, inline group). -/
theorem exec_refused (env : Env) (st : St) (cmd : Cmd) (r : Routed) (hp : Refuses env)
    (hh : ∀ h sel peers rest action, r = .call h sel peers rest action →
      changesWithoutParsing h = false ∧ rest.head? ≠ some Kw.k_watchdog) :
    (exec env st cmd r).1.ribs = st.ribs := by
  unfold exec
  split
  · rfl
  · rfl
  · rename_i h sel peers rest action
    obtain ⟨h1, h2⟩ := hh h sel peers rest action rfl
    simp only
    split
    · exact v6Typed_refused env st true peers rest hp h2
    · exact v6Typed_refused env st false peers rest hp h2
    · split <;> rfl
    · split
      · rfl
      · exact groupAll_refused env _ _ hp st.ribs
    · split
      · rfl
      · exact groupAll_refused env _ _ hp st.ribs
    · exact runHandler_refused env st h peers rest action hp h1

end Exa.Api
