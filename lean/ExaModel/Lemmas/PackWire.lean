import ExaModel.Lemmas.Wire
import ExaModel.Lemmas.PackSpec
set_option linter.unusedSimpArgs false
set_option linter.unusedVariables false
set_option linter.unusedSectionVars false
/-!
  M-Pack ↔ M-Wire: the UPDATE a message of the partition stands for.

  M-Pack works over sizes.  `Real` supplies what is behind the sizes — the session parameters, the
  (afi, safi) of every family identifier, a wire NLRI for every abstract NLRI, the bytes of every
  next hop and the common attribute block as a list of RFC attributes — and `realise ρ m` is the
  `Exa.Wire.UpdateSem` a message `m` then denotes, laid out the way `messages` lays it out:
  `prefix(withdraws) + prefix(mp_unreach + attr + mp_reach) + announced`.

  `Realises ρ i` lists the side conditions under which the sizes M-Pack computes ARE the lengths
  of the reference encoding (`realise_len`) and the encoding is one a peer accepts
  (`realise_wf` : `Wire.WFUpdate`), so that `decodeRaw_encodeUpdate` applies.
-/
namespace Exa.Pack
open Exa

/-- what is behind the sizes -/
structure Real where
  p : Wire.Params
  /-- family identifier of M-Pack → (afi, safi) -/
  famOf : Nat → Nat × Nat
  /-- the wire NLRI of an abstract NLRI -/
  nl : Nlri → Wire.Nlri
  /-- next-hop identity → next-hop bytes -/
  nhb : Nat → Bytes
  /-- the common attribute block `attr` -/
  blk : List Wire.Attr

/-- flags `MPNLRICollection._attribute_header` writes: optional, extended length above 255 -/
def mpFlags (payload : Nat) : Wire.Flags :=
  { opt := true, trans := false, part := false, ext := decide (payload > 255) }

def reachAttr (ρ : Real) (r : Mp) : Wire.Attr :=
  { flags := mpFlags r.payload,
    val := .mpReach (ρ.famOf r.fam).1 (ρ.famOf r.fam).2 (ρ.nhb r.nh) (r.items.map ρ.nl) }

def unreachAttr (ρ : Real) (u : Mp) : Wire.Attr :=
  { flags := mpFlags u.payload,
    val := .mpUnreach (ρ.famOf u.fam).1 (ρ.famOf u.fam).2 (u.items.map ρ.nl) }

def oattr (f : Mp → Wire.Attr) : Option Mp → List Wire.Attr
  | none => []
  | some a => [f a]

/-- **the UPDATE a message stands for** -/
def realise (ρ : Real) (m : Msg) : Wire.UpdateSem :=
  { withdrawn := m.wd4.map ρ.nl,
    attrs := oattr (unreachAttr ρ) m.unreach ++ ((if m.attrs then ρ.blk else []) ++ oattr (reachAttr ρ) m.reach),
    nlri := m.ann4.map ρ.nl }

/-- `x` in a classic field (`wd`: Withdrawn Routes): its encoding has the size M-Pack uses and is well formed -/
def RealV4 (ρ : Real) (wd : Bool) (x : Nlri) : Prop :=
  (Wire.encNlri 1 wd (ρ.nl x)).length = x.size ∧ Wire.WFNlri 1 1 (ρ.p.ap 1 1) wd (ρ.nl x)

/-- `x` in an MP attribute of its family -/
def RealMp (ρ : Real) (wd : Bool) (x : Nlri) : Prop :=
  (Wire.encNlri (ρ.famOf x.fam).2 wd (ρ.nl x)).length = x.size ∧
  Wire.WFNlri (ρ.famOf x.fam).1 (ρ.famOf x.fam).2 (ρ.p.ap (ρ.famOf x.fam).1 (ρ.famOf x.fam).2) wd (ρ.nl x) ∧
  Wire.supported (ρ.famOf x.fam).1 (ρ.famOf x.fam).2 = true

/-- the next hop of an MP announce: bytes of the length M-Pack uses, a length RFC 4760/2545/8950 allow -/
def RealNh (ρ : Real) (x : Nlri) : Prop :=
  (ρ.nhb x.nh).length = x.nhLen ∧ x.nhLen < 256 ∧
  Wire.nhLenOk ρ.p (ρ.famOf x.fam).1 (ρ.famOf x.fam).2 x.nhLen = true

instance (ρ : Real) (wd : Bool) (x : Nlri) : Decidable (RealV4 ρ wd x) := by unfold RealV4; exact inferInstance
instance (ρ : Real) (wd : Bool) (x : Nlri) : Decidable (RealMp ρ wd x) := by unfold RealMp; exact inferInstance
instance (ρ : Real) (x : Nlri) : Decidable (RealNh ρ x) := by unfold RealNh; exact inferInstance

/-- **side conditions**: `ρ` is a realisation of the request `i` -/
structure Realises (ρ : Real) (i : Input) : Prop where
  msgSize : ρ.p.msgSize = i.M
  small : i.M ≤ 65535
  /-- the attribute block has the length M-Pack was given -/
  blkLen : (Wire.encAttrs ρ.p ρ.blk).length = chosenAttr i
  blkWF : ∀ a ∈ ρ.blk, Wire.WFAttr ρ.p a
  /-- one attribute per type code, and MP_REACH / MP_UNREACH are not in the common block -/
  blkNodup : (ρ.blk.map Wire.Attr.code).Nodup
  blk14 : 14 ∉ ρ.blk.map Wire.Attr.code
  blk15 : 15 ∉ ρ.blk.map Wire.Attr.code
  va : ∀ x ∈ v4Anns i, RealV4 ρ false x
  vw : ∀ x ∈ v4Wds i, RealV4 ρ true x
  ma : ∀ x ∈ mpAnns i, RealMp ρ false x ∧ RealNh ρ x
  mw : ∀ x ∈ mpWds i, RealMp ρ true x
  /-- RFC 4271 mandatory attributes are in the block when something is announced -/
  mand4 : v4Anns i ≠ [] → Wire.hasCode ρ.blk 1 = true ∧ Wire.hasCode ρ.blk 2 = true ∧ Wire.hasCode ρ.blk 3 = true
  mandMp : mpAnns i ≠ [] → Wire.hasCode ρ.blk 1 = true ∧ Wire.hasCode ρ.blk 2 = true

/-! ### lengths -/

theorem encNlris_map_length (nl : Nlri → Wire.Nlri) (safi : Nat) (wd : Bool) :
    ∀ l : List Nlri, (∀ x ∈ l, (Wire.encNlri safi wd (nl x)).length = x.size) →
      (Wire.encNlris safi wd (l.map nl)).length = sz l := by
  intro l
  induction l with
  | nil => intro _; rfl
  | cons x xs ih =>
    intro h
    simp only [List.map_cons, Wire.encNlris, List.length_append, sz_cons]
    rw [h x (by simp), ih (fun y hy => h y (by simp [hy]))]

theorem encAttrs_app (p : Wire.Params) (a b : List Wire.Attr) :
    Wire.encAttrs p (a ++ b) = Wire.encAttrs p a ++ Wire.encAttrs p b := by
  induction a with
  | nil => rfl
  | cons x xs ih => simp [Wire.encAttrs, ih]

theorem encAttr_mp_length (p : Wire.Params) (v : Wire.AttrVal) (n : Nat) (h : (Wire.encVal p v).length = n) :
    (Wire.encAttr p { flags := mpFlags n, val := v }).length = hdrLen n + n := by
  unfold Wire.encAttr Wire.encLen mpFlags hdrLen
  simp only [h]
  by_cases hn : n > 255
  · simp [hn]; omega
  · simp [hn]; omega

theorem reachAttr_length (ρ : Real) (r : Mp) (hh : r.hdr = 5 + (ρ.nhb r.nh).length)
    (hs : ∀ x ∈ r.items, (Wire.encNlri (ρ.famOf r.fam).2 false (ρ.nl x)).length = x.size) :
    (Wire.encAttr ρ.p (reachAttr ρ r)).length = r.wire := by
  unfold reachAttr Mp.wire
  apply encAttr_mp_length
  have := encNlris_map_length ρ.nl (ρ.famOf r.fam).2 false r.items hs
  simp [Wire.encVal, this, Mp.payload, hh]; omega

theorem unreachAttr_length (ρ : Real) (u : Mp) (hh : u.hdr = 3)
    (hs : ∀ x ∈ u.items, (Wire.encNlri (ρ.famOf u.fam).2 true (ρ.nl x)).length = x.size) :
    (Wire.encAttr ρ.p (unreachAttr ρ u)).length = u.wire := by
  unfold unreachAttr Mp.wire
  apply encAttr_mp_length
  have := encNlris_map_length ρ.nl (ρ.famOf u.fam).2 true u.items hs
  simp [Wire.encVal, this, Mp.payload, hh]; omega

/-- an item of a non-empty list -/
theorem exists_mem_of_sz_pos {l : List Nlri} (h : 0 < sz l) : ∃ x, x ∈ l := by
  cases l with
  | nil => simp at h
  | cons x xs => exact ⟨x, by simp⟩

section msg
variable {ρ : Real} {i : Input} (H : Realises ρ i) {m : Msg}
  (s : SecOK (chosenAttr i) (A4g i) (W4g i) (Rg i) (Ug i) m)
include H s

theorem reach_facts (r : Mp) (hr : m.reach = some r) :
    r.hdr = 5 + (ρ.nhb r.nh).length ∧ (ρ.nhb r.nh).length < 256 ∧
    Wire.nhLenOk ρ.p (ρ.famOf r.fam).1 (ρ.famOf r.fam).2 (ρ.nhb r.nh).length = true ∧
    Wire.supported (ρ.famOf r.fam).1 (ρ.famOf r.fam).2 = true ∧ r.items ≠ [] ∧ mpAnns i ≠ [] ∧
    (∀ x ∈ r.items, (Wire.encNlri (ρ.famOf r.fam).2 false (ρ.nl x)).length = x.size ∧
      Wire.WFNlri (ρ.famOf r.fam).1 (ρ.famOf r.fam).2 (ρ.p.ap (ρ.famOf r.fam).1 (ρ.famOf r.fam).2) false (ρ.nl x)) := by
  obtain ⟨hh, hpos, hit⟩ := s.r r hr
  obtain ⟨x0, hx0⟩ := exists_mem_of_sz_pos hpos
  obtain ⟨hx0a, hf0, hn0, hl0, _⟩ := hit x0 hx0
  obtain ⟨⟨_, _, hsup⟩, hnh1, hnh2, hnh3⟩ := H.ma x0 hx0a
  rw [hn0, hl0] at hnh1
  rw [hf0] at hsup hnh3
  refine ⟨by omega, by omega, by rw [hnh1]; rw [hl0] at hnh3; exact hnh3, hsup, ?_, ?_, ?_⟩
  · intro h; rw [h] at hx0; simp at hx0
  · intro h; rw [h] at hx0a; simp at hx0a
  · intro x hx
    obtain ⟨hxa, hf, _, _, _⟩ := hit x hx
    obtain ⟨⟨h1, h2, _⟩, _⟩ := H.ma x hxa
    rw [hf] at h1 h2
    exact ⟨h1, h2⟩

theorem unreach_facts (u : Mp) (hu : m.unreach = some u) :
    u.hdr = 3 ∧ Wire.supported (ρ.famOf u.fam).1 (ρ.famOf u.fam).2 = true ∧
    (∀ x ∈ u.items, (Wire.encNlri (ρ.famOf u.fam).2 true (ρ.nl x)).length = x.size ∧
      Wire.WFNlri (ρ.famOf u.fam).1 (ρ.famOf u.fam).2 (ρ.p.ap (ρ.famOf u.fam).1 (ρ.famOf u.fam).2) true (ρ.nl x)) := by
  obtain ⟨_, hh, hpos, hit⟩ := s.u u hu
  have key : ∀ x ∈ u.items, (Wire.encNlri (ρ.famOf u.fam).2 true (ρ.nl x)).length = x.size ∧
      Wire.WFNlri (ρ.famOf u.fam).1 (ρ.famOf u.fam).2 (ρ.p.ap (ρ.famOf u.fam).1 (ρ.famOf u.fam).2) true (ρ.nl x) ∧
      Wire.supported (ρ.famOf u.fam).1 (ρ.famOf u.fam).2 = true := by
    intro x hx
    obtain ⟨hxw, hf, _⟩ := hit x hx
    obtain ⟨h1, h2, h3⟩ := H.mw x hxw
    rw [hf] at h1 h2 h3
    exact ⟨h1, h2, h3⟩
  obtain ⟨x0, hx0⟩ := exists_mem_of_sz_pos hpos
  exact ⟨hh, (key x0 hx0).2.2, fun x hx => ⟨(key x hx).1, (key x hx).2.1⟩⟩

theorem wd4_len : (Wire.encNlris 1 true (m.wd4.map ρ.nl)).length = sz m.wd4 :=
  encNlris_map_length ρ.nl 1 true m.wd4 (fun x hx => (H.vw x (s.w4 x hx).1).1)

theorem ann4_len : (Wire.encNlris 1 false (m.ann4.map ρ.nl)).length = sz m.ann4 :=
  encNlris_map_length ρ.nl 1 false m.ann4 (fun x hx => (H.va x (s.a4 x hx).1).1)

theorem attrs_len :
    (Wire.encAttrs ρ.p (realise ρ m).attrs).length
      = owire m.unreach + (if m.attrs then chosenAttr i else 0) + owire m.reach := by
  unfold realise
  simp only [encAttrs_app, List.length_append]
  have e1 : (Wire.encAttrs ρ.p (oattr (unreachAttr ρ) m.unreach)).length = owire m.unreach := by
    cases hu : m.unreach with
    | none => rfl
    | some u =>
      obtain ⟨hh, _, hit⟩ := unreach_facts H s u hu
      simp [oattr, Wire.encAttrs, unreachAttr_length ρ u hh (fun x hx => (hit x hx).1)]
  have e2 : (Wire.encAttrs ρ.p (oattr (reachAttr ρ) m.reach)).length = owire m.reach := by
    cases hr : m.reach with
    | none => rfl
    | some r =>
      obtain ⟨hh, _, _, _, _, _, hit⟩ := reach_facts H s r hr
      simp [oattr, Wire.encAttrs, reachAttr_length ρ r hh (fun x hx => (hit x hx).1)]
  have e3 : (Wire.encAttrs ρ.p (if m.attrs = true then ρ.blk else [])).length = (if m.attrs then chosenAttr i else 0) := by
    cases m.attrs <;> simp [Wire.encAttrs, H.blkLen]
  rw [e1, e2, e3]; omega

/-- **the length M-Pack computes is the length of the reference encoding** (+ the 19-byte header) -/
theorem realise_len : m.len = 19 + (Wire.encodeUpdate ρ.p (realise ρ m)).length := by
  have h := congrArg Msg.len s.isMk
  have ha := attrs_len H s
  have hw := wd4_len H s
  have hn := ann4_len H s
  unfold Wire.encodeUpdate
  simp only [List.length_append, be16_length, ha]
  show m.len = 19 + (2 + ((Wire.encNlris 1 true (m.wd4.map ρ.nl)).length + (2 + (_ + (Wire.encNlris 1 false (m.ann4.map ρ.nl)).length))))
  rw [hw, hn, h]
  unfold mkMsg
  simp only
  cases m.attrs <;> simp <;> omega

end msg

/-! ### the encoding is one a peer accepts -/

theorem hasCode_app (a b : List Wire.Attr) (c : Nat) :
    Wire.hasCode (a ++ b) c = (Wire.hasCode a c || Wire.hasCode b c) := by
  simp [Wire.hasCode, List.any_append]

theorem hasCode_of_not_mem (as : List Wire.Attr) (c : Nat) (h : c ∉ as.map Wire.Attr.code) : Wire.hasCode as c = false := by
  induction as with
  | nil => rfl
  | cons a t ih =>
    simp only [List.map_cons, List.mem_cons, not_or] at h
    simp only [Wire.hasCode, List.any_cons, Bool.or_eq_false_iff]
    refine ⟨?_, ih h.2⟩
    simpa using fun e => h.1 e.symm

theorem dupCode_of_nodup (as : List Wire.Attr) (h : (as.map Wire.Attr.code).Nodup) : Wire.dupCode as = false := by
  induction as with
  | nil => rfl
  | cons a t ih =>
    simp only [List.map_cons, List.nodup_cons] at h
    simp only [Wire.dupCode, Bool.or_eq_false_iff]
    exact ⟨hasCode_of_not_mem t a.code h.1, ih h.2⟩

theorem reachAttr_code (ρ : Real) (r : Mp) : (reachAttr ρ r).code = 14 := rfl
theorem unreachAttr_code (ρ : Real) (u : Mp) : (unreachAttr ρ u).code = 15 := rfl

theorem mpFlags_ok14 (n : Nat) : Wire.flagErr (mpFlags n) 14 = none := by
  unfold Wire.flagErr Wire.flagSpec Wire.specTable mpFlags; simp [List.lookup]
theorem mpFlags_ok15 (n : Nat) : Wire.flagErr (mpFlags n) 15 = none := by
  unfold Wire.flagErr Wire.flagSpec Wire.specTable mpFlags; simp [List.lookup]

section wf
variable {ρ : Real} {i : Input} (H : Realises ρ i) {m : Msg}
  (s : SecOK (chosenAttr i) (A4g i) (W4g i) (Rg i) (Ug i) m)
include H s

theorem codes_nodup : ((realise ρ m).attrs.map Wire.Attr.code).Nodup := by
  have hn := H.blkNodup
  have hb14 : ∀ a ∈ ρ.blk, ¬ a.code = 14 := fun a ha e => H.blk14 (e ▸ List.mem_map.2 ⟨a, ha, rfl⟩)
  have hb15 : ∀ a ∈ ρ.blk, ¬ a.code = 15 := fun a ha e => H.blk15 (e ▸ List.mem_map.2 ⟨a, ha, rfl⟩)
  unfold realise
  cases m.unreach <;> cases m.reach <;> cases m.attrs <;>
    simp [oattr, reachAttr_code, unreachAttr_code, List.nodup_append, List.nodup_cons, hn] <;>
    grind

theorem hasCode_realise (c : Nat) (h14 : c ≠ 14) (h15 : c ≠ 15) :
    Wire.hasCode (realise ρ m).attrs c = (m.attrs && Wire.hasCode ρ.blk c) := by
  have e14 : (14 == c) = false := by simpa using Ne.symm h14
  have e15 : (15 == c) = false := by simpa using Ne.symm h15
  unfold realise
  cases m.unreach <;> cases m.reach <;> cases m.attrs <;>
    simp [oattr, hasCode_app, Wire.hasCode, reachAttr_code, unreachAttr_code, e14, e15]

theorem hasCode14_realise : Wire.hasCode (realise ρ m).attrs 14 = m.reach.isSome := by
  have hb14 : ∀ a ∈ ρ.blk, ¬ a.code = 14 := fun a ha e => H.blk14 (e ▸ List.mem_map.2 ⟨a, ha, rfl⟩)
  unfold realise
  cases m.unreach <;> cases m.reach <;> cases m.attrs <;>
    simp [oattr, hasCode_app, Wire.hasCode, reachAttr_code, unreachAttr_code] <;> exact hb14

theorem mpErr_realise : (realise ρ m).attrs.any (Wire.mpErr ρ.p) = false := by
  rw [List.any_eq_false]
  intro a ha
  unfold realise at ha
  simp only [List.mem_append] at ha
  rcases ha with ha | ha | ha
  · cases hu : m.unreach with
    | none => simp [hu, oattr] at ha
    | some u => simp [hu, oattr] at ha; subst ha; simp [Wire.mpErr, unreachAttr]
  · have hab : a ∈ ρ.blk := by
      cases hb : m.attrs with
      | false => simp [hb] at ha
      | true => simpa [hb] using ha
    have hc : a.code ≠ 14 := fun e => H.blk14 (e ▸ List.mem_map.2 ⟨a, hab, rfl⟩)
    unfold Wire.mpErr
    cases hv : a.val <;> simp
    case mpReach afi safi nh ns => exact absurd (by simp [Wire.Attr.code, hv, Wire.AttrVal.code]) hc
  · cases hr : m.reach with
    | none => simp [hr, oattr] at ha
    | some r =>
      simp [hr, oattr] at ha; subst ha
      obtain ⟨_, _, hnh, _, hne, _, _⟩ := reach_facts H s r hr
      simp [Wire.mpErr, reachAttr, hnh, hne]

theorem semErr_realise : Wire.semErr ρ.p (realise ρ m) = none := by
  -- the NLRI field is non-empty only in a message that carries the block with ORIGIN, AS_PATH, NEXT_HOP
  have c3 : (!(realise ρ m).nlri.isEmpty && !(m.attrs && Wire.hasCode ρ.blk 1 && (m.attrs && Wire.hasCode ρ.blk 2)
      && (m.attrs && Wire.hasCode ρ.blk 3))) = false := by
    cases hl : m.ann4 with
    | nil => simp [realise, hl]
    | cons x xs =>
      have hx : x ∈ m.ann4 := by simp [hl]
      have hxa := (s.a4 x hx).1
      have hne : v4Anns i ≠ [] := fun h => by rw [h] at hxa; simp at hxa
      obtain ⟨h1, h2, h3⟩ := H.mand4 hne
      have hat : m.attrs = true := by
        rcases s.att with h | ⟨h0, _⟩
        · exact h
        · exfalso
          have hsz := (H.va x hxa).1
          have := Wire.encNlri_length_pos 1 false (ρ.nl x)
          rw [hl] at h0; simp at h0; omega
      simp [hat, h1, h2, h3]
  have c4 : (m.reach.isSome && !(m.attrs && Wire.hasCode ρ.blk 1 && (m.attrs && Wire.hasCode ρ.blk 2))) = false := by
    cases hr : m.reach with
    | none => simp
    | some r =>
      obtain ⟨_, _, _, _, _, hne, _⟩ := reach_facts H s r hr
      obtain ⟨h1, h2⟩ := H.mandMp hne
      have hat : m.attrs = true := by
        rcases s.att with h | ⟨_, h0⟩
        · exact h
        · rw [hr] at h0; cases h0
      simp [hat, h1, h2]
  unfold Wire.semErr
  rw [dupCode_of_nodup _ (codes_nodup H s), mpErr_realise H s, hasCode14_realise H s,
    hasCode_realise H s 1 (by decide) (by decide), hasCode_realise H s 2 (by decide) (by decide),
    hasCode_realise H s 3 (by decide) (by decide), c3, c4]
  simp

/-- **the UPDATE a message stands for is one a peer accepts** (`Wire.WFUpdate`), once the message is
    within the negotiated maximum -/
theorem realise_wf (hlen : m.len ≤ i.M) : Wire.WFUpdate ρ.p (realise ρ m) := by
  have hl := realise_len H s
  have ha := attrs_len H s
  have hw := wd4_len H s
  have hn := ann4_len H s
  have hM := H.small
  have hEnc : (Wire.encodeUpdate ρ.p (realise ρ m)).length
      = 2 + ((Wire.encNlris 1 true (realise ρ m).withdrawn).length
          + (2 + ((Wire.encAttrs ρ.p (realise ρ m).attrs).length + (Wire.encNlris 1 false (realise ρ m).nlri).length))) := by
    unfold Wire.encodeUpdate; simp [List.length_append]
  refine ⟨?_, ?_, ?_, ?_, ?_, ?_, semErr_realise H s⟩
  · intro n hn'
    simp only [realise, List.mem_map] at hn'
    obtain ⟨x, hx, rfl⟩ := hn'
    exact (H.vw x (s.w4 x hx).1).2
  · intro a ha'
    unfold realise at ha'
    simp only [List.mem_append] at ha'
    -- an MP attribute is no longer than the message it is in
    have bound : ∀ n, hdrLen n + n ≤ 65535 → n < (if (mpFlags n).ext = true then 65536 else 256) := by
      intro n h
      unfold mpFlags hdrLen at *
      by_cases hn : n > 255 <;> simp [hn] at h ⊢ <;> omega
    rcases ha' with ha' | ha' | ha'
    · cases hu : m.unreach with
      | none => simp [hu, oattr] at ha'
      | some u =>
        simp [hu, oattr] at ha'; subst ha'
        obtain ⟨hh, hsup, hit⟩ := unreach_facts H s u hu
        have hlenA := unreachAttr_length ρ u hh (fun x hx => (hit x hx).1)
        have hv : (Wire.encVal ρ.p (unreachAttr ρ u).val).length = u.payload := by
          have := encNlris_map_length ρ.nl (ρ.famOf u.fam).2 true u.items (fun x hx => (hit x hx).1)
          simp [unreachAttr, Wire.encVal, this, Mp.payload, hh]; omega
        refine ⟨mpFlags_ok15 _, ⟨hsup, ?_⟩, ?_⟩
        · intro n hn'
          simp only [List.mem_map] at hn'
          obtain ⟨x, hx, rfl⟩ := hn'
          exact (hit x hx).2
        · rw [hv]
          apply bound
          have : u.wire ≤ m.len := by
            rw [hl, hEnc, ha, hu]; simp; omega
          unfold Mp.wire at this; omega
    · have hab : a ∈ ρ.blk := by
        cases hb : m.attrs with
        | false => simp [hb] at ha'
        | true => simpa [hb] using ha'
      exact H.blkWF a hab
    · cases hr : m.reach with
      | none => simp [hr, oattr] at ha'
      | some r =>
        simp [hr, oattr] at ha'; subst ha'
        obtain ⟨hh, hnh, _, hsup, _, _, hit⟩ := reach_facts H s r hr
        have hv : (Wire.encVal ρ.p (reachAttr ρ r).val).length = r.payload := by
          have := encNlris_map_length ρ.nl (ρ.famOf r.fam).2 false r.items (fun x hx => (hit x hx).1)
          simp [reachAttr, Wire.encVal, this, Mp.payload, hh]; omega
        refine ⟨mpFlags_ok14 _, ⟨hsup, hnh, ?_⟩, ?_⟩
        · intro n hn'
          simp only [List.mem_map] at hn'
          obtain ⟨x, hx, rfl⟩ := hn'
          exact (hit x hx).2
        · rw [hv]
          apply bound
          have : r.wire ≤ m.len := by
            rw [hl, hEnc, ha, hr]; simp; omega
          unfold Mp.wire at this; omega
  · intro n hn'
    simp only [realise, List.mem_map] at hn'
    obtain ⟨x, hx, rfl⟩ := hn'
    exact (H.va x (s.a4 x hx).1).2
  · have : (Wire.encNlris 1 true (realise ρ m).withdrawn).length ≤ m.len := by rw [hl, hEnc]; omega
    omega
  · have : (Wire.encAttrs ρ.p (realise ρ m).attrs).length ≤ m.len := by rw [hl, hEnc]; omega
    omega
  · rw [H.msgSize]; omega

end wf

/-! ### what the realised UPDATE announces and withdraws in its MP attributes -/

theorem mpAnnounces_realise {ρ : Real} {i : Input} (H : Realises ρ i) (m : Msg) (t : Nat × Nat × Bytes × Wire.Nlri) :
    t ∈ Wire.mpAnnounces (realise ρ m).attrs ↔
      ∃ r, m.reach = some r ∧ ∃ x ∈ r.items,
        t = ((ρ.famOf r.fam).1, (ρ.famOf r.fam).2, Wire.nhAddr (ρ.famOf r.fam).2 (ρ.nhb r.nh), ρ.nl x) := by
  rw [Wire.mem_mpAnnounces]
  constructor
  · rintro ⟨a, ha, afi, safi, nh, ns, hv, n, hn, rfl⟩
    unfold realise at ha
    simp only [List.mem_append] at ha
    rcases ha with ha | ha | ha
    · cases hu : m.unreach with
      | none => simp [hu, oattr] at ha
      | some u => simp [hu, oattr] at ha; subst ha; simp [unreachAttr] at hv
    · have hab : a ∈ ρ.blk := by
        cases hb : m.attrs with
        | false => simp [hb] at ha
        | true => simpa [hb] using ha
      exact absurd (List.mem_map.2 ⟨a, hab, by simp [Wire.Attr.code, hv, Wire.AttrVal.code]⟩) H.blk14
    · cases hr : m.reach with
      | none => simp [hr, oattr] at ha
      | some r =>
        simp [hr, oattr] at ha; subst ha
        simp only [reachAttr, Wire.AttrVal.mpReach.injEq] at hv
        obtain ⟨rfl, rfl, rfl, rfl⟩ := hv
        simp only [List.mem_map] at hn
        obtain ⟨x, hx, rfl⟩ := hn
        exact ⟨r, rfl, x, hx, rfl⟩
  · rintro ⟨r, hr, x, hx, rfl⟩
    refine ⟨reachAttr ρ r, ?_, _, _, _, _, rfl, ρ.nl x, List.mem_map.2 ⟨x, hx, rfl⟩, rfl⟩
    unfold realise
    simp [hr, oattr]

theorem mpWithdraws_realise {ρ : Real} {i : Input} (H : Realises ρ i) (m : Msg) (t : Nat × Nat × Wire.Nlri) :
    t ∈ Wire.mpWithdraws (realise ρ m).attrs ↔
      ∃ u, m.unreach = some u ∧ ∃ x ∈ u.items,
        t = ((ρ.famOf u.fam).1, (ρ.famOf u.fam).2, Wire.eraseLabels (ρ.nl x)) := by
  rw [Wire.mem_mpWithdraws]
  constructor
  · rintro ⟨a, ha, afi, safi, ns, hv, n, hn, rfl⟩
    unfold realise at ha
    simp only [List.mem_append] at ha
    rcases ha with ha | ha | ha
    · cases hu : m.unreach with
      | none => simp [hu, oattr] at ha
      | some u =>
        simp [hu, oattr] at ha; subst ha
        simp only [unreachAttr, Wire.AttrVal.mpUnreach.injEq] at hv
        obtain ⟨rfl, rfl, rfl⟩ := hv
        simp only [List.mem_map] at hn
        obtain ⟨x, hx, rfl⟩ := hn
        exact ⟨u, rfl, x, hx, rfl⟩
    · have hab : a ∈ ρ.blk := by
        cases hb : m.attrs with
        | false => simp [hb] at ha
        | true => simpa [hb] using ha
      exact absurd (List.mem_map.2 ⟨a, hab, by simp [Wire.Attr.code, hv, Wire.AttrVal.code]⟩) H.blk15
    · cases hr : m.reach with
      | none => simp [hr, oattr] at ha
      | some r => simp [hr, oattr] at ha; subst ha; simp [reachAttr] at hv
  · rintro ⟨u, hu, x, hx, rfl⟩
    refine ⟨unreachAttr ρ u, ?_, _, _, _, rfl, ρ.nl x, List.mem_map.2 ⟨x, hx, rfl⟩, rfl⟩
    unfold realise
    simp [hu, oattr]

end Exa.Pack
