import ExaModel.Model.WireExa
import ExaModel.Lemmas.Wire
set_option linter.unusedSimpArgs false
/-!
  M-Wire-Exa, part 1 of the lemmas: the byte-level pieces of ExaBGP's encoder are the RFC reference
  encodings of M-Wire (`packU32s = encAsns true`, `packSegs = encSegs`, `packLabels = encStack`,
  `hdr code v = encAttr ⟨flags, val⟩`), and what sorting / de-duplication keeps.
-/
namespace Exa.WireExa
open Exa Exa.Wire
open Exa.Generated.ExaEncTable

/-! ### sorting keeps the members -/

theorem mem_insertBy {α : Type} (key : α → Nat) (x y : α) (l : List α) :
    y ∈ insertBy key x l ↔ y = x ∨ y ∈ l := by
  induction l with
  | nil => simp [insertBy]
  | cons z t ih =>
    unfold insertBy
    split
    · simp
    · simp only [List.mem_cons, ih]
      constructor
      · rintro (h | h | h)
        · exact Or.inr (Or.inl h)
        · exact Or.inl h
        · exact Or.inr (Or.inr h)
      · rintro (h | h | h)
        · exact Or.inr (Or.inl h)
        · exact Or.inl h
        · exact Or.inr (Or.inr h)

theorem mem_foldl_insertBy {α : Type} (key : α → Nat) (l acc : List α) (y : α) :
    y ∈ l.foldl (fun acc x => insertBy key x acc) acc ↔ y ∈ acc ∨ y ∈ l := by
  induction l generalizing acc with
  | nil => simp
  | cons x t ih =>
    simp only [List.foldl_cons, ih, mem_insertBy, List.mem_cons]
    constructor
    · rintro ((h | h) | h)
      · exact Or.inr (Or.inl h)
      · exact Or.inl h
      · exact Or.inr (Or.inr h)
    · rintro (h | h | h)
      · exact Or.inl (Or.inr h)
      · exact Or.inl (Or.inl h)
      · exact Or.inr h

theorem mem_sortBy {α : Type} (key : α → Nat) (l : List α) (y : α) : y ∈ sortBy key l ↔ y ∈ l := by
  simp [sortBy, mem_foldl_insertBy]

theorem mem_dedupKeep {α : Type} [DecidableEq α] (seen l : List α) (y : α) :
    y ∈ dedupKeep seen l ↔ y ∈ seen ∨ y ∈ l := by
  induction l generalizing seen with
  | nil => simp [dedupKeep]
  | cons x t ih =>
    unfold dedupKeep
    split
    · rename_i hx
      rw [ih]
      constructor
      · rintro (h | h)
        · exact Or.inl h
        · exact Or.inr (List.mem_cons_of_mem _ h)
      · rintro (h | h)
        · exact Or.inl h
        · rcases List.mem_cons.1 h with h | h
          · subst h; exact Or.inl hx
          · exact Or.inr h
    · rw [ih]
      simp only [List.mem_cons]
      constructor
      · rintro ((h | h) | h)
        · exact Or.inr (Or.inl h)
        · exact Or.inl h
        · exact Or.inr (Or.inr h)
      · rintro (h | h | h)
        · exact Or.inl (Or.inr h)
        · exact Or.inl (Or.inl h)
        · exact Or.inr h

theorem mem_dedup {α : Type} [DecidableEq α] (l : List α) (y : α) : y ∈ dedup l ↔ y ∈ l := by
  simp [dedup, mem_dedupKeep]

theorem sortBy_eq_nil {α : Type} (key : α → Nat) (l : List α) : sortBy key l = [] ↔ l = [] := by
  constructor
  · intro h
    cases l with
    | nil => rfl
    | cons x t =>
      have : x ∈ sortBy key (x :: t) := (mem_sortBy key _ x).2 (by simp)
      rw [h] at this; cases this
  · intro h; subst h; rfl

theorem dedup_eq_nil {α : Type} [DecidableEq α] (l : List α) : dedup l = [] ↔ l = [] := by
  constructor
  · intro h
    cases l with
    | nil => rfl
    | cons x t =>
      have : x ∈ dedup (x :: t) := (mem_dedup _ x).2 (by simp)
      rw [h] at this; cases this
  · intro h; subst h; rfl

/-! ### value bytes are the reference encodings -/

theorem packAsns_eq (w4 : Bool) (l : List Nat) : packAsns w4 l = encAsns w4 l := by
  induction l with
  | nil => rfl
  | cons a t ih => simp [packAsns, encAsns, packAsn, encAsn, ih]

theorem packU32s_eq (l : List Nat) : packU32s l = encAsns true l := by
  induction l with
  | nil => rfl
  | cons a t ih => simp [packU32s, encAsns, encAsn, ih]

theorem packLabels_eq (l : List Nat) : packLabels l = encStack l := by
  induction l with
  | nil => rfl
  | cons a t ih =>
    cases t with
    | nil => rfl
    | cons b t' => simp only [packLabels, encStack, ih]

/-- A segment of 1..255 AS numbers is written as one segment. -/
theorem packSeg_eq (w4 : Bool) (t : Nat) (vs : List Nat) (h1 : 1 ≤ vs.length) (h2 : vs.length ≤ 255) :
    packSeg w4 t (vs.length + 1) vs = t :: vs.length :: encAsns w4 vs := by
  unfold packSeg
  have c1 : ¬ vs.length = 0 := by omega
  have c2 : ¬ vs.length > segmentMax := by simp [segmentMax]; omega
  rw [if_neg c1, if_neg c2, packAsns_eq]

theorem packSegs_eq (w4 : Bool) (segs : List Seg)
    (h : ∀ s ∈ segs, 1 ≤ s.2.length ∧ s.2.length ≤ 255) : packSegs w4 segs = encSegs w4 segs := by
  induction segs with
  | nil => rfl
  | cons s t ih =>
    have hs := h s (by simp)
    simp only [packSegs, encSegs, packSeg_eq w4 s.1 s.2 hs.1 hs.2,
      ih (fun x hx => h x (List.mem_cons_of_mem _ hx)), List.cons_append]

/-! ### the attribute header -/

/-- The flags ExaBGP puts on an attribute of class flags (optional, transitive) and value length `n`. -/
def exaFlags (o t : Bool) (n : Nat) : Flags := { opt := o, trans := t, part := false, ext := decide (n > 255) }

theorem flagOf_vals : flagOf 1 = 64 ∧ flagOf 2 = 64 ∧ flagOf 3 = 64 ∧ flagOf 4 = 128 ∧ flagOf 5 = 64 ∧
    flagOf 6 = 64 ∧ flagOf 7 = 192 ∧ flagOf 8 = 192 ∧ flagOf 9 = 128 ∧ flagOf 10 = 128 ∧ flagOf 16 = 192 ∧
    flagOf 17 = 192 ∧ flagOf 18 = 192 ∧ flagOf 32 = 192 := by decide

theorem hdrWith_wk (code : Nat) (v : Bytes) (p : Params) (val : AttrVal)
    (hv : encVal p val = v) (hc : val.code = code) :
    hdrWith 64 code v = encAttr p ⟨exaFlags false true v.length, val⟩ := by
  subst hv; subst hc
  by_cases hl : (encVal p val).length > 255
  · simp [hdrWith, hasBit, flagOptional, flagExtended, attrLenExtendedMax, hl, encAttr, exaFlags, Flags.byte, b2n, encLen]
  · simp [hdrWith, hasBit, flagOptional, flagExtended, attrLenExtendedMax, hl, encAttr, exaFlags, Flags.byte, b2n, encLen]

theorem hdrWith_opt (code : Nat) (v : Bytes) (p : Params) (val : AttrVal)
    (hv : encVal p val = v) (hc : val.code = code) (hne : v ≠ []) :
    hdrWith 128 code v = encAttr p ⟨exaFlags true false v.length, val⟩ := by
  subst hv; subst hc
  have he : (encVal p val).isEmpty = false := by
    cases h : encVal p val with
    | nil => exact absurd h hne
    | cons a t => rfl
  by_cases hl : (encVal p val).length > 255
  · simp [hdrWith, hasBit, flagOptional, flagExtended, attrLenExtendedMax, hl, he, encAttr, exaFlags, Flags.byte, b2n, encLen]
  · simp [hdrWith, hasBit, flagOptional, flagExtended, attrLenExtendedMax, hl, he, encAttr, exaFlags, Flags.byte, b2n, encLen]

theorem hdrWith_optTrans (code : Nat) (v : Bytes) (p : Params) (val : AttrVal)
    (hv : encVal p val = v) (hc : val.code = code) (hne : v ≠ []) :
    hdrWith 192 code v = encAttr p ⟨exaFlags true true v.length, val⟩ := by
  subst hv; subst hc
  have he : (encVal p val).isEmpty = false := by
    cases h : encVal p val with
    | nil => exact absurd h hne
    | cons a t => rfl
  by_cases hl : (encVal p val).length > 255
  · simp [hdrWith, hasBit, flagOptional, flagExtended, attrLenExtendedMax, hl, he, encAttr, exaFlags, Flags.byte, b2n, encLen]
  · simp [hdrWith, hasBit, flagOptional, flagExtended, attrLenExtendedMax, hl, he, encAttr, exaFlags, Flags.byte, b2n, encLen]

/-- An optional attribute with an empty value is not sent. -/
theorem hdrWith_opt_nil (code : Nat) : hdrWith 128 code [] = [] ∧ hdrWith 192 code [] = [] := by
  simp [hdrWith, hasBit, flagOptional]

/-- The value is inside what `hdr` returns. -/
theorem len_le_hdrWith (fl code : Nat) (v : Bytes) : hdrWith fl code v = [] ∧ v = [] ∨ v.length < (hdrWith fl code v).length := by
  unfold hdrWith
  split
  · rename_i h
    left
    simp only [Bool.and_eq_true] at h
    exact ⟨rfl, by simpa using h.2⟩
  · right
    simp only
    split <;> split <;> simp only [List.length_cons, List.length_append, be16_length] <;> omega

theorem encAttrs_append (p : Params) (a b : List Attr) : encAttrs p (a ++ b) = encAttrs p a ++ encAttrs p b := by
  induction a with
  | nil => rfl
  | cons x t ih => simp [encAttrs, ih]

theorem encAttrs_single (p : Params) (a : Attr) : encAttrs p [a] = encAttr p a := by simp [encAttrs]

theorem encAttrs_pair (p : Params) (a b : Attr) : encAttrs p [a, b] = encAttr p a ++ encAttr p b := by simp [encAttrs]

end Exa.WireExa
