/-
  M-Attr7606, message level: from the loop lemma to `decodeWith`; what `assemble` does with the marker;
  helpers to state `decide`d witnesses.
-/
import ExaModel.Lemmas.Attr7606Loop
set_option linter.unusedSimpArgs false
set_option linter.unusedVariables false

namespace Exa.Attr7606
open Exa Exa.Wire
open Exa.Generated.AttrTable (Row)

theorem postLoop_taw (asn4 : Bool) (st : LoopSt) (h : st.taw = true) : postLoop asn4 st = st := by
  simp [postLoop, h]

theorem postLoop_kept_congr (asn4 : Bool) (a b : LoopSt) (hk : a.kept = b.kept) (ht : a.taw = b.taw) :
    (postLoop asn4 a).kept = (postLoop asn4 b).kept := by
  unfold postLoop
  rw [ht, hk]
  split
  · exact hk
  · split <;> rfl

theorem blockOf_of_split {body w blk n : Bytes} (h : splitBody body = .ok (w, blk, n)) : blockOf body = blk := by
  simp [blockOf, h]

theorem decodeParts_block {fx : Fix} {tb : List Row} {xp : XP} {body : Bytes} {pt : Parts}
    (h : decodeParts fx tb xp body = .ok pt) : parseBlock fx tb xp (blockOf body) = .ok pt.st := by
  unfold decodeParts at h
  cases hs : splitBody body with
  | error e => simp [hs] at h
  | ok tr =>
    obtain ⟨w, blk, n⟩ := tr
    simp only [hs] at h
    rw [blockOf_of_split hs]
    cases hp : parseBlock fx tb xp blk with
    | error e => simp [hp] at h
    | ok st =>
      simp only [hp] at h
      cases h1 : nlriField xp 1 1 true w with
      | error e => simp [h1] at h
      | ok wd4 =>
        simp only [h1] at h
        cases h2 : nlriField xp 1 1 false n with
        | error e => simp [h2] at h
        | ok ann4 =>
          simp only [h2] at h
          cases h3 : mpWithdrawn xp st.kept with
          | error e => simp [h3] at h
          | ok wdMp =>
            simp only [h3] at h
            cases h4 : mpAnnounced xp st.kept with
            | error e => simp [h4] at h
            | ok annMp =>
              simp only [h4, Except.ok.injEq] at h
              subst h; rfl

theorem assemble_attrs (pt : Parts) : (assemble pt).attrs = reportedAttrs pt.st := by
  unfold assemble; split <;> rfl

theorem assemble_taw (pt : Parts) : (assemble pt).taw = pt.st.taw := by
  unfold assemble; split <;> rfl

/-- A marked UPDATE announces nothing and withdraws every route it carries. -/
theorem assemble_withdraws (pt : Parts) (ht : pt.st.taw = true) :
    (assemble pt).announce = [] ∧ ∀ r ∈ pt.nlri, r ∈ (assemble pt).withdraw := by
  simp only [assemble, ht, if_true, true_and]
  intro r hr
  exact List.mem_append_right _ hr

/-- The message-level statement for any combination of repairs and any table with the row properties. -/
theorem decode_malformed {fx : Fix} {tb : List Row} {xp : XP} {body : Bytes} {rep : Rep} (htb : TableOk tb)
    (h : decodeWith fx tb xp body = .ok rep)
    (pre : List Tlv) (t : Tlv) (post : List Tlv) (hocc : occurrences body = pre ++ t :: post)
    (hfirst : ∀ u ∈ pre, u.code ≠ t.code) (hm : malformed xp.p t = true) (hg : GapFree fx xp t) :
    rep = emptyRep ∨
    (∃ pt, decodeParts fx tb xp body = .ok pt ∧ rep = assemble pt ∧ pt.st.taw = true) ∨
    (rfc7606Class t.code = some .discard ∧
      ∃ st', blockAttrs fx tb xp (pre ++ post) (cutOf (blockOf body)) = .ok st' ∧ rep.attrs = reportedAttrs st') := by
  unfold decodeWith at h
  by_cases he : eorFast body = true
  · simp only [he, if_true, Except.ok.injEq] at h
    exact Or.inl h.symm
  · simp only [he, Bool.false_eq_true, if_false] at h
    cases hp : decodeParts fx tb xp body with
    | error e => simp [hp] at h
    | ok pt =>
      simp only [hp, Except.ok.injEq] at h
      right
      have hb := decodeParts_block hp
      unfold parseBlock blockAttrs at hb
      unfold occurrences at hocc
      rw [hocc] at hb
      cases hl : loop fx tb xp (pre ++ t :: post) initSt with
      | error e => simp [hl] at hb
      | ok s1 =>
        simp only [hl, Except.ok.injEq] at hb
        rcases loop_malformed htb pre t post initSt s1 hl hfirst (by simp [initSt]) hm hg with htaw | ⟨hcls, s1', hl', hk, ht⟩
        · left
          refine ⟨pt, rfl, h.symm, ?_⟩
          rw [← hb, postLoop_taw _ _ (by simp [htaw])]
          simp [htaw]
        · right
          refine ⟨hcls, postLoop xp.p.asn4 { s1' with taw := s1'.taw || cutOf (blockOf body) }, ?_, ?_⟩
          · simp [blockAttrs, hl']
          · rw [← h, assemble_attrs, ← hb]
            unfold reportedAttrs
            rw [postLoop_kept_congr _ _ { s1' with taw := s1'.taw || cutOf (blockOf body) } (by simp [hk]) (by simp [ht])]

/-! ### errors of the attribute block -/

/-- An exception other than Notify cannot leave the loop when every value decoder that raises ValueError
    belongs to a class with TREAT_AS_WITHDRAW or DISCARD. -/
def valueErrorCodes : List Nat := [1, 3, 4, 5, 6, 7, 9, 10, 18]

theorem valOutcome_not_spec (fx : Fix) (xp : XP) (code : Nat) (v : Bytes) (hc : code ∉ specCodes) :
    valOutcome fx xp code v = .unmodelled := by
  simp only [specCodes, List.mem_cons, List.mem_nil_iff, or_false, not_or] at hc
  obtain ⟨h1, h2, h3, h4, h5, h6, h7, h8, h9, h10, h14, h15, h16, h17, h18, h25, h32⟩ := hc
  simp [valOutcome, h1, h2, h3, h4, h5, h6, h7, h8, h9, h10, h14, h15, h16, h17, h18, h25, h32]

theorem valOutcome_valueError (fx : Fix) (xp : XP) (code : Nat) (v : Bytes)
    (h : valOutcome fx xp code v = .valueError) : code ∈ valueErrorCodes := by
  by_cases hc : code ∈ specCodes
  · simp only [specCodes, List.mem_cons, List.mem_nil_iff, or_false] at hc
    rcases hc with h0 | h0 | h0 | h0 | h0 | h0 | h0 | h0 | h0 | h0 | h0 | h0 | h0 | h0 | h0 | h0 | h0 <;> subst h0
    all_goals first
      | decide
      | (exfalso; simp [valOutcome, exaMpReach, exaMpUnreach] at h; grind)
  · rw [valOutcome_not_spec fx xp code v hc] at h; cases h

/-- Every Notify a value decoder raises is an UPDATE Message Error. -/
theorem valOutcome_notify (fx : Fix) (xp : XP) (code : Nat) (v : Bytes) (c s : Nat)
    (h : valOutcome fx xp code v = .notify c s) : c = 3 := by
  by_cases hc : code ∈ specCodes
  · simp only [specCodes, List.mem_cons, List.mem_nil_iff, or_false] at hc
    rcases hc with h0 | h0 | h0 | h0 | h0 | h0 | h0 | h0 | h0 | h0 | h0 | h0 | h0 | h0 | h0 | h0 | h0 <;> subst h0
    all_goals (simp [valOutcome, exaMpReach, exaMpUnreach] at h; try grind)
  · rw [valOutcome_not_spec fx xp code v hc] at h; cases h

/-- The table property that keeps ValueError inside `parse`. -/
def ValueErrClassed (tb : List Row) : Prop :=
  ∀ r ∈ tb, r.id ∈ valueErrorCodes → r.treatAsWithdraw = true ∨ r.discard = true

instance (tb : List Row) : Decidable (ValueErrClassed tb) := by unfold ValueErrClassed; exact inferInstance

/-- What can leave one turn of the loop. -/
def FailOk : Fail → Prop
  | .notify c _ => c = 3
  | .raise => False
  | .unmodelled => True

def DecFailOk : Dec → Prop
  | .notify c _ => c = 3
  | .raise => False
  | _ => True

theorem decide1_fail {fx : Fix} {tb : List Row} {xp : XP} (hv : ValueErrClassed tb) (present : List Nat) (t : Tlv) :
    DecFailOk (decide1 fx tb xp present t) := by
  unfold decide1
  by_cases ho : t.overrun = true
  · simp only [ho, if_true, if_false, Bool.false_eq_true, DecFailOk]
  · simp only [ho, if_true, if_false, Bool.false_eq_true]
    cases hrow : rowOf tb t.code with
    | none =>
      simp only
      by_cases hp : present.contains t.code = true
      · simp only [hp, if_true, if_false, Bool.false_eq_true, DecFailOk]
      · simp only [hp, if_true, if_false, Bool.false_eq_true]
        by_cases hq : (effFlag tb t / 64 % 2 == 1) = true
        · simp only [hq, if_true, if_false, Bool.false_eq_true, DecFailOk]
        · simp only [hq, if_true, if_false, Bool.false_eq_true, DecFailOk]
    | some row =>
      obtain ⟨hrmem, hrid⟩ := rowOf_some hrow
      simp only
      by_cases hp : present.contains t.code = true
      · simp only [hp, if_true, if_false, Bool.false_eq_true]
        by_cases hn : row.noDuplicate = true
        · simp only [hn, if_true, if_false, Bool.false_eq_true, DecFailOk]
        · simp only [hn, if_true, if_false, Bool.false_eq_true, DecFailOk]
      · simp only [hp, if_true, if_false, Bool.false_eq_true]
        by_cases hreg : registered tb t.code (effFlag tb t) = true
        · simp only [hreg, if_true, if_false, Bool.false_eq_true]
          by_cases hz : (t.dlen == 0 && !row.validZero) = true
          · simp only [hz, if_true, if_false, Bool.false_eq_true, DecFailOk]
          · simp only [hz, if_true, if_false, Bool.false_eq_true]
            cases hvo : valOutcome fx xp t.code t.val with
            | ok => simp only [DecFailOk]
            | unmodelled => simp only [DecFailOk]
            | notify c s =>
              have := valOutcome_notify fx xp t.code t.val c s hvo
              simp only
              by_cases hw : row.treatAsWithdraw = true
              · simp only [hw, if_true, if_false, Bool.false_eq_true, DecFailOk]
              · simp only [hw, if_true, if_false, Bool.false_eq_true]
                by_cases hd : row.discard = true
                · simp only [hd, if_true, if_false, Bool.false_eq_true, DecFailOk]
                · simp only [hd, if_true, if_false, Bool.false_eq_true, DecFailOk]; exact this
            | valueError =>
              have hc := valOutcome_valueError fx xp t.code t.val hvo
              rw [← hrid] at hc
              simp only
              by_cases hw : row.treatAsWithdraw = true
              · simp only [hw, if_true, if_false, Bool.false_eq_true, DecFailOk]
              · simp only [hw, if_true, if_false, Bool.false_eq_true]
                rcases hv row hrmem hc with h | h
                · exact absurd h hw
                · simp only [h, if_true, if_false, Bool.false_eq_true, DecFailOk]
        · simp only [hreg, if_true, if_false, Bool.false_eq_true]
          by_cases hw : row.treatAsWithdraw = true
          · simp only [hw, if_true, if_false, Bool.false_eq_true, DecFailOk]
          · simp only [hw, if_true, if_false, Bool.false_eq_true]
            by_cases hd : row.discard = true
            · simp only [hd, if_true, if_false, Bool.false_eq_true, DecFailOk]
            · simp only [hd, if_true, if_false, Bool.false_eq_true, DecFailOk]

theorem loop_fail {fx : Fix} {tb : List Row} {xp : XP} (hv : ValueErrClassed tb) : ∀ (ts : List Tlv) (st : LoopSt) (e : Fail),
    loop fx tb xp ts st = .error e → FailOk e
  | [], st, e, h => by simp [loop] at h
  | t :: ts, st, e, h => by
    rw [loop_cons] at h
    have hd := decide1_fail (fx := fx) (xp := xp) hv (st.kept.map (·.code)) t
    cases hdd : decide1 fx tb xp (st.kept.map (·.code)) t <;> simp only [hdd, applyDec, DecFailOk] at h hd
    · exact loop_fail hv ts _ e h
    · exact loop_fail hv ts _ e h
    · exact loop_fail hv ts _ e h
    · exact loop_fail hv ts _ e h
    · exact loop_fail hv ts _ e h
    · simp only [Except.error.injEq] at h; subst h; exact hd
    · simp only [Except.error.injEq] at h; subst h; trivial

/-- Whatever ends the parsing of an attribute block is an UPDATE Message Error NOTIFICATION (code 3) —
    or lies outside the model. -/
theorem parseBlock_fail {fx : Fix} {tb : List Row} {xp : XP} (hv : ValueErrClassed tb) (blk : Bytes) (e : Fail)
    (h : parseBlock fx tb xp blk = .error e) : FailOk e := by
  unfold parseBlock blockAttrs at h
  cases hl : loop fx tb xp (tlvsOf blk) initSt with
  | ok st => simp [hl] at h
  | error e' =>
    simp only [hl, Except.error.injEq] at h
    subst h
    exact loop_fail hv _ _ _ hl

/-! ### overrun -/

theorem loop_overrun {fx : Fix} {tb : List Row} {xp : XP}
    (pre : List Tlv) (t : Tlv) (post : List Tlv) (st0 st : LoopSt)
    (h : loop fx tb xp (pre ++ t :: post) st0 = .ok st) (ho : t.overrun = true) : st.taw = true := by
  rw [loop_append] at h
  cases h1 : loop fx tb xp pre st0 with
  | error e => simp [h1] at h
  | ok s1 =>
    simp only [h1] at h
    rw [loop_cons, decide1_overrun fx tb xp _ t ho] at h
    simp only [applyDec] at h
    exact loop_taw_mono fx tb xp post _ st h rfl

theorem decode_overrun {fx : Fix} {tb : List Row} {xp : XP} {body : Bytes} {rep : Rep}
    (h : decodeWith fx tb xp body = .ok rep) (t : Tlv) (ht : t ∈ occurrences body) (ho : t.overrun = true) :
    rep = emptyRep ∨ ∃ pt, decodeParts fx tb xp body = .ok pt ∧ rep = assemble pt ∧ pt.st.taw = true := by
  unfold decodeWith at h
  by_cases he : eorFast body = true
  · simp only [he, if_true, Except.ok.injEq] at h
    exact Or.inl h.symm
  · simp only [he, Bool.false_eq_true, if_false] at h
    cases hp : decodeParts fx tb xp body with
    | error e => simp [hp] at h
    | ok pt =>
      simp only [hp, Except.ok.injEq] at h
      right
      have hb := decodeParts_block hp
      unfold parseBlock blockAttrs at hb
      obtain ⟨pre, post, hsplit⟩ := List.append_of_mem ht
      unfold occurrences at hsplit
      rw [hsplit] at hb
      cases hl : loop fx tb xp (pre ++ t :: post) initSt with
      | error e => simp [hl] at hb
      | ok s1 =>
        simp only [hl, Except.ok.injEq] at hb
        have htaw := loop_overrun pre t post initSt s1 hl ho
        refine ⟨pt, rfl, h.symm, ?_⟩
        rw [← hb, postLoop_taw _ _ (by simp [htaw])]
        simp [htaw]

/-- Only the AS_PATH / AS4_PATH decoders depend on the open repair. -/
theorem gapFree_of_not_aspath (fx : Fix) (xp : XP) (t : Tlv) (h2 : t.code ≠ 2) (h17 : t.code ≠ 17) : GapFree fx xp t := by
  unfold GapFree valOutcome
  simp [h2, h17]

/-! ### the property as a predicate on one body, and how to refute it on a witness -/

/-- The statement of C08 for one UPDATE body under repairs `fx`, table `tb`, session `xp`: whenever the body
    decodes to an UpdateCollection, every RFC-malformed first occurrence of an attribute in it is answered by
    treat-as-withdraw (nothing announced, every route the UPDATE carries reported withdrawn) or — for an
    attribute of the discard class only — by dropping that attribute and reporting exactly the attributes the
    same block has without it. (`emptyRep`: the End-of-RIB fast paths, which announce nothing.) -/
def C08Holds (fx : Fix) (tb : List Row) (xp : XP) (body : Bytes) : Prop :=
  ∀ (rep : Rep) (pre : List Tlv) (t : Tlv) (post : List Tlv),
    decodeWith fx tb xp body = .ok rep → occurrences body = pre ++ t :: post →
    (∀ u ∈ pre, u.code ≠ t.code) → malformed xp.p t = true →
    rep = emptyRep ∨
    (rep.announce = [] ∧ ∃ pt, decodeParts fx tb xp body = .ok pt ∧ ∀ r ∈ pt.nlri, r ∈ rep.withdraw) ∨
    (rfc7606Class t.code = some .discard ∧
      ∃ st', blockAttrs fx tb xp (pre ++ post) (cutOf (blockOf body)) = .ok st' ∧ rep.attrs = reportedAttrs st')

/-- the result is an UpdateCollection with property `P` -/
def okAnd (P : Rep → Bool) : Except Fail Rep → Bool
  | .ok r => P r
  | .error _ => false

theorem okAnd_spec {P : Rep → Bool} {x : Except Fail Rep} (h : okAnd P x = true) : ∃ rep, x = .ok rep ∧ P rep = true := by
  cases x with
  | ok r => exact ⟨r, rfl, h⟩
  | error e => simp [okAnd] at h

/-- A body refutes the statement when it decodes to an UpdateCollection that announces something although a
    malformed first occurrence of a non-discard class is in it. -/
theorem not_c08_of {fx : Fix} {tb : List Row} {xp : XP} {body : Bytes} (pre : List Tlv) (t : Tlv) (post : List Tlv)
    (hocc : occurrences body = pre ++ t :: post) (hfirst : pre.all (fun u => u.code != t.code) = true)
    (hm : malformed xp.p t = true) (hcls : (rfc7606Class t.code == some .discard) = false)
    (hann : okAnd (fun r => !r.announce.isEmpty) (decodeWith fx tb xp body) = true) : ¬ C08Holds fx tb xp body := by
  intro hc
  obtain ⟨rep, hrep, hP⟩ := okAnd_spec hann
  have hf : ∀ u ∈ pre, u.code ≠ t.code := by
    intro u hu
    have := List.all_eq_true.1 hfirst u hu
    simpa using this
  have hne : rep.announce ≠ [] := by
    intro h0; rw [h0] at hP; simp at hP
  rcases hc rep pre t post hrep hocc hf hm with h | ⟨h, _⟩ | ⟨h, _⟩
  · rw [h] at hne; exact hne rfl
  · exact hne h
  · rw [h] at hcls; simp at hcls

end Exa.Attr7606
