import ExaModel.Model.Steps
import ExaModel.Lemmas.Wire
import ExaModel.Lemmas.TotalSteps
set_option linter.unusedSimpArgs false
/-! C03 — "a valid message, however unusual, is not refused": UPDATEs made of unrecognised optional
    attributes, any number of them. -/
namespace Exa.Wire
open Exa

/-- A zero-length unrecognised optional non-transitive attribute with type code `c` (3 bytes on the wire). -/
def unkAttr (c : Nat) : Attr := ⟨⟨true, false, false, false⟩, .unknown c []⟩

/-- An UPDATE that carries nothing but such attributes. -/
def unkUpdate (cs : List Nat) : UpdateSem := { withdrawn := [], attrs := cs.map unkAttr, nlri := [] }

theorem flagSpec_none_of_not_known (c : Nat) (h : c ∉ knownCodes) : flagSpec c = none := by
  unfold flagSpec specTable
  simp only [knownCodes, List.mem_cons, List.mem_nil_iff, or_false, not_or] at h
  obtain ⟨h1, h2, h3, h4, h5, h6, h7, h8, h9, h10, h14, h15, h16, h17, h18, h32⟩ := h
  simp only [List.lookup, beq_eq_false_iff_ne.2 h1, beq_eq_false_iff_ne.2 h2, beq_eq_false_iff_ne.2 h3,
    beq_eq_false_iff_ne.2 h4, beq_eq_false_iff_ne.2 h5, beq_eq_false_iff_ne.2 h6, beq_eq_false_iff_ne.2 h7,
    beq_eq_false_iff_ne.2 h8, beq_eq_false_iff_ne.2 h9, beq_eq_false_iff_ne.2 h10, beq_eq_false_iff_ne.2 h14,
    beq_eq_false_iff_ne.2 h15, beq_eq_false_iff_ne.2 h16, beq_eq_false_iff_ne.2 h17, beq_eq_false_iff_ne.2 h18,
    beq_eq_false_iff_ne.2 h32]

theorem wf_unkAttr (p : Params) (c : Nat) (h : c ∉ knownCodes) : WFAttr p (unkAttr c) := by
  refine ⟨?_, h, ?_⟩
  · simp [unkAttr, flagErr, AttrVal.code, flagSpec_none_of_not_known c h]
  · simp [unkAttr, encVal]

theorem encAttr_unkAttr (p : Params) (c : Nat) : encAttr p (unkAttr c) = [128, c, 0] := by
  simp [encAttr, unkAttr, Flags.byte, b2n, AttrVal.code, encVal, encLen]

theorem encAttrs_unk_length (p : Params) (cs : List Nat) : (encAttrs p (cs.map unkAttr)).length = 3 * cs.length := by
  induction cs with
  | nil => rfl
  | cons c t ih => simp only [List.map_cons, encAttrs, List.length_append, encAttr_unkAttr, ih, List.length_cons, List.length_nil]; omega

theorem hasCode_unk (cs : List Nat) (c : Nat) : hasCode (cs.map unkAttr) c = decide (c ∈ cs) := by
  induction cs with
  | nil => simp [hasCode]
  | cons d t ih =>
    simp only [hasCode, List.map_cons, List.any_cons] at ih ⊢
    rw [ih]
    simp only [unkAttr, Attr.code, AttrVal.code, List.mem_cons, Bool.decide_or, beq_iff_eq]
    by_cases hd : d = c
    · simp [hd]
    · have : ¬ c = d := fun h => hd h.symm
      simp [hd, this]

theorem dupCode_unk_of_nodup (cs : List Nat) (h : cs.Nodup) : dupCode (cs.map unkAttr) = false := by
  induction cs with
  | nil => rfl
  | cons c t ih =>
    rw [List.nodup_cons] at h
    simp only [List.map_cons, dupCode, ih h.2, Bool.or_false]
    have : (unkAttr c).code = c := rfl
    rw [this, hasCode_unk]
    simp [h.1]

theorem mpErr_unk (p : Params) (cs : List Nat) : (cs.map unkAttr).any (mpErr p) = false := by
  induction cs with
  | nil => rfl
  | cons c t ih => simp only [List.map_cons, List.any_cons, ih, Bool.or_false]; rfl

theorem semErr_unk (p : Params) (cs : List Nat) (hnd : cs.Nodup) (h14 : 14 ∉ cs) : semErr p (unkUpdate cs) = none := by
  unfold semErr unkUpdate
  simp only [dupCode_unk_of_nodup cs hnd, mpErr_unk, hasCode_unk, List.isEmpty_nil]
  simp [h14]

/-- The reference encoding of `unkUpdate cs`: 4 + 3 n bytes. -/
theorem encodeUpdate_unk_length (p : Params) (cs : List Nat) : (encodeUpdate p (unkUpdate cs)).length = 4 + 3 * cs.length := by
  simp only [encodeUpdate, unkUpdate, encNlris, List.length_append, be16_length, List.length_nil, encAttrs_unk_length]
  omega

theorem wfUpdate_unk (p : Params) (cs : List Nat) (hnd : cs.Nodup) (hk : ∀ c ∈ cs, c ∉ knownCodes)
    (hsz : 4 + 3 * cs.length + 19 ≤ p.msgSize) (h16 : 3 * cs.length < 65536) : WFUpdate p (unkUpdate cs) := by
  refine ⟨?_, ?_, ?_, ?_, ?_, ?_, ?_⟩
  · intro n hn; simp [unkUpdate] at hn
  · intro a ha
    simp only [unkUpdate, List.mem_map] at ha
    obtain ⟨c, hc, rfl⟩ := ha
    exact wf_unkAttr p c (hk c hc)
  · intro n hn; simp [unkUpdate] at hn
  · simp [unkUpdate, encNlris]
  · show (encAttrs p (cs.map unkAttr)).length < 65536
    rw [encAttrs_unk_length]; exact h16
  · rw [encodeUpdate_unk_length]; exact hsz
  · apply semErr_unk p cs hnd
    intro h
    exact hk 14 h (by decide)

/-- The attribute walk over `n` such attributes makes exactly `n` iterations. -/
theorem decAttrsSteps_unk (p : Params) (cs : List Nat) (hk : ∀ c ∈ cs, c ∉ knownCodes) (f : Nat) (hf : 3 * cs.length ≤ f) :
    (decAttrsSteps p f (encAttrs p (cs.map unkAttr))).2 = cs.length := by
  induction cs generalizing f with
  | nil => cases f <;> simp [encAttrs, decAttrsSteps]
  | cons c t ih =>
    cases f with
    | zero => simp at hf
    | succ g =>
      have hw := wf_unkAttr p c (hk c (by simp))
      have hd := decAttr_encAttr p (unkAttr c) hw (encAttrs p (t.map unkAttr))
      have he : encAttrs p ((c :: t).map unkAttr) = 128 :: (c :: 0 :: encAttrs p (t.map unkAttr)) := by
        simp [encAttrs, encAttr_unkAttr]
      rw [encAttr_unkAttr] at hd
      rw [he]
      simp only [decAttrsSteps]
      have hd' : decAttr p (128 :: c :: 0 :: encAttrs p (t.map unkAttr)) = .ok (unkAttr c, encAttrs p (t.map unkAttr)) := hd
      rw [hd']
      simp only [List.length_cons] at hf ⊢
      rw [ih (fun c hc => hk c (by simp [hc])) g (by omega)]

end Exa.Wire
