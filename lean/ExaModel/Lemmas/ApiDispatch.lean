import ExaModel.Model.Api
set_option linter.unusedSimpArgs false
set_option linter.unusedVariables false
/-! Lemmas about the dispatchers: the peers handed to a handler are the ones the selector resolves to. -/
namespace Exa.Api
open Exa Exa.Rib Exa.Generated.ApiTable

theorem finishV6_peers {q : Quirks} {nbrs : List Nbr} {h0 : Handler} {sel0 : Option Sel} {rest0 : List Tok}
    {h : Handler} {sel : Sel} {peers : List Nat} {rest : List Tok} {a : Nat} (hq : q.v6Fallback = false)
    (hd : finishV6 q nbrs h0 sel0 rest0 = .ok h (some sel) peers rest a) : peers = sel.resolve q nbrs := by
  unfold finishV6 at hd
  cases sel0 with
  | none =>
    simp only at hd
    repeat' split at hd
    all_goals simp at hd
  | some s =>
    simp only [hq] at hd
    split at hd
    · simp at hd
    · simp only [DispRes.ok.injEq, Option.some.injEq] at hd
      obtain ⟨_, hs, hp, _, _⟩ := hd
      subst hs
      exact hp.symm

/-- After the F21 repair `dispatch_v6` hands the handler exactly the peers its selector selected. -/
theorem dispatchV6_peers {q : Quirks} {nbrs : List Nbr} {cmd : Cmd} {h : Handler} {sel : Sel} {peers : List Nat}
    {rest : List Tok} {a : Nat} (hq : q.v6Fallback = false)
    (hd : dispatchV6 q nbrs cmd = .ok h (some sel) peers rest a) : peers = sel.resolve q nbrs := by
  unfold dispatchV6 at hd
  simp only at hd
  split at hd
  · simp at hd
  · split at hd
    · simp at hd
    · exact finishV6_peers hq hd

theorem dispatchNeighborV4_peers {q : Quirks} {nbrs : List Nbr} {toks : List Tok} {h : Handler} {sel : Sel}
    {peers : List Nat} {rest : List Tok} {a : Nat}
    (hd : dispatchNeighborV4 q nbrs toks = .ok h (some sel) peers rest a) : peers = sel.resolve q nbrs := by
  unfold dispatchNeighborV4 at hd
  simp only at hd
  split at hd
  · simp at hd
  · repeat' split at hd
    all_goals first
      | (simp at hd; done)
      | (simp only [DispRes.ok.injEq, Option.some.injEq] at hd
         obtain ⟨_, hs, hp, _, _⟩ := hd
         subst hs
         exact hp.symm)

theorem dispatchV4_peers {q : Quirks} {nbrs : List Nbr} {cmd : Cmd} {h : Handler} {sel : Sel} {peers : List Nat}
    {rest : List Tok} {a : Nat} (hq : q.v6Fallback = false)
    (hd : dispatchV4 q nbrs cmd = .ok h (some sel) peers rest a) : peers = sel.resolve q nbrs := by
  unfold dispatchV4 at hd
  simp only at hd
  repeat' split at hd
  all_goals first
    | exact dispatchV6_peers hq hd
    | exact dispatchNeighborV4_peers hd
    | (simp at hd; done)

/-- the routing step of `API.process` -/
theorem routeCmd_peers {env : Env} {st : St} {cmd : Cmd} {h : Handler} {sel : Sel} {peers : List Nat}
    {rest : List Tok} {a : Nat} (hq : env.q.v6Fallback = false)
    (hr : routeCmd env st cmd = .call h (some sel) peers rest a) : peers = sel.resolve env.q env.nbrs := by
  unfold routeCmd at hr
  simp only at hr
  split at hr
  · simp at hr
  · split at hr
    · simp at hr
    · rename_i hd
      simp only [Routed.call.injEq] at hr
      obtain ⟨rfl, rfl, rfl, rfl, rfl⟩ := hr
      split at hd
      · exact dispatchV4_peers hq hd
      · exact dispatchV6_peers hq hd

theorem routeCmd_error_state (env : Env) (st : St) (cmd : Cmd) : (exec env st cmd .error).1 = st := rfl

end Exa.Api
