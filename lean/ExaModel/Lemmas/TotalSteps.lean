import ExaModel.Model.Steps
import ExaModel.Lemmas.WireCountTlv
set_option linter.unusedSimpArgs false
/-! C03 — the counting twins of `Model/Steps.lean` compute the original walks, every walk makes
    progress (consumes at least the header of what it parses), fuel equal to the input length is
    never what stops a walk, and the iteration counts are linear in the input length. -/
namespace Exa.Wire
open Exa

/-! ### progress: a successful step consumes at least its header -/

/-- One NLRI consumes at least its length octet. -/
theorem decNlri_progress (afi safi : Nat) (ap wd : Bool) (bs : Bytes) (n : Nlri) (rest : Bytes)
    (h : decNlri afi safi ap wd bs = .ok (n, rest)) : rest.length + 1 ≤ bs.length := by
  have h1 := decNlri_len afi safi ap wd bs n rest h
  have h2 := encNlri_length_pos safi wd n
  omega

theorem encAttr_length_ge3 (p : Params) (a : Attr) : 3 ≤ (encAttr p a).length := by
  unfold encAttr encLen
  cases a.flags.ext <;> simp [be16] <;> omega

/-- One attribute consumes at least flags, type code and one length octet. -/
theorem decAttr_progress (p : Params) (bs : Bytes) (a : Attr) (rest : Bytes)
    (h : decAttr p bs = .ok (a, rest)) : rest.length + 3 ≤ bs.length := by
  have h1 := decAttr_len p bs a rest h
  have h2 := encAttr_length_ge3 p a
  omega

/-! ### the NLRI walk -/

theorem decNlrisSteps_fst (afi safi : Nat) (ap wd : Bool) (f : Nat) (bs : Bytes) :
    (decNlrisSteps afi safi ap wd f bs).1 = decNlris afi safi ap wd f bs := by
  induction f generalizing bs with
  | zero => cases bs <;> simp [decNlrisSteps, decNlris]
  | succ f ih =>
    cases bs with
    | nil => simp [decNlrisSteps, decNlris]
    | cons b t =>
      simp only [decNlrisSteps, decNlris]
      cases h : decNlri afi safi ap wd (b :: t) with
      | error e => rfl
      | ok pr =>
        obtain ⟨n, rest⟩ := pr
        simp only [ih rest]
        cases decNlris afi safi ap wd f rest <;> rfl

/-- **Linear iteration count of the NLRI walk**: at most one iteration per input byte. -/
theorem decNlrisSteps_le (afi safi : Nat) (ap wd : Bool) (f : Nat) (bs : Bytes) :
    (decNlrisSteps afi safi ap wd f bs).2 ≤ bs.length := by
  induction f generalizing bs with
  | zero => cases bs <;> simp [decNlrisSteps]
  | succ f ih =>
    cases bs with
    | nil => simp [decNlrisSteps]
    | cons b t =>
      simp only [decNlrisSteps]
      cases h : decNlri afi safi ap wd (b :: t) with
      | error e => simp
      | ok pr =>
        obtain ⟨n, rest⟩ := pr
        have hp := decNlri_progress afi safi ap wd (b :: t) n rest h
        have := ih rest
        simp only
        omega

/-- Fuel that covers the bytes is never what stops the NLRI walk: the result does not depend on it. -/
theorem decNlris_fuel (afi safi : Nat) (ap wd : Bool) (f1 f2 : Nat) (bs : Bytes)
    (h1 : bs.length ≤ f1) (h2 : bs.length ≤ f2) :
    decNlris afi safi ap wd f1 bs = decNlris afi safi ap wd f2 bs := by
  induction f1 generalizing f2 bs with
  | zero =>
    cases bs with
    | nil => cases f2 <;> simp [decNlris]
    | cons b t => simp at h1
  | succ f ih =>
    cases bs with
    | nil => cases f2 <;> simp [decNlris]
    | cons b t =>
      cases f2 with
      | zero => simp at h2
      | succ g =>
        simp only [decNlris]
        cases h : decNlri afi safi ap wd (b :: t) with
        | error e => rfl
        | ok pr =>
          obtain ⟨n, rest⟩ := pr
          have hp := decNlri_progress afi safi ap wd (b :: t) n rest h
          simp only [List.length_cons] at h1 h2 hp
          simp only [ih g rest (by omega) (by omega)]

/-- With the fuel the decoder uses (`bs.length`) an error of the NLRI walk is an error of one
    `decNlri`, never the exhaustion of the fuel. -/
theorem decNlris_error_is_real (afi safi : Nat) (ap wd : Bool) (f : Nat) (bs : Bytes) (e : Err)
    (hf : bs.length ≤ f) (h : decNlris afi safi ap wd f bs = .error e) :
    ∃ tail n, tail.length ≤ bs.length ∧ decNlri afi safi ap wd tail = .error e ∧ n = tail.length := by
  induction f generalizing bs with
  | zero =>
    cases bs with
    | nil => simp [decNlris] at h
    | cons b t => simp at hf
  | succ f ih =>
    cases bs with
    | nil => simp [decNlris] at h
    | cons b t =>
      simp only [decNlris] at h
      cases h1 : decNlri afi safi ap wd (b :: t) with
      | error e1 =>
        rw [h1] at h
        simp only [Except.error.injEq] at h
        subst h
        exact ⟨b :: t, _, Nat.le_refl _, h1, rfl⟩
      | ok pr =>
        obtain ⟨n, rest⟩ := pr
        rw [h1] at h
        simp only at h
        have hp := decNlri_progress afi safi ap wd (b :: t) n rest h1
        simp only [List.length_cons] at hf hp
        cases h2 : decNlris afi safi ap wd f rest with
        | ok ns => rw [h2] at h; simp at h
        | error e2 =>
          rw [h2] at h
          simp only [Except.error.injEq] at h
          subst h
          obtain ⟨tail, k, hl, hd, hk⟩ := ih rest (by omega) h2
          exact ⟨tail, k, by simp only [List.length_cons]; omega, hd, hk⟩

/-! ### the attribute walk -/

theorem decAttrsSteps_fst (p : Params) (f : Nat) (bs : Bytes) :
    (decAttrsSteps p f bs).1 = decAttrs p f bs := by
  induction f generalizing bs with
  | zero => cases bs <;> simp [decAttrsSteps, decAttrs]
  | succ f ih =>
    cases bs with
    | nil => simp [decAttrsSteps, decAttrs]
    | cons b t =>
      simp only [decAttrsSteps, decAttrs]
      cases h : decAttr p (b :: t) with
      | error e => rfl
      | ok pr =>
        obtain ⟨a, rest⟩ := pr
        simp only [ih rest]
        cases decAttrs p f rest <;> rfl

theorem decAttrsSteps_mul (p : Params) (f : Nat) (bs : Bytes) :
    3 * (decAttrsSteps p f bs).2 ≤ bs.length + 3 := by
  induction f generalizing bs with
  | zero => cases bs <;> simp [decAttrsSteps]
  | succ f ih =>
    cases bs with
    | nil => simp [decAttrsSteps]
    | cons b t =>
      simp only [decAttrsSteps]
      cases h : decAttr p (b :: t) with
      | error e => simp
      | ok pr =>
        obtain ⟨a, rest⟩ := pr
        have hp := decAttr_progress p (b :: t) a rest h
        have := ih rest
        simp only
        omega

/-- **Linear iteration count of the attribute walk**: an attribute takes at least 3 bytes. -/
theorem decAttrsSteps_le (p : Params) (f : Nat) (bs : Bytes) :
    (decAttrsSteps p f bs).2 ≤ bs.length / 3 + 1 := by
  have := decAttrsSteps_mul p f bs
  omega

theorem decAttrs_fuel (p : Params) (f1 f2 : Nat) (bs : Bytes) (h1 : bs.length ≤ f1) (h2 : bs.length ≤ f2) :
    decAttrs p f1 bs = decAttrs p f2 bs := by
  induction f1 generalizing f2 bs with
  | zero =>
    cases bs with
    | nil => cases f2 <;> simp [decAttrs]
    | cons b t => simp at h1
  | succ f ih =>
    cases bs with
    | nil => cases f2 <;> simp [decAttrs]
    | cons b t =>
      cases f2 with
      | zero => simp at h2
      | succ g =>
        simp only [decAttrs]
        cases h : decAttr p (b :: t) with
        | error e => rfl
        | ok pr =>
          obtain ⟨a, rest⟩ := pr
          have hp := decAttr_progress p (b :: t) a rest h
          simp only [List.length_cons] at h1 h2 hp
          simp only [ih g rest (by omega) (by omega)]

/-! ### AS numbers and path segments -/

theorem decAsnsSteps_fst (w4 : Bool) (n : Nat) (bs : Bytes) :
    (decAsnsSteps w4 n bs).1 = decAsns w4 n bs := by
  induction n generalizing bs with
  | zero => simp [decAsnsSteps, decAsns]
  | succ n ih =>
    simp only [decAsnsSteps, decAsns]
    by_cases c : bs.length < (if w4 then 4 else 2)
    · simp [c]
    · simp only [c, if_false, ih]
      cases decAsns w4 n (bs.drop (if w4 then 4 else 2)) <;> rfl

theorem decAsnsSteps_le_n (w4 : Bool) (n : Nat) (bs : Bytes) : (decAsnsSteps w4 n bs).2 ≤ n := by
  induction n generalizing bs with
  | zero => simp [decAsnsSteps]
  | succ n ih =>
    simp only [decAsnsSteps]
    by_cases c : bs.length < (if w4 then 4 else 2)
    · simp [c]
    · simp only [c, if_false]
      have := ih (bs.drop (if w4 then 4 else 2))
      omega

/-- every AS number but the one that fails consumes at least two bytes -/
theorem decAsnsSteps_mul (w4 : Bool) (n : Nat) (bs : Bytes) : 2 * (decAsnsSteps w4 n bs).2 ≤ bs.length + 2 := by
  induction n generalizing bs with
  | zero => simp [decAsnsSteps]
  | succ n ih =>
    simp only [decAsnsSteps]
    by_cases c : bs.length < (if w4 then 4 else 2)
    · simp [c]
    · simp only [c, if_false]
      have := ih (bs.drop (if w4 then 4 else 2))
      simp only [List.length_drop] at this
      cases w4 <;> simp at c this ⊢ <;> omega

theorem decAsnsSteps_ok (w4 : Bool) (n : Nat) (bs : Bytes) (l : List Nat) (rest : Bytes)
    (h : decAsns w4 n bs = some (l, rest)) : (decAsnsSteps w4 n bs).2 = n := by
  induction n generalizing bs l rest with
  | zero => simp [decAsnsSteps]
  | succ n ih =>
    simp only [decAsns] at h
    simp only [decAsnsSteps]
    by_cases c : bs.length < (if w4 then 4 else 2)
    · simp [c] at h
    · simp only [c, if_false] at h ⊢
      cases h2 : decAsns w4 n (bs.drop (if w4 then 4 else 2)) with
      | none => simp [h2] at h
      | some pr =>
        obtain ⟨l', r'⟩ := pr
        rw [ih _ l' r' h2]

theorem decSegsSteps_fst (w4 : Bool) (f : Nat) (bs : Bytes) :
    (decSegsSteps w4 f bs).1 = decSegs w4 f bs := by
  induction f generalizing bs with
  | zero => cases bs <;> simp [decSegsSteps, decSegs]
  | succ f ih =>
    match bs with
    | [] => simp [decSegsSteps, decSegs]
    | [_] => simp [decSegsSteps, decSegs]
    | t :: c :: r =>
      simp only [decSegsSteps, decSegs]
      by_cases hc : t = 0 ∨ t > 4 ∨ c = 0
      · simp [hc]
      · simp only [hc, if_false, decAsnsSteps_fst]
        cases h : decAsns w4 c r with
        | none => rfl
        | some pr =>
          obtain ⟨as, rest⟩ := pr
          simp only [ih rest]
          cases decSegs w4 f rest <;> rfl

/-- **Linear iteration count of the AS_PATH walk**: segment headers plus AS numbers looked at never
    exceed the number of value bytes. -/
theorem decSegsSteps_le (w4 : Bool) (f : Nat) (bs : Bytes) : (decSegsSteps w4 f bs).2 ≤ bs.length := by
  induction f generalizing bs with
  | zero => cases bs <;> simp [decSegsSteps]
  | succ f ih =>
    match bs with
    | [] => simp [decSegsSteps]
    | [_] => simp [decSegsSteps]
    | t :: c :: r =>
      simp only [decSegsSteps]
      by_cases hc : t = 0 ∨ t > 4 ∨ c = 0
      · simp [hc]
      · simp only [hc, if_false, decAsnsSteps_fst]
        cases h : decAsns w4 c r with
        | none =>
          have := decAsnsSteps_mul w4 c r
          simp only [List.length_cons]
          omega
        | some pr =>
          obtain ⟨as, rest⟩ := pr
          have h1 := decAsnsSteps_ok w4 c r as rest h
          have h2 := (decAsns_len w4 c r as rest h).2
          have h3 := ih rest
          simp only [List.length_cons]
          cases w4 <;> simp at h2 <;> omega

theorem decSegs_fuel (w4 : Bool) (f1 f2 : Nat) (bs : Bytes) (h1 : bs.length ≤ f1) (h2 : bs.length ≤ f2) :
    decSegs w4 f1 bs = decSegs w4 f2 bs := by
  induction f1 generalizing f2 bs with
  | zero =>
    cases bs with
    | nil => cases f2 <;> simp [decSegs]
    | cons b t => simp at h1
  | succ f ih =>
    match bs, f2 with
    | [], 0 => simp [decSegs]
    | [], _ + 1 => simp [decSegs]
    | _ :: _, 0 => simp at h2
    | [_], _ + 1 => simp [decSegs]
    | t :: c :: r, g + 1 =>
      simp only [decSegs]
      by_cases hc : t = 0 ∨ t > 4 ∨ c = 0
      · simp [hc]
      · simp only [hc, if_false]
        cases h : decAsns w4 c r with
        | none => rfl
        | some pr =>
          obtain ⟨as, rest⟩ := pr
          have hl := (decAsns_len w4 c r as rest h).2
          simp only [List.length_cons] at h1 h2
          have : rest.length ≤ r.length := by omega
          simp only [ih g rest (by omega) (by omega)]

/-! ### label stack -/

theorem decStackSteps_fst (n : Nat) (bs : Bytes) : (decStackSteps n bs).1 = decStack n bs := by
  induction n generalizing bs with
  | zero => simp [decStackSteps, decStack]
  | succ n ih =>
    simp only [decStackSteps, decStack]
    by_cases c1 : bs.length < 3
    · simp [c1]
    · by_cases c2 : rd24 bs % 2 = 1
      · simp [c1, c2]
      · simp only [c1, c2, if_false, ih]
        cases decStack n (bs.drop 3) <;> rfl

/-- **The label walk**: at most one iteration per 3 bytes, and never more than the bound the length
    octet allows. -/
theorem decStackSteps_le (n : Nat) (bs : Bytes) :
    (decStackSteps n bs).2 ≤ n ∧ 3 * (decStackSteps n bs).2 ≤ bs.length + 3 := by
  induction n generalizing bs with
  | zero => simp [decStackSteps]
  | succ n ih =>
    simp only [decStackSteps]
    by_cases c1 : bs.length < 3
    · simp [c1]
    · by_cases c2 : rd24 bs % 2 = 1
      · simp [c1, c2]
      · simp only [c1, c2, if_false]
        have := ih (bs.drop 3)
        simp only [List.length_drop] at this
        omega

/-! ### inside the attribute values, and the whole message -/

/-- Loop iterations inside one attribute value never exceed the number of value bytes. -/
theorem valSteps_le (p : Params) (code : Nat) (v : Bytes) : valSteps p code v ≤ v.length := by
  unfold valSteps
  split
  · exact decSegsSteps_le _ _ _
  split
  · exact decSegsSteps_le _ _ _
  split
  · have := decAsnsSteps_le_n true (v.length / 4) v
    omega
  split
  · split
    · omega
    · split
      · have := decNlrisSteps_le (rd16 v) (v.getD 2 0) (p.ap (rd16 v) (v.getD 2 0)) false
          (v.drop (5 + v.getD 3 0)).length (v.drop (5 + v.getD 3 0))
        have hl : (v.drop (5 + v.getD 3 0)).length = v.length - (5 + v.getD 3 0) := List.length_drop
        omega
      · omega
  split
  · split
    · omega
    · split
      · have := decNlrisSteps_le (rd16 v) (v.getD 2 0) (p.ap (rd16 v) (v.getD 2 0)) true (v.drop 3).length (v.drop 3)
        have hl : (v.drop 3).length = v.length - 3 := List.length_drop
        omega
      · omega
  · omega

theorem decLen_length (ext : Bool) (r : Bytes) (len : Nat) (body : Bytes) (h : decLen ext r = some (len, body)) :
    body.length + 1 ≤ r.length := by
  have := decLen_len ext r len body h
  cases ext <;> simp at this <;> omega

/-- the value `decAttr` looks at is at least 3 bytes shorter than what is left of the block -/
theorem attrValue_le (b : Nat) (t : Bytes) : (attrValue (b :: t)).2.length + 1 ≤ (b :: t).length := by
  unfold attrValue
  cases t with
  | nil => simp
  | cons code r =>
    simp only
    cases h : decLen (Flags.ofByte b).ext r with
    | none => simp
    | some pr =>
      obtain ⟨len, body⟩ := pr
      have := decLen_length _ r len body h
      simp only
      split
      · simp
      · simp only [List.length_take, List.length_cons]
        omega

/-- when the attribute parses, header + value + rest account for the block -/
theorem attrValue_rest (p : Params) (bs : Bytes) (a : Attr) (rest : Bytes) (h : decAttr p bs = .ok (a, rest)) :
    (attrValue bs).2.length + rest.length + 3 ≤ bs.length := by
  match bs with
  | [] => simp [decAttr] at h
  | [_] => simp [decAttr] at h
  | fb :: code :: r =>
    rw [decAttr_cons] at h
    unfold attrValue
    simp only
    cases hl : decLen (Flags.ofByte fb).ext r with
    | none => simp [hl] at h
    | some pr =>
      obtain ⟨len, body⟩ := pr
      have hb := decLen_length _ r len body hl
      simp only [hl] at h ⊢
      by_cases c : body.length < len
      · simp [c] at h
      · simp only [c, if_false] at h ⊢
        cases hf : flagErr (Flags.ofByte fb) code with
        | some e => simp [hf] at h
        | none =>
          simp only [hf] at h
          cases hv : decVal p code (body.take len) with
          | error e => simp [hv] at h
          | ok v =>
            simp only [hv, Except.ok.injEq, Prod.mk.injEq] at h
            obtain ⟨_, rfl⟩ := h
            simp only [List.length_take, List.length_drop, List.length_cons]
            omega

/-- **Linear work of the whole attribute block**: every loop iteration, inside the values included. -/
theorem attrsWork_le (p : Params) (f : Nat) (bs : Bytes) : attrsWork p f bs ≤ bs.length := by
  induction f generalizing bs with
  | zero => cases bs <;> simp [attrsWork]
  | succ f ih =>
    cases bs with
    | nil => simp [attrsWork]
    | cons b t =>
      simp only [attrsWork]
      have hv := valSteps_le p (attrValue (b :: t)).1 (attrValue (b :: t)).2
      cases h : decAttr p (b :: t) with
      | error e =>
        have := attrValue_le b t
        simp only
        omega
      | ok pr =>
        obtain ⟨a, rest⟩ := pr
        have h1 := attrValue_rest p (b :: t) a rest h
        have h2 := ih rest
        simp only
        omega

/-- **Linear work of a whole UPDATE body**: all iterations of all walks together never exceed the
    number of bytes of the body. -/
theorem updateWork_le (p : Params) (bs : Bytes) : updateWork p bs ≤ bs.length := by
  unfold updateWork
  split
  · omega
  · rename_i hc
    have h1 := decNlrisSteps_le 1 1 (p.ap 1 1) true (rd16 bs) ((bs.drop 2).take (rd16 bs))
    have h2 := attrsWork_le p (rd16 (bs.drop (2 + rd16 bs))) ((bs.drop (4 + rd16 bs)).take (rd16 (bs.drop (2 + rd16 bs))))
    have h3 := decNlrisSteps_le 1 1 (p.ap 1 1) false (bs.drop (4 + rd16 bs + rd16 (bs.drop (2 + rd16 bs)))).length
      (bs.drop (4 + rd16 bs + rd16 (bs.drop (2 + rd16 bs))))
    have l1 : ((bs.drop 2).take (rd16 bs)).length ≤ rd16 bs := by
      rw [List.length_take]; omega
    have l2 : ((bs.drop (4 + rd16 bs)).take (rd16 (bs.drop (2 + rd16 bs)))).length ≤ rd16 (bs.drop (2 + rd16 bs)) := by
      rw [List.length_take]; omega
    have l3 : (bs.drop (4 + rd16 bs + rd16 (bs.drop (2 + rd16 bs)))).length =
        bs.length - (4 + rd16 bs + rd16 (bs.drop (2 + rd16 bs))) := List.length_drop
    omega

end Exa.Wire
