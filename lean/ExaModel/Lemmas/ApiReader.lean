import ExaModel.Model.Api
set_option linter.unusedSimpArgs false
set_option linter.unusedVariables false
/-! Lemmas about the API line reader (`split`, `feed`). -/
namespace Exa.Api

/-- lines and remainder of a concatenation from those of the parts -/
def joinSplit (ra rb : List (List Nat) × List Nat) : List (List Nat) × List Nat :=
  match rb.1 with
  | [] => (ra.1, ra.2 ++ rb.2)
  | l :: ls => (ra.1 ++ (ra.2 ++ l) :: ls, rb.2)

theorem split_cons_nl (t : List Nat) : split (10 :: t) = ([] :: (split t).1, (split t).2) := by
  simp [split]

theorem split_cons_ne_nil {b : Nat} (hb : b ≠ 10) {t : List Nat} (h : (split t).1 = []) :
    split (b :: t) = ([], b :: (split t).2) := by
  simp [split, hb, h]

theorem split_cons_ne_cons {b : Nat} (hb : b ≠ 10) {t : List Nat} {l : List Nat} {ls : List (List Nat)}
    (h : (split t).1 = l :: ls) : split (b :: t) = ((b :: l) :: ls, (split t).2) := by
  simp [split, hb, h]

theorem split_append (a b : List Nat) : split (a ++ b) = joinSplit (split a) (split b) := by
  induction a with
  | nil =>
    simp only [List.nil_append, split, joinSplit]
    cases h : (split b).1 <;> simp [← h]
  | cons x a ih =>
    by_cases hx : x = 10
    · subst hx
      rw [List.cons_append, split_cons_nl, split_cons_nl, ih]
      simp only [joinSplit]
      cases (split b).1 <;> simp
    · rw [List.cons_append]
      cases h1 : (split a).1 with
      | nil =>
        cases h2 : (split b).1 with
        | nil =>
          have e : (split (a ++ b)).1 = [] := by rw [ih]; simp [joinSplit, h1, h2]
          rw [split_cons_ne_nil hx e, split_cons_ne_nil hx h1, ih]
          simp [joinSplit, h1, h2]
        | cons l ls =>
          have e : (split (a ++ b)).1 = ((split a).2 ++ l) :: ls := by rw [ih]; simp [joinSplit, h1, h2]
          rw [split_cons_ne_cons hx e, split_cons_ne_nil hx h1, ih]
          simp [joinSplit, h1, h2]
      | cons l0 ls0 =>
        cases h2 : (split b).1 with
        | nil =>
          have e : (split (a ++ b)).1 = l0 :: ls0 := by rw [ih]; simp [joinSplit, h1, h2]
          rw [split_cons_ne_cons hx e, split_cons_ne_cons hx h1, ih]
          simp [joinSplit, h1, h2]
        | cons l ls =>
          have e : (split (a ++ b)).1 = l0 :: (ls0 ++ ((split a).2 ++ l) :: ls) := by
            rw [ih]; simp [joinSplit, h1, h2]
          rw [split_cons_ne_cons hx e, split_cons_ne_cons hx h1, ih]
          simp [joinSplit, h1, h2]

def NoNl (x : List Nat) : Prop := ∀ b ∈ x, b ≠ 10

theorem split_noNl {x : List Nat} (h : NoNl x) : split x = ([], x) := by
  induction x with
  | nil => rfl
  | cons b t ih =>
    have hb : b ≠ 10 := h b (by simp)
    have ht : NoNl t := fun c hc => h c (by simp [hc])
    have e := ih ht
    rw [split_cons_ne_nil hb (by rw [e]), e]

theorem split_rest_noNl (x : List Nat) : NoNl (split x).2 := by
  induction x with
  | nil => intro b hb; simp [split] at hb
  | cons b t ih =>
    by_cases hb : b = 10
    · subst hb; rw [split_cons_nl]; exact ih
    · cases h : (split t).1 with
      | nil =>
        rw [split_cons_ne_nil hb h]
        intro c hc
        simp only [List.mem_cons] at hc
        rcases hc with rfl | hc
        · exact hb
        · exact ih c hc
      | cons l ls => rw [split_cons_ne_cons hb h]; exact ih

/-- no complete line: the remainder is everything -/
theorem split_lines_nil {x : List Nat} (h : (split x).1 = []) : (split x).2 = x := by
  induction x with
  | nil => rfl
  | cons b t ih =>
    by_cases hb : b = 10
    · subst hb; rw [split_cons_nl] at h; simp at h
    · cases h1 : (split t).1 with
      | nil => rw [split_cons_ne_nil hb h1]; simp [ih h1]
      | cons l ls => rw [split_cons_ne_cons hb h1] at h; simp at h

/-- what the second of two consecutive reads sees -/
theorem split_append' (x y : List Nat) :
    split (x ++ y) = ((split x).1 ++ (split ((split x).2 ++ y)).1, (split ((split x).2 ++ y)).2) := by
  rw [split_append x y, split_append (split x).2 y, split_noNl (split_rest_noNl x)]
  simp only [joinSplit]
  cases (split y).1 <;> simp

theorem lineCmds_append (a b : List (List Nat)) : lineCmds (a ++ b) = lineCmds a ++ lineCmds b := by
  simp [lineCmds]

/-- all bytes are ASCII (`str(raw_data, 'ascii')` succeeds) -/
def Ascii (x : List Nat) : Prop := ∀ b ∈ x, b < 128

/-- every complete line and the unfinished one fit in `max` (`MAX_COMMAND_SIZE`) -/
def Within (max : Nat) (x : List Nat) : Prop :=
  (∀ l ∈ (split x).1, l.length ≤ max) ∧ (split x).2.length ≤ max

instance (x : List Nat) : Decidable (Ascii x) := inferInstanceAs (Decidable (∀ b ∈ x, b < 128))
instance (max : Nat) (x : List Nat) : Decidable (Within max x) :=
  inferInstanceAs (Decidable ((∀ l ∈ (split x).1, l.length ≤ max) ∧ (split x).2.length ≤ max))

theorem ascii_any {x : List Nat} (h : Ascii x) : x.any (fun b => decide (128 ≤ b)) = false := by
  simp only [List.any_eq_false, decide_eq_true_eq]
  intro b hb
  have := h b hb
  omega

theorem within_split {max : Nat} {x y : List Nat} (h : Within max (x ++ y)) :
    Within max x ∧ Within max ((split x).2 ++ y) := by
  obtain ⟨hl, hr⟩ := h
  rw [split_append'] at hl hr
  simp only at hl hr
  refine ⟨⟨fun l hl' => hl l (List.mem_append_left _ hl'), ?_⟩, ⟨fun l hl' => hl l (List.mem_append_right _ hl'), hr⟩⟩
  -- the unfinished line of the first part is a prefix of a line (or of the unfinished line) of the whole
  have key := split_append (split x).2 y
  rw [split_noNl (split_rest_noNl x)] at key
  simp only [joinSplit] at key
  cases h2 : (split y).1 with
  | nil =>
    rw [h2] at key
    rw [key] at hr
    simp at hr
    omega
  | cons l ls =>
    rw [h2] at key
    have := hl ((split x).2 ++ l) (by rw [key]; simp)
    simp at this
    omega

/-- the oversize rule does not fire on input within the limit -/
theorem within_no_fire {max : Nat} {raw : List Nat} (h : Within max raw) :
    ((split raw).1.isEmpty && decide (max < raw.length)) = false := by
  cases h1 : (split raw).1 with
  | nil =>
    have := split_lines_nil h1
    have h2 := h.2
    rw [this] at h2
    simp
    omega
  | cons l ls => simp

theorem feed_dead {strict : Bool} {max : Nat} {st : Reader} (h : st.dead = true) (c : List Nat) : feed strict max st c = st := by
  simp [feed, h]

theorem takeWhile_all {α : Type} (p : α → Bool) (l : List α) (h : ∀ x ∈ l, p x = true) : l.takeWhile p = l := by
  induction l with
  | nil => rfl
  | cons a t ih =>
    simp only [List.takeWhile_cons, h a (by simp)]
    rw [ih (fun x hx => h x (by simp [hx]))]
    rfl

theorem feed_alive {strict : Bool} {max : Nat} {st : Reader} (hd : st.dead = false) {c : List Nat} (ha : Ascii c)
    (hw : Within max (st.buf ++ c)) :
    feed strict max st c = { st with buf := (split (st.buf ++ c)).2, queue := st.queue ++ lineCmds (split (st.buf ++ c)).1 } := by
  have htw : (split (st.buf ++ c)).1.takeWhile (fun l => decide (l.length ≤ max)) = (split (st.buf ++ c)).1 :=
    takeWhile_all _ _ (fun l hl => by simpa using hw.1 l hl)
  have hr : decide (max < (split (st.buf ++ c)).2.length) = false := by
    have := hw.2
    simp only [decide_eq_false_iff_not]
    omega
  simp only [feed, hd, ascii_any ha, within_no_fire hw, htw, hr]
  simp

theorem feed_append_aux (strict : Bool) (max : Nat) (st : Reader) (a b : List Nat) (ha : Ascii (a ++ b))
    (hw : Within max (st.buf ++ (a ++ b))) : feed strict max st (a ++ b) = feed strict max (feed strict max st a) b := by
  cases hd : st.dead with
  | true => rw [feed_dead hd, feed_dead hd, feed_dead hd]
  | false =>
    have haa : Ascii a := fun x hx => ha x (List.mem_append_left _ hx)
    have hab : Ascii b := fun x hx => ha x (List.mem_append_right _ hx)
    have hw' : Within max ((st.buf ++ a) ++ b) := by simpa [List.append_assoc] using hw
    obtain ⟨hw1, hw2⟩ := within_split hw'
    rw [feed_alive hd ha hw, feed_alive hd haa hw1]
    rw [feed_alive (st := { st with buf := (split (st.buf ++ a)).2, queue := st.queue ++ lineCmds (split (st.buf ++ a)).1 })
      hd hab hw2]
    have key := split_append' (st.buf ++ a) b
    rw [List.append_assoc] at key
    simp only [key, lineCmds_append, List.append_assoc]

theorem noNl_nil : NoNl [] := by intro b hb; simp at hb

theorem feed_buf_noNl (strict : Bool) (max : Nat) (st : Reader) (c : List Nat) (h : NoNl st.buf) :
    NoNl (feed strict max st c).buf := by
  by_cases hd : st.dead = true
  · rw [feed_dead hd]; exact h
  · by_cases ha : (c.any fun b => decide (128 ≤ b)) = true
    · simp only [feed, hd, ha]; exact noNl_nil
    · by_cases hf : ((split (st.buf ++ c)).1.isEmpty && decide (max < (st.buf ++ c).length)) = true
      · simp only [feed, hd, ha, hf]; exact noNl_nil
      · by_cases hs : (strict && (decide (((split (st.buf ++ c)).1.takeWhile (fun l => decide (l.length ≤ max))).length
            < (split (st.buf ++ c)).1.length) || decide (max < (split (st.buf ++ c)).2.length))) = true
        · simp only [feed, hd, ha, hf, hs]; exact noNl_nil
        · simp only [feed, hd, ha, hf, hs]; exact split_rest_noNl _

theorem feedAll_dead {strict : Bool} {max : Nat} {st : Reader} (h : st.dead = true) (cs : List (List Nat)) :
    feedAll strict max st cs = st := by
  induction cs with
  | nil => rfl
  | cons c cs ih => simp only [feedAll, List.foldl_cons, feed_dead h] at ih ⊢; exact ih

theorem feed_nil {strict : Bool} {max : Nat} {st : Reader} (hn : NoNl st.buf) (hw : Within max st.buf) : feed strict max st [] = st := by
  cases hd : st.dead with
  | true => exact feed_dead hd _
  | false =>
    have hw' : Within max (st.buf ++ []) := by simpa using hw
    rw [feed_alive hd (fun _ h => by simp at h) hw']
    simp only [List.append_nil, split_noNl hn, lineCmds, List.map_nil, List.filter_nil]

theorem feedAll_eq_feed (strict : Bool) (max : Nat) (cs : List (List Nat)) : ∀ (st : Reader), NoNl st.buf → Ascii cs.flatten →
    Within max (st.buf ++ cs.flatten) → feedAll strict max st cs = feed strict max st cs.flatten := by
  induction cs with
  | nil =>
    intro st hn _ hw
    simp only [List.flatten_nil, List.append_nil] at hw
    simp only [feedAll, List.foldl_nil, List.flatten_nil]
    exact (feed_nil hn hw).symm
  | cons c cs ih =>
    intro st hn ha hw
    cases hd : st.dead with
    | true => rw [feedAll_dead hd, feed_dead hd]
    | false =>
      simp only [List.flatten_cons] at ha hw ⊢
      have hac : Ascii c := fun x hx => ha x (List.mem_append_left _ hx)
      have har : Ascii cs.flatten := fun x hx => ha x (List.mem_append_right _ hx)
      have hw' : Within max ((st.buf ++ c) ++ cs.flatten) := by simpa [List.append_assoc] using hw
      obtain ⟨hw1, hw2⟩ := within_split hw'
      have hbuf : (feed strict max st c).buf = (split (st.buf ++ c)).2 := by rw [feed_alive hd hac hw1]
      have := ih (feed strict max st c) (feed_buf_noNl strict max st c hn) har (by rw [hbuf]; exact hw2)
      simp only [feedAll, List.foldl_cons] at this ⊢
      rw [this, ← feed_append_aux strict max st c cs.flatten ha hw]

end Exa.Api
