import ExaModel.Lemmas.WireCount
set_option linter.unusedSimpArgs false
/-! Byte accounting, continued: attribute values, TLVs, the walk, the whole UPDATE. -/
namespace Exa.Wire
open Exa

theorem ite_err {c : Prop} [Decidable c] {e : Err} {y : Except Err AttrVal} {val : AttrVal}
    (h : (if c then (Except.error e : Except Err AttrVal) else y) = .ok val) : ¬ c ∧ y = .ok val := by
  by_cases hc : c
  · rw [if_pos hc] at h; cases h
  · rw [if_neg hc] at h; exact ⟨hc, h⟩

theorem ok_inj {x val : AttrVal} (h : (Except.ok x : Except Err AttrVal) = .ok val) : x = val := by
  cases h; rfl

theorem decVal_len (p : Params) (code : Nat) (v : Bytes) (val : AttrVal) (h : decVal p code v = .ok val) :
    (encVal p val).length = v.length := by
  unfold decVal at h
  by_cases c1 : code = 1
  · rw [if_pos c1] at h
    obtain ⟨a, h⟩ := ite_err h
    obtain ⟨_, h⟩ := ite_err h
    have := ok_inj h; subst this
    simp only [encVal, List.length_cons, List.length_nil]; omega
  rw [if_neg c1] at h
  by_cases c2 : code = 2
  · rw [if_pos c2] at h
    cases hd : decSegs p.asn4 v.length v with
    | none => rw [hd] at h; cases h
    | some s =>
      rw [hd] at h
      have := ok_inj h; subst this
      exact decSegs_len _ _ _ _ hd
  rw [if_neg c2] at h
  by_cases c3 : code = 3
  · rw [if_pos c3] at h
    obtain ⟨a, h⟩ := ite_err h
    have := ok_inj h; subst this
    simp only [encVal, be32_length]; omega
  rw [if_neg c3] at h
  by_cases c4 : code = 4
  · rw [if_pos c4] at h
    obtain ⟨a, h⟩ := ite_err h
    have := ok_inj h; subst this
    simp only [encVal, be32_length]; omega
  rw [if_neg c4] at h
  by_cases c5 : code = 5
  · rw [if_pos c5] at h
    obtain ⟨a, h⟩ := ite_err h
    have := ok_inj h; subst this
    simp only [encVal, be32_length]; omega
  rw [if_neg c5] at h
  by_cases c6 : code = 6
  · rw [if_pos c6] at h
    obtain ⟨a, h⟩ := ite_err h
    have := ok_inj h; subst this
    simp only [encVal, List.length_nil]; omega
  rw [if_neg c6] at h
  by_cases c7 : code = 7
  · rw [if_pos c7] at h
    cases ha : p.asn4 with
    | true =>
      simp only [ha, if_true] at h
      obtain ⟨a, h⟩ := ite_err h
      have := ok_inj h; subst this
      simp only [encVal, encAsn, ha, if_true, List.length_append, be32_length]; omega
    | false =>
      simp only [ha, Bool.false_eq_true, if_false] at h
      obtain ⟨a, h⟩ := ite_err h
      have := ok_inj h; subst this
      simp only [encVal, encAsn, ha, Bool.false_eq_true, if_false, List.length_append, be32_length, be16_length]
      omega
  rw [if_neg c7] at h
  by_cases c8 : code = 8
  · rw [if_pos c8] at h
    obtain ⟨a, h⟩ := ite_err h
    have := ok_inj h; subst this
    exact (decU32s_len v (by omega)).2
  rw [if_neg c8] at h
  by_cases c9 : code = 9
  · rw [if_pos c9] at h
    obtain ⟨a, h⟩ := ite_err h
    have := ok_inj h; subst this
    simp only [encVal, be32_length]; omega
  rw [if_neg c9] at h
  by_cases c10 : code = 10
  · rw [if_pos c10] at h
    obtain ⟨a, h⟩ := ite_err h
    have := ok_inj h; subst this
    exact (decU32s_len v (by omega)).2
  rw [if_neg c10] at h
  by_cases c14 : code = 14
  · rw [if_pos c14] at h
    exact decMpReach_len p v val h
  rw [if_neg c14] at h
  by_cases c15 : code = 15
  · rw [if_pos c15] at h
    exact decMpUnreach_len p v val h
  rw [if_neg c15] at h
  by_cases c16 : code = 16
  · rw [if_pos c16] at h
    obtain ⟨a, h⟩ := ite_err h
    have := ok_inj h; subst this
    obtain ⟨l1, l2⟩ := decU32s_len v (by omega)
    simp only [encVal, encAsns_length, if_true, flat2_unflat2_length (decU32s v) (by omega)] at l2 ⊢
    omega
  rw [if_neg c16] at h
  by_cases c17 : code = 17
  · rw [if_pos c17] at h
    cases hd : decSegs true v.length v with
    | none => rw [hd] at h; cases h
    | some s =>
      rw [hd] at h
      have := ok_inj h; subst this
      exact decSegs_len _ _ _ _ hd
  rw [if_neg c17] at h
  by_cases c18 : code = 18
  · rw [if_pos c18] at h
    obtain ⟨a, h⟩ := ite_err h
    have := ok_inj h; subst this
    simp only [encVal, List.length_append, be32_length]; omega
  rw [if_neg c18] at h
  by_cases c32 : code = 32
  · rw [if_pos c32] at h
    obtain ⟨a, h⟩ := ite_err h
    have := ok_inj h; subst this
    obtain ⟨l1, l2⟩ := decU32s_len v (by omega)
    simp only [encVal, encAsns_length, if_true, flat3_unflat3_length (decU32s v) (by omega)] at l2 ⊢
    omega
  rw [if_neg c32] at h
  have := ok_inj h; subst this
  rfl

theorem decLen_len (ext : Bool) (r : Bytes) (len : Nat) (body : Bytes) (h : decLen ext r = some (len, body)) :
    r.length = (if ext then 2 else 1) + body.length := by
  unfold decLen at h
  cases ext with
  | true =>
    simp only [if_true] at h
    by_cases c : r.length < 2
    · rw [if_pos c] at h; cases h
    · rw [if_neg c] at h
      simp only [Option.some.injEq, Prod.mk.injEq] at h
      obtain ⟨_, rfl⟩ := h
      simp only [List.length_drop, if_true]; omega
  | false =>
    simp only [Bool.false_eq_true, if_false] at h
    cases r with
    | nil => cases h
    | cons l r' =>
      simp only [Option.some.injEq, Prod.mk.injEq] at h
      obtain ⟨_, rfl⟩ := h
      simp only [List.length_cons, Bool.false_eq_true, if_false]; omega

theorem encLen_length (ext : Bool) (n : Nat) : (encLen ext n).length = if ext then 2 else 1 := by
  cases ext <;> rfl

/-- One attribute: the bytes consumed are as many as the reference encoding of what was read. -/
theorem decAttr_len (p : Params) (bs : Bytes) (a : Attr) (rest : Bytes) (h : decAttr p bs = .ok (a, rest)) :
    bs.length = (encAttr p a).length + rest.length := by
  match bs with
  | [] => simp [decAttr] at h
  | [_] => simp [decAttr] at h
  | fb :: code :: r =>
    rw [decAttr_cons] at h
    cases hd : decLen (Flags.ofByte fb).ext r with
    | none => rw [hd] at h; cases h
    | some pr =>
      obtain ⟨len, body⟩ := pr
      rw [hd] at h
      simp only at h
      have l1 := decLen_len _ _ _ _ hd
      by_cases c : body.length < len
      · rw [if_pos c] at h; cases h
      rw [if_neg c] at h
      cases hf : flagErr (Flags.ofByte fb) code with
      | some e => rw [hf] at h; cases h
      | none =>
        rw [hf] at h
        simp only at h
        cases hv : decVal p code (body.take len) with
        | error e => rw [hv] at h; cases h
        | ok v =>
          rw [hv] at h
          simp only [Except.ok.injEq, Prod.mk.injEq] at h
          obtain ⟨rfl, rfl⟩ := h
          have l2 := decVal_len p code _ v hv
          simp only [encAttr, List.length_cons, List.length_append, encLen_length, l2, List.length_take,
            List.length_drop] at l1 ⊢
          omega

/-- The attribute walk reads its block to the last byte. -/
theorem decAttrs_len (p : Params) (fuel : Nat) (bs : Bytes) (as : List Attr)
    (h : decAttrs p fuel bs = .ok as) : (encAttrs p as).length = bs.length := by
  induction fuel generalizing bs as with
  | zero =>
    cases bs with
    | nil => simp [decAttrs] at h; subst h; rfl
    | cons b t => simp [decAttrs] at h
  | succ f ih =>
    cases bs with
    | nil => simp [decAttrs] at h; subst h; rfl
    | cons b t =>
      simp only [decAttrs] at h
      cases h1 : decAttr p (b :: t) with
      | error e => rw [h1] at h; simp at h
      | ok pr =>
        obtain ⟨a, rest⟩ := pr
        rw [h1] at h
        simp only at h
        cases h2 : decAttrs p f rest with
        | error e => rw [h2] at h; simp at h
        | ok as' =>
          rw [h2] at h
          simp only [Except.ok.injEq] at h
          subst h
          have := decAttr_len p (b :: t) a rest h1
          simp only [encAttrs, List.length_append, ih rest as' h2]
          omega

/-- The whole body: the reference encoding of what was extracted is as long as the input. -/
theorem decodeRaw_length (p : Params) (bs : Bytes) (u : UpdateSem) (h : decodeRaw p bs = .ok u) :
    (encodeUpdate p u).length = bs.length := by
  unfold decodeRaw at h
  by_cases c1 : bs.length < 4
  · rw [if_pos c1] at h; cases h
  by_cases c2 : bs.length < 4 + rd16 bs
  · rw [if_neg c1, if_pos c2] at h; cases h
  by_cases c3 : bs.length < 4 + rd16 bs + rd16 (bs.drop (2 + rd16 bs))
  · rw [if_neg c1, if_neg c2, if_pos c3] at h; cases h
  rw [if_neg c1, if_neg c2, if_neg c3] at h
  cases hw : decNlris 1 1 (p.ap 1 1) true (rd16 bs) ((bs.drop 2).take (rd16 bs)) with
  | error e => rw [hw] at h; simp at h
  | ok w =>
    rw [hw] at h
    simp only at h
    cases ha : decAttrs p (rd16 (bs.drop (2 + rd16 bs)))
        ((bs.drop (4 + rd16 bs)).take (rd16 (bs.drop (2 + rd16 bs)))) with
    | error e => rw [ha] at h; simp at h
    | ok as =>
      rw [ha] at h
      simp only at h
      cases hn : decNlris 1 1 (p.ap 1 1) false (bs.drop (4 + rd16 bs + rd16 (bs.drop (2 + rd16 bs)))).length
          (bs.drop (4 + rd16 bs + rd16 (bs.drop (2 + rd16 bs)))) with
      | error e => rw [hn] at h; simp at h
      | ok n =>
        rw [hn] at h
        simp only [Except.ok.injEq] at h
        subst h
        have l1 := decNlris_len _ _ _ _ _ _ _ hw
        have l2 := decAttrs_len _ _ _ _ ha
        have l3 := decNlris_len _ _ _ _ _ _ _ hn
        simp only [List.length_take, List.length_drop] at l1 l2 l3
        simp only [encodeUpdate, List.length_append, be16_length, l1, l2, l3]
        omega

end Exa.Wire
