import ExaModel.Model.Timer
set_option linter.unusedSimpArgs false
set_option linter.unusedVariables false
/-!
Helper lemmas for C12: closed forms of one `_main` iteration, and the invariants carried along
a schedule of iterations.
-/
namespace Exa.Timer
open Exa.Generated

/-! ### generated constants, pinned (editing them in /repo breaks these) -/

theorem kaDivisor_eq : TimerTable.kaDivisor = 3 := rfl
theorem keepaliveType_eq : TimerTable.keepaliveType = 4 := rfl
theorem holdNotify_eq : TimerTable.holdNotify = (4, 0) := rfl
theorem h0KaNotify_eq : TimerTable.h0KaNotify = (2, 6) := rfl

theorem keepaliveOf_eq (h : Nat) : keepaliveOf h = h / 3 := by
  simp [keepaliveOf, kaDivisor_eq]

/-! ### closed forms of the class methods -/

/-- `check_ka` with a non-zero hold time -/
theorem checkKa_pos (r : Recv) (t : Nat) (k : Kind) (hh : r.hold ≠ 0) :
    r.checkKa t k =
      if k.real = true then ({ r with lastRead := secs t, lastPrint := secs t }, none)
      else if secs t - r.lastRead > r.hold then (r, some (r.code, r.sub))
      else ({ r with lastPrint := secs t }, none) := by
  unfold Recv.checkKa Recv.checkKaTimer
  by_cases hr : k.real = true
  · simp [hh, hr]
  · simp [hh, hr]
    by_cases he : r.hold < secs t - r.lastRead
    · simp [he]
    · simp [he]

/-- `check_ka` with hold time zero: the timer is off, a second KEEPALIVE is answered with 2/6 -/
theorem checkKa_zero (r : Recv) (t : Nat) (k : Kind) (hh : r.hold = 0) :
    r.checkKa t k =
      if k.isKeepalive = true then
        (if r.single = true then (r, some TimerTable.h0KaNotify) else ({ r with single := true }, none))
      else (r, none) := by
  unfold Recv.checkKa Recv.checkKaTimer
  by_cases hk : k.isKeepalive = true
  · simp [hh, hk]
  · simp [hh, hk]

theorem needKa_zero (s : Send) (t : Nat) (hk : s.keepalive = 0) : s.needKa t = (s, false) := by
  simp [Send.needKa, hk]

theorem needKa_pos (s : Send) (t : Nat) (hk : s.keepalive ≠ 0) :
    s.needKa t =
      if s.lastSent + s.keepalive ≤ secs t then ({ s with lastPrint := secs t, lastSent := secs t }, true)
      else ({ s with lastPrint := secs t }, false) := by
  simp [Send.needKa, hk]

theorem needKa_keepalive (s : Send) (t : Nat) : (s.needKa t).1.keepalive = s.keepalive := by
  unfold Send.needKa
  split
  · rfl
  · simp only []
    split <;> rfl

/-! ### the session -/

theorem poll_closed (s : Sess) (p : Poll) (h : s.closed.isSome = true) : s.poll p = (s, .dead) := by
  simp [Sess.poll, h]

theorem run_closed (s : Sess) (ps : List Poll) (x : Nat × Nat × Nat) (h : s.closed = some x) :
    (s.run ps).1 = s ∧ kaTimes (s.run ps).2 = [] := by
  induction ps with
  | nil => simp [Sess.run, kaTimes]
  | cons p ps ih =>
    have hp : s.poll p = (s, .dead) := poll_closed s p (by simp [h])
    simp [Sess.run, hp, ih, kaTimes]

/-- one iteration of an open session with a non-zero hold time -/
theorem poll_pos (s : Sess) (p : Poll) (hc : s.closed = none) (hh : s.recv.hold ≠ 0) :
    s.poll p =
      if p.kind.real = false ∧ secs p.t - s.recv.lastRead > s.recv.hold then
        ({ s with closed := some (p.t, s.recv.code, s.recv.sub) }, .notify s.recv.code s.recv.sub)
      else
        ({ s with recv := { s.recv with lastRead := if p.kind.real = true then secs p.t else s.recv.lastRead,
                                        lastPrint := secs p.t },
                  send := (s.send.needKa p.t).1 },
         if (s.send.needKa p.t).2 = true then .ka else .idle) := by
  unfold Sess.poll
  rw [checkKa_pos _ _ _ hh]
  by_cases hr : p.kind.real = true
  · simp [hc, hr]
    cases hn : (s.send.needKa p.t) with
    | mk s1 b => cases b <;> simp
  · simp [hc, hr]
    by_cases he : s.recv.hold < secs p.t - s.recv.lastRead
    · simp [he]
    · simp [he]
      cases hn : (s.send.needKa p.t) with
      | mk s1 b => cases b <;> simp

/-- one iteration of an open session with hold time zero -/
theorem poll_zero (s : Sess) (p : Poll) (hc : s.closed = none) (hh : s.recv.hold = 0)
    (hk : s.send.keepalive = 0) :
    s.poll p =
      if p.kind.isKeepalive = true ∧ s.recv.single = true then
        ({ s with closed := some (p.t, TimerTable.h0KaNotify.1, TimerTable.h0KaNotify.2) },
          .notify TimerTable.h0KaNotify.1 TimerTable.h0KaNotify.2)
      else
        ({ s with recv := { s.recv with single := s.recv.single || p.kind.isKeepalive } }, .idle) := by
  unfold Sess.poll
  rw [checkKa_zero _ _ _ hh, needKa_zero _ _ hk]
  by_cases hka : p.kind.isKeepalive = true
  · by_cases hs : s.recv.single = true
    · simp [hc, hka, hs]
    · simp [hc, hka, hs]
  · simp [hc, hka]

end Exa.Timer
