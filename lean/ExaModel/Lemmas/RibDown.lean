import ExaModel.Lemmas.RibSess
set_option linter.unusedSimpArgs false
/-! Session loss and re-establishment: what holds of the RIB while no session is up, and why
    `replace_restart` re-establishes the convergence invariant against an empty peer table. -/
namespace Exa.Rib
open Exa

/-- What holds of the RIB at all times (in particular while the session is down). -/
structure Down (rib : Rib) : Prop where
  wfAnn : WFMap rib.newAnn
  staleOK : StaleOK rib.stale
  wfCache : WFMap rib.cache
  cacheOn : rib.cacheOn = true
  annCached : ∀ n r, AList.lookup n rib.newAnn = some r → AList.lookup n rib.cache = some r
  refCached : ∀ r ∈ rib.refRoutes, AList.lookup r.nlri rib.cache ≠ none

theorem down_add (rib : Rib) (r : Route) (f : Bool) (d : Down rib) : Down (rib.add r f) := by
  unfold Rib.add
  split
  · exact d
  · have hc := d.cacheOn
    refine ⟨wfmap_insert d.wfAnn r, staleOK_updateRib rib r d.wfAnn d.staleOK, ?_, ?_, ?_, ?_⟩
    · simp only [Rib.updateRib, hc, if_true]; exact wfmap_insert d.wfCache r
    · simpa [Rib.updateRib] using hc
    · intro n r' h
      simp only [Rib.updateRib, hc, if_true] at h ⊢
      by_cases hn : n = r.nlri
      · subst hn; simpa using h
      · rw [AList.lookup_insert_ne hn] at h ⊢; exact d.annCached n r' h
    · intro r' hr'
      have := d.refCached r' hr'
      simp only [Rib.updateRib, hc, if_true] at this ⊢
      by_cases hn : r'.nlri = r.nlri
      · rw [hn]; simp
      · rw [AList.lookup_insert_ne hn]; exact this

theorem down_del (rib : Rib) (m fam : Nat) (d : Down rib) : Down (rib.del m fam) := by
  have hc := d.cacheOn
  refine ⟨wfmap_erase d.wfAnn m, staleOK_erase d.staleOK m, ?_, ?_, ?_, ?_⟩
  · simp only [Rib.del, hc, if_true]; exact wfmap_erase d.wfCache m
  · simpa [Rib.del] using hc
  · intro n r' h
    simp only [Rib.del, hc, if_true] at h ⊢
    by_cases hn : n = m
    · subst hn; simp at h
    · rw [AList.lookup_erase_ne hn] at h ⊢; exact d.annCached n r' h
  · intro r' hr'
    have hmem := List.mem_filter.1 hr'
    have hne : r'.nlri ≠ m := by simpa using hmem.2
    have := d.refCached r' hmem.1
    simp only [Rib.del, hc, if_true] at this ⊢
    rw [AList.lookup_erase_ne hne]; exact this

theorem down_resend (rib : Rib) (e : Bool) (fam : Option Nat) (d : Down rib) : Down (rib.resend e fam) := by
  refine ⟨d.wfAnn, d.staleOK, d.wfCache, d.cacheOn, d.annCached, ?_⟩
  intro r hr
  simp only [Rib.resend, List.mem_append] at hr
  rcases hr with hr | hr
  · exact d.refCached r hr
  · have := mem_values_lookup d.wfCache (mem_cachedRoutes hr)
    simp only [Rib.resend] at this ⊢
    rw [this]; simp

theorem down_closed : RibClosed Down :=
  ⟨down_add, down_del, down_resend, fun _ _ _ d => ⟨d.wfAnn, d.staleOK, d.wfCache, d.cacheOn, d.annCached, d.refCached⟩⟩

theorem down_reset (rib : Rib) (hw : WFMap rib.cache) (hc : rib.cacheOn = true) : Down rib.reset := by
  refine ⟨wfmap_nil, staleOK_nil, hw, hc, ?_, ?_⟩
  · intro n r h; simp [Rib.reset, Rib.flushed] at h
  · intro r hr; simp [Rib.reset, Rib.flushed] at hr

/-- Operations the API / configuration can perform on the RIB while the session is down. -/
def Op.isRibOnly : Op → Bool
  | .add _ _ | .del _ _ | .resend _ _ | .withdrawAll _ | .wdogAdd _ _ _
  | .wdogAnnounce _ | .wdogWithdraw _ | .reload _ _ => true
  | _ => false

theorem down_step (s : Sess) (op : Op) (hop : op.isRibOnly = true) (d : Down s.rib) :
    Down (s.step op).1.rib ∧ (s.step op).1.inflight = s.inflight ∧ (s.step op).1.inclWd = s.inclWd
      ∧ (s.step op).2 = [] := by
  cases op with
  | add r f => exact ⟨down_closed.add _ r f d, rfl, rfl, rfl⟩
  | del n f => exact ⟨down_closed.del _ n f d, rfl, rfl, rfl⟩
  | resend e f => exact ⟨down_closed.resend _ e f d, rfl, rfl, rfl⟩
  | withdrawAll fs => exact ⟨down_closed.withdrawAll fs _ d, rfl, rfl, rfl⟩
  | wdogAdd r n w => exact ⟨down_closed.wdogAdd r n w _ d, rfl, rfl, rfl⟩
  | wdogAnnounce n => exact ⟨down_closed.wdogAnnounce n _ d, rfl, rfl, rfl⟩
  | wdogWithdraw n => exact ⟨down_closed.wdogWithdraw n _ d, rfl, rfl, rfl⟩
  | reload p n => exact ⟨down_closed.replaceReload p n _ d, rfl, rfl, rfl⟩
  | start => cases hop
  | next => cases hop
  | lost => cases hop
  | established p n => cases hop

theorem down_run (s : Sess) (ops : List Op) (hops : ∀ op ∈ ops, op.isRibOnly = true) (d : Down s.rib) :
    Down (s.run ops).1.rib ∧ (s.run ops).1.inflight = s.inflight ∧ (s.run ops).1.inclWd = s.inclWd
      ∧ (s.run ops).2 = [] := by
  induction ops generalizing s with
  | nil => exact ⟨d, rfl, rfl, rfl⟩
  | cons op rest ih =>
    simp only [Sess.run]
    obtain ⟨d1, hi1, hw1, ho1⟩ := down_step s op (hops op List.mem_cons_self) d
    obtain ⟨d2, hi2, hw2, ho2⟩ := ih (s.step op).1 (fun o ho => hops o (List.mem_cons_of_mem _ ho)) d1
    exact ⟨d2, hi2.trans hi1, hw2.trans hw1, by simp [ho1, ho2]⟩

/-! ### `replace_restart` -/

theorem insert_same {l : AList Nat Route} {k : Nat} {v : Route} (h : AList.lookup k l = some v) :
    AList.insert k v l = l := by
  induction l with
  | nil => simp [AList.lookup] at h
  | cons hd t ih =>
    obtain ⟨k₁, v₁⟩ := hd
    by_cases hk : k₁ = k
    · subst hk; simp [AList.lookup] at h; subst h; simp [AList.insert]
    · simp [AList.lookup, hk] at h; simp [AList.insert, hk, ih h]

/-- Forced re-adding of routes that are already in the cache: the cache is untouched, each of
    them is queued. -/
theorem readd_cached (rs : List Route) (rib : Rib) (hc : rib.cacheOn = true)
    (hrs : ∀ r ∈ rs, AList.lookup r.nlri rib.cache = some r) :
    let rib' := rs.foldl (fun s r => s.add r true) rib
    rib'.cache = rib.cache ∧ rib'.refRoutes = rib.refRoutes ∧ rib'.newWd = rib.newWd ∧
    rib'.cacheOn = true ∧
    (∀ n, AList.lookup n rib'.newAnn =
      if ∃ r ∈ rs, r.nlri = n then AList.lookup n rib.cache else AList.lookup n rib.newAnn) := by
  induction rs generalizing rib with
  | nil => simp [hc]
  | cons r t ih =>
    have hr := hrs r List.mem_cons_self
    have hadd : (rib.add r true).cache = rib.cache := by
      simp [Rib.add, Rib.updateRib, hc, insert_same hr]
    have hc' : (rib.add r true).cacheOn = true := by simpa [Rib.add, Rib.updateRib] using hc
    have := ih (rib.add r true) hc' (by
      intro r' hr'; rw [hadd]; exact hrs r' (List.mem_cons_of_mem _ hr'))
    simp only [List.foldl_cons] at this ⊢
    obtain ⟨h1, h2, h3, h4, h5⟩ := this
    refine ⟨h1.trans hadd, ?_, ?_, h4, ?_⟩
    · rw [h2]; simp [Rib.add, Rib.updateRib]
    · rw [h3]; simp [Rib.add, Rib.updateRib]
    · intro n
      rw [h5 n, hadd]
      by_cases hex : ∃ r' ∈ t, r'.nlri = n
      · have : ∃ r' ∈ r :: t, r'.nlri = n := by
          obtain ⟨r', hr', hn⟩ := hex; exact ⟨r', List.mem_cons_of_mem _ hr', hn⟩
        simp [hex, this]
      · simp only [hex, if_false]
        by_cases hn : r.nlri = n
        · have : ∃ r' ∈ r :: t, r'.nlri = n := ⟨r, List.mem_cons_self, hn⟩
          simp only [this, if_true]
          subst hn
          simp [Rib.add, Rib.updateRib, hr]
        · have : ¬ ∃ r' ∈ r :: t, r'.nlri = n := by
            rintro ⟨r', hr', hn'⟩
            rcases List.mem_cons.1 hr' with h | h
            · subst h; exact hn hn'
            · exact hex ⟨r', h, hn'⟩
          simp only [this, if_false]
          have hn' : n ≠ r.nlri := fun e => hn e.symm
          simp [Rib.add, Rib.updateRib, AList.lookup_insert_ne hn']

/-- Every cached route belongs to a family the RIB serves (the property's premise
    "routes of a negotiated family"). -/
def FamOK (rib : Rib) : Prop := ∀ r ∈ AList.values rib.cache, rib.families.contains r.fam = true

theorem mem_values_of_lookup {l : AList Nat Route} {n : Nat} {r : Route} (h : AList.lookup n l = some r) :
    r ∈ AList.values l := by
  have := AList.mem_of_lookup h
  exact List.mem_map.2 ⟨(n, r), this, rfl⟩

/-- After a session loss, `replace_restart` queues exactly what an empty peer table needs. -/
theorem good_established (rib : Rib) (prev new : List Route) (d : Down rib) (hf : FamOK rib) :
    Good ⟨rib.replaceRestart prev new, none, false⟩ [] := by
  unfold Rib.replaceRestart
  apply (good_closed none false []).delRoutes
  have hrs : ∀ r ∈ rib.cachedRoutes rib.families, AList.lookup r.nlri rib.cache = some r :=
    fun r hr => mem_values_lookup d.wfCache (mem_cachedRoutes hr)
  obtain ⟨h1, h2, h3, h4, h5⟩ := readd_cached (rib.cachedRoutes rib.families) rib d.cacheOn hrs
  have hall : ∀ n, AList.lookup n (List.foldl (fun s r => s.add r true) rib (rib.cachedRoutes rib.families)).newAnn
      = AList.lookup n rib.cache := by
    intro n
    rw [h5 n]
    split
    · rfl
    · rename_i hex
      cases hl : AList.lookup n rib.cache with
      | none =>
        cases hq : AList.lookup n rib.newAnn with
        | none => rfl
        | some r => have := d.annCached n r hq; rw [hl] at this; cases this
      | some r =>
        exfalso; apply hex
        have hv := mem_values_of_lookup hl
        have hk : r.nlri = n := d.wfCache.2 (n, r) (AList.mem_of_lookup hl)
        refine ⟨r, ?_, hk⟩
        simp only [Rib.cachedRoutes, List.mem_filter, hv, true_and, Bool.and_self, hf r hv]
  -- well-formedness of the rebuilt queue
  have hdn := (down_closed.addRoutes true (rib.cachedRoutes rib.families) rib d)
  have hwf : WFMap (List.foldl (fun s r => s.add r true) rib (rib.cachedRoutes rib.families)).newAnn :=
    hdn.wfAnn
  refine ⟨hwf, hdn.staleOK, by rw [h1]; exact d.wfCache, h4, ?_, ?_, ?_⟩
  · intro n
    simp only [snapEff, nextIncl, Option.isSome_none, Bool.or_false, Bool.false_and, Bool.false_eq_true,
      if_false, Option.getD_none, effect_nil, AList.lookup_nil, Rib.cacheView]
    rw [hall n, h1, h2]
    cases hl : AList.lookup n rib.cache with
    | some r => rfl
    | none =>
      simp only [Option.map_none]
      apply effect_ann_other
      intro r hr hn
      have := d.refCached r hr
      rw [hn, hl] at this; exact this rfl
  · intro _ _ n; rfl
  · intro r hr
    rw [h2] at hr; rw [h1]; exact d.refCached r hr

theorem good_down {s : Sess} {t : Table} (g : Good s t) : Down (s.step .lost).1.rib :=
  down_reset s.rib g.wfCache g.cacheOn

theorem finish_rib (s : Sess) : s.finish.1.rib = s.rib := by
  obtain ⟨rib, infl, incl⟩ := s
  cases infl <;> rfl

theorem start_cache (s : Sess) : (s.step .start).1.rib.cache = s.rib.cache := by
  obtain ⟨rib, infl, incl⟩ := s
  cases infl with
  | some x => rfl
  | none =>
    simp only [Sess.step]
    by_cases h : rib.pending = true <;> simp [h, Rib.flushed]

theorem drain_cache (s : Sess) : s.drain.1.rib.cache = s.rib.cache := by
  simp only [Sess.drain, finish_rib, start_cache]

theorem run_append (s : Sess) (a b : List Op) :
    s.run (a ++ b) = ((s.run a).1.run b |>.1, (s.run a).2 ++ ((s.run a).1.run b).2) := by
  induction a generalizing s with
  | nil => simp [Sess.run]
  | cons op rest ih => simp [Sess.run, ih, List.append_assoc]

theorem del_cache_none (rib : Rib) (m f n : Nat) (h : AList.lookup n rib.cache = none) :
    AList.lookup n (rib.del m f).cache = none := by
  simp only [Rib.del]
  split
  · rw [AList.lookup_erase]; split <;> simp [h]
  · exact h

theorem delRoutes_cache_none (rs : List Route) (rib : Rib) (n : Nat) (h : AList.lookup n rib.cache = none) :
    AList.lookup n (rib.delRoutes rs).cache = none := by
  induction rs generalizing rib with
  | nil => exact h
  | cons r t ih => exact ih _ (del_cache_none rib r.nlri r.fam n h)

theorem add_cache_none (rib : Rib) (r : Route) (f : Bool) (n : Nat) (hn : r.nlri ≠ n)
    (h : AList.lookup n rib.cache = none) : AList.lookup n (rib.add r f).cache = none := by
  unfold Rib.add
  split
  · exact h
  · simp only [Rib.updateRib]
    split
    · rw [AList.lookup_insert_ne (fun e => hn e.symm)]; exact h
    · exact h

theorem addRoutes_cache_none (rs : List Route) (rib : Rib) (f : Bool) (n : Nat)
    (hrs : ∀ r ∈ rs, r.nlri ≠ n) (h : AList.lookup n rib.cache = none) :
    AList.lookup n (rs.foldl (fun s r => s.add r f) rib).cache = none := by
  induction rs generalizing rib with
  | nil => exact h
  | cons r t ih =>
    exact ih _ (fun r' hr' => hrs r' (List.mem_cons_of_mem _ hr'))
      (add_cache_none rib r f n (hrs r List.mem_cons_self) h)

/-- `replace_restart` never puts into the cache a prefix that was not there. -/
theorem replaceRestart_cache_none (rib : Rib) (prev new : List Route) (n : Nat)
    (hw : WFMap rib.cache) (h : AList.lookup n rib.cache = none) :
    AList.lookup n (rib.replaceRestart prev new).cache = none := by
  unfold Rib.replaceRestart
  apply delRoutes_cache_none
  apply addRoutes_cache_none
  · intro r hr hn
    have := mem_values_lookup hw (mem_cachedRoutes hr)
    rw [hn, h] at this; cases this
  · exact h

end Exa.Rib
