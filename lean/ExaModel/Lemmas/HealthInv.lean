import ExaModel.Lemmas.HealthBasic
set_option linter.unusedSimpArgs false
/-! The run invariant of M-Health and the one-step facts the C20 theorems are assembled from. -/
namespace Exa.Health

/-- What is known about the loop variables after a history `hist`:
    * the states whose branch in `one` raises `ValueError` (EXIT, END) are never the loop state;
    * in RISING, `checks` counts successes of the current streak and has not reached `rise` (> 1);
    * dually in FALLING. -/
structure LInv (c : Cfg) (hist : List Inp) (l : Loop) : Prop where
  handled : l.st ≠ .exit ∧ l.st ≠ .end_
  rising : l.st = .rising → 1 < c.rise ∧ 1 ≤ l.checks ∧ l.checks < c.rise ∧
    l.checks ≤ (trailing (Inp.good c) hist : Int)
  falling : l.st = .falling → 1 < c.fall ∧ 1 ≤ l.checks ∧ l.checks < c.fall ∧
    l.checks ≤ (trailing (Inp.bad c) hist : Int)

theorem linv_init (c : Cfg) : LInv c [] {} := by
  refine ⟨by decide, ?_, ?_⟩ <;> simp

theorem linv_step (c : Cfg) (hist : List Inp) (l : Loop) (i : Inp) (h : LInv c hist l) :
    LInv c (hist ++ [i]) (one c l i) := by
  obtain ⟨checks, st⟩ := l
  obtain ⟨h1, h2, h3⟩ := h
  simp only at h1 h2 h3
  cases st <;> cases hD : i.disabled c <;> cases hok : i.ok <;>
    by_cases hr : c.rise ≤ 1 <;> by_cases hf : c.fall ≤ 1 <;>
    simp [one, fsm, trigger, Inp.successful, Inp.good, Inp.bad, hD, hok, hr, hf, trailing_snoc] at h1 h2 h3 ⊢
  all_goals (try split)
  all_goals (refine ⟨by simp, ?_, ?_⟩ <;> simp [trailing_snoc, Inp.good, Inp.bad, hD, hok] <;> omega)

/-- The unhandled branch of `one` (Python: `raise ValueError`) is not taken from a reachable state. -/
theorem fsm_handled (c : Cfg) (l : Loop) (i : Inp) (h : l.st ≠ .exit ∧ l.st ≠ .end_) :
    (fsm c l i).2.2 = false := by
  obtain ⟨checks, st⟩ := l
  cases st <;> simp at h <;> simp [fsm] <;> repeat' split
  all_goals rfl

/-- `ann` is what was last announced: whenever the loop state is an announce target it is `ann`. -/
structure Inv (c : Cfg) (hist : List Inp) (r : Run) : Prop where
  loop : LInv c hist r.loop
  ann : r.loop.st.isAnnounce = true → r.ann = some r.loop.st

theorem inv_init (c : Cfg) : Inv c [] {} := ⟨linv_init c, by simp [St.isAnnounce]⟩

theorem inv_step (c : Cfg) (hist : List Inp) (r : Run) (i : Inp) (h : Inv c hist r) :
    Inv c (hist ++ [i]) (r.step c i) := by
  refine ⟨linv_step c hist r.loop i h.loop, ?_⟩
  intro ha
  simp only [Run.step] at ha ⊢
  unfold handed
  by_cases hd : (!c.debounce || (one c r.loop i).st != r.loop.st) = true
  · simp only [hd, if_true, ha]
  · simp only [hd, if_false]
    have hsame : (one c r.loop i).st = r.loop.st := by
      simp only [Bool.or_eq_true, Bool.not_eq_true', bne_iff_ne, ne_eq, not_or, Decidable.not_not] at hd
      exact hd.2
    rw [hsame] at ha ⊢
    exact h.ann ha

theorem inv_from (c : Cfg) (inputs hist : List Inp) (r : Run) (h : Inv c hist r) :
    Inv c (hist ++ inputs) (Run.from c r inputs) := by
  induction inputs generalizing hist r with
  | nil => simpa [Run.from] using h
  | cons i rest ih =>
    have := ih (hist ++ [i]) (r.step c i) (inv_step c hist r i h)
    simpa [Run.from, List.append_assoc] using this

/-- The invariant holds after every history, from program start. -/
theorem inv_run (c : Cfg) (hist : List Inp) : Inv c hist (run c hist) := by
  have := inv_from c hist [] {} (inv_init c)
  simpa [run] using this

/-! ## one-step facts -/

/-- Entering UP from another state: the current success streak is at least `max rise 1`. -/
theorem enter_up (c : Cfg) (hist : List Inp) (l : Loop) (i : Inp) (h : LInv c hist l)
    (hne : l.st ≠ .up) (hup : (one c l i).st = .up) :
    max c.rise 1 ≤ (trailing (Inp.good c) (hist ++ [i]) : Int) := by
  obtain ⟨checks, st⟩ := l
  obtain ⟨h1, h2, h3⟩ := h
  simp only at h1 h2 h3 hne
  cases st <;> cases hD : i.disabled c <;> cases hok : i.ok <;>
    by_cases hr : c.rise ≤ 1 <;> by_cases hf : c.fall ≤ 1 <;>
    simp [one, fsm, trigger, Inp.successful, Inp.good, Inp.bad, hD, hok, hr, hf, trailing_snoc] at h1 h2 h3 hne hup ⊢
  all_goals (try split at hup)
  all_goals (first | omega | (simp at hup))

/-- Entering DOWN from another state: the current failure streak is at least `max fall 1`. -/
theorem enter_down (c : Cfg) (hist : List Inp) (l : Loop) (i : Inp) (h : LInv c hist l)
    (hne : l.st ≠ .down) (hdown : (one c l i).st = .down) :
    max c.fall 1 ≤ (trailing (Inp.bad c) (hist ++ [i]) : Int) := by
  obtain ⟨checks, st⟩ := l
  obtain ⟨h1, h2, h3⟩ := h
  simp only at h1 h2 h3 hne
  cases st <;> cases hD : i.disabled c <;> cases hok : i.ok <;>
    by_cases hr : c.rise ≤ 1 <;> by_cases hf : c.fall ≤ 1 <;>
    simp [one, fsm, trigger, Inp.successful, Inp.good, Inp.bad, hD, hok, hr, hf, trailing_snoc] at h1 h2 h3 hne hdown ⊢
  all_goals (try split at hdown)
  all_goals (first | omega | (simp at hdown))

/-- Entering DISABLED from another state happens exactly on seeing the disable file. -/
theorem enter_disabled (c : Cfg) (l : Loop) (i : Inp)
    (hne : l.st ≠ .disabled) (hdis : (one c l i).st = .disabled) : i.disabled c = true := by
  obtain ⟨checks, st⟩ := l
  simp only at hne
  cases st <;> cases hD : i.disabled c <;> cases hok : i.ok <;>
    by_cases hr : c.rise ≤ 1 <;> by_cases hf : c.fall ≤ 1 <;>
    simp [one, fsm, trigger, Inp.successful, hD, hok, hr, hf] at hne hdis ⊢
  all_goals (try split at hdis)
  all_goals (simp at hdis)

/-- the state a non-disabled input leads to when neither shortcut is active (`rise, fall > 1`):
    never an announce target unless the input continues a streak -/
theorem one_good_target (c : Cfg) (l : Loop) (i : Inp) (hr : 1 < c.rise)
    (hh : l.st ≠ .exit ∧ l.st ≠ .end_) (hg : i.good c = true) :
    (one c l i).st = .rising ∨ (one c l i).st = .up ∨ (one c l i).st = .init := by
  obtain ⟨checks, st⟩ := l
  have hr' : ¬ c.rise ≤ 1 := by omega
  simp only [Inp.good, Bool.and_eq_true, Bool.not_eq_true'] at hg
  cases st <;> by_cases hf : c.fall ≤ 1 <;>
    simp [one, fsm, trigger, Inp.successful, hg.1, hg.2, hr', hf] at hh ⊢
  all_goals (try split)
  all_goals simp

theorem one_bad_target (c : Cfg) (l : Loop) (i : Inp) (hf : 1 < c.fall)
    (hh : l.st ≠ .exit ∧ l.st ≠ .end_) (hb : i.bad c = true) :
    (one c l i).st = .falling ∨ (one c l i).st = .down ∨ (one c l i).st = .init := by
  obtain ⟨checks, st⟩ := l
  have hf' : ¬ c.fall ≤ 1 := by omega
  simp only [Inp.bad, Bool.and_eq_true, Bool.not_eq_true'] at hb
  cases st <;> by_cases hr : c.rise ≤ 1 <;>
    simp [one, fsm, trigger, Inp.successful, hb.1, hb.2, hr, hf'] at hh ⊢
  all_goals (try split)
  all_goals simp

theorem one_disabled_target (c : Cfg) (l : Loop) (i : Inp) (hd : i.disabled c = true) :
    (one c l i).st = .disabled := by
  obtain ⟨checks, st⟩ := l
  cases st <;> simp [one, fsm, trigger, Inp.successful, hd]

/-- a success right after a failure or after leaving DISABLED only starts a streak -/
theorem good_after_low (c : Cfg) (l : Loop) (i : Inp) (hr : 1 < c.rise)
    (hst : l.st = .falling ∨ l.st = .down ∨ l.st = .init) (hg : i.good c = true) :
    (one c l i).st = .rising := by
  obtain ⟨checks, st⟩ := l
  have hr' : ¬ c.rise ≤ 1 := by omega
  simp only [Inp.good, Bool.and_eq_true, Bool.not_eq_true'] at hg
  simp only at hst
  rcases hst with h | h | h <;> subst h <;>
    simp [one, fsm, trigger, Inp.successful, hg.1, hg.2, hr']

theorem bad_after_high (c : Cfg) (l : Loop) (i : Inp) (hf : 1 < c.fall)
    (hst : l.st = .rising ∨ l.st = .up ∨ l.st = .init) (hb : i.bad c = true) :
    (one c l i).st = .falling := by
  obtain ⟨checks, st⟩ := l
  have hf' : ¬ c.fall ≤ 1 := by omega
  simp only [Inp.bad, Bool.and_eq_true, Bool.not_eq_true'] at hb
  simp only at hst
  rcases hst with h | h | h <;> subst h <;>
    simp [one, fsm, trigger, Inp.successful, hb.1, hb.2, hf']

theorem leave_disabled (c : Cfg) (l : Loop) (i : Inp) (hst : l.st = .disabled)
    (hd : i.disabled c = false) : (one c l i).st = .init := by
  obtain ⟨checks, st⟩ := l
  simp only at hst
  subst hst
  simp [one, fsm, trigger, Inp.successful, hd]

/-! ## `ann` and what is written -/

/-- `ann` after a step is either unchanged, or the (announce-target) state just entered. -/
theorem ann_step (c : Cfg) (r : Run) (i : Inp) :
    (r.step c i).ann = r.ann ∨
    ((r.step c i).ann = some (one c r.loop i).st ∧ (one c r.loop i).st.isAnnounce = true ∧
      handed c r.loop i = some (one c r.loop i).st) := by
  simp only [Run.step]
  unfold handed
  by_cases hd : (!c.debounce || (one c r.loop i).st != r.loop.st) = true
  · simp only [hd, if_true]
    by_cases ha : (one c r.loop i).st.isAnnounce = true
    · right; simp [ha]
    · left; simp [ha]
  · left; simp only [hd]; rfl

/-- When `ann` changes, the loop state changed to the new `ann`. -/
theorem ann_change (c : Cfg) (hist : List Inp) (r : Run) (i : Inp) (h : Inv c hist r)
    (hne : (r.step c i).ann ≠ r.ann) :
    (r.step c i).ann = some (one c r.loop i).st ∧ (one c r.loop i).st.isAnnounce = true ∧
      r.loop.st ≠ (one c r.loop i).st := by
  rcases ann_step c r i with h1 | ⟨h1, h2, _⟩
  · exact absurd h1 hne
  · refine ⟨h1, h2, ?_⟩
    intro heq
    apply hne
    rw [h1, ← heq]
    exact (h.ann (by rw [heq]; exact h2)).symm

end Exa.Health
