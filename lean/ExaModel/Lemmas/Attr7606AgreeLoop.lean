/-
  M-Attr7606 vs M-Wire, loop level: the TLV walk of the model of ExaBGP on a reference-encoded attribute block,
  the decision for each well-formed attribute (keep; unrecognised: keep as generic if transitive, else drop),
  and the state the loop ends in.
-/
import ExaModel.Lemmas.Attr7606AgreeVal
set_option linter.unusedSimpArgs false
set_option linter.unusedVariables false

namespace Exa.Attr7606
open Exa Exa.Wire
open Exa.Generated.AttrTable (Row)

/-- A reference attribute as the loop of the model sees it on the wire. -/
def tlvOf (p : Params) (a : Attr) : Tlv :=
  { flag := a.flags.byte, code := a.val.code, dlen := (encVal p a.val).length, val := encVal p a.val }

theorem walk_cons2 (f fb code : Nat) (r : Bytes) : walk (f + 1) (fb :: code :: r) =
    (match decLen (Flags.ofByte fb).ext r with
     | none => ([], true)
     | some (len, body) =>
       ({ flag := fb, code := code, dlen := len, val := body.take len } :: (walk f (body.drop len)).1,
        (walk f (body.drop len)).2)) := rfl

/-- The TLV walk of the model on a reference-encoded block: the attributes, in order, none cut. -/
theorem walk_encAttrs (p : Params) (as : List Attr) (h : ∀ a ∈ as, WFAttr p a) (fuel : Nat)
    (hf : (encAttrs p as).length ≤ fuel) : walk fuel (encAttrs p as) = (as.map (tlvOf p), false) := by
  induction as generalizing fuel with
  | nil => cases fuel <;> rfl
  | cons a t ih =>
    obtain ⟨_, _, hl⟩ := h a (by simp)
    simp only [encAttrs] at hf ⊢
    cases fuel with
    | zero => have := encAttr_length_pos p a; simp only [List.length_append] at hf; omega
    | succ f =>
      rw [encAttr_append, walk_cons2, flags_ofByte_byte, decLen_encLen a.flags.ext _ hl]
      simp only
      rw [List.take_left' rfl, List.drop_left' rfl]
      have hlen : (encAttrs p t).length ≤ f := by
        have := encAttr_length_pos p a
        simp only [List.length_append] at hf
        omega
      rw [ih (fun x hx => h x (List.mem_cons_of_mem _ hx)) f hlen]
      simp [tlvOf]

theorem tlvOf_not_overrun (p : Params) (a : Attr) : (tlvOf p a).overrun = false := by
  simp [Tlv.overrun, tlvOf]

/-! ### registry facts from `TableOk` -/

theorem rowOf_spec {tb : List Row} (htb : TableOk tb) {c : Nat} (hc : c ∈ specCodes) :
    ∃ row, rowOf tb c = some row ∧ row ∈ tb ∧ row.id = c := by
  obtain ⟨row, hrow⟩ := Option.isSome_iff_exists.1 (htb.2 c hc)
  obtain ⟨hm, hid⟩ := rowOf_some hrow
  exact ⟨row, hrow, hm, hid⟩

theorem row_flag_spec {tb : List Row} (htb : TableOk tb) {r : Row} (hr : r ∈ tb) {o t : Bool}
    (hfs : flagSpecX r.id = some (o, t)) : r.flag = b2n o 128 + b2n t 64 := by
  have hok := htb.1 r hr
  unfold rowOk at hok
  simp only [Bool.and_eq_true] at hok
  obtain ⟨⟨hok1, _⟩, _⟩ := hok
  simp only [hfs, beq_iff_eq] at hok1
  exact hok1

theorem optionalCode_spec {tb : List Row} (htb : TableOk tb) {c : Nat} (hc : c ∈ specCodes) {o t : Bool}
    (hfs : flagSpecX c = some (o, t)) : optionalCode tb c = o := by
  obtain ⟨row, _, hm, hid⟩ := rowOf_spec htb hc
  unfold optionalCode
  cases o with
  | true =>
    apply List.any_eq_true.2
    refine ⟨row, hm, ?_⟩
    have := row_flag_spec htb hm (by rw [hid]; exact hfs)
    cases t <;> simp [hid, this, b2n]
  | false =>
    apply List.any_eq_false.2
    intro r hr
    by_cases hrid : r.id = c
    · have := row_flag_spec htb hr (by rw [hrid]; exact hfs)
      cases t <;> simp [hrid, this, b2n]
    · simp [hrid]

theorem registered_spec {tb : List Row} (htb : TableOk tb) {c : Nat} (hc : c ∈ specCodes) {o t : Bool}
    (hfs : flagSpecX c = some (o, t)) (f : Flags) (ho : f.opt = o) (ht : f.trans = t)
    (hp : f.part = true → o = true ∧ t = true) (dl : Nat) (v : Bytes) :
    registered tb c (effFlag tb { flag := f.byte, code := c, dlen := dl, val := v }) = true := by
  obtain ⟨row, _, hm, hid⟩ := rowOf_spec htb hc
  have hfl := row_flag_spec htb hm (by rw [hid]; exact hfs)
  unfold registered
  apply List.any_eq_true.2
  refine ⟨row, hm, ?_⟩
  simp only [effFlag, optionalCode_spec htb hc hfs, hid, beq_self_eq_true, Bool.true_and, beq_iff_eq, hfl]
  obtain ⟨fo, ft, fp, fe⟩ := f
  simp only at ho ht hp
  subst ho; subst ht
  cases fo <;> cases ft <;> cases fp <;> cases fe <;> simp_all [Flags.byte, b2n, maskLow, noPart, noExt]

/-- The generic step: a known code with the RFC flags, a value its decoder accepts, not a refused zero length. -/
theorem decide1_keep_of {fx : Fix} {tb : List Row} {xp : XP} {present : List Nat} (htb : TableOk tb) (t : Tlv)
    (o tt : Bool) (hc : t.code ∈ specCodes) (hfs : flagSpecX t.code = some (o, tt))
    (f : Flags) (hfb : t.flag = f.byte) (ho : f.opt = o) (ht : f.trans = tt)
    (hpart : f.part = true → o = true ∧ tt = true)
    (hov : t.overrun = false) (hp : present.contains t.code = false)
    (hz : ∀ row, rowOf tb t.code = some row → (t.dlen == 0 && !row.validZero) = false)
    (hv : valOutcome fx xp t.code t.val = .ok) : decide1 fx tb xp present t = .keep := by
  obtain ⟨row, hrow, hm, hid⟩ := rowOf_spec htb hc
  have hreg : registered tb t.code (effFlag tb t) = true := by
    have := registered_spec htb hc hfs f ho ht hpart t.dlen t.val
    have e : ({ flag := f.byte, code := t.code, dlen := t.dlen, val := t.val } : Tlv) = t := by
      cases t; simp_all
    rw [e] at this; exact this
  unfold decide1
  simp only [hov, Bool.false_eq_true, if_false, hrow, hp, hreg, if_true, hz row hrow, hv]

/-! ### unrecognised attributes -/

theorem optionalCode_none {tb : List Row} {c : Nat} (h : rowOf tb c = none) : optionalCode tb c = false := by
  unfold optionalCode
  apply List.any_eq_false.2
  intro r hr
  unfold rowOf at h
  have := List.find?_eq_none.1 h r hr
  simp at this
  simp [this]

theorem decide1_unknown {fx : Fix} {tb : List Row} {xp : XP} {present : List Nat} (t : Tlv) (f : Flags)
    (hfb : t.flag = f.byte) (hrow : rowOf tb t.code = none) (hov : t.overrun = false)
    (hp : present.contains t.code = false) :
    decide1 fx tb xp present t = (if f.trans then .keepGeneric else .drop) ∧ effFlag tb t = maskLow f.byte := by
  have he : effFlag tb t = maskLow f.byte := by simp [effFlag, optionalCode_none hrow, hfb]
  refine ⟨?_, he⟩
  unfold decide1
  simp only [hov, Bool.false_eq_true, if_false, hrow, hp, he]
  obtain ⟨fo, ft, fp, fe⟩ := f
  cases fo <;> cases ft <;> cases fp <;> cases fe <;> simp [Flags.byte, b2n, maskLow]

end Exa.Attr7606

namespace Exa.Attr7606
open Exa Exa.Wire
open Exa.Generated.AttrTable (Row)

/-- Zero-length AS_PATH, ATOMIC_AGGREGATE, AS4_PATH are accepted by the table (VALID_ZERO). -/
def TableZero (tb : List Row) : Prop := ∀ r ∈ tb, (r.id = 2 ∨ r.id = 6 ∨ r.id = 17) → r.validZero = true
instance (tb : List Row) : Decidable (TableZero tb) := by unfold TableZero; exact inferInstance

/-- Side conditions on one attribute of a well-formed UPDATE under which the model of ExaBGP takes it as the
    reference does: `NonEmptyLists`; an unrecognised type code is one ExaBGP has no class for either;
    `ValAccepts` for the MP attributes. -/
def ExaAccepts (tb : List Row) (xp : XP) (a : Attr) : Prop :=
  NonEmptyLists a.val ∧
  (match a.val with
   | .unknown c _ => rowOf tb c = none
   | v => ValAccepts xp v)

/-- What the loop adds to the collection for a reference attribute. -/
def keptOfAttr (p : Params) (a : Attr) : Option Kept :=
  match a.val with
  | .unknown c raw =>
    if a.flags.trans then
      some { code := c, flag := noExt (withPart (maskLow a.flags.byte)), val := raw, merged := false }
    else none
  | _ => some (keptOf (tlvOf p a))

theorem step_known {fx : Fix} {tb : List Row} {xp : XP} (htb : TableOk tb) (hz : TableZero tb) (a : Attr)
    (hwf : WFAttr xp.p a) (st : LoopSt) (hp : (st.kept.map (·.code)).contains a.val.code = false)
    (o t : Bool) (hfs : flagSpec a.val.code = some (o, t)) (hc : a.val.code ∈ specCodes) (h25 : a.val.code ≠ 25)
    (hk : keptOfAttr xp.p a = some (keptOf (tlvOf xp.p a)))
    (hva : ValAccepts xp a.val) (hne : NonEmptyLists a.val) :
    applyDec tb (tlvOf xp.p a) st (decide1 fx tb xp (st.kept.map (·.code)) (tlvOf xp.p a)) =
      .ok { st with kept := st.kept ++ (keptOfAttr xp.p a).toList } := by
  obtain ⟨hf, hv, _⟩ := hwf
  have hfx : flagSpecX a.val.code = some (o, t) := by simp [flagSpecX, h25, hfs]
  simp only [flagErr, hfs] at hf
  have hfacts : a.flags.opt = o ∧ a.flags.trans = t ∧ (a.flags.part = true → o = true ∧ t = true) := by
    by_cases hh : a.flags.opt = o ∧ a.flags.trans = t ∧ (a.flags.part = true → o = true ∧ t = true)
    · exact hh
    · simp [hh] at hf
  have hd : decide1 fx tb xp (st.kept.map (·.code)) (tlvOf xp.p a) = .keep := by
    apply decide1_keep_of htb (tlvOf xp.p a) o t hc hfx a.flags rfl hfacts.1 hfacts.2.1 hfacts.2.2
      (tlvOf_not_overrun _ _) hp
    · intro row hrow
      obtain ⟨hm, hid⟩ := rowOf_some hrow
      by_cases h3 : a.val.code = 2 ∨ a.val.code = 6 ∨ a.val.code = 17
      · have := hz row hm (by rw [hid]; exact h3)
        simp [this]
      · have hnz : (encVal xp.p a.val).length ≠ 0 := by
          apply encVal_ne_nil xp.p a.val (by omega) hne
          intro c raw hu
          rw [hu] at hva
          exact hva
        simp [tlvOf, hnz]
    · exact valOutcome_enc fx xp a.val hv hva
  rw [hd, hk]
  simp [applyDec]

theorem step_unknown {fx : Fix} {tb : List Row} {xp : XP} (a : Attr) (c : Nat) (raw : Bytes) (hval : a.val = .unknown c raw)
    (st : LoopSt) (hp : (st.kept.map (·.code)).contains a.val.code = false) (hrow : rowOf tb c = none) :
    applyDec tb (tlvOf xp.p a) st (decide1 fx tb xp (st.kept.map (·.code)) (tlvOf xp.p a)) =
      .ok { st with kept := st.kept ++ (keptOfAttr xp.p a).toList } := by
  have hcode : (tlvOf xp.p a).code = c := by simp [tlvOf, hval, AttrVal.code]
  obtain ⟨hd, he⟩ := decide1_unknown (fx := fx) (tb := tb) (xp := xp) (present := st.kept.map (·.code)) (tlvOf xp.p a) a.flags rfl
    (by rw [hcode]; exact hrow) (tlvOf_not_overrun _ _) (by simpa [tlvOf] using hp)
  rw [hd]
  cases ht : a.flags.trans
  · simp [applyDec, keptOfAttr, hval, ht]
  · simp only [ht, if_true, applyDec, he]
    simp [keptOfAttr, hval, ht, keptOf, tlvOf, AttrVal.code, encVal]

/-- One turn of the loop on a well-formed reference attribute. -/
theorem step_enc {fx : Fix} {tb : List Row} {xp : XP} (htb : TableOk tb) (hz : TableZero tb) (a : Attr)
    (hwf : WFAttr xp.p a) (hacc : ExaAccepts tb xp a) (st : LoopSt)
    (hp : (st.kept.map (·.code)).contains a.val.code = false) :
    applyDec tb (tlvOf xp.p a) st (decide1 fx tb xp (st.kept.map (·.code)) (tlvOf xp.p a)) =
      .ok { st with kept := st.kept ++ (keptOfAttr xp.p a).toList } := by
  cases hval : a.val with
  | unknown c raw =>
    exact step_unknown a c raw hval st hp (by have := hacc.2; rw [hval] at this; exact this)
  | mpReachRaw afi safi nh raw => have := hacc.2; rw [hval] at this; exact absurd this id
  | mpUnreachRaw afi safi raw => have := hacc.2; rw [hval] at this; exact absurd this id
  | origin o =>
    exact step_known htb hz a hwf st hp _ _ (by rw [hval]; rfl) (by rw [hval]; simp [AttrVal.code, specCodes]) (by rw [hval]; simp [AttrVal.code])
      (by simp [keptOfAttr, hval]) (by have := hacc.2; rw [hval] at this ⊢; exact this) hacc.1
  | asPath s =>
    exact step_known htb hz a hwf st hp _ _ (by rw [hval]; rfl) (by rw [hval]; simp [AttrVal.code, specCodes]) (by rw [hval]; simp [AttrVal.code])
      (by simp [keptOfAttr, hval]) (by have := hacc.2; rw [hval] at this ⊢; exact this) hacc.1
  | nextHop ip =>
    exact step_known htb hz a hwf st hp _ _ (by rw [hval]; rfl) (by rw [hval]; simp [AttrVal.code, specCodes]) (by rw [hval]; simp [AttrVal.code])
      (by simp [keptOfAttr, hval]) (by have := hacc.2; rw [hval] at this ⊢; exact this) hacc.1
  | med m =>
    exact step_known htb hz a hwf st hp _ _ (by rw [hval]; rfl) (by rw [hval]; simp [AttrVal.code, specCodes]) (by rw [hval]; simp [AttrVal.code])
      (by simp [keptOfAttr, hval]) (by have := hacc.2; rw [hval] at this ⊢; exact this) hacc.1
  | localPref m =>
    exact step_known htb hz a hwf st hp _ _ (by rw [hval]; rfl) (by rw [hval]; simp [AttrVal.code, specCodes]) (by rw [hval]; simp [AttrVal.code])
      (by simp [keptOfAttr, hval]) (by have := hacc.2; rw [hval] at this ⊢; exact this) hacc.1
  | atomicAggregate  =>
    exact step_known htb hz a hwf st hp _ _ (by rw [hval]; rfl) (by rw [hval]; simp [AttrVal.code, specCodes]) (by rw [hval]; simp [AttrVal.code])
      (by simp [keptOfAttr, hval]) (by have := hacc.2; rw [hval] at this ⊢; exact this) hacc.1
  | aggregator x y =>
    exact step_known htb hz a hwf st hp _ _ (by rw [hval]; rfl) (by rw [hval]; simp [AttrVal.code, specCodes]) (by rw [hval]; simp [AttrVal.code])
      (by simp [keptOfAttr, hval]) (by have := hacc.2; rw [hval] at this ⊢; exact this) hacc.1
  | communities cs =>
    exact step_known htb hz a hwf st hp _ _ (by rw [hval]; rfl) (by rw [hval]; simp [AttrVal.code, specCodes]) (by rw [hval]; simp [AttrVal.code])
      (by simp [keptOfAttr, hval]) (by have := hacc.2; rw [hval] at this ⊢; exact this) hacc.1
  | originatorId ip =>
    exact step_known htb hz a hwf st hp _ _ (by rw [hval]; rfl) (by rw [hval]; simp [AttrVal.code, specCodes]) (by rw [hval]; simp [AttrVal.code])
      (by simp [keptOfAttr, hval]) (by have := hacc.2; rw [hval] at this ⊢; exact this) hacc.1
  | clusterList ids =>
    exact step_known htb hz a hwf st hp _ _ (by rw [hval]; rfl) (by rw [hval]; simp [AttrVal.code, specCodes]) (by rw [hval]; simp [AttrVal.code])
      (by simp [keptOfAttr, hval]) (by have := hacc.2; rw [hval] at this ⊢; exact this) hacc.1
  | mpReach afi safi nh ns =>
    exact step_known htb hz a hwf st hp _ _ (by rw [hval]; rfl) (by rw [hval]; simp [AttrVal.code, specCodes]) (by rw [hval]; simp [AttrVal.code])
      (by simp [keptOfAttr, hval]) (by have := hacc.2; rw [hval] at this ⊢; exact this) hacc.1
  | mpUnreach afi safi ns =>
    exact step_known htb hz a hwf st hp _ _ (by rw [hval]; rfl) (by rw [hval]; simp [AttrVal.code, specCodes]) (by rw [hval]; simp [AttrVal.code])
      (by simp [keptOfAttr, hval]) (by have := hacc.2; rw [hval] at this ⊢; exact this) hacc.1
  | extCommunities cs =>
    exact step_known htb hz a hwf st hp _ _ (by rw [hval]; rfl) (by rw [hval]; simp [AttrVal.code, specCodes]) (by rw [hval]; simp [AttrVal.code])
      (by simp [keptOfAttr, hval]) (by have := hacc.2; rw [hval] at this ⊢; exact this) hacc.1
  | as4Path s =>
    exact step_known htb hz a hwf st hp _ _ (by rw [hval]; rfl) (by rw [hval]; simp [AttrVal.code, specCodes]) (by rw [hval]; simp [AttrVal.code])
      (by simp [keptOfAttr, hval]) (by have := hacc.2; rw [hval] at this ⊢; exact this) hacc.1
  | as4Aggregator x y =>
    exact step_known htb hz a hwf st hp _ _ (by rw [hval]; rfl) (by rw [hval]; simp [AttrVal.code, specCodes]) (by rw [hval]; simp [AttrVal.code])
      (by simp [keptOfAttr, hval]) (by have := hacc.2; rw [hval] at this ⊢; exact this) hacc.1
  | largeCommunities cs =>
    exact step_known htb hz a hwf st hp _ _ (by rw [hval]; rfl) (by rw [hval]; simp [AttrVal.code, specCodes]) (by rw [hval]; simp [AttrVal.code])
      (by simp [keptOfAttr, hval]) (by have := hacc.2; rw [hval] at this ⊢; exact this) hacc.1

end Exa.Attr7606

namespace Exa.Attr7606
open Exa Exa.Wire
open Exa.Generated.AttrTable (Row)

theorem keptOfAttr_code (p : Params) (a : Attr) (k : Kept) (h : keptOfAttr p a = some k) : k.code = a.val.code := by
  unfold keptOfAttr at h
  cases hv : a.val <;> simp only [hv] at h
  all_goals first
    | (simp only [Option.some.injEq] at h; subst h; simp [keptOf, tlvOf, hv])
    | (split at h
       · simp only [Option.some.injEq] at h; subst h; simp [AttrVal.code]
       · cases h)

theorem hasCode_false {as : List Attr} {c : Nat} (h : hasCode as c = false) : ∀ a ∈ as, a.val.code ≠ c := by
  intro a ha hc
  have : hasCode as c = true := by
    unfold hasCode
    exact List.any_eq_true.2 ⟨a, ha, by simp [Attr.code, hc]⟩
  rw [h] at this; cases this

/-- The loop of the model on a reference-encoded block of well-formed, pairwise different attributes: every
    attribute is kept with the bytes it was sent with, in wire order — except unrecognised optional
    non-transitive ones, which are left out — and the UPDATE is neither marked treat-as-withdraw nor discard. -/
theorem loop_enc {fx : Fix} {tb : List Row} {xp : XP} (htb : TableOk tb) (hz : TableZero tb) :
    ∀ (as : List Attr), (∀ a ∈ as, WFAttr xp.p a) → (∀ a ∈ as, ExaAccepts tb xp a) → dupCode as = false →
    ∀ (st : LoopSt), (∀ a ∈ as, (st.kept.map (·.code)).contains a.val.code = false) →
    loop fx tb xp (as.map (tlvOf xp.p)) st = .ok { st with kept := st.kept ++ as.filterMap (keptOfAttr xp.p) }
  | [], _, _, _, st, _ => by simp [loop]
  | a :: t, hwf, hacc, hnd, st, hfresh => by
    simp only [dupCode, Bool.or_eq_false_iff] at hnd
    obtain ⟨hnc, hnd'⟩ := hnd
    simp only [List.map_cons, loop_cons]
    rw [step_enc htb hz a (hwf a (by simp)) (hacc a (by simp)) st (hfresh a (by simp))]
    simp only
    have hfresh' : ∀ b ∈ t, (({ st with kept := st.kept ++ (keptOfAttr xp.p a).toList } : LoopSt).kept.map (·.code)).contains
        b.val.code = false := by
      intro b hb
      have h1 := hfresh b (List.mem_cons_of_mem _ hb)
      have h2 : b.val.code ≠ a.val.code := hasCode_false hnc b hb
      rw [Bool.eq_false_iff] at h1 ⊢
      intro hc
      apply h1
      simp only [List.contains_iff_mem, List.map_append, List.mem_append, List.mem_map] at hc ⊢
      rcases hc with hc | ⟨k, hk, hkc⟩
      · exact hc
      · exfalso
        cases hka : keptOfAttr xp.p a with
        | none => simp [hka] at hk
        | some k' =>
          simp [hka] at hk
          subst hk
          exact h2 (by rw [← hkc, keptOfAttr_code xp.p a k hka])
    rw [loop_enc htb hz t (fun x hx => hwf x (List.mem_cons_of_mem _ hx)) (fun x hx => hacc x (List.mem_cons_of_mem _ hx))
      hnd' _ hfresh']
    cases hka : keptOfAttr xp.p a <;> simp [hka, List.filterMap_cons]

end Exa.Attr7606
