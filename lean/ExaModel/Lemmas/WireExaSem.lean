import ExaModel.Lemmas.WireExa
set_option linter.unusedSimpArgs false
/-!
  M-Wire-Exa, part 2 of the lemmas: the attribute block ExaBGP writes is the reference encoding of a
  list of semantic attributes (`semCode`, one slot per round of `for code in sorted(alls)`), every one
  of them well formed for the RFC decoder, with known type codes.
-/
namespace Exa.WireExa
open Exa Exa.Wire
open Exa.Generated.ExaEncTable

/-- The attribute with ExaBGP's flags for its class and its length. -/
def mk (p : Params) (o t : Bool) (val : AttrVal) : Attr := ⟨exaFlags o t (encVal p val).length, val⟩

def semAsPath (p : SessParams) (segs : List Seg) : List Attr :=
  if p.asn4 then [mk (paramsOf p) false true (.asPath segs)]
  else mk (paramsOf p) false true (.asPath (transSegs segs)) ::
    (if hasBig (plainSegs segs) then [mk (paramsOf p) true true (.as4Path (plainSegs segs))] else [])

def semAggregator (p : SessParams) (asn ip : Nat) : List Attr :=
  if p.asn4 then [mk (paramsOf p) true true (.aggregator asn ip)]
  else if !(isBig asn) then [mk (paramsOf p) true true (.aggregator asn ip)]
  else [mk (paramsOf p) true true (.aggregator exaAsTrans ip), mk (paramsOf p) true true (.as4Aggregator asn ip)]

def semGiven (p : SessParams) : ReqAttr → List Attr
  | .origin v => [mk (paramsOf p) false true (.origin v)]
  | .asPath segs => semAsPath p segs
  | .med v => [mk (paramsOf p) true false (.med v)]
  | .localPref v => [mk (paramsOf p) false true (.localPref v)]
  | .atomicAggregate => [mk (paramsOf p) false true .atomicAggregate]
  | .aggregator asn ip => semAggregator p asn ip
  | .communities cs => if cs = [] then [] else [mk (paramsOf p) true true (.communities cs)]
  | .originatorId ip => [mk (paramsOf p) true false (.originatorId ip)]
  | .clusterList ids => if ids = [] then [] else [mk (paramsOf p) true false (.clusterList ids)]
  | .extCommunities cs => if cs = [] then [] else [mk (paramsOf p) true true (.extCommunities cs)]
  | .largeCommunities cs => if cs = [] then [] else [mk (paramsOf p) true true (.largeCommunities cs)]

/-- The default AS_PATH: empty towards the same AS, else the (negotiated view of the) local AS. -/
def defaultPath (p : SessParams) : List Seg := if sameAs p then [] else [(2, [negLocalAs p])]

def semCode (p : SessParams) (r : RouteReq) (nh : Bytes) (c : Nat) : List Attr :=
  if c = 3 then (if nh.length = 4 then [mk (paramsOf p) false true (.nextHop (rd32 nh))] else [])
  else match given r.attrs c with
    | none =>
      if c = 1 then [mk (paramsOf p) false true (.origin 0)]
      else if c = 2 then semAsPath p (defaultPath p)
      else if c = 5 then (if sameAs p then [mk (paramsOf p) false true (.localPref 100)] else [])
      else []
    | some a => if c = 5 && !(sameAs p) then [] else semGiven p a

def semAll (p : SessParams) (r : RouteReq) (nh : Bytes) : List Attr := codeOrder.flatMap (semCode p r nh)

/-! ### small facts -/

theorem be32_ne_nil (n : Nat) (rest : Bytes) : be32 n ++ rest ≠ [] := by simp [be32]
theorem be16_ne_nil (n : Nat) (rest : Bytes) : be16 n ++ rest ≠ [] := by simp [be16]

theorem encAsns_true_ne_nil (l : List Nat) (h : l ≠ []) : encAsns true l ≠ [] := by
  cases l with
  | nil => exact absurd rfl h
  | cons a t => simp [encAsns, encAsn, be32]

theorem flat2_ne_nil (l : List (Nat × Nat)) (h : l ≠ []) : flat2 l ≠ [] := by
  cases l with
  | nil => exact absurd rfl h
  | cons a t => obtain ⟨x, y⟩ := a; simp [flat2]

theorem flat3_ne_nil (l : List (Nat × Nat × Nat)) (h : l ≠ []) : flat3 l ≠ [] := by
  cases l with
  | nil => exact absurd rfl h
  | cons a t => obtain ⟨x, y, z⟩ := a; simp [flat3]

theorem hasBig_ne_nil (segs : List Seg) (h : hasBig segs = true) : segs ≠ [] := by
  intro e; subst e; simp [hasBig] at h

theorem encSegs_ne_nil (w4 : Bool) (segs : List Seg) (h : segs ≠ []) : encSegs w4 segs ≠ [] := by
  cases segs with
  | nil => exact absurd rfl h
  | cons s t => simp [encSegs]

theorem transSegs_len (segs : List Seg) (h : ∀ s ∈ segs, 1 ≤ s.2.length ∧ s.2.length ≤ 255) :
    ∀ s ∈ transSegs segs, 1 ≤ s.2.length ∧ s.2.length ≤ 255 := by
  intro s hs
  simp only [transSegs, List.mem_map] at hs
  obtain ⟨s0, h0, e⟩ := hs
  subst e
  simpa using h s0 h0

theorem be32_rd32 (bs : Bytes) (hl : bs.length = 4) (hw : WFBytes bs) : be32 (rd32 bs) = bs := by
  match bs, hl with
  | [a, b, c, d], _ =>
    have ha : a < 256 := hw a (by simp)
    have hb : b < 256 := hw b (by simp)
    have hc : c < 256 := hw c (by simp)
    have hd : d < 256 := hw d (by simp)
    simp only [be32, rd32, List.getD_cons_zero, List.getD_cons_succ]
    have e1 : (a * 16777216 + b * 65536 + c * 256 + d) / 16777216 % 256 = a := by omega
    have e2 : (a * 16777216 + b * 65536 + c * 256 + d) / 65536 % 256 = b := by omega
    have e3 : (a * 16777216 + b * 65536 + c * 256 + d) / 256 % 256 = c := by omega
    have e4 : (a * 16777216 + b * 65536 + c * 256 + d) % 256 = d := by omega
    rw [e1, e2, e3, e4]

theorem rd32_lt (bs : Bytes) (hl : bs.length = 4) (hw : WFBytes bs) : rd32 bs < 4294967296 := by
  match bs, hl with
  | [a, b, c, d], _ =>
    have ha : a < 256 := hw a (by simp)
    have hb : b < 256 := hw b (by simp)
    have hc : c < 256 := hw c (by simp)
    have hd : d < 256 := hw d (by simp)
    simp only [rd32, List.getD_cons_zero, List.getD_cons_succ]
    omega

/-! ### `given` keeps the code and the ranges -/

theorem normAttr_code (a : ReqAttr) : (normAttr a).code = a.code := by cases a <;> rfl

theorem firstOf_code (as : List ReqAttr) (c : Nat) (a : ReqAttr) (h : firstOf as c = some a) : a.code = c := by
  have := List.find?_some h
  simpa using this

theorem firstOf_mem (as : List ReqAttr) (c : Nat) (a : ReqAttr) (h : firstOf as c = some a) : a ∈ as :=
  List.mem_of_find?_eq_some h

theorem given_code (as : List ReqAttr) (c : Nat) (a : ReqAttr) (h : given as c = some a) : a.code = c := by
  unfold given at h
  split at h
  · rename_i hc
    subst hc
    split at h
    · cases h; rfl
    · cases h
  · cases hf : firstOf as c with
    | none => simp [hf] at h
    | some b =>
      simp only [hf, Option.map_some, Option.some.injEq] at h
      subst h
      rw [normAttr_code]; exact firstOf_code as c b hf

theorem mem_extAll (as : List ReqAttr) (x : Nat × Nat) (h : x ∈ extAll as) :
    ∃ cs, ReqAttr.extCommunities cs ∈ as ∧ x ∈ cs := by
  induction as with
  | nil => simp [extAll] at h
  | cons a t ih =>
    cases a <;> simp only [extAll] at h
    case extCommunities cs =>
      rcases List.mem_append.1 h with h | h
      · exact ⟨cs, by simp, h⟩
      · obtain ⟨cs', h1, h2⟩ := ih h
        exact ⟨cs', List.mem_cons_of_mem _ h1, h2⟩
    all_goals
      obtain ⟨cs', h1, h2⟩ := ih h
      exact ⟨cs', List.mem_cons_of_mem _ h1, h2⟩

theorem wf_normAttr (a : ReqAttr) (h : WFReqAttr a) : WFReqAttr (normAttr a) := by
  cases a <;> simp only [normAttr] <;> try exact h
  case communities cs =>
    intro c hc; exact h c ((mem_sortBy _ _ _).1 hc)
  case extCommunities cs =>
    intro c hc; exact h c ((mem_sortBy _ _ _).1 hc)
  case largeCommunities cs =>
    intro c hc; exact h c ((mem_dedup _ _).1 ((mem_sortBy _ _ _).1 hc))

theorem wf_given (as : List ReqAttr) (hw : ∀ a ∈ as, WFReqAttr a) (c : Nat) (a : ReqAttr)
    (h : given as c = some a) : WFReqAttr a := by
  unfold given at h
  split at h
  · split at h
    · cases h
      intro x hx
      obtain ⟨cs, h1, h2⟩ := mem_extAll as x ((mem_sortBy _ _ _).1 hx)
      exact hw _ h1 x h2
    · cases h
  · cases hf : firstOf as c with
    | none => simp [hf] at h
    | some b =>
      simp only [hf, Option.map_some, Option.some.injEq] at h
      subst h
      exact wf_normAttr b (hw b (firstOf_mem as c b hf))

/-! ### bytes = reference encoding of the semantic attributes -/

theorem hdr1 (p : Params) (v : Bytes) (val : AttrVal) (hv : encVal p val = v) (hc : val.code = 1) :
    hdr 1 v = encAttr p (mk p false true val) := by
  unfold hdr mk; rw [flagOf_vals.1, hdrWith_wk 1 v p val hv hc, hv]
theorem hdr2 (p : Params) (v : Bytes) (val : AttrVal) (hv : encVal p val = v) (hc : val.code = 2) :
    hdr 2 v = encAttr p (mk p false true val) := by
  unfold hdr mk; rw [flagOf_vals.2.1, hdrWith_wk 2 v p val hv hc, hv]
theorem hdr3 (p : Params) (v : Bytes) (val : AttrVal) (hv : encVal p val = v) (hc : val.code = 3) :
    hdr 3 v = encAttr p (mk p false true val) := by
  unfold hdr mk; rw [flagOf_vals.2.2.1, hdrWith_wk 3 v p val hv hc, hv]
theorem hdr4 (p : Params) (v : Bytes) (val : AttrVal) (hv : encVal p val = v) (hc : val.code = 4) (hne : v ≠ []) :
    hdr 4 v = encAttr p (mk p true false val) := by
  unfold hdr mk; rw [flagOf_vals.2.2.2.1, hdrWith_opt 4 v p val hv hc hne, hv]
theorem hdr5 (p : Params) (v : Bytes) (val : AttrVal) (hv : encVal p val = v) (hc : val.code = 5) :
    hdr 5 v = encAttr p (mk p false true val) := by
  unfold hdr mk; rw [flagOf_vals.2.2.2.2.1, hdrWith_wk 5 v p val hv hc, hv]
theorem hdr6 (p : Params) (v : Bytes) (val : AttrVal) (hv : encVal p val = v) (hc : val.code = 6) :
    hdr 6 v = encAttr p (mk p false true val) := by
  unfold hdr mk; rw [flagOf_vals.2.2.2.2.2.1, hdrWith_wk 6 v p val hv hc, hv]
theorem hdr7 (p : Params) (v : Bytes) (val : AttrVal) (hv : encVal p val = v) (hc : val.code = 7) (hne : v ≠ []) :
    hdr 7 v = encAttr p (mk p true true val) := by
  unfold hdr mk; rw [flagOf_vals.2.2.2.2.2.2.1, hdrWith_optTrans 7 v p val hv hc hne, hv]
theorem hdr8 (p : Params) (v : Bytes) (val : AttrVal) (hv : encVal p val = v) (hc : val.code = 8) (hne : v ≠ []) :
    hdr 8 v = encAttr p (mk p true true val) := by
  unfold hdr mk; rw [flagOf_vals.2.2.2.2.2.2.2.1, hdrWith_optTrans 8 v p val hv hc hne, hv]
theorem hdr9 (p : Params) (v : Bytes) (val : AttrVal) (hv : encVal p val = v) (hc : val.code = 9) (hne : v ≠ []) :
    hdr 9 v = encAttr p (mk p true false val) := by
  unfold hdr mk; rw [flagOf_vals.2.2.2.2.2.2.2.2.1, hdrWith_opt 9 v p val hv hc hne, hv]
theorem hdr10 (p : Params) (v : Bytes) (val : AttrVal) (hv : encVal p val = v) (hc : val.code = 10) (hne : v ≠ []) :
    hdr 10 v = encAttr p (mk p true false val) := by
  unfold hdr mk; rw [flagOf_vals.2.2.2.2.2.2.2.2.2.1, hdrWith_opt 10 v p val hv hc hne, hv]
theorem hdr16 (p : Params) (v : Bytes) (val : AttrVal) (hv : encVal p val = v) (hc : val.code = 16) (hne : v ≠ []) :
    hdr 16 v = encAttr p (mk p true true val) := by
  unfold hdr mk; rw [flagOf_vals.2.2.2.2.2.2.2.2.2.2.1, hdrWith_optTrans 16 v p val hv hc hne, hv]
theorem hdr17 (p : Params) (v : Bytes) (val : AttrVal) (hv : encVal p val = v) (hc : val.code = 17) (hne : v ≠ []) :
    hdr 17 v = encAttr p (mk p true true val) := by
  unfold hdr mk; rw [flagOf_vals.2.2.2.2.2.2.2.2.2.2.2.1, hdrWith_optTrans 17 v p val hv hc hne, hv]
theorem hdr18 (p : Params) (v : Bytes) (val : AttrVal) (hv : encVal p val = v) (hc : val.code = 18) (hne : v ≠ []) :
    hdr 18 v = encAttr p (mk p true true val) := by
  unfold hdr mk; rw [flagOf_vals.2.2.2.2.2.2.2.2.2.2.2.2.1, hdrWith_optTrans 18 v p val hv hc hne, hv]
theorem hdr32 (p : Params) (v : Bytes) (val : AttrVal) (hv : encVal p val = v) (hc : val.code = 32) (hne : v ≠ []) :
    hdr 32 v = encAttr p (mk p true true val) := by
  unfold hdr mk; rw [flagOf_vals.2.2.2.2.2.2.2.2.2.2.2.2.2, hdrWith_optTrans 32 v p val hv hc hne, hv]

theorem hdr_opt_nil : hdr 8 [] = [] ∧ hdr 10 [] = [] ∧ hdr 16 [] = [] ∧ hdr 32 [] = [] := by
  unfold hdr
  rw [flagOf_vals.2.2.2.2.2.2.2.1, flagOf_vals.2.2.2.2.2.2.2.2.2.1, flagOf_vals.2.2.2.2.2.2.2.2.2.2.1,
    flagOf_vals.2.2.2.2.2.2.2.2.2.2.2.2.2]
  exact ⟨(hdrWith_opt_nil 8).2, (hdrWith_opt_nil 10).1, (hdrWith_opt_nil 16).2, (hdrWith_opt_nil 32).2⟩

def SegLens (segs : List Seg) : Prop := ∀ s ∈ segs, 1 ≤ s.2.length ∧ s.2.length ≤ 255

theorem packAsPath_eq (p : SessParams) (segs : List Seg) (h : SegLens segs) :
    packAsPath p segs = encAttrs (paramsOf p) (semAsPath p segs) := by
  unfold packAsPath semAsPath
  by_cases h4 : p.asn4 = true
  · simp only [h4, if_true, encAttrs_single]
    rw [packSegs_eq true segs h]
    exact hdr2 (paramsOf p) _ (.asPath segs) (by simp [encVal, paramsOf, h4]) rfl
  · have h4' : p.asn4 = false := by simpa using h4
    simp only [h4', Bool.false_eq_true, if_false]
    rw [packSegs_eq false _ (transSegs_len segs h)]
    have e1 : hdr 2 (encSegs false (transSegs segs)) =
        encAttr (paramsOf p) (mk (paramsOf p) false true (.asPath (transSegs segs))) :=
      hdr2 (paramsOf p) _ (.asPath (transSegs segs)) (by simp [encVal, paramsOf, h4']) rfl
    have hpl : SegLens (plainSegs segs) := fun s hs => h s (List.mem_filter.mp hs).1
    by_cases hb : hasBig (plainSegs segs) = true
    · simp only [hb, if_true, encAttrs_pair]
      rw [packSegs_eq true (plainSegs segs) hpl, e1]
      congr 1
      exact hdr17 (paramsOf p) _ (.as4Path (plainSegs segs)) (by simp [encVal]) rfl
        (encSegs_ne_nil true (plainSegs segs) (hasBig_ne_nil (plainSegs segs) hb))
    · have hb' : hasBig (plainSegs segs) = false := by simpa using hb
      simp only [hb', Bool.false_eq_true, if_false, encAttrs_single, List.append_nil]
      exact e1

theorem packAggregator_eq (p : SessParams) (asn ip : Nat) :
    packAggregator p asn ip = encAttrs (paramsOf p) (semAggregator p asn ip) := by
  unfold packAggregator semAggregator
  by_cases h4 : p.asn4 = true
  · simp only [h4, if_true, encAttrs_single]
    exact hdr7 (paramsOf p) _ (.aggregator asn ip) (by simp [encVal, paramsOf, h4, encAsn]) rfl (be32_ne_nil _ _)
  · have h4' : p.asn4 = false := by simpa using h4
    simp only [h4', Bool.false_eq_true, if_false]
    by_cases hb : isBig asn = true
    · simp only [hb, Bool.not_true, Bool.false_eq_true, if_false, encAttrs_pair]
      rw [hdr7 (paramsOf p) _ (.aggregator exaAsTrans ip) (by simp [encVal, paramsOf, h4', encAsn]) rfl (be16_ne_nil _ _),
        hdr18 (paramsOf p) _ (.as4Aggregator asn ip) (by simp [encVal]) rfl (be32_ne_nil _ _)]
    · have hb' : isBig asn = false := by simpa using hb
      simp only [hb', Bool.not_false, if_true, encAttrs_single]
      exact hdr7 (paramsOf p) _ (.aggregator asn ip) (by simp [encVal, paramsOf, h4', encAsn]) rfl (be16_ne_nil _ _)

def AttrSegLens : ReqAttr → Prop
  | .asPath segs => SegLens segs
  | _ => True

theorem packGiven_eq (p : SessParams) (a : ReqAttr) (h : AttrSegLens a) :
    packGiven p a = encAttrs (paramsOf p) (semGiven p a) := by
  cases a with
  | origin v => exact (hdr1 (paramsOf p) _ (.origin v) rfl rfl).trans (encAttrs_single _ _).symm
  | asPath segs => exact packAsPath_eq p segs h
  | med v =>
    exact (hdr4 (paramsOf p) _ (.med v) rfl rfl (by simp [encVal, be32])).trans (encAttrs_single _ _).symm
  | localPref v => exact (hdr5 (paramsOf p) _ (.localPref v) rfl rfl).trans (encAttrs_single _ _).symm
  | atomicAggregate => exact (hdr6 (paramsOf p) _ .atomicAggregate rfl rfl).trans (encAttrs_single _ _).symm
  | aggregator asn ip => exact packAggregator_eq p asn ip
  | communities cs =>
    simp only [packGiven, semGiven, packU32s_eq]
    by_cases hn : cs = []
    · subst hn; simp only [if_true]; exact hdr_opt_nil.1
    · simp only [hn, if_false, encAttrs_single]
      exact hdr8 (paramsOf p) _ (.communities cs) rfl rfl (encAsns_true_ne_nil cs hn)
  | originatorId ip =>
    exact (hdr9 (paramsOf p) _ (.originatorId ip) rfl rfl (by simp [encVal, be32])).trans (encAttrs_single _ _).symm
  | clusterList ids =>
    simp only [packGiven, semGiven, packU32s_eq]
    by_cases hn : ids = []
    · subst hn; simp only [if_true]; exact hdr_opt_nil.2.1
    · simp only [hn, if_false, encAttrs_single]
      exact hdr10 (paramsOf p) _ (.clusterList ids) rfl rfl (encAsns_true_ne_nil ids hn)
  | extCommunities cs =>
    simp only [packGiven, semGiven, packU32s_eq]
    by_cases hn : cs = []
    · subst hn; simp only [if_true]; exact hdr_opt_nil.2.2.1
    · simp only [hn, if_false, encAttrs_single]
      exact hdr16 (paramsOf p) _ (.extCommunities cs) rfl rfl (encAsns_true_ne_nil _ (flat2_ne_nil cs hn))
  | largeCommunities cs =>
    simp only [packGiven, semGiven, packU32s_eq]
    by_cases hn : cs = []
    · subst hn; simp only [if_true]; exact hdr_opt_nil.2.2.2
    · simp only [hn, if_false, encAttrs_single]
      exact hdr32 (paramsOf p) _ (.largeCommunities cs) rfl rfl (encAsns_true_ne_nil _ (flat3_ne_nil cs hn))

theorem segLens_of_wf (a : ReqAttr) (h : WFReqAttr a) : AttrSegLens a := by
  cases a <;> simp only [AttrSegLens]
  case asPath segs => intro s hs; exact ⟨(h s hs).2.1, (h s hs).2.2.1⟩

theorem defaultPath_lens (p : SessParams) : SegLens (defaultPath p) := by
  unfold defaultPath
  split
  · intro s hs; cases hs
  · intro s hs; simp at hs; subst hs; simp

/-- **One round of the packing loop** = the reference encoding of the slot's semantic attributes. -/
theorem packCode_eq (p : SessParams) (r : RouteReq) (nh : Bytes) (c : Nat)
    (hw : ∀ a ∈ r.attrs, WFReqAttr a) (hnh : nh.length = 4 → WFBytes nh) :
    packCode p r nh c = encAttrs (paramsOf p) (semCode p r nh c) := by
  unfold packCode semCode
  by_cases h3 : c = 3
  · simp only [h3, if_true]
    by_cases hl : nh.length = 4
    · simp only [hl, if_true, encAttrs_single]
      exact hdr3 (paramsOf p) nh (.nextHop (rd32 nh)) (by simp [encVal, be32_rd32 nh hl (hnh hl)]) rfl
    · simp only [hl, if_false]; rfl
  · simp only [h3, if_false]
    cases hg : given r.attrs c with
    | none =>
      simp only
      by_cases h1 : c = 1
      · simp only [h1, if_true, encAttrs_single]
        exact hdr1 (paramsOf p) _ (.origin 0) rfl rfl
      · simp only [h1, if_false]
        by_cases h2 : c = 2
        · simp only [h2, if_true]
          exact packAsPath_eq p _ (defaultPath_lens p)
        · simp only [h2, if_false]
          by_cases h5 : c = 5
          · simp only [h5, if_true]
            by_cases hs : sameAs p = true
            · simp only [hs, if_true, encAttrs_single]
              exact hdr5 (paramsOf p) _ (.localPref 100) rfl rfl
            · simp only [hs, if_false]; rfl
          · simp only [h5, if_false]; rfl
    | some a =>
      simp only
      split
      · rfl
      · exact packGiven_eq p a (segLens_of_wf a (wf_given r.attrs hw c a hg))

theorem attrBytes_eq (p : SessParams) (r : RouteReq) (nh : Bytes)
    (hw : ∀ a ∈ r.attrs, WFReqAttr a) (hnh : nh.length = 4 → WFBytes nh) :
    attrBytes p r nh = encAttrs (paramsOf p) (semAll p r nh) := by
  unfold attrBytes semAll codeOrder
  simp only [List.flatMap_cons, List.flatMap_nil, encAttrs_append, packCode_eq p r nh _ hw hnh, encAttrs]

end Exa.WireExa
