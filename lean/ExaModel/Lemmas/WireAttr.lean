import ExaModel.Model.WireAttr
import ExaModel.Lemmas.WireNlri
set_option linter.unusedSimpArgs false
/-! Round trip of the attribute codecs of M-Wire: flags octet, length field (both widths), every
    value codec, one TLV, the TLV walk. -/
namespace Exa.Wire
open Exa

/-! ### small facts -/

theorem drop4_be32 (n : Nat) (rest : Bytes) : (be32 n ++ rest).drop 4 = rest := by simp [be32]
theorem drop2_be16 (n : Nat) (rest : Bytes) : (be16 n ++ rest).drop 2 = rest := by simp [be16]

theorem flags_ofByte_byte (f : Flags) : Flags.ofByte f.byte = f := by
  obtain ⟨o, t, p, e⟩ := f
  cases o <;> cases t <;> cases p <;> cases e <;> rfl

theorem flags_byte_lt (f : Flags) : f.byte < 256 := by
  obtain ⟨o, t, p, e⟩ := f
  cases o <;> cases t <;> cases p <;> cases e <;> decide

theorem unflat2_flat2 (l : List (Nat × Nat)) : unflat2 (flat2 l) = l := by
  induction l with
  | nil => rfl
  | cons x t ih => obtain ⟨a, b⟩ := x; simp [flat2, unflat2, ih]

theorem unflat3_flat3 (l : List (Nat × Nat × Nat)) : unflat3 (flat3 l) = l := by
  induction l with
  | nil => rfl
  | cons x t ih => obtain ⟨a, b, c⟩ := x; simp [flat3, unflat3, ih]

theorem flat2_length (l : List (Nat × Nat)) : (flat2 l).length = 2 * l.length := by
  induction l with
  | nil => rfl
  | cons x t ih => obtain ⟨a, b⟩ := x; simp [flat2, ih]; omega

theorem flat3_length (l : List (Nat × Nat × Nat)) : (flat3 l).length = 3 * l.length := by
  induction l with
  | nil => rfl
  | cons x t ih => obtain ⟨a, b, c⟩ := x; simp [flat3, ih]; omega

/-! ### AS numbers / 32-bit lists -/

theorem encAsns_length (w4 : Bool) (l : List Nat) :
    (encAsns w4 l).length = (if w4 then 4 else 2) * l.length := by
  induction l with
  | nil => simp [encAsns]
  | cons a t ih =>
    cases w4 <;> simp [encAsns, encAsn, ih] <;> omega

theorem decAsns_succ_true (n : Nat) (bs : Bytes) : decAsns true (n + 1) bs =
    if bs.length < 4 then none
    else match decAsns true n (bs.drop 4) with
      | some (l, r) => some (rd32 bs :: l, r)
      | none => none := rfl

theorem decAsns_succ_false (n : Nat) (bs : Bytes) : decAsns false (n + 1) bs =
    if bs.length < 2 then none
    else match decAsns false n (bs.drop 2) with
      | some (l, r) => some (rd16 bs :: l, r)
      | none => none := rfl

theorem decAsns_encAsns (w4 : Bool) (l : List Nat) (h : ∀ a ∈ l, a < (if w4 then 4294967296 else 65536))
    (rest : Bytes) : decAsns w4 l.length (encAsns w4 l ++ rest) = some (l, rest) := by
  induction l with
  | nil => rfl
  | cons a t ih =>
    have ha := h a (by simp)
    have iht := ih (fun x hx => h x (List.mem_cons_of_mem _ hx))
    cases w4 with
    | true =>
      have e : encAsns true (a :: t) ++ rest = be32 a ++ (encAsns true t ++ rest) := by
        simp [encAsns, encAsn]
      rw [e, List.length_cons, decAsns_succ_true]
      have c : ¬ (be32 a ++ (encAsns true t ++ rest)).length < 4 := by simp
      rw [if_neg c, drop4_be32, iht, rd32_be32 a (by simpa using ha)]
    | false =>
      have e : encAsns false (a :: t) ++ rest = be16 a ++ (encAsns false t ++ rest) := by
        simp [encAsns, encAsn]
      rw [e, List.length_cons, decAsns_succ_false]
      have c : ¬ (be16 a ++ (encAsns false t ++ rest)).length < 2 := by simp
      rw [if_neg c, drop2_be16, iht, rd16_be16 a (by simpa using ha)]

theorem decU32s_enc (l : List Nat) (h : U32s l) : decU32s (encAsns true l) = l := by
  unfold decU32s
  have hl : (encAsns true l).length / 4 = l.length := by
    rw [encAsns_length]; simp
  have := decAsns_encAsns true l (by simpa [U32s] using h) []
  rw [List.append_nil] at this
  rw [hl, this]

/-! ### path segments -/

theorem decSegs_succ (w4 : Bool) (f t c : Nat) (r : Bytes) : decSegs w4 (f + 1) (t :: c :: r) =
    if t = 0 ∨ t > 4 ∨ c = 0 then none
    else match decAsns w4 c r with
      | none => none
      | some (as, rest) =>
        match decSegs w4 f rest with
        | none => none
        | some ss => some ((t, as) :: ss) := rfl

theorem encSegs_cons (w4 : Bool) (s : Seg) (t : List Seg) :
    encSegs w4 (s :: t) = s.1 :: s.2.length :: (encAsns w4 s.2 ++ encSegs w4 t) := rfl

theorem decSegs_encSegs (w4 : Bool) (segs : List Seg) (h : ∀ s ∈ segs, WFSeg w4 s) (fuel : Nat)
    (hf : (encSegs w4 segs).length ≤ fuel) : decSegs w4 fuel (encSegs w4 segs) = some segs := by
  induction segs generalizing fuel with
  | nil => cases fuel <;> rfl
  | cons s t ih =>
    obtain ⟨h1, h2, h3, h4, h5⟩ := h s (by simp)
    rw [encSegs_cons] at hf ⊢
    cases fuel with
    | zero => simp at hf
    | succ f =>
      rw [decSegs_succ]
      have c : ¬ (s.1 = 0 ∨ s.1 > 4 ∨ s.2.length = 0) := by omega
      rw [if_neg c, decAsns_encAsns w4 s.2 h5]
      simp only
      rw [ih (fun x hx => h x (List.mem_cons_of_mem _ hx)) f (by simp at hf; omega)]

/-! ### length field -/

theorem decLen_encLen (ext : Bool) (n : Nat) (h : n < (if ext then 65536 else 256)) (rest : Bytes) :
    decLen ext (encLen ext n ++ rest) = some (n, rest) := by
  cases ext with
  | true =>
    show (if (be16 n ++ rest).length < 2 then none else some (rd16 (be16 n ++ rest), (be16 n ++ rest).drop 2)) = _
    have c : ¬ (be16 n ++ rest).length < 2 := by simp
    rw [if_neg c, rd16_be16 n (by simpa using h), drop2_be16]
  | false => rfl

/-! ### MP attributes -/

theorem rd16_be16_cons (n : Nat) (h : n < 65536) (rest : Bytes) : rd16 (be16 n ++ rest) = n :=
  rd16_be16 n h rest

theorem supported_bounds (afi safi : Nat) (h : supported afi safi = true) : afi < 65536 ∧ safi < 256 := by
  unfold supported at h
  simp at h
  omega

theorem decMpReach_enc (p : Params) (afi safi : Nat) (nh : Bytes) (ns : List Nlri)
    (hs : supported afi safi = true) (hnh : nh.length < 256)
    (hn : ∀ n ∈ ns, WFNlri afi safi (p.ap afi safi) false n) :
    decMpReach p (be16 afi ++ (safi :: nh.length :: (nh ++ 0 :: encNlris safi false ns))) =
      .ok (.mpReach afi safi nh ns) := by
  obtain ⟨ha, _⟩ := supported_bounds afi safi hs
  unfold decMpReach
  have e3 : (be16 afi ++ (safi :: nh.length :: (nh ++ 0 :: encNlris safi false ns))).getD 3 0 = nh.length := by
    simp [be16]
  have e2 : (be16 afi ++ (safi :: nh.length :: (nh ++ 0 :: encNlris safi false ns))).getD 2 0 = safi := by
    simp [be16]
  have el : (be16 afi ++ (safi :: nh.length :: (nh ++ 0 :: encNlris safi false ns))).length =
      5 + nh.length + (encNlris safi false ns).length := by
    simp; omega
  rw [e3, e2, el, rd16_be16 afi ha]
  have c1 : ¬ 5 + nh.length + (encNlris safi false ns).length < 5 := by omega
  have c2 : ¬ 5 + nh.length + (encNlris safi false ns).length < 5 + nh.length := by omega
  rw [if_neg c1, if_neg c2]
  simp only [hs, if_true]
  have d4 : (be16 afi ++ (safi :: nh.length :: (nh ++ 0 :: encNlris safi false ns))).drop 4 =
      nh ++ 0 :: encNlris safi false ns := by simp [be16]
  have d5 : (be16 afi ++ (safi :: nh.length :: (nh ++ 0 :: encNlris safi false ns))).drop (5 + nh.length) =
      encNlris safi false ns := by
    have : 5 + nh.length = 4 + (nh.length + 1) := by omega
    rw [this, ← List.drop_drop, d4]
    have : nh ++ 0 :: encNlris safi false ns = (nh ++ [0]) ++ encNlris safi false ns := by simp
    rw [this]
    exact List.drop_left' (by simp)
  rw [d4, d5, List.take_left', decNlris_encNlris afi safi (p.ap afi safi) false ns hn _ (Nat.le_refl _)]
  rfl

theorem decMpUnreach_enc (p : Params) (afi safi : Nat) (ns : List Nlri)
    (hs : supported afi safi = true)
    (hn : ∀ n ∈ ns, WFNlri afi safi (p.ap afi safi) true n) :
    decMpUnreach p (be16 afi ++ (safi :: encNlris safi true ns)) = .ok (.mpUnreach afi safi ns) := by
  obtain ⟨ha, _⟩ := supported_bounds afi safi hs
  unfold decMpUnreach
  have e2 : (be16 afi ++ (safi :: encNlris safi true ns)).getD 2 0 = safi := by simp [be16]
  have el : ¬ (be16 afi ++ (safi :: encNlris safi true ns)).length < 3 := by simp; omega
  have d3 : (be16 afi ++ (safi :: encNlris safi true ns)).drop 3 = encNlris safi true ns := by simp [be16]
  rw [if_neg el, e2, rd16_be16 afi ha, d3]
  simp only [hs, if_true]
  rw [decNlris_encNlris afi safi (p.ap afi safi) true ns hn _ (Nat.le_refl _)]

theorem decMpReach_raw (p : Params) (afi safi : Nat) (nh raw : Bytes)
    (hs : supported afi safi = false) (ha : afi < 65536) (hnh : nh.length < 256) :
    decMpReach p (be16 afi ++ (safi :: nh.length :: (nh ++ 0 :: raw))) = .ok (.mpReachRaw afi safi nh raw) := by
  unfold decMpReach
  have e3 : (be16 afi ++ (safi :: nh.length :: (nh ++ 0 :: raw))).getD 3 0 = nh.length := by simp [be16]
  have e2 : (be16 afi ++ (safi :: nh.length :: (nh ++ 0 :: raw))).getD 2 0 = safi := by simp [be16]
  have el : (be16 afi ++ (safi :: nh.length :: (nh ++ 0 :: raw))).length = 5 + nh.length + raw.length := by
    simp; omega
  rw [e3, e2, el, rd16_be16 afi ha]
  have c1 : ¬ 5 + nh.length + raw.length < 5 := by omega
  have c2 : ¬ 5 + nh.length + raw.length < 5 + nh.length := by omega
  rw [if_neg c1, if_neg c2]
  simp only [hs, Bool.false_eq_true, if_false]
  have d4 : (be16 afi ++ (safi :: nh.length :: (nh ++ 0 :: raw))).drop 4 = nh ++ 0 :: raw := by simp [be16]
  have d5 : (be16 afi ++ (safi :: nh.length :: (nh ++ 0 :: raw))).drop (5 + nh.length) = raw := by
    have : 5 + nh.length = 4 + (nh.length + 1) := by omega
    rw [this, ← List.drop_drop, d4]
    have : nh ++ 0 :: raw = (nh ++ [0]) ++ raw := by simp
    rw [this]
    exact List.drop_left' (by simp)
  rw [d4, d5, List.take_left']
  rfl

theorem decMpUnreach_raw (p : Params) (afi safi : Nat) (raw : Bytes)
    (hs : supported afi safi = false) (ha : afi < 65536) :
    decMpUnreach p (be16 afi ++ (safi :: raw)) = .ok (.mpUnreachRaw afi safi raw) := by
  unfold decMpUnreach
  have e2 : (be16 afi ++ (safi :: raw)).getD 2 0 = safi := by simp [be16]
  have el : ¬ (be16 afi ++ (safi :: raw)).length < 3 := by simp; omega
  have d3 : (be16 afi ++ (safi :: raw)).drop 3 = raw := by simp [be16]
  rw [if_neg el, e2, rd16_be16 afi ha, d3]
  simp only [hs, Bool.false_eq_true, if_false]

end Exa.Wire
