import ExaModel.Lemmas.WireExaMeets
set_option linter.unusedSimpArgs false
/-!
  M-Wire-Exa, part 8 of the lemmas: the two shapes of UPDATE `encodeExa` produces (route in the NLRI
  field / route in MP_REACH_NLRI) decode under M-Wire to a message that `Meets` the request.
-/
namespace Exa.WireExa
open Exa Exa.Wire
open Exa.Generated.ExaEncTable

/-! ### the next hop -/

/-- Only IPv4 unicast with an IPv4 next hop goes into the NLRI field (generated table: the SAFI list
    of `messages()`; this lemma no longer checks if a SAFI is added there). -/
theorem classic_unicast (r : RouteReq) (nh : Bytes) (h : classic r nh = true) :
    r.afi = 1 ∧ r.safi = 1 ∧ nh.length = 4 := by
  simp only [classic, classicSafisAnnounce, Bool.and_eq_true, beq_iff_eq, List.contains_cons,
    List.contains_nil, Bool.or_false] at h
  exact ⟨h.1.1, h.1.2, h.2⟩

theorem nh_facts (p : SessParams) (r : RouteReq) (nh : Bytes) (hs : WFSess p) (hw : WFReq p r)
    (h : resolveNh p r = some nh) : (nh.length = 4 ∨ nh.length = 16) ∧ WFBytes nh := by
  obtain ⟨_, _, _, hnh, _⟩ := hw
  obtain ⟨_, _, _, _, _, _, hla, hlaw, hrid, hridw, _⟩ := hs
  unfold resolveNh at h
  cases hn : r.nexthop with
  | v4 a =>
    rw [hn] at h hnh
    simp only [Option.some.injEq] at h; subst h
    exact ⟨Or.inl hnh.1, hnh.2⟩
  | v6 a =>
    rw [hn] at h hnh
    simp only [Option.some.injEq] at h; subst h
    exact ⟨Or.inr hnh.1, hnh.2⟩
  | self =>
    rw [hn] at h
    simp only [ipSelf] at h
    split at h
    · simp only [Option.some.injEq] at h; subst h; exact ⟨hla, hlaw⟩
    · split at h
      · simp only [Option.some.injEq] at h; subst h; exact ⟨Or.inl hrid, hridw⟩
      · cases h

theorem wantNh_eq (p : SessParams) (r : RouteReq) (nh : Bytes) (hw : WFReq p r) (hself : SelfOk p r)
    (h : resolveNh p r = some nh) : wantNh p r = nh := by
  obtain ⟨ha, _⟩ := hw
  unfold resolveNh at h
  unfold wantNh
  cases hn : r.nexthop with
  | v4 a => rw [hn] at h; simpa using h
  | v6 a => rw [hn] at h; simpa using h
  | self =>
    rw [hn] at h
    have hso := hself hn
    simp only [ipSelf] at h
    rcases ha with ha | ha
    · have := hso.1 ha
      simp [ha, this] at h
      exact h
    · have := hso.2 ha
      simp [ha, this] at h
      exact h

/-! ### what is (not) in the block -/

theorem mem_semAll (p : SessParams) (r : RouteReq) (nh : Bytes) (k : Nat) (a : Attr) (hk : k ∈ codeOrder)
    (ha : a ∈ semCode p r nh k) : a ∈ semAll p r nh := by
  simp only [semAll, List.mem_flatMap]
  exact ⟨k, hk, ha⟩

theorem sem_has1 (p : SessParams) (r : RouteReq) (nh : Bytes) : 1 ∈ (semAll p r nh).map Attr.code := by
  refine List.mem_map.2 ⟨_, mem_semAll p r nh 1 _ (by decide) (by rw [slot1]; exact List.mem_singleton.2 rfl), rfl⟩

theorem semAsPath_head (p : SessParams) (s : List Seg) : ∃ a t, semAsPath p s = a :: t ∧ a.code = 2 := by
  unfold semAsPath
  split
  · exact ⟨_, _, rfl, rfl⟩
  · exact ⟨_, _, rfl, rfl⟩

theorem sem_has2 (p : SessParams) (r : RouteReq) (nh : Bytes) : 2 ∈ (semAll p r nh).map Attr.code := by
  obtain ⟨a, t, e, hc⟩ := semAsPath_head p (modelPath p r)
  refine List.mem_map.2 ⟨a, mem_semAll p r nh 2 a (by decide) (by rw [slot2, e]; simp), hc⟩

theorem sem_has3 (p : SessParams) (r : RouteReq) (nh : Bytes) (h : nh.length = 4) :
    3 ∈ (semAll p r nh).map Attr.code := by
  refine List.mem_map.2 ⟨_, mem_semAll p r nh 3 _ (by decide) (by rw [slot3, if_pos h]; exact List.mem_singleton.2 rfl), rfl⟩

/-- The block starts with ORIGIN and AS_PATH: at least two attributes. -/
theorem semAll_two (p : SessParams) (r : RouteReq) (nh : Bytes) : ∃ a b t, semAll p r nh = a :: b :: t := by
  obtain ⟨b, t, e, _⟩ := semAsPath_head p (modelPath p r)
  unfold semAll codeOrder
  simp only [List.flatMap_cons, slot1, slot2, e, List.cons_append, List.nil_append]
  exact ⟨_, _, _, rfl⟩

theorem sem_code_mem (p : SessParams) (r : RouteReq) (nh : Bytes) (a : Attr) (h : a ∈ semAll p r nh) :
    a.code ∈ allCodes :=
  (codes_semAll p r nh).subset (List.mem_map_of_mem h)

theorem mpErr_false_of_code (P : Params) (a : Attr) (h : a.code ≠ 14) : mpErr P a = false := by
  unfold mpErr; unfold Attr.code at h
  cases hv : a.val <;> simp_all [AttrVal.code]

theorem mpAnnounces_nil (l : List Attr) (h : ∀ a ∈ l, a.code ≠ 14) : mpAnnounces l = [] := by
  induction l with
  | nil => rfl
  | cons a t ih =>
    have ha := h a (by simp)
    unfold Attr.code at ha
    simp only [mpAnnounces, ih (fun x hx => h x (List.mem_cons_of_mem _ hx)), List.append_nil]
    cases hv : a.val <;> simp_all [AttrVal.code]

theorem mpWithdraws_nil (l : List Attr) (h : ∀ a ∈ l, a.code ≠ 15) : mpWithdraws l = [] := by
  induction l with
  | nil => rfl
  | cons a t ih =>
    have ha := h a (by simp)
    unfold Attr.code at ha
    simp only [mpWithdraws, ih (fun x hx => h x (List.mem_cons_of_mem _ hx)), List.append_nil]
    cases hv : a.val <;> simp_all [AttrVal.code]

theorem mpAnnounces_append (a b : List Attr) : mpAnnounces (a ++ b) = mpAnnounces a ++ mpAnnounces b := by
  induction a with
  | nil => rfl
  | cons x t ih => simp [mpAnnounces, ih]

theorem sem_no14 (p : SessParams) (r : RouteReq) (nh : Bytes) : ∀ a ∈ semAll p r nh, a.code ≠ 14 := by
  intro a ha h
  have := sem_code_mem p r nh a ha
  rw [h] at this
  exact absurd this (by decide)

theorem sem_no15 (p : SessParams) (r : RouteReq) (nh : Bytes) : ∀ a ∈ semAll p r nh, a.code ≠ 15 := by
  intro a ha h
  have := sem_code_mem p r nh a ha
  rw [h] at this
  exact absurd this (by decide)

theorem allCodes14_nodup : (allCodes ++ [14]).Nodup := by decide
theorem allCodes_nodup : allCodes.Nodup := by decide

/-! ### route in the NLRI field -/

/-- The attribute and NEXT_HOP clauses of `Meets`, for the block followed by `tail`. -/
theorem meets_attrs (p : SessParams) (r : RouteReq) (nh : Bytes) (tail : List Attr) (N : List Nlri)
    (ht : IsTail tail) (hs : WFSess p) (hw : ∀ a ∈ r.attrs, WFReqAttr a) (hwn : wantNh p r = nh) :
    (∀ c, c ≠ 3 → SameOpt (reportAttr (paramsOf p) ⟨[], semAll p r nh ++ tail, N⟩ c) (want p r c)) ∧
    (reportAttr (paramsOf p) ⟨[], semAll p r nh ++ tail, N⟩ 3 = none ∨
      ((wantNh p r).length = 4 ∧
        reportAttr (paramsOf p) ⟨[], semAll p r nh ++ tail, N⟩ 3 = some (.nextHop (rd32 (wantNh p r))))) := by
  constructor
  · intro c hc
    rw [reportAttr_eq]
    exact attrs_meet p r nh tail ht hs hw c hc
  · rw [reportAttr_eq, hwn]
    simp only
    rw [rep3 p r nh tail ht]
    by_cases h4 : nh.length = 4
    · right; simp [h4]
    · left; simp [h4]

theorem roundtrip_classic (p : SessParams) (r : RouteReq) (nh : Bytes) (hs : WFSess p) (hw : WFReq p r)
    (hnh : resolveNh p r = some nh) (hself : SelfOk p r) (hc : classic r nh = true)
    (hA : (attrBytes p r nh).length < 65536)
    (hsz : (be16 0 ++ ([] ++ (be16 (attrBytes p r nh).length ++ (attrBytes p r nh ++ packNlri p r)))).length + 19
      ≤ p.msgSize) :
    decodeUpdate (paramsOf p)
        (be16 0 ++ ([] ++ (be16 (attrBytes p r nh).length ++ (attrBytes p r nh ++ packNlri p r)))) =
        .ok ⟨[], semAll p r nh, [wantNlri p r]⟩ ∧
      Meets p r ⟨[], semAll p r nh, [wantNlri p r]⟩ := by
  obtain ⟨hafi, hsafi, hlen4⟩ := classic_unicast r nh hc
  obtain ⟨hnl, hnw⟩ := nh_facts p r nh hs hw hnh
  have hwn := wantNh_eq p r nh hw hself hnh
  obtain ⟨ha, hsf, hnlri, _, hattrs⟩ := hw
  have hAeq := attrBytes_eq p r nh hattrs (fun _ => hnw)
  have hpre := prewf_semAll p r nh hs.1 hattrs (fun _ => hnw)
  have hwf : ∀ a ∈ semAll p r nh, WFAttr (paramsOf p) a :=
    wfattrs_of_prewf (paramsOf p) _ hpre (by rw [← hAeq]; exact hA)
  have hap : (paramsOf p).ap 1 1 = apSends p r := by simp [Params.ap, paramsOf, apSends, hafi, hsafi]
  have hN : packNlri p r = encNlris 1 false [wantNlri p r] := by
    rw [packNlri_eq p r hnlri, hsafi, encNlris_single]
  refine ⟨?_, ?_⟩
  · unfold decodeUpdate
    have hmsz : (paramsOf p).msgSize = p.msgSize := rfl
    rw [if_neg (by omega)]
    have hframe := decodeRaw_frame (paramsOf p) [] (attrBytes p r nh) (packNlri p r) (by simp) hA
    simp only [List.length_nil] at hframe
    rw [hframe]
    have e1 : decNlris 1 1 ((paramsOf p).ap 1 1) true 0 [] = .ok [] := by simp [decNlris]
    rw [e1]
    simp only
    rw [hAeq, decAttrs_encAttrs (paramsOf p) _ hwf _ (Nat.le_refl _)]
    simp only
    rw [hN, decNlris_encNlris 1 1 ((paramsOf p).ap 1 1) false [wantNlri p r]
      (by intro n hn; simp only [List.mem_singleton] at hn; subst hn; rw [hap]; rw [hafi, hsafi] at hnlri; exact hnlri)
      _ (Nat.le_refl _)]
    simp only
    -- the semantic checks
    have hdup : dupCode (semAll p r nh) = false :=
      dupCode_false _ ((codes_semAll p r nh).nodup allCodes_nodup)
    have hmp : (semAll p r nh).any (mpErr (paramsOf p)) = false := by
      rw [List.any_eq_false]
      intro a ha'
      simp [mpErr_false_of_code (paramsOf p) a (sem_no14 p r nh a ha')]
    have h1 := hasCode_true _ 1 (sem_has1 p r nh)
    have h2 := hasCode_true _ 2 (sem_has2 p r nh)
    have h3 := hasCode_true _ 3 (sem_has3 p r nh hlen4)
    have h14 : hasCode (semAll p r nh) 14 = false :=
      hasCode_false _ 14 (by
        intro hm
        obtain ⟨a, ha', e⟩ := List.mem_map.1 hm
        exact sem_no14 p r nh a ha' e)
    simp [semErr, hdup, hmp, h1, h2, h3, h14]
  · have hm := meets_attrs p r nh [] [wantNlri p r] isTail_nil hs hattrs hwn
    simp only [List.append_nil] at hm
    refine ⟨?_, ?_, ?_, hm.1, hm.2⟩
    · simp only [report, List.map_cons, List.map_nil, mpAnnounces_nil _ (sem_no14 p r nh), List.append_nil]
      have hfn := ctx_nh p r nh [] isTail_nil
      simp only [List.append_nil] at hfn
      rw [hfn, if_pos hlen4]
      simp only
      rw [be32_rd32 nh hlen4 hnw, hwn, hafi, hsafi]
    · simp only [report, List.map_nil, mpWithdraws_nil _ (sem_no15 p r nh), List.append_nil]
    · simp [report, eorFamily]

/-! ### route in MP_REACH_NLRI -/

theorem roundtrip_mp (p : SessParams) (r : RouteReq) (nh : Bytes) (hs : WFSess p) (hw : WFReq p r)
    (hnh : resolveNh p r = some nh) (hself : SelfOk p r)
    (hfam : NhFamilyOk p r nh) (hll : NoVpnLinkLocal p r nh)
    (hA : (attrBytes p r nh ++ mpReach p r nh).length < 65536)
    (hsz : (be16 0 ++ ([] ++ (be16 (attrBytes p r nh ++ mpReach p r nh).length ++
      ((attrBytes p r nh ++ mpReach p r nh) ++ [])))).length + 19 ≤ p.msgSize) :
    decodeUpdate (paramsOf p)
        (be16 0 ++ ([] ++ (be16 (attrBytes p r nh ++ mpReach p r nh).length ++
          ((attrBytes p r nh ++ mpReach p r nh) ++ [])))) = .ok ⟨[], semAll p r nh ++ [mpAttr p r nh], []⟩ ∧
      Meets p r ⟨[], semAll p r nh ++ [mpAttr p r nh], []⟩ := by
  obtain ⟨hnl, hnw⟩ := nh_facts p r nh hs hw hnh
  have hwn := wantNh_eq p r nh hw hself hnh
  have hmpre := prewf_mpAttr p r nh hs hw hnl
  obtain ⟨ha, hsf, hnlri, _, hattrs⟩ := hw
  have hAeq : attrBytes p r nh ++ mpReach p r nh = encAttrs (paramsOf p) (semAll p r nh ++ [mpAttr p r nh]) := by
    rw [attrBytes_eq p r nh hattrs (fun _ => hnw), mpReach_eq p r nh hnlri, encAttrs_append, encAttrs_single]
  have hpre : ∀ a ∈ semAll p r nh ++ [mpAttr p r nh], PreWF (paramsOf p) a := by
    intro a ha'
    rcases List.mem_append.1 ha' with h | h
    · exact prewf_semAll p r nh hs.1 hattrs (fun _ => hnw) a h
    · simp only [List.mem_singleton] at h; subst h; exact hmpre
  have hwf : ∀ a ∈ semAll p r nh ++ [mpAttr p r nh], WFAttr (paramsOf p) a :=
    wfattrs_of_prewf (paramsOf p) _ hpre (by rw [← hAeq]; exact hA)
  refine ⟨?_, ?_⟩
  · unfold decodeUpdate
    have hmsz : (paramsOf p).msgSize = p.msgSize := rfl
    rw [if_neg (by omega)]
    have hframe := decodeRaw_frame (paramsOf p) [] (attrBytes p r nh ++ mpReach p r nh) [] (by simp) hA
    simp only [List.length_nil] at hframe
    rw [hframe]
    have e1 : decNlris 1 1 ((paramsOf p).ap 1 1) true 0 [] = .ok [] := by simp [decNlris]
    have e2 : decNlris 1 1 ((paramsOf p).ap 1 1) false 0 [] = .ok [] := by simp [decNlris]
    rw [e1]
    simp only
    rw [hAeq, decAttrs_encAttrs (paramsOf p) _ hwf _ (Nat.le_refl _)]
    simp only
    rw [e2]
    simp only
    have hcodes : List.Sublist ((semAll p r nh ++ [mpAttr p r nh]).map Attr.code) (allCodes ++ [14]) := by
      simp only [List.map_append, List.map_cons, List.map_nil]
      exact (codes_semAll p r nh).append (List.Sublist.refl _)
    have hdup : dupCode (semAll p r nh ++ [mpAttr p r nh]) = false :=
      dupCode_false _ (hcodes.nodup allCodes14_nodup)
    have hmp : (semAll p r nh ++ [mpAttr p r nh]).any (mpErr (paramsOf p)) = false := by
      rw [List.any_eq_false]
      intro a ha'
      rcases List.mem_append.1 ha' with h | h
      · simp [mpErr_false_of_code (paramsOf p) a (sem_no14 p r nh a h)]
      · simp only [List.mem_singleton] at h
        subst h
        simp [mpErr, mpAttr, mk, nhLenOk_mp p r nh hs ha hsf hfam hll]
    have h1 : hasCode (semAll p r nh ++ [mpAttr p r nh]) 1 = true :=
      hasCode_true _ 1 (by simp only [List.map_append]; exact List.mem_append_left _ (sem_has1 p r nh))
    have h2 : hasCode (semAll p r nh ++ [mpAttr p r nh]) 2 = true :=
      hasCode_true _ 2 (by simp only [List.map_append]; exact List.mem_append_left _ (sem_has2 p r nh))
    simp [semErr, hdup, hmp, h1, h2]
  · have hm := meets_attrs p r nh [mpAttr p r nh] [] (isTail_mp p r nh) hs hattrs hwn
    refine ⟨?_, ?_, ?_, hm.1, hm.2⟩
    · simp only [report, List.map_nil, List.nil_append, mpAnnounces_append,
        mpAnnounces_nil _ (sem_no14 p r nh)]
      simp only [mpAnnounces, mpAttr, mk, List.map_cons, List.map_nil, List.append_nil]
      rw [nhAddr_mp p r nh ha hsf hnl hfam, hwn]
    · simp only [report, List.map_nil, List.nil_append]
      apply mpWithdraws_nil
      intro a ha'
      rcases List.mem_append.1 ha' with h | h
      · exact sem_no15 p r nh a h
      · simp only [List.mem_singleton] at h; subst h; simp [mpAttr, mk, Attr.code, AttrVal.code]
    · obtain ⟨a, b, t, e⟩ := semAll_two p r nh
      simp [report, eorFamily, e]

/-! ### the whole encoder -/

/-- Everything the partial theorem asks of the next hop (each line is an open finding, see `Props/C01`). -/
def NextHopOk (p : SessParams) (r : RouteReq) : Prop :=
  ∃ nh, resolveNh p r = some nh ∧ (nhFamilyGuard = false → NhFamilyOk p r nh) ∧ NoVpnLinkLocal p r nh ∧ SelfOk p r

theorem nhFamilyOk_of_B (p : SessParams) (r : RouteReq) (nh : Bytes) (ha : r.afi = 1 ∨ r.afi = 2)
    (h : nhFamilyOkB p r nh = true) : NhFamilyOk p r nh := by
  unfold nhFamilyOkB at h
  rcases ha with ha | ha
  · simp only [ha, show ((1 : Nat) == 2) = false by decide, Bool.false_eq_true, if_false, Bool.or_eq_true,
      Bool.and_eq_true, beq_iff_eq] at h
    refine ⟨fun _ => ?_, fun h2 => by omega⟩
    rcases h with h | ⟨h1, h2⟩
    · exact Or.inl h
    · exact Or.inr ⟨h1, by rw [ha]; exact h2⟩
  · simp only [ha, show ((2 : Nat) == 2) = true by decide, if_true, beq_iff_eq] at h
    exact ⟨fun h1 => by omega, fun _ => h⟩

theorem mpReach_len (p : SessParams) (r : RouteReq) (nh : Bytes) :
    (mpReach p r nh).length = (mpPayload p r nh).length + (if (mpPayload p r nh).length > 255 then 4 else 3) := by
  unfold mpReach mpHeader
  split <;> simp <;> omega

theorem defaultPathRaises_false (p : SessParams) (r : RouteReq) : defaultPathRaises p r = false := by
  simp [defaultPathRaises, defaultPathAsn4]

/-- The decoded message of whatever `encodeExa` sends: the block, plus MP_REACH_NLRI when the route is not
    in the NLRI field. -/
def sentSem (p : SessParams) (r : RouteReq) (nh : Bytes) : UpdateSem :=
  if classic r nh then ⟨[], semAll p r nh, [wantNlri p r]⟩ else ⟨[], semAll p r nh ++ [mpAttr p r nh], []⟩

theorem roundtrip_sent (p : SessParams) (r : RouteReq) (bs : Bytes) (nh : Bytes) (hs : WFSess p) (hw : WFReq p r)
    (hnh : resolveNh p r = some nh) (hfam0 : nhFamilyGuard = false → NhFamilyOk p r nh)
    (hll : NoVpnLinkLocal p r nh) (hself : SelfOk p r)
    (hsent : encodeExa p r = .sent bs) :
    decodeUpdate (paramsOf p) bs = .ok (sentSem p r nh) ∧ Meets p r (sentSem p r nh) := by
  have hm : p.msgSize ≤ 65535 := hs.2.2.2.2.2.1
  unfold encodeExa at hsent
  rw [hnh] at hsent
  simp only [defaultPathRaises_false, Bool.false_eq_true, if_false] at hsent
  -- the next hop family: checked by the code (when the tree has the check), else assumed
  by_cases cg : (nhFamilyGuard && !(nhFamilyOkB p r nh)) = true
  · simp [cg] at hsent
  have cg' : (nhFamilyGuard && !(nhFamilyOkB p r nh)) = false := by simpa using cg
  simp only [cg', Bool.false_eq_true, if_false] at hsent
  have hfam : NhFamilyOk p r nh := by
    by_cases hg : nhFamilyGuard = true
    · rw [hg] at cg'
      simp only [Bool.true_and, Bool.not_eq_false'] at cg'
      exact nhFamilyOk_of_B p r nh hw.1 cg'
    · exact hfam0 (by simpa using hg)
  by_cases c1 : p.msgSize < 23 + (attrBytes p r nh).length
  · simp [c1] at hsent
  simp only [c1, if_false] at hsent
  by_cases c2 : p.msgSize - 23 - (attrBytes p r nh).length = 0
  · simp [c2] at hsent
  simp only [c2, if_false] at hsent
  unfold sentSem
  by_cases hc : classic r nh = true
  · simp only [hc, if_true] at hsent ⊢
    by_cases c3 : (packNlri p r).length ≤ p.msgSize - 23 - (attrBytes p r nh).length
    · simp only [c3, if_true, Out.sent.injEq] at hsent
      subst hsent
      exact roundtrip_classic p r nh hs hw hnh hself hc (by omega) (by simp; omega)
    · simp [c3] at hsent
  · have hc' : classic r nh = false := by simpa using hc
    simp only [hc', Bool.false_eq_true, if_false] at hsent ⊢
    by_cases c3 : (mpPayload p r nh).length + (if (mpPayload p r nh).length > 255 then 4 else 3) >
        p.msgSize - 23 - (attrBytes p r nh).length
    · simp [c3] at hsent
    · simp only [c3, if_false, Out.sent.injEq] at hsent
      subst hsent
      have hl := mpReach_len p r nh
      exact roundtrip_mp p r nh hs hw hnh hself hfam hll (by simp; omega) (by simp; omega)

/-! ### raw attributes (before RFC 6793) -/

def gRaw (c : Nat) (a : Attr) : Option AttrVal := if a.code == c then some a.val else none

theorem rawAttr_eq (u : UpdateSem) (c : Nat) : rawAttr u c = u.attrs.findSome? (gRaw c) := by
  unfold rawAttr
  induction u.attrs with
  | nil => rfl
  | cons a t ih =>
    simp only [List.find?_cons, List.findSome?_cons, gRaw]
    cases h : (a.code == c) <;> simp [h, ih, gRaw]

theorem gRaw_none (c : Nat) (a : Attr) (h : a.code ≠ c) : gRaw c a = none := by
  simp [gRaw, h]

theorem sentSem_attrs (p : SessParams) (r : RouteReq) (nh : Bytes) :
    ∃ tail, IsTail tail ∧ (sentSem p r nh).attrs = semAll p r nh ++ tail := by
  unfold sentSem
  split
  · exact ⟨[], isTail_nil, by simp⟩
  · exact ⟨[mpAttr p r nh], isTail_mp p r nh, rfl⟩

theorem raw_slot2 (p : SessParams) (r : RouteReq) (nh : Bytes) (c : Nat) (hc : c = 2 ∨ c = 17) :
    rawAttr (sentSem p r nh) c = (semAsPath p (modelPath p r)).findSome? (gRaw c) := by
  obtain ⟨tail, ht, e⟩ := sentSem_attrs p r nh
  rw [rawAttr_eq, e, findSome_append_tail _ _ _ (fun x hx => gRaw_none c x (by
    rw [tail_code tail ht x hx]; rcases hc with h | h <;> subst h <;> decide))]
  rw [find_semAll_slot p r nh (gRaw c) c 2 (gRaw_none c) (by decide)
    (by rcases hc with h | h <;> subst h <;> decide), slot2]

end Exa.WireExa
