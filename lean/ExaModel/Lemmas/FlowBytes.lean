import ExaModel.Model.Flow
set_option linter.unusedSimpArgs false
/-! n-byte big-endian fields: `rdN (beN n v) = v` for `v < 256^n`, lengths, well-formedness. -/
namespace Exa.Flow

/-- equality of `Except` values is decidable (so that concrete evaluations can be closed by `decide`) -/
instance instDecEqExcept {ε α : Type} [DecidableEq ε] [DecidableEq α] : DecidableEq (Except ε α)
  | .ok a, .ok b => if h : a = b then isTrue (by rw [h]) else isFalse (by intro e; cases e; exact h rfl)
  | .error a, .error b => if h : a = b then isTrue (by rw [h]) else isFalse (by intro e; cases e; exact h rfl)
  | .ok _, .error _ => isFalse (by intro e; cases e)
  | .error _, .ok _ => isFalse (by intro e; cases e)

@[simp] theorem beN_length (n v : Nat) : (beN n v).length = n := by
  induction n with
  | zero => rfl
  | succ n ih => simp [beN, ih]

theorem wf_beN (n v : Nat) : WFBytes (beN n v) := by
  induction n with
  | zero => exact wfBytes_nil
  | succ n ih =>
    simp only [beN]
    exact wfBytes_cons (Nat.mod_lt _ (by omega)) ih

theorem foldl_rd (bs : Bytes) (acc : Nat) :
    bs.foldl (fun acc b => acc * 256 + b) acc = acc * 256 ^ bs.length + rdN bs := by
  induction bs generalizing acc with
  | nil => simp [rdN]
  | cons b t ih =>
    simp only [List.foldl_cons, rdN, List.length_cons]
    rw [ih, ih (0 * 256 + b)]
    simp only [rdN, Nat.pow_succ]
    rw [Nat.add_mul, Nat.mul_assoc, Nat.mul_comm 256]
    simp [Nat.add_assoc]

theorem rdN_cons (b : Nat) (t : Bytes) : rdN (b :: t) = b * 256 ^ t.length + rdN t := by
  simp only [rdN, List.foldl_cons]
  rw [foldl_rd]; simp [rdN]

theorem rdN_beN (n v : Nat) : rdN (beN n v) = v % 256 ^ n := by
  induction n with
  | zero => simp [beN, rdN, Nat.mod_one]
  | succ n ih =>
    simp only [beN]
    rw [rdN_cons, ih, beN_length, Nat.mod_pow_succ]
    rw [Nat.mul_comm, Nat.add_comm]

theorem rdN_beN_lt {n v : Nat} (h : v < 256 ^ n) : rdN (beN n v) = v := by
  rw [rdN_beN, Nat.mod_eq_of_lt h]

theorem rdN_lt (bs : Bytes) (h : WFBytes bs) : rdN bs < 256 ^ bs.length := by
  induction bs with
  | nil => simp [rdN]
  | cons b t ih =>
    rw [rdN_cons]
    have hb : b < 256 := h b List.mem_cons_self
    have ht := ih (fun x hx => h x (List.mem_cons_of_mem _ hx))
    simp only [List.length_cons, Nat.pow_succ]
    have : b * 256 ^ t.length ≤ 255 * 256 ^ t.length := Nat.mul_le_mul_right _ (by omega)
    omega

end Exa.Flow
