import ExaModel.Lemmas.NegoSpec
set_option linter.unusedSimpArgs false
set_option linter.unusedVariables false
/-! `Negotiated.validate` against the RFC refusal list. -/
namespace Exa.Open

/-- the multisession (draft) verdict, the last thing `validate` looks at -/
def msVerdict (n : Negotiated) : Option Err :=
  match n.multisession with
  | .err c s => some ⟨c, s⟩
  | _ => none

theorem validateOpen_eq (cfg : Cfg) (n : Negotiated) (t : OpenMsg) :
    validateOpen cfg n t =
      if cfg.peerAs ≠ 0 ∧ n.peerAs ≠ cfg.peerAs then some ⟨2, 2⟩
      else if t.bgpId = 0 then some ⟨2, 3⟩
      else if n.peerAs = cfg.localAs ∧ t.bgpId = cfg.routerId then some ⟨2, 3⟩
      else if t.hold ≠ 0 ∧ t.hold < 3 then some ⟨2, 6⟩
      else msVerdict n := by
  unfold validateOpen msVerdict holdMin
  rfl

theorem validate_eq_rfc (cfg : Cfg) (t : OpenMsg) (hc : consistentAs t) :
    validateOpen cfg (negotiate (ourOpen cfg) t) t =
      match (rfcRefusals cfg.localAs cfg.peerAs cfg.routerId (ourOpen cfg) t).head? with
      | some e => some e
      | none => msVerdict (negotiate (ourOpen cfg) t) := by
  rw [validateOpen_eq, peerAs_eq_rfc _ _ hc]
  simp only [rfcRefusals]
  by_cases c1 : cfg.peerAs ≠ 0 ∧ (rfcNegotiate (ourOpen cfg) t).peerAs ≠ cfg.peerAs
  · simp only [if_pos c1]; simp
  · by_cases c2 : t.bgpId = 0
    · simp only [if_neg c1, if_pos c2]; simp
    · by_cases c3 : (rfcNegotiate (ourOpen cfg) t).peerAs = cfg.localAs ∧ t.bgpId = cfg.routerId
      · simp only [if_neg c1, if_neg c2, if_pos c3]; simp
      · by_cases c4 : t.hold = 1 ∨ t.hold = 2
        · have c4' : t.hold ≠ 0 ∧ t.hold < 3 := by omega
          simp only [if_neg c1, if_neg c2, if_neg c3, if_pos c4, if_pos c4']; simp
        · have c4' : ¬ (t.hold ≠ 0 ∧ t.hold < 3) := by omega
          simp only [if_neg c1, if_neg c2, if_neg c3, if_neg c4, if_neg c4']; simp

end Exa.Open
