import ExaModel.Lemmas.RibClosed
set_option linter.unusedSimpArgs false
/-! The convergence invariant of M-Rib and its preservation by every step. -/
namespace Exa.Rib
open Exa

/-- `include_withdraw` of the generator that will consume the *queued* snapshot. -/
def nextIncl (s : Sess) : Bool := s.inclWd || s.inflight.isSome

/-- Everything a drain would still put on the wire. -/
def future (s : Sess) : List Ev :=
  s.inflight.getD [] ++ s.rib.snapshotEvents.filter (keepEv (nextIncl s))

/-- Closed form of the effect of the queued snapshot on NLRI `n`. -/
def snapEff (rib : Rib) (incl : Bool) (n : Nat) (v : Val) : Val :=
  match AList.lookup n rib.newAnn with
  | some r => some (r.attr, r.nh)
  | none =>
    if incl && (AList.lookup n rib.newWd).isSome then none
    else effect n (rib.refRoutes.map Ev.ann) v

theorem filter_keep_ann (incl : Bool) (l : List Route) :
    (l.map Ev.ann).filter (keepEv incl) = l.map Ev.ann := by
  induction l with
  | nil => rfl
  | cons r t ih => simp [List.filter_cons, keepEv, ih]

theorem filter_keep_rrStart (incl : Bool) (l : List Nat) :
    (l.map Ev.rrStart).filter (keepEv incl) = l.map Ev.rrStart := by
  induction l with
  | nil => rfl
  | cons r t ih => simp [List.filter_cons, keepEv, ih]

theorem filter_keep_rrEnd (incl : Bool) (l : List Nat) :
    (l.map Ev.rrEnd).filter (keepEv incl) = l.map Ev.rrEnd := by
  induction l with
  | nil => rfl
  | cons r t ih => simp [List.filter_cons, keepEv, ih]

theorem filter_keep_annSection (incl : Bool) (stale : AList Nat (List Route)) (l : AList Nat Route) :
    (annSection stale l).filter (keepEv incl) = annSection stale l := by
  apply List.filter_eq_self.2
  intro e he
  simp only [annSection, List.mem_flatMap, List.mem_append, List.mem_map, List.mem_singleton] at he
  obtain ⟨p, _, hp | hp⟩ := he
  · obtain ⟨r, _, rfl⟩ := hp; rfl
  · subst hp; rfl

theorem filter_keep_wd (incl : Bool) (l : AList Nat Nat) :
    (l.map (fun p => Ev.wd p.1 p.2)).filter (keepEv incl) =
      if incl then l.map (fun p => Ev.wd p.1 p.2) else [] := by
  cases incl with
  | true =>
    induction l with
    | nil => rfl
    | cons r t ih => simp only [if_true] at ih; simp [List.filter_cons, keepEv, ih]
  | false =>
    induction l with
    | nil => rfl
    | cons r t ih => simp only [Bool.false_eq_true, if_false] at ih; simp [List.filter_cons, keepEv, ih]

theorem snap_effect (rib : Rib) (incl : Bool) (n : Nat) (v : Val) (h : WFMap rib.newAnn)
    (hs : StaleOK rib.stale) :
    effect n (rib.snapshotEvents.filter (keepEv incl)) v = snapEff rib incl n v := by
  unfold Rib.snapshotEvents snapEff
  simp only [List.filter_append, filter_keep_ann, filter_keep_rrStart, filter_keep_rrEnd,
    filter_keep_wd, filter_keep_annSection, effect_append, effect_rrStart, effect_rrEnd]
  rw [effect_annSection n rib.stale rib.newAnn _ h hs]
  cases hl : AList.lookup n rib.newAnn with
  | some r => rfl
  | none =>
    simp only
    cases incl with
    | false => simp
    | true =>
      simp only [if_true, effect_wd, Bool.true_and]
      cases hw : AList.lookup n rib.newWd <;> simp

/-- The invariant (session up). -/
structure Good (s : Sess) (t : Table) : Prop where
  wfAnn : WFMap s.rib.newAnn
  staleOK : StaleOK s.rib.stale
  wfCache : WFMap s.rib.cache
  cacheOn : s.rib.cacheOn = true
  inv : ∀ n, snapEff s.rib (nextIncl s) n (effect n (s.inflight.getD []) (AList.lookup n t)) = s.rib.cacheView n
  fresh : s.inclWd = false → s.inflight = none → ∀ n, AList.lookup n t = none
  refCached : ∀ r ∈ s.rib.refRoutes, AList.lookup r.nlri s.rib.cache ≠ none

theorem Good.future_effect {s : Sess} {t : Table} (g : Good s t) (n : Nat) :
    effect n (future s) (AList.lookup n t) = s.rib.cacheView n := by
  unfold future
  rw [effect_append, snap_effect _ _ _ _ g.wfAnn g.staleOK]
  exact g.inv n

/-! ### the three primitive RIB operations -/

section prim
variable {infl : Option (List Ev)} {incl : Bool} {t : Table}

theorem cacheView_insert (rib : Rib) (r : Route) (n : Nat) :
    (AList.lookup n (AList.insert r.nlri r rib.cache)).map (fun r => (r.attr, r.nh))
      = if n = r.nlri then some (r.attr, r.nh) else rib.cacheView n := by
  rw [AList.lookup_insert]; split <;> simp [Rib.cacheView]

theorem staleOK_updateRib (rib : Rib) (r : Route) (hw : WFMap rib.newAnn) (hs : StaleOK rib.stale) :
    StaleOK (rib.updateRib r).stale := by
  simp only [Rib.updateRib]
  apply staleOK_insert hs
  intro x hx
  cases hp : AList.lookup r.nlri rib.newAnn with
  | none => simp [hp] at hx
  | some p =>
    simp only [hp] at hx
    have hpk : p.nlri = r.nlri := hw.2 (r.nlri, p) (AList.mem_of_lookup hp)
    have hchain : ∀ y ∈ (AList.lookup r.nlri rib.stale).getD [], y.nlri = r.nlri := by
      intro y hy
      cases hl : AList.lookup r.nlri rib.stale with
      | none => simp [hl] at hy
      | some c => simp only [hl, Option.getD_some] at hy; exact hs _ c hl y hy
    split at hx
    · exact hchain x hx
    · have := (List.mem_filter.1 hx).1
      rcases List.mem_append.1 this with h | h
      · exact hchain x h
      · simp at h; subst h; exact hpk

theorem good_updateRib (rib : Rib) (r : Route) (g : Good ⟨rib, infl, incl⟩ t) :
    Good ⟨rib.updateRib r, infl, incl⟩ t := by
  have hc := g.cacheOn
  simp only at hc
  refine ⟨wfmap_insert g.wfAnn r, ?_, ?_, ?_, ?_, g.fresh, ?_⟩
  · exact staleOK_updateRib rib r g.wfAnn g.staleOK
  · simp only [Rib.updateRib, hc, if_true]; exact wfmap_insert g.wfCache r
  · simpa [Rib.updateRib] using hc
  · intro n
    have := g.inv n
    simp only [snapEff, Rib.updateRib, Rib.cacheView, hc, if_true, nextIncl] at this ⊢
    by_cases hn : n = r.nlri
    · subst hn; simp
    · rw [AList.lookup_insert_ne hn, AList.lookup_insert_ne hn]; exact this
  · intro r' hr'
    have := g.refCached r' hr'
    simp only [Rib.updateRib, hc, if_true] at this ⊢
    by_cases hn : r'.nlri = r.nlri
    · rw [hn]; simp
    · rw [AList.lookup_insert_ne hn]; exact this

theorem good_add (rib : Rib) (r : Route) (f : Bool) (g : Good ⟨rib, infl, incl⟩ t) :
    Good ⟨rib.add r f, infl, incl⟩ t := by
  unfold Rib.add
  split
  · exact g
  · exact good_updateRib rib r g

theorem good_del (rib : Rib) (m fam : Nat) (g : Good ⟨rib, infl, incl⟩ t) :
    Good ⟨rib.del m fam, infl, incl⟩ t := by
  have hc := g.cacheOn
  simp only at hc
  refine ⟨wfmap_erase g.wfAnn m, staleOK_erase g.staleOK m, ?_, ?_, ?_, g.fresh, ?_⟩
  · simp only [Rib.del, hc, if_true]; exact wfmap_erase g.wfCache m
  · simpa [Rib.del] using hc
  · intro n
    have hinv := g.inv n
    simp only [snapEff, Rib.del, Rib.cacheView, hc, if_true, nextIncl] at hinv ⊢
    by_cases hn : n = m
    · subst hn
      simp only [AList.lookup_erase_self, AList.lookup_insert_self, Option.isSome_some, Bool.and_true,
        effect_ann_filter_self, Option.map_none]
      cases hi : (incl || infl.isSome) with
      | true => simp
      | false =>
        simp only [Bool.or_eq_false_iff] at hi
        have hinfl : infl = none := by
          cases infl with
          | none => rfl
          | some x => simp at hi
        have := g.fresh hi.1 hinfl n
        subst hinfl
        simp [this]
    · rw [AList.lookup_erase_ne hn, AList.lookup_insert_ne hn, AList.lookup_erase_ne hn,
        effect_ann_filter_ne n m _ _ hn]
      exact hinv
  · intro r' hr'
    have hmem := List.mem_filter.1 hr'
    have hne : r'.nlri ≠ m := by simpa using hmem.2
    have := g.refCached r' hmem.1
    simp only [Rib.del, hc, if_true] at this ⊢
    rw [AList.lookup_erase_ne hne]; exact this

theorem mem_cachedRoutes {rib : Rib} {fams : List Nat} {r : Route} (h : r ∈ rib.cachedRoutes fams) :
    r ∈ AList.values rib.cache := (List.mem_filter.1 h).1

theorem good_resend (rib : Rib) (e : Bool) (fam : Option Nat) (g : Good ⟨rib, infl, incl⟩ t) :
    Good ⟨rib.resend e fam, infl, incl⟩ t := by
  refine ⟨g.wfAnn, g.staleOK, g.wfCache, g.cacheOn, ?_, g.fresh, ?_⟩
  · intro n
    have hinv := g.inv n
    simp only [snapEff, Rib.resend, Rib.cacheView, nextIncl] at hinv ⊢
    cases hl : AList.lookup n rib.newAnn with
    | some r => simp only [hl] at hinv ⊢; exact hinv
    | none =>
      simp only [hl] at hinv ⊢
      by_cases hc : ((incl || infl.isSome) && (AList.lookup n rib.newWd).isSome) = true
      · simp only [hc, if_true] at hinv ⊢; exact hinv
      · simp only [hc, if_false] at hinv ⊢
        simp only [List.map_append, effect_append]
        have hinv' : effect n (List.map Ev.ann rib.refRoutes) (effect n (infl.getD []) (AList.lookup n t))
            = Option.map (fun r => (r.attr, r.nh)) (AList.lookup n rib.cache) := by simpa using hinv
        rw [hinv']
        apply effect_ann_agree
        intro r hr hrn
        have := mem_values_lookup g.wfCache (mem_cachedRoutes hr)
        simp only at this
        rw [← hrn, this]; rfl
  · intro r hr
    simp only [Rib.resend, List.mem_append] at hr
    rcases hr with hr | hr
    · exact g.refCached r hr
    · have := mem_values_lookup g.wfCache (mem_cachedRoutes hr)
      simp only [Rib.resend] at this ⊢
      rw [this]; simp

theorem good_book (rib : Rib) (p m : AList Nat (AList Nat Route)) (g : Good ⟨rib, infl, incl⟩ t) :
    Good ⟨{ rib with wdPlus := p, wdMinus := m }, infl, incl⟩ t :=
  ⟨g.wfAnn, g.staleOK, g.wfCache, g.cacheOn, g.inv, g.fresh, g.refCached⟩

theorem good_closed (infl : Option (List Ev)) (incl : Bool) (t : Table) :
    RibClosed (fun rib => Good ⟨rib, infl, incl⟩ t) :=
  ⟨fun s r f h => good_add s r f h, fun s n f h => good_del s n f h,
   fun s e f h => good_resend s e f h, fun s p m h => good_book s p m h⟩

end prim

end Exa.Rib
