import ExaModel.Model.WireNlri
set_option linter.unusedSimpArgs false
/-! Round trip of the NLRI codecs of M-Wire: `decNlri (encNlri n ++ rest) = ok (n, rest)` for every
    well-formed NLRI (path id, label stack, withdraw label, RD, prefix) and the list walk. -/
namespace Exa.Wire
open Exa

@[simp] theorem be24_length (n : Nat) : (be24 n).length = 3 := rfl

theorem rd24_be24 (n : Nat) (h : n < 16777216) (rest : Bytes) : rd24 (be24 n ++ rest) = n := by
  simp [rd24, be24]; omega

theorem wf_be24 (n : Nat) : WFBytes (be24 n) := by
  intro b hb; simp [be24] at hb; rcases hb with h | h | h <;> subst h <;> omega

theorem encStack_length (ls : List Nat) : (encStack ls).length = 3 * ls.length := by
  induction ls with
  | nil => rfl
  | cons l t ih =>
    cases t with
    | nil => simp [encStack]
    | cons l' t' => simp only [encStack, List.length_append, be24_length, ih, List.length_cons]; omega

theorem drop3_be24 (n : Nat) (rest : Bytes) : (be24 n ++ rest).drop 3 = rest := by
  simp [be24]

theorem encStack_single (l : Nat) : encStack [l] = be24 (l * 16 + 1) := rfl
theorem encStack_cons2 (l l' : Nat) (ls : List Nat) :
    encStack (l :: l' :: ls) = be24 (l * 16) ++ encStack (l' :: ls) := rfl
theorem decStack_succ (n : Nat) (bs : Bytes) : decStack (n + 1) bs =
    if bs.length < 3 then none
    else if rd24 bs % 2 = 1 then some ([rd24 bs / 16], bs.drop 3)
    else match decStack n (bs.drop 3) with
      | some (ls, rest) => some (rd24 bs / 16 :: ls, rest)
      | none => none := rfl

theorem decStack_encStack (ls : List Nat) (hne : ls ≠ []) (hl : ∀ l ∈ ls, l < 1048576) (rest : Bytes)
    (n : Nat) (hn : ls.length ≤ n) : decStack n (encStack ls ++ rest) = some (ls, rest) := by
  induction ls generalizing n with
  | nil => exact absurd rfl hne
  | cons l t ih =>
    have hlt : l < 1048576 := hl l (by simp)
    cases n with
    | zero => simp at hn
    | succ m =>
      cases t with
      | nil =>
        rw [encStack_single, decStack_succ]
        have hlen : ¬ (be24 (l * 16 + 1) ++ rest).length < 3 := by simp
        rw [if_neg hlen, rd24_be24 _ (by omega), drop3_be24]
        have : (l * 16 + 1) % 2 = 1 := by omega
        rw [if_pos this]
        have : (l * 16 + 1) / 16 = l := by omega
        rw [this]
      | cons l' t' =>
        rw [encStack_cons2, decStack_succ, List.append_assoc]
        have hlen : ¬ (be24 (l * 16) ++ (encStack (l' :: t') ++ rest)).length < 3 := by simp
        rw [if_neg hlen, rd24_be24 _ (by omega), drop3_be24]
        have : ¬ (l * 16) % 2 = 1 := by omega
        rw [if_neg this]
        have ih' := ih (by simp) (fun x hx => hl x (List.mem_cons_of_mem _ hx)) m (by simp at hn ⊢; omega)
        rw [ih']
        have : l * 16 / 16 = l := by omega
        rw [this]

theorem decPathId_enc (ap : Bool) (pid : Option Nat) (h : pid.isSome = ap)
    (hb : ∀ i, pid = some i → i < 4294967296) (rest : Bytes) :
    decPathId ap (encPathId pid ++ rest) = .ok (pid, rest) := by
  cases pid with
  | none =>
    simp at h; subst h
    simp [decPathId, encPathId]
  | some i =>
    simp at h; subst h
    have := hb i rfl
    show (if (be32 i ++ rest).length < 4 then Except.error (3, 10)
      else Except.ok (some (rd32 (be32 i ++ rest)), (be32 i ++ rest).drop 4)) = _
    have hl : ¬ (be32 i ++ rest).length < 4 := by simp
    rw [if_neg hl, rd32_be32 i this]
    simp [be32]

/-- the raw first entry of an encoded stack -/
theorem rd24_encStack (l : Nat) (t : List Nat) (hl : l < 1048576) (rest : Bytes) :
    rd24 (encStack (l :: t) ++ rest) = if t = [] then l * 16 + 1 else l * 16 := by
  cases t with
  | nil => simp only [encStack, if_true]; exact rd24_be24 _ (by omega) rest
  | cons l' t' =>
    simp only [encStack, List.append_assoc]
    rw [rd24_be24 _ (by omega)]; simp

theorem decLabels_enc (safi : Nat) (wd : Bool) (ls : List Nat) (rdl plen : Nat) (rest : Bytes)
    (h0 : hasLabel safi = false → ls = [])
    (h1 : hasLabel safi = true → wd = false → ls ≠ [])
    (h2 : ∀ l ∈ ls, l < 1048576)
    (h3 : wd = true → ∀ l t, ls = l :: t → t ≠ [] → l ≠ 524288)
    (hrd : rdl * 8 = rdBits safi) :
    decLabels safi wd ((labelField safi wd ls).length * 8 + rdl * 8 + plen) (labelField safi wd ls ++ rest) =
      .ok (ls, (labelField safi wd ls).length * 8, rest) := by
  unfold decLabels labelField
  cases hL : hasLabel safi with
  | false =>
    have := h0 hL; subst this
    simp
  | true =>
    simp only [if_true]
    cases ls with
    | nil =>
      -- only possible in a withdrawal: the compatibility field
      have hw : wd = true := by
        cases wd with
        | true => rfl
        | false => exact absurd rfl (h1 hL rfl)
      subst hw
      simp only [Bool.true_and, List.isEmpty_nil, if_true, be24_length]
      have c : (True ∧ 3 ≤ (be24 wdLabel ++ rest).length ∧ rd24 (be24 wdLabel ++ rest) = wdLabel ∧
          rdBits safi + 24 ≤ 3 * 8 + rdl * 8 + plen) := by
        refine ⟨trivial, by simp, rd24_be24 _ (by decide) rest, by omega⟩
      rw [if_pos c, drop3_be24]
    | cons l t =>
      have hlt : l < 1048576 := h2 l (by simp)
      have hne : (wd && (l :: t).isEmpty) = false := by simp
      simp only [hne, Bool.false_eq_true, if_false]
      have c : ¬ (wd = true ∧ 3 ≤ (encStack (l :: t) ++ rest).length ∧ rd24 (encStack (l :: t) ++ rest) = wdLabel ∧
          rdBits safi + 24 ≤ (encStack (l :: t)).length * 8 + rdl * 8 + plen) := by
        rintro ⟨hw, _, hr, _⟩
        rw [rd24_encStack l t hlt] at hr
        by_cases ht : t = []
        · simp only [ht, if_true, wdLabel] at hr; omega
        · simp only [ht, if_false, wdLabel] at hr
          exact h3 hw l t rfl ht (by omega)
      rw [if_neg c]
      have hn : (l :: t).length ≤ ((encStack (l :: t)).length * 8 + rdl * 8 + plen - rdBits safi) / 24 := by
        rw [encStack_length]
        have : 3 * (l :: t).length * 8 + rdl * 8 + plen - rdBits safi = 24 * (l :: t).length + plen := by omega
        rw [this, Nat.le_div_iff_mul_le (by decide)]
        omega
      rw [decStack_encStack (l :: t) (by simp) h2 rest _ hn, encStack_length]
      have e : 24 * (l :: t).length = 3 * (l :: t).length * 8 := by omega
      show Except.ok (l :: t, 24 * (l :: t).length, rest) = _
      rw [e]

theorem decRdPrefix_enc (afi safi : Nat) (pid : Option Nat) (ls : List Nat) (rd pfx : Bytes) (plen : Nat)
    (rest : Bytes) (hrd : rd.length = rdBits safi / 8) (hp : plen ≤ maxBits afi)
    (hpl : pfx.length = prefixBytes plen) :
    decRdPrefix afi safi pid ls (rd.length * 8 + plen) (rd ++ (pfx ++ rest)) =
      .ok ({ pathId := pid, labels := ls, rd := rd, plen := plen, pfx := pfx }, rest) := by
  have hb : rd.length * 8 = rdBits safi := by
    unfold rdBits at hrd ⊢; split at hrd <;> simp_all
  unfold decRdPrefix
  have c1 : ¬ rd.length * 8 + plen < rdBits safi := by omega
  have c2 : ¬ (rd ++ (pfx ++ rest)).length < rdBits safi / 8 := by simp; omega
  have e1 : rd.length * 8 + plen - rdBits safi = plen := by omega
  rw [if_neg c1, if_neg c2, e1, ← hrd]
  have c3 : ¬ plen > maxBits afi := by omega
  rw [if_neg c3, List.drop_left', List.take_left']
  have c4 : ¬ (pfx ++ rest).length < prefixBytes plen := by simp; omega
  rw [if_neg c4, ← hpl, List.drop_left', List.take_left']
  all_goals rfl

/-- **NLRI round trip**: path id, label stack / withdraw label, RD and prefix. -/
theorem decNlri_encNlri (afi safi : Nat) (ap wd : Bool) (n : Nlri) (h : WFNlri afi safi ap wd n) (rest : Bytes) :
    decNlri afi safi ap wd (encNlri safi wd n ++ rest) = .ok (n, rest) := by
  obtain ⟨hp, hpb, h0, h1, h2, h3, hrd, hpl, hpx, hlen⟩ := h
  unfold decNlri encNlri
  rw [List.append_assoc, decPathId_enc ap n.pathId hp hpb]
  simp only [List.cons_append, List.append_assoc]
  have hrd8 : n.rd.length * 8 = rdBits safi := by
    unfold rdBits at hrd ⊢; split at hrd <;> simp_all
  rw [decLabels_enc safi wd n.labels n.rd.length n.plen (n.rd ++ (n.pfx ++ rest)) h0 h1 h2 h3 hrd8]
  simp only
  have c : ¬ (labelField safi wd n.labels).length * 8 + n.rd.length * 8 + n.plen <
      (labelField safi wd n.labels).length * 8 := by omega
  rw [if_neg c]
  have e : (labelField safi wd n.labels).length * 8 + n.rd.length * 8 + n.plen -
      (labelField safi wd n.labels).length * 8 = n.rd.length * 8 + n.plen := by omega
  rw [e, decRdPrefix_enc afi safi n.pathId n.labels n.rd n.pfx n.plen rest hrd hpl hpx]

theorem encNlri_length_pos (safi : Nat) (wd : Bool) (n : Nlri) : 0 < (encNlri safi wd n).length := by
  unfold encNlri; simp; omega

/-- **NLRI list round trip**, for any fuel that covers the bytes. -/
theorem decNlris_encNlris (afi safi : Nat) (ap wd : Bool) (ns : List Nlri)
    (h : ∀ n ∈ ns, WFNlri afi safi ap wd n) (fuel : Nat) (hf : (encNlris safi wd ns).length ≤ fuel) :
    decNlris afi safi ap wd fuel (encNlris safi wd ns) = .ok ns := by
  induction ns generalizing fuel with
  | nil => cases fuel <;> simp [encNlris, decNlris]
  | cons n t ih =>
    have hpos := encNlri_length_pos safi wd n
    simp only [encNlris, List.length_append] at hf ⊢
    cases fuel with
    | zero => omega
    | succ f =>
      cases hb : encNlri safi wd n with
      | nil => rw [hb] at hpos; simp at hpos
      | cons b bs =>
        simp only [List.cons_append, decNlris]
        have := decNlri_encNlri afi safi ap wd n (h n (by simp)) (encNlris safi wd t)
        rw [hb] at this
        simp only [List.cons_append] at this
        rw [this]
        simp only
        rw [ih (fun x hx => h x (List.mem_cons_of_mem _ hx)) f (by omega)]

theorem wf_encStack (ls : List Nat) : WFBytes (encStack ls) := by
  induction ls with
  | nil => exact wfBytes_nil
  | cons l t ih =>
    cases t with
    | nil => exact wf_be24 _
    | cons l' t' => exact wfBytes_append (wf_be24 _) ih

end Exa.Wire
