import ExaModel.Model.Api
set_option linter.unusedSimpArgs false
set_option linter.unusedVariables false
/-! Lemmas about the neighbor selector (`match_neighbor`, `match_neighbors`). -/
namespace Exa.Api

theorem prefixOf_iff (t l : List Tok) : prefixOf t l = true ↔ ∃ post, l = t ++ post := by
  induction t generalizing l with
  | nil => simp [prefixOf]
  | cons a as ih =>
    cases l with
    | nil => simp [prefixOf]
    | cons b bs =>
      simp only [prefixOf, Bool.and_eq_true, beq_iff_eq, ih, List.cons_append, List.cons.injEq]
      constructor
      · rintro ⟨rfl, post, rfl⟩; exact ⟨post, rfl, rfl⟩
      · rintro ⟨post, rfl, rfl⟩; exact ⟨rfl, post, rfl⟩

/-- the term occurs in the name as a run of consecutive words -/
theorem infixOf_iff (t l : List Tok) : infixOf t l = true ↔ ∃ pre post, l = pre ++ t ++ post := by
  induction l with
  | nil =>
    simp only [infixOf, List.isEmpty_iff]
    constructor
    · rintro rfl; exact ⟨[], [], rfl⟩
    · rintro ⟨pre, post, h⟩
      have := congrArg List.length h
      simp at this
      exact List.eq_nil_of_length_eq_zero (by omega)
  | cons b bs ih =>
    simp only [infixOf, Bool.or_eq_true, prefixOf_iff, ih]
    constructor
    · rintro (⟨post, h⟩ | ⟨pre, post, h⟩)
      · exact ⟨[], post, by simpa using h⟩
      · exact ⟨b :: pre, post, by simp [h]⟩
    · rintro ⟨pre, post, h⟩
      cases pre with
      | nil => left; exact ⟨post, by simpa using h⟩
      | cons p pre =>
        right
        simp only [List.cons_append, List.cons.injEq] at h
        exact ⟨pre, post, h.2⟩

/-- After the F13 repair: a description matches a name iff EVERY term matches it (a wildcard
    term matches everything). -/
theorem matchNeighbor_fixed {q : Quirks} (hq : q.wildcardShort = false) (d : Desc) (name : List Tok) :
    matchNeighbor q d name = true ↔ ∀ t ∈ d, isWild t = true ∨ infixOf t name = true := by
  induction d with
  | nil => simp [matchNeighbor]
  | cons t ts ih =>
    simp only [matchNeighbor, hq, List.mem_cons, forall_eq_or_imp]
    by_cases hw : isWild t = true
    · simp [hw, ih]
    · by_cases hi : infixOf t name = true
      · simp [hw, hi, ih]
      · simp [hw, hi]

theorem mem_servicePeers (nbrs : List Nbr) (i : Nat) :
    i ∈ servicePeers nbrs ↔ ∃ n, nbrs[i]? = some n ∧ n.attached = true := by
  simp only [servicePeers, List.mem_filter, List.mem_range, attachedAt]
  constructor
  · rintro ⟨hi, h⟩
    cases hn : nbrs[i]? with
    | none => simp [hn] at h
    | some n => simp only [hn] at h; exact ⟨n, rfl, h⟩
  · rintro ⟨n, hn, ha⟩
    refine ⟨?_, by simp [hn, ha]⟩
    rcases Nat.lt_or_ge i nbrs.length with h | h
    · exact h
    · rw [List.getElem?_eq_none h] at hn; simp at hn

theorem mem_matchNeighbors (q : Quirks) (nbrs : List Nbr) {descs : List Desc} (hne : descs ≠ []) (i : Nat) :
    i ∈ matchNeighbors q nbrs descs ↔
      ∃ n, nbrs[i]? = some n ∧ n.attached = true ∧ ∃ d ∈ descs, matchNeighbor q d n.name = true := by
  have he : descs.isEmpty = false := by cases descs <;> simp_all
  have e : matchNeighbors q nbrs descs = (servicePeers nbrs).filter (matchAt q nbrs descs) := by
    simp [matchNeighbors, he]
  rw [e]
  simp only [List.mem_filter, mem_servicePeers, matchAt]
  constructor
  · rintro ⟨⟨n, hn, ha⟩, h⟩
    simp only [hn, List.any_eq_true] at h
    exact ⟨n, hn, ha, h⟩
  · rintro ⟨n, hn, ha, d, hd, hm⟩
    refine ⟨⟨n, hn, ha⟩, ?_⟩
    simp only [hn, List.any_eq_true]
    exact ⟨d, hd, hm⟩

theorem matchNeighbors_nil (q : Quirks) (nbrs : List Nbr) : matchNeighbors q nbrs [] = servicePeers nbrs := by
  simp [matchNeighbors]

end Exa.Api
