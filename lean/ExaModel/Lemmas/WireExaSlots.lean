import ExaModel.Lemmas.WireExaFind
set_option linter.unusedSimpArgs false
/-!
  M-Wire-Exa, part 5 of the lemmas: what each slot of the packing loop holds in terms of what the
  operator wrote (`firstOf`), and the negotiated view of the AS numbers on a session that can exist.
-/
namespace Exa.WireExa
open Exa Exa.Wire
open Exa.Generated.ExaEncTable

/-! ### the AS numbers as `Negotiated` sees them, on a well-formed session -/

theorem negLocalAs_eq (p : SessParams) (h : WFSess p) : negLocalAs p = p.localAs := by
  obtain ⟨_, _, _, hbig, _⟩ := h
  unfold negLocalAs
  split
  · rfl
  · rename_i hs
    split
    · rename_i hb
      simp only [asnMax2] at hb
      exact absurd (hbig hb) hs
    · rfl

theorem sameAs_eq (p : SessParams) (h : WFSess p) : sameAs p = ibgp p := by
  have hl := negLocalAs_eq p h
  obtain ⟨_, h23, h43, hbig, hpeer, _⟩ := h
  unfold sameAs ibgp
  rw [hl]
  unfold negPeerAs
  by_cases hp : p.peerAs > asnMax2
  · simp only [hp, if_true]
    by_cases h4 : p.asn4 = true
    · simp [h4]
    · have h4' : p.asn4 = false := by simpa using h4
      simp only [h4', Bool.false_eq_true, if_false]
      simp only [asnMax2] at hp
      -- we did not announce ASN4 (else it would be negotiated): our AS fits two octets
      have hs : p.sentAsn4 = false := by
        cases hsa : p.sentAsn4
        · rfl
        · exact absurd (hpeer hp hsa) h4
      have hsmall : ¬ p.localAs > 65535 := by
        intro hb; have := hbig hb; rw [hs] at this; cases this
      have e1 : (p.localAs == exaAsTrans) = false := by
        simp only [beq_eq_false_iff_ne, exaAsTrans]; exact h23
      have e2 : (p.localAs == p.peerAs) = false := by
        simp only [beq_eq_false_iff_ne]; omega
      rw [e1, e2]
  · simp [hp]

theorem defaultPath_eq (p : SessParams) (h : WFSess p) :
    defaultPath p = if ibgp p then [] else [(2, [p.localAs])] := by
  unfold defaultPath
  rw [sameAs_eq p h, negLocalAs_eq p h]

/-! ### `given` in terms of what was written -/

theorem normAttr_id (a : ReqAttr) (h : a.code ≠ 8 ∧ a.code ≠ 16 ∧ a.code ≠ 32) : normAttr a = a := by
  cases a <;> simp_all [normAttr, ReqAttr.code]

theorem given_eq_firstOf (as : List ReqAttr) (c : Nat) (h : c ≠ 8 ∧ c ≠ 16 ∧ c ≠ 32) :
    given as c = firstOf as c := by
  unfold given
  rw [if_neg h.2.1]
  cases hf : firstOf as c with
  | none => rfl
  | some b =>
    have := firstOf_code as c b hf
    simp only [Option.map_some]
    rw [normAttr_id b (by rw [this]; exact h)]

theorem extAll_nil_of_codes (as : List ReqAttr) (h : ∀ a ∈ as, a.code ≠ 16) : extAll as = [] := by
  induction as with
  | nil => rfl
  | cons a t ih =>
    have ha := h a (by simp)
    have ht := ih (fun x hx => h x (List.mem_cons_of_mem _ hx))
    cases a <;> simp only [extAll, ht]
    case extCommunities cs => exact absurd rfl ha

theorem extAll_nil_of_none (as : List ReqAttr) (h : firstOf as 16 = none) : extAll as = [] := by
  apply extAll_nil_of_codes
  intro a ha
  unfold firstOf at h
  have := List.find?_eq_none.1 h a ha
  simpa using this

/-- The path ExaBGP packs: the one written, else its default. -/
def modelPath (p : SessParams) (r : RouteReq) : List Seg :=
  match firstOf r.attrs 2 with
  | some (.asPath s) => s
  | _ => defaultPath p

theorem slot1 (p : SessParams) (r : RouteReq) (nh : Bytes) :
    semCode p r nh 1 = [mk (paramsOf p) false true (.origin (wantOrigin r))] := by
  unfold semCode wantOrigin
  rw [given_eq_firstOf r.attrs 1 (by decide)]
  simp only [show ¬ (1 = 3) by decide, if_false]
  cases hf : firstOf r.attrs 1 with
  | none => simp
  | some b =>
    have hc := firstOf_code r.attrs 1 b hf
    cases b <;> simp only [ReqAttr.code] at hc <;> try (exact absurd hc (by decide))
    simp [semGiven]

theorem slot2 (p : SessParams) (r : RouteReq) (nh : Bytes) :
    semCode p r nh 2 = semAsPath p (modelPath p r) := by
  unfold semCode modelPath
  rw [given_eq_firstOf r.attrs 2 (by decide)]
  simp only [show ¬ (2 = 3) by decide, if_false]
  cases hf : firstOf r.attrs 2 with
  | none => simp
  | some b =>
    have hc := firstOf_code r.attrs 2 b hf
    cases b <;> simp only [ReqAttr.code] at hc <;> try (exact absurd hc (by decide))
    simp [semGiven]

theorem slot3 (p : SessParams) (r : RouteReq) (nh : Bytes) :
    semCode p r nh 3 = if nh.length = 4 then [mk (paramsOf p) false true (.nextHop (rd32 nh))] else [] := by
  unfold semCode; simp

theorem slot4 (p : SessParams) (r : RouteReq) (nh : Bytes) :
    semCode p r nh 4 = match firstOf r.attrs 4 with
      | some (.med v) => [mk (paramsOf p) true false (.med v)]
      | _ => [] := by
  unfold semCode
  rw [given_eq_firstOf r.attrs 4 (by decide)]
  simp only [show ¬ (4 = 3) by decide, if_false]
  cases hf : firstOf r.attrs 4 with
  | none => simp
  | some b =>
    have hc := firstOf_code r.attrs 4 b hf
    cases b <;> simp only [ReqAttr.code] at hc <;> try (exact absurd hc (by decide))
    simp [semGiven]

theorem slot5 (p : SessParams) (r : RouteReq) (nh : Bytes) :
    semCode p r nh 5 = if sameAs p then [mk (paramsOf p) false true (.localPref (wantLocalPref r))] else [] := by
  unfold semCode wantLocalPref
  rw [given_eq_firstOf r.attrs 5 (by decide)]
  simp only [show ¬ (5 = 3) by decide, if_false]
  cases hf : firstOf r.attrs 5 with
  | none => simp
  | some b =>
    have hc := firstOf_code r.attrs 5 b hf
    cases b <;> simp only [ReqAttr.code] at hc <;> try (exact absurd hc (by decide))
    cases hs : sameAs p <;> simp [semGiven, hs]

theorem slot6 (p : SessParams) (r : RouteReq) (nh : Bytes) :
    semCode p r nh 6 = match firstOf r.attrs 6 with
      | some .atomicAggregate => [mk (paramsOf p) false true .atomicAggregate]
      | _ => [] := by
  unfold semCode
  rw [given_eq_firstOf r.attrs 6 (by decide)]
  simp only [show ¬ (6 = 3) by decide, if_false]
  cases hf : firstOf r.attrs 6 with
  | none => simp
  | some b =>
    have hc := firstOf_code r.attrs 6 b hf
    cases b <;> simp only [ReqAttr.code] at hc <;> try (exact absurd hc (by decide))
    simp [semGiven]

theorem slot7 (p : SessParams) (r : RouteReq) (nh : Bytes) :
    semCode p r nh 7 = match firstOf r.attrs 7 with
      | some (.aggregator a i) => semAggregator p a i
      | _ => [] := by
  unfold semCode
  rw [given_eq_firstOf r.attrs 7 (by decide)]
  simp only [show ¬ (7 = 3) by decide, if_false]
  cases hf : firstOf r.attrs 7 with
  | none => simp
  | some b =>
    have hc := firstOf_code r.attrs 7 b hf
    cases b <;> simp only [ReqAttr.code] at hc <;> try (exact absurd hc (by decide))
    simp [semGiven]

theorem slot8 (p : SessParams) (r : RouteReq) (nh : Bytes) :
    semCode p r nh 8 = match firstOf r.attrs 8 with
      | some (.communities cs) => if cs = [] then [] else [mk (paramsOf p) true true (.communities (sortBy id cs))]
      | _ => [] := by
  unfold semCode given
  simp only [show ¬ (8 = 3) by decide, show ¬ (8 = 16) by decide, if_false]
  cases hf : firstOf r.attrs 8 with
  | none => simp
  | some b =>
    have hc := firstOf_code r.attrs 8 b hf
    cases b <;> simp only [ReqAttr.code] at hc <;> try (exact absurd hc (by decide))
    case communities cs =>
      simp only [Option.map_some, normAttr, semGiven, sortBy_eq_nil]
      simp

theorem slot9 (p : SessParams) (r : RouteReq) (nh : Bytes) :
    semCode p r nh 9 = match firstOf r.attrs 9 with
      | some (.originatorId i) => [mk (paramsOf p) true false (.originatorId i)]
      | _ => [] := by
  unfold semCode
  rw [given_eq_firstOf r.attrs 9 (by decide)]
  simp only [show ¬ (9 = 3) by decide, if_false]
  cases hf : firstOf r.attrs 9 with
  | none => simp
  | some b =>
    have hc := firstOf_code r.attrs 9 b hf
    cases b <;> simp only [ReqAttr.code] at hc <;> try (exact absurd hc (by decide))
    simp [semGiven]

theorem slot10 (p : SessParams) (r : RouteReq) (nh : Bytes) :
    semCode p r nh 10 = match firstOf r.attrs 10 with
      | some (.clusterList ids) => if ids = [] then [] else [mk (paramsOf p) true false (.clusterList ids)]
      | _ => [] := by
  unfold semCode
  rw [given_eq_firstOf r.attrs 10 (by decide)]
  simp only [show ¬ (10 = 3) by decide, if_false]
  cases hf : firstOf r.attrs 10 with
  | none => simp
  | some b =>
    have hc := firstOf_code r.attrs 10 b hf
    cases b <;> simp only [ReqAttr.code] at hc <;> try (exact absurd hc (by decide))
    simp [semGiven]

theorem slot16 (p : SessParams) (r : RouteReq) (nh : Bytes) :
    semCode p r nh 16 = if extAll r.attrs = [] then []
      else [mk (paramsOf p) true true (.extCommunities (sortBy key2 (extAll r.attrs)))] := by
  unfold semCode given
  simp only [show ¬ (16 = 3) by decide, if_true, if_false]
  cases hf : firstOf r.attrs 16 with
  | none => simp [extAll_nil_of_none r.attrs hf]
  | some b =>
    simp only [semGiven, sortBy_eq_nil]
    simp

theorem slot32 (p : SessParams) (r : RouteReq) (nh : Bytes) :
    semCode p r nh 32 = match firstOf r.attrs 32 with
      | some (.largeCommunities cs) =>
        if cs = [] then [] else [mk (paramsOf p) true true (.largeCommunities (sortBy key3 (dedup cs)))]
      | _ => [] := by
  unfold semCode given
  simp only [show ¬ (32 = 3) by decide, show ¬ (32 = 16) by decide, if_false]
  cases hf : firstOf r.attrs 32 with
  | none => simp
  | some b =>
    have hc := firstOf_code r.attrs 32 b hf
    cases b <;> simp only [ReqAttr.code] at hc <;> try (exact absurd hc (by decide))
    case largeCommunities cs =>
      simp only [Option.map_some, normAttr, semGiven, sortBy_eq_nil, dedup_eq_nil]
      simp

end Exa.WireExa
