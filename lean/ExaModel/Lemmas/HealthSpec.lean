import ExaModel.Lemmas.HealthInv
set_option linter.unusedSimpArgs false
/-! The *specification* of a healthcheck command (what the operator configured for a state, in
closed form) and the proof that the imperative `exabgp()` loop of the model writes exactly it. -/
namespace Exa.Health

/-- An API route command, field by field. -/
structure Cmd where
  peers : List String            -- [] = every peer (`peer *`)
  announce : Bool                -- announce / withdraw
  pfx : String                   -- the advertised ip / network
  nextHop : String               -- address or "self"
  med : Option Int
  localPref : Option Int
  community : Option String
  extCommunity : Option String
  largeCommunity : Option String
  asPath : Option String
  pathId : Option Int
deriving DecidableEq, Repr

def optInt (kw : String) : Option Int → List String
  | some v => [kw, toString v]
  | none => []

def optList (kw : String) : Option String → List String
  | some v => [kw, "[", v, "]"]
  | none => []

def Cmd.selector (k : Cmd) : String :=
  match k.peers with
  | [] => "peer *"
  | [n] => "peer " ++ n
  | ns => "peer [ " ++ " , ".intercalate ns ++ " ]"

/-- the text of a command: selector, action, `route <prefix> next-hop <nh>`, then the attributes in
    the helper's order, then the path id -/
def Cmd.tokens (k : Cmd) : List String :=
  [k.selector, if k.announce then "announce" else "withdraw", "route", k.pfx, "next-hop", k.nextHop]
    ++ optInt "med" k.med ++ optInt "local-preference" k.localPref
    ++ optList "community" k.community ++ optList "extended-community" k.extCommunity
    ++ optList "large-community" k.largeCommunity ++ optList "as-path" k.asPath
    ++ optInt "path-information" k.pathId

def Cmd.render (k : Cmd) : String := " ".intercalate k.tokens

def nonEmpty : Option String → Option String
  | some s => if s != "" then some s else none
  | none => none

/-- What the configuration says the `k`-th address must be announced / withdrawn with in state `t`:
    metric of the state plus `k` times the increment; the state's community (the disabled community
    replaces the community in DOWN and DISABLED when set); the state's AS path, else the common one;
    next hop, local preference, extended / large communities and path id as configured; attributes
    only on announcements; withdrawal in every state but UP under `--withdraw-on-down`, and always
    for EXIT. -/
def specCmd (c : Cfg) (t : St) (k : Nat) (ip : String) : Cmd :=
  let ann : Bool := if t == .exit then false else if c.withdrawOnDown then t == .up else true
  { peers := if c.neighbors.any (· == "*") then [] else c.neighbors
    announce := ann
    pfx := ip
    nextHop := c.nextHop.getD "self"
    med := if ann then some (metricOf c t + (k : Int) * c.increase) else none
    localPref := if ann && c.localPref ≥ 0 then some c.localPref else none
    community := if ann then
        (if (t == .down || t == .disabled) && (nonEmpty c.disabledCommunity).isSome
          then nonEmpty c.disabledCommunity else nonEmpty c.community)
      else none
    extCommunity := if ann then nonEmpty c.extCommunity else none
    largeCommunity := if ann then nonEmpty c.largeCommunity else none
    asPath := if ann then nonEmpty (asPathOf c t) else none
    pathId := pathIdOf c }

theorem truthy_eq (o : Option String) : truthy o = (nonEmpty o).isSome := by
  cases o with
  | none => rfl
  | some s => by_cases h : s = "" <;> simp [truthy, nonEmpty, h]

theorem nonEmpty_of_truthy (o : Option String) (h : truthy o = true) : nonEmpty o = some (o.getD "") := by
  cases o with
  | none => simp [truthy] at h
  | some s => simp [truthy] at h; simp [nonEmpty, h]

theorem nonEmpty_self (o : Option String) (h : truthy o = true) : nonEmpty o = o := by
  cases o with
  | none => simp [truthy] at h
  | some s => simp [truthy] at h; simp [nonEmpty, h]

theorem nonEmpty_of_not_truthy (o : Option String) (h : truthy o = false) : nonEmpty o = none := by
  cases o with
  | none => rfl
  | some s => simp [truthy] at h; simp [nonEmpty, h]

theorem selector_spec (c : Cfg) (t : St) (k : Nat) (ip : String) :
    (specCmd c t k ip).selector = selector c := by
  simp only [Cmd.selector, specCmd, selector]
  by_cases hs : c.neighbors.any (· == "*") = true
  · simp [hs]
  · simp only [hs]
    cases hn : c.neighbors with
    | nil => simp
    | cons a rest => cases rest <;> simp

theorem announces_spec (c : Cfg) (t : St) :
    (if t == .exit then false else if c.withdrawOnDown then t == .up else true) = announces c t := by
  simp only [announces]
  cases c.withdrawOnDown <;> cases t <;> rfl

theorem communityOf_spec (c : Cfg) (t : St) :
    communityOf c t =
      (if (t == .down || t == .disabled) && (nonEmpty c.disabledCommunity).isSome
        then nonEmpty c.disabledCommunity else nonEmpty c.community) := by
  unfold communityOf
  rw [← truthy_eq]
  cases h1 : truthy c.community <;> cases h2 : truthy c.disabledCommunity <;>
    cases h3 : (t == .down || t == .disabled) <;>
    simp [h1, h2, nonEmpty_self, nonEmpty_of_not_truthy]

/-- the attribute part of an announcement, as the model appends it -/
theorem lineTokens_spec (c : Cfg) (t : St) (k : Nat) (ip : String) :
    lineTokens c t (metricOf c t + (k : Int) * c.increase) ip = (specCmd c t k ip).tokens := by
  have hsel := selector_spec c t k ip
  unfold lineTokens Cmd.tokens
  rw [hsel]
  simp only [specCmd, announces_spec, ← communityOf_spec]
  cases ha : announces c t
  · cases pathIdOf c <;> simp [optInt, optList]
  · by_cases hlp : 0 ≤ c.localPref <;> cases hco : communityOf c t <;>
      cases he : truthy c.extCommunity <;> cases hl : truthy c.largeCommunity <;>
      cases hp : truthy (asPathOf c t) <;> cases hpi : pathIdOf c <;>
      simp [optInt, optList, hlp, he, hl, hp, nonEmpty_of_truthy, nonEmpty_of_not_truthy]

theorem exabgpLoop_spec (c : Cfg) (t : St) (ips : List String) (off : Nat) :
    exabgpLoop c t (metricOf c t + (off : Int) * c.increase) ips =
      ips.mapIdx (fun k ip => (specCmd c t (off + k) ip).render) := by
  induction ips generalizing off with
  | nil => rfl
  | cons ip rest ih =>
    have hm : metricOf c t + (off : Int) * c.increase + c.increase
        = metricOf c t + ((off + 1 : Nat) : Int) * c.increase := by
      simp [Int.add_mul, Int.add_assoc]
    simp only [exabgpLoop, List.mapIdx_cons, hm, ih (off + 1)]
    have hf : (fun k ip => (specCmd c t (off + 1 + k) ip).render)
        = (fun i => (fun k ip => (specCmd c t (off + k) ip).render) (i + 1)) := by
      funext i a
      simp only [Nat.add_assoc, Nat.add_comm 1 i]
    rw [hf]
    simp [line, Cmd.render, lineTokens_spec]

/-- Everything `exabgp(target)` writes, in closed form. -/
theorem exabgpLines_spec (c : Cfg) (t : St) (h : t.writes = true) :
    exabgpLines c t = c.ips.mapIdx (fun k ip => (specCmd c t k ip).render) := by
  have := exabgpLoop_spec c t c.ips 0
  simp only [Int.natCast_zero, Int.zero_mul, Int.add_zero, Nat.zero_add] at this
  simp [exabgpLines, h, this]

/-! ## quiet steps, written lines and the exit -/

theorem isAnnounce_writes (t : St) (h : t.isAnnounce = true) : t.writes = true := by
  cases t <;> simp_all [St.isAnnounce, St.writes]

/-- a step whose new state is not a writing target writes nothing and leaves `ann` alone -/
theorem quiet_step (c : Cfg) (r : Run) (i : Inp) (h : (one c r.loop i).st.writes = false) :
    stepLines c r.loop i = [] ∧ (r.step c i).ann = r.ann := by
  have hna : (one c r.loop i).st.isAnnounce = false := by
    cases ha : (one c r.loop i).st.isAnnounce
    · rfl
    · rw [isAnnounce_writes _ ha] at h; cases h
  constructor
  · by_cases hd : (!c.debounce || (one c r.loop i).st != r.loop.st) = true
    · simp [stepLines, handed, hd, exabgpLines, h]
    · simp [stepLines, handed, hd]
  · rcases ann_step c r i with h1 | ⟨_, h2, _⟩
    · exact h1
    · rw [hna] at h2; cases h2

/-- every step writes nothing, or the lines of the announce target that `ann` then names -/
theorem written_is_announced (c : Cfg) (hist : List Inp) (r : Run) (i : Inp) (h : Inv c hist r) :
    stepLines c r.loop i = [] ∨
    ∃ t, t.isAnnounce = true ∧ (r.step c i).ann = some t ∧ stepLines c r.loop i = exabgpLines c t := by
  have hl := (linv_step c hist r.loop i h.loop).handled
  cases hw : (one c r.loop i).st.writes
  · exact Or.inl (quiet_step c r i hw).1
  · have ha : (one c r.loop i).st.isAnnounce = true := by
      revert hw hl
      cases (one c r.loop i).st <;> simp [St.writes, St.isAnnounce]
    by_cases hd : (!c.debounce || (one c r.loop i).st != r.loop.st) = true
    · right
      refine ⟨_, ha, ?_, ?_⟩
      · simp [Run.step, handed, hd, ha]
      · simp [stepLines, handed, hd]
    · left
      simp [stepLines, handed, hd]

/-- what the daemon was told is an announce target, after any continuation of a run -/
theorem ann_from_isAnnounce (c : Cfg) (inputs : List Inp) (r : Run)
    (h : ∀ a, r.ann = some a → a.isAnnounce = true) :
    ∀ a, (Run.from c r inputs).ann = some a → a.isAnnounce = true := by
  induction inputs generalizing r with
  | nil => simpa [Run.from] using h
  | cons i rest ih =>
    have hstep : ∀ a, (r.step c i).ann = some a → a.isAnnounce = true := by
      intro a ha
      rcases ann_step c r i with h1 | ⟨h1, h2, _⟩
      · rw [h1] at ha; exact h a ha
      · rw [h1] at ha; cases Option.some.inj ha; exact h2
    have := ih (r.step c i) hstep
    simpa [Run.from] using this

theorem lineTokens_exit (c : Cfg) (m : Int) (ip : String) :
    lineTokens c .exit m ip =
      [selector c, "withdraw", "route", ip, "next-hop", c.nextHop.getD "self"]
        ++ optInt "path-information" (pathIdOf c) := by
  have ha : announces c .exit = false := by simp [announces]
  unfold lineTokens
  simp only [ha]
  cases pathIdOf c <;> simp [optInt]

theorem exabgpLoop_exit (c : Cfg) (m : Int) (ips : List String) :
    exabgpLoop c .exit m ips = ips.map (fun ip => " ".intercalate
      ([selector c, "withdraw", "route", ip, "next-hop", c.nextHop.getD "self"]
        ++ optInt "path-information" (pathIdOf c))) := by
  induction ips generalizing m with
  | nil => rfl
  | cons ip rest ih => simp [exabgpLoop, line, lineTokens_exit, ih]

theorem mainLoop_eq (c : Cfg) (hz : c.intervalZero = false) (l : Loop) (inputs : List Inp) :
    mainLoop c l inputs = linesFrom c l inputs ++ exabgpLines c .exit := by
  induction inputs generalizing l with
  | nil => simp [mainLoop, linesFrom]
  | cons i rest ih => simp [mainLoop, linesFrom, hz, ih, List.append_assoc]

/-! ## every written line -/

theorem mem_exabgpLines (c : Cfg) (t : St) (ln : String) (h : ln ∈ exabgpLines c t) :
    t.writes = true ∧ ∃ k ip, c.ips[k]? = some ip ∧ ln = (specCmd c t k ip).render := by
  cases hw : t.writes
  · simp [exabgpLines, hw] at h
  · refine ⟨rfl, ?_⟩
    rw [exabgpLines_spec c t hw] at h
    obtain ⟨k, hk⟩ := List.mem_iff_getElem?.1 h
    rw [List.getElem?_mapIdx] at hk
    cases hip : c.ips[k]? with
    | none => simp [hip] at hk
    | some ip =>
      simp only [hip, Option.map_some, Option.some.injEq] at hk
      exact ⟨k, ip, hip, hk.symm⟩

theorem mem_stepLines (c : Cfg) (l : Loop) (i : Inp) (ln : String) (h : ln ∈ stepLines c l i) :
    ∃ t, ln ∈ exabgpLines c t := by
  unfold stepLines at h
  cases hh : handed c l i with
  | none => simp [hh] at h
  | some t => simp only [hh] at h; exact ⟨t, h⟩

theorem mem_mainLoop (c : Cfg) (l : Loop) (inputs : List Inp) (ln : String)
    (h : ln ∈ mainLoop c l inputs) : ∃ t, ln ∈ exabgpLines c t := by
  induction inputs generalizing l with
  | nil => exact ⟨.exit, by simpa [mainLoop] using h⟩
  | cons i rest ih =>
    simp only [mainLoop] at h
    split at h
    · exact mem_stepLines c l i ln h
    · rcases List.mem_append.1 h with h1 | h2
      · exact mem_stepLines c l i ln h1
      · exact ih _ h2

end Exa.Health
