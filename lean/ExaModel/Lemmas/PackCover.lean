import ExaModel.Lemmas.PackFits
set_option linter.unusedSimpArgs false
set_option linter.unusedVariables false
/-! Content lemmas of M-Pack: what each section of an emitted message may hold (nothing else),
    and that nothing in hand is lost while no exception is raised (completeness). -/
namespace Exa.Pack

/-- what the four NLRI-carrying places of a message hold -/
structure SecOK (A4 W4 : Nlri → Prop) (R U : Mp → Prop) (m : Msg) : Prop where
  a4 : ∀ x ∈ m.ann4, A4 x
  w4 : ∀ x ∈ m.wd4, W4 x
  r : ∀ r, m.reach = some r → R r
  u : ∀ u, m.unreach = some u → U u
  /-- the attribute block is there whenever the message announces something -/
  att : m.attrs = true ∨ (sz m.ann4 = 0 ∧ m.reach = none)

theorem mkMsg_sec {A4 W4 : Nlri → Prop} {R U : Mp → Prop} (attr : Nat) (w : List Nlri) (u : Option Mp)
    (b : Bool) (r : Option Mp) (a : List Nlri)
    (ha : ∀ x ∈ a, A4 x) (hw : ∀ x ∈ w, W4 x) (hr : ∀ r', r = some r' → R r') (hu : ∀ u', u = some u' → U u')
    (hb : b = true ∨ (sz a = 0 ∧ r = none)) :
    SecOK A4 W4 R U (mkMsg attr w u b r a) := ⟨ha, hw, hr, hu, hb⟩

theorem attrs_dec (a : List Nlri) : decide (sz a ≠ 0) = true ∨ (sz a = 0 ∧ (none : Option Mp) = none) := by
  by_cases h : sz a = 0
  · exact Or.inr ⟨h, rfl⟩
  · exact Or.inl (by simpa using h)

theorem feedReach_unreach (attr : Nat) :
    ∀ (rs : List Mp) (w a : List Nlri) (p : Option Mp), (feedReach attr rs w a p).2.unreach = none := by
  intro rs
  induction rs with
  | nil => intro w a p; rfl
  | cons r rs ih =>
    intro w a p
    cases p with
    | none => unfold feedReach; exact ih w a (some r)
    | some p => unfold feedReach; exact ih [] [] (some r)

section sec
variable {A4 W4 : Nlri → Prop} {R U : Mp → Prop}

theorem v4AnnLoop_sec (ms attr : Nat) :
    ∀ (xs w a : List Nlri), (∀ x ∈ xs, A4 x) → (∀ x ∈ a, A4 x) → (∀ x ∈ w, W4 x) →
      (∀ m ∈ (v4AnnLoop ms attr xs w a).msgs, SecOK A4 W4 R U m) ∧
      (∀ x ∈ (v4AnnLoop ms attr xs w a).a, A4 x) ∧ (∀ x ∈ (v4AnnLoop ms attr xs w a).w, W4 x) := by
  intro xs
  induction xs with
  | nil => intro w a _ ha hw; simp [v4AnnLoop]; exact ⟨ha, hw⟩
  | cons x xs ih =>
    intro w a hx ha hw
    have hx0 := hx x (by simp)
    have hxs : ∀ y ∈ xs, A4 y := fun y hy => hx y (by simp [hy])
    unfold v4AnnLoop
    split
    · refine ih w (a ++ [x]) hxs ?_ hw
      intro y hy; rcases List.mem_append.1 hy with h | h
      · exact ha y h
      · simp at h; subst h; exact hx0
    · split
      · simp; exact ⟨ha, hw⟩
      · have := ih [] [x] hxs (by intro y hy; simp at hy; subst hy; exact hx0) (by intro y hy; simp at hy)
        refine ⟨?_, this.2⟩
        intro m hm
        simp only [List.mem_cons] at hm
        rcases hm with rfl | hm
        · exact mkMsg_sec _ _ _ _ _ _ ha hw (by intro _ h; cases h) (by intro _ h; cases h) (Or.inl rfl)
        · exact this.1 m hm

theorem v4WdLoop_sec (ms attr : Nat) :
    ∀ (xs w a : List Nlri), (∀ x ∈ xs, W4 x) → (∀ x ∈ a, A4 x) → (∀ x ∈ w, W4 x) →
      (∀ m ∈ (v4WdLoop ms attr xs w a).msgs, SecOK A4 W4 R U m) ∧
      (∀ x ∈ (v4WdLoop ms attr xs w a).a, A4 x) ∧ (∀ x ∈ (v4WdLoop ms attr xs w a).w, W4 x) := by
  intro xs
  induction xs with
  | nil => intro w a _ ha hw; simp [v4WdLoop]; exact ⟨ha, hw⟩
  | cons x xs ih =>
    intro w a hx ha hw
    have hx0 := hx x (by simp)
    have hxs : ∀ y ∈ xs, W4 y := fun y hy => hx y (by simp [hy])
    unfold v4WdLoop
    split
    · refine ih (w ++ [x]) a hxs ha ?_
      intro y hy; rcases List.mem_append.1 hy with h | h
      · exact hw y h
      · simp at h; subst h; exact hx0
    · split
      · simp; exact ⟨ha, hw⟩
      · have := ih [x] [] hxs (by intro y hy; simp at hy) (by intro y hy; simp at hy; subst hy; exact hx0)
        refine ⟨?_, this.2⟩
        intro m hm
        simp only [List.mem_cons] at hm
        rcases hm with rfl | hm
        · exact mkMsg_sec _ _ _ _ _ _ ha hw (by intro _ h; cases h) (by intro _ h; cases h) (attrs_dec a)
        · exact this.1 m hm

theorem feedReach_sec (attr : Nat) :
    ∀ (rs : List Mp) (w a : List Nlri) (p : Option Mp),
      (∀ r ∈ rs, R r) → (∀ r, p = some r → R r) → (∀ x ∈ a, A4 x) → (∀ x ∈ w, W4 x) →
      (∀ m ∈ (feedReach attr rs w a p).1, SecOK A4 W4 R U m) ∧
      (∀ x ∈ (feedReach attr rs w a p).2.a, A4 x) ∧ (∀ x ∈ (feedReach attr rs w a p).2.w, W4 x) ∧
      (∀ r, (feedReach attr rs w a p).2.reach = some r → R r) := by
  intro rs
  induction rs with
  | nil => intro w a p _ hp ha hw; simp [feedReach]; exact ⟨ha, hw, hp⟩
  | cons r rs ih =>
    intro w a p hr hp ha hw
    have hrs : ∀ r' ∈ rs, R r' := fun r' h' => hr r' (by simp [h'])
    have hr0 := hr r (by simp)
    cases p with
    | none =>
      unfold feedReach
      exact ih w a (some r) hrs (by intro r' h; cases h; exact hr0) ha hw
    | some p =>
      unfold feedReach
      have := ih [] [] (some r) hrs (by intro r' h; cases h; exact hr0) (by intro y hy; simp at hy) (by intro y hy; simp at hy)
      refine ⟨?_, this.2⟩
      intro m hm
      simp only [List.mem_cons] at hm
      rcases hm with rfl | hm
      · exact mkMsg_sec _ _ _ _ _ _ ha hw hp (by intro _ h; cases h) (Or.inl rfl)
      · exact this.1 m hm

theorem feedUnreach_sec (attr : Nat) :
    ∀ (us : List Mp) (w a : List Nlri) (p u : Option Mp),
      (∀ r ∈ us, U r) → (∀ r, p = some r → R r) → (∀ r, u = some r → U r) → (∀ x ∈ a, A4 x) → (∀ x ∈ w, W4 x) →
      (∀ m ∈ (feedUnreach attr us w a p u).1, SecOK A4 W4 R U m) ∧
      (∀ x ∈ (feedUnreach attr us w a p u).2.a, A4 x) ∧ (∀ x ∈ (feedUnreach attr us w a p u).2.w, W4 x) ∧
      (∀ r, (feedUnreach attr us w a p u).2.reach = some r → R r) ∧
      (∀ r, (feedUnreach attr us w a p u).2.unreach = some r → U r) := by
  intro us
  induction us with
  | nil => intro w a p u _ hp hu ha hw; simp [feedUnreach]; exact ⟨ha, hw, hp, hu⟩
  | cons x us ih =>
    intro w a p u hr hp hu ha hw
    have hrs : ∀ r' ∈ us, U r' := fun r' h' => hr r' (by simp [h'])
    have hr0 := hr x (by simp)
    cases u with
    | none =>
      unfold feedUnreach
      exact ih w a p (some x) hrs hp (by intro r' h; cases h; exact hr0) ha hw
    | some u =>
      unfold feedUnreach
      have := ih [] [] none (some x) hrs (by intro r' h; cases h) (by intro r' h; cases h; exact hr0)
        (by intro y hy; simp at hy) (by intro y hy; simp at hy)
      refine ⟨?_, this.2⟩
      intro m hm
      simp only [List.mem_cons] at hm
      rcases hm with rfl | hm
      · exact mkMsg_sec _ _ _ _ _ _ ha hw hp hu (Or.inl rfl)
      · exact this.1 m hm

theorem famFinal_sec (attr : Nat) (s : MpSt) (ha : ∀ x ∈ s.a, A4 x) (hw : ∀ x ∈ s.w, W4 x)
    (hp : ∀ r, s.reach = some r → R r) (hu : ∀ r, s.unreach = some r → U r) :
    ∀ m ∈ famFinal attr s, SecOK A4 W4 R U m := by
  intro m hm
  unfold famFinal at hm
  split at hm
  · simp at hm; subst hm; exact mkMsg_sec _ _ _ _ _ _ ha hw hp hu (Or.inl rfl)
  · simp at hm

theorem famStep_sec (inclW : Bool) (ms attr fam : Nat) (ra wa w a : List Nlri)
    (hR : ∀ maxi, ∀ r ∈ (reachGen maxi fam (groupsOf ra)).1, R r)
    (hU : inclW = true → ∀ maxi, ∀ u ∈ (unreachGen maxi fam wa).1, U u)
    (ha : ∀ x ∈ a, A4 x) (hw : ∀ x ∈ w, W4 x) :
    ∀ m ∈ (famStep inclW ms attr fam ra wa w a).1, SecOK A4 W4 R U m := by
  have f1 := feedReach_sec (A4 := A4) (W4 := W4) (R := R) (U := U) attr
    (reachGen (ms - (sz w + sz a)) fam (groupsOf ra)).1 w a none (hR _) (by intro _ h; cases h) ha hw
  intro m hm
  unfold famStep at hm
  simp only at hm
  split at hm
  · exact f1.1 m hm
  · split at hm
    · rename_i hi
      generalize feedReach attr (reachGen (ms - (sz w + sz a)) fam (groupsOf ra)).1 w a none = fr at f1 hm
      obtain ⟨f1a, f1b, f1c, f1d⟩ := f1
      have f2 := feedUnreach_sec (A4 := A4) (W4 := W4) (R := R) (U := U) attr
        (unreachGen (ms - (sz fr.2.w + sz fr.2.a + owire fr.2.reach)) fam wa).1 fr.2.w fr.2.a fr.2.reach none
        (hU hi _) f1d (by intro _ h; cases h) f1b f1c
      split at hm
      · simp only [List.mem_append] at hm
        rcases hm with hm | hm
        · exact f1a m hm
        · exact f2.1 m hm
      · simp only [List.mem_append] at hm
        rcases hm with (hm | hm) | hm
        · exact f1a m hm
        · exact f2.1 m hm
        · exact famFinal_sec attr _ f2.2.1 f2.2.2.1 f2.2.2.2.1 f2.2.2.2.2 m hm
    · simp only [List.mem_append] at hm
      rcases hm with hm | hm
      · exact f1.1 m hm
      · refine famFinal_sec attr _ f1.2.1 f1.2.2.1 f1.2.2.2 ?_ m hm
        intro r hr
        rw [feedReach_unreach] at hr; cases hr

theorem famLoop_sec (inclW : Bool) (ms attr : Nat) (ma mw : List Nlri)
    (hR : ∀ f maxi, ∀ r ∈ (reachGen maxi f (groupsOf (ma.filter (fun x => x.fam = f)))).1, R r)
    (hU : inclW = true → ∀ f maxi, ∀ u ∈ (unreachGen maxi f (mw.filter (fun x => x.fam = f))).1, U u) :
    ∀ (fs : List Nat) (w a : List Nlri), (∀ x ∈ a, A4 x) → (∀ x ∈ w, W4 x) →
      ∀ m ∈ (famLoop inclW ms attr ma mw fs w a).1, SecOK A4 W4 R U m := by
  intro fs
  induction fs with
  | nil => intro w a _ _ m hm; simp [famLoop] at hm
  | cons f fs ih =>
    intro w a ha hw m hm
    have s1 := famStep_sec (A4 := A4) (W4 := W4) (R := R) (U := U) inclW ms attr f
      (ma.filter (fun x => x.fam = f)) (mw.filter (fun x => x.fam = f)) w a (hR f) (fun hi => hU hi f) ha hw
    unfold famLoop at hm
    simp only at hm
    split at hm
    · exact s1 m hm
    · simp only [List.mem_append] at hm
      rcases hm with hm | hm
      · exact s1 m hm
      · exact ih [] [] (by intro y hy; simp at hy) (by intro y hy; simp at hy) m hm

end sec

/-! ### what the generators yield -/

/-- Every MP_REACH attribute is for the family asked, carries ONE next hop, and every NLRI in it
    is a requested one with exactly that next hop. -/
theorem reachGen_sec (maxi fam : Nat) (ra : List Nlri) :
    ∀ r ∈ (reachGen maxi fam (groupsOf ra)).1,
      r.fam = fam ∧ r.hdr = 5 + r.nhLen ∧ ∀ x ∈ r.items, x ∈ ra ∧ x.nh = r.nh ∧ x.nhLen = r.nhLen := by
  have key : ∀ gs : List ((Nat × Nat) × List Nlri), (∀ g ∈ gs, ∀ x ∈ g.2, x ∈ ra ∧ nhKey x = g.1) →
      ∀ r ∈ (reachGen maxi fam gs).1,
        r.fam = fam ∧ r.hdr = 5 + r.nhLen ∧ ∀ x ∈ r.items, x ∈ ra ∧ x.nh = r.nh ∧ x.nhLen = r.nhLen := by
    intro gs
    induction gs with
    | nil => intro _ r hr; simp [reachGen] at hr
    | cons g gs ih =>
      intro hg r hr
      obtain ⟨k, xs⟩ := g
      have hgs : ∀ g ∈ gs, ∀ x ∈ g.2, x ∈ ra ∧ nhKey x = g.1 := fun g' hg' => hg g' (by simp [hg'])
      have h0 := hg (k, xs) (by simp)
      have one : ∀ it ∈ (splitGroup maxi (5 + k.2) xs []).1,
          ∀ x ∈ it, x ∈ ra ∧ x.nh = k.1 ∧ x.nhLen = k.2 := by
        intro it hit x hx
        rcases splitGroup_sub maxi (5 + k.2) xs [] it hit x hx with h | h
        · simp at h
        · have := h0 x h
          refine ⟨this.1, ?_, ?_⟩
          · have := congrArg Prod.fst this.2; simpa [nhKey] using this
          · have := congrArg Prod.snd this.2; simpa [nhKey] using this
      unfold reachGen at hr
      simp only at hr
      split at hr
      · simp only [List.mem_map] at hr
        obtain ⟨it, hit, rfl⟩ := hr
        exact ⟨rfl, rfl, one it hit⟩
      · simp only [List.mem_append, List.mem_map] at hr
        rcases hr with ⟨it, hit, rfl⟩ | hr
        · exact ⟨rfl, rfl, one it hit⟩
        · exact ih hgs r hr
  exact key (groupsOf ra) (fun g hg => groupsOf_mem hg)

theorem unreachGen_sec (maxi fam : Nat) (wa : List Nlri) :
    ∀ u ∈ (unreachGen maxi fam wa).1, u.fam = fam ∧ u.hdr = 3 ∧ ∀ x ∈ u.items, x ∈ wa := by
  intro u hu
  unfold unreachGen at hu
  simp only [List.mem_map] at hu
  obtain ⟨it, hit, rfl⟩ := hu
  refine ⟨rfl, rfl, ?_⟩
  intro x hx
  rcases splitGroup_sub maxi 3 wa [] it hit x hx with h | h
  · simp at h
  · exact h

/-! ### nothing in hand is lost -/

theorem v4AnnLoop_cover (ms attr : Nat) :
    ∀ (xs w a : List Nlri), (v4AnnLoop ms attr xs w a).bailed = false →
      (∀ x, x ∈ xs ∨ x ∈ a → (∃ m ∈ (v4AnnLoop ms attr xs w a).msgs, x ∈ m.ann4) ∨ x ∈ (v4AnnLoop ms attr xs w a).a) ∧
      (∀ x ∈ w, (∃ m ∈ (v4AnnLoop ms attr xs w a).msgs, x ∈ m.wd4) ∨ x ∈ (v4AnnLoop ms attr xs w a).w) := by
  intro xs
  induction xs with
  | nil =>
    intro w a _
    simp [v4AnnLoop]
  | cons x xs ih =>
    intro w a hb
    unfold v4AnnLoop at hb ⊢
    split
    · rename_i hfit
      simp only [hfit, if_true] at hb
      have := ih w (a ++ [x]) hb
      refine ⟨?_, this.2⟩
      intro y hy
      apply this.1 y
      rcases hy with hy | hy
      · simp only [List.mem_cons] at hy
        rcases hy with rfl | hy
        · exact Or.inr (by simp)
        · exact Or.inl hy
      · exact Or.inr (by simp [hy])
    · rename_i hfit
      simp only [hfit, if_false] at hb
      split
      · rename_i h0; simp [h0] at hb
      · rename_i h0
        simp only [h0, if_false] at hb
        have := ih [] [x] hb
        constructor
        · intro y hy
          rcases hy with hy | hy
          · simp only [List.mem_cons] at hy
            rcases hy with rfl | hy
            · rcases this.1 y (Or.inr (by simp)) with ⟨m, hm, hym⟩ | h
              · exact Or.inl ⟨m, by simp [hm], hym⟩
              · exact Or.inr h
            · rcases this.1 y (Or.inl hy) with ⟨m, hm, hym⟩ | h
              · exact Or.inl ⟨m, by simp [hm], hym⟩
              · exact Or.inr h
          · exact Or.inl ⟨_, List.mem_cons_self, by simpa using hy⟩
        · intro y hy
          exact Or.inl ⟨_, List.mem_cons_self, by simpa using hy⟩

theorem v4WdLoop_cover (ms attr : Nat) :
    ∀ (xs w a : List Nlri), (v4WdLoop ms attr xs w a).bailed = false →
      (∀ x, x ∈ xs ∨ x ∈ w → (∃ m ∈ (v4WdLoop ms attr xs w a).msgs, x ∈ m.wd4) ∨ x ∈ (v4WdLoop ms attr xs w a).w) ∧
      (∀ x ∈ a, (∃ m ∈ (v4WdLoop ms attr xs w a).msgs, x ∈ m.ann4) ∨ x ∈ (v4WdLoop ms attr xs w a).a) := by
  intro xs
  induction xs with
  | nil =>
    intro w a _
    simp [v4WdLoop]
  | cons x xs ih =>
    intro w a hb
    unfold v4WdLoop at hb ⊢
    split
    · rename_i hfit
      simp only [hfit, if_true] at hb
      have := ih (w ++ [x]) a hb
      refine ⟨?_, this.2⟩
      intro y hy
      apply this.1 y
      rcases hy with hy | hy
      · simp only [List.mem_cons] at hy
        rcases hy with rfl | hy
        · exact Or.inr (by simp)
        · exact Or.inl hy
      · exact Or.inr (by simp [hy])
    · rename_i hfit
      simp only [hfit, if_false] at hb
      split
      · rename_i h0; simp [h0] at hb
      · rename_i h0
        simp only [h0, if_false] at hb
        have := ih [x] [] hb
        constructor
        · intro y hy
          rcases hy with hy | hy
          · simp only [List.mem_cons] at hy
            rcases hy with rfl | hy
            · rcases this.1 y (Or.inr (by simp)) with ⟨m, hm, hym⟩ | h
              · exact Or.inl ⟨m, by simp [hm], hym⟩
              · exact Or.inr h
            · rcases this.1 y (Or.inl hy) with ⟨m, hm, hym⟩ | h
              · exact Or.inl ⟨m, by simp [hm], hym⟩
              · exact Or.inr h
          · exact Or.inl ⟨_, List.mem_cons_self, by simpa using hy⟩
        · intro y hy
          exact Or.inl ⟨_, List.mem_cons_self, by simpa using hy⟩

theorem v4Final_cover (attr : Nat) (w a : List Nlri) (hw : Pos w) (ha : Pos a) :
    (∀ x ∈ a, ∃ m ∈ v4Final attr w a, x ∈ m.ann4) ∧ (∀ x ∈ w, ∃ m ∈ v4Final attr w a, x ∈ m.wd4) := by
  constructor
  · intro x hx
    have : sz a ≠ 0 := by
      intro h; rw [(sz_eq_zero_of_pos ha).1 h] at hx; simp at hx
    unfold v4Final; simp [this]; exact hx
  · intro x hx
    have : sz w ≠ 0 := by
      intro h; rw [(sz_eq_zero_of_pos hw).1 h] at hx; simp at hx
    unfold v4Final; simp [this]; exact hx

theorem reachGen_cover (maxi fam : Nat) :
    ∀ gs : List ((Nat × Nat) × List Nlri), (reachGen maxi fam gs).2 = false → (∀ g ∈ gs, Pos g.2) →
      ∀ g ∈ gs, ∀ x ∈ g.2, ∃ r ∈ (reachGen maxi fam gs).1, x ∈ r.items := by
  intro gs
  induction gs with
  | nil => intro _ _ g hg; simp at hg
  | cons g0 gs ih =>
    intro he hpos g hg x hx
    obtain ⟨k, xs⟩ := g0
    unfold reachGen at he ⊢
    simp only at he ⊢
    split
    · rename_i h2; simp [h2] at he
    · rename_i h2
      simp only [h2] at he
      have h2' : (splitGroup maxi (5 + k.2) xs []).2 = false := by simpa using h2
      simp only [List.mem_cons] at hg
      rcases hg with rfl | hg
      · have hf := splitGroup_flatten maxi (5 + k.2) xs [] (hpos (k, xs) (by simp)) (by intro y hy; simp at hy) h2'
        have : x ∈ (splitGroup maxi (5 + k.2) xs []).1.flatten := by rw [hf]; simpa using hx
        obtain ⟨it, hit, hxit⟩ := List.mem_flatten.1 this
        exact ⟨_, List.mem_append_left _ (List.mem_map.2 ⟨it, hit, rfl⟩), hxit⟩
      · obtain ⟨r, hr, hxr⟩ := ih he (fun g' hg' => hpos g' (by simp [hg'])) g hg x hx
        exact ⟨r, List.mem_append_right _ hr, hxr⟩

theorem unreachGen_cover (maxi fam : Nat) (xs : List Nlri) (he : (unreachGen maxi fam xs).2 = false) (hp : Pos xs) :
    ∀ x ∈ xs, ∃ u ∈ (unreachGen maxi fam xs).1, x ∈ u.items := by
  intro x hx
  unfold unreachGen at he ⊢
  simp only at he ⊢
  have hf := splitGroup_flatten maxi 3 xs [] hp (by intro y hy; simp at hy) he
  have : x ∈ (splitGroup maxi 3 xs []).1.flatten := by rw [hf]; simpa using hx
  obtain ⟨it, hit, hxit⟩ := List.mem_flatten.1 this
  exact ⟨_, List.mem_map.2 ⟨it, hit, rfl⟩, hxit⟩

theorem feedReach_cover (attr : Nat) :
    ∀ (rs : List Mp) (w a : List Nlri) (p : Option Mp),
      (∀ r, r ∈ rs ∨ p = some r →
        (∃ m ∈ (feedReach attr rs w a p).1, m.reach = some r) ∨ (feedReach attr rs w a p).2.reach = some r) ∧
      (∀ x ∈ a, (∃ m ∈ (feedReach attr rs w a p).1, x ∈ m.ann4) ∨ x ∈ (feedReach attr rs w a p).2.a) ∧
      (∀ x ∈ w, (∃ m ∈ (feedReach attr rs w a p).1, x ∈ m.wd4) ∨ x ∈ (feedReach attr rs w a p).2.w) := by
  intro rs
  induction rs with
  | nil =>
    intro w a p
    refine ⟨?_, ?_, ?_⟩
    · intro r hr; simp at hr; simp [feedReach, hr]
    · intro x hx; simp [feedReach, hx]
    · intro x hx; simp [feedReach, hx]
  | cons r rs ih =>
    intro w a p
    cases p with
    | none =>
      unfold feedReach
      have := ih w a (some r)
      refine ⟨?_, this.2⟩
      intro r' hr'
      apply this.1 r'
      rcases hr' with hr' | hr'
      · simp only [List.mem_cons] at hr'
        rcases hr' with rfl | hr'
        · exact Or.inr rfl
        · exact Or.inl hr'
      · cases hr'
    | some p =>
      unfold feedReach
      have := ih [] [] (some r)
      refine ⟨?_, ?_, ?_⟩
      · intro r' hr'
        rcases hr' with hr' | hr'
        · have h' : r' ∈ rs ∨ some r = some r' := by
            simp only [List.mem_cons] at hr'
            rcases hr' with rfl | hr'
            · exact Or.inr rfl
            · exact Or.inl hr'
          rcases this.1 r' h' with ⟨m, hm, hmr⟩ | h
          · exact Or.inl ⟨m, by simp [hm], hmr⟩
          · exact Or.inr h
        · cases hr'
          exact Or.inl ⟨_, List.mem_cons_self, rfl⟩
      · intro x hx; exact Or.inl ⟨_, List.mem_cons_self, by simpa using hx⟩
      · intro x hx; exact Or.inl ⟨_, List.mem_cons_self, by simpa using hx⟩

theorem feedUnreach_cover (attr : Nat) :
    ∀ (us : List Mp) (w a : List Nlri) (p u : Option Mp),
      (∀ r, r ∈ us ∨ u = some r →
        (∃ m ∈ (feedUnreach attr us w a p u).1, m.unreach = some r) ∨ (feedUnreach attr us w a p u).2.unreach = some r) ∧
      (∀ r, p = some r →
        (∃ m ∈ (feedUnreach attr us w a p u).1, m.reach = some r) ∨ (feedUnreach attr us w a p u).2.reach = some r) ∧
      (∀ x ∈ a, (∃ m ∈ (feedUnreach attr us w a p u).1, x ∈ m.ann4) ∨ x ∈ (feedUnreach attr us w a p u).2.a) ∧
      (∀ x ∈ w, (∃ m ∈ (feedUnreach attr us w a p u).1, x ∈ m.wd4) ∨ x ∈ (feedUnreach attr us w a p u).2.w) := by
  intro us
  induction us with
  | nil =>
    intro w a p u
    refine ⟨?_, ?_, ?_, ?_⟩
    · intro r hr; simp at hr; simp [feedUnreach, hr]
    · intro r hr; simp [feedUnreach, hr]
    · intro x hx; simp [feedUnreach, hx]
    · intro x hx; simp [feedUnreach, hx]
  | cons x us ih =>
    intro w a p u
    cases u with
    | none =>
      unfold feedUnreach
      have := ih w a p (some x)
      refine ⟨?_, this.2⟩
      intro r' hr'
      apply this.1 r'
      rcases hr' with hr' | hr'
      · simp only [List.mem_cons] at hr'
        rcases hr' with rfl | hr'
        · exact Or.inr rfl
        · exact Or.inl hr'
      · cases hr'
    | some u =>
      unfold feedUnreach
      have := ih [] [] none (some x)
      refine ⟨?_, ?_, ?_, ?_⟩
      · intro r' hr'
        rcases hr' with hr' | hr'
        · have h' : r' ∈ us ∨ some x = some r' := by
            simp only [List.mem_cons] at hr'
            rcases hr' with rfl | hr'
            · exact Or.inr rfl
            · exact Or.inl hr'
          rcases this.1 r' h' with ⟨m, hm, hmr⟩ | h
          · exact Or.inl ⟨m, by simp [hm], hmr⟩
          · exact Or.inr h
        · cases hr'
          exact Or.inl ⟨_, List.mem_cons_self, rfl⟩
      · intro r hr; exact Or.inl ⟨_, List.mem_cons_self, by simpa using hr⟩
      · intro y hy; exact Or.inl ⟨_, List.mem_cons_self, by simpa using hy⟩
      · intro y hy; exact Or.inl ⟨_, List.mem_cons_self, by simpa using hy⟩

theorem famFinal_cover (attr : Nat) (s : MpSt) :
    (∀ r, s.reach = some r → ∃ m ∈ famFinal attr s, m.reach = some r) ∧
    (∀ r, s.unreach = some r → ∃ m ∈ famFinal attr s, m.unreach = some r) := by
  constructor
  · intro r hr
    unfold famFinal; simp [hr]
  · intro r hr
    unfold famFinal; simp [hr]

/-- the NLRI `x` is in the MP_REACH_NLRI of some message of `l` -/
def InReach (l : List Msg) (x : Nlri) : Prop := ∃ m ∈ l, ∃ r, m.reach = some r ∧ x ∈ r.items
/-- the NLRI `x` is in the MP_UNREACH_NLRI of some message of `l` -/
def InUnreach (l : List Msg) (x : Nlri) : Prop := ∃ m ∈ l, ∃ u, m.unreach = some u ∧ x ∈ u.items

theorem InReach_mono {l l' : List Msg} (h : ∀ m ∈ l, m ∈ l') {x : Nlri} : InReach l x → InReach l' x := by
  rintro ⟨m, hm, r, hr, hx⟩; exact ⟨m, h m hm, r, hr, hx⟩
theorem InUnreach_mono {l l' : List Msg} (h : ∀ m ∈ l, m ∈ l') {x : Nlri} : InUnreach l x → InUnreach l' x := by
  rintro ⟨m, hm, r, hr, hx⟩; exact ⟨m, h m hm, r, hr, hx⟩

theorem famStep_cover (inclW : Bool) (ms attr fam : Nat) (ra wa w a : List Nlri)
    (he : (famStep inclW ms attr fam ra wa w a).2 = false) (hra : Pos ra) (hwa : Pos wa) :
    (∀ x ∈ ra, InReach (famStep inclW ms attr fam ra wa w a).1 x) ∧
    (inclW = true → ∀ x ∈ wa, InUnreach (famStep inclW ms attr fam ra wa w a).1 x) := by
  unfold famStep at he ⊢
  simp only at he ⊢
  generalize hrg : reachGen (ms - (sz w + sz a)) fam (groupsOf ra) = rg at he ⊢
  have c1 := feedReach_cover attr rg.1 w a none
  generalize hfr : feedReach attr rg.1 w a none = fr at he c1 ⊢
  by_cases h2 : rg.2 = true
  · simp [h2] at he
  · have h2' : rg.2 = false := by simpa using h2
    simp only [h2', Bool.false_eq_true, if_false] at he ⊢
    -- every requested announce is in some attribute the generator yielded
    have inR : ∀ x ∈ ra, ∃ r ∈ rg.1, x ∈ r.items := by
      intro x hx
      obtain ⟨g, hg, hxg, _⟩ := groupsOf_cover hx
      have hp : ∀ g ∈ groupsOf ra, Pos g.2 := fun g hg y hy => hra y (groupsOf_mem hg y hy).1
      have := reachGen_cover (ms - (sz w + sz a)) fam (groupsOf ra) (by rw [hrg]; exact h2') hp g hg x hxg
      rw [hrg] at this; exact this
    by_cases hi : inclW = true
    · simp only [hi, if_true] at he ⊢
      generalize hug : unreachGen (ms - (sz fr.2.w + sz fr.2.a + owire fr.2.reach)) fam wa = ug at he ⊢
      have c2 := feedUnreach_cover attr ug.1 fr.2.w fr.2.a fr.2.reach none
      generalize hfu : feedUnreach attr ug.1 fr.2.w fr.2.a fr.2.reach none = fu at he c2 ⊢
      by_cases h3 : ug.2 = true
      · simp [h3] at he
      · have h3' : ug.2 = false := by simpa using h3
        simp only [h3', Bool.false_eq_true, if_false]
        have cf := famFinal_cover attr fu.2
        constructor
        · intro x hx
          obtain ⟨r, hr, hxr⟩ := inR x hx
          rcases c1.1 r (Or.inl hr) with ⟨m, hm, hmr⟩ | hst
          · exact ⟨m, by simp [hm], r, hmr, hxr⟩
          · rcases c2.2.1 r hst with ⟨m, hm, hmr⟩ | hst2
            · exact ⟨m, by simp [hm], r, hmr, hxr⟩
            · obtain ⟨m, hm, hmr⟩ := cf.1 r hst2
              exact ⟨m, by simp [hm], r, hmr, hxr⟩
        · intro _ x hx
          have := unreachGen_cover (ms - (sz fr.2.w + sz fr.2.a + owire fr.2.reach)) fam wa (by rw [hug]; exact h3') hwa x hx
          rw [hug] at this
          obtain ⟨u, hu, hxu⟩ := this
          rcases c2.1 u (Or.inl hu) with ⟨m, hm, hmu⟩ | hst
          · exact ⟨m, by simp [hm], u, hmu, hxu⟩
          · obtain ⟨m, hm, hmu⟩ := cf.2 u hst
            exact ⟨m, by simp [hm], u, hmu, hxu⟩
    · have hi' : inclW = false := by simpa using hi
      simp only [hi', Bool.false_eq_true, if_false]
      have cf := famFinal_cover attr fr.2
      constructor
      · intro x hx
        obtain ⟨r, hr, hxr⟩ := inR x hx
        rcases c1.1 r (Or.inl hr) with ⟨m, hm, hmr⟩ | hst
        · exact ⟨m, by simp [hm], r, hmr, hxr⟩
        · obtain ⟨m, hm, hmr⟩ := cf.1 r hst
          exact ⟨m, by simp [hm], r, hmr, hxr⟩
      · intro h; cases h

theorem famLoop_cover (inclW : Bool) (ms attr : Nat) (ma mw : List Nlri) (hma : Pos ma) (hmw : Pos mw) :
    ∀ (fs : List Nat) (w a : List Nlri), (famLoop inclW ms attr ma mw fs w a).2 = false →
      ∀ f ∈ fs,
        (∀ x ∈ ma, x.fam = f → InReach (famLoop inclW ms attr ma mw fs w a).1 x) ∧
        (inclW = true → ∀ x ∈ mw, x.fam = f → InUnreach (famLoop inclW ms attr ma mw fs w a).1 x) := by
  intro fs
  induction fs with
  | nil => intro w a _ f hf; simp at hf
  | cons f0 fs ih =>
    intro w a he f hf
    unfold famLoop at he ⊢
    simp only at he ⊢
    generalize hst : famStep inclW ms attr f0 (ma.filter (fun x => x.fam = f0)) (mw.filter (fun x => x.fam = f0)) w a = st at he ⊢
    by_cases h2 : st.2 = true
    · simp [h2] at he
    · have h2' : st.2 = false := by simpa using h2
      simp only [h2', Bool.false_eq_true, if_false] at he ⊢
      have c := famStep_cover inclW ms attr f0 (ma.filter (fun x => x.fam = f0)) (mw.filter (fun x => x.fam = f0)) w a
        (by rw [hst]; exact h2')
        (fun y hy => hma y (List.mem_filter.1 hy).1) (fun y hy => hmw y (List.mem_filter.1 hy).1)
      rw [hst] at c
      simp only [List.mem_cons] at hf
      rcases hf with rfl | hf
      · constructor
        · intro x hx hxf
          exact InReach_mono (fun m hm => List.mem_append_left _ hm) (c.1 x (List.mem_filter.2 ⟨hx, by simpa using hxf⟩))
        · intro hi x hx hxf
          exact InUnreach_mono (fun m hm => List.mem_append_left _ hm) (c.2 hi x (List.mem_filter.2 ⟨hx, by simpa using hxf⟩))
      · have := ih [] [] he f hf
        constructor
        · intro x hx hxf
          exact InReach_mono (fun m hm => List.mem_append_right _ hm) (this.1 x hx hxf)
        · intro hi x hx hxf
          exact InUnreach_mono (fun m hm => List.mem_append_right _ hm) (this.2 hi x hx hxf)

theorem cut_all : ∀ (l : List Msg), (cut l).2 = false → (cut l).1 = l := by
  intro l
  induction l with
  | nil => intro _; rfl
  | cons x xs ih =>
    intro h
    unfold cut at h ⊢
    split
    · rename_i hb; simp [hb] at h
    · rename_i hb
      simp only [hb, if_false] at h
      simp [ih h]

end Exa.Pack
