import ExaModel.Lemmas.PackFits
set_option linter.unusedSimpArgs false
set_option linter.unusedVariables false
/-! Content lemmas of M-Pack: what each section of an emitted message may hold (nothing else, and
    nothing that cannot fit alone), and that nothing that fits is lost (completeness). -/
namespace Exa.Pack

/-- what the four NLRI-carrying places of a message hold -/
structure SecOK (attr : Nat) (A4 W4 : Nlri → Prop) (R U : Mp → Prop) (m : Msg) : Prop where
  a4 : ∀ x ∈ m.ann4, A4 x
  w4 : ∀ x ∈ m.wd4, W4 x
  r : ∀ r, m.reach = some r → R r
  u : ∀ u, m.unreach = some u → U u
  /-- the attribute block is there whenever the message announces something -/
  att : m.attrs = true ∨ (sz m.ann4 = 0 ∧ m.reach = none)
  /-- the message is what `messages` assembles from its parts with the attribute block `attr` (so its length is) -/
  isMk : m = mkMsg attr m.wd4 m.unreach m.attrs m.reach m.ann4

theorem mkMsg_sec {A4 W4 : Nlri → Prop} {R U : Mp → Prop} (attr : Nat) (w : List Nlri) (u : Option Mp)
    (b : Bool) (r : Option Mp) (a : List Nlri)
    (ha : ∀ x ∈ a, A4 x) (hw : ∀ x ∈ w, W4 x) (hr : ∀ r', r = some r' → R r') (hu : ∀ u', u = some u' → U u')
    (hb : b = true ∨ (sz a = 0 ∧ r = none)) :
    SecOK attr A4 W4 R U (mkMsg attr w u b r a) := ⟨ha, hw, hr, hu, hb, rfl⟩

theorem attrs_dec (a : List Nlri) : decide (sz a ≠ 0) = true ∨ (sz a = 0 ∧ (none : Option Mp) = none) := by
  by_cases h : sz a = 0
  · exact Or.inr ⟨h, rfl⟩
  · exact Or.inl (by simpa using h)

section sec
variable {A4 W4 : Nlri → Prop} {R U : Mp → Prop}

/-- `A4` may mention the size test of the loop: only NLRIs with `size ≤ ms` get in. -/
theorem v4AnnLoop_sec (ms attr : Nat) :
    ∀ (xs w a : List Nlri), (∀ x ∈ xs, x.size ≤ ms → A4 x) → (∀ x ∈ a, A4 x) → (∀ x ∈ w, W4 x) →
      (∀ m ∈ (v4AnnLoop ms attr xs w a).msgs, SecOK attr A4 W4 R U m) ∧
      (∀ x ∈ (v4AnnLoop ms attr xs w a).a, A4 x) ∧ (∀ x ∈ (v4AnnLoop ms attr xs w a).w, W4 x) := by
  intro xs
  induction xs with
  | nil => intro w a _ ha hw; simp [v4AnnLoop]; exact ⟨ha, hw⟩
  | cons x xs ih =>
    intro w a hx ha hw
    have hxs : ∀ y ∈ xs, y.size ≤ ms → A4 y := fun y hy => hx y (by simp [hy])
    unfold v4AnnLoop
    split
    · exact ih w a hxs ha hw
    · rename_i hfit
      have hx0 : A4 x := hx x (by simp) (Nat.le_of_not_gt hfit)
      split
      · refine ih w (a ++ [x]) hxs ?_ hw
        intro y hy; rcases List.mem_append.1 hy with h | h
        · exact ha y h
        · simp at h; subst h; exact hx0
      · have := ih [] [x] hxs (by intro y hy; simp at hy; subst hy; exact hx0) (by intro y hy; simp at hy)
        refine ⟨?_, this.2⟩
        intro m hm
        simp only [List.mem_cons] at hm
        rcases hm with rfl | hm
        · exact mkMsg_sec _ _ _ _ _ _ ha hw (by intro _ h; cases h) (by intro _ h; cases h) (Or.inl rfl)
        · exact this.1 m hm

theorem v4WdLoop_sec (ms attr : Nat) :
    ∀ (xs w a : List Nlri), (∀ x ∈ xs, x.size ≤ ms → W4 x) → (∀ x ∈ a, A4 x) → (∀ x ∈ w, W4 x) →
      (∀ m ∈ (v4WdLoop ms attr xs w a).msgs, SecOK attr A4 W4 R U m) ∧
      (∀ x ∈ (v4WdLoop ms attr xs w a).a, A4 x) ∧ (∀ x ∈ (v4WdLoop ms attr xs w a).w, W4 x) := by
  intro xs
  induction xs with
  | nil => intro w a _ ha hw; simp [v4WdLoop]; exact ⟨ha, hw⟩
  | cons x xs ih =>
    intro w a hx ha hw
    have hxs : ∀ y ∈ xs, y.size ≤ ms → W4 y := fun y hy => hx y (by simp [hy])
    unfold v4WdLoop
    split
    · exact ih w a hxs ha hw
    · rename_i hfit
      have hx0 : W4 x := hx x (by simp) (Nat.le_of_not_gt hfit)
      split
      · refine ih (w ++ [x]) a hxs ha ?_
        intro y hy; rcases List.mem_append.1 hy with h | h
        · exact hw y h
        · simp at h; subst h; exact hx0
      · have := ih [x] [] hxs (by intro y hy; simp at hy) (by intro y hy; simp at hy; subst hy; exact hx0)
        refine ⟨?_, this.2⟩
        intro m hm
        simp only [List.mem_cons] at hm
        rcases hm with rfl | hm
        · exact mkMsg_sec _ _ _ _ _ _ ha hw (by intro _ h; cases h) (by intro _ h; cases h) (attrs_dec a)
        · exact this.1 m hm

theorem feedReach_sec (attr : Nat) :
    ∀ (rs : List Mp) (p : Option Mp), (∀ r ∈ rs, R r) → (∀ r, p = some r → R r) →
      (∀ m ∈ (feedReach attr rs p).1, SecOK attr A4 W4 R U m) ∧ (∀ r, (feedReach attr rs p).2 = some r → R r) := by
  intro rs
  induction rs with
  | nil => intro p _ hp; simp [feedReach]; exact hp
  | cons r rs ih =>
    intro p hr hp
    have hrs : ∀ r' ∈ rs, R r' := fun r' h' => hr r' (by simp [h'])
    have hr0 := hr r (by simp)
    cases p with
    | none =>
      unfold feedReach
      exact ih (some r) hrs (by intro r' h; cases h; exact hr0)
    | some p =>
      unfold feedReach
      have := ih (some r) hrs (by intro r' h; cases h; exact hr0)
      refine ⟨?_, this.2⟩
      intro m hm
      simp only [List.mem_cons] at hm
      rcases hm with rfl | hm
      · exact mkMsg_sec _ _ _ _ _ _ (by intro y hy; simp at hy) (by intro y hy; simp at hy) hp
          (by intro _ h; cases h) (Or.inl rfl)
      · exact this.1 m hm

theorem feedUnreach_sec (ms attr : Nat) :
    ∀ (us : List Mp) (p u : Option Mp), (∀ r ∈ us, U r) → (∀ r, p = some r → R r) → (∀ r, u = some r → U r) →
      (∀ m ∈ (feedUnreach ms attr us p u).1, SecOK attr A4 W4 R U m) ∧
      (∀ r, (feedUnreach ms attr us p u).2.reach = some r → R r) ∧
      (∀ r, (feedUnreach ms attr us p u).2.unreach = some r → U r) := by
  intro us
  induction us with
  | nil => intro p u _ hp hu; simp [feedUnreach]; exact ⟨hp, hu⟩
  | cons x us ih =>
    intro p u hr hp hu
    have hrs : ∀ r' ∈ us, U r' := fun r' h' => hr r' (by simp [h'])
    have hr0 := hr x (by simp)
    unfold feedUnreach
    split
    · have := ih none (some x) hrs (by intro r' h; cases h) (by intro r' h; cases h; exact hr0)
      refine ⟨?_, this.2⟩
      intro m hm
      simp only [List.mem_cons] at hm
      rcases hm with rfl | hm
      · exact mkMsg_sec _ _ _ _ _ _ (by intro y hy; simp at hy) (by intro y hy; simp at hy) hp hu (Or.inl rfl)
      · exact this.1 m hm
    · exact ih p (some x) hrs hp (by intro r' h; cases h; exact hr0)

theorem famFinal_sec (attr : Nat) (s : MpSt)
    (hp : ∀ r, s.reach = some r → R r) (hu : ∀ r, s.unreach = some r → U r) :
    ∀ m ∈ famFinal attr s, SecOK attr A4 W4 R U m := by
  intro m hm
  unfold famFinal at hm
  split at hm
  · simp at hm; subst hm
    exact mkMsg_sec _ _ _ _ _ _ (by intro y hy; simp at hy) (by intro y hy; simp at hy) hp hu (Or.inl rfl)
  · simp at hm

theorem famStep_sec (inclW : Bool) (ms attr fam : Nat) (ra wa : List Nlri)
    (hR : ∀ r ∈ reachGen ms fam (groupsOf ra), R r)
    (hU : inclW = true → ∀ u ∈ unreachGen ms fam wa, U u) :
    ∀ m ∈ famStep inclW ms attr fam ra wa, SecOK attr A4 W4 R U m := by
  have f1 := feedReach_sec (A4 := A4) (W4 := W4) (R := R) (U := U) attr
    (reachGen ms fam (groupsOf ra)) none hR (by intro _ h; cases h)
  intro m hm
  unfold famStep at hm
  simp only at hm
  split at hm
  · rename_i hi
    have f2 := feedUnreach_sec (A4 := A4) (W4 := W4) (R := R) (U := U) ms attr
      (unreachGen ms fam wa) (feedReach attr (reachGen ms fam (groupsOf ra)) none).2 none
      (hU hi) f1.2 (by intro _ h; cases h)
    simp only [List.mem_append] at hm
    rcases hm with (hm | hm) | hm
    · exact f1.1 m hm
    · exact f2.1 m hm
    · exact famFinal_sec attr _ f2.2.1 f2.2.2 m hm
  · simp only [List.mem_append] at hm
    rcases hm with hm | hm
    · exact f1.1 m hm
    · exact famFinal_sec attr _ f1.2 (by intro _ h; cases h) m hm

theorem famLoop_sec (inclW : Bool) (ms attr : Nat) (ma mw : List Nlri)
    (hR : ∀ f, ∀ r ∈ reachGen ms f (groupsOf (ma.filter (fun x => x.fam = f))), R r)
    (hU : inclW = true → ∀ f, ∀ u ∈ unreachGen ms f (mw.filter (fun x => x.fam = f)), U u) :
    ∀ (fs : List Nat), ∀ m ∈ famLoop inclW ms attr ma mw fs, SecOK attr A4 W4 R U m := by
  intro fs
  induction fs with
  | nil => intro m hm; simp [famLoop] at hm
  | cons f fs ih =>
    intro m hm
    unfold famLoop at hm
    simp only [List.mem_append] at hm
    rcases hm with hm | hm
    · exact famStep_sec (A4 := A4) (W4 := W4) (R := R) (U := U) inclW ms attr f _ _ (hR f) (fun hi => hU hi f) m hm
    · exact ih m hm

end sec

/-! ### what the generators yield -/

/-- Every MP_REACH attribute is for the family asked, carries ONE next hop, and every NLRI in it
    is a requested one with exactly that next hop that fits alone in `maxi`. -/
theorem reachGen_sec (maxi fam : Nat) (ra : List Nlri) :
    ∀ r ∈ reachGen maxi fam (groupsOf ra),
      r.fam = fam ∧ r.hdr = 5 + r.nhLen ∧ 0 < sz r.items ∧
      ∀ x ∈ r.items, x ∈ ra ∧ x.nh = r.nh ∧ x.nhLen = r.nhLen ∧ attrLen (5 + x.nhLen + x.size) ≤ maxi := by
  have key : ∀ gs : List ((Nat × Nat) × List Nlri), (∀ g ∈ gs, ∀ x ∈ g.2, x ∈ ra ∧ nhKey x = g.1) →
      ∀ r ∈ reachGen maxi fam gs,
        r.fam = fam ∧ r.hdr = 5 + r.nhLen ∧ 0 < sz r.items ∧
        ∀ x ∈ r.items, x ∈ ra ∧ x.nh = r.nh ∧ x.nhLen = r.nhLen ∧ attrLen (5 + x.nhLen + x.size) ≤ maxi := by
    intro gs
    induction gs with
    | nil => intro _ r hr; simp [reachGen] at hr
    | cons g gs ih =>
      intro hg r hr
      obtain ⟨k, xs⟩ := g
      have hgs : ∀ g ∈ gs, ∀ x ∈ g.2, x ∈ ra ∧ nhKey x = g.1 := fun g' hg' => hg g' (by simp [hg'])
      have h0 := hg (k, xs) (by simp)
      unfold reachGen at hr
      simp only [List.mem_append, List.mem_map] at hr
      rcases hr with ⟨it, hit, rfl⟩ | hr
      · refine ⟨rfl, rfl, splitGroup_pos maxi (5 + k.2) xs [] it hit, ?_⟩
        intro x hx
        rcases splitGroup_sub maxi (5 + k.2) xs [] it hit x hx with h | ⟨h, hfit⟩
        · simp at h
        · have := h0 x h
          have e1 : x.nh = k.1 := by have := congrArg Prod.fst this.2; simpa [nhKey] using this
          have e2 : x.nhLen = k.2 := by have := congrArg Prod.snd this.2; simpa [nhKey] using this
          exact ⟨this.1, e1, e2, by rw [e2]; exact hfit⟩
      · exact ih hgs r hr
  exact key (groupsOf ra) (fun g hg => groupsOf_mem hg)

theorem unreachGen_sec (maxi fam : Nat) (wa : List Nlri) :
    ∀ u ∈ unreachGen maxi fam wa,
      u.fam = fam ∧ u.hdr = 3 ∧ 0 < sz u.items ∧ ∀ x ∈ u.items, x ∈ wa ∧ attrLen (3 + x.size) ≤ maxi := by
  intro u hu
  unfold unreachGen at hu
  simp only [List.mem_map] at hu
  obtain ⟨it, hit, rfl⟩ := hu
  refine ⟨rfl, rfl, splitGroup_pos maxi 3 wa [] it hit, ?_⟩
  intro x hx
  rcases splitGroup_sub maxi 3 wa [] it hit x hx with h | h
  · simp at h
  · exact h

/-! ### nothing that fits is lost -/

theorem v4AnnLoop_cover (ms attr : Nat) :
    ∀ (xs w a : List Nlri),
      (∀ x, (x ∈ xs ∧ x.size ≤ ms) ∨ x ∈ a →
        (∃ m ∈ (v4AnnLoop ms attr xs w a).msgs, x ∈ m.ann4) ∨ x ∈ (v4AnnLoop ms attr xs w a).a) ∧
      (∀ x ∈ w, (∃ m ∈ (v4AnnLoop ms attr xs w a).msgs, x ∈ m.wd4) ∨ x ∈ (v4AnnLoop ms attr xs w a).w) := by
  intro xs
  induction xs with
  | nil =>
    intro w a
    simp [v4AnnLoop]
  | cons x xs ih =>
    intro w a
    unfold v4AnnLoop
    split
    · rename_i hbig
      have := ih w a
      refine ⟨?_, this.2⟩
      intro y hy
      apply this.1 y
      rcases hy with ⟨hy, hs⟩ | hy
      · simp only [List.mem_cons] at hy
        rcases hy with rfl | hy
        · omega
        · exact Or.inl ⟨hy, hs⟩
      · exact Or.inr hy
    · split
      · have := ih w (a ++ [x])
        refine ⟨?_, this.2⟩
        intro y hy
        apply this.1 y
        rcases hy with ⟨hy, hs⟩ | hy
        · simp only [List.mem_cons] at hy
          rcases hy with rfl | hy
          · exact Or.inr (by simp)
          · exact Or.inl ⟨hy, hs⟩
        · exact Or.inr (by simp [hy])
      · have := ih [] [x]
        constructor
        · intro y hy
          rcases hy with ⟨hy, hs⟩ | hy
          · have h' : (y ∈ xs ∧ y.size ≤ ms) ∨ y ∈ [x] := by
              simp only [List.mem_cons] at hy
              rcases hy with rfl | hy
              · exact Or.inr (by simp)
              · exact Or.inl ⟨hy, hs⟩
            rcases this.1 y h' with ⟨m, hm, hym⟩ | h
            · exact Or.inl ⟨m, by simp [hm], hym⟩
            · exact Or.inr h
          · exact Or.inl ⟨_, List.mem_cons_self, by simpa using hy⟩
        · intro y hy
          exact Or.inl ⟨_, List.mem_cons_self, by simpa using hy⟩

theorem v4WdLoop_cover (ms attr : Nat) :
    ∀ (xs w a : List Nlri),
      (∀ x, (x ∈ xs ∧ x.size ≤ ms) ∨ x ∈ w →
        (∃ m ∈ (v4WdLoop ms attr xs w a).msgs, x ∈ m.wd4) ∨ x ∈ (v4WdLoop ms attr xs w a).w) ∧
      (∀ x ∈ a, (∃ m ∈ (v4WdLoop ms attr xs w a).msgs, x ∈ m.ann4) ∨ x ∈ (v4WdLoop ms attr xs w a).a) := by
  intro xs
  induction xs with
  | nil =>
    intro w a
    simp [v4WdLoop]
  | cons x xs ih =>
    intro w a
    unfold v4WdLoop
    split
    · rename_i hbig
      have := ih w a
      refine ⟨?_, this.2⟩
      intro y hy
      apply this.1 y
      rcases hy with ⟨hy, hs⟩ | hy
      · simp only [List.mem_cons] at hy
        rcases hy with rfl | hy
        · omega
        · exact Or.inl ⟨hy, hs⟩
      · exact Or.inr hy
    · split
      · have := ih (w ++ [x]) a
        refine ⟨?_, this.2⟩
        intro y hy
        apply this.1 y
        rcases hy with ⟨hy, hs⟩ | hy
        · simp only [List.mem_cons] at hy
          rcases hy with rfl | hy
          · exact Or.inr (by simp)
          · exact Or.inl ⟨hy, hs⟩
        · exact Or.inr (by simp [hy])
      · have := ih [x] []
        constructor
        · intro y hy
          rcases hy with ⟨hy, hs⟩ | hy
          · have h' : (y ∈ xs ∧ y.size ≤ ms) ∨ y ∈ [x] := by
              simp only [List.mem_cons] at hy
              rcases hy with rfl | hy
              · exact Or.inr (by simp)
              · exact Or.inl ⟨hy, hs⟩
            rcases this.1 y h' with ⟨m, hm, hym⟩ | h
            · exact Or.inl ⟨m, by simp [hm], hym⟩
            · exact Or.inr h
          · exact Or.inl ⟨_, List.mem_cons_self, by simpa using hy⟩
        · intro y hy
          exact Or.inl ⟨_, List.mem_cons_self, by simpa using hy⟩

theorem v4Final_cover (attr : Nat) (w a : List Nlri) (hw : Pos w) (ha : Pos a) :
    (∀ x ∈ a, ∃ m ∈ v4Final attr w a, x ∈ m.ann4) ∧ (∀ x ∈ w, ∃ m ∈ v4Final attr w a, x ∈ m.wd4) := by
  constructor
  · intro x hx
    have : sz a ≠ 0 := by
      intro h; rw [(sz_eq_zero_of_pos ha).1 h] at hx; simp at hx
    unfold v4Final; simp [this]; exact hx
  · intro x hx
    have : sz w ≠ 0 := by
      intro h; rw [(sz_eq_zero_of_pos hw).1 h] at hx; simp at hx
    unfold v4Final; simp [this]; exact hx

theorem reachGen_cover (maxi fam : Nat) :
    ∀ gs : List ((Nat × Nat) × List Nlri), (∀ g ∈ gs, Pos g.2) →
      ∀ g ∈ gs, ∀ x ∈ g.2, attrLen (5 + g.1.2 + x.size) ≤ maxi → ∃ r ∈ reachGen maxi fam gs, x ∈ r.items := by
  intro gs
  induction gs with
  | nil => intro _ g hg; simp at hg
  | cons g0 gs ih =>
    intro hpos g hg x hx hfit
    obtain ⟨k, xs⟩ := g0
    unfold reachGen
    simp only [List.mem_cons] at hg
    rcases hg with rfl | hg
    · have hf := splitGroup_flatten maxi (5 + k.2) xs [] (hpos (k, xs) (by simp)) (by intro y hy; simp at hy)
      have : x ∈ (splitGroup maxi (5 + k.2) xs []).flatten := by
        rw [hf]; simp [List.mem_filter]; exact ⟨hx, hfit⟩
      obtain ⟨it, hit, hxit⟩ := List.mem_flatten.1 this
      exact ⟨_, List.mem_append_left _ (List.mem_map.2 ⟨it, hit, rfl⟩), hxit⟩
    · obtain ⟨r, hr, hxr⟩ := ih (fun g' hg' => hpos g' (by simp [hg'])) g hg x hx hfit
      exact ⟨r, List.mem_append_right _ hr, hxr⟩

theorem unreachGen_cover (maxi fam : Nat) (xs : List Nlri) (hp : Pos xs) :
    ∀ x ∈ xs, attrLen (3 + x.size) ≤ maxi → ∃ u ∈ unreachGen maxi fam xs, x ∈ u.items := by
  intro x hx hfit
  unfold unreachGen
  have hf := splitGroup_flatten maxi 3 xs [] hp (by intro y hy; simp at hy)
  have : x ∈ (splitGroup maxi 3 xs []).flatten := by
    rw [hf]; simp [List.mem_filter]; exact ⟨hx, hfit⟩
  obtain ⟨it, hit, hxit⟩ := List.mem_flatten.1 this
  exact ⟨_, List.mem_map.2 ⟨it, hit, rfl⟩, hxit⟩

theorem feedReach_cover (attr : Nat) :
    ∀ (rs : List Mp) (p : Option Mp), ∀ r, r ∈ rs ∨ p = some r →
      (∃ m ∈ (feedReach attr rs p).1, m.reach = some r) ∨ (feedReach attr rs p).2 = some r := by
  intro rs
  induction rs with
  | nil => intro p r hr; simp at hr; simp [feedReach, hr]
  | cons r0 rs ih =>
    intro p r hr
    cases p with
    | none =>
      unfold feedReach
      apply ih (some r0) r
      rcases hr with hr | hr
      · simp only [List.mem_cons] at hr
        rcases hr with rfl | hr
        · exact Or.inr rfl
        · exact Or.inl hr
      · cases hr
    | some p =>
      unfold feedReach
      rcases hr with hr | hr
      · have h' : r ∈ rs ∨ some r0 = some r := by
          simp only [List.mem_cons] at hr
          rcases hr with rfl | hr
          · exact Or.inr rfl
          · exact Or.inl hr
        rcases ih (some r0) r h' with ⟨m, hm, hmr⟩ | h
        · exact Or.inl ⟨m, by simp [hm], hmr⟩
        · exact Or.inr h
      · cases hr
        exact Or.inl ⟨_, List.mem_cons_self, rfl⟩

theorem feedUnreach_cover (ms attr : Nat) :
    ∀ (us : List Mp) (p u : Option Mp),
      (∀ r, r ∈ us ∨ u = some r →
        (∃ m ∈ (feedUnreach ms attr us p u).1, m.unreach = some r) ∨ (feedUnreach ms attr us p u).2.unreach = some r) ∧
      (∀ r, p = some r →
        (∃ m ∈ (feedUnreach ms attr us p u).1, m.reach = some r) ∨ (feedUnreach ms attr us p u).2.reach = some r) := by
  intro us
  induction us with
  | nil =>
    intro p u
    constructor
    · intro r hr; simp at hr; simp [feedUnreach, hr]
    · intro r hr; simp [feedUnreach, hr]
  | cons x us ih =>
    intro p u
    unfold feedUnreach
    split
    · have := ih none (some x)
      constructor
      · intro r hr
        rcases hr with hr | hr
        · have h' : r ∈ us ∨ some x = some r := by
            simp only [List.mem_cons] at hr
            rcases hr with rfl | hr
            · exact Or.inr rfl
            · exact Or.inl hr
          rcases this.1 r h' with ⟨m, hm, hmr⟩ | h
          · exact Or.inl ⟨m, by simp [hm], hmr⟩
          · exact Or.inr h
        · exact Or.inl ⟨_, List.mem_cons_self, by simpa using hr⟩
      · intro r hr; exact Or.inl ⟨_, List.mem_cons_self, by simpa using hr⟩
    · rename_i hc
      have hu : u = none := by
        cases u with
        | none => rfl
        | some v => exact absurd (Or.inl rfl) hc
      subst hu
      have := ih p (some x)
      refine ⟨?_, this.2⟩
      intro r hr
      apply this.1 r
      rcases hr with hr | hr
      · simp only [List.mem_cons] at hr
        rcases hr with rfl | hr
        · exact Or.inr rfl
        · exact Or.inl hr
      · cases hr

theorem famFinal_cover (attr : Nat) (s : MpSt) :
    (∀ r, s.reach = some r → ∃ m ∈ famFinal attr s, m.reach = some r) ∧
    (∀ r, s.unreach = some r → ∃ m ∈ famFinal attr s, m.unreach = some r) := by
  constructor
  · intro r hr
    unfold famFinal; simp [hr]
  · intro r hr
    unfold famFinal; simp [hr]

/-- the NLRI `x` is in the MP_REACH_NLRI of some message of `l` -/
def InReach (l : List Msg) (x : Nlri) : Prop := ∃ m ∈ l, ∃ r, m.reach = some r ∧ x ∈ r.items
/-- the NLRI `x` is in the MP_UNREACH_NLRI of some message of `l` -/
def InUnreach (l : List Msg) (x : Nlri) : Prop := ∃ m ∈ l, ∃ u, m.unreach = some u ∧ x ∈ u.items

theorem InReach_mono {l l' : List Msg} (h : ∀ m ∈ l, m ∈ l') {x : Nlri} : InReach l x → InReach l' x := by
  rintro ⟨m, hm, r, hr, hx⟩; exact ⟨m, h m hm, r, hr, hx⟩
theorem InUnreach_mono {l l' : List Msg} (h : ∀ m ∈ l, m ∈ l') {x : Nlri} : InUnreach l x → InUnreach l' x := by
  rintro ⟨m, hm, r, hr, hx⟩; exact ⟨m, h m hm, r, hr, hx⟩

theorem famStep_cover (inclW : Bool) (ms attr fam : Nat) (ra wa : List Nlri) (hra : Pos ra) (hwa : Pos wa) :
    (∀ x ∈ ra, attrLen (5 + x.nhLen + x.size) ≤ ms → InReach (famStep inclW ms attr fam ra wa) x) ∧
    (inclW = true → ∀ x ∈ wa, attrLen (3 + x.size) ≤ ms → InUnreach (famStep inclW ms attr fam ra wa) x) := by
  have inR : ∀ x ∈ ra, attrLen (5 + x.nhLen + x.size) ≤ ms → ∃ r ∈ reachGen ms fam (groupsOf ra), x ∈ r.items := by
    intro x hx hfit
    obtain ⟨g, hg, hxg, hk⟩ := groupsOf_cover hx
    have hp : ∀ g ∈ groupsOf ra, Pos g.2 := fun g hg y hy => hra y (groupsOf_mem hg y hy).1
    exact reachGen_cover ms fam (groupsOf ra) hp g hg x hxg (by rw [hk]; simpa [nhKey] using hfit)
  have c1 := feedReach_cover attr (reachGen ms fam (groupsOf ra)) none
  unfold famStep
  simp only
  split
  · rename_i hi
    have c2 := feedUnreach_cover ms attr (unreachGen ms fam wa) (feedReach attr (reachGen ms fam (groupsOf ra)) none).2 none
    have cf := famFinal_cover attr
      (feedUnreach ms attr (unreachGen ms fam wa) (feedReach attr (reachGen ms fam (groupsOf ra)) none).2 none).2
    constructor
    · intro x hx hfit
      obtain ⟨r, hr, hxr⟩ := inR x hx hfit
      rcases c1 r (Or.inl hr) with ⟨m, hm, hmr⟩ | hst
      · exact ⟨m, by simp [hm], r, hmr, hxr⟩
      · rcases c2.2 r hst with ⟨m, hm, hmr⟩ | hst2
        · exact ⟨m, by simp [hm], r, hmr, hxr⟩
        · obtain ⟨m, hm, hmr⟩ := cf.1 r hst2
          exact ⟨m, by simp [hm], r, hmr, hxr⟩
    · intro _ x hx hfit
      obtain ⟨u, hu, hxu⟩ := unreachGen_cover ms fam wa hwa x hx hfit
      rcases c2.1 u (Or.inl hu) with ⟨m, hm, hmu⟩ | hst
      · exact ⟨m, by simp [hm], u, hmu, hxu⟩
      · obtain ⟨m, hm, hmu⟩ := cf.2 u hst
        exact ⟨m, by simp [hm], u, hmu, hxu⟩
  · rename_i hi
    constructor
    · intro x hx hfit
      obtain ⟨r, hr, hxr⟩ := inR x hx hfit
      rcases c1 r (Or.inl hr) with ⟨m, hm, hmr⟩ | hst
      · exact ⟨m, by simp [hm], r, hmr, hxr⟩
      · obtain ⟨m, hm, hmr⟩ := (famFinal_cover attr
          { reach := (feedReach attr (reachGen ms fam (groupsOf ra)) none).2, unreach := none }).1 r hst
        exact ⟨m, by simp [hm], r, hmr, hxr⟩
    · intro h; exact absurd h hi

theorem famLoop_cover (inclW : Bool) (ms attr : Nat) (ma mw : List Nlri) (hma : Pos ma) (hmw : Pos mw) :
    ∀ (fs : List Nat), ∀ f ∈ fs,
      (∀ x ∈ ma, x.fam = f → attrLen (5 + x.nhLen + x.size) ≤ ms → InReach (famLoop inclW ms attr ma mw fs) x) ∧
      (inclW = true → ∀ x ∈ mw, x.fam = f → attrLen (3 + x.size) ≤ ms → InUnreach (famLoop inclW ms attr ma mw fs) x) := by
  intro fs
  induction fs with
  | nil => intro f hf; simp at hf
  | cons f0 fs ih =>
    intro f hf
    unfold famLoop
    have c := famStep_cover inclW ms attr f0 (ma.filter (fun x => x.fam = f0)) (mw.filter (fun x => x.fam = f0))
      (fun y hy => hma y (List.mem_filter.1 hy).1) (fun y hy => hmw y (List.mem_filter.1 hy).1)
    simp only [List.mem_cons] at hf
    rcases hf with rfl | hf
    · constructor
      · intro x hx hxf hfit
        exact InReach_mono (fun m hm => List.mem_append_left _ hm)
          (c.1 x (List.mem_filter.2 ⟨hx, by simpa using hxf⟩) hfit)
      · intro hi x hx hxf hfit
        exact InUnreach_mono (fun m hm => List.mem_append_left _ hm)
          (c.2 hi x (List.mem_filter.2 ⟨hx, by simpa using hxf⟩) hfit)
    · have := ih f hf
      constructor
      · intro x hx hxf hfit
        exact InReach_mono (fun m hm => List.mem_append_right _ hm) (this.1 x hx hxf hfit)
      · intro hi x hx hxf hfit
        exact InUnreach_mono (fun m hm => List.mem_append_right _ hm) (this.2 hi x hx hxf hfit)

theorem cut_all : ∀ (l : List Msg), (cut l).2 = false → (cut l).1 = l := by
  intro l
  induction l with
  | nil => intro _; rfl
  | cons x xs ih =>
    intro h
    unfold cut at h ⊢
    split
    · rename_i hb; simp [hb] at h
    · rename_i hb
      simp only [hb, if_false] at h
      simp [ih h]

theorem cut_ok : ∀ (l : List Msg), (∀ m ∈ l, m.len ≤ 65535) → (cut l).2 = false := by
  intro l
  induction l with
  | nil => intro _; rfl
  | cons x xs ih =>
    intro h
    have hx := h x (by simp)
    unfold cut
    have : ¬ x.len > 65535 := by omega
    simp only [this, if_false]
    exact ih (fun m hm => h m (by simp [hm]))

end Exa.Pack
