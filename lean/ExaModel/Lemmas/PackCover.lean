import ExaModel.Lemmas.PackFits
set_option linter.unusedSimpArgs false
set_option linter.unusedVariables false
/-! Content lemmas of M-Pack: what each section of an emitted message may hold (nothing else),
    and that nothing in hand is lost while no exception is raised (completeness). -/
namespace Exa.Pack

/-- what the four NLRI-carrying places of a message hold -/
structure SecOK (A4 W4 : Nlri → Prop) (R U : Mp → Prop) (m : Msg) : Prop where
  a4 : ∀ x ∈ m.ann4, A4 x
  w4 : ∀ x ∈ m.wd4, W4 x
  r : ∀ r, m.reach = some r → R r
  u : ∀ u, m.unreach = some u → U u

theorem mkMsg_sec {A4 W4 : Nlri → Prop} {R U : Mp → Prop} (attr : Nat) (w : List Nlri) (u : Option Mp)
    (b : Bool) (r : Option Mp) (a : List Nlri)
    (ha : ∀ x ∈ a, A4 x) (hw : ∀ x ∈ w, W4 x) (hr : ∀ r', r = some r' → R r') (hu : ∀ u', u = some u' → U u') :
    SecOK A4 W4 R U (mkMsg attr w u b r a) := ⟨ha, hw, hr, hu⟩

theorem feedReach_unreach (attr : Nat) :
    ∀ (rs : List Mp) (w a : List Nlri) (p : Option Mp), (feedReach attr rs w a p).2.unreach = none := by
  intro rs
  induction rs with
  | nil => intro w a p; rfl
  | cons r rs ih =>
    intro w a p
    cases p with
    | none => unfold feedReach; exact ih w a (some r)
    | some p => unfold feedReach; exact ih [] [] (some r)

section sec
variable {A4 W4 : Nlri → Prop} {R U : Mp → Prop}

theorem v4AnnLoop_sec (ms attr : Nat) :
    ∀ (xs w a : List Nlri), (∀ x ∈ xs, A4 x) → (∀ x ∈ a, A4 x) → (∀ x ∈ w, W4 x) →
      (∀ m ∈ (v4AnnLoop ms attr xs w a).msgs, SecOK A4 W4 R U m) ∧
      (∀ x ∈ (v4AnnLoop ms attr xs w a).a, A4 x) ∧ (∀ x ∈ (v4AnnLoop ms attr xs w a).w, W4 x) := by
  intro xs
  induction xs with
  | nil => intro w a _ ha hw; simp [v4AnnLoop]; exact ⟨ha, hw⟩
  | cons x xs ih =>
    intro w a hx ha hw
    have hx0 := hx x (by simp)
    have hxs : ∀ y ∈ xs, A4 y := fun y hy => hx y (by simp [hy])
    unfold v4AnnLoop
    split
    · refine ih w (a ++ [x]) hxs ?_ hw
      intro y hy; rcases List.mem_append.1 hy with h | h
      · exact ha y h
      · simp at h; subst h; exact hx0
    · split
      · simp; exact ⟨ha, hw⟩
      · have := ih [] [x] hxs (by intro y hy; simp at hy; subst hy; exact hx0) (by intro y hy; simp at hy)
        refine ⟨?_, this.2⟩
        intro m hm
        simp only [List.mem_cons] at hm
        rcases hm with rfl | hm
        · exact mkMsg_sec _ _ _ _ _ _ ha hw (by intro _ h; cases h) (by intro _ h; cases h)
        · exact this.1 m hm

theorem v4WdLoop_sec (ms attr : Nat) :
    ∀ (xs w a : List Nlri), (∀ x ∈ xs, W4 x) → (∀ x ∈ a, A4 x) → (∀ x ∈ w, W4 x) →
      (∀ m ∈ (v4WdLoop ms attr xs w a).msgs, SecOK A4 W4 R U m) ∧
      (∀ x ∈ (v4WdLoop ms attr xs w a).a, A4 x) ∧ (∀ x ∈ (v4WdLoop ms attr xs w a).w, W4 x) := by
  intro xs
  induction xs with
  | nil => intro w a _ ha hw; simp [v4WdLoop]; exact ⟨ha, hw⟩
  | cons x xs ih =>
    intro w a hx ha hw
    have hx0 := hx x (by simp)
    have hxs : ∀ y ∈ xs, W4 y := fun y hy => hx y (by simp [hy])
    unfold v4WdLoop
    split
    · refine ih (w ++ [x]) a hxs ha ?_
      intro y hy; rcases List.mem_append.1 hy with h | h
      · exact hw y h
      · simp at h; subst h; exact hx0
    · split
      · simp; exact ⟨ha, hw⟩
      · have := ih [x] [] hxs (by intro y hy; simp at hy) (by intro y hy; simp at hy; subst hy; exact hx0)
        refine ⟨?_, this.2⟩
        intro m hm
        simp only [List.mem_cons] at hm
        rcases hm with rfl | hm
        · exact mkMsg_sec _ _ _ _ _ _ ha hw (by intro _ h; cases h) (by intro _ h; cases h)
        · exact this.1 m hm

theorem feedReach_sec (attr : Nat) :
    ∀ (rs : List Mp) (w a : List Nlri) (p : Option Mp),
      (∀ r ∈ rs, R r) → (∀ r, p = some r → R r) → (∀ x ∈ a, A4 x) → (∀ x ∈ w, W4 x) →
      (∀ m ∈ (feedReach attr rs w a p).1, SecOK A4 W4 R U m) ∧
      (∀ x ∈ (feedReach attr rs w a p).2.a, A4 x) ∧ (∀ x ∈ (feedReach attr rs w a p).2.w, W4 x) ∧
      (∀ r, (feedReach attr rs w a p).2.reach = some r → R r) := by
  intro rs
  induction rs with
  | nil => intro w a p _ hp ha hw; simp [feedReach]; exact ⟨ha, hw, hp⟩
  | cons r rs ih =>
    intro w a p hr hp ha hw
    have hrs : ∀ r' ∈ rs, R r' := fun r' h' => hr r' (by simp [h'])
    have hr0 := hr r (by simp)
    cases p with
    | none =>
      unfold feedReach
      exact ih w a (some r) hrs (by intro r' h; cases h; exact hr0) ha hw
    | some p =>
      unfold feedReach
      have := ih [] [] (some r) hrs (by intro r' h; cases h; exact hr0) (by intro y hy; simp at hy) (by intro y hy; simp at hy)
      refine ⟨?_, this.2⟩
      intro m hm
      simp only [List.mem_cons] at hm
      rcases hm with rfl | hm
      · exact mkMsg_sec _ _ _ _ _ _ ha hw hp (by intro _ h; cases h)
      · exact this.1 m hm

theorem feedUnreach_sec (attr : Nat) :
    ∀ (us : List Mp) (w a : List Nlri) (p u : Option Mp),
      (∀ r ∈ us, U r) → (∀ r, p = some r → R r) → (∀ r, u = some r → U r) → (∀ x ∈ a, A4 x) → (∀ x ∈ w, W4 x) →
      (∀ m ∈ (feedUnreach attr us w a p u).1, SecOK A4 W4 R U m) ∧
      (∀ x ∈ (feedUnreach attr us w a p u).2.a, A4 x) ∧ (∀ x ∈ (feedUnreach attr us w a p u).2.w, W4 x) ∧
      (∀ r, (feedUnreach attr us w a p u).2.reach = some r → R r) ∧
      (∀ r, (feedUnreach attr us w a p u).2.unreach = some r → U r) := by
  intro us
  induction us with
  | nil => intro w a p u _ hp hu ha hw; simp [feedUnreach]; exact ⟨ha, hw, hp, hu⟩
  | cons x us ih =>
    intro w a p u hr hp hu ha hw
    have hrs : ∀ r' ∈ us, U r' := fun r' h' => hr r' (by simp [h'])
    have hr0 := hr x (by simp)
    cases u with
    | none =>
      unfold feedUnreach
      exact ih w a p (some x) hrs hp (by intro r' h; cases h; exact hr0) ha hw
    | some u =>
      unfold feedUnreach
      have := ih [] [] none (some x) hrs (by intro r' h; cases h) (by intro r' h; cases h; exact hr0)
        (by intro y hy; simp at hy) (by intro y hy; simp at hy)
      refine ⟨?_, this.2⟩
      intro m hm
      simp only [List.mem_cons] at hm
      rcases hm with rfl | hm
      · exact mkMsg_sec _ _ _ _ _ _ ha hw hp hu
      · exact this.1 m hm

theorem famFinal_sec (attr : Nat) (s : MpSt) (ha : ∀ x ∈ s.a, A4 x) (hw : ∀ x ∈ s.w, W4 x)
    (hp : ∀ r, s.reach = some r → R r) (hu : ∀ r, s.unreach = some r → U r) :
    ∀ m ∈ famFinal attr s, SecOK A4 W4 R U m := by
  intro m hm
  unfold famFinal at hm
  split at hm
  · simp at hm; subst hm; exact mkMsg_sec _ _ _ _ _ _ ha hw hp hu
  · simp at hm

theorem famStep_sec (inclW : Bool) (ms attr fam : Nat) (ra wa w a : List Nlri)
    (hR : ∀ maxi, ∀ r ∈ (reachGen maxi fam (groupsOf ra)).1, R r)
    (hU : inclW = true → ∀ maxi, ∀ u ∈ (unreachGen maxi fam wa).1, U u)
    (ha : ∀ x ∈ a, A4 x) (hw : ∀ x ∈ w, W4 x) :
    ∀ m ∈ (famStep inclW ms attr fam ra wa w a).1, SecOK A4 W4 R U m := by
  have f1 := feedReach_sec (A4 := A4) (W4 := W4) (R := R) (U := U) attr
    (reachGen (ms - (sz w + sz a)) fam (groupsOf ra)).1 w a none (hR _) (by intro _ h; cases h) ha hw
  intro m hm
  unfold famStep at hm
  simp only at hm
  split at hm
  · exact f1.1 m hm
  · split at hm
    · rename_i hi
      generalize feedReach attr (reachGen (ms - (sz w + sz a)) fam (groupsOf ra)).1 w a none = fr at f1 hm
      obtain ⟨f1a, f1b, f1c, f1d⟩ := f1
      have f2 := feedUnreach_sec (A4 := A4) (W4 := W4) (R := R) (U := U) attr
        (unreachGen (ms - (sz fr.2.w + sz fr.2.a + owire fr.2.reach)) fam wa).1 fr.2.w fr.2.a fr.2.reach none
        (hU hi _) f1d (by intro _ h; cases h) f1b f1c
      split at hm
      · simp only [List.mem_append] at hm
        rcases hm with hm | hm
        · exact f1a m hm
        · exact f2.1 m hm
      · simp only [List.mem_append] at hm
        rcases hm with (hm | hm) | hm
        · exact f1a m hm
        · exact f2.1 m hm
        · exact famFinal_sec attr _ f2.2.1 f2.2.2.1 f2.2.2.2.1 f2.2.2.2.2 m hm
    · simp only [List.mem_append] at hm
      rcases hm with hm | hm
      · exact f1.1 m hm
      · refine famFinal_sec attr _ f1.2.1 f1.2.2.1 f1.2.2.2 ?_ m hm
        intro r hr
        rw [feedReach_unreach] at hr; cases hr

end sec
end Exa.Pack
