import ExaModel.Model.Frame
import ExaModel.Generated.PyFrame
set_option linter.unusedSimpArgs false
set_option linter.unusedVariables false
/-!
# M-Frame — the header decision of the model is the translated Python

`Generated/PyFrame.lean` is the decision `Connection.reader_async` takes on a complete header, translated
statement by statement on every run (`harness/pylite.py`, `harness/tables/pyframe.py`).  Its inputs are the four
things the source reads off the header (`header[:16] != Message.MARKER`, `header[18]`, the big-endian length,
`validator(length)`); here they are instantiated with what M-Frame reads off the same 19 octets, the validator with
the generated per-type table, and the result is compared with `Frame.hdrErr`.
-/
namespace Exa.Frame
open Exa Exa.Generated Exa.Generated.PyFrame Exa.Generated.MsgLength

/-- the model's verdict on a header as a result of the translated method -/
def liftHdr (max : Nat) (bs : Bytes) : PyRes ConnectionSt (Int × Int) :=
  match hdrErr max bs with
  | some (c, s) => .raise c s
  | none => .ret ((hdrLen bs : Int), (hdrTy bs : Int)) ⟨max⟩

/-- **The header decision, for every header and every maximum.** -/
theorem py_header_eq_model (max : Nat) (bs : Bytes) :
    Connection.reader_async_header ⟨max⟩ (decide (bs.take 16 ≠ marker)) (hdrTy bs) (hdrLen bs)
      (lengthValid (hdrTy bs) (hdrLen bs)) = liftHdr max bs := by
  unfold Connection.reader_async_header liftHdr hdrErr headerLen notificationType
  have c1 : ((hdrLen bs : Int) < 19) ↔ hdrLen bs < 19 := by omega
  have c2 : ((hdrLen bs : Int) > (max : Int)) ↔ hdrLen bs > max := by omega
  have c3 : ((hdrTy bs : Int) = 3) ↔ hdrTy bs = 3 := by omega
  cases hV : lengthValid (hdrTy bs) (hdrLen bs) <;> by_cases hm : bs.take 16 = marker <;>
    by_cases h1 : hdrLen bs < 19 <;> by_cases h2 : hdrLen bs > max <;> by_cases h3 : hdrTy bs = 3 <;>
    simp [hV, hm, h1, h2, h3, c1, c2, c3]

/-- The reader goes on to read `length - 19` octets of body exactly when the model has no header error. -/
theorem py_header_reads_body_iff (max : Nat) (bs : Bytes) :
    (∃ v st, Connection.reader_async_header ⟨max⟩ (decide (bs.take 16 ≠ marker)) (hdrTy bs) (hdrLen bs)
      (lengthValid (hdrTy bs) (hdrLen bs)) = .ret v st) ↔ hdrErr max bs = none := by
  rw [py_header_eq_model]
  unfold liftHdr
  cases hdrErr max bs with
  | none => simp
  | some cs => simp

end Exa.Frame
