import ExaModel.Model.Pack
set_option linter.unusedSimpArgs false
set_option linter.unusedVariables false
/-! Basic facts about M-Pack: sizes, `attrLen`, `splitGroup`. -/
namespace Exa.Pack

@[simp] theorem sz_nil : sz [] = 0 := rfl
@[simp] theorem sz_cons (x : Nlri) (xs : List Nlri) : sz (x :: xs) = x.size + sz xs := rfl

@[simp] theorem sz_append (a b : List Nlri) : sz (a ++ b) = sz a + sz b := by
  induction a with
  | nil => simp
  | cons x xs ih => simp [ih]; omega

theorem sz_single (x : Nlri) : sz [x] = x.size := by simp

/-- every item has a positive packed length (a prefix is at least its mask byte) -/
def Pos (l : List Nlri) : Prop := ∀ x ∈ l, 0 < x.size

instance (l : List Nlri) : Decidable (Pos l) := by unfold Pos; exact inferInstance

theorem sz_eq_zero_of_pos {l : List Nlri} (h : Pos l) : sz l = 0 ↔ l = [] := by
  cases l with
  | nil => simp
  | cons x xs =>
    have := h x (by simp)
    simp; omega

theorem attrLen_mono {a b : Nat} (h : a ≤ b) : attrLen a ≤ attrLen b := by
  unfold attrLen; split <;> split <;> omega

theorem attrLen_pos (n : Nat) : 3 ≤ attrLen n := by
  unfold attrLen; split <;> omega

theorem attrLen_ge (n : Nat) : n + 3 ≤ attrLen n := by
  unfold attrLen; split <;> omega

theorem wire_eq (a : Mp) : a.wire = attrLen a.payload := by
  unfold Mp.wire attrLen hdrLen; split <;> omega

end Exa.Pack

namespace Exa.Pack

/-! ### messages -/

def oitems : Option Mp → List Nlri
  | none => []
  | some r => r.items

@[simp] theorem oitems_none : oitems none = [] := rfl
@[simp] theorem oitems_some (r : Mp) : oitems (some r) = r.items := rfl
@[simp] theorem owire_none : owire none = 0 := rfl
@[simp] theorem owire_some (r : Mp) : owire (some r) = r.wire := rfl

theorem annsOf_eq (m : Msg) : m.annsOf = m.ann4 ++ oitems m.reach := by
  unfold Msg.annsOf; cases m.reach <;> rfl
theorem wdsOf_eq (m : Msg) : m.wdsOf = m.wd4 ++ oitems m.unreach := by
  unfold Msg.wdsOf; cases m.unreach <;> rfl

@[simp] theorem mkMsg_wd4 (attr w u b r a) : (mkMsg attr w u b r a).wd4 = w := rfl
@[simp] theorem mkMsg_ann4 (attr w u b r a) : (mkMsg attr w u b r a).ann4 = a := rfl
@[simp] theorem mkMsg_reach (attr w u b r a) : (mkMsg attr w u b r a).reach = r := rfl
@[simp] theorem mkMsg_unreach (attr w u b r a) : (mkMsg attr w u b r a).unreach = u := rfl
@[simp] theorem mkMsg_attrs (attr w u b r a) : (mkMsg attr w u b r a).attrs = b := rfl

theorem mkMsg_len_le (attr w u b r a) :
    (mkMsg attr w u b r a).len ≤ 23 + attr + (sz w + sz a + owire u + owire r) := by
  unfold mkMsg; simp only; split <;> omega

theorem mkMsg_len_attr (attr w u r a) :
    (mkMsg attr w u true r a).len = 23 + attr + (sz w + sz a + owire u + owire r) := by
  unfold mkMsg; simp only [if_true]; omega

/-! ### `splitGroup` -/

/-- Every attribute yielded fits `B` when every NLRI fits alone and `maxi ≤ B`. -/
theorem splitGroup_bound (maxi hdr B : Nat) (hB : maxi ≤ B) :
    ∀ (xs cur : List Nlri), (∀ x ∈ xs, attrLen (hdr + x.size) ≤ B) →
      (sz cur = 0 ∨ attrLen (hdr + sz cur) ≤ B) →
      ∀ it ∈ (splitGroup maxi hdr xs cur).1, attrLen (hdr + sz it) ≤ B := by
  intro xs
  induction xs with
  | nil =>
    intro cur _ hc it hit
    unfold splitGroup at hit
    split at hit
    · simp at hit; subst hit
      rcases hc with h | h
      · omega
      · exact h
    · simp at hit
  | cons x xs ih =>
    intro cur hx hc it hit
    unfold splitGroup at hit
    have hx0 := hx x (by simp)
    have hxs : ∀ y ∈ xs, attrLen (hdr + y.size) ≤ B := fun y hy => hx y (by simp [hy])
    split at hit
    · split at hit
      · simp at hit
      · rename_i hne
        simp only [List.mem_cons] at hit
        rcases hit with h | h
        · subst h
          rcases hc with h0 | h0
          · exact absurd h0 hne
          · exact h0
        · exact ih [x] hxs (Or.inr (by simpa using hx0)) it h
    · rename_i hfit
      refine ih (cur ++ [x]) hxs (Or.inr ?_) it hit
      simp only [sz_append, sz_cons, sz_nil]
      have : attrLen (hdr + sz cur + x.size) ≤ maxi := Nat.le_of_not_gt hfit
      have e : hdr + (sz cur + (x.size + 0)) = hdr + sz cur + x.size := by omega
      rw [e]; omega

/-- The FIRST attribute yielded for a group fits `maxi` (it was built from a checked start). -/
theorem splitGroup_head (maxi hdr : Nat) :
    ∀ (xs cur : List Nlri), (sz cur = 0 ∨ attrLen (hdr + sz cur) ≤ maxi) →
      ∀ it, (splitGroup maxi hdr xs cur).1.head? = some it → attrLen (hdr + sz it) ≤ maxi := by
  intro xs
  induction xs with
  | nil =>
    intro cur hc it hit
    unfold splitGroup at hit
    split at hit
    · simp at hit; subst hit
      rcases hc with h | h
      · omega
      · exact h
    · simp at hit
  | cons x xs ih =>
    intro cur hc it hit
    unfold splitGroup at hit
    split at hit
    · split at hit
      · simp at hit
      · rename_i hne
        simp at hit; subst hit
        rcases hc with h0 | h0
        · exact absurd h0 hne
        · exact h0
    · rename_i hfit
      refine ih (cur ++ [x]) (Or.inr ?_) it hit
      simp only [sz_append, sz_cons, sz_nil]
      have : attrLen (hdr + sz cur + x.size) ≤ maxi := Nat.le_of_not_gt hfit
      have e : hdr + (sz cur + (x.size + 0)) = hdr + sz cur + x.size := by omega
      rw [e]; exact this

/-- Nothing is invented: every NLRI of a yielded attribute was in hand. -/
theorem splitGroup_sub (maxi hdr : Nat) :
    ∀ (xs cur : List Nlri), ∀ it ∈ (splitGroup maxi hdr xs cur).1, ∀ y ∈ it, y ∈ cur ∨ y ∈ xs := by
  intro xs
  induction xs with
  | nil =>
    intro cur it hit y hy
    unfold splitGroup at hit
    split at hit
    · simp at hit; subst hit; exact Or.inl hy
    · simp at hit
  | cons x xs ih =>
    intro cur it hit y hy
    unfold splitGroup at hit
    split at hit
    · split at hit
      · simp at hit
      · simp only [List.mem_cons] at hit
        rcases hit with h | h
        · subst h; exact Or.inl hy
        · rcases ih [x] it h y hy with h1 | h1
          · simp at h1; subst h1; exact Or.inr (by simp)
          · exact Or.inr (by simp [h1])
    · rcases ih (cur ++ [x]) it hit y hy with h1 | h1
      · simp at h1
        rcases h1 with h1 | h1
        · exact Or.inl h1
        · subst h1; exact Or.inr (by simp)
      · exact Or.inr (by simp [h1])

/-- Nothing is lost when no `RuntimeError` is raised: the yielded attributes, concatenated, are
    exactly what was in hand followed by the input, in order. -/
theorem splitGroup_flatten (maxi hdr : Nat) :
    ∀ (xs cur : List Nlri), Pos xs → Pos cur → (splitGroup maxi hdr xs cur).2 = false →
      (splitGroup maxi hdr xs cur).1.flatten = cur ++ xs := by
  intro xs
  induction xs with
  | nil =>
    intro cur _ hc _
    unfold splitGroup
    split
    · simp
    · rename_i h
      have : sz cur = 0 := by omega
      have := (sz_eq_zero_of_pos hc).1 this
      subst this; simp
  | cons x xs ih =>
    intro cur hx hc he
    have hxs : Pos xs := fun y hy => hx y (by simp [hy])
    have hx1 : Pos [x] := by intro y hy; simp at hy; subst hy; exact hx y (by simp)
    unfold splitGroup at he ⊢
    split
    · rename_i hbig
      simp only [hbig, if_true] at he
      split
      · rename_i h0; simp [h0] at he
      · rename_i h0
        simp only [h0, if_false] at he
        simp only [List.flatten_cons]
        rw [ih [x] hxs hx1 he]; simp
    · rename_i hfit
      simp only [hfit, if_false] at he
      have hc' : Pos (cur ++ [x]) := by
        intro y hy
        rcases List.mem_append.1 hy with h | h
        · exact hc y h
        · exact hx1 y h
      rw [ih (cur ++ [x]) hxs hc' he]; simp

end Exa.Pack
