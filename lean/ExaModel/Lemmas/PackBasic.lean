import ExaModel.Model.Pack
set_option linter.unusedSimpArgs false
set_option linter.unusedVariables false
/-! Basic facts about M-Pack: sizes, `attrLen`, `splitGroup`. -/
namespace Exa.Pack

@[simp] theorem sz_nil : sz [] = 0 := rfl
@[simp] theorem sz_cons (x : Nlri) (xs : List Nlri) : sz (x :: xs) = x.size + sz xs := rfl

@[simp] theorem sz_append (a b : List Nlri) : sz (a ++ b) = sz a + sz b := by
  induction a with
  | nil => simp
  | cons x xs ih => simp [ih]; omega

theorem sz_single (x : Nlri) : sz [x] = x.size := by simp

/-- every item has a positive packed length (a prefix is at least its mask byte) -/
def Pos (l : List Nlri) : Prop := ∀ x ∈ l, 0 < x.size

instance (l : List Nlri) : Decidable (Pos l) := by unfold Pos; exact inferInstance

theorem sz_eq_zero_of_pos {l : List Nlri} (h : Pos l) : sz l = 0 ↔ l = [] := by
  cases l with
  | nil => simp
  | cons x xs =>
    have := h x (by simp)
    simp; omega

theorem attrLen_mono {a b : Nat} (h : a ≤ b) : attrLen a ≤ attrLen b := by
  unfold attrLen; split <;> split <;> omega

theorem attrLen_pos (n : Nat) : 3 ≤ attrLen n := by
  unfold attrLen; split <;> omega

theorem attrLen_ge (n : Nat) : n + 3 ≤ attrLen n := by
  unfold attrLen; split <;> omega

theorem wire_eq (a : Mp) : a.wire = attrLen a.payload := by
  unfold Mp.wire attrLen hdrLen; split <;> omega

end Exa.Pack

namespace Exa.Pack

/-! ### messages -/

def oitems : Option Mp → List Nlri
  | none => []
  | some r => r.items

@[simp] theorem oitems_none : oitems none = [] := rfl
@[simp] theorem oitems_some (r : Mp) : oitems (some r) = r.items := rfl
@[simp] theorem owire_none : owire none = 0 := rfl
@[simp] theorem owire_some (r : Mp) : owire (some r) = r.wire := rfl

theorem annsOf_eq (m : Msg) : m.annsOf = m.ann4 ++ oitems m.reach := by
  unfold Msg.annsOf; cases m.reach <;> rfl
theorem wdsOf_eq (m : Msg) : m.wdsOf = m.wd4 ++ oitems m.unreach := by
  unfold Msg.wdsOf; cases m.unreach <;> rfl

@[simp] theorem mkMsg_wd4 (attr w u b r a) : (mkMsg attr w u b r a).wd4 = w := rfl
@[simp] theorem mkMsg_ann4 (attr w u b r a) : (mkMsg attr w u b r a).ann4 = a := rfl
@[simp] theorem mkMsg_reach (attr w u b r a) : (mkMsg attr w u b r a).reach = r := rfl
@[simp] theorem mkMsg_unreach (attr w u b r a) : (mkMsg attr w u b r a).unreach = u := rfl
@[simp] theorem mkMsg_attrs (attr w u b r a) : (mkMsg attr w u b r a).attrs = b := rfl

theorem mkMsg_len_le (attr w u b r a) :
    (mkMsg attr w u b r a).len ≤ 23 + attr + (sz w + sz a + owire u + owire r) := by
  unfold mkMsg; simp only; split <;> omega

theorem mkMsg_len_attr (attr w u r a) :
    (mkMsg attr w u true r a).len = 23 + attr + (sz w + sz a + owire u + owire r) := by
  unfold mkMsg; simp only [if_true]; omega

/-! ### `splitGroup` -/

/-- Every attribute yielded fits `maxi`. -/
theorem splitGroup_bound (maxi hdr : Nat) :
    ∀ (xs cur : List Nlri), (sz cur = 0 ∨ attrLen (hdr + sz cur) ≤ maxi) →
      ∀ it ∈ splitGroup maxi hdr xs cur, attrLen (hdr + sz it) ≤ maxi := by
  intro xs
  induction xs with
  | nil =>
    intro cur hc it hit
    unfold splitGroup at hit
    split at hit
    · simp at hit; subst hit
      rcases hc with h | h
      · omega
      · exact h
    · simp at hit
  | cons x xs ih =>
    intro cur hc it hit
    unfold splitGroup at hit
    split at hit
    · exact ih cur hc it hit
    · rename_i hx
      have hx' : attrLen (hdr + x.size) ≤ maxi := Nat.le_of_not_gt hx
      split at hit
      · rename_i hbig
        simp only [List.mem_cons] at hit
        rcases hit with h | h
        · subst h
          rcases hc with h0 | h0
          · exfalso
            have e : hdr + sz it + x.size = hdr + x.size := by omega
            rw [e] at hbig; omega
          · exact h0
        · exact ih [x] (Or.inr (by simpa using hx')) it h
      · rename_i hfit
        refine ih (cur ++ [x]) (Or.inr ?_) it hit
        simp only [sz_append, sz_cons, sz_nil]
        have : attrLen (hdr + sz cur + x.size) ≤ maxi := Nat.le_of_not_gt hfit
        have e : hdr + (sz cur + (x.size + 0)) = hdr + sz cur + x.size := by omega
        rw [e]; exact this

/-- An attribute that is yielded holds at least one byte of NLRI. -/
theorem splitGroup_pos (maxi hdr : Nat) :
    ∀ (xs cur : List Nlri), ∀ it ∈ splitGroup maxi hdr xs cur, 0 < sz it := by
  intro xs
  induction xs with
  | nil =>
    intro cur it hit
    unfold splitGroup at hit
    split at hit
    · simp at hit; subst hit; assumption
    · simp at hit
  | cons x xs ih =>
    intro cur it hit
    unfold splitGroup at hit
    split at hit
    · exact ih cur it hit
    · rename_i hx
      split at hit
      · rename_i hbig
        simp only [List.mem_cons] at hit
        rcases hit with h | h
        · subst h
          refine Nat.pos_of_ne_zero (fun h0 => ?_)
          have e : hdr + sz it + x.size = hdr + x.size := by omega
          rw [e] at hbig; omega
        · exact ih [x] it h
      · exact ih (cur ++ [x]) it hit

/-- Nothing is invented, and an NLRI that cannot fit alone is in no attribute. -/
theorem splitGroup_sub (maxi hdr : Nat) :
    ∀ (xs cur : List Nlri), ∀ it ∈ splitGroup maxi hdr xs cur, ∀ y ∈ it,
      y ∈ cur ∨ (y ∈ xs ∧ attrLen (hdr + y.size) ≤ maxi) := by
  intro xs
  induction xs with
  | nil =>
    intro cur it hit y hy
    unfold splitGroup at hit
    split at hit
    · simp at hit; subst hit; exact Or.inl hy
    · simp at hit
  | cons x xs ih =>
    intro cur it hit y hy
    unfold splitGroup at hit
    split at hit
    · rcases ih cur it hit y hy with h1 | h1
      · exact Or.inl h1
      · exact Or.inr ⟨by simp [h1.1], h1.2⟩
    · rename_i hx
      have hx' : attrLen (hdr + x.size) ≤ maxi := Nat.le_of_not_gt hx
      split at hit
      · simp only [List.mem_cons] at hit
        rcases hit with h | h
        · subst h; exact Or.inl hy
        · rcases ih [x] it h y hy with h1 | h1
          · simp at h1; subst h1; exact Or.inr ⟨by simp, hx'⟩
          · exact Or.inr ⟨by simp [h1.1], h1.2⟩
      · rcases ih (cur ++ [x]) it hit y hy with h1 | h1
        · simp at h1
          rcases h1 with h1 | h1
          · exact Or.inl h1
          · subst h1; exact Or.inr ⟨by simp, hx'⟩
        · exact Or.inr ⟨by simp [h1.1], h1.2⟩

/-- Nothing that fits is lost: the yielded attributes, concatenated, are exactly what was in hand
    followed by the NLRIs of the input that fit alone, in order. -/
theorem splitGroup_flatten (maxi hdr : Nat) :
    ∀ (xs cur : List Nlri), Pos xs → Pos cur →
      (splitGroup maxi hdr xs cur).flatten
        = cur ++ xs.filter (fun x => decide (attrLen (hdr + x.size) ≤ maxi)) := by
  intro xs
  induction xs with
  | nil =>
    intro cur _ hc
    unfold splitGroup
    split
    · simp
    · rename_i h
      have : sz cur = 0 := by omega
      have := (sz_eq_zero_of_pos hc).1 this
      subst this; simp
  | cons x xs ih =>
    intro cur hx hc
    have hxs : Pos xs := fun y hy => hx y (by simp [hy])
    have hx1 : Pos [x] := by intro y hy; simp at hy; subst hy; exact hx y (by simp)
    unfold splitGroup
    split
    · rename_i hbig
      have : ¬ attrLen (hdr + x.size) ≤ maxi := by omega
      rw [ih cur hxs hc]; simp [List.filter_cons, this]
    · rename_i hfit
      have hle : attrLen (hdr + x.size) ≤ maxi := Nat.le_of_not_gt hfit
      split
      · simp only [List.flatten_cons]
        rw [ih [x] hxs hx1]; simp [List.filter_cons, hle]
      · have hc' : Pos (cur ++ [x]) := by
          intro y hy
          rcases List.mem_append.1 hy with h | h
          · exact hc y h
          · exact hx1 y h
        rw [ih (cur ++ [x]) hxs hc']; simp [List.filter_cons, hle]

end Exa.Pack
