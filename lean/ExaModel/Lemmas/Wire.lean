import ExaModel.Model.Wire
import ExaModel.Lemmas.WireTlv
set_option linter.unusedSimpArgs false
/-! The UPDATE frame of M-Wire: what `decodeRaw` does on `len ++ W ++ len ++ A ++ N`, and conversely
    that every accepted byte string has that shape. -/
namespace Exa.Wire
open Exa

instance instDecEqExcept {ε α : Type} [DecidableEq ε] [DecidableEq α] : DecidableEq (Except ε α) := fun a b =>
  match a, b with
  | .ok x, .ok y => if h : x = y then isTrue (by rw [h]) else isFalse (by intro e; cases e; exact h rfl)
  | .error x, .error y => if h : x = y then isTrue (by rw [h]) else isFalse (by intro e; cases e; exact h rfl)
  | .ok _, .error _ => isFalse (by intro e; cases e)
  | .error _, .ok _ => isFalse (by intro e; cases e)

/-- `decodeRaw` on a body assembled from three byte fields. -/
theorem decodeRaw_frame (p : Params) (W A N : Bytes) (hW : W.length < 65536) (hA : A.length < 65536) :
    decodeRaw p (be16 W.length ++ (W ++ (be16 A.length ++ (A ++ N)))) =
      match decNlris 1 1 (p.ap 1 1) true W.length W with
      | .error e => .error e
      | .ok w =>
        match decAttrs p A.length A with
        | .error e => .error e
        | .ok as =>
          match decNlris 1 1 (p.ap 1 1) false N.length N with
          | .error e => .error e
          | .ok n => .ok { withdrawn := w, attrs := as, nlri := n } := by
  unfold decodeRaw
  have e1 : rd16 (be16 W.length ++ (W ++ (be16 A.length ++ (A ++ N)))) = W.length := rd16_be16 _ hW _
  have d2 : (be16 W.length ++ (W ++ (be16 A.length ++ (A ++ N)))).drop 2 = W ++ (be16 A.length ++ (A ++ N)) :=
    drop2_be16 _ _
  have dW : (be16 W.length ++ (W ++ (be16 A.length ++ (A ++ N)))).drop (2 + W.length) =
      be16 A.length ++ (A ++ N) := by
    rw [← List.drop_drop, d2]; exact List.drop_left' rfl
  have d4 : (be16 W.length ++ (W ++ (be16 A.length ++ (A ++ N)))).drop (4 + W.length) = A ++ N := by
    have : 4 + W.length = 2 + W.length + 2 := by omega
    rw [this, ← List.drop_drop, dW, drop2_be16]
  have el : (be16 W.length ++ (W ++ (be16 A.length ++ (A ++ N)))).length = 4 + W.length + A.length + N.length := by
    simp; omega
  rw [el, e1, dW, rd16_be16 _ hA, d2, d4]
  have c1 : ¬ 4 + W.length + A.length + N.length < 4 := by omega
  have c2 : ¬ 4 + W.length + A.length + N.length < 4 + W.length := by omega
  have c3 : ¬ 4 + W.length + A.length + N.length < 4 + W.length + A.length := by omega
  rw [if_neg c1, if_neg c2, if_neg c3]
  have dN : (be16 W.length ++ (W ++ (be16 A.length ++ (A ++ N)))).drop (4 + W.length + A.length) = N := by
    have : 4 + W.length + A.length = 4 + W.length + A.length := rfl
    rw [← List.drop_drop, d4]; exact List.drop_left' rfl
  rw [dN, List.take_left' rfl, List.take_left' rfl]
  rfl

/-- The reference decoder undoes the reference encoder on the syntax level. -/
theorem decodeRaw_encodeUpdate (p : Params) (u : UpdateSem)
    (hw : ∀ n ∈ u.withdrawn, WFNlri 1 1 (p.ap 1 1) true n) (ha : ∀ a ∈ u.attrs, WFAttr p a)
    (hn : ∀ n ∈ u.nlri, WFNlri 1 1 (p.ap 1 1) false n)
    (hW : (encNlris 1 true u.withdrawn).length < 65536) (hA : (encAttrs p u.attrs).length < 65536) :
    decodeRaw p (encodeUpdate p u) = .ok u := by
  unfold encodeUpdate
  rw [decodeRaw_frame p _ _ _ hW hA,
    decNlris_encNlris 1 1 (p.ap 1 1) true u.withdrawn hw _ (Nat.le_refl _),
    decAttrs_encAttrs p u.attrs ha _ (Nat.le_refl _),
    decNlris_encNlris 1 1 (p.ap 1 1) false u.nlri hn _ (Nat.le_refl _)]

theorem be16_rd16_take (bs : Bytes) (h : WFBytes bs) (hl : 2 ≤ bs.length) : be16 (rd16 bs) = bs.take 2 := by
  match bs, hl with
  | a :: b :: t, _ =>
    have ha : a < 256 := h a (by simp)
    have hb : b < 256 := h b (by simp)
    simp [be16, rd16]; omega

/-- **Frame accounting**: an accepted body is exactly
    `len(W) ++ W ++ len(A) ++ A ++ N`, and the three walks ran over exactly `W`, `A` and `N`. -/
theorem decodeRaw_split (p : Params) (bs : Bytes) (hwf : WFBytes bs) (u : UpdateSem)
    (h : decodeRaw p bs = .ok u) :
    ∃ W A N, bs = be16 W.length ++ (W ++ (be16 A.length ++ (A ++ N))) ∧
      decNlris 1 1 (p.ap 1 1) true W.length W = .ok u.withdrawn ∧
      decAttrs p A.length A = .ok u.attrs ∧
      decNlris 1 1 (p.ap 1 1) false N.length N = .ok u.nlri := by
  unfold decodeRaw at h
  by_cases c1 : bs.length < 4
  · simp [c1] at h
  by_cases c2 : bs.length < 4 + rd16 bs
  · simp [c1, c2] at h
  by_cases c3 : bs.length < 4 + rd16 bs + rd16 (bs.drop (2 + rd16 bs))
  · simp [c1, c2, c3] at h
  rw [if_neg c1, if_neg c2, if_neg c3] at h
  refine ⟨(bs.drop 2).take (rd16 bs), (bs.drop (4 + rd16 bs)).take (rd16 (bs.drop (2 + rd16 bs))),
    bs.drop (4 + rd16 bs + rd16 (bs.drop (2 + rd16 bs))), ?_, ?_⟩
  · have lW : ((bs.drop 2).take (rd16 bs)).length = rd16 bs := by
      rw [List.length_take, List.length_drop]; omega
    have lA : ((bs.drop (4 + rd16 bs)).take (rd16 (bs.drop (2 + rd16 bs)))).length =
        rd16 (bs.drop (2 + rd16 bs)) := by
      rw [List.length_take, List.length_drop]; omega
    rw [lW, lA]
    have hA2 : be16 (rd16 (bs.drop (2 + rd16 bs))) = (bs.drop (2 + rd16 bs)).take 2 :=
      be16_rd16_take _ (wfBytes_drop _ hwf) (by rw [List.length_drop]; omega)
    rw [be16_rd16_take bs hwf (by omega), hA2]
    -- reassemble: take 2 ++ take w (drop 2) ++ take 2 (drop (2+w)) ++ take a (drop (4+w)) ++ drop (4+w+a)
    have s1 : bs.drop (4 + rd16 bs) = (bs.drop (2 + rd16 bs)).drop 2 := by
      rw [List.drop_drop]; congr 1; omega
    have s2 : bs.drop (4 + rd16 bs + rd16 (bs.drop (2 + rd16 bs))) =
        (bs.drop (4 + rd16 bs)).drop (rd16 (bs.drop (2 + rd16 bs))) := by
      rw [List.drop_drop]
    have s3 : bs.drop (2 + rd16 bs) = (bs.drop 2).drop (rd16 bs) := by
      rw [List.drop_drop]
    rw [s2, List.take_append_drop, s1, List.take_append_drop, s3, List.take_append_drop, List.take_append_drop]
  · have lW : ((bs.drop 2).take (rd16 bs)).length = rd16 bs := by
      rw [List.length_take, List.length_drop]; omega
    have lA : ((bs.drop (4 + rd16 bs)).take (rd16 (bs.drop (2 + rd16 bs)))).length =
        rd16 (bs.drop (2 + rd16 bs)) := by
      rw [List.length_take, List.length_drop]; omega
    rw [lW, lA]
    cases hw : decNlris 1 1 (p.ap 1 1) true (rd16 bs) ((bs.drop 2).take (rd16 bs)) with
    | error e => rw [hw] at h; simp at h
    | ok w =>
      rw [hw] at h
      simp only at h
      cases ha : decAttrs p (rd16 (bs.drop (2 + rd16 bs)))
          ((bs.drop (4 + rd16 bs)).take (rd16 (bs.drop (2 + rd16 bs)))) with
      | error e => rw [ha] at h; simp at h
      | ok as =>
        rw [ha] at h
        simp only at h
        cases hn : decNlris 1 1 (p.ap 1 1) false (bs.drop (4 + rd16 bs + rd16 (bs.drop (2 + rd16 bs)))).length
            (bs.drop (4 + rd16 bs + rd16 (bs.drop (2 + rd16 bs)))) with
        | error e => rw [hn] at h; simp at h
        | ok n =>
          rw [hn] at h
          simp only [Except.ok.injEq] at h
          subst h
          exact ⟨rfl, rfl, rfl⟩

theorem mem_mpAnnounces (as : List Attr) (x : Nat × Nat × Bytes × Nlri) :
    x ∈ mpAnnounces as ↔
      ∃ a ∈ as, ∃ afi safi nh ns, a.val = .mpReach afi safi nh ns ∧ ∃ n ∈ ns, x = (afi, safi, nhAddr safi nh, n) := by
  induction as with
  | nil => simp [mpAnnounces]
  | cons a t ih =>
    simp only [mpAnnounces, List.mem_append, ih, List.mem_cons, exists_eq_or_imp]
    apply or_congr_left
    cases hv : a.val <;> simp
    case mpReach afi safi nh ns =>
      constructor
      · rintro ⟨n, hn, rfl⟩; exact ⟨afi, safi, nh, ns, ⟨rfl, rfl, rfl, rfl⟩, n, hn, rfl⟩
      · rintro ⟨_, _, _, _, ⟨rfl, rfl, rfl, rfl⟩, n, hn, rfl⟩; exact ⟨n, hn, rfl⟩

theorem mem_mpWithdraws (as : List Attr) (x : Nat × Nat × Nlri) :
    x ∈ mpWithdraws as ↔
      ∃ a ∈ as, ∃ afi safi ns, a.val = .mpUnreach afi safi ns ∧ ∃ n ∈ ns, x = (afi, safi, eraseLabels n) := by
  induction as with
  | nil => simp [mpWithdraws]
  | cons a t ih =>
    simp only [mpWithdraws, List.mem_append, ih, List.mem_cons, exists_eq_or_imp]
    apply or_congr_left
    cases hv : a.val <;> simp
    case mpUnreach afi safi ns =>
      constructor
      · rintro ⟨n, hn, rfl⟩; exact ⟨afi, safi, ns, ⟨rfl, rfl, rfl⟩, n, hn, rfl⟩
      · rintro ⟨_, _, _, ⟨rfl, rfl, rfl⟩, n, hn, rfl⟩; exact ⟨n, hn, rfl⟩

end Exa.Wire
