import ExaModel.Lemmas.FlowExa
set_option linter.unusedSimpArgs false
/-! `exaPack` on good text = the RFC reference encoding of the rule the text denotes. -/
namespace Exa.Flow

theorem encodeFlow_append (a b : Rule) : encodeFlow (a ++ b) = encodeFlow a ++ encodeFlow b := by
  simp [encodeFlow, encodeRaw]

theorem encodeFlow_nil : encodeFlow [] = [] := rfl

theorem encodeFlow_single (c : Comp) : encodeFlow [c] = encodeRawComp (toRaw c) := by
  simp [encodeFlow, encodeRaw]

theorem exaPackIds_good (sizeOf : Nat → Nat) (v6 : Bool) (kept : List TComp) (ids : List Nat)
    (h : ∀ id ∈ ids, exaPackGroup sizeOf id (kept.filter (fun c => c.ty == id))
      = .ok (encodeFlow (compOfGroup v6 id (kept.filter (fun c => c.ty == id))))) :
    exaPackIds sizeOf kept ids
      = .ok (encodeFlow (ids.flatMap (fun id => compOfGroup v6 id (kept.filter (fun c => c.ty == id))))) := by
  induction ids with
  | nil => rfl
  | cons id ids ih =>
    have h1 := h id List.mem_cons_self
    have h2 := ih (fun x hx => h x (List.mem_cons_of_mem _ hx))
    simp only [exaPackIds, h1, h2, List.flatMap_cons, encodeFlow_append]

/-- the sizes table agrees with the RFC widths wherever a good value needs it -/
def SizesOk (sizeOf : Nat → Nat) : Prop :=
  ∀ id, 3 ≤ id → id ≤ 13 → (sizeOf id = 1 ∨ sizeOf id = 2 ∨ sizeOf id = 4) ∧ maxWidth id ≤ sizeOf id

theorem goodPair_mono (m m' : Nat) (numeric : Bool) (p : Nat × Int) (hle : m ≤ m') (h : GoodPair m numeric p) :
    GoodPair m' numeric p := by
  obtain ⟨v, a, b, c, d, e⟩ := h
  exact ⟨v, a, Nat.lt_of_lt_of_le b (Nat.pow_le_pow_right (by omega) hle), c, d, e⟩

theorem group_mem (text : List TComp) (id : Nat) (c : TComp) (h : c ∈ text.filter (fun c => c.ty == id)) :
    c ∈ text ∧ c.ty = id := by
  have := List.mem_filter.1 h
  exact ⟨this.1, by simpa using this.2⟩

theorem termsOf_eq (numeric : Bool) (ps : List (Nat × Int)) (h : ∀ p ∈ ps.take 1, p.1 / 64 % 2 = 0) :
    termsOf numeric ps = ps.map (fun p => termOfFlags numeric false p.1 p.2) := by
  cases ps with
  | nil => rfl
  | cons p rest =>
    obtain ⟨f, v⟩ := p
    have h0 : f / 64 % 2 = 0 := h (f, v) (by simp)
    simp only [termsOf, List.map_cons]
    congr 1
    simp [termOfFlags, opAnd, h0]

theorem exaPackGroup_good (sizeOf : Nat → Nat) (v6 : Bool) (text : List TComp) (id : Nat)
    (hs : SizesOk sizeOf) (hg : GoodText v6 text) (hid : id ∈ allIds) :
    exaPackGroup sizeOf id (text.filter (fun c => c.ty == id))
      = .ok (encodeFlow (compOfGroup v6 id (text.filter (fun c => c.ty == id)))) := by
  generalize hgr : text.filter (fun c => c.ty == id) = g
  have hmem : ∀ c ∈ g, GoodTComp v6 c ∧ c.ty = id := by
    intro c hc; rw [← hgr] at hc
    obtain ⟨h1, h2⟩ := group_mem text id c hc
    exact ⟨hg.comps c h1, h2⟩
  cases g with
  | nil => simp [exaPackGroup, compOfGroup, encodeFlow_nil]
  | cons c cs =>
    by_cases hp : id = 1 ∨ id = 2
    · -- a prefix group: exactly one prefix
      have hone := hg.onePrefix id hp
      rw [hgr] at hone
      have hcs : cs = [] := by
        cases cs with
        | nil => rfl
        | cons _ _ => simp at hone
      subst hcs
      obtain ⟨hgc, hty⟩ := hmem c List.mem_cons_self
      simp only [exaPackGroup, List.isEmpty_cons, Bool.false_eq_true, if_false, hp, if_true]
      cases c with
      | prefix4 ty addr len =>
        obtain ⟨_, _, hlen, haddr, hmod⟩ := hgc
        have hb := prefix_bytes 4 len addr (by omega) (by simpa using haddr) (by simpa using hmod)
        simp only [exaPackPrefixes, exaPackPrefix, compOfGroup, encodeFlow_single, toRaw, encodeRawComp,
          List.append_nil, patOf, Nat.sub_zero]
        have hc : cidrSize len = patBytes len := by simp only [cidrSize, patBytes]; rw [if_pos (by omega)]
        rw [hc, hb]
      | prefix6 ty addr len off =>
        obtain ⟨_, _, hlen, hoff, haddr, hmod⟩ := hgc
        subst hoff
        have hb := prefix_bytes 16 len addr (by omega) (by simpa using haddr) (by simpa using hmod)
        have hc : cidrSize len = patBytes len := by simp only [cidrSize, patBytes]; rw [if_pos (by omega)]
        simp only [exaPackPrefixes, exaPackPrefix, compOfGroup, encodeFlow_single, toRaw, encodeRawComp,
          List.append_nil, patOf, Nat.sub_zero]
        rw [if_neg (by omega), if_neg (by omega)]
        simp only [hc, hb, List.append_nil]
      | op ty f v =>
        have := good_op_ty v6 ty f v hgc
        simp only [TComp.ty] at hty
        omega
    · -- an operator group
      have hallop : ∀ x ∈ c :: cs, ∃ f v, x = TComp.op id f v := by
        intro x hx
        obtain ⟨hgx, htx⟩ := hmem x hx
        cases x with
        | op ty f v => simp only [TComp.ty] at htx; subst htx; exact ⟨f, v, rfl⟩
        | prefix4 ty _ _ =>
          obtain ⟨_, h12, _⟩ := hgx; simp only [TComp.ty] at htx; omega
        | prefix6 ty _ _ _ =>
          obtain ⟨_, h12, _⟩ := hgx; simp only [TComp.ty] at htx; omega
      obtain ⟨f0, v0, hc0⟩ := hallop c List.mem_cons_self
      subst hc0
      obtain ⟨hgc, _⟩ := hmem _ List.mem_cons_self
      obtain ⟨hk, _⟩ := hgc
      have hrange := kind_ids v6 id hk
      obtain ⟨hsz, hmw⟩ := hs id hrange.1 hrange.2
      have hpairs : ∀ p ∈ opPairs (TComp.op id f0 v0 :: cs), GoodPair (sizeOf id) (kindOf v6 id == some .numeric) p := by
        intro p hp'
        obtain ⟨ty, hm⟩ := mem_opPairs _ p hp'
        obtain ⟨hgx, htx⟩ := hmem _ hm
        simp only [TComp.ty] at htx; subst htx
        exact goodPair_mono _ _ _ _ hmw hgx.2
      have hfirst := hg.firstAnd id
      rw [hgr] at hfirst
      simp only [exaPackGroup, List.isEmpty_cons, Bool.false_eq_true, if_false, hp]
      rw [exaPackOps_good (sizeOf id) (kindOf v6 id == some .numeric) _ hsz hpairs]
      simp only [compOfGroup, encodeFlow_single, toRaw, encodeRawComp]
      rw [termsOf_eq _ _ hfirst]

theorem exaEncodeLength_eq (n : Nat) (h : n ≤ 4095) : exaEncodeLength n = .ok (lengthPrefix n) := by
  simp only [exaEncodeLength, lengthPrefix]
  split
  · rfl
  · simp [h]

/-- **ExaBGP's encoder on good text.** -/
theorem exaPack_good (sizeOf : Nat → Nat) (v6 hint6 : Bool) (rd : Option Bytes) (text : List TComp)
    (hs : SizesOk sizeOf) (hg : GoodText v6 text)
    (hlen : (nlriPayload ⟨rd, toRule v6 text⟩).length ≤ 4095) :
    exaPack sizeOf hint6 rd text = .ok (exaFamily hint6 text, encodeNlri ⟨rd, toRule v6 text⟩) := by
  have hids := exaPackIds_good sizeOf v6 text allIds (fun id hid => exaPackGroup_good sizeOf v6 text id hs hg hid)
  have hpay : nlriPayload ⟨rd, toRule v6 text⟩ = rd.getD [] ++ encodeFlow (toRule v6 text) := rfl
  have hlen' := exaEncodeLength_eq _ hlen
  rw [hpay] at hlen'
  simp only [toRule] at hlen'
  simp only [exaPack, hids, hlen', encodeNlri, hpay, toRule]
  rfl

end Exa.Flow
