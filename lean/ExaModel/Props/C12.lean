import ExaModel.Lemmas.TimerSched
import ExaModel.Lemmas.TimerPy
set_option linter.unusedSimpArgs false
set_option linter.unusedVariables false
/-!
# C12 — Hold and keepalive timers (part a: the timer arithmetic)

Statement (properties.jsonl): with a negotiated hold time H greater than zero, a session on
which nothing is received for more than H seconds is closed with NOTIFICATION 4/0, and it is
never closed for a silence shorter than H; while established ExaBGP never lets more than H/3
seconds (plus scheduling granularity) pass between KEEPALIVEs.  With H equal to zero no periodic
KEEPALIVE is sent once established and the hold timer never fires; a peer OPEN that does not
arrive within the configured wait ends the attempt with 5/1.  Quantifier: all arrival-time
sequences of peer messages and all negotiated hold times (0, 3..65535).

Model: `Exa.Timer` (M-Timer), integer milliseconds, the code's `int(time.time())` = `t / 1000`.
`Sess.init H tR tS` = `ReceiveTimer(…, H, 4, 0)` created when the clock reads `tR`, `KA`/`SendTimer`
when it reads `tS`.  `Sess.run s ps` executes the iterations `ps` of the `while` loop of
`Peer._main` (`recv_timer.check_ka(message)` then `send_ka.send_if_needed()`); each `Poll` has
the clock reading `t` and the kind of message handed over (`real` = a BGP message, otherwise
`_NOP`).  A session ends at the first `Notify`; `closed = some (t, code, subcode)`.

"Silence" is measured at the timers: from the clock reading `lastRealMs tR pre` at which the last
real message was handed to `check_ka` (or the `ReceiveTimer` was created) to the reading at the
poll in question.  `δ` is the scheduling granularity: `Gaps δ prev ps` says every iteration starts
at most `δ` ms after the previous one.  Every bound below is the exact one the code satisfies:
the examples at the end show each is attained.

What is proved here is the arithmetic, for every schedule and every H.  That `_main` does come
round every `δ` (it blocks in `sock_sendall` under back-pressure), the OPENCONFIRM phase
(`_read_ka` has no timer — finding F18) and the wall clock being monotone are runtime matters,
covered by the session rig (part b), not by these theorems.

Tie to the source at proof level (not only by sampled correspondence): `Generated/PyTimer.lean` is
`exabgp/bgp/timer.py` (`check_ka_timer`, `check_ka`, `need_ka`) translated statement by statement
on every run by `harness/pylite.py`; `timer_py_*` below prove, for every state, message kind and
clock value, that the translated methods compute exactly what the model's `Recv.checkKaTimer`,
`Recv.checkKa`, `Send.needKa` compute.  Editing a comparison, an operand or the order of the
statements in timer.py therefore breaks one of these obligations directly.
-/
namespace Exa.Props.C12
open Exa Exa.Timer Exa.Generated

/-- `keepaliveOf` of the model is `HoldTime.keepalive()` of the code on every hold time a session can have: the
    method (a float division truncated by `int`) was run on all 65 536 of them on this run and never differs from the
    floor division. -/
theorem keepalive_is_floor_division : TimerTable.keepaliveDeviations = [] := by decide

/-- **The constants are the RFC 4271 ones** (generated table = specification): hold time 0 or ≥ 3,
    16 bit; keepalive = hold / 3; hold timer expiry is 4/0; OPEN wait expiry is 5/1; KEEPALIVE is
    type 4; exactly `_NOP`, `_AWAKE`, `_DONE` are not real messages. -/
theorem timer_table_spec :
    TimerTable.holdMin = 3 ∧ TimerTable.holdMax = 65535 ∧ TimerTable.kaDivisor = 3 ∧
    TimerTable.keepaliveType = 4 ∧ TimerTable.holdNotify = (4, 0) ∧
    TimerTable.openWaitNotify = (5, 1) ∧ TimerTable.h0KaNotify = (2, 6) ∧
    TimerTable.kaNetNotify = (4, 0) ∧
    TimerTable.openConfirmHasTimer = true ∧ TimerTable.openConfirmNotify = (4, 0) ∧
    TimerTable.openConfirmUnexpected = (5, 2) ∧
    TimerTable.kinds.map (fun r => (r.2.1, r.2.2 == 0)) =
      [(252, false), (254, false), (253, false), (1, true), (2, true), (3, true), (4, true), (5, true), (6, true)] := by
  decide

/-- **The model is the code** (1/3): `ReceiveTimer.check_ka_timer`, translated from /repo on this run,
    equals the model's `Recv.checkKaTimer` on every input. -/
theorem timer_py_check_ka_timer (r : Recv) (nowMs : Nat) (k : Kind) :
    PyTimer.ReceiveTimer.check_ka_timer r.toPy k.type k.sched (secs nowMs) = liftRecvTimer (r.checkKaTimer nowMs k) :=
  py_check_ka_timer_eq_model r nowMs k

/-- **The model is the code** (2/3): `ReceiveTimer.check_ka` = `Recv.checkKa`. -/
theorem timer_py_check_ka (r : Recv) (nowMs : Nat) (k : Kind) :
    PyTimer.ReceiveTimer.check_ka r.toPy k.type k.sched (secs nowMs) = liftRecvKa (r.checkKa nowMs k) :=
  py_check_ka_eq_model r nowMs k

/-- **The model is the code** (3/3): `SendTimer.need_ka` = `Send.needKa`. -/
theorem timer_py_need_ka (s : Send) (nowMs : Nat) :
    PyTimer.SendTimer.need_ka s.toPy (secs nowMs) = liftSend (s.needKa nowMs) :=
  py_need_ka_eq_model s nowMs

/-- ... so the one-step facts hold of the translated code itself: `check_ka_timer` raises exactly
    `Notify(self.code, self.subcode)`, only with a hold time other than 0, and only when strictly
    more than `holdtime` whole seconds separate the clock from `last_read` — which a real message
    handed in at this very call has just reset (so such a call never raises).  `hpos`: a hold time is
    an unsigned 16-bit field. -/
theorem py_raise_only_after_hold (st : PyTimer.ReceiveTimerSt) (ty sched now c sb : Int) (hpos : 0 ≤ st.holdtime)
    (h : PyTimer.ReceiveTimer.check_ka_timer st ty sched now = .raise c sb) :
    st.holdtime ≠ 0 ∧ c = st.code ∧ sb = st.subcode ∧ sched ≠ 0 ∧ now - st.last_read > st.holdtime := by
  unfold PyTimer.ReceiveTimer.check_ka_timer at h
  simp only [] at h
  split at h
  · simp at h
  · rename_i h0
    split at h
    · -- a real message: last_read := now, elapsed = 0
      rename_i hs
      split at h
      · rename_i he
        simp at he h0 hs
        omega
      · split at h <;> simp at h
    · rename_i hs
      split at h
      · rename_i he
        simp at he h0 hs
        simp at h
        exact ⟨h0, h.1.symm, h.2.symm, hs, by omega⟩
      · split at h <;> simp at h

/-- **Never closed early.** For every H > 0 and every schedule: if the session ended, it ended at
    a poll that carried no real message, with NOTIFICATION 4/0, and strictly more than `H·1000` ms
    after the last real message was handed to the hold timer.  (No truncation slack is lost on
    this side: `⌊t/1000⌋ − ⌊L/1000⌋ > H` implies `t − L > H·1000`.) -/
theorem no_early_expiry (H tR tS : Nat) (hH : H ≠ 0) (ps : List Poll) (t c sb : Nat)
    (hc : ((Sess.init H tR tS).run ps).1.closed = some (t, c, sb)) :
    ∃ pre p post, ps = pre ++ p :: post ∧ p.t = t ∧ c = 4 ∧ sb = 0 ∧ p.kind.real = false ∧
      lastRealMs tR pre + H * 1000 < t := by
  obtain ⟨pre, p, post, h1, h2, h3, h4, h5, h6, _⟩ :=
    closed_split H hH ps _ tR tS (inv_init H tR tS) t c sb hc
  exact ⟨pre, p, post, h1, h2, h3, h4, h5, h6⟩

/-- **Closed once silent for H+1 seconds.** For every H > 0: if at the instant `τ` the silence has
    lasted `(H+1)·1000 + δ` ms or more and the loop has polled within the last `δ` ms, the
    session has ended.  (The extra second is the truncation slack of `int(time.time())`:
    the timer fires when `⌊t/1000⌋ − ⌊L/1000⌋ ≥ H + 1`.) -/
theorem expiry_by (H tR tS δ τ : Nat) (hH : H ≠ 0) (ps : List Poll) (hne : ps ≠ [])
    (hpoll : τ ≤ lastPollMs tS ps + δ)
    (hsil : lastRealMs tR ps + (H + 1) * 1000 + δ ≤ τ) :
    ((Sess.init H tR tS).run ps).1.closed ≠ none :=
  expired_of_silence H hH ps _ tR tS tS (inv_init H tR tS) hne (by omega)

/-- **The window in which the hold timer fires.** When the loop comes round at least every `δ` ms
    (and started less than H+1 s after the `ReceiveTimer` was created), the NOTIFICATION 4/0 is
    raised at a silence `s` with `H·1000 < s < (H+1)·1000 + δ`. -/
theorem hold_expiry_window (H tR tS δ : Nat) (hH : H ≠ 0) (ps : List Poll) (t c sb : Nat)
    (hstart : tS < tR + (H + 1) * 1000) (hg : Gaps δ tS ps)
    (hc : ((Sess.init H tR tS).run ps).1.closed = some (t, c, sb)) :
    ∃ pre p post, ps = pre ++ p :: post ∧ p.t = t ∧ (c, sb) = (4, 0) ∧
      lastRealMs tR pre + H * 1000 < t ∧ t < lastRealMs tR pre + (H + 1) * 1000 + δ := by
  obtain ⟨pre, p, post, h1, h2, h3, h4, h5, h6, h7⟩ :=
    closed_split H hH ps _ tR tS (inv_init H tR tS) t c sb hc
  have ho := open_silence_lt H hH pre _ tR tS tS (inv_init H tR tS) hstart h7
  have hgp := gaps_split δ tS pre p post (h1 ▸ hg)
  refine ⟨pre, p, post, h1, h2, by rw [h3, h4], h6, ?_⟩
  omega

/-- **H = 0: the hold timer never fires.** With hold time zero, whatever arrives and however long
    nothing does, the session is never ended with 4/0; the only NOTIFICATION the timers raise is
    2/6, and that exactly when a second KEEPALIVE has been received (`check_ka`: "Negotiated
    holdtime was zero, it was invalid to send us a keepalive"). In particular a peer that sends
    no KEEPALIVE is never closed. -/
theorem h0_never_fires (tR tS : Nat) (ps : List Poll) :
    (∀ t c sb, ((Sess.init 0 tR tS).run ps).1.closed = some (t, c, sb) → (c, sb) = (2, 6)) ∧
    (((Sess.init 0 tR tS).run ps).1.closed ≠ none ↔ 2 ≤ kaCount ps) := by
  obtain ⟨i, hs⟩ := inv0_init tR tS
  obtain ⟨_, h2, h3⟩ := h0_run ps _ i
  refine ⟨?_, ?_⟩
  · intro t c sb h
    obtain ⟨a, b⟩ := h2 t c sb h
    rw [a, b]
  · rw [h3, hs]; simp

/-- **H = 0: no periodic KEEPALIVE.** With hold time zero no iteration of the loop sends a
    KEEPALIVE, on any schedule. -/
theorem h0_no_periodic_ka (tR tS : Nat) (ps : List Poll) :
    kaTimes ((Sess.init 0 tR tS).run ps).2 = [] :=
  (h0_run ps _ (inv0_init tR tS).1).1

/-- `HoldTime.keepalive()` never exceeds a third of the hold time, and is at least one second for
    every hold time that can be negotiated. -/
theorem ka_interval_le (H : Nat) : keepaliveOf H * 3 ≤ H ∧ (3 ≤ H → 1 ≤ keepaliveOf H) := by
  rw [keepaliveOf_eq]; omega

/-- **KEEPALIVE gap.** For every H ≥ 3 and every schedule whose iterations are at most `δ` ms
    apart: the first KEEPALIVE follows the creation of the `SendTimer`, and every later one its
    predecessor, by less than `⌊H/3⌋·1000 + δ` ms — whatever the peer sends, bursts included.
    (This is tighter than the `⌊H/3⌋·1000 + 1000 + δ` of the design: `last_sent` is truncated
    downwards, so truncation can only make the next KEEPALIVE earlier.) -/
theorem ka_gap (H tR tS δ : Nat) (hH : 3 ≤ H) (ps : List Poll) (hg : Gaps δ tS ps) :
    AdjLt (keepaliveOf H * 1000 + δ) (tS :: kaTimes ((Sess.init H tR tS).run ps).2) := by
  rw [keepaliveOf_eq]
  exact ka_adj_lt H δ hH ps _ tR tS tS (inv_init H tR tS) (by omega) hg

/-- **As long as the session is open the last KEEPALIVE is fresh.** At every poll of an open
    session the last KEEPALIVE (or the creation of the `SendTimer`) is less than `⌊H/3⌋·1000` ms
    old — so between polls never more than `⌊H/3⌋·1000 + δ`. -/
theorem ka_fresh (H tR tS : Nat) (hH : 3 ≤ H) (ps : List Poll)
    (ho : ((Sess.init H tR tS).run ps).1.closed = none) :
    lastPollMs tS ps < lastOr tS (kaTimes ((Sess.init H tR tS).run ps).2) + keepaliveOf H * 1000 := by
  rw [keepaliveOf_eq]
  exact Timer.ka_fresh H hH ps _ tR tS tS (inv_init H tR tS) (by omega) ho

/-- **No KEEPALIVE storm** (what the code forces in the other direction): successive KEEPALIVEs
    are more than `(⌊H/3⌋ − 1)·1000` ms apart, on every schedule. -/
theorem ka_min_gap (H tR tS : Nat) (hH : 3 ≤ H) (ps : List Poll) :
    AdjGt ((keepaliveOf H - 1) * 1000) (tS :: kaTimes ((Sess.init H tR tS).run ps).2) := by
  rw [keepaliveOf_eq]
  exact ka_adj_gt H hH ps _ tR tS (inv_init H tR tS)

/-- **Outbound traffic changes nothing for the timers.** Whatever ExaBGP writes itself between two
    iterations (UPDATEs of the initial table or of the API, End-of-RIB, ROUTE-REFRESH,
    OPERATIONAL) — in any number, at any time — the session ends exactly as without it and
    exactly the same KEEPALIVEs are sent at the same times: an UPDATE sent never replaces a
    KEEPALIVE.  (In the model this is by definition of `Sess.step`; that the real
    `Protocol.send` / `new_update_generator` / `new_eor` / `new_refresh` paths leave both timers
    and the decisions of `KA.send_if_needed` untouched is what the correspondence runs check.) -/
theorem outbound_traffic_is_invisible (H tR tS : Nat) (evs : List Ev) :
    ((Sess.init H tR tS).runEv evs).1 = ((Sess.init H tR tS).run (pollsOf evs)).1 ∧
    kaTimes ((Sess.init H tR tS).runEv evs).2 = kaTimes ((Sess.init H tR tS).run (pollsOf evs)).2 :=
  runEv_eq_run _ evs

/-- **KEEPALIVE gap with outbound traffic in the schedule**: `ka_gap` for schedules in which
    outbound writes are interleaved with the iterations (long outbound batches only enter
    through `δ`, the distance between iterations). -/
theorem ka_gap_with_outbound (H tR tS δ : Nat) (hH : 3 ≤ H) (evs : List Ev)
    (hg : Gaps δ tS (pollsOf evs)) :
    AdjLt (keepaliveOf H * 1000 + δ) (tS :: kaTimes ((Sess.init H tR tS).runEv evs).2) := by
  rw [(runEv_eq_run _ evs).2]
  exact ka_gap H tR tS δ hH (pollsOf evs) hg

/-- **The timers run on the negotiated hold time, the minimum of the two OPENs** (RFC 4271 4.2):
    both the `ReceiveTimer` of `_establish` and the `SendTimer` of `_main` are created from
    `min localHold peerHold`; zero on either side gives zero. -/
theorem negotiated_hold_is_min (l p tR tS : Nat) :
    (Sess.establish l p tR tS).recv.hold = min l p ∧
    (Sess.establish l p tR tS).send.keepalive = min l p / 3 ∧
    ((l = 0 ∨ p = 0) → (Sess.establish l p tR tS).recv.hold = 0 ∧ (Sess.establish l p tR tS).send.keepalive = 0) ∧
    Sess.establish l p tR tS = Sess.init (min l p) tR tS := by
  refine ⟨rfl, ?_, ?_, rfl⟩
  · simp [Sess.establish, Send.establish, Send.init, negotiatedHold, keepaliveOf_eq]
  · intro h
    have h0 : min l p = 0 := by omega
    simp [Sess.establish, Recv.establish, Send.establish, Recv.init, Send.init, negotiatedHold, keepaliveOf_eq, h0]

/-- **Hold time 0 in either OPEN switches both timers off**: whatever our own configured hold
    time, the session is never ended with 4/0 and no periodic KEEPALIVE is sent, on any schedule,
    outbound traffic included. -/
theorem zero_in_either_open_disables_timers (l p tR tS : Nat) (h : l = 0 ∨ p = 0) (evs : List Ev) :
    (∀ t c sb, ((Sess.establish l p tR tS).runEv evs).1.closed = some (t, c, sb) → (c, sb) = (2, 6)) ∧
    kaTimes ((Sess.establish l p tR tS).runEv evs).2 = [] := by
  have h0 : min l p = 0 := by omega
  rw [establish_eq, h0, (runEv_eq_run _ evs).1, (runEv_eq_run _ evs).2]
  exact ⟨(h0_never_fires tR tS (pollsOf evs)).1, h0_no_periodic_ka tR tS (pollsOf evs)⟩

/-! ### OPENCONFIRM (the hold timer before the first KEEPALIVE)

`openConfirm H tW arrivals now`: the wait for the first KEEPALIVE was entered when the clock read
`tW` (the peer's OPEN has been read, our KEEPALIVE written); `arrivals` is what `read_message` has
returned since, NOPs included, with the clock reading of each.  The timer of this phase is a single
`asyncio.wait_for(…, timeout=H)`: it is not re-armed by anything and only the first *complete* real
message ends it; bytes of a message still incomplete at `tW + H` s do not count as received. -/

/-- **OPENCONFIRM: a silent peer is closed with 4/0 exactly H seconds after the wait began.**
    For every H > 0: if no real message is complete within `H·1000` ms of `tW`, then from
    `tW + H·1000` on the outcome is NOTIFICATION 4/0, raised at `tW + H·1000` (no truncation slack:
    the event loop's clock, not `int(time.time())`) — whatever arrives later. -/
theorem c12_openconfirm_expires (H tW now : Nat) (hH : H ≠ 0) (arrivals : List Poll)
    (hsil : ∀ q ∈ arrivals, q.kind.real = true → tW + H * 1000 < q.t)
    (hnow : tW + H * 1000 ≤ now) :
    openConfirm H tW arrivals now = .notify (tW + H * 1000) 4 0 := by
  unfold openConfirm
  cases hf : firstReal arrivals with
  | none => simp [hH, hnow, openConfirmNotify_eq]
  | some p =>
    obtain ⟨hm, hr⟩ := firstReal_mem arrivals p hf
    have := hsil p hm hr
    simp [hH, this, openConfirmNotify_eq]

/-- **OPENCONFIRM: never closed for a silence shorter than H.** If the outcome is 4/0 then H > 0,
    it was raised exactly `H·1000` ms after the wait began, and every real message of the (time
    ordered) arrival sequence came strictly later: nothing was received between the peer's OPEN
    and the expiry.  So the sentence holds in OPENCONFIRM too — with the reading that "received"
    means a complete message: the single `wait_for` is not re-armed by the first bytes of a
    KEEPALIVE that is still incomplete when it fires. -/
theorem c12_openconfirm_not_early (H tW now prev t : Nat) (arrivals : List Poll) (hm : Mono prev arrivals)
    (h : openConfirm H tW arrivals now = .notify t 4 0) :
    H ≠ 0 ∧ t = tW + H * 1000 ∧ ∀ q ∈ arrivals, q.kind.real = true → t < q.t := by
  unfold openConfirm at h
  cases hf : firstReal arrivals with
  | none =>
    rw [hf] at h
    simp only at h
    by_cases hc : H ≠ 0 ∧ tW + H * 1000 ≤ now
    · rw [if_pos hc] at h
      injection h with h1 _ _
      refine ⟨hc.1, h1.symm, ?_⟩
      intro q hq hr
      have := firstReal_none arrivals hf q hq
      rw [this] at hr; cases hr
    · rw [if_neg hc] at h; cases h
  | some p =>
    rw [hf] at h
    simp only at h
    by_cases hc : H ≠ 0 ∧ tW + H * 1000 < p.t
    · rw [if_pos hc] at h
      injection h with h1 _ _
      refine ⟨hc.1, h1.symm, ?_⟩
      intro q hq hr
      have := firstReal_le prev arrivals hm p hf q hq hr
      omega
    · rw [if_neg hc] at h
      by_cases hr : H ≠ 0 ∧ p.t = tW + H * 1000
      · rw [if_pos hr] at h; cases h
      · rw [if_neg hr] at h
        by_cases hk : p.kind.isKeepalive = true
        · simp [hk] at h
        · simp [hk, openConfirmUnexpected_eq] at h

/-- **OPENCONFIRM with hold time 0: no timer.** Whatever arrives and however long nothing does,
    the outcome is never 4/0 (and never a race with a timeout): the session waits in OPENCONFIRM
    until the first real message — KEEPALIVE → established, anything else → 5/2. -/
theorem c12_openconfirm_hold0 (tW now : Nat) (arrivals : List Poll) :
    (∀ t c sb, openConfirm 0 tW arrivals now = .notify t c sb → (c, sb) = (5, 2)) ∧
    (∀ t, openConfirm 0 tW arrivals now ≠ .race t) ∧
    (firstReal arrivals = none → openConfirm 0 tW arrivals now = .waiting) := by
  unfold openConfirm
  cases hf : firstReal arrivals with
  | none => simp
  | some p =>
    by_cases hk : p.kind.isKeepalive = true
    · simp [hk]
    · simp [hk, openConfirmUnexpected_eq]

/-- **OPENCONFIRM: a KEEPALIVE in time establishes the session**, at the instant it is read. -/
theorem c12_openconfirm_keepalive_in_time (H tW now : Nat) (arrivals : List Poll) (p : Poll)
    (hf : firstReal arrivals = some p) (hk : p.kind.isKeepalive = true)
    (ht : H = 0 ∨ p.t < tW + H * 1000) :
    openConfirm H tW arrivals now = .established p.t := by
  unfold openConfirm
  rw [hf]
  have h1 : ¬ (H ≠ 0 ∧ tW + H * 1000 < p.t) := by omega
  have h2 : ¬ (H ≠ 0 ∧ p.t = tW + H * 1000) := by omega
  simp [h1, h2, hk]

/-- **The first KEEPALIVE moves the session to the established timers.** After a first KEEPALIVE
    read at `a`, with negotiated H = min(our hold time, the peer's) > 0, the established-phase
    bounds hold with the silence counted from `a` (not from the creation of the `ReceiveTimer`):
    never 4/0 before `H·1000` ms of silence, closed once polled at `(H+1)·1000` ms of silence. -/
theorem c12_openconfirm_handover (l p tC a tS : Nat) (hH : min l p ≠ 0) (ps : List Poll) :
    (∀ t c sb, ((Sess.afterOpenConfirm l p tC a tS).run ps).1.closed = some (t, c, sb) →
      ∃ pre q post, ps = pre ++ q :: post ∧ q.t = t ∧ c = 4 ∧ sb = 0 ∧ q.kind.real = false ∧
        lastRealMs a pre + min l p * 1000 < t) ∧
    (ps ≠ [] → lastRealMs a ps + (min l p + 1) * 1000 ≤ lastPollMs tS ps →
      ((Sess.afterOpenConfirm l p tC a tS).run ps).1.closed ≠ none) := by
  have inv := inv_afterOpenConfirm l p tC a tS hH
  refine ⟨?_, ?_⟩
  · intro t c sb hc
    obtain ⟨pre, q, post, h1, h2, h3, h4, h5, h6, _⟩ := closed_split _ hH ps _ a tS inv t c sb hc
    exact ⟨pre, q, post, h1, h2, h3, h4, h5, h6⟩
  · intro hne hs
    exact expired_of_silence _ hH ps _ a tS tS inv hne hs

/-- **OPEN wait.** A peer OPEN that is not complete within `openwait` seconds (or never) ends the
    attempt with 5/1; one that is complete earlier does not.  (At exactly `openwait` the two
    callbacks are ready in the same event-loop iteration; asyncio decides.) -/
theorem openwait_5_1 (w : Nat) :
    openWait w none = .notify 5 1 ∧
    (∀ a, w * 1000 < a → openWait w (some a) = .notify 5 1) ∧
    (∀ a, a < w * 1000 → openWait w (some a) = .opened) := by
  refine ⟨rfl, ?_, ?_⟩
  · intro a h
    have h1 : ¬ a < w * 1000 := by omega
    have h2 : ¬ a = w * 1000 := by omega
    simp [openWait, h1, h2]; decide
  · intro a h
    simp [openWait, h]

/-! ## Non-vacuity and tightness: each bound is attained on a concrete schedule -/

def nop (t : Nat) : Poll := { t := t, kind := Kind.nop }
def ka (t : Nat) : Poll := { t := t, kind := Kind.keepalive }
def upd (t : Nat) : Poll := { t := t, kind := Kind.update }

/-- the literal kinds used in the examples are the rows of the generated table -/
example : Kind.ofName "nop" = some Kind.nop ∧ Kind.ofName "keepalive" = some Kind.keepalive ∧
    Kind.ofName "update" = some Kind.update ∧ Kind.ofName "no-such-kind" = none := by decide
example : Kind.nop.real = false ∧ Kind.keepalive.real = true ∧ Kind.keepalive.isKeepalive = true ∧
    Kind.update.real = true ∧ Kind.update.isKeepalive = false := by decide

/-- H = 3, last real message at 1000.999 s: the timer fires at 1004.000 s, a silence of
    3001 ms = H·1000 + 1 (the lower bound of `no_early_expiry` is attained) … -/
example : ((Sess.init 3 1000000 1000000).run [upd 1000999, nop 1003999, nop 1004000]).1.closed
    = some (1004000, 4, 0) := by decide
/-- … and with the last real message at 1000.000 s a poll at 1003.999 s (silence 3999 ms =
    (H+1)·1000 − 1) does not fire: the extra second of `expiry_by` is needed. -/
example : ((Sess.init 3 1000000 1000000).run [upd 1000000, nop 1003999]).1.closed = none := by decide
example : ((Sess.init 3 1000000 1000000).run [upd 1000000, nop 1003999, nop 1004000]).1.closed
    = some (1004000, 4, 0) := by decide
/-- a burst of real messages keeps the session up however long it lasts -/
example : ((Sess.init 3 0 0).run [upd 3000, ka 6000, upd 9000, ka 12000, nop 15999]).1.closed = none := by decide
/-- the hypotheses of `hold_expiry_window` are satisfiable: δ = 100 -/
example : Gaps 100 1000000 [nop 1000100, nop 1000200, upd 1000250] := by simp [Gaps, nop, upd]

/-- H = 9 (keepalive 3 s), polls every 1000 ms from 1000.999: KEEPALIVEs at 1003.999, 1006.999 —
    gaps of 3000 ms, inside (2000, 3000 + δ) -/
example : kaTimes ((Sess.init 9 1000999 1000999).run
    [ka 1001999, nop 1002999, nop 1003999, ka 1004999, nop 1005999, nop 1006999]).2 = [1003999, 1006999] := by decide
/-- the gap bound is attained: SendTimer created at 1000.000, H = 3, δ = 1000: polls at 1000.999
    (not due: second 1000 < 1000 + 1) and 1001.999 → first KEEPALIVE 1999 ms after creation
    = ⌊3/3⌋·1000 + δ − 1 -/
example : kaTimes ((Sess.init 3 1000000 1000000).run [upd 1000999, upd 1001999]).2 = [1001999]
    ∧ Gaps 1000 1000000 [upd 1000999, upd 1001999] := by
  refine ⟨by decide, by simp [Gaps, upd]⟩

/-- H = 0: silence for a day does nothing; one KEEPALIVE is tolerated; the second gives 2/6 -/
example : ((Sess.init 0 0 0).run [nop 86400000, ka 86400001, upd 86400002]).1.closed = none := by decide
example : ((Sess.init 0 0 0).run [ka 1000, upd 2000, ka 3000, nop 4000]).1.closed = some (3000, 2, 6) := by decide
example : kaTimes ((Sess.init 0 0 0).run [nop 1000, nop 100000, ka 200000]).2 = [] := by decide

/-- our hold time 180, the peer's OPEN says 0: 181 s (and a day) of silence do nothing -/
example : ((Sess.establish 180 0 0 0).runEv
    [.out 100 .update, .poll (nop 181000), .poll (nop 182000), .poll (nop 86400000)]).1.closed = none := by decide
/-- H = 9 with an UPDATE written just before every due instant: the KEEPALIVEs still go out -/
example : kaTimes ((Sess.establish 9 180 0 0).runEv
    [.out 2900 .update, .poll (nop 3000), .out 5900 .update, .out 5950 .eor, .poll (nop 6000)]).2 = [3000, 6000] := by decide

/-- OPENCONFIRM, H = 3, wait entered at 1000.250: silent → 4/0 at 1003.250 (exactly 3000 ms, no
    whole-second slack); a KEEPALIVE complete at 1003.249 establishes; one at 1003.251 is too late;
    NOPs and an UPDATE: 5/2; before the deadline: still waiting -/
example : openConfirm 3 1000250 [nop 1000350, nop 1003200] 1003250 = .notify 1003250 4 0 := by decide
example : openConfirm 3 1000250 [nop 1000350] 1003249 = .waiting := by decide
example : openConfirm 3 1000250 [nop 1000350, ka 1003249] 1009000 = .established 1003249 := by decide
example : openConfirm 3 1000250 [nop 1000350, ka 1003251] 1009000 = .notify 1003250 4 0 := by decide
example : openConfirm 3 1000250 [upd 1001000, ka 1001001] 1009000 = .notify 1001000 5 2 := by decide
/-- hold time 0: a day in OPENCONFIRM, then the KEEPALIVE -/
example : openConfirm 0 0 [nop 1000] 86400000 = .waiting ∧
    openConfirm 0 0 [nop 1000, ka 86400000] 86400001 = .established 86400000 := by decide
/-- the established timer counts from the first KEEPALIVE (read at 2.900 s), not from 0 -/
example : ((Sess.afterOpenConfirm 3 180 0 2900 2900).run [nop 5999]).1.closed = none ∧
    ((Sess.afterOpenConfirm 3 180 0 2900 2900).run [nop 5999, nop 6000]).1.closed = some (6000, 4, 0) := by decide
example : Mono 0 [nop 1000350, ka 1003251] := by simp [Mono, nop, ka]

example : openWait 60 (some 59999) = .opened ∧ openWait 60 (some 60001) = .notify 5 1 := by decide

end Exa.Props.C12
